(* C01 / C02 — every tree-editing call of Model/Edit.v, and every history of such calls, keeps the
   heap a consistent forest.
     A. states: [consistent], the three primitive steps (alloc, extract, _insert) on states
     B. the calls that insert (insert, append, extend, insert_before, insert_after, replace_with, wrap, unwrap)
     C. extract, clear, decompose, .string=, smooth
     D. operations [op], the executable admissibility test [wf_op_b], histories, fragments
     E. soundness of the executable checkers of Spec/Tree.v, examples
     F. remarks on the definitions (why [consistent] has its last clause)
   Main statements: alloc_consistent, op_*_consistent, wf_op_b_sound, op_total(_b), op_consistent,
   history_consistent, fragments_detached, cons_b_sound.  (insert1_move_rep is in Proofs/EditBase.v.)

   How the proofs go.  Each call is a sequence of three kinds of steps on states: alloc, extract and the
   general _insert ([move_into], from insert1_move_rep).  Every step keeps [consistent]; besides, it keeps
   the static fields of the old cells and only ever REMOVES ancestors of the destination d ([evo d]);
   an insertion step also leaves every old cell's parent unchanged or makes it d ([into d]).  An argument
   is admissible for d when it is a plain string or a live element that is not d nor an ancestor of d
   ([arg_ok], executable: [arg_ok_b]); admissibility of the pending arguments survives the earlier
   steps of the same call because of [evo].  No condition on positions, on repeated arguments or on
   arguments nested in one another is needed: _insert clips the position, and re-inserting or moving a
   descendant is just another move.  BeautifulSoup arguments (kind KSoup) are expanded to their children
   by the code; an ancestor test on the object itself covers its children. *)
From Coq Require Import List Arith Bool Lia Permutation.
From BS Require Import Base.Sexp Model.Heap Model.Iter Model.Edit Model.EditOps Spec.Tree Proofs.HeapBasics Proofs.Views
  Proofs.ExtractRep Proofs.InsertRep Proofs.EditFrames Proofs.EditBase.
Import ListNotations.

(* ------------------------------------------------------------------------------------------ *)
(* A. states                                                                                  *)
(* ------------------------------------------------------------------------------------------ *)

Definition live (s : st) (x : nat) : Prop := x < nxt s /\ dead (hp s x) = false.

(* the state is a consistent forest: the heap represents F, F covers exactly the live allocated ids,
   and only BeautifulSoup objects stand outside their own element chain *)
Definition cons_with (F : forest) (s : st) : Prop :=
  rep F (hp s) /\
  (forall x, In x (fids F) -> x < nxt s) /\
  (forall x, x < nxt s -> dead (hp s x) = false -> In x (fids F)) /\
  (forall x, In x (fids F) -> dead (hp s x) = false) /\
  (forall T, In (T, false) F -> kind (hp s (rid T)) = KSoup).

Definition consistent (s : st) : Prop := exists F, cons_with F s.

Lemma cons_live F s x : cons_with F s -> (In x (fids F) <-> live s x).
Proof.
  intros (_ & H1 & H2 & H3 & _). unfold live. split.
  - intros H. split; auto.
  - intros [A B]. auto.
Qed.

Lemma NoDup_lt_length (l : list nat) n : NoDup l -> (forall x, In x l -> x < n) -> length l <= n.
Proof.
  intros ND H. rewrite <- (seq_length n 0). apply NoDup_incl_length; [exact ND|].
  intros x Hx. apply in_seq. specialize (H x Hx). lia.
Qed.

Lemma cons_fuel F s : cons_with F s -> length (fids F) <= fuel_of s.
Proof.
  intros ([ND _] & H1 & _). unfold fuel_of. pose proof (NoDup_lt_length _ _ ND H1). lia.
Qed.

Lemma cons_tree_fuel F s T b : cons_with F s -> In (T, b) F -> length (pre T) < fuel_of s.
Proof.
  intros ([ND _] & H1 & _) HT. unfold fuel_of. pose proof (NoDup_lt_length _ _ ND H1).
  pose proof (fids_tree_le F T b HT). lia.
Qed.

(* re-establishing the invariant after a step that keeps ids, kinds and liveness *)
Lemma cons_step F F' s h' :
  cons_with F s -> rep F' h' -> Permutation (fids F') (fids F) -> flags_from F F' ->
  (forall y, meta (h' y) = meta (hp s y)) -> cons_with F' (with_heap s h').
Proof.
  intros (R & H1 & H2 & H3 & H4) R' HP Fl Hm. unfold cons_with, with_heap. cbn [hp nxt].
  split; [exact R'|]. split; [|split; [|split]].
  - intros x Hx. apply H1. eapply Permutation_in; eauto.
  - intros x Hx Hd. rewrite (meta_dead _ _ (Hm x)) in Hd. eapply Permutation_in; [symmetry; exact HP|]. auto.
  - intros x Hx. rewrite (meta_dead _ _ (Hm x)). apply H3. eapply Permutation_in; eauto.
  - intros T' HT'. destruct (Fl T' HT') as (T & HT & E). rewrite (meta_kind _ _ (Hm _)), <- E. now apply H4.
Qed.

Lemma cons_perm F F' s : Permutation F F' -> cons_with F s -> cons_with F' s.
Proof.
  intros HP (R & H1 & H2 & H3 & H4). pose proof (fids_perm _ _ HP) as HPf.
  split; [eapply rep_perm; eauto|]. split; [|split; [|split]].
  - intros x Hx. apply H1. eapply Permutation_in; [symmetry; exact HPf|exact Hx].
  - intros x Hx Hd. eapply Permutation_in; [exact HPf|]. auto.
  - intros x Hx. apply H3. eapply Permutation_in; [symmetry; exact HPf|exact Hx].
  - intros T HT. apply H4. eapply Permutation_in; [symmetry; exact HP|exact HT].
Qed.

(* ---- what consistency says about one live element ---- *)

Lemma live_tree F s x : cons_with F s -> live s x ->
  exists T b F1, Permutation F ((T, b) :: F1) /\ In x (pre T) /\ rep1 (hp s) T b /\ cons_with ((T, b) :: F1) s.
Proof.
  intros C L. apply (cons_live F s x C) in L. destruct (forest_split F x L) as (T & b & F1 & HP & Hx).
  pose proof (cons_perm _ _ _ HP C) as C'. exists T, b, F1. repeat (split; [assumption|]).
  split; [|exact C']. destruct C' as (R & _). now apply rep_head in R.
Qed.

(* the parent of a live element is a live tag that lists it *)
Lemma parent_facts s x p : consistent s -> live s x -> par (hp s x) = Some p ->
  live s p /\ is_tag (hp s) p = true /\ In x (kids (hp s p)).
Proof.
  intros [F C] L P. destruct (live_tree F s x C L) as (T & b & F1 & HP & Hx & R1 & C').
  destruct R1 as (Hok & Hr & _).
  destruct (par_closed (hp s) T Hok Hr x p Hx P) as (u & Hu & Eu & Hxu).
  destruct (Hok u Hu) as (K & _ & _ & Hleaf). rewrite Eu in K, Hleaf. split; [|split].
  - apply (cons_live _ _ _ C'). rewrite fids_cons. apply in_or_app. left. rewrite <- Eu. now apply subterms_rid_in.
  - destruct (is_tag (hp s) p); [reflexivity|]. rewrite (Hleaf eq_refl) in Hxu. contradiction.
  - now rewrite K.
Qed.

(* the children of a live element are live and point back to it *)
Lemma kids_facts s x c : consistent s -> live s x -> In c (kids (hp s x)) ->
  live s c /\ par (hp s c) = Some x.
Proof.
  intros [F C] L Hc. destruct (live_tree F s x C L) as (T & b & F1 & HP & Hx & R1 & C').
  destruct R1 as (Hok & Hr & _). destruct (in_pre_subterm T x Hx) as (u & Hu & Eu).
  destruct (Hok u Hu) as (K & _ & Hpar & _). rewrite Eu in K, Hpar. rewrite K in Hc.
  apply in_map_iff in Hc. destruct Hc as (k & <- & Hk). split; [|now apply Hpar].
  apply (cons_live _ _ _ C'). rewrite fids_cons. apply in_or_app. left.
  apply (subterms_kid_rid_in T u k Hu Hk).
Qed.

Lemma kids_NoDup s x : consistent s -> live s x -> NoDup (kids (hp s x)).
Proof.
  intros [F C] L. destruct (live_tree F s x C L) as (T & b & F1 & HP & Hx & R1 & C').
  pose proof (rep1_NoDup _ _ _ R1) as ND.
  destruct R1 as (Hok & Hr & _). destruct (in_pre_subterm T x Hx) as (u & Hu & Eu).
  destruct (Hok u Hu) as (K & _). rewrite Eu in K. rewrite K.
  apply NoDup_map_rid. destruct (subterm_seg u T Hu) as (A & B & E). rewrite E in ND.
  apply NoDup_app_r in ND. apply NoDup_app_l in ND. rewrite pre_rid in ND. now inversion ND.
Qed.

(* ancestors of a live element are live *)
Lemma anc_live s a x : consistent s -> live s x -> anc (hp s) a x -> live s a.
Proof.
  intros [F C] L H. destruct (live_tree F s x C L) as (T & b & F1 & HP & Hx & R1 & C').
  destruct R1 as (Hok & Hr & _). pose proof (anc_closed (hp s) T Hok Hr a x H Hx) as Ha.
  apply (cons_live _ _ _ C'). rewrite fids_cons. apply in_or_app. now left.
Qed.

(* no element is an ancestor of its own parent *)
Lemma acyclic s x p : consistent s -> live s x -> par (hp s x) = Some p -> ~ anc (hp s) x p.
Proof.
  intros [F C] L P H. destruct (live_tree F s x C L) as (T & b & F1 & HP & Hx & R1 & C').
  pose proof (rep1_NoDup _ _ _ R1) as ND. destruct R1 as (Hok & Hr & _).
  destruct (par_closed (hp s) T Hok Hr x p Hx P) as (u & Hu & Eu & Hxu).
  apply in_map_iff in Hxu. destruct Hxu as (k & Ek & Hk).
  assert (HkT : In k (subterms T)).
  { apply (InsertRep.subterms_trans T u k Hu). apply (in_subterms_kid k k u Hk). apply subterms_self. }
  assert (HpT : In p (pre T)) by (rewrite <- Eu; now apply subterms_rid_in).
  rewrite <- Ek in H. pose proof (anc_pre_sub (hp s) T Hok Hr k HkT p H HpT) as Hpk.
  destruct (subterm_seg u T Hu) as (A & B & E). rewrite E in ND.
  apply NoDup_app_r in ND. apply NoDup_app_l in ND. rewrite pre_rid, Eu in ND. inversion ND as [|? ? Hn _]; subst.
  apply Hn. apply in_pres. exists k. auto.
Qed.

(* the executable ancestor test is exact on consistent states *)
Lemma is_anc_b_false s a x : consistent s -> live s x -> is_anc_b (fuel_of s) (hp s) a x = false -> ~ anc (hp s) a x.
Proof.
  intros [F C] L E H. destruct (live_tree F s x C L) as (T & b & F1 & HP & Hx & R1 & C').
  rewrite (is_anc_b_complete (hp s) T b (fuel_of s) a x R1 Hx) in E; [discriminate| |exact H].
  apply (cons_tree_fuel _ _ T b C'). now left.
Qed.

(* ---- alloc ---- *)

Lemma agree_refl_on h h' y : h' y = h y -> agree h h' y.
Proof. intros E. unfold agree. rewrite E. repeat split. Qed.

Lemma with_heap_id s : with_heap s (hp s) = s.
Proof. destruct s; reflexivity. Qed.

Lemma alloc_cons F s k t : cons_with F s -> cons_with ((Node (nxt s) [], true) :: F) (fst (alloc s k t)).
Proof.
  intros (R & H1 & H2 & H3 & H4). unfold alloc. cbn [fst].
  remember (nxt s) as n eqn:En. remember (upd (hp s) n (blank k t)) as h' eqn:Eh'.
  assert (Hn : ~ In n (fids F)) by (intros H; apply H1 in H; lia).
  assert (Hsame : forall y, y <> n -> h' y = hp s y) by (intros; subst h'; now apply upd_other).
  assert (Hnew : h' n = blank k t) by (subst h'; apply upd_same).
  assert (Hne : forall y, In y (fids F) -> y <> n) by (intros y Hy ->; auto).
  unfold cons_with. cbn [hp nxt]. split; [|split; [|split; [|split]]].
  - destruct R as [ND HF]. split.
    + rewrite fids_cons. cbn [pre flat_map app]. constructor; assumption.
    + constructor.
      * cbn [fst snd]. unfold rep1. cbn [rid subterms flat_map pre]. rewrite Hnew. cbn [blank par ps ns].
        split; [|repeat (split; [reflexivity|])].
        -- intros u [<-|[]]. unfold node_ok. cbn [rid tkids map]. rewrite Hnew. cbn [blank kids].
           split; [reflexivity|]. split; [|split; [|reflexivity]].
           ++ intros i x Hx. destruct i; discriminate.
           ++ intros c [].
        -- intros i x Hx. destruct i as [|i]; [|destruct i; discriminate]. cbn in Hx. inversion Hx; subst x.
           rewrite Hnew. cbn. split; reflexivity.
      * rewrite Forall_forall in HF |- *. intros [T b] HT. cbn [fst snd]. apply (rep1_agree (hp s)); [|apply (HF _ HT)].
        intros y Hy. apply agree_refl_on. apply Hsame. apply Hne. apply in_fids. exists T, b. auto.
  - intros x Hx. rewrite fids_cons in Hx. cbn in Hx. destruct Hx as [<-|Hx]; [lia|apply H1 in Hx; lia].
  - intros x Hx Hd. rewrite fids_cons. cbn. destruct (Nat.eq_dec n x) as [E|N]; [now left|right].
    apply H2; [lia|]. rewrite <- Hsame by congruence. exact Hd.
  - intros x Hx. rewrite fids_cons in Hx. cbn in Hx. destruct Hx as [<-|Hx]; [now rewrite Hnew|].
    rewrite Hsame by auto. now apply H3.
  - intros T [HT|HT]; [discriminate|]. rewrite Hsame; [now apply H4|]. apply Hne. apply in_fids.
    exists T, false. split; [exact HT | apply InsertRep.rid_in_pre].
Qed.

(* 2. alloc: a fresh cell is a new singleton tree *)
Theorem alloc_consistent s k t : consistent s -> consistent (fst (alloc s k t)).
Proof. intros [F C]. eexists. eapply alloc_cons; eauto. Qed.

(* ---- extract ---- *)

Lemma extract_cons F s x : cons_with F s -> live s x ->
  exists F', cons_with F' (with_heap s (extract (fuel_of s) (hp s) x)) /\
    (exists T b, In (T, b) F' /\ rid T = x) /\
    (forall p, par (hp s x) = Some p -> ~ anc (extract (fuel_of s) (hp s) x) x p).
Proof.
  intros C L. pose proof (proj2 (cons_live F s x C) L) as Hx. pose proof (cons_fuel F s C) as Hf.
  pose proof C as (R & _).
  destruct (par (hp s x)) as [p|] eqn:P.
  - destruct (inner_extract F (hp s) x p (fuel_of s) R Hx P Hf) as (T & b & F1 & T' & t & HP & Hr & E & Ht & HtT & R1 & Hp).
    exists ((T', b) :: (t, true) :: F1).
    assert (HD : detached F x t ((T', b) :: F1)) by (right; exists T, b, T', F1; auto).
    split; [|split].
    + apply (cons_step F); auto.
      * pose proof (detached_perm _ _ _ _ HD Ht) as P1. symmetry. eapply perm_trans; [exact P1|].
        rewrite !fids_cons. rewrite !app_assoc. apply Permutation_app_tail. apply Permutation_app_comm.
      * intros T0 [HT0|[HT0|HT0]]; [|discriminate|].
        -- apply (detached_flags _ _ _ _ HD). now left.
        -- apply (detached_flags _ _ _ _ HD). now right.
      * intros y. apply extract_meta.
    + exists t, true. split; [right; now left | exact Ht].
    + intros p0 [= <-] H. pose proof (rep_head _ _ _ _ R1) as (Hok & Hr1 & _).
      pose proof (anc_closed _ T' Hok Hr1 x p H Hp) as HxT'.
      destruct R1 as [ND _]. rewrite !fids_cons in ND.
      apply (NoDup_app_disj _ _ x ND HxT'). apply in_or_app. left. rewrite <- Ht. apply InsertRep.rid_in_pre.
  - destruct (forest_split F x Hx) as (T & b & F1 & HP & HxT).
    pose proof (rep_perm _ _ _ HP R) as R'. pose proof (rep_head _ _ _ _ R') as (Hok & Hr & _).
    assert (Ex : x = rid T) by (eapply par_none_root; eauto).
    exists ((T, b) :: F1). split; [|split].
    + apply (cons_step F); auto.
      * rewrite Ex. apply extract_root_rep; [exact R'|].
        pose proof (Permutation_length (fids_perm _ _ HP)) as HL. rewrite fids_cons, app_length in HL. lia.
      * symmetry. now apply fids_perm.
      * intros T0 HT0. exists T0. split; [|reflexivity]. eapply Permutation_in; [symmetry; exact HP|exact HT0].
      * intros y. apply extract_meta.
    + exists T, b. split; [now left | now symmetry].
    + intros p0 [=].
Qed.

(* 2. extract() keeps the state consistent *)
Theorem op_extract_consistent s x s' : consistent s -> live s x -> op_extract s x = Ok s' -> consistent s'.
Proof.
  intros [F C] L E. unfold op_extract in E. inversion E; subst s'.
  destruct (extract_cons F s x C L) as (F' & C' & _). now exists F'.
Qed.

(* 5. what extract() hands back is the root of a tree of the forest: no parent, no siblings, an element
   chain closed at both ends (that is what [rep1 _ T true] says of a tree) *)
Theorem extract_fragment_detached s x s' : consistent s -> live s x -> op_extract s x = Ok s' ->
  exists F' T b, cons_with F' s' /\ In (T, b) F' /\ rid T = x /\ rep1 (hp s') T b.
Proof.
  intros [F C] L E. unfold op_extract in E. inversion E; subst s'.
  destruct (extract_cons F s x C L) as (F' & C' & (T & b & HT & Hx) & _).
  exists F', T, b. repeat (split; [assumption|]). destruct C' as (R & _). eapply rep_in; eauto.
Qed.

(* ---- state evolution ---- *)

(* s' is a later consistent state: ids and the static fields are kept, d has no new ancestor *)
Definition evo (d : nat) (s s' : st) : Prop :=
  consistent s' /\ nxt s <= nxt s' /\ (forall y, y < nxt s -> meta (hp s' y) = meta (hp s y)) /\
  (forall a, anc (hp s') a d -> anc (hp s) a d).

(* ... and every old element kept its parent or became a child of d *)
Definition into (d : nat) (s s' : st) : Prop :=
  evo d s s' /\ (forall y, y < nxt s -> par (hp s' y) = par (hp s y) \/ par (hp s' y) = Some d).

Lemma evo_refl d s : consistent s -> evo d s s.
Proof. intros C. repeat split; auto. Qed.

Lemma evo_trans d s1 s2 s3 : evo d s1 s2 -> evo d s2 s3 -> evo d s1 s3.
Proof.
  intros (_ & N1 & M1 & A1) (C & N2 & M2 & A2). split; [exact C|]. split; [lia|]. split.
  - intros y Hy. rewrite M2 by lia. now apply M1.
  - intros a H. apply A1, A2, H.
Qed.

Lemma into_refl d s : consistent s -> into d s s.
Proof. intros C. split; [now apply evo_refl|]. intros y _. now left. Qed.

Lemma into_trans d s1 s2 s3 : into d s1 s2 -> into d s2 s3 -> into d s1 s3.
Proof.
  intros [E1 P1] [E2 P2]. split; [eapply evo_trans; eauto|]. intros y Hy.
  assert (Hy2 : y < nxt s2) by (destruct E1 as (_ & N & _); lia).
  destruct (P2 y Hy2) as [Q|Q]; [|now right]. rewrite Q. now apply P1.
Qed.

Lemma evo_consistent d s s' : evo d s s' -> consistent s'.
Proof. intros H. apply H. Qed.

Lemma evo_live d s s' x : evo d s s' -> live s x -> live s' x.
Proof.
  intros (_ & N & M & _) [L D]. split; [lia|]. rewrite (meta_dead _ _ (M x L)). exact D.
Qed.

Lemma evo_kind d s s' x : evo d s s' -> x < nxt s -> kind (hp s' x) = kind (hp s x).
Proof. intros (_ & _ & M & _) L. exact (meta_kind _ _ (M x L)). Qed.

Lemma evo_tag d s s' x : evo d s s' -> live s x -> is_tag (hp s') x = is_tag (hp s) x.
Proof. intros E [L _]. apply is_tag_ext. eapply evo_kind; eauto. Qed.

Lemma evo_nanc d s s' a : evo d s s' -> ~ anc (hp s) a d -> ~ anc (hp s') a d.
Proof. intros (_ & _ & _ & A) N H. apply N, A, H. Qed.

(* extract() as an evolution, for every d *)
Lemma extract_evo d s x : consistent s -> live s x -> evo d s (with_heap s (extract (fuel_of s) (hp s) x)).
Proof.
  intros [F C] L. destruct (extract_cons F s x C L) as (F' & C' & _).
  split; [now exists F'|]. cbn [with_heap nxt hp]. split; [lia|]. split.
  - intros y _. apply extract_meta.
  - intros a. apply anc_cut. intros y p. destruct (Nat.eq_dec y x) as [->|N].
    + rewrite extract_par_self. discriminate.
    + now rewrite extract_par_other by exact N.
Qed.

(* alloc as an evolution *)
Lemma alloc_into d s k t : consistent s -> live s d ->
  let s' := fst (alloc s k t) in let x := snd (alloc s k t) in
  into d s s' /\ x = nxt s /\ live s' x /\ hp s' x = blank k t /\ ~ anc (hp s') x d.
Proof.
  intros C L. cbv zeta. pose proof (alloc_consistent s k t C) as C'.
  unfold alloc in *. cbn [fst snd hp nxt] in *.
  assert (Hcut : forall a, anc (upd (hp s) (nxt s) (blank k t)) a d -> anc (hp s) a d).
  { intros a. apply anc_cut. intros y p. destruct (Nat.eq_dec y (nxt s)) as [->|N].
    - rewrite upd_same. discriminate.
    - now rewrite upd_other by exact N. }
  split; [|split; [reflexivity|split; [|split]]].
  - split; [split; [exact C'|]|]; cbn [hp nxt].
    + split; [lia|]. split; [|exact Hcut]. intros y Hy. rewrite upd_other by lia. reflexivity.
    + intros y Hy. left. rewrite upd_other by lia. reflexivity.
  - split; cbn [hp nxt]; [lia|]. now rewrite upd_same.
  - apply upd_same.
  - intros H. apply Hcut in H. pose proof (anc_live s _ d C L H) as [Hlt _]. lia.
Qed.

(* ---- _insert ---- *)

Lemma insert1_frame fuel h self pos nc h' : insert1 fuel h self pos nc = Some h' ->
  (forall y, meta (h' y) = meta (h y)) /\ (forall y, y <> nc -> par (h' y) = par (h y)) /\ par (h' nc) = Some self.
Proof.
  intros H. rewrite insert1_eq in H. destruct (Nat.eqb nc self); [discriminate|]. cbv zeta in H.
  assert (T1 : forall h1 q, (forall y, meta (h1 y) = meta (h y)) -> (forall y, y <> nc -> par (h1 y) = par (h y)) ->
               h' = ins_tail fuel h1 self q nc ->
               (forall y, meta (h' y) = meta (h y)) /\ (forall y, y <> nc -> par (h' y) = par (h y)) /\ par (h' nc) = Some self).
  { intros h1 q M P ->. split; [|split].
    - intros y. now rewrite ins_tail_meta.
    - intros y Hy. rewrite ins_tail_par_other by exact Hy. now apply P.
    - apply ins_tail_par_self. }
  assert (TX : forall q, h' = ins_tail fuel (extract fuel h nc) self q nc ->
               (forall y, meta (h' y) = meta (h y)) /\ (forall y, y <> nc -> par (h' y) = par (h y)) /\ par (h' nc) = Some self).
  { intros q. apply T1; [intros y; apply extract_meta | intros y Hy; now apply extract_par_other]. }
  destruct (par (h nc)) as [p|] eqn:P.
  - destruct (Nat.eqb_spec p self) as [->|Hps]; [|injection H as <-; eapply TX; reflexivity].
    destruct (index_of nc (kids (h self))) as [cur|]; [|injection H as <-; eapply TX; reflexivity].
    destruct (Nat.ltb cur _); [injection H as <-; eapply TX; reflexivity|].
    destruct (Nat.eqb cur _); [|injection H as <-; eapply TX; reflexivity].
    injection H as <-. repeat split; auto.
  - injection H as <-. eapply T1; auto.
Qed.

Lemma move_cons F s d pos nc h' :
  cons_with F s -> live s d -> is_tag (hp s) d = true -> live s nc -> ~ anc (hp s) nc d ->
  (kind (hp s nc) <> KSoup \/ par (hp s nc) <> None) ->
  insert1 (fuel_of s) (hp s) d pos nc = Some h' ->
  exists F', cons_with F' (with_heap s h').
Proof.
  intros C Ld Htag Lnc Hanc Hk Hins. pose proof C as (R & _ & _ & _ & H4).
  assert (Hun : unlinked_ok F nc).
  { intros T HT E. exfalso. pose proof (rep_in _ _ _ _ R HT) as (_ & Hr & _). rewrite E in Hr.
    specialize (H4 T HT). rewrite E in H4. destruct Hk as [Hk|Hk]; congruence. }
  destruct (insert1_move_rep F (hp s) d pos nc (fuel_of s) h' R
              (proj2 (cons_live F s d C) Ld) (proj2 (cons_live F s nc C) Lnc) Htag Hanc Hun (cons_fuel F s C) Hins)
    as [(-> & _)|(F' & R' & Hm)].
  - exists F. now rewrite with_heap_id.
  - exists F'. apply (cons_step F); auto.
    + apply (moved_perm _ _ _ _ _ (proj1 R) Hm).
    + apply (moved_flags _ _ _ _ _ Hm).
    + apply (insert1_frame _ _ _ _ _ _ Hins).
Qed.

(* the general _insert on states: the moved element is live, not the destination nor one of its ancestors *)
Lemma move_into s d pos nc :
  consistent s -> live s d -> is_tag (hp s) d = true -> live s nc -> ~ anc (hp s) nc d ->
  (kind (hp s nc) <> KSoup \/ par (hp s nc) <> None) ->
  exists h', insert1 (fuel_of s) (hp s) d pos nc = Some h' /\ into d s (with_heap s h') /\ par (h' nc) = Some d /\
    (forall y, y <> nc -> par (h' y) = par (hp s y)).
Proof.
  intros [F C] Ld Htag Lnc Hanc Hk.
  assert (Hne : nc <> d) by (intros ->; apply Hanc; constructor).
  destruct (insert1 (fuel_of s) (hp s) d pos nc) as [h'|] eqn:Hins.
  2:{ rewrite insert1_eq in Hins. apply Nat.eqb_neq in Hne. rewrite Hne in Hins. cbv zeta in Hins.
      repeat match type of Hins with
      | context [match ?e with _ => _ end] => destruct e
      end; discriminate. }
  exists h'. split; [reflexivity|].
  destruct (move_cons F s d pos nc h' C Ld Htag Lnc Hanc Hk Hins) as (F' & C').
  destruct (insert1_frame _ _ _ _ _ _ Hins) as (M & P & Pn).
  split; [|split; [exact Pn | exact P]]. split.
  - split; [now exists F'|]. cbn [with_heap hp nxt]. split; [lia|]. split; [intros y _; apply M|].
    intros a. apply (anc_move (hp s) h' nc); assumption.
  - cbn [with_heap hp nxt]. intros y _. destruct (Nat.eq_dec y nc) as [->|N]; [now right|left; now apply P].
Qed.

(* ------------------------------------------------------------------------------------------ *)
(* B. the calls that insert                                                                   *)
(* ------------------------------------------------------------------------------------------ *)

(* an admissible argument for an insertion under d: a plain string, or a live element that is
   neither d nor one of d's ancestors *)
Definition arg_ok (s : st) (d : nat) (a : arg) : Prop :=
  match a with AStr _ => True | AEl x => live s x /\ ~ anc (hp s) x d end.

Lemma arg_ok_evo d s s' a : evo d s s' -> arg_ok s d a -> arg_ok s' d a.
Proof.
  intros E. destruct a as [x|t]; [|auto]. intros [L N]. split; [eapply evo_live; eauto | eapply evo_nanc; eauto].
Qed.

Lemma Forall_arg_ok_evo d s s' args : evo d s s' -> Forall (arg_ok s d) args -> Forall (arg_ok s' d) args.
Proof. intros E. apply Forall_impl. intros a. now apply arg_ok_evo. Qed.

Lemma anc_inv h a x : anc h a x -> a = x \/ exists p, par (h x) = Some p /\ anc h a p.
Proof. intros H. destruct H as [|x p P H]; [now left | right; eauto]. Qed.

Lemma insert_elems_into : forall cs s d pos,
  consistent s -> live s d -> is_tag (hp s) d = true ->
  Forall (fun c => live s c /\ ~ anc (hp s) c d /\ par (hp s c) <> None) cs ->
  exists s' ins, insert_elems s d pos cs = Ok (s', ins) /\ into d s s' /\
    (forall e, In e ins -> live s' e /\ par (hp s' e) = Some d) /\
    (forall y, y < nxt s -> par (hp s y) = None -> par (hp s' y) = None).
Proof.
  induction cs as [|c cs IH]; intros s d pos C Ld Htag HF.
  - exists s, []. split; [reflexivity|]. split; [now apply into_refl|]. split; [intros e []|auto].
  - inversion HF as [|? ? (Lc & Nc & Pc) HF']; subst.
    destruct (move_into s d pos c C Ld Htag Lc Nc (or_intror Pc)) as (h' & Hins & Hinto & Ppar & Pfr).
    cbn [insert_elems]. rewrite Hins. cbv zeta.
    remember (with_heap s h') as s1 eqn:Es1.
    remember (match index_of c (kids (hp s1 d)) with Some i => S i | None => pos end) as pos1 eqn:Epos1. clear Epos1.
    pose proof Hinto as [E1 P1].
    assert (HF1 : Forall (fun c0 => live s1 c0 /\ ~ anc (hp s1) c0 d /\ par (hp s1 c0) <> None) cs).
    { eapply Forall_impl; [|exact HF']. cbv beta. intros c0 (L0 & N0 & P0).
      split; [eapply evo_live; eauto|]. split; [eapply evo_nanc; eauto|].
      destruct (P1 c0 (proj1 L0)) as [Q|Q]; rewrite Q; [exact P0 | discriminate]. }
    assert (Htag1 : is_tag (hp s1) d = true) by (rewrite (evo_tag d s s1 d E1 Ld); exact Htag).
    destruct (IH s1 d pos1 (evo_consistent _ _ _ E1) (evo_live _ _ _ _ E1 Ld) Htag1 HF1)
      as (s' & ins & E & Hinto' & Hins' & Hroots').
    rewrite E. exists s', (c :: ins). split; [reflexivity|]. split; [eapply into_trans; eauto|].
    split.
    2:{ intros y Hy Py. apply Hroots'; [subst s1; exact Hy|]. subst s1. cbn [with_heap hp].
        rewrite Pfr; [exact Py | congruence]. }
    intros e [<-|He]; [|now apply Hins'].
    pose proof Hinto' as [E2 P2].
    assert (Lc1 : live s1 c) by (eapply evo_live; eauto).
    split; [eapply evo_live; eauto|].
    assert (Pc1 : par (hp s1 c) = Some d) by (subst s1; exact Ppar).
    destruct (P2 c (proj1 Lc1)) as [Q|Q]; rewrite Q; auto.
Qed.

Lemma insert_arg_into s d pos a :
  consistent s -> live s d -> is_tag (hp s) d = true -> arg_ok s d a ->
  exists s' just, insert_arg s d pos a = Ok (s', just) /\ into d s s' /\
    (forall e, In e just -> live s' e /\ par (hp s' e) = Some d) /\
    (forall y, y < nxt s -> par (hp s y) = None -> a <> AEl y -> par (hp s' y) = None).
Proof.
  intros C Ld Htag Ha. destruct a as [x|t].
  - destruct Ha as [Lx Nx]. unfold insert_arg.
    assert (Hne : x <> d) by (intros ->; apply Nx; constructor).
    apply Nat.eqb_neq in Hne. rewrite Hne.
    assert (Direct : kind (hp s x) <> KSoup ->
      exists s' just, match insert1 (fuel_of s) (hp s) d pos x with
                      | Some h => Ok (with_heap s h, [x]) | None => ValueError end = Ok (s', just) /\
        into d s s' /\ (forall e, In e just -> live s' e /\ par (hp s' e) = Some d) /\
        (forall y, y < nxt s -> par (hp s y) = None -> AEl x <> AEl y -> par (hp s' y) = None)).
    { intros K. destruct (move_into s d pos x C Ld Htag Lx Nx (or_introl K)) as (h' & Hins & Hinto & Ppar & Pfr).
      rewrite Hins. exists (with_heap s h'), [x]. split; [reflexivity|]. split; [exact Hinto|].
      split.
      2:{ intros y _ Py Ny. cbn [with_heap hp]. rewrite Pfr; [exact Py | congruence]. }
      intros e [<-|[]]. split; [|exact Ppar]. eapply evo_live; [apply Hinto | exact Lx]. }
    destruct (kind (hp s x)) eqn:K; [apply Direct; discriminate | apply Direct; discriminate |].
    destruct (insert_elems_into (kids (hp s x)) s d pos C Ld Htag) as (s' & ins & E & Hinto & Hins & Hroots).
    { apply Forall_forall. intros c Hc.
      destruct (kids_facts s x c C Lx Hc) as [Lc Pc]. split; [exact Lc|]. split; [|congruence].
      intros H. apply Nx. eapply anc_up; eauto. }
    exists s', ins. repeat (split; [assumption|]). intros y Hy Py _. now apply Hroots.
  - unfold insert_arg.
    pose proof (alloc_into d s (KStr false) t C Ld) as HA. cbv zeta in HA.
    destruct (alloc s (KStr false) t) as [s1 x] eqn:EA. cbn [fst snd] in HA.
    destruct HA as (Hinto1 & Ex & Lx & Hcell & Nx).
    pose proof Hinto1 as [E1 _].
    assert (Htag1 : is_tag (hp s1) d = true) by (rewrite (evo_tag d s s1 d E1 Ld); exact Htag).
    assert (K : kind (hp s1 x) <> KSoup) by (rewrite Hcell; discriminate).
    destruct (move_into s1 d pos x (evo_consistent _ _ _ E1) (evo_live _ _ _ _ E1 Ld) Htag1 Lx Nx (or_introl K))
      as (h' & Hins & Hinto & Ppar & Pfr).
    rewrite Hins. exists (with_heap s1 h'), [x]. split; [reflexivity|]. split; [eapply into_trans; eauto|].
    split.
    2:{ intros y Hy Py _. cbn [with_heap hp]. rewrite Pfr by lia.
        destruct Hinto1 as [_ Pf1]. destruct (Pf1 y Hy) as [Q|Q]; [congruence|].
        exfalso. unfold alloc in EA. inversion EA; subst s1 x. cbn [hp] in Q. rewrite upd_other in Q by lia. congruence. }
    intros e [<-|[]]. split; [|exact Ppar]. eapply evo_live; [apply Hinto | exact Lx].
Qed.

Lemma insert_args_into : forall args s d pos,
  consistent s -> live s d -> is_tag (hp s) d = true -> Forall (arg_ok s d) args ->
  exists s' ins, insert_args s d pos args = Ok (s', ins) /\ into d s s' /\
    (forall e, In e ins -> live s' e /\ par (hp s' e) = Some d) /\
    (forall y, y < nxt s -> par (hp s y) = None -> ~ In (AEl y) args -> par (hp s' y) = None).
Proof.
  induction args as [|a args IH]; intros s d pos C Ld Htag HF.
  - exists s, []. split; [reflexivity|]. split; [now apply into_refl|]. split; [intros e []|auto].
  - inversion HF as [|? ? Ha HF']; subst.
    destruct (insert_arg_into s d pos a C Ld Htag Ha) as (s1 & just & E1 & Hinto1 & Hjust & Hroots1).
    cbn [insert_args]. rewrite E1.
    remember (match last_opt just with
              | Some e => match index_of e (kids (hp s1 d)) with Some i => S i | None => pos end
              | None => pos end) as pos1 eqn:Epos1. clear Epos1.
    pose proof Hinto1 as [Ev1 _].
    assert (Htag1 : is_tag (hp s1) d = true) by (rewrite (evo_tag d s s1 d Ev1 Ld); exact Htag).
    destruct (IH s1 d pos1 (evo_consistent _ _ _ Ev1) (evo_live _ _ _ _ Ev1 Ld) Htag1
                 (Forall_arg_ok_evo _ _ _ _ Ev1 HF')) as (s' & ins & E & Hinto' & Hins' & Hroots').
    rewrite E. exists s', (just ++ ins). split; [reflexivity|]. split; [eapply into_trans; eauto|].
    split.
    2:{ intros y Hy Py Ny. apply Hroots'.
        - destruct Ev1 as (_ & N1 & _). lia.
        - apply Hroots1; auto. intros ->. apply Ny. now left.
        - intros H. apply Ny. now right. }
    intros e He. apply in_app_or in He. destruct He as [He|He]; [|now apply Hins'].
    destruct (Hjust e He) as [Le Pe]. pose proof Hinto' as [E2 P2].
    split; [eapply evo_live; eauto|]. destruct (P2 e (proj1 Le)) as [Q|Q]; rewrite Q; auto.
Qed.

Lemma op_insert_into s d pos args :
  consistent s -> live s d -> is_tag (hp s) d = true -> Forall (arg_ok s d) args ->
  exists s', op_insert s d pos args = Ok s' /\ into d s s' /\
    (forall y, y < nxt s -> par (hp s y) = None -> ~ In (AEl y) args -> par (hp s' y) = None).
Proof.
  intros C Ld Htag HF. destruct (insert_args_into args s d pos C Ld Htag HF) as (s' & ins & E & Hinto & _ & Hroots).
  unfold op_insert. rewrite E. eauto.
Qed.

Lemma append_all_into : forall args s d,
  consistent s -> live s d -> is_tag (hp s) d = true -> Forall (arg_ok s d) args ->
  exists s', append_all s d args = Ok s' /\ into d s s'.
Proof.
  induction args as [|a args IH]; intros s d C Ld Htag HF.
  - exists s. split; [reflexivity | now apply into_refl].
  - inversion HF as [|? ? Ha HF']; subst.
    destruct (op_insert_into s d (length (kids (hp s d))) [a] C Ld Htag (Forall_cons _ Ha (Forall_nil _)))
      as (s1 & E1 & Hinto1 & _).
    cbn [append_all]. unfold op_append. rewrite E1. pose proof Hinto1 as [Ev1 _].
    assert (Htag1 : is_tag (hp s1) d = true) by (rewrite (evo_tag d s s1 d Ev1 Ld); exact Htag).
    destruct (IH s1 d (evo_consistent _ _ _ Ev1) (evo_live _ _ _ _ Ev1 Ld) Htag1 (Forall_arg_ok_evo _ _ _ _ Ev1 HF'))
      as (s' & E & Hinto'). exists s'. split; [exact E | eapply into_trans; eauto].
Qed.

(* 2./3. insert, append, extend: the call succeeds and keeps the state consistent *)
Theorem op_insert_consistent s d pos args :
  consistent s -> live s d -> is_tag (hp s) d = true -> Forall (arg_ok s d) args ->
  exists s', op_insert s d pos args = Ok s' /\ consistent s'.
Proof. intros C L T HF. destruct (op_insert_into s d pos args C L T HF) as (s' & E & H & _). exists s'. split; [exact E | apply H]. Qed.

Theorem op_append_consistent s d a :
  consistent s -> live s d -> is_tag (hp s) d = true -> arg_ok s d a ->
  exists s', op_append s d a = Ok s' /\ consistent s'.
Proof. intros C L T Ha. apply op_insert_consistent; auto. Qed.

Theorem op_extend_list_consistent s d args :
  consistent s -> live s d -> is_tag (hp s) d = true -> Forall (arg_ok s d) args ->
  exists s', op_extend_list s d args = Ok s' /\ consistent s'.
Proof. intros C L T HF. destruct (append_all_into args s d C L T HF) as (s' & E & H). exists s'. split; [exact E | apply H]. Qed.

Theorem op_extend_tag_consistent s d other :
  consistent s -> live s d -> is_tag (hp s) d = true ->
  Forall (fun c => live s c /\ ~ anc (hp s) c d) (kids (hp s other)) ->
  exists s', op_extend_tag s d other = Ok s' /\ consistent s'.
Proof.
  intros C L T HF. unfold op_extend_tag.
  destruct (append_all_into (map AEl (kids (hp s other))) s d C L T) as (s' & E & H).
  { apply Forall_forall. intros a Ha. apply in_map_iff in Ha. destruct Ha as (c & <- & Hc).
    rewrite Forall_forall in HF. exact (HF c Hc). }
  exists s'. split; [exact E | apply H].
Qed.

(* ---- insert_before / insert_after ---- *)

Lemma index_of_In x l : In x l -> exists i, index_of x l = Some i.
Proof.
  induction l as [|y l IH]; [intros []|]. intros H. cbn [index_of]. destruct (Nat.eqb_spec y x) as [E|N]; [eauto|].
  destruct H as [H|H]; [congruence|]. destruct (IH H) as (i & ->). cbn. eauto.
Qed.

Lemma extract_arg_evo d s a : consistent s -> arg_ok s d a -> evo d s (extract_arg s a).
Proof.
  intros C Ha. destruct a as [x|t]; cbn [extract_arg]; [|now apply evo_refl].
  apply extract_evo; [exact C | apply Ha].
Qed.

Lemma extract_arg_par s a y : is_self y a = false -> par (hp (extract_arg s a) y) = par (hp s y).
Proof.
  destruct a as [x|t]; cbn [extract_arg is_self]; [|reflexivity]. intros N. apply Nat.eqb_neq in N.
  cbn [with_heap hp]. now apply extract_par_other.
Qed.

Lemma before_loop_ok : forall args s self parent,
  consistent s -> live s self -> par (hp s self) = Some parent ->
  Forall (fun a => arg_ok s parent a /\ is_self self a = false) args ->
  exists s', before_loop s self parent args = Ok s' /\ evo parent s s'.
Proof.
  induction args as [|a args IH]; intros s self parent C Ls P HF.
  - exists s. split; [reflexivity | now apply evo_refl].
  - inversion HF as [|? ? [Ha Hs] HF']; subst. cbn [before_loop].
    pose proof (extract_arg_evo parent s a C Ha) as E1.
    remember (extract_arg s a) as s1 eqn:Es1.
    assert (P1 : par (hp s1 self) = Some parent) by (subst s1; rewrite extract_arg_par by exact Hs; exact P).
    pose proof (evo_live _ _ _ _ E1 Ls) as Ls1. pose proof (evo_consistent _ _ _ E1) as C1.
    destruct (parent_facts s1 self parent C1 Ls1 P1) as (Lp & Tp & Hin).
    destruct (index_of_In _ _ Hin) as (idx & Eidx). rewrite Eidx.
    destruct (insert_args_into [a] s1 parent idx C1 Lp Tp (Forall_cons _ (arg_ok_evo _ _ _ _ E1 Ha) (Forall_nil _)))
      as (s2 & ins & E2 & [Ev2 Pf2] & _ & _).
    rewrite E2.
    assert (P2 : par (hp s2 self) = Some parent) by (destruct (Pf2 self (proj1 Ls1)) as [Q|Q]; rewrite Q; auto).
    assert (E12 : evo parent s s2) by (eapply evo_trans; eauto).
    destruct (IH s2 self parent (evo_consistent _ _ _ Ev2) (evo_live _ _ _ _ E12 Ls) P2) as (s' & E & Ev').
    { eapply Forall_impl; [|exact HF']. cbv beta. intros b [Hb Hsb]. split; [eapply arg_ok_evo; eauto | exact Hsb]. }
    exists s'. split; [exact E | eapply evo_trans; eauto].
Qed.

(* an element that is not self nor an ancestor of self is not an ancestor of self's parent *)
Lemma arg_ok_parent s self parent a : par (hp s self) = Some parent -> arg_ok s self a ->
  arg_ok s parent a /\ is_self self a = false.
Proof.
  intros P. destruct a as [x|t]; cbn [arg_ok is_self]; [|auto]. intros [L N]. split; [split; [exact L|]|].
  - intros H. apply N. eapply anc_step; eauto.
  - apply Nat.eqb_neq. intros ->. apply N. constructor.
Qed.

Lemma existsb_is_self_false y args : Forall (fun a => is_self y a = false) args -> existsb (is_self y) args = false.
Proof. induction 1 as [|a args H _ IH]; [reflexivity|]. cbn. now rewrite H, IH. Qed.

(* 3. insert_before: the call succeeds and keeps the state consistent *)
Theorem op_insert_before_consistent s self args :
  consistent s -> live s self -> par (hp s self) <> None -> Forall (arg_ok s self) args ->
  exists s', op_insert_before s self args = Ok s' /\ consistent s'.
Proof.
  intros C L P HF. unfold op_insert_before. destruct (par (hp s self)) as [parent|] eqn:Ep; [|congruence].
  assert (HF' : Forall (fun a => arg_ok s parent a /\ is_self self a = false) args).
  { eapply Forall_impl; [|exact HF]. intros a. now apply arg_ok_parent. }
  rewrite existsb_is_self_false by (eapply Forall_impl; [|exact HF']; cbv beta; tauto).
  destruct (before_loop_ok args s self parent C L Ep HF') as (s' & E & Ev). exists s'. split; [exact E | apply Ev].
Qed.

Lemma after_loop_evo : forall args s anchor parent s',
  consistent s -> live s parent -> is_tag (hp s) parent = true -> Forall (arg_ok s parent) args ->
  after_loop s anchor parent args = Ok s' -> evo parent s s'.
Proof.
  induction args as [|a args IH]; intros s anchor parent s' C Lp Tp HF H.
  - cbn in H. inversion H; subst. now apply evo_refl.
  - inversion HF as [|? ? Ha HF']; subst. cbn [after_loop] in H.
    pose proof (extract_arg_evo parent s a C Ha) as E1.
    remember (extract_arg s a) as s1 eqn:Es1.
    destruct (index_of anchor (kids (hp s1 parent))) as [idx|]; [|discriminate].
    pose proof (evo_live _ _ _ _ E1 Lp) as Lp1. pose proof (evo_consistent _ _ _ E1) as C1.
    assert (Tp1 : is_tag (hp s1) parent = true) by (rewrite (evo_tag parent s s1 parent E1 Lp); exact Tp).
    destruct (insert_args_into [a] s1 parent (S idx) C1 Lp1 Tp1 (Forall_cons _ (arg_ok_evo _ _ _ _ E1 Ha) (Forall_nil _)))
      as (s2 & ins & E2 & [Ev2 Pf2] & _ & _).
    rewrite E2 in H.
    assert (E12 : evo parent s s2) by (eapply evo_trans; eauto).
    assert (Tp2 : is_tag (hp s2) parent = true) by (rewrite (evo_tag parent s s2 parent E12 Lp); exact Tp).
    eapply evo_trans; [exact E12|].
    eapply (IH s2 _ parent s' (evo_consistent _ _ _ Ev2) (evo_live _ _ _ _ E12 Lp) Tp2); [|exact H].
    eapply Forall_arg_ok_evo; eauto.
Qed.

(* 3. insert_after: when the call returns, the state is consistent.  (The call raises ValueError,
   in the code as in the model, when an argument is extracted again before it serves as anchor,
   e.g. insert_after(a, a).) *)
Theorem op_insert_after_consistent s self args s' :
  consistent s -> live s self -> Forall (arg_ok s self) args ->
  op_insert_after s self args = Ok s' -> consistent s'.
Proof.
  intros C L HF H. unfold op_insert_after in H. destruct (par (hp s self)) as [parent|] eqn:Ep; [|discriminate].
  destruct (existsb (is_self self) args); [discriminate|].
  destruct (parent_facts s self parent C L Ep) as (Lp & Tp & _).
  assert (HF' : Forall (arg_ok s parent) args).
  { eapply Forall_impl; [|exact HF]. intros a Ha. now apply (arg_ok_parent s self parent a Ep). }
  apply (after_loop_evo args s self parent s' C Lp Tp HF' H).
Qed.

(* insert_after does return when no argument is a BeautifulSoup object and no element is passed twice
   (otherwise the anchor of a later argument may have been extracted again: ValueError, in the code as in
   the model) *)
Definition els (args : list arg) : list nat :=
  flat_map (fun a => match a with AEl x => [x] | AStr _ => [] end) args.
Definition nonsoup (s : st) (a : arg) : Prop :=
  match a with AEl x => kind (hp s x) <> KSoup | AStr _ => True end.

Lemma insert_args_one_el s d pos x s' ins :
  insert_args s d pos [AEl x] = Ok (s', ins) -> kind (hp s x) <> KSoup -> ins = [x].
Proof.
  intros H K. cbn [insert_args insert_arg] in H. destruct (Nat.eqb x d); [discriminate|].
  destruct (kind (hp s x)) eqn:Ek; try congruence;
    destruct (insert1 (fuel_of s) (hp s) d pos x); try discriminate; inversion H; reflexivity.
Qed.

Lemma insert_args_one_str s d pos t s' ins :
  insert_args s d pos [AStr t] = Ok (s', ins) -> ins = [nxt s].
Proof.
  intros H. cbn [insert_args insert_arg] in H. unfold alloc in H. cbv beta iota zeta in H.
  destruct (insert1 _ _ d pos (nxt s)); [|discriminate]. inversion H. reflexivity.
Qed.

Lemma after_loop_total : forall args s anchor parent,
  consistent s -> live s anchor -> par (hp s anchor) = Some parent ->
  Forall (arg_ok s parent) args -> Forall (nonsoup s) args -> NoDup (els args) -> ~ In anchor (els args) ->
  exists s', after_loop s anchor parent args = Ok s' /\ evo parent s s'.
Proof.
  induction args as [|a args IH]; intros s anchor parent C La Pa HF HK ND Hn.
  - exists s. split; [reflexivity | now apply evo_refl].
  - inversion HF as [|? ? Ha HF']; subst. inversion HK as [|? ? Ka HK']; subst. cbn [after_loop].
    pose proof (extract_arg_evo parent s a C Ha) as E1.
    assert (Hsa : is_self anchor a = false).
    { destruct a as [x|t]; cbn [is_self]; [|reflexivity]. apply Nat.eqb_neq. intros ->. apply Hn. now left. }
    remember (extract_arg s a) as s1 eqn:Es1.
    assert (P1 : par (hp s1 anchor) = Some parent) by (subst s1; rewrite extract_arg_par by exact Hsa; exact Pa).
    pose proof (evo_live _ _ _ _ E1 La) as La1. pose proof (evo_consistent _ _ _ E1) as C1.
    destruct (parent_facts s1 anchor parent C1 La1 P1) as (Lp & Tp & Hin).
    destruct (index_of_In _ _ Hin) as (idx & Eidx). rewrite Eidx.
    destruct (insert_args_into [a] s1 parent (S idx) C1 Lp Tp (Forall_cons _ (arg_ok_evo _ _ _ _ E1 Ha) (Forall_nil _)))
      as (s2 & ins & E2 & [Ev2 Pf2] & Hins & _).
    rewrite E2.
    assert (E12 : evo parent s s2) by (eapply evo_trans; eauto).
    assert (N1 : nxt s <= nxt s1) by (destruct E1 as (_ & N & _); exact N).
    assert (Hnew : exists e, ins = [e] /\ ~ In e (els args)).
    { destruct a as [x|t].
      - exists x. split.
        + apply (insert_args_one_el s1 parent (S idx) x s2 ins E2).
          cbn [arg_ok] in Ha. rewrite (evo_kind parent s s1 x E1 (proj1 (proj1 Ha))). exact Ka.
        + cbn [els flat_map app] in ND. now inversion ND.
      - exists (nxt s1). split; [apply (insert_args_one_str s1 parent (S idx) t s2 ins E2)|].
        intros Hin'. unfold els in Hin'. apply in_flat_map in Hin'. destruct Hin' as ([y|t'] & Hy & Hy'); [|contradiction].
        destruct Hy' as [->|[]]. rewrite Forall_forall in HF'. destruct (HF' _ Hy) as [[Ly _] _]. lia. }
    destruct Hnew as (e & -> & Hne). cbn [last_opt rev app].
    destruct (Hins e (or_introl eq_refl)) as [Le Pe].
    destruct (IH s2 e parent (evo_consistent _ _ _ Ev2) Le Pe) as (s' & E & Ev'); auto.
    + eapply Forall_arg_ok_evo; eauto.
    + apply Forall_forall. intros [y|t'] Hy; cbn [nonsoup]; [|exact I].
      rewrite Forall_forall in HF', HK'. destruct (HF' _ Hy) as [[Ly _] _].
      rewrite (evo_kind parent s s2 y E12 Ly). exact (HK' _ Hy).
    + destruct a as [x|t]; cbn [els flat_map app] in ND; [now inversion ND | exact ND].
    + exists s'. split; [exact E | eapply evo_trans; eauto].
Qed.

Theorem op_insert_after_total s self args :
  consistent s -> live s self -> par (hp s self) <> None -> Forall (arg_ok s self) args ->
  Forall (nonsoup s) args -> NoDup (els args) ->
  exists s', op_insert_after s self args = Ok s' /\ consistent s'.
Proof.
  intros C L P HF HK ND. unfold op_insert_after. destruct (par (hp s self)) as [parent|] eqn:Ep; [|congruence].
  assert (HF' : Forall (fun a => arg_ok s parent a /\ is_self self a = false) args).
  { eapply Forall_impl; [|exact HF]. intros a. now apply arg_ok_parent. }
  rewrite existsb_is_self_false by (eapply Forall_impl; [|exact HF']; cbv beta; tauto).
  destruct (after_loop_total args s self parent C L Ep) as (s' & E & Ev); auto.
  - eapply Forall_impl; [|exact HF']. cbv beta. tauto.
  - intros Hin. unfold els in Hin. apply in_flat_map in Hin. destruct Hin as ([y|t'] & Hy & Hy'); [|contradiction].
    destruct Hy' as [<-|[]]. rewrite Forall_forall in HF'. destruct (HF' _ Hy) as [_ Hs]. cbn [is_self] in Hs.
    apply Nat.eqb_neq in Hs. congruence.
  - exists s'. split; [exact E | apply Ev].
Qed.

(* ---- replace_with / wrap / unwrap ---- *)

(* the common path of replace_with: extract self, insert the arguments where it was *)
Lemma replace_general s self p args :
  consistent s -> live s self -> par (hp s self) = Some p -> Forall (arg_ok s p) args ->
  let s1 := with_heap s (extract (fuel_of s) (hp s) self) in
  exists idx s' ins,
    index_of self (kids (hp s p)) = Some idx /\ insert_args s1 p idx args = Ok (s', ins) /\
    evo p s s1 /\ into p s1 s' /\ ~ anc (hp s1) self p /\ live s1 p /\
    (forall e, In e ins -> live s' e /\ par (hp s' e) = Some p) /\
    (~ In (AEl self) args -> par (hp s' self) = None).
Proof.
  intros C L P HF s1. destruct (parent_facts s self p C L P) as (Lp & Tp & Hin).
  destruct (index_of_In _ _ Hin) as (idx & Eidx).
  pose proof (extract_evo p s self C L) as E1. fold s1 in E1.
  assert (Hna : ~ anc (hp s1) self p).
  { destruct C as [F C]. destruct (extract_cons F s self C L) as (_ & _ & _ & H). now apply H. }
  pose proof (evo_live _ _ _ _ E1 Lp) as Lp1.
  assert (Tp1 : is_tag (hp s1) p = true) by (rewrite (evo_tag p s s1 p E1 Lp); exact Tp).
  destruct (insert_args_into args s1 p idx (evo_consistent _ _ _ E1) Lp1 Tp1 (Forall_arg_ok_evo _ _ _ _ E1 HF))
    as (s' & ins & E & Hinto & Hins & Hroots).
  exists idx, s', ins. split; [exact Eidx|]. split; [exact E|]. split; [exact E1|]. split; [exact Hinto|].
  split; [exact Hna|]. split; [exact Lp1|]. split; [exact Hins|].
  intros Hn. apply Hroots; [apply L | unfold s1; cbn [with_heap hp]; apply extract_par_self | exact Hn].
Qed.

Lemma arg_ok_not_self s p args : Forall (arg_ok s p) args -> existsb (is_self p) args = false.
Proof.
  intros HF. apply existsb_is_self_false. eapply Forall_impl; [|exact HF]. intros [x|t]; cbn; [|reflexivity].
  intros [_ N]. apply Nat.eqb_neq. intros ->. apply N. constructor.
Qed.

Lemma op_replace_with_evo s self p args :
  consistent s -> live s self -> par (hp s self) = Some p -> Forall (arg_ok s p) args ->
  exists s', op_replace_with s self args = Ok s' /\ evo p s s' /\
    (~ In (AEl self) args -> par (hp s' self) = None).
Proof.
  intros C L P HF.
  destruct (replace_general s self p args C L P HF) as (idx & s' & ins & Eidx & E & E1 & [E2 _] & _ & _ & _ & Hroot).
  assert (General : (if existsb (is_self p) args then ValueError else
             match index_of self (kids (hp s p)) with
             | None => ValueError
             | Some my_index => op_insert (with_heap s (extract (fuel_of s) (hp s) self)) p my_index args
             end) = Ok s').
  { rewrite (arg_ok_not_self s p args HF), Eidx. unfold op_insert. now rewrite E. }
  assert (Ev : evo p s s') by (eapply evo_trans; eauto).
  unfold op_replace_with. rewrite P.
  destruct args as [|[y|t] [|a2 rest]]; try (exists s'; split; [exact General | split; [exact Ev | exact Hroot]]).
  destruct (Nat.eqb_spec y self) as [->|Ny].
  - exists s. split; [reflexivity|]. split; [now apply evo_refl|]. intros Hn. exfalso. apply Hn. now left.
  - inversion HF as [|? ? Hy0 _]; subst. cbn [arg_ok] in Hy0. destruct Hy0 as [_ Hy].
    assert (Nyp : y <> p) by (intros ->; apply Hy; constructor).
    apply Nat.eqb_neq in Nyp. rewrite Nyp. rewrite Eidx. unfold op_insert. rewrite E.
    exists s'. split; [reflexivity|]. split; [exact Ev | exact Hroot].
Qed.

(* 3. replace_with: the call succeeds and keeps the state consistent; the arguments are admissible for
   the parent of the replaced element *)
Theorem op_replace_with_consistent s self p args :
  consistent s -> live s self -> par (hp s self) = Some p -> Forall (arg_ok s p) args ->
  exists s', op_replace_with s self args = Ok s' /\ consistent s'.
Proof.
  intros C L P HF. destruct (op_replace_with_evo s self p args C L P HF) as (s' & E & Ev & _).
  exists s'. split; [exact E | apply Ev].
Qed.

Lemma insert_args_single s d pos x s' ins :
  insert_args s d pos [AEl x] = Ok (s', ins) -> kind (hp s x) <> KSoup -> ins = [x].
Proof.
  intros H K. cbn [insert_args insert_arg] in H. destruct (Nat.eqb x d); [discriminate|].
  destruct (kind (hp s x)) eqn:Ek; try congruence;
    destruct (insert1 (fuel_of s) (hp s) d pos x); try discriminate; inversion H; reflexivity.
Qed.

(* 3. wrap: self is replaced by w, then appended to w *)
Theorem op_wrap_consistent s self p w :
  consistent s -> live s self -> par (hp s self) = Some p ->
  live s w -> is_tag (hp s) w = true -> kind (hp s w) <> KSoup -> w <> self -> ~ anc (hp s) w p ->
  exists s', op_wrap s self w = Ok s' /\ consistent s'.
Proof.
  intros C L P Lw Tw Kw Nws Nwp.
  assert (HF : Forall (arg_ok s p) [AEl w]) by (constructor; [split; assumption | constructor]).
  destruct (replace_general s self p [AEl w] C L P HF) as (idx & s2 & ins & Eidx & E & E1 & [E2 Pf2] & Hna & Lp1 & Hins & _).
  cbv zeta in *. remember (with_heap s (extract (fuel_of s) (hp s) self)) as s1 eqn:Es1.
  assert (Kw1 : kind (hp s1 w) <> KSoup) by (rewrite (evo_kind p s s1 w E1 (proj1 Lw)); exact Kw).
  pose proof (insert_args_single s1 p idx w s2 ins E Kw1) as ->.
  destruct (Hins w (or_introl eq_refl)) as [Lw2 Pw2].
  assert (E12 : evo p s s2) by (eapply evo_trans; eauto).
  assert (Erep : op_replace_with s self [AEl w] = Ok s2).
  { unfold op_replace_with. rewrite P. apply Nat.eqb_neq in Nws. rewrite Nws.
    assert (Nwp' : w <> p) by (intros ->; apply Nwp; constructor).
    apply Nat.eqb_neq in Nwp'. rewrite Nwp', Eidx. unfold op_insert. rewrite <- Es1, E. reflexivity. }
  assert (Ha : arg_ok s2 w (AEl self)).
  { split; [eapply evo_live; eauto|]. intros H. apply anc_inv in H. destruct H as [H|(q & Pq & H)]; [congruence|].
    rewrite Pw2 in Pq. inversion Pq; subst q. apply Hna. destruct E2 as (_ & _ & _ & A). now apply A. }
  assert (Tw2 : is_tag (hp s2) w = true) by (rewrite (evo_tag p s s2 w E12 Lw); exact Tw).
  destruct (op_append_consistent s2 w (AEl self) (evo_consistent _ _ _ E12) Lw2 Tw2 Ha) as (s' & E' & C').
  exists s'. split; [|exact C']. unfold op_wrap. rewrite Erep. exact E'.
Qed.

Lemma unwrap_loop_evo : forall cs s p idx,
  consistent s -> live s p -> is_tag (hp s) p = true -> Forall (fun c => arg_ok s p (AEl c)) cs ->
  exists s', unwrap_loop s p idx cs = Ok s' /\ evo p s s' /\
    (forall y, y < nxt s -> par (hp s y) = None -> ~ In y cs -> par (hp s' y) = None).
Proof.
  induction cs as [|c cs IH]; intros s p idx C Lp Tp HF.
  - exists s. split; [reflexivity|]. split; [now apply evo_refl | auto].
  - inversion HF as [|? ? Hc HF']; subst. cbn [unwrap_loop].
    destruct (op_insert_into s p idx [AEl c] C Lp Tp (Forall_cons _ Hc (Forall_nil _))) as (s1 & E1 & [Ev1 _] & Hr1).
    rewrite E1.
    assert (Tp1 : is_tag (hp s1) p = true) by (rewrite (evo_tag p s s1 p Ev1 Lp); exact Tp).
    destruct (IH s1 p idx (evo_consistent _ _ _ Ev1) (evo_live _ _ _ _ Ev1 Lp) Tp1) as (s' & E & Ev' & Hr').
    { eapply Forall_impl; [|exact HF']. intros c0. now apply arg_ok_evo. }
    exists s'. split; [exact E|]. split; [eapply evo_trans; eauto|].
    intros y Hy Py Ny. apply Hr'.
    + destruct Ev1 as (_ & N1 & _). lia.
    + apply Hr1; auto. intros [H|[]]. apply Ny. left. congruence.
    + intros H. apply Ny. now right.
Qed.

(* 3. unwrap: the call succeeds and keeps the state consistent *)
Theorem op_unwrap_consistent s self :
  consistent s -> live s self -> par (hp s self) <> None ->
  exists s', op_unwrap s self = Ok s' /\ consistent s' /\ live s' self /\ par (hp s' self) = None.
Proof.
  intros C L P. destruct (par (hp s self)) as [p|] eqn:Ep; [|congruence].
  destruct (replace_general s self p [] C L Ep (Forall_nil _)) as (idx & _ & _ & Eidx & _ & E1 & _ & Hna & Lp1 & _ & _).
  cbv zeta in *. unfold op_unwrap. rewrite Ep, Eidx. cbv zeta.
  remember (with_heap s (extract (fuel_of s) (hp s) self)) as s1 eqn:Es1.
  pose proof (evo_consistent _ _ _ E1) as C1. pose proof (evo_live _ _ _ _ E1 L) as L1.
  destruct (parent_facts s self p C L Ep) as (Lp & Tp & _).
  assert (Tp1 : is_tag (hp s1) p = true) by (rewrite (evo_tag p s s1 p E1 Lp); exact Tp).
  destruct (unwrap_loop_evo (rev (kids (hp s1 self))) s1 p idx C1 Lp1 Tp1) as (s' & E & Ev & Hr).
  { apply Forall_forall. intros c Hc. apply in_rev in Hc. destruct (kids_facts s1 self c C1 L1 Hc) as [Lc Pc].
    split; [exact Lc|]. intros H. apply Hna. eapply anc_up; eauto. }
  assert (P1 : par (hp s1 self) = None) by (subst s1; cbn [with_heap hp]; apply extract_par_self).
  exists s'. split; [exact E|]. split; [apply Ev|]. split; [eapply evo_live; eauto|].
  apply Hr; [apply L1 | exact P1 |]. intros Hc. apply in_rev in Hc.
  destruct (kids_facts s1 self self C1 L1 Hc) as [_ Pc]. congruence.
Qed.

(* ------------------------------------------------------------------------------------------ *)
(* C. clear, .string=, decompose, smooth                                                      *)
(* ------------------------------------------------------------------------------------------ *)

Lemma clear_false_fold d : forall cs s, consistent s -> Forall (live s) cs ->
  evo d s (with_heap s (fold_left (fun h c => extract (fuel_of s) h c) cs (hp s))).
Proof.
  induction cs as [|c cs IH]; intros s C HF.
  - cbn [fold_left]. rewrite with_heap_id. now apply evo_refl.
  - inversion HF as [|? ? Lc HF']; subst. cbn [fold_left].
    pose proof (extract_evo d s c C Lc) as E1.
    remember (with_heap s (extract (fuel_of s) (hp s) c)) as s1 eqn:Es1.
    assert (HF1 : Forall (live s1) cs) by (eapply Forall_impl; [|exact HF']; intros c0; eapply evo_live; eauto).
    pose proof (IH s1 (evo_consistent _ _ _ E1) HF1) as E2.
    eapply evo_trans; [exact E1|]. subst s1. exact E2.
Qed.

Lemma op_clear_false_evo d s self : consistent s -> live s self ->
  exists s', op_clear s self false = Ok s' /\ evo d s s'.
Proof.
  intros C L. unfold op_clear. eexists. split; [reflexivity|]. apply clear_false_fold; [exact C|].
  apply Forall_forall. intros c Hc. apply (kids_facts s self c C L Hc).
Qed.

(* 3. clear(decompose=False) *)
Theorem op_clear_false_consistent s self : consistent s -> live s self ->
  exists s', op_clear s self false = Ok s' /\ consistent s'.
Proof. intros C L. destruct (op_clear_false_evo self s self C L) as (s' & E & Ev). exists s'. split; [exact E|apply Ev]. Qed.

(* 3. tag.string = t *)
Theorem op_set_string_consistent s self t : consistent s -> live s self -> is_tag (hp s) self = true ->
  exists s', op_set_string s self t = Ok s' /\ consistent s'.
Proof.
  intros C L T. unfold op_set_string. destruct (op_clear_false_evo self s self C L) as (s1 & E1 & Ev1). rewrite E1.
  pose proof (evo_consistent _ _ _ Ev1) as C1. pose proof (evo_live _ _ _ _ Ev1 L) as L1.
  pose proof (alloc_into self s1 (KStr false) t C1 L1) as HA. cbv zeta in HA.
  destruct (alloc s1 (KStr false) t) as [s2 x] eqn:EA. cbn [fst snd] in HA.
  destruct HA as ([Ev2 _] & _ & Lx & _ & Nx).
  assert (E12 : evo self s s2) by (eapply evo_trans; eauto).
  assert (T2 : is_tag (hp s2) self = true) by (rewrite (evo_tag self s s2 self E12 L); exact T).
  apply op_append_consistent; [apply Ev2 | eapply evo_live; eauto | exact T2 | split; assumption].
Qed.

(* ---- decompose ---- *)

Lemma set_dead_other h x y : y <> x -> set_dead h x y = h y.
Proof. intros N. unfold set_dead. now apply upd_other. Qed.
Lemma set_dead_same h x : dead (set_dead h x x) = true.
Proof. unfold set_dead. now rewrite upd_same. Qed.

Lemma fold_set_dead_out : forall l h y, ~ In y l -> fold_left set_dead l h y = h y.
Proof.
  induction l as [|x l IH]; intros h y N; [reflexivity|]. cbn [fold_left]. rewrite IH by (intros H; apply N; now right).
  apply set_dead_other. intros ->. apply N. now left.
Qed.

Lemma fold_set_dead_in : forall l h y, In y l -> dead (fold_left set_dead l h y) = true.
Proof.
  induction l as [|x l IH]; intros h y H; [contradiction|]. cbn [fold_left].
  destruct (in_dec Nat.eq_dec y l) as [Hl|Hl]; [now apply IH|].
  rewrite fold_set_dead_out by exact Hl. destruct H as [->|H]; [apply set_dead_same | contradiction].
Qed.

Lemma decompose_cons F s x : cons_with F s -> live s x ->
  exists F', cons_with F' (with_heap s (decompose_h (fuel_of s) (hp s) x)) /\
    (forall y, ~ anc (hp s) x y -> decompose_h (fuel_of s) (hp s) x y = extract (fuel_of s) (hp s) x y).
Proof.
  intros C L. destruct (extract_cons F s x C L) as (F1 & C1 & (T & b & HT & Hx) & _).
  remember (extract (fuel_of s) (hp s) x) as h1 eqn:Eh1.
  pose proof C1 as (R1 & A1 & A2 & A3 & A4). cbn [with_heap hp nxt] in *.
  pose proof (rep_in _ _ _ _ R1 HT) as RT.
  assert (Hlist : x :: (if is_tag h1 x then descendants (fuel_of s) h1 x else []) = pre T).
  { rewrite (pre_cons T), Hx. f_equal. destruct (is_tag h1 x) eqn:Etag.
    - rewrite <- Hx. apply (descendants_spec' h1 T b T (fuel_of s) RT (subterms_self T)).
      pose proof (cons_tree_fuel _ _ T b C1 HT) as Hl. unfold fuel_of in *. cbn [with_heap nxt] in Hl. lia.
    - destruct RT as (Hok & _). destruct (Hok T (subterms_self T)) as (_ & _ & _ & Hleaf).
      rewrite Hx in Hleaf. rewrite tl_pre, (Hleaf Etag). reflexivity. }
  unfold decompose_h. rewrite <- Eh1. cbv zeta. rewrite Hlist.
  remember (fold_left set_dead (pre T) h1) as h2 eqn:Eh2.
  assert (Hout : forall y, ~ In y (pre T) -> h2 y = h1 y) by (intros y Hy; subst h2; now apply fold_set_dead_out).
  assert (Hin : forall y, In y (pre T) -> dead (h2 y) = true) by (intros y Hy; subst h2; now apply fold_set_dead_in).
  apply in_split in HT. destruct HT as (l1 & l2 & EF1).
  assert (HP : Permutation F1 ((T, b) :: l1 ++ l2)) by (rewrite EF1; symmetry; apply Permutation_middle).
  pose proof (fids_perm _ _ HP) as HPf. rewrite fids_cons in HPf.
  assert (ND : NoDup (pre T ++ fids (l1 ++ l2))) by (eapply Permutation_NoDup; [exact HPf | apply R1]).
  assert (Hdis : forall y, In y (fids (l1 ++ l2)) -> ~ In y (pre T)).
  { intros y H1 H2. exact (NoDup_app_disj _ _ y ND H2 H1). }
  assert (Hsub : forall y, In y (fids (l1 ++ l2)) -> In y (fids F1)).
  { intros y Hy. eapply Permutation_in; [symmetry; exact HPf|]. apply in_or_app. now right. }
  exists (l1 ++ l2). split.
  - unfold cons_with. cbn [with_heap hp nxt]. split; [|split; [|split; [|split]]].
    + split; [now apply NoDup_app_r in ND|].
      pose proof (rep_perm _ _ _ HP R1) as [_ HF]. pose proof (Forall_inv_tail HF) as HF'.
      rewrite Forall_forall in HF' |- *. intros [T2 b2] HT2. cbn [fst snd].
      apply (rep1_agree h1); [|apply (HF' _ HT2)]. intros y Hy. apply agree_refl_on. apply Hout. apply Hdis.
      apply in_fids. exists T2, b2. auto.
    + intros y Hy. apply A1. now apply Hsub.
    + intros y Hy Hd. destruct (in_dec Nat.eq_dec y (pre T)) as [Hi|Hi]; [rewrite (Hin y Hi) in Hd; discriminate|].
      rewrite (Hout y Hi) in Hd. pose proof (A2 y Hy Hd) as H0.
      apply (Permutation_in _ HPf) in H0. apply in_app_or in H0. destruct H0; [contradiction|assumption].
    + intros y Hy. rewrite (Hout y (Hdis y Hy)). apply A3. now apply Hsub.
    + intros T0 HT0. assert (H0 : In (rid T0) (fids (l1 ++ l2))).
      { apply in_fids. exists T0, false. split; [exact HT0 | apply InsertRep.rid_in_pre]. }
      rewrite (Hout _ (Hdis _ H0)). apply A4. eapply Permutation_in; [symmetry; exact HP|]. now right.
  - intros y Hy. apply Hout. intros Hi. apply Hy.
    assert (Hcut : anc h1 x y).
    { rewrite <- Hx. apply pre_sub_anc; [apply RT | exact Hi]. }
    revert Hcut. apply anc_cut. intros z p. subst h1. destruct (Nat.eq_dec z x) as [->|N].
    + rewrite extract_par_self. discriminate.
    + now rewrite extract_par_other by exact N.
Qed.

(* 4. decompose(): the element and all its descendants become dead cells, the rest is a consistent forest *)
Theorem op_decompose_consistent s x : consistent s -> live s x ->
  exists s', op_decompose s x = Ok s' /\ consistent s'.
Proof.
  intros [F C] L. unfold op_decompose. eexists. split; [reflexivity|].
  destruct (decompose_cons F s x C L) as (F' & C' & _). now exists F'.
Qed.

Lemma clear_true_fold self : forall cs s, consistent s -> NoDup cs ->
  Forall (fun c => live s c /\ par (hp s c) = Some self) cs ->
  consistent (with_heap s (fold_left (fun h c => decompose_h (fuel_of s) h c) cs (hp s))).
Proof.
  induction cs as [|c cs IH]; intros s C ND HF.
  - cbn [fold_left]. now rewrite with_heap_id.
  - inversion HF as [|? ? [Lc Pc] HF']; subst. inversion ND as [|? ? Hn ND']; subst. cbn [fold_left].
    destruct C as [F C]. destruct (decompose_cons F s c C Lc) as (F' & C' & Hfr).
    remember (with_heap s (decompose_h (fuel_of s) (hp s) c)) as s1 eqn:Es1.
    assert (HF1 : Forall (fun c0 => live s1 c0 /\ par (hp s1 c0) = Some self) cs).
    { apply Forall_forall. intros c0 Hc0. rewrite Forall_forall in HF'. destruct (HF' c0 Hc0) as [[L0 D0] P0].
      assert (N0 : c0 <> c) by (intros ->; contradiction).
      assert (Hna : ~ anc (hp s) c c0).
      { intros H. apply anc_inv in H. destruct H as [H|(q & Pq & H)]; [congruence|].
        rewrite P0 in Pq. inversion Pq; subst q. exact (acyclic s c self (ex_intro _ F C) Lc Pc H). }
      subst s1. unfold live. cbn [with_heap hp nxt]. rewrite (Hfr c0 Hna). split; [split; [exact L0|]|].
      - rewrite (meta_dead _ _ (extract_meta _ _ _ _)). exact D0.
      - rewrite extract_par_other by exact N0. exact P0. }
    pose proof (IH s1 (ex_intro _ F' C') ND' HF1) as H. subst s1. exact H.
Qed.

(* 4. clear(decompose=True) *)
Theorem op_clear_true_consistent s self : consistent s -> live s self ->
  exists s', op_clear s self true = Ok s' /\ consistent s'.
Proof.
  intros C L. unfold op_clear. eexists. split; [reflexivity|].
  apply (clear_true_fold self); [exact C | now apply kids_NoDup |].
  apply Forall_forall. intros c Hc. apply (kids_facts s self c C L Hc).
Qed.

(* ---- smooth ---- *)

(* s' is a later consistent state with the same ids and static fields *)
Definition ext (s s' : st) : Prop :=
  consistent s' /\ nxt s <= nxt s' /\ (forall y, y < nxt s -> meta (hp s' y) = meta (hp s y)).

Lemma evo_ext d s s' : evo d s s' -> ext s s'.
Proof. intros (C & N & M & _). repeat split; assumption. Qed.
Lemma ext_refl s : consistent s -> ext s s.
Proof. intros C. repeat split; auto. Qed.
Lemma ext_trans s1 s2 s3 : ext s1 s2 -> ext s2 s3 -> ext s1 s3.
Proof.
  intros (_ & N1 & M1) (C & N2 & M2). split; [exact C|]. split; [lia|].
  intros y Hy. rewrite M2 by lia. now apply M1.
Qed.
Lemma ext_live s s' x : ext s s' -> live s x -> live s' x.
Proof. intros (_ & N & M) [L D]. split; [lia|]. rewrite (meta_dead _ _ (M x L)). exact D. Qed.

(* replace_with of one child by one parentless element keeps the number of children *)
Lemma replace_one_kids s a n p ia s' :
  op_replace_with s a [AEl n] = Ok s' -> par (hp s a) = Some p -> n <> a -> par (hp s n) = None ->
  kind (hp s n) <> KSoup -> index_of a (kids (hp s p)) = Some ia ->
  length (kids (hp s' p)) = length (kids (hp s p)).
Proof.
  intros H P Nna Pn Kn Eidx. unfold op_replace_with in H. rewrite P in H.
  apply Nat.eqb_neq in Nna. rewrite Nna in H. apply Nat.eqb_neq in Nna.
  destruct (Nat.eqb n p) eqn:Enp; [discriminate|]. rewrite Eidx in H.
  remember (with_heap s (extract (fuel_of s) (hp s) a)) as s3 eqn:Es3.
  unfold op_insert in H. cbn [insert_args insert_arg] in H. rewrite Enp in H.
  assert (K3 : kind (hp s3 n) = kind (hp s n)) by (subst s3; apply meta_kind, extract_meta).
  assert (P3 : par (hp s3 n) = None) by (subst s3; cbn [with_heap hp]; rewrite extract_par_other by exact Nna; exact Pn).
  assert (Kp3 : kids (hp s3 p) = remove_at ia (kids (hp s p))).
  { subst s3. cbn [with_heap hp]. now rewrite extract_kids, P, Eidx, Nat.eqb_refl. }
  assert (Hia : ia < length (kids (hp s p))).
  { apply index_of_nth in Eidx. apply nth_error_Some. congruence. }
  assert (Fin : forall h', insert1 (fuel_of s3) (hp s3) p ia n = Some h' ->
                           length (kids (h' p)) = length (kids (hp s p))).
  { intros h' Hi. destruct (insert1_places_child _ _ _ _ _ _ Hi P3) as [_ ->].
    rewrite insert_at_length, Kp3, remove_at_length by exact Hia. lia. }
  rewrite K3 in H. destruct (kind (hp s n)) eqn:Ek; try congruence;
    destruct (insert1 (fuel_of s3) (hp s3) p ia n) as [h'|] eqn:Hi; try discriminate;
    cbn in H; inversion H; subst s'; cbn [with_heap hp]; now apply Fin.
Qed.

Lemma merge_at_ok s self i : consistent s -> live s self -> S i < length (kids (hp s self)) ->
  ext s (merge_at s self i) /\
  length (kids (hp (merge_at s self i) self)) = pred (length (kids (hp s self))).
Proof.
  intros C L Hi. unfold merge_at. cbv zeta.
  remember (kids (hp s self)) as K eqn:EK.
  remember (nth i K 0) as a eqn:Ea. remember (nth (S i) K 0) as b eqn:Eb.
  assert (Ha : In a K) by (subst a; apply nth_In; lia).
  assert (Hb : In b K) by (subst b; apply nth_In; lia).
  assert (Nab : a <> b).
  { intros E. pose proof (kids_NoDup s self C L) as ND. rewrite <- EK in ND.
    rewrite NoDup_nth in ND. specialize (ND i (S i) ltac:(lia) ltac:(lia)). rewrite <- Ea, <- Eb in ND.
    specialize (ND E). lia. }
  rewrite EK in Ha, Hb.
  destruct (kids_facts s self a C L Ha) as [La Pa]. destruct (kids_facts s self b C L Hb) as [Lb Pb].
  pose proof (extract_evo self s b C Lb) as E1.
  remember (with_heap s (extract (fuel_of s) (hp s) b)) as s1 eqn:Es1.
  assert (K1 : length (kids (hp s1 self)) = pred (length K)).
  { destruct (index_of_In _ _ Hb) as (ib & Eib). subst s1. cbn [with_heap hp].
    rewrite extract_kids, Pb, Eib, Nat.eqb_refl. rewrite EK. apply remove_at_length.
    apply index_of_nth in Eib. apply nth_error_Some. congruence. }
  assert (Pa1 : par (hp s1 a) = Some self).
  { subst s1. cbn [with_heap hp]. rewrite extract_par_other by exact Nab. exact Pa. }
  pose proof (evo_consistent _ _ _ E1) as C1. pose proof (evo_live _ _ _ _ E1 L) as L1.
  pose proof (evo_live _ _ _ _ E1 La) as La1.
  pose proof (alloc_into self s1 (KStr false) (txt (hp s1 a) ++ txt (hp s1 b)) C1 L1) as HA. cbv zeta in HA.
  assert (Hsame : forall y, y <> nxt s1 -> hp (fst (alloc s1 (KStr false) (txt (hp s1 a) ++ txt (hp s1 b)))) y = hp s1 y).
  { intros y Hy. unfold alloc. cbn [fst hp]. now apply upd_other. }
  destruct (alloc s1 (KStr false) (txt (hp s1 a) ++ txt (hp s1 b))) as [s2 n] eqn:EA. cbn [fst snd] in HA, Hsame.
  destruct HA as ([Ev2 _] & En & Ln & Hcell & Nn).
  pose proof (evo_consistent _ _ _ Ev2) as C2.
  assert (Na_n : a <> n) by (rewrite En; destruct La1; lia).
  assert (Ns_n : self <> n) by (rewrite En; destruct L1; lia).
  assert (Pa2 : par (hp s2 a) = Some self) by (rewrite Hsame by (rewrite <- En; exact Na_n); exact Pa1).
  assert (Ks2 : kids (hp s2 self) = kids (hp s1 self)) by (rewrite Hsame by (rewrite <- En; exact Ns_n); reflexivity).
  pose proof (evo_live _ _ _ _ Ev2 La1) as La2.
  assert (HF : Forall (arg_ok s2 self) [AEl n]) by (constructor; [split; assumption | constructor]).
  destruct (op_replace_with_evo s2 a self [AEl n] C2 La2 Pa2 HF) as (s3 & E3 & Ev3 & _).
  rewrite E3.
  assert (E13 : evo self s s3) by (eapply evo_trans; [exact E1|]; eapply evo_trans; eauto).
  split; [eapply evo_ext; exact E13|].
  destruct (parent_facts s2 a self C2 La2 Pa2) as (_ & _ & Hin).
  destruct (index_of_In _ _ Hin) as (ia & Eia).
  rewrite (replace_one_kids s2 a n self ia s3 E3 Pa2 (not_eq_sym Na_n)); [congruence| | |exact Eia].
  - now rewrite Hcell.
  - rewrite Hcell. discriminate.
Qed.

Lemma marked_positions_spec h : forall l i j, In j (marked_positions h i l) -> i <= j /\ S j < i + length l.
Proof.
  induction l as [|a l IH]; intros i j H; [contradiction|].
  destruct l as [|b l']; [contradiction|].
  change (marked_positions h i (a :: b :: l')) with
    (if plain_str h a && plain_str h b then i :: marked_positions h (S i) (b :: l')
     else marked_positions h (S i) (b :: l')) in H.
  assert (Hrec : In j (marked_positions h (S i) (b :: l')) -> i <= j /\ S j < i + length (a :: b :: l')).
  { intros H0. apply IH in H0. cbn [length] in *. lia. }
  destruct (plain_str h a && plain_str h b); [|now apply Hrec].
  destruct H as [<-|H]; [cbn [length]; lia | now apply Hrec].
Qed.

Fixpoint desc (l : list nat) : Prop :=
  match l with [] => True | i :: l' => (forall j, In j l' -> j < i) /\ desc l' end.

Lemma desc_snoc l a : desc l -> (forall j, In j l -> a < j) -> desc (l ++ [a]).
Proof.
  induction l as [|i l IH]; intros D H; cbn [app desc].
  - split; [intros j []|exact I].
  - destruct D as [D1 D2]. split.
    + intros j Hj. apply in_app_or in Hj. destruct Hj as [Hj|[<-|[]]]; [now apply D1 | apply H; now left].
    + apply IH; [exact D2|]. intros j Hj. apply H. now right.
Qed.

Lemma desc_rev_marked h : forall l i, desc (rev (marked_positions h i l)).
Proof.
  induction l as [|a l IH]; intros i; [exact I|].
  destruct l as [|b l']; [exact I|].
  change (marked_positions h i (a :: b :: l')) with
    (if plain_str h a && plain_str h b then i :: marked_positions h (S i) (b :: l')
     else marked_positions h (S i) (b :: l')).
  destruct (plain_str h a && plain_str h b); [|apply IH].
  cbn [rev]. apply desc_snoc; [apply IH|]. intros j Hj. apply in_rev in Hj.
  apply marked_positions_spec in Hj. lia.
Qed.

Lemma merge_fold self : forall P s, consistent s -> live s self -> desc P ->
  (forall j, In j P -> S j < length (kids (hp s self))) ->
  ext s (fold_left (fun s i => merge_at s self i) P s).
Proof.
  induction P as [|i P IH]; intros s C L D Hb; [now apply ext_refl|]. cbn [fold_left].
  destruct D as [D1 D2]. destruct (merge_at_ok s self i C L (Hb i (or_introl eq_refl))) as [E1 K1].
  eapply ext_trans; [exact E1|]. apply IH; [apply E1 | eapply ext_live; eauto | exact D2 |].
  intros j Hj. rewrite K1. pose proof (D1 j Hj). pose proof (Hb i (or_introl eq_refl)). lia.
Qed.

Lemma smooth_rec_S f s self :
  smooth_rec (S f) s self =
  let s1 := fold_left (fun s a => if is_tag (hp s) a then smooth_rec f s a else s) (kids (hp s self)) s in
  fold_left (fun s i => merge_at s self i) (rev (marked_positions (hp s1) 0 (kids (hp s1 self)))) s1.
Proof. reflexivity. Qed.

Lemma smooth_rec_ext : forall fuel s self, consistent s -> live s self -> ext s (smooth_rec fuel s self).
Proof.
  induction fuel as [|f IH]; intros s self C L; [now apply ext_refl|].
  rewrite smooth_rec_S. cbv zeta.
  assert (Fold1 : forall l s0, consistent s0 -> Forall (live s0) l ->
            ext s0 (fold_left (fun s a => if is_tag (hp s) a then smooth_rec f s a else s) l s0)).
  { induction l as [|a l IHl]; intros s0 C0 HF; [now apply ext_refl|]. cbn [fold_left].
    inversion HF as [|? ? La HF']; subst.
    assert (E1 : ext s0 (if is_tag (hp s0) a then smooth_rec f s0 a else s0)).
    { destruct (is_tag (hp s0) a); [now apply IH | now apply ext_refl]. }
    eapply ext_trans; [exact E1|]. apply IHl; [apply E1|].
    eapply Forall_impl; [|exact HF']. intros c. now apply ext_live. }
  assert (E1 : ext s (fold_left (fun s a => if is_tag (hp s) a then smooth_rec f s a else s) (kids (hp s self)) s)).
  { apply Fold1; [exact C|]. apply Forall_forall. intros c Hc. apply (kids_facts s self c C L Hc). }
  remember (fold_left (fun s a => if is_tag (hp s) a then smooth_rec f s a else s) (kids (hp s self)) s) as s1 eqn:Es1.
  eapply ext_trans; [exact E1|]. apply merge_fold; [apply E1 | eapply ext_live; eauto | apply desc_rev_marked |].
  intros j Hj. apply in_rev in Hj. apply marked_positions_spec in Hj. lia.
Qed.

(* 3. smooth() *)
Theorem op_smooth_consistent s self : consistent s -> live s self ->
  exists s', op_smooth s self = Ok s' /\ consistent s'.
Proof.
  intros C L. unfold op_smooth. eexists. split; [reflexivity|]. apply (smooth_rec_ext _ s self C L).
Qed.

(* ------------------------------------------------------------------------------------------ *)
(* D. operations, admissibility, histories                                                    *)
(* ------------------------------------------------------------------------------------------ *)

(* admissibility, as a proposition *)
Definition wf_op (s : st) (o : op) : Prop :=
  match o with
  | OAlloc _ _ => True
  | OInsert self _ args | OExtendList self args =>
      live s self /\ is_tag (hp s) self = true /\ Forall (arg_ok s self) args
  | OAppend self a => live s self /\ is_tag (hp s) self = true /\ arg_ok s self a
  | OExtendTag self other =>
      live s self /\ is_tag (hp s) self = true /\
      Forall (fun c => live s c /\ ~ anc (hp s) c self) (kids (hp s other))
  | OInsertBefore self args | OInsertAfter self args =>
      live s self /\ par (hp s self) <> None /\ Forall (arg_ok s self) args
  | OExtract x | ODecompose x | OClear x _ | OSmooth x => live s x
  | OReplaceWith self args =>
      live s self /\ exists p, par (hp s self) = Some p /\ Forall (arg_ok s p) args
  | OWrap self w =>
      live s self /\ exists p, par (hp s self) = Some p /\ live s w /\ is_tag (hp s) w = true /\
        kind (hp s w) <> KSoup /\ w <> self /\ ~ anc (hp s) w p
  | OUnwrap self => live s self /\ par (hp s self) <> None
  | OSetString self _ => live s self /\ is_tag (hp s) self = true
  end.

(* ... and as an executable test on the model state: targets allocated and alive, tags where the code
   needs a tag, an element argument allocated, alive, and neither the destination parent nor one of its
   ancestors (found by chasing .parent with the state's fuel) *)
Lemma live_b_true s x : live_b s x = true <-> live s x.
Proof.
  unfold live_b, live. rewrite andb_true_iff, Nat.ltb_lt, negb_true_iff. reflexivity.
Qed.

Lemma nanc_b_sound s a d : consistent s -> live s d -> nanc_b s a d = true -> ~ anc (hp s) a d.
Proof. intros C L H. apply negb_true_iff in H. now apply is_anc_b_false. Qed.

Lemma arg_ok_b_sound s d a : consistent s -> live s d -> arg_ok_b s d a = true -> arg_ok s d a.
Proof.
  intros C L. destruct a as [x|t]; cbn [arg_ok_b arg_ok]; [|auto]. rewrite andb_true_iff, live_b_true.
  intros [Lx N]. split; [exact Lx | now apply nanc_b_sound].
Qed.

Lemma args_ok_b_sound s d args : consistent s -> live s d ->
  forallb (arg_ok_b s d) args = true -> Forall (arg_ok s d) args.
Proof.
  intros C L H. rewrite forallb_forall in H. apply Forall_forall. intros a Ha. apply arg_ok_b_sound; auto.
Qed.

Lemma has_par_true s x : has_par s x = true -> par (hp s x) <> None.
Proof. unfold has_par. destruct (par (hp s x)); [discriminate | discriminate]. Qed.

Theorem wf_op_b_sound s o : consistent s -> wf_op_b s o = true -> wf_op s o.
Proof.
  intros C. destruct o as [k t|self pos args|self a|self other|self args|self args|self args|x|self args|self w|self|x|self d|self t|self];
    cbn [wf_op_b wf_op]; rewrite ?andb_true_iff, ?live_b_true; try tauto.
  - intros [[L T] A]. split; [exact L|]. split; [exact T|]. now apply args_ok_b_sound.
  - intros [[L T] A]. split; [exact L|]. split; [exact T|]. now apply arg_ok_b_sound.
  - intros [[[L T] Lo] A]. split; [exact L|]. split; [exact T|].
    rewrite forallb_forall in A. apply Forall_forall. intros c Hc.
    split; [apply (kids_facts s other c C Lo Hc) | apply nanc_b_sound; auto].
  - intros [[L T] A]. split; [exact L|]. split; [exact T|]. now apply args_ok_b_sound.
  - intros [[L P] A]. split; [exact L|]. split; [now apply has_par_true | now apply args_ok_b_sound].
  - intros [[L P] A]. split; [exact L|]. split; [now apply has_par_true | now apply args_ok_b_sound].
  - intros [L A]. split; [exact L|]. destruct (par (hp s self)) as [p|] eqn:P; [|discriminate].
    exists p. split; [reflexivity|]. destruct (parent_facts s self p C L P) as (Lp & _). now apply args_ok_b_sound.
  - intros [[[[[L Lw] Tw] Kw] Nw] A]. split; [exact L|]. destruct (par (hp s self)) as [p|] eqn:P; [|discriminate].
    exists p. split; [reflexivity|]. destruct (parent_facts s self p C L P) as (Lp & _).
    split; [exact Lw|]. split; [exact Tw|]. split; [|split].
    + destruct (kind (hp s w)); [discriminate|discriminate|discriminate Kw].
    + apply negb_true_iff, Nat.eqb_neq in Nw. exact Nw.
    + now apply nanc_b_sound.
  - intros [L P]. split; [exact L | now apply has_par_true].
Qed.

(* every admissible call other than insert_after returns, and leaves a consistent state;
   insert_after leaves a consistent state whenever it returns *)
Definition is_insert_after (o : op) : bool := match o with OInsertAfter _ _ => true | _ => false end.

Theorem op_total s o : consistent s -> wf_op s o -> is_insert_after o = false ->
  exists s', apply_op s o = Ok s' /\ consistent s'.
Proof.
  intros C. destruct o as [k t|self pos args|self a|self other|self args|self args|self args|x|self args|self w|self|x|self d|self t|self];
    cbn [wf_op apply_op is_insert_after]; intros W NA; try discriminate.
  - eexists. split; [reflexivity | now apply alloc_consistent].
  - destruct W as (L & T & A). now apply op_insert_consistent.
  - destruct W as (L & T & A). now apply op_append_consistent.
  - destruct W as (L & T & A). now apply op_extend_tag_consistent.
  - destruct W as (L & T & A). now apply op_extend_list_consistent.
  - destruct W as (L & P & A). now apply op_insert_before_consistent.
  - eexists. split; [reflexivity|]. eapply op_extract_consistent; eauto.
  - destruct W as (L & p & P & A). eapply op_replace_with_consistent; eauto.
  - destruct W as (L & p & P & Lw & Tw & Kw & Nw & A). eapply op_wrap_consistent; eauto.
  - destruct W as (L & P). destruct (op_unwrap_consistent s self C L P) as (s' & E & C' & _). eauto.
  - now apply op_decompose_consistent.
  - destruct d; [now apply op_clear_true_consistent | now apply op_clear_false_consistent].
  - destruct W as (L & T). now apply op_set_string_consistent.
  - now apply op_smooth_consistent.
Qed.

Theorem op_consistent s o s' : consistent s -> wf_op s o -> apply_op s o = Ok s' -> consistent s'.
Proof.
  intros C W E. destruct (is_insert_after o) eqn:IA.
  - destruct o; try discriminate. cbn [wf_op apply_op] in *. destruct W as (L & P & A).
    eapply op_insert_after_consistent; eauto.
  - destruct (op_total s o C W IA) as (s'' & E' & C'). congruence.
Qed.

(* 5. histories: apply each call when it is admissible and returns, leave the state unchanged otherwise *)
Lemma step_consistent s o : consistent s -> consistent (step s o).
Proof.
  intros C. unfold step. destruct (wf_op_b s o) eqn:W; [|exact C].
  destruct (apply_op s o) as [s'|] eqn:E; [|exact C].
  eapply op_consistent; eauto. now apply wf_op_b_sound.
Qed.

Theorem history_consistent : forall ops s, consistent s -> consistent (run_history s ops).
Proof.
  induction ops as [|o ops IH]; intros s C; [exact C|]. cbn [run_history fold_left].
  apply IH. now apply step_consistent.
Qed.

(* 5. fragments: a live parentless element is the root of a tree of the forest: no siblings, and the
   element chain of its pre-order is closed at both ends (what [rep1 _ T true] says; for a BeautifulSoup
   root standing outside its chain, [rep1 _ T false]) *)
Definition root_fragment (s : st) (x : nat) : Prop :=
  exists F T b, cons_with F s /\ In (T, b) F /\ rid T = x /\ rep1 (hp s) T b.

Lemma live_root_fragment s x : consistent s -> live s x -> par (hp s x) = None -> root_fragment s x.
Proof.
  intros [F C] L P. destruct (live_tree F s x C L) as (T & b & F1 & HP & Hx & R1 & C').
  exists ((T, b) :: F1), T, b. split; [exact C'|]. split; [now left|]. split; [|exact R1].
  destruct R1 as (Hok & Hr & _). symmetry. eapply par_none_root; eauto.
Qed.

Lemma fold_extract_par_none fuel : forall cs h c, In c cs \/ par (h c) = None ->
  par (fold_left (fun h c => extract fuel h c) cs h c) = None.
Proof.
  induction cs as [|c0 cs IH]; intros h c H; cbn [fold_left].
  - destruct H as [[]|H]. exact H.
  - apply IH. destruct (Nat.eq_dec c c0) as [->|N]; [right; apply extract_par_self|].
    destruct H as [[H|H]|H]; [congruence | now left | right; now rewrite extract_par_other].
Qed.

Theorem fragments_detached s :
  consistent s ->
  (forall x s', live s x -> op_extract s x = Ok s' -> root_fragment s' x) /\
  (forall self args s', wf_op s (OReplaceWith self args) -> ~ In (AEl self) args ->
     op_replace_with s self args = Ok s' -> root_fragment s' self) /\
  (forall self s', wf_op s (OUnwrap self) -> op_unwrap s self = Ok s' -> root_fragment s' self) /\
  (forall self s' c, live s self -> op_clear s self false = Ok s' -> In c (kids (hp s self)) -> root_fragment s' c).
Proof.
  intros C. split; [|split; [|split]].
  - intros x s' L E. pose proof (op_extract_consistent s x s' C L E) as C'.
    unfold op_extract in E. inversion E; subst s'. apply live_root_fragment; [exact C'| |apply extract_par_self].
    eapply evo_live; [apply (extract_evo x s x C L) | exact L].
  - intros self args s' (L & p & P & A) Hn E.
    destruct (op_replace_with_evo s self p args C L P A) as (s'' & E' & Ev & Hr).
    assert (s'' = s') by congruence. subst s''.
    apply live_root_fragment; [apply Ev | eapply evo_live; eauto | now apply Hr].
  - intros self s' (L & P) E. destruct (op_unwrap_consistent s self C L P) as (s'' & E' & C' & L' & P').
    assert (s'' = s') by congruence. subst s''. now apply live_root_fragment.
  - intros self s' c L E Hc. destruct (op_clear_false_evo self s self C L) as (s'' & E' & Ev).
    assert (s'' = s') by congruence. subst s''.
    apply live_root_fragment; [apply Ev | eapply evo_live; [exact Ev|]; apply (kids_facts s self c C L Hc) |].
    unfold op_clear in E. inversion E. cbn [with_heap hp]. apply fold_extract_par_none. now left.
Qed.

(* ------------------------------------------------------------------------------------------ *)
(* E. the executable checkers of Spec/Tree.v are sound; examples                              *)
(* ------------------------------------------------------------------------------------------ *)

Lemma oeqb_true a b : oeqb a b = true -> a = b.
Proof.
  destruct a as [a|], b as [b|]; cbn; intros H; try discriminate; [|reflexivity].
  apply Nat.eqb_eq in H. now subst.
Qed.

Lemma nodupb_sound l : nodupb l = true -> NoDup l.
Proof.
  induction l as [|x l IH]; intros H; [constructor|]. cbn [nodupb] in H. apply andb_true_iff in H.
  destruct H as [H1 H2]. constructor; [|now apply IH]. intros Hin. apply negb_true_iff in H1.
  assert (E : existsb (Nat.eqb x) l = true) by (apply existsb_exists; exists x; split; [exact Hin | apply Nat.eqb_refl]).
  congruence.
Qed.

Lemma chain_b_sound nx pv : forall L prev, chain_b nx pv prev L = true ->
  forall i x, nth_error L i = Some x ->
    nx x = nth_error L (S i) /\ pv x = match i with 0 => prev | S j => nth_error L j end.
Proof.
  induction L as [|y L IH]; intros prev H i x Hx; [destruct i; discriminate|].
  cbn [chain_b] in H. apply andb_true_iff in H. destruct H as [H H3]. apply andb_true_iff in H. destruct H as [H1 H2].
  apply oeqb_true in H1. apply oeqb_true in H2. destruct i as [|i].
  - cbn in Hx. inversion Hx; subst x. split; [|exact H1]. rewrite H2. destruct L; reflexivity.
  - cbn [nth_error] in Hx. destruct (IH (Some y) H3 i x Hx) as [E1 E2]. split; [exact E1|].
    rewrite E2. destruct i; reflexivity.
Qed.

Lemma chain_b_gchain nx pv L : chain_b nx pv None L = true ->
  forall i x, nth_error L i = Some x -> nx x = nth_error L (S i) /\ pv x = pred_at L i.
Proof.
  intros H i x Hx. destruct (chain_b_sound nx pv L None H i x Hx) as [E1 E2]. split; [exact E1|].
  rewrite E2. destruct i; reflexivity.
Qed.

Lemma list_eqb_sound : forall a b, list_eqb a b = true -> a = b.
Proof.
  induction a as [|x a IH]; intros [|y b] H; cbn in H; try discriminate; [reflexivity|].
  apply andb_true_iff in H. destruct H as [H1 H2]. apply Nat.eqb_eq in H1. subst. f_equal. now apply IH.
Qed.

Lemma node_ok_b_sound h t : node_ok_b h t = true -> node_ok h t.
Proof.
  unfold node_ok_b, node_ok. rewrite !andb_true_iff. intros [[[H1 H2] H3] H4].
  split; [now apply list_eqb_sound|]. split; [|split].
  - exact (chain_b_gchain _ _ _ H2).
  - intros c Hc. rewrite forallb_forall in H3. now apply oeqb_true, H3.
  - intros Ht. rewrite Ht in H4. cbn in H4. destruct (tkids t); [reflexivity|discriminate].
Qed.

Lemma onone_true o : onone o = true -> o = None.
Proof. destruct o; [discriminate|reflexivity]. Qed.

Lemma rep1_b_sound h T b : rep1_b h T b = true -> rep1 h T b.
Proof.
  unfold rep1_b, rep1. rewrite !andb_true_iff. intros [[[[H1 H2] H3] H4] H5].
  split; [|split; [|split; [|split]]]; try (now apply onone_true).
  - intros t Ht. rewrite forallb_forall in H1. now apply node_ok_b_sound, H1.
  - destruct b.
    + exact (chain_b_gchain _ _ _ H5).
    + rewrite !andb_true_iff in H5. destruct H5 as [[H5 H6] H7].
      split; [exact (chain_b_gchain _ _ _ H5)|]. split; now apply onone_true.
Qed.

Lemma rep_b_sound F h : rep_b F h = true -> rep F h.
Proof.
  unfold rep_b, rep. rewrite andb_true_iff. intros [H1 H2]. split; [now apply nodupb_sound|].
  apply Forall_forall. intros [T b] HT. rewrite forallb_forall in H2. apply rep1_b_sound. exact (H2 _ HT).
Qed.

(* an executable test for [cons_with] *)
Definition cons_b (F : forest) (s : st) : bool :=
  rep_b F (hp s) &&
  forallb (fun x => Nat.ltb x (nxt s)) (fids F) &&
  forallb (fun x => dead (hp s x) || existsb (Nat.eqb x) (fids F)) (seq 0 (nxt s)) &&
  forallb (fun x => negb (dead (hp s x))) (fids F) &&
  forallb (fun tb => snd tb || negb (not_soup (kind (hp s (rid (fst tb)))))) F.

Theorem cons_b_sound F s : cons_b F s = true -> cons_with F s.
Proof.
  unfold cons_b, cons_with. rewrite !andb_true_iff. intros [[[[H1 H2] H3] H4] H5].
  split; [now apply rep_b_sound|]. split; [|split; [|split]].
  - intros x Hx. rewrite forallb_forall in H2. now apply Nat.ltb_lt, H2.
  - intros x Hx Hd. rewrite forallb_forall in H3. specialize (H3 x). rewrite Hd in H3. cbn [orb] in H3.
    assert (Hs : In x (seq 0 (nxt s))) by (apply in_seq; lia).
    apply H3 in Hs. apply existsb_exists in Hs. destruct Hs as (y & Hy & E). apply Nat.eqb_eq in E. now subst.
  - intros x Hx. rewrite forallb_forall in H4. now apply negb_true_iff, H4.
  - intros T HT. rewrite forallb_forall in H5. specialize (H5 _ HT). cbn [fst snd orb] in H5.
    destruct (kind (hp s (rid T))); [discriminate|discriminate|reflexivity].
Qed.

(* the forest read off the heap by Spec/Tree.v is a witness whenever the test succeeds *)
Corollary cons_b_consistent s : cons_b (abs_forest (nxt s) (hp s)) s = true -> consistent s.
Proof. intros H. eexists. apply cons_b_sound. exact H. Qed.

(* ---- examples ---- *)

Definition s_empty : st := mkst (fun _ => blank KTag []) 0.

Lemma empty_consistent : consistent s_empty.
Proof. apply cons_b_consistent. vm_compute. reflexivity. Qed.

(* a document built with the model's own calls:  0 = BeautifulSoup object, 1 2 4 tags, 3 5 6 strings *)
Definition ex_history : list op :=
  [OAlloc KSoup []; OAlloc KTag []; OAlloc KTag []; OAlloc (KStr false) []; OAlloc KTag [];
   OAppend 0 (AEl 1); OAppend 0 (AEl 2); OAppend 1 (AEl 3); OAppend 1 (AStr []);
   OInsert 2 0 [AEl 4; AStr []]].
Definition s_ex : st := run_history s_empty ex_history.

Example ex_forest :
  abs_forest (nxt s_ex) (hp s_ex) =
  [(Node 0 [Node 1 [Node 3 []; Node 5 []]; Node 2 [Node 4 []; Node 6 []]], true)].
Proof. vm_compute. reflexivity. Qed.

(* consistent: by the history theorem, and again by computing with the witness forest *)
Example ex_consistent : consistent s_ex.
Proof. apply history_consistent, empty_consistent. Qed.
Example ex_consistent_witness :
  cons_with [(Node 0 [Node 1 [Node 3 []; Node 5 []]; Node 2 [Node 4 []; Node 6 []]], true)] s_ex.
Proof. apply cons_b_sound. vm_compute. reflexivity. Qed.

(* the same document as a parser leaves it: the BeautifulSoup object stands outside the element chain *)
Definition s_ex_parsed : st := with_heap s_ex (set_pe (set_ne (hp s_ex) 0 None) 1 None).
Example ex_parsed_consistent :
  cons_with [(Node 0 [Node 1 [Node 3 []; Node 5 []]; Node 2 [Node 4 []; Node 6 []]], false)] s_ex_parsed.
Proof. apply cons_b_sound. vm_compute. reflexivity. Qed.

(* admissible and inadmissible calls on these states *)
Example ex_wf :
  wf_op_b s_ex_parsed (OInsertBefore 3 [AEl 4; AStr []; AEl 2]) = true /\
  wf_op_b s_ex_parsed (OWrap 3 4) = true /\
  wf_op_b s_ex_parsed (OReplaceWith 1 [AEl 6; AEl 3; AEl 1]) = true /\
  wf_op_b s_ex_parsed (OExtendTag 4 0) = false /\        (* 2 is a child of 0 and an ancestor of 4 *)
  wf_op_b s_ex_parsed (OInsert 4 0 [AEl 2]) = false /\   (* 2 is an ancestor of 4 *)
  wf_op_b s_ex_parsed (OInsert 3 0 [AEl 2]) = false /\   (* 3 is a string *)
  wf_op_b s_ex_parsed (OAppend 2 (AEl 0)) = false /\     (* 0 is an ancestor of 2 *)
  wf_op_b s_ex_parsed (ODecompose 0) = true.
Proof. vm_compute. repeat split; reflexivity. Qed.

(* a longer history from the parsed document; every call in it is admissible and returns *)
Definition ex_history2 : list op :=
  [OInsertBefore 3 [AEl 4; AStr []; AEl 2]; OWrap 3 4; OAlloc KTag []; OReplaceWith 1 [AEl 8; AStr []];
   OAppend 8 (AEl 1); OUnwrap 2; OSetString 4 []; OExtendTag 8 1; OInsertAfter 5 [AEl 6; AStr []];
   OSmooth 8; OClear 4 true; ODecompose 1; OExtract 7; OClear 0 false; OExtendList 2 [AEl 9; AStr []; AEl 8]].

Fixpoint all_applied (s : st) (ops : list op) : bool :=
  match ops with
  | [] => true
  | o :: ops' => wf_op_b s o && match apply_op s o with Ok s' => all_applied s' ops' | ValueError => false end
  end.

Example ex_history2_applied : all_applied s_ex_parsed ex_history2 = true.
Proof. vm_compute. reflexivity. Qed.

Example ex_history2_consistent : consistent (run_history s_ex_parsed ex_history2).
Proof. apply history_consistent. eexists. exact ex_parsed_consistent. Qed.

Example ex_history2_check :
  consistent_b (nxt (run_history s_ex_parsed ex_history2)) (hp (run_history s_ex_parsed ex_history2)) = true.
Proof. vm_compute. reflexivity. Qed.

(* insert_after, executable form of the extra condition *)
Definition simple_args_b (s : st) (args : list arg) : bool :=
  forallb (fun a => match a with AEl x => not_soup (kind (hp s x)) | AStr _ => true end) args && nodupb (els args).

Theorem insert_after_total_b s self args :
  consistent s -> wf_op_b s (OInsertAfter self args) = true -> simple_args_b s args = true ->
  exists s', apply_op s (OInsertAfter self args) = Ok s' /\ consistent s'.
Proof.
  intros C W S. apply (wf_op_b_sound s _ C) in W. cbn [wf_op apply_op] in *. destruct W as (L & P & A).
  unfold simple_args_b in S. apply andb_true_iff in S. destruct S as [S1 S2].
  apply op_insert_after_total; auto.
  - apply Forall_forall. intros [x|t] Ha; cbn [nonsoup]; [|exact I]. rewrite forallb_forall in S1.
    specialize (S1 _ Ha). cbn in S1. destruct (kind (hp s x)); [discriminate|discriminate|discriminate S1].
  - now apply nodupb_sound.
Qed.

(* every admissible call returns (for insert_after: when no argument is a BeautifulSoup object or repeated) *)
Theorem op_total_b s o : consistent s -> wf_op_b s o = true ->
  (forall self args, o = OInsertAfter self args -> simple_args_b s args = true) ->
  exists s', apply_op s o = Ok s' /\ consistent s'.
Proof.
  intros C W H. destruct (is_insert_after o) eqn:IA.
  - destruct o; try discriminate. apply insert_after_total_b; [exact C | exact W | exact (H _ _ eq_refl)].
  - apply op_total; auto. now apply wf_op_b_sound.
Qed.

Print Assumptions alloc_consistent.
Print Assumptions op_extract_consistent.
Print Assumptions extract_fragment_detached.
Print Assumptions op_insert_consistent.
Print Assumptions op_append_consistent.
Print Assumptions op_extend_list_consistent.
Print Assumptions op_extend_tag_consistent.
Print Assumptions op_insert_before_consistent.
Print Assumptions op_insert_after_consistent.
Print Assumptions op_insert_after_total.
Print Assumptions op_replace_with_consistent.
Print Assumptions op_wrap_consistent.
Print Assumptions op_unwrap_consistent.
Print Assumptions op_clear_false_consistent.
Print Assumptions op_set_string_consistent.
Print Assumptions op_smooth_consistent.
Print Assumptions op_decompose_consistent.
Print Assumptions op_clear_true_consistent.
Print Assumptions wf_op_b_sound.
Print Assumptions op_total.
Print Assumptions op_total_b.
Print Assumptions op_consistent.
Print Assumptions history_consistent.
Print Assumptions fragments_detached.
Print Assumptions cons_b_sound.
Print Assumptions ex_consistent.
Print Assumptions ex_consistent_witness.
Print Assumptions ex_parsed_consistent.
Print Assumptions ex_wf.
Print Assumptions ex_history2_applied.
Print Assumptions ex_history2_consistent.

(* ------------------------------------------------------------------------------------------ *)
(* F. remarks on the definitions                                                              *)
(* ------------------------------------------------------------------------------------------ *)

(* [consistent] without its last clause *)
Definition consistent0 (s : st) : Prop :=
  exists F, rep F (hp s) /\ (forall x, In x (fids F) -> x < nxt s) /\
            (forall x, x < nxt s -> dead (hp s x) = false -> In x (fids F)) /\
            (forall x, In x (fids F) -> dead (hp s x) = false).

Lemma consistent_consistent0 s : consistent s -> consistent0 s.
Proof. intros (F & R & H1 & H2 & H3 & _). exists F. auto. Qed.

(* Why the last clause: [rep] lets ANY root stand outside its own element chain.  If a Tag did (in the
   library only a freshly parsed BeautifulSoup object does), _insert of that Tag would leave its first
   child without previous_element and the Tag without next_element: *)
Definition s_tagroot : st :=
  let s := run_history s_empty [OAlloc KTag []; OAlloc KTag []; OAlloc KTag []; OAppend 0 (AEl 1)] in
  with_heap s (set_pe (set_ne (hp s) 0 None) 1 None).

Example ex_unlinked_tag_root :
  consistent_b (nxt s_tagroot) (hp s_tagroot) = true /\
  abs_forest (nxt s_tagroot) (hp s_tagroot) = [(Node 0 [Node 1 []], false); (Node 2 [], true)] /\
  match op_append s_tagroot 2 (AEl 0) with
  | Ok s' => consistent_b (nxt s') (hp s') = false /\ ne (hp s' 0) = None /\ pe (hp s' 1) = None /\
             kids (hp s' 0) = [1] /\ par (hp s' 0) = Some 2
  | ValueError => False
  end.
Proof. vm_compute. repeat split; reflexivity. Qed.

(* the suggested names *)
Definition wf_arg_b := arg_ok_b.
