From Coq Require Import List NArith ZArith Bool Lia.
From BS Require Import Base.Sexp Base.Types Gen.Tables Gen.Stdlib Model.Attrs.
Import ListNotations.
Open Scope N_scope.

Definition nows (t : str) : bool := forallb (fun c => negb (is_ws c)) t.
Definition allws (t : str) : bool := forallb is_ws t.
Definition valid_token (t : str) : bool := nows t && match t with [] => false | _ => true end.

Lemma space_is_ws : is_ws 32 = true.
Proof. vm_compute. reflexivity. Qed.

(* ---------- split ---------- *)

Lemma split_from_token t : forall cur rest,
  nows t = true -> split_ws_from cur (t ++ rest) = split_ws_from (rev t ++ cur) rest.
Proof.
  induction t as [|c t IH]; intros cur rest H; [reflexivity|].
  cbn [nows forallb] in H. apply andb_prop in H as [Hc Ht]. apply negb_true_iff in Hc.
  cbn [app split_ws_from]. rewrite Hc. rewrite IH by exact Ht. cbn [rev]. now rewrite <- app_assoc.
Qed.

Lemma split_skip_ws w : forall rest,
  allws w = true -> split_ws_from [] (w ++ rest) = split_ws_from [] rest.
Proof.
  induction w as [|c w IH]; intros rest H; [reflexivity|].
  cbn [allws forallb] in H. apply andb_prop in H as [Hc Hw].
  cbn [app split_ws_from]. rewrite Hc. now apply IH.
Qed.

Lemma rev_nonnil {X} (t : list X) : t <> [] -> rev t <> [].
Proof. destruct t; [congruence|]. cbn. intros _ E. now apply app_eq_nil in E as [_ E]. Qed.

Lemma split_token_then_ws t w rest :
  valid_token t = true -> is_ws w = true ->
  split_ws (t ++ w :: rest) = t :: split_ws rest.
Proof.
  intros Hv Hw. unfold valid_token in Hv. apply andb_prop in Hv as [Hn Hne].
  unfold split_ws. rewrite split_from_token by exact Hn. rewrite app_nil_r.
  cbn [split_ws_from]. rewrite Hw.
  destruct (rev t) as [|x r] eqn:E.
  - destruct t; [discriminate|]. exfalso. eapply rev_nonnil; [|exact E]. congruence.
  - rewrite <- E, rev_involutive. reflexivity.
Qed.

Lemma split_single_token t : valid_token t = true -> split_ws t = [t].
Proof.
  intros Hv. unfold valid_token in Hv. apply andb_prop in Hv as [Hn Hne].
  unfold split_ws. rewrite <- (app_nil_r t) at 1. rewrite split_from_token by exact Hn.
  rewrite app_nil_r. cbn [split_ws_from].
  destruct (rev t) as [|x r] eqn:E.
  - destruct t; [discriminate|]. exfalso. eapply rev_nonnil; [|exact E]. congruence.
  - rewrite <- E, rev_involutive. reflexivity.
Qed.

Lemma split_all_ws w : allws w = true -> split_ws w = [].
Proof.
  intros H. unfold split_ws. rewrite <- (app_nil_r w). rewrite split_skip_ws by exact H. reflexivity.
Qed.

(* every kind and amount of whitespace: leading whitespace, then tokens each followed by a
   whitespace run that is non-empty unless the token is the last one *)
Fixpoint weave_ok (l : list (str * str)) : bool :=
  match l with
  | [] => true
  | (t, sep) :: l' =>
      valid_token t && allws sep &&
      (match l' with [] => true | _ => match sep with [] => false | _ => true end end) &&
      weave_ok l'
  end.
Definition weave (lead : str) (l : list (str * str)) : str :=
  lead ++ flat_map (fun p => fst p ++ snd p) l.

Theorem split_any_whitespace : forall lead l,
  allws lead = true -> weave_ok l = true -> split_ws (weave lead l) = map fst l.
Proof.
  intros lead l Hlead Hl. unfold weave, split_ws. rewrite split_skip_ws by exact Hlead.
  fold (split_ws (flat_map (fun p => fst p ++ snd p) l)).
  induction l as [|[t sep] l IH]; [reflexivity|].
  cbn [weave_ok] in Hl. apply andb_prop in Hl as [Hl Hrest]. apply andb_prop in Hl as [Hl Hsep].
  apply andb_prop in Hl as [Hv Hws]. cbn [flat_map map fst snd].
  destruct sep as [|w sep].
  - destruct l as [|p l]; [|discriminate]. cbn [flat_map]. rewrite !app_nil_r.
    now apply split_single_token.
  - cbn [allws forallb] in Hws. apply andb_prop in Hws as [Hw Hsepws].
    rewrite <- app_assoc. cbn [app]. rewrite split_token_then_ws by assumption. f_equal.
    unfold split_ws. rewrite split_skip_ws by exact Hsepws. now apply IH.
Qed.

(* soundness for every string: tokens are non-empty, whitespace-free, and together are exactly
   the non-whitespace characters, in order *)
Lemma split_from_spec s : forall cur,
  nows (rev cur) = true ->
  Forall (fun t => valid_token t = true) (split_ws_from cur s) /\
  concat (split_ws_from cur s) = rev cur ++ filter (fun c => negb (is_ws c)) s.
Proof.
  induction s as [|c s IH]; intros cur Hcur.
  - cbn [split_ws_from filter]. rewrite app_nil_r. destruct cur as [|x cur]; [split; [constructor|reflexivity]|].
    split; [|cbn [concat]; now rewrite app_nil_r].
    constructor; [|constructor]. unfold valid_token. rewrite Hcur. cbn [andb].
    destruct (rev (x :: cur)) eqn:E; [|reflexivity]. exfalso. eapply rev_nonnil; [|exact E]. congruence.
  - cbn [split_ws_from filter]. destruct (is_ws c) eqn:Ec; cbn [negb].
    + destruct cur as [|x cur]; [apply (IH [] eq_refl)|].
      destruct (IH [] eq_refl) as [HF HC]. split.
      * constructor; [|exact HF]. unfold valid_token. rewrite Hcur. cbn [andb].
        destruct (rev (x :: cur)) eqn:E; [|reflexivity]. exfalso. eapply rev_nonnil; [|exact E]. congruence.
      * cbn [concat]. rewrite HC. reflexivity.
    + assert (Hn : nows (rev (c :: cur)) = true).
      { cbn [rev]. unfold nows in *. rewrite forallb_app, Hcur. cbn [forallb andb]. now rewrite Ec. }
      destruct (IH (c :: cur) Hn) as [HF HC]. split; [exact HF|].
      rewrite HC. cbn [rev]. now rewrite <- app_assoc.
Qed.

Theorem split_tokens_spec : forall s,
  Forall (fun t => valid_token t = true) (split_ws s) /\
  concat (split_ws s) = filter (fun c => negb (is_ws c)) s.
Proof. intros s. exact (split_from_spec s [] eq_refl). Qed.

(* ---------- join / split ---------- *)

Theorem join_split : forall toks,
  forallb valid_token toks = true -> split_ws (join_sp toks) = toks.
Proof.
  induction toks as [|t toks IH]; intros H; [reflexivity|].
  cbn [forallb] in H. apply andb_prop in H as [Ht Hr].
  destruct toks as [|t2 toks].
  - cbn [join_sp]. now apply split_single_token.
  - change (join_sp (t :: t2 :: toks)) with (t ++ 32 :: join_sp (t2 :: toks)).
    rewrite split_token_then_ws; [|exact Ht|exact space_is_ws]. f_equal. now apply IH.
Qed.

(* parse then write back: single spaces between the tokens, whatever whitespace came in *)
Corollary split_join_normalises lead l :
  allws lead = true -> weave_ok l = true ->
  join_sp (split_ws (weave lead l)) = join_sp (map fst l).
Proof. intros H1 H2. now rewrite split_any_whitespace. Qed.

(* ---------- which attributes are split ---------- *)

Theorem multi_valued_exactly_table : forall tb tag attrs k,
  tb <> [] ->
  dget k (replace_cdata_list (Some tb) tag attrs) =
  match dget k attrs with
  | Some v => Some (if is_multi tb tag (k_full k) then split_value v else v)
  | None => None
  end.
Proof.
  intros tb tag attrs k Hne. unfold replace_cdata_list. destruct tb as [|e tb0]; [congruence|].
  set (T := e :: tb0). induction attrs as [|[k' v'] attrs IH]; [reflexivity|].
  cbn [map fst snd dget].
  destruct (akey_eqb k k') eqn:E.
  - unfold akey_eqb in E. apply str_eqb_eq in E.
    destruct (is_multi T tag (k_full k')) eqn:M; cbn [dget fst]; unfold akey_eqb;
      rewrite E, (proj2 (str_eqb_eq _ _) eq_refl); rewrite ?M; reflexivity.
  - destruct (is_multi T tag (k_full k')); cbn [dget]; rewrite E; exact IH.
Qed.

Theorem multi_valued_none_verbatim : forall tag attrs,
  replace_cdata_list None tag attrs = attrs /\ replace_cdata_list (Some []) tag attrs = attrs.
Proof. split; reflexivity. Qed.

Theorem split_only_strings : forall v,
  split_value v = match v with VStr s => VList (split_ws s) | _ => v end.
Proof. reflexivity. Qed.

Theorem rendered_list_joined : forall l, rendered_value (VList l) = Some (join_sp l).
Proof. reflexivity. Qed.

(* ---------- dictionaries ---------- *)

Lemma akey_eqb_refl k : akey_eqb k k = true.
Proof. unfold akey_eqb. now apply str_eqb_eq. Qed.

Lemma akey_eqb_trans_false k k' k'' :
  akey_eqb k k' = false -> akey_eqb k' k'' = true -> akey_eqb k k'' = false.
Proof.
  unfold akey_eqb. intros H1 H2. apply str_eqb_eq in H2. rewrite <- H2. exact H1.
Qed.

Lemma akey_eqb_trans k k' k'' :
  akey_eqb k k' = true -> akey_eqb k' k'' = true -> akey_eqb k k'' = true.
Proof. unfold akey_eqb. intros H1 H2. apply str_eqb_eq in H1, H2. apply str_eqb_eq. congruence. Qed.

Lemma akey_eqb_sym k k' : akey_eqb k k' = akey_eqb k' k.
Proof.
  unfold akey_eqb. apply eq_true_iff_eq. rewrite !str_eqb_eq. split; congruence.
Qed.

Lemma dget_dset_same k v d : dget k (dset k v d) = Some v.
Proof.
  induction d as [|[k' v'] d IH]; cbn [dset dget].
  - now rewrite akey_eqb_refl.
  - destruct (akey_eqb k k') eqn:E; cbn [dget]; rewrite E; [reflexivity|exact IH].
Qed.

Lemma dget_dset_other k k' v d : akey_eqb k k' = false -> dget k (dset k' v d) = dget k d.
Proof.
  intros Hne. induction d as [|[k'' v''] d IH]; cbn [dset dget].
  - now rewrite Hne.
  - destruct (akey_eqb k' k'') eqn:E; cbn [dget].
    + rewrite (akey_eqb_trans_false _ _ _ Hne E). reflexivity.
    + destruct (akey_eqb k k''); [reflexivity|exact IH].
Qed.

Lemma dget_ddel_same k d : dget k (ddel k d) = None.
Proof.
  induction d as [|[k' v'] d IH]; cbn [ddel dget]; [reflexivity|].
  destruct (akey_eqb k k') eqn:E; [exact IH|]. cbn [dget]. rewrite E. exact IH.
Qed.

Lemma dget_ddel_other k k' d : akey_eqb k k' = false -> dget k (ddel k' d) = dget k d.
Proof.
  intros Hne. induction d as [|[k'' v''] d IH]; cbn [ddel dget]; [reflexivity|].
  destruct (akey_eqb k' k'') eqn:E.
  - rewrite (akey_eqb_trans_false _ _ _ Hne E). exact IH.
  - cbn [dget]. destruct (akey_eqb k k''); [reflexivity|exact IH].
Qed.

(* ---------- coercions ---------- *)

Theorem html_coercions : forall d k v,
  dget k (html_setitem d k v) =
  match v with
  | VBool false | VNone => None                           (* attribute removed *)
  | VBool true => Some (VStr (k_unqualified k))           (* its own unqualified name *)
  | VInt z => Some (VStr (str_of_Z z))                    (* numbers, zero included, become strings *)
  | VFloat r => Some (VStr r)
  | VStr s => Some (VStr s)
  | VList l => Some (VList l)
  end.
Proof.
  intros d k v. destruct v as [s|l|[|]|z|r|]; cbn [html_setitem];
    try apply dget_dset_same; apply dget_ddel_same.
Qed.

Theorem xml_coercions : forall d k v,
  dget k (xml_setitem d k v) =
  match v with
  | VNone => Some (VStr [])                               (* None becomes the empty string *)
  | VBool b => Some (VBool b)                             (* booleans kept *)
  | VInt z => Some (VStr (str_of_Z z))
  | VFloat r => Some (VStr r)
  | VStr s => Some (VStr s)
  | VList l => Some (VList l)
  end.
Proof. intros d k v. destruct v; cbn [xml_setitem]; apply dget_dset_same. Qed.

Theorem setitem_frame : forall d k k' v,
  akey_eqb k k' = false ->
  dget k (html_setitem d k' v) = dget k d /\ dget k (xml_setitem d k' v) = dget k d.
Proof.
  intros d k k' v H. split.
  - destruct v as [s|l|[|]|z|r|]; cbn [html_setitem];
      try (now apply dget_dset_other); now apply dget_ddel_other.
  - destruct v; cbn [xml_setitem]; now apply dget_dset_other.
Qed.

Example zero_is_kept : dget {| k_full := [120]; k_local := None |}
                            (html_setitem [] {| k_full := [120]; k_local := None |} (VInt 0))
                       = Some (VStr [48]).
Proof. reflexivity. Qed.

Example str_of_Z_examples :
  str_of_Z 0 = [48] /\ str_of_Z 1234567890 = [49;50;51;52;53;54;55;56;57;48] /\ str_of_Z (-42) = [45;52;50].
Proof. repeat split; vm_compute; reflexivity. Qed.

(* ---------- duplicate attributes ---------- *)

Fixpoint find_first (k : akey) (l : list (akey * option str)) : option (option str) :=
  match l with
  | [] => None
  | (k', v) :: l' => if akey_eqb k k' then Some v else find_first k l'
  end.
Fixpoint find_last (k : akey) (l : list (akey * option str)) : option (option str) :=
  match l with
  | [] => None
  | (k', v) :: l' =>
      match find_last k l' with
      | Some r => Some r
      | None => if akey_eqb k k' then Some v else None
      end
  end.
Definition as_value (o : option str) : aval := VStr (match o with Some s => s | None => [] end).

Section DupProofs.
  Variable setitem : adict -> akey -> aval -> adict.
  Variable on_dupe : adict -> akey -> aval -> adict.
  (* every shipped container stores a string value as it is *)
  Hypothesis setitem_str : forall d k s, setitem d k (VStr s) = dset k (VStr s) d.

  Lemma replace_fold attrs : forall d0 k,
    dget k (fold_left (dup_step setitem on_dupe DupReplace) attrs d0) =
    match find_last k attrs with Some v => Some (as_value v) | None => dget k d0 end.
  Proof.
    induction attrs as [|[k' v] attrs IH]; intros d0 k; [reflexivity|].
    cbn [fold_left find_last]. rewrite IH. destruct (find_last k attrs); [reflexivity|].
    unfold dup_step. cbn [fst snd].
    assert (E : (match dget k' d0 with Some _ => setitem d0 k' (VStr match v with Some s => s | None => [] end)
                                 | None => setitem d0 k' (VStr match v with Some s => s | None => [] end) end)
                = dset k' (as_value v) d0).
    { destruct (dget k' d0); apply setitem_str. }
    rewrite E. destruct (akey_eqb k k') eqn:Ek.
    - assert (dget k (dset k' (as_value v) d0) = Some (as_value v)) as ->; [|reflexivity].
      clear - Ek. induction d0 as [|[k'' v''] d0 IH]; cbn [dset dget].
      + now rewrite Ek.
      + destruct (akey_eqb k' k'') eqn:E2; cbn [dget].
        * now rewrite (akey_eqb_trans _ _ _ Ek E2).
        * destruct (akey_eqb k k'') eqn:E3; [|exact IH].
          rewrite akey_eqb_sym in Ek. rewrite (akey_eqb_trans _ _ _ Ek E3) in E2. discriminate.
    - now apply dget_dset_other.
  Qed.

  Theorem dup_replace_last : forall attrs k,
    dget k (collect_attrs setitem on_dupe DupReplace attrs) = option_map as_value (find_last k attrs).
  Proof. intros. unfold collect_attrs. rewrite replace_fold. now destruct (find_last k attrs). Qed.

  Lemma dget_cong k k' d : akey_eqb k k' = true -> dget k d = dget k' d.
  Proof.
    intros E. induction d as [|[k'' v''] d IH]; [reflexivity|]. cbn [dget].
    destruct (akey_eqb k' k'') eqn:E2.
    - now rewrite (akey_eqb_trans _ _ _ E E2).
    - destruct (akey_eqb k k'') eqn:E3; [|exact IH].
      rewrite akey_eqb_sym in E. rewrite (akey_eqb_trans _ _ _ E E3) in E2. discriminate.
  Qed.

  Lemma ignore_fold attrs : forall d0 k,
    dget k (fold_left (dup_step setitem on_dupe DupIgnore) attrs d0) =
    match dget k d0 with
    | Some v => Some v
    | None => option_map as_value (find_first k attrs)
    end.
  Proof.
    induction attrs as [|[k' v] attrs IH]; intros d0 k.
    - cbn. now destruct (dget k d0).
    - cbn [fold_left find_first]. rewrite IH. unfold dup_step. cbn [fst snd].
      destruct (akey_eqb k k') eqn:Ek.
      + rewrite (dget_cong _ _ d0 Ek). destruct (dget k' d0) eqn:Ed.
        * rewrite (dget_cong _ _ d0 Ek), Ed. reflexivity.
        * rewrite setitem_str. rewrite (dget_cong _ _ _ Ek), dget_dset_same. reflexivity.
      + destruct (dget k' d0) eqn:Ed; [reflexivity|].
        rewrite setitem_str, dget_dset_other by exact Ek. reflexivity.
  Qed.

  Theorem dup_ignore_first : forall attrs k,
    dget k (collect_attrs setitem on_dupe DupIgnore attrs) = option_map as_value (find_first k attrs).
  Proof. intros. unfold collect_attrs. now rewrite ignore_fold. Qed.

  (* the callable decides: it is invoked exactly for repeated names, with the dictionary built
     so far, and its result is what continues *)
  Theorem dup_callable_step : forall d k v,
    dup_step setitem on_dupe DupCall d (k, v) =
    match dget k d with
    | Some _ => on_dupe d k (as_value v)
    | None => dset k (as_value v) d
    end.
  Proof. intros. unfold dup_step. cbn [fst snd]. destruct (dget k d); [reflexivity|apply setitem_str]. Qed.
End DupProofs.

Lemma html_setitem_str d k s : html_setitem d k (VStr s) = dset k (VStr s) d.
Proof. reflexivity. Qed.
Lemma xml_setitem_str d k s : xml_setitem d k (VStr s) = dset k (VStr s) d.
Proof. reflexivity. Qed.

(* ---------- the shipped table names the documented attributes ---------- *)
Definition S (l : list N) : str := l.
Lemma documented_multi_valued :
  let t := default_cdata_list_attributes in
  let c := [99;108;97;115;115] in let rel := [114;101;108] in let headers := [104;101;97;100;101;114;115] in
  is_multi t [100;105;118] c = true /\ is_multi t [80] c = true /\          (* class everywhere *)
  is_multi t [97] rel = true /\ is_multi t [108;105;110;107] rel = true /\   (* rel on a, link *)
  is_multi t [65] rel = true /\                                            (* tag name case-insensitive *)
  is_multi t [116;100] headers = true /\ is_multi t [116;104] headers = true /\
  is_multi t [100;105;118] rel = false /\ is_multi t [100;105;118] headers = false /\
  is_multi t [97] [105;100] = false /\ is_multi t [97] [104;114;101;102] = false.
Proof. vm_compute. repeat split; reflexivity. Qed.
