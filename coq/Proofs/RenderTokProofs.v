(* C05 at the level of the rendered STRING — proofs (definitions: Spec/RenderTok.v). *)
From Coq Require Import List NArith Bool Arith Lia.
From BS Require Import Base.Sexp Base.Types Base.Reader Gen.Tables Gen.T_C05 Gen.Entities Model.Attrs Model.Build Model.Adapter Model.Pos Model.Render Model.Reparse
                       Spec.BuildSpec Spec.DocSpec Spec.DocWrite Spec.RenderTok
                       Proofs.PosProofs Proofs.AdapterProofs Proofs.AdapterCompose
                       Spec.RoundTrip Proofs.RoundTripProofs Proofs.RoundTripHtml
                       Model.Tokenizer Model.TokParse Proofs.TokenizerProofs Proofs.TokenizerBridge Proofs.TokenizerSpell.
From BS Require Model.EntitySubst.
Import ListNotations.
Open Scope N_scope.

(* ------------------------------------------------------------------ character data *)
Definition is_piece (t : wtok) : Prop :=
  match t with
  | WText _ => True
  | WCons _ [TEntityref _] => True
  | WCons _ [TCharref n] => charref_value n <> None
  | _ => False
  end.
Lemma simple_charref_value n : simple_charref n = true -> charref_value n <> None.
Proof.
  unfold simple_charref. intros H. apply orb_prop in H as [H|H].
  - rewrite (charref_value_decimal n H). discriminate.
  - destruct n as [|x hs]; [discriminate|]. apply andb_prop in H as [Hx Hh].
    rewrite (charref_value_hex x hs); [discriminate| |exact Hh].
    apply orb_prop in Hx as [E|E]; apply N.eqb_eq in E; auto.
Qed.

Section Unesc.
Variable unesc : str -> str.

Lemma split_text_ok fuel : forall s l, split_text fuel s = Some l ->
  srcs l = s /\ Forall (tok_ok unesc) l /\ Forall is_piece l.
Proof.
  induction fuel as [|f IH]; intros s l H.
  - destruct s; cbn in H; [|discriminate]. inversion H; subst. repeat split; constructor.
  - destruct s as [|c r]; [cbn in H; inversion H; subst; repeat split; constructor|].
    cbn [split_text] in H. destruct (c =? 60) eqn:C60; [discriminate|]. destruct (c =? 38) eqn:C38.
    + apply N.eqb_eq in C38. subst c.
      destruct (span (fun x => negb (x =? 59)) r) as [nm t] eqn:SP.
      pose proof (span_split _ _ _ _ SP) as ER. pose proof (span_stop _ _ _ _ SP) as ST.
      destruct t as [|d rest']; [discriminate|]. apply negb_false_iff, N.eqb_eq in ST. subst d.
      destruct nm as [|x num]; [discriminate|].
      destruct (x =? 35) eqn:X35.
      * apply N.eqb_eq in X35. subst x. destruct (simple_charref num) eqn:SC; [|discriminate].
        destruct (split_text f rest') as [l'|] eqn:R; [|discriminate]. inversion H; subst l.
        destruct (IH _ _ R) as (S1 & S2 & S3). repeat split.
        -- rewrite srcs_cons, S1, ER. cbn [tok_src app]. rewrite <- app_assoc. reflexivity.
        -- constructor; [now apply tok_ok_charref|exact S2].
        -- constructor; [cbn; now apply simple_charref_value|exact S3].
      * destruct (ent_name_ok (x :: num)) eqn:EN; [|discriminate].
        destruct (split_text f rest') as [l'|] eqn:R; [|discriminate]. inversion H; subst l.
        destruct (IH _ _ R) as (S1 & S2 & S3). cbn [ent_name_ok] in EN. apply andb_prop in EN as [E1 E2]. repeat split.
        -- rewrite srcs_cons, S1, ER. cbn [tok_src app]. rewrite <- app_assoc. reflexivity.
        -- constructor; [now apply tok_ok_entity|exact S2].
        -- constructor; [exact I|exact S3].
    + destruct (span not_interesting (c :: r)) as [a b] eqn:SP.
      destruct (split_text f b) as [l'|] eqn:R; [|discriminate]. inversion H; subst l.
      destruct (IH _ _ R) as (S1 & S2 & S3).
      pose proof (span_split _ _ _ _ SP) as ES. pose proof (span_all _ _ _ _ SP) as EA.
      assert (a <> []) as NE.
      { cbn [span] in SP. unfold not_interesting in SP at 1. rewrite C60, C38 in SP. cbn [orb negb] in SP.
        destruct (span not_interesting r). inversion SP. discriminate. }
      repeat split.
      * rewrite srcs_cons, S1. cbn [tok_src]. now rewrite ES.
      * constructor; [split; assumption|exact S2].
      * constructor; [exact I|exact S3].
Qed.
End Unesc.

(* ------------------------------------------------------------------ event lists up to the chunking of character data *)
Section SrEq.
Variable b : bconfig.
Definition sr_eq (x y : list Build.event) : Prop :=
  forall pre post, spec_run b (pre ++ x ++ post) = spec_run b (pre ++ y ++ post).
Lemma sr_refl x : sr_eq x x. Proof. intros pre post. reflexivity. Qed.
Lemma sr_sym x y : sr_eq x y -> sr_eq y x. Proof. intros H pre post. symmetry. apply H. Qed.
Lemma sr_trans x y z : sr_eq x y -> sr_eq y z -> sr_eq x z.
Proof. intros H1 H2 pre post. rewrite H1. apply H2. Qed.
Lemma sr_app x y x' y' : sr_eq x y -> sr_eq x' y' -> sr_eq (x ++ x') (y ++ y').
Proof.
  intros H1 H2 pre post.
  replace (pre ++ (x ++ x') ++ post) with (pre ++ x ++ (x' ++ post)) by (now rewrite <- app_assoc).
  rewrite (H1 pre (x' ++ post)).
  replace (pre ++ y ++ x' ++ post) with ((pre ++ y) ++ x' ++ post) by (now rewrite <- app_assoc).
  rewrite (H2 (pre ++ y) post). now rewrite <- !app_assoc.
Qed.
Lemma sr_chunk a c : sr_eq [EData a; EData c] [EData (a ++ c)].
Proof. intros pre post. cbn [app]. apply spec_run_chunks. Qed.
Lemma sr_chunks c cs : sr_eq (map EData (c :: cs)) [EData (concat (c :: cs))].
Proof.
  revert c. induction cs as [|c2 cs IH]; intros c.
  - cbn. rewrite app_nil_r. apply sr_refl.
  - cbn [map concat]. eapply sr_trans.
    + apply (sr_app [EData c] [EData c] _ _ (sr_refl _) (IH c2)).
    + cbn [app concat]. apply sr_chunk.
Qed.
Lemma sr_run x y : sr_eq x y -> spec_run b x = spec_run b y.
Proof. intros H. specialize (H [] []). now rewrite !app_nil_r in H. Qed.
Lemma sr_flat_map {A} (f g : A -> list Build.event) l : (forall x, In x l -> sr_eq (f x) (g x)) -> sr_eq (flat_map f l) (flat_map g l).
Proof.
  induction l as [|x l IH]; intros H; cbn [flat_map]; [apply sr_refl|].
  apply sr_app; [apply H; now left|apply IH; intros y Hy; apply H; now right].
Qed.
End SrEq.

(* ------------------------------------------------------------------ the adapter without open void elements *)
(* what one callback makes the adapter do when already_closed_empty_element is empty and stays empty *)
Definition ev1 (cfg : acfg) (e : tev) : option (list Build.event) :=
  match e with
  | TStart n a => if can_be_empty (a_b cfg) n then None else Some [EStart n None (mk_attrs cfg a)]
  | TStartEnd n a => Some [EStart n None (mk_attrs cfg a); EEnd n None]
  | TEnd n => Some [EEnd n None]
  | TData s => Some [EData s]
  | TCharref n => match charref_value n with Some v => Some [EData (charref_data (a_orig cfg) v)] | None => None end
  | TEntityref n => Some [EData (entity_data n)]
  | TComment s => Some [EEndData None; EData s; EEndData (Some cls_comment)]
  | TDecl s => Some [EEndData None; EData (skipn len_doctype s); EEndData (Some cls_doctype)]
  | TUnknownDecl s =>
      if Adapter.starts_with s_cdata_open (ascii_upper s)
      then Some [EEndData None; EData (skipn (length s_cdata_open) s); EEndData (Some cls_cdata)]
      else Some [EEndData None; EData s; EEndData (Some cls_declaration)]
  | TPi s => Some [EEndData None; EData s; EEndData (Some cls_pi)]
  end.
Definition evs1 (cfg : acfg) (e : tev) : list Build.event := match ev1 cfg e with Some l => l | None => [] end.

Lemma step_stateless cfg p e l : ev1 cfg e = Some l ->
  exists o, adapter_step cfg [] (hev_of p e) = Some (o, []) /\ events_of o = l.
Proof.
  destruct e; cbn [ev1 hev_of]; unfold adapter_step; cbn [adapter_step_gen]; intros H.
  - unfold start_tag. destruct (can_be_empty (a_b cfg) name); [discriminate|]. inversion H; subst. cbn. eauto.
  - unfold start_tag. rewrite andb_false_r. unfold end_tag. cbn. inversion H; subst. eauto.
  - unfold end_tag. cbn. inversion H; subst. eauto.
  - inversion H; subst. eauto.
  - destruct (charref_value name); [|discriminate]. inversion H; subst. eauto.
  - inversion H; subst. eauto.
  - inversion H; subst. eauto.
  - inversion H; subst. eauto.
  - destruct (Adapter.starts_with s_cdata_open (ascii_upper s)); inversion H; subst; eauto.
  - inversion H; subst. eauto.
Qed.
Lemma run_stateless cfg : forall (hs : list (pos * tev)),
  Forall (fun pe => ev1 cfg (snd pe) <> None) hs ->
  exists o, adapter_run cfg [] (map (fun pe => hev_of (fst pe) (snd pe)) hs) = (o, [], true) /\
            events_of o = flat_map (fun pe => evs1 cfg (snd pe)) hs.
Proof.
  induction hs as [|[p e] hs IH]; intros H.
  - exists []. split; reflexivity.
  - inversion H as [|? ? H1 H2]; subst. cbn [snd] in H1. destruct (ev1 cfg e) as [l|] eqn:E; [|congruence].
    destruct (step_stateless cfg p e l E) as (o1 & S1 & E1). destruct (IH H2) as (o2 & S2 & E2).
    exists (o1 ++ o2). unfold adapter_run in *. cbn [map adapter_run_gen fst snd]. unfold adapter_step in S1. rewrite S1, S2.
    split; [reflexivity|]. unfold events_of in *. rewrite map_app. cbn [flat_map snd]. unfold evs1 at 1. rewrite E.
    f_equal; [exact E1|exact E2].
Qed.

Lemma hevs_as_pairs its :
  hevs_of_items its = map (fun pe => hev_of (fst pe) (snd pe)) (flat_map (fun it => map (fun e => (it_pos it, e)) (it_evs it)) its).
Proof.
  unfold hevs_of_items. induction its as [|it its IH]; [reflexivity|]. cbn [flat_map]. rewrite map_app, IH, map_map. reflexivity.
Qed.
Lemma pairs_evs (f : tev -> list Build.event) its :
  flat_map (fun pe : pos * tev => f (snd pe)) (flat_map (fun it => map (fun e => (it_pos it, e)) (it_evs it)) its) =
  flat_map f (flat_map it_evs its).
Proof.
  induction its as [|it its IH]; [reflexivity|]. cbn [flat_map]. rewrite !flat_map_app. f_equal; [|exact IH].
  induction (it_evs it) as [|e r IHr]; [reflexivity|]. cbn [map flat_map snd]. now rewrite IHr.
Qed.
Lemma pairs_forall (P : tev -> Prop) its :
  Forall P (flat_map it_evs its) ->
  Forall (fun pe : pos * tev => P (snd pe)) (flat_map (fun it => map (fun e => (it_pos it, e)) (it_evs it)) its).
Proof.
  induction its as [|it its IH]; cbn [flat_map]; [constructor|]. intros H. apply Forall_app in H as [H1 H2].
  apply Forall_app. split; [|now apply IH]. apply Forall_map. exact H1.
Qed.

(* the construction events made of the items of a tokenizer run whose callbacks are all stateless *)
Lemma adapted_stateless cfg its :
  Forall (fun e => ev1 cfg e <> None) (flat_map it_evs its) ->
  adapted cfg (hevs_of_items its) = flat_map (evs1 cfg) (flat_map it_evs its).
Proof.
  intros H. unfold adapted. rewrite hevs_as_pairs.
  destruct (run_stateless cfg _ (pairs_forall _ its H)) as (o & R & E). rewrite R. cbn [fst]. rewrite E. apply pairs_evs.
Qed.

(* ------------------------------------------------------------------ adjacent character data *)
Section Merge.
Variable unesc : str -> str.
Variable cfg : acfg.
Definition EV (l : list wtok) : list Build.event := flat_map (evs1 cfg) (flat_map tok_evs l).
Lemma EV_cons t l : EV (t :: l) = flat_map (evs1 cfg) (tok_evs t) ++ EV l.
Proof. unfold EV. cbn [flat_map]. now rewrite flat_map_app. Qed.
Lemma EV_app a b : EV (a ++ b) = EV a ++ EV b.
Proof. unfold EV. now rewrite !flat_map_app. Qed.

Lemma srcs_merge l : srcs (merge_texts l) = srcs l.
Proof.
  induction l as [|t r IH]; [reflexivity|]. destruct t as [a|sp evs|n a a2 s]; cbn [merge_texts];
    try (rewrite !srcs_cons, IH; reflexivity).
  destruct (merge_texts r) as [|t' r'] eqn:M; [rewrite !srcs_cons, <- IH; reflexivity|].
  destruct t' as [b|sp evs|n a' a3 s]; rewrite !srcs_cons, <- IH, ?srcs_cons; cbn [tok_src]; now rewrite <- ?app_assoc.
Qed.
Lemma merge_ok l : Forall (tok_ok unesc) l -> Forall (tok_ok unesc) (merge_texts l).
Proof.
  induction 1 as [|t r Ht Hr IH]; [constructor|]. destruct t as [a|sp evs|n a a2 s]; cbn [merge_texts];
    try (constructor; assumption).
  destruct (merge_texts r) as [|t' r'] eqn:M; [constructor; assumption|].
  inversion IH as [|? ? Ht' Hr']; subst. destruct t' as [b|sp evs|n a' a3 s]; try (constructor; [assumption|constructor; assumption]).
  cbn [tok_ok] in Ht, Ht'. destruct Ht as [Ha1 Ha2]. destruct Ht' as [Hb1 Hb2].
  constructor; [|assumption]. cbn [tok_ok].
  split; [destruct a; [congruence|discriminate]|rewrite forallb_app, Ha2, Hb2; reflexivity].
Qed.
Lemma merge_noadj l : no_adj_text (merge_texts l) = true.
Proof.
  induction l as [|t r IH]; [reflexivity|]. destruct t as [a|sp evs|n a a2 s]; cbn [merge_texts]; try exact IH.
  destruct (merge_texts r) as [|t' r'] eqn:M; [reflexivity|].
  destruct t' as [b|sp evs|n a' a3 s]; cbn [no_adj_text] in *; try exact IH.
Qed.
Lemma merge_evs l : sr_eq (a_b cfg) (EV (merge_texts l)) (EV l).
Proof.
  induction l as [|t r IH]; [apply sr_refl|]. destruct t as [a|sp evs|n a a2 s]; cbn [merge_texts];
    try (rewrite !EV_cons; apply sr_app; [apply sr_refl|exact IH]).
  destruct (merge_texts r) as [|t' r'] eqn:M; [rewrite !EV_cons; apply sr_app; [apply sr_refl|exact IH]|].
  destruct t' as [b|sp evs|n a' a3 s]; try (rewrite !(EV_cons (WText a)); apply sr_app; [apply sr_refl|exact IH]).
  rewrite (EV_cons (WText a) r). eapply sr_trans; [|apply sr_app; [apply sr_refl|exact IH]].
  rewrite !EV_cons. cbn [tok_evs flat_map evs1 ev1 app].
  change (EData (a ++ b) :: EV r') with ([EData (a ++ b)] ++ EV r').
  change (EData a :: EData b :: EV r') with ([EData a; EData b] ++ EV r').
  apply sr_app; [apply sr_sym, sr_chunk|apply sr_refl].
Qed.
Lemma merge_stateless l : Forall (fun e => ev1 cfg e <> None) (flat_map tok_evs l) ->
  Forall (fun e => ev1 cfg e <> None) (flat_map tok_evs (merge_texts l)).
Proof.
  induction l as [|t r IH]; [constructor|]. cbn [flat_map]. intros H. apply Forall_app in H as [H1 H2]. specialize (IH H2).
  destruct t as [a|sp evs|n a a2 s]; cbn [merge_texts]; try (cbn [flat_map]; apply Forall_app; split; assumption).
  destruct (merge_texts r) as [|t' r'] eqn:M; [cbn [flat_map]; apply Forall_app; split; assumption|].
  destruct t' as [b|sp evs|n a' a3 s]; try (cbn [flat_map]; apply Forall_app; split; assumption).
  cbn [flat_map tok_evs app] in *. inversion IH; subst. constructor; [discriminate|assumption].
Qed.

(* the rendered string of written tokens, read by the tokenizer model and the adapter model *)
Theorem adapted_of_wtoks l : Forall (tok_ok unesc) l -> Forall (fun e => ev1 cfg e <> None) (flat_map tok_evs l) ->
  rejected unesc (srcs l) = false /\
  sr_eq (a_b cfg) (adapted cfg (callbacks unesc (srcs l))) (EV l).
Proof.
  intros Hok Hst.
  destruct (tokenize_toks unesc (merge_texts l) (merge_ok l Hok) (merge_noadj l)) as (its & g & T & E & S1 & S2 & S3).
  rewrite srcs_merge in T. unfold rejected, callbacks. rewrite T. cbn [fst snd]. rewrite S1. split; [reflexivity|].
  rewrite adapted_stateless by (rewrite E; now apply merge_stateless). rewrite E. apply merge_evs.
Qed.
End Merge.

(* ------------------------------------------------------------------ one rendered token *)
Section Tokens.
Variable unesc : str -> str.
Variable cfg : acfg.
Variable rc : rcfg.
(* the two parsers' configurations agree on which elements are void *)
Hypothesis void_agree : forall n, can_be_empty (a_b cfg) n = memS n (r_void rc).

Notation rt := (text_value (a_orig cfg)).
Notation ra := (attr_read unesc).
Definition st0 : rstate := mkrs None [].

Lemma nodup_keys_NoDup a : nodup_keys a = true -> NoDup (map fst a).
Proof.
  induction a as [|kv r IH]; cbn [nodup_keys map]; [constructor|]. intros H. apply andb_prop in H as [H1 H2].
  constructor; [|now apply IH]. intros Hin. apply negb_true_iff in H1.
  assert (existsb (fun kv' => str_eqb (fst kv) (fst kv')) r = true); [|congruence].
  apply in_map_iff in Hin as (kv' & E & Hin). apply existsb_exists. exists kv'. split; [exact Hin|].
  apply str_eqb_eq. now rewrite E.
Qed.
Lemma uattrs_keys a : map fst (uattrs unesc a) = map fst a.
Proof. unfold uattrs. rewrite map_map. reflexivity. Qed.
Lemma attrs_read a : quoted_attrs a = true -> nodup_keys a = true ->
  mk_attrs cfg (uattrs unesc a) = map (read_attr ra) a.
Proof.
  intros Hq Hn. rewrite attrs_kept by (rewrite uattrs_keys; now apply nodup_keys_NoDup).
  unfold uattrs. rewrite map_map. unfold quoted_attrs in Hq. rewrite forallb_forall in Hq.
  apply map_ext_in. intros [k v] Hin. specialize (Hq _ Hin). unfold attr_plain, read_attr. cbn [fst snd].
  change (Attrs.ascii_lower k) with (Tokenizer.ascii_lower k). rewrite (quoted_name_lower k v Hq).
  destruct v; reflexivity.
Qed.
Lemma simple_name_lower n : simple_name n = true -> Attrs.ascii_lower n = n.
Proof.
  intros H. change (Attrs.ascii_lower n) with (Tokenizer.ascii_lower n).
  apply ascii_lower_id. apply name_ok_all. now apply simple_name_ok.
Qed.

Lemma pieces_events l : Forall is_piece l ->
  Forall (fun e => ev1 cfg e <> None) (flat_map tok_evs l) /\
  EV cfg l = map EData (map (piece_value (a_orig cfg)) l).
Proof.
  induction 1 as [|t r Ht Hr [IH1 IH2]]; [split; [constructor|reflexivity]|].
  rewrite EV_cons, IH2. cbn [flat_map map]. destruct t as [a|sp evs|n a a2 s]; cbn [is_piece] in Ht; try contradiction.
  - split; [constructor; [discriminate|exact IH1]|reflexivity].
  - destruct evs as [|e evs0]; [contradiction|]. destruct e; try contradiction; destruct evs0; try contradiction.
    + cbn [tok_evs app flat_map evs1 ev1 piece_value]. destruct (charref_value name) eqn:C; [|congruence].
      split; [constructor; [cbn [ev1]; rewrite C; discriminate|exact IH1]|].
      unfold evs1. cbn [ev1]. rewrite C. reflexivity.
    + split; [constructor; [discriminate|exact IH1]|reflexivity].
Qed.

Lemma spell_special c s : spell (TSpecial c s) = fst (affixes c) ++ s ++ special_suffix c.
Proof. reflexivity. Qed.

(* a covered token: its written tokens spell it, are consumed one by one by the tokenizer, fire only callbacks that keep
   the adapter stateless, and make the adapter emit what Model.Reparse.read_token emits, up to the chunking of text *)
Lemma token_bridge tok : tok_covered rc tok = true ->
  srcs (wtoks_of_token unesc tok) = spell tok /\
  Forall (tok_ok unesc) (wtoks_of_token unesc tok) /\
  Forall (fun e => ev1 cfg e <> None) (flat_map tok_evs (wtoks_of_token unesc tok)) /\
  fst (read_token rt ra rc st0 tok) = st0 /\
  sr_eq (a_b cfg) (EV cfg (wtoks_of_token unesc tok)) (snd (read_token rt ra rc st0 tok)).
Proof.
  destruct tok as [n a|n a slash|n|s|c s|]; cbn [tok_covered]; intros H.
  - (* start tag *)
    apply andb_prop in H as [H Hk]. apply andb_prop in H as [H Hq]. apply andb_prop in H as [H Hcd].
    apply andb_prop in H as [Hn Hv]. apply negb_true_iff in Hv. apply negb_true_iff in Hcd.
    pose proof (simple_name_ok n Hn) as NO. destruct (spell_is_written n a Hq) as (E1 & _ & _).
    cbn [wtoks_of_token]. rewrite E1. split; [|split; [|split; [|split]]].
    + unfold srcs. cbn. now rewrite app_nil_r.
    + constructor; [exact (tok_ok_start_gen unesc n a NO Hq)|constructor].
    + cbn [flat_map tok_evs app]. constructor; [|constructor]. cbn [ev1]. rewrite void_agree, Hv. discriminate.
    + cbn [read_token st0 rs_raw]. rewrite (simple_name_lower n Hn), Hv, Hcd. reflexivity.
    + cbn [read_token st0 rs_raw]. rewrite (simple_name_lower n Hn), Hv, Hcd. cbn [snd].
      unfold EV, evs1. cbn [flat_map tok_evs app ev1]. rewrite void_agree, Hv, (attrs_read a Hq Hk). apply sr_refl.
  - (* empty-element tag *)
    apply andb_prop in H as [H Hk]. apply andb_prop in H as [H Hq]. apply andb_prop in H as [Hs Hn].
    apply str_eqb_eq in Hs. subst slash.
    pose proof (simple_name_ok n Hn) as NO. destruct (spell_is_written n a Hq) as (_ & E2 & _).
    cbn [wtoks_of_token]. rewrite E2. split; [|split; [|split; [|split]]].
    + unfold srcs. cbn. now rewrite app_nil_r.
    + constructor; [exact (tok_ok_self_gen unesc n a NO Hq)|constructor].
    + cbn [flat_map tok_evs app]. constructor; [discriminate|constructor].
    + cbn [read_token st0 rs_raw]. unfold parser_endtag. cbn. rewrite andb_false_r. reflexivity.
    + cbn [read_token st0 rs_raw]. unfold parser_endtag. cbn [rs_closed memS existsb]. rewrite andb_false_r. cbn [snd].
      unfold EV, evs1. cbn [flat_map tok_evs app ev1]. rewrite (simple_name_lower n Hn), (attrs_read a Hq Hk). apply sr_refl.
  - (* end tag *)
    pose proof (simple_name_ok n H) as NO. destruct (spell_is_written n [] eq_refl) as (_ & _ & E3).
    cbn [wtoks_of_token]. rewrite E3. split; [|split; [|split; [|split]]].
    + unfold srcs. cbn. now rewrite app_nil_r.
    + constructor; [exact (tok_ok_end unesc n NO)|constructor].
    + cbn [flat_map tok_evs app]. constructor; [discriminate|constructor].
    + cbn [read_token st0 rs_raw]. unfold parser_endtag. cbn. reflexivity.
    + cbn [read_token st0 rs_raw]. unfold parser_endtag. cbn [rs_closed memS existsb andb snd].
      unfold EV, evs1. cbn [flat_map tok_evs app ev1]. rewrite (simple_name_lower n H). apply sr_refl.
  - (* character data *)
    cbn [wtoks_of_token]. unfold text_value. destruct (text_pieces s) as [l|] eqn:P; [|discriminate].
    destruct (split_text_ok unesc _ _ _ P) as (S1 & S2 & S3). destruct (pieces_events l S3) as [PE1 PE2].
    split; [exact S1|]. split; [exact S2|]. split; [exact PE1|]. split; [reflexivity|]. cbn [read_token st0 rs_raw snd]. rewrite PE2.
    destruct s as [|c0 s0].
    + destruct l as [|t l']; [apply sr_refl|]. exfalso. unfold text_pieces in P. cbn in P. discriminate.
    + destruct l as [|t l']; [discriminate S1|]. rewrite P. cbn [map].
      apply (sr_chunks (a_b cfg) (piece_value (a_orig cfg) t) (map (piece_value (a_orig cfg)) l')).
  - (* comments, CDATA sections, processing instructions, declarations, doctypes *)
    assert (forall x, no_char 62 x = true -> no_char 62 (x ++ [63]) = true) as NQ
      by (intros x Hx; unfold no_char in *; rewrite forallb_app, Hx; reflexivity).
    destruct c as [|p]; [discriminate H|].
    repeat (destruct p as [p|p|]; try discriminate H).
    + (* 5: <?s?> *)
      split; [unfold srcs; cbn [wtoks_of_token map concat tok_src]; now rewrite app_nil_r|].
      split; [|split; [|split; [reflexivity|]]].
      * constructor; [|constructor]. pose proof (tok_ok_pi unesc (s ++ [63]) (NQ s H)) as T.
        rewrite <- app_assoc in T. exact T.
      * cbn [wtoks_of_token flat_map tok_evs app]. constructor; [discriminate|constructor].
      * apply sr_refl.
    + (* 3: <?s?> *)
      split; [unfold srcs; cbn [wtoks_of_token map concat tok_src]; now rewrite app_nil_r|].
      split; [|split; [|split; [reflexivity|]]].
      * constructor; [|constructor]. pose proof (tok_ok_pi unesc (s ++ [63]) (NQ s H)) as T.
        rewrite <- app_assoc in T. exact T.
      * cbn [wtoks_of_token flat_map tok_evs app]. constructor; [discriminate|constructor].
      * apply sr_refl.
    + (* 6: <!DOCTYPE s> *)
      split; [unfold srcs; cbn [wtoks_of_token map concat tok_src]; now rewrite app_nil_r|].
      split; [|split; [|split; [reflexivity|]]].
      * constructor; [|constructor]. exact (tok_ok_doctype unesc lit_DOCTYPE_sp s (or_introl eq_refl) H).
      * cbn [wtoks_of_token flat_map tok_evs app]. constructor; [discriminate|constructor].
      * apply sr_refl.
    + (* 4: <!--s--> *)
      split; [unfold srcs; cbn [wtoks_of_token map concat tok_src]; now rewrite app_nil_r|].
      split; [|split; [|split; [reflexivity|]]].
      * constructor; [|constructor]. exact (tok_ok_comment unesc s H).
      * cbn [wtoks_of_token flat_map tok_evs app]. constructor; [discriminate|constructor].
      * apply sr_refl.
    + (* 2: <?s> *)
      split; [unfold srcs; cbn [wtoks_of_token map concat tok_src]; now rewrite app_nil_r|].
      split; [|split; [|split; [reflexivity|]]].
      * constructor; [|constructor]. exact (tok_ok_pi unesc s H).
      * cbn [wtoks_of_token flat_map tok_evs app]. constructor; [discriminate|constructor].
      * apply sr_refl.
    + (* 1: <![CDATA[s]]> *)
      split; [unfold srcs; cbn [wtoks_of_token map concat tok_src]; now rewrite app_nil_r|].
      split; [|split; [|split; [reflexivity|]]].
      * constructor; [|constructor]. exact (tok_ok_cdata unesc s_cdata_open s (or_introl eq_refl) H).
      * cbn [wtoks_of_token flat_map tok_evs app]. constructor; [|constructor]. cbn [ev1].
        destruct (Adapter.starts_with s_cdata_open (ascii_upper (s_cdata_open ++ s))); discriminate.
      * apply sr_refl.
  - (* a hidden tag *)
    cbn [wtoks_of_token]. split; [reflexivity|]. split; [constructor|]. split; [constructor|]. split; [reflexivity|]. apply sr_refl.
Qed.

Lemma srcs_app a b : srcs (a ++ b) = srcs a ++ srcs b.
Proof. unfold srcs. now rewrite map_app, concat_app. Qed.

(* a script / style element *)
Lemma raw_group_bridge n a s r' : is_raw rc n = true -> quoted_attrs a = true -> nodup_keys a = true -> no_char 60 s = true ->
  let W := WRaw n a (uattrs unesc a) s in
  srcs [W] = spell (TOpen n a) ++ s ++ spell (TClose n) /\
  tok_ok unesc W /\
  Forall (fun e => ev1 cfg e <> None) (tok_evs W) /\
  read_from rt ra rc st0 (TOpen n a :: TClose n :: r') = EV cfg [WRaw n a (uattrs unesc a) []] ++ read_from rt ra rc st0 r' /\
  read_from rt ra rc st0 (TOpen n a :: TText s :: TClose n :: r') = EV cfg [W] ++ read_from rt ra rc st0 r'.
Proof.
  unfold is_raw. intros H Hq Hk Hs. apply andb_prop in H as [H Hv]. apply andb_prop in H as [H Hc2]. apply andb_prop in H as [Hn Hc1].
  apply negb_true_iff in Hv. pose proof (raw_name_lname n Hn) as LN. cbv zeta.
  assert (Attrs.ascii_lower n = n) as LO by (change (Attrs.ascii_lower n) with (Tokenizer.ascii_lower n); apply ascii_lower_id, lname_all, LN).
  assert (forall s0, EV cfg [WRaw n a (uattrs unesc a) s0] =
                     EStart n None (map (read_attr ra) a) :: match s0 with [] => [] | _ => [EData s0] end ++ [EEnd n None]) as EVR.
  { intros s0. unfold EV, evs1. cbn [flat_map tok_evs app ev1]. rewrite void_agree, Hv, (attrs_read a Hq Hk). destruct s0; reflexivity. }
  assert (forall toks, read_from rt ra rc st0 (TOpen n a :: toks) =
                       EStart n None (map (read_attr ra) a) :: read_from rt ra rc (mkrs (Some n) []) toks) as R1.
  { intros toks. cbn [read_from read_token st0 rs_raw]. rewrite LO, Hv, Hc1. reflexivity. }
  assert (forall toks, read_from rt ra rc (mkrs (Some n) []) (TClose n :: toks) = EEnd n None :: read_from rt ra rc st0 toks) as R2.
  { intros toks. cbn [read_from read_token rs_raw]. rewrite LO, str_eqb_refl. unfold parser_endtag. cbn. reflexivity. }
  assert (forall toks, read_from rt ra rc (mkrs (Some n) []) (TText s :: toks) =
                       match s with [] => [] | _ => [EData s] end ++ read_from rt ra rc (mkrs (Some n) []) toks) as R3.
  { intros toks. cbn [read_from read_token rs_raw spell]. destruct s; reflexivity. }
  destruct (spell_is_written n a Hq) as (E1 & _ & E3).
  split; [|split; [|split; [|split]]].
  - unfold srcs. cbn [map concat tok_src]. rewrite app_nil_r, E1, E3. reflexivity.
  - cbn [tok_ok]. exact (raw_step_ok_gen unesc n a s LN Hc2 Hq Hs).
  - cbn [tok_evs]. constructor; [cbn [ev1]; rewrite void_agree, Hv; discriminate|].
    destruct s; cbn [app]; repeat (constructor; [discriminate|]); constructor.
  - rewrite EVR, R1, R2. reflexivity.
  - rewrite EVR, R1, R3, R2. destruct s; reflexivity.
Qed.

Lemma tokens_bridge : forall k toks, (length toks <= k)%nat -> toks_covered rc toks = true ->
  srcs (wtoks_of unesc rc toks) = concat (map spell toks) /\
  Forall (tok_ok unesc) (wtoks_of unesc rc toks) /\
  Forall (fun e => ev1 cfg e <> None) (flat_map tok_evs (wtoks_of unesc rc toks)) /\
  sr_eq (a_b cfg) (EV cfg (wtoks_of unesc rc toks)) (read_from rt ra rc st0 toks).
Proof.
  induction k as [|k IH]; intros toks Hk0 H.
  - destruct toks; [|cbn in Hk0; lia]. split; [reflexivity|]. split; [constructor|]. split; [constructor|]. apply sr_refl.
  - destruct toks as [|tok r]; [split; [reflexivity|]; split; [constructor|]; split; [constructor|]; apply sr_refl|].
    cbn [length] in Hk0.
    assert (forall tok0, tok_covered rc tok0 = true -> toks_covered rc r = true ->
              srcs (wtoks_of_token unesc tok0 ++ wtoks_of unesc rc r) = concat (map spell (tok0 :: r)) /\
              Forall (tok_ok unesc) (wtoks_of_token unesc tok0 ++ wtoks_of unesc rc r) /\
              Forall (fun e => ev1 cfg e <> None) (flat_map tok_evs (wtoks_of_token unesc tok0 ++ wtoks_of unesc rc r)) /\
              sr_eq (a_b cfg) (EV cfg (wtoks_of_token unesc tok0 ++ wtoks_of unesc rc r)) (read_from rt ra rc st0 (tok0 :: r))) as GEN.
    { intros tok0 H1 H2. destruct (IH r ltac:(lia) H2) as (I1 & I2 & I3 & I4).
      destruct (token_bridge tok0 H1) as (T1 & T2 & T3 & T4 & T5).
      split; [rewrite srcs_app, T1, I1; reflexivity|]. split; [apply Forall_app; split; assumption|].
      split; [rewrite flat_map_app; apply Forall_app; split; assumption|].
      cbn [read_from]. destruct (read_token rt ra rc st0 tok0) as [st' evs] eqn:R. cbn [fst snd] in T4, T5. subst st'.
      rewrite EV_app. apply sr_app; assumption. }
    destruct tok as [n a|n a slash|n|s|c s|];
      try (cbn [toks_covered wtoks_of] in *; apply andb_prop in H as [H1 H2]; exact (GEN _ H1 H2)).
    cbn [toks_covered wtoks_of] in *. destruct (is_raw rc n) eqn:RAW; [|apply andb_prop in H as [H1 H2]; exact (GEN _ H1 H2)].
    apply andb_prop in H as [H Hgrp]. apply andb_prop in H as [Hq Hk].
    destruct r as [|t2 r2]; [discriminate Hgrp|]. destruct t2 as [| |n'|s| |]; try discriminate Hgrp.
    + (* <script ...></script> *)
      apply andb_prop in Hgrp as [Hn H2]. apply str_eqb_eq in Hn. subst n'. cbn [length] in Hk0.
      destruct (IH r2 ltac:(lia) H2) as (I1 & I2 & I3 & I4).
      destruct (raw_group_bridge n a [] r2 RAW Hq Hk eq_refl) as (G1 & G2 & G3 & G4 & _). cbv zeta in G1, G2, G3.
      change (WRaw n a (uattrs unesc a) [] :: wtoks_of unesc rc r2) with ([WRaw n a (uattrs unesc a) []] ++ wtoks_of unesc rc r2).
      split; [rewrite srcs_app, G1, I1; cbn [map concat app]; rewrite <- !app_assoc; reflexivity|].
      split; [constructor; assumption|]. split; [cbn [flat_map app]; apply Forall_app; split; assumption|].
      rewrite G4, EV_app. apply sr_app; [apply sr_refl|exact I4].
    + (* <script ...>text</script> *)
      destruct r2 as [|t3 r3]; [discriminate Hgrp|]. destruct t3 as [| |n'| | |]; try discriminate Hgrp.
      apply andb_prop in Hgrp as [H H2]. apply andb_prop in H as [Hn Hs]. apply str_eqb_eq in Hn. subst n'. cbn [length] in Hk0.
      destruct (IH r3 ltac:(lia) H2) as (I1 & I2 & I3 & I4).
      destruct (raw_group_bridge n a s r3 RAW Hq Hk Hs) as (G1 & G2 & G3 & _ & G5). cbv zeta in G1, G2, G3.
      change (WRaw n a (uattrs unesc a) s :: wtoks_of unesc rc r3) with ([WRaw n a (uattrs unesc a) s] ++ wtoks_of unesc rc r3).
      split; [rewrite srcs_app, G1, I1; cbn [map concat spell]; rewrite <- !app_assoc; reflexivity|].
      split; [constructor; assumption|]. split; [cbn [flat_map app]; apply Forall_app; split; assumption|].
      rewrite G5, EV_app. apply sr_app; [apply sr_refl|exact I4].
Qed.

(* the rendered string, read by the tokenizer model and the adapter model, builds what Model.Reparse.read_tokens'
   events build *)
Theorem rendered_string_read toks : toks_covered rc toks = true ->
  rejected unesc (concat (map spell toks)) = false /\
  spec_run (a_b cfg) (adapted cfg (callbacks unesc (concat (map spell toks)))) =
  spec_run (a_b cfg) (read_tokens rt ra rc toks).
Proof.
  intros H. destruct (tokens_bridge _ toks (le_n _) H) as (B1 & B2 & B3 & B4).
  destruct (adapted_of_wtoks unesc cfg (wtoks_of unesc rc toks) B2 B3) as [R A]. rewrite B1 in R, A.
  split; [exact R|]. apply sr_run. eapply sr_trans; [exact A|exact B4].
Qed.
End Tokens.

(* ------------------------------------------------------------------ C05 from the rendered string *)
Lemma text_value_nil orig : text_value orig [] = [].
Proof. reflexivity. Qed.
Lemma text_value_nl orig : text_value orig [nl_] = [nl_].
Proof. reflexivity. Qed.

(* render, tokenize the STRING, adapt, build: the normalised tree, whenever the tree's tokens are in the covered
   sub-domain and the formatter's substitution is undone by what the parser makes of character data ([text_value]) and
   by html.unescape on attribute values *)
Theorem string_round_trip unesc enc f rc cfg g t :
  f_subst f = Some g -> g [] = [] ->
  (forall s, text_value (a_orig cfg) (g s) = s) ->
  (forall s, attr_read unesc (attr_inner (g s)) = s) ->
  f_void f <> [] ->
  memS (c_root (a_b cfg)) (c_pw (a_b cfg)) = false -> assocS (c_root (a_b cfg)) (c_containers (a_b cfg)) = None ->
  (forall n, can_be_empty (a_b cfg) n = memS n (r_void rc)) ->
  representable_top f rc (a_b cfg) t = true ->
  toks_covered rc (tokens_of enc f t) = true ->
  rejected unesc (decode enc f None t) = false /\
  spec_run (a_b cfg) (adapted cfg (callbacks unesc (decode enc f None t))) = flat_tree (a_b cfg) (norm enc f (a_b cfg) t) /\
  heap_is (parse_string cfg unesc (decode enc f None t)) (flat_tree (a_b cfg) (norm enc f (a_b cfg) t)).
Proof.
  intros Hg Hg0 Hrt Hra Hv Hr1 Hr2 Hva Hrep Hcov.
  rewrite decode_is_spelled_tokens.
  destruct (rendered_string_read unesc cfg rc Hva (tokens_of enc f t) Hcov) as [R E].
  pose proof (roundtrip_tokens enc f (text_value (a_orig cfg)) (attr_read unesc) rc (a_b cfg) g Hg Hg0 Hrt
                (text_value_nil _) Hra Hv (text_value_nl _) Hr1 Hr2 t Hrep) as RT.
  split; [exact R|]. split; [rewrite E; exact RT|].
  unfold parse_string. rewrite <- RT, <- E. apply malformed_is_fold.
Qed.

(* ------------------------------------------------------------------ substitute_xml is undone by the parser *)
Definition pv_concat (orig : option (N -> option str)) (l : list wtok) : str := concat (map (piece_value orig) l).

Lemma subst_special c : memN c ampersand_or_bracket = true -> c = 38 \/ c = 60 \/ c = 62.
Proof.
  unfold memN, ampersand_or_bracket. cbn [existsb]. intros H.
  destruct (N.eqb_spec c 38); auto. destruct (N.eqb_spec c 60); auto. destruct (N.eqb_spec c 62); auto. discriminate.
Qed.
Lemma subst_plain c : memN c ampersand_or_bracket = false -> subst_xml_char c = [c] /\ (c =? 60) = false /\ (c =? 38) = false.
Proof.
  intros H. unfold subst_xml_char. rewrite H. unfold memN, ampersand_or_bracket in H. cbn [existsb] in H.
  apply orb_false_iff in H as [H1 H]. apply orb_false_iff in H as [H2 _]. auto.
Qed.
Lemma span_ni_cons c X : (c =? 60) = false -> (c =? 38) = false ->
  span not_interesting (c :: X) = (c :: fst (span not_interesting X), snd (span not_interesting X)).
Proof. intros H1 H2. cbn [span]. unfold not_interesting at 1. rewrite H1, H2. cbn [orb negb]. destruct (span not_interesting X). reflexivity. Qed.

Lemma split_subst_xml orig : forall s f, (length (subst_xml s) <= f)%nat ->
  exists l, split_text f (subst_xml s) = Some l /\ pv_concat orig l = s.
Proof.
  induction s as [|c s' IH]; intros f Hf.
  - exists []. destruct f; split; reflexivity.
  - unfold subst_xml in *. cbn [flat_map] in *. fold (subst_xml s') in *.
    destruct (memN c ampersand_or_bracket) eqn:M.
    + (* & < > : a reference *)
      assert (exists name, subst_xml_char c = 38 :: name ++ [59] /\ ent_name_ok name = true /\ (hd 0 name =? 35) = false /\
                           forallb (fun x => negb (x =? 59)) name = true /\ entity_data name = [c] /\ name <> []) as (name & E & N1 & N2 & N3 & N4 & N5).
      { destruct (subst_special c M) as [->|[->| ->]].
        - exists [97; 109; 112]. repeat split; try reflexivity; try discriminate.
        - exists [108; 116]. repeat split; try reflexivity; try discriminate.
        - exists [103; 116]. repeat split; try reflexivity; try discriminate. }
      rewrite E in *. cbn [app length] in Hf. rewrite <- app_assoc in *. cbn [app] in *.
      destruct f as [|f]; [cbn in Hf; lia|]. rewrite app_length in Hf. cbn [length] in Hf.
      destruct (IH f ltac:(lia)) as (l & S & V).
      cbn [split_text]. change (38 =? 60) with false. change (38 =? 38) with true. cbv iota.
      replace ((name ++ [59]) ++ subst_xml s') with (name ++ 59 :: subst_xml s') by (rewrite <- app_assoc; reflexivity).
      rewrite (span_app_stop (fun x => negb (x =? 59)) name 59 (subst_xml s') N3 eq_refl).
      destruct name as [|x num]; [congruence|]. cbn [hd] in N2. rewrite N2, N1, S. cbn [option_map].
      eexists. split; [reflexivity|]. unfold pv_concat in *. cbn [map concat piece_value]. rewrite N4, V. reflexivity.
    + (* any other character *)
      destruct (subst_plain c M) as (E & C60 & C38). rewrite E in *. cbn [app length] in *.
      destruct f as [|f]; [lia|].
      cbn [split_text]. rewrite C60, C38. rewrite (span_ni_cons c (subst_xml s') C60 C38).
      destruct s' as [|d s''].
      * cbn. eexists. split; [destruct f; reflexivity|]. reflexivity.
      * unfold subst_xml in *. cbn [flat_map] in *. fold (subst_xml s'') in *.
        destruct (memN d ampersand_or_bracket) eqn:Md.
        -- (* next comes a reference: the run of plain characters is just c *)
           assert (exists Z, subst_xml_char d = 38 :: Z) as (Z & EZ)
             by (destruct (subst_special d Md) as [->|[->| ->]]; eexists; reflexivity).
           rewrite EZ in *. cbn [app] in *. cbn [span]. change (not_interesting 38) with false. cbv iota. cbn [fst snd].
           destruct (IH f ltac:(lia)) as (l & S & V). rewrite S. cbn [option_map].
           eexists. split; [reflexivity|]. unfold pv_concat in *. cbn [map concat piece_value]. now rewrite V.
        -- (* next comes another plain character: it joins the run *)
           destruct (subst_plain d Md) as (Ed & D60 & D38). rewrite Ed in *. cbn [app length] in *.
           destruct (IH (S f) ltac:(lia)) as (l & S & V).
           cbn [split_text] in S. rewrite D60, D38 in S. rewrite (span_ni_cons d (subst_xml s'') D60 D38) in S.
           rewrite (span_ni_cons d (subst_xml s'') D60 D38). cbn [fst snd].
           destruct (split_text f (snd (span not_interesting (subst_xml s'')))) as [l1|] eqn:S1; [|discriminate].
           cbn [option_map] in S. inversion S; subst l. cbn [option_map].
           eexists. split; [reflexivity|]. unfold pv_concat in *. cbn [map concat piece_value] in *.
           cbn [app] in V. rewrite <- V. reflexivity.
Qed.

Theorem text_value_subst_xml orig s : text_value orig (subst_xml s) = s.
Proof.
  unfold text_value, text_pieces. destruct (split_subst_xml orig s _ (le_n _)) as (l & S & V). rewrite S. exact V.
Qed.

(* the 'minimal' formatter, html.unescape = C09's model of it: nothing assumed *)
Theorem string_round_trip_minimal enc f rc cfg t :
  f_subst f = Some subst_xml -> f_void f <> [] ->
  memS (c_root (a_b cfg)) (c_pw (a_b cfg)) = false -> assocS (c_root (a_b cfg)) (c_containers (a_b cfg)) = None ->
  (forall n, can_be_empty (a_b cfg) n = memS n (r_void rc)) ->
  representable_top f rc (a_b cfg) t = true ->
  toks_covered rc (tokens_of enc f t) = true ->
  rejected EntitySubst.unescape (decode enc f None t) = false /\
  spec_run (a_b cfg) (adapted cfg (callbacks EntitySubst.unescape (decode enc f None t))) = flat_tree (a_b cfg) (norm enc f (a_b cfg) t) /\
  heap_is (parse_string cfg EntitySubst.unescape (decode enc f None t)) (flat_tree (a_b cfg) (norm enc f (a_b cfg) t)).
Proof.
  intros Hs Hv H1 H2 Hva Hr Hc.
  apply (string_round_trip EntitySubst.unescape enc f rc cfg subst_xml t Hs eq_refl (text_value_subst_xml _)); auto.
  intros s. unfold attr_read, unesc_value. pose proof (proj2 (minimal_reads_back s)) as R.
  destruct (attr_inner (subst_xml s)) eqn:E; [|exact R]. rewrite <- R. reflexivity.
Qed.
