(* C09 — the html5 hypotheses are exact: a string reads back from substitute_html5 if AND ONLY IF it has no bare
   reference (element text: [no_bare_ref]; attribute value: [no_bare_ref_attr]).
   The converse direction is a counting argument: neither reader ever gives out more characters than it consumes,
   and completing a reference gives out strictly fewer; so a completed bare reference makes what is read back
   strictly shorter than the original. *)
From Coq Require Import List NArith Bool Arith Lia.
From BS Require Import Base.Sexp Base.Types Base.Reader Gen.Entities Gen.Stdlib Gen.T_C09
     Model.SmartQuotes Model.EntitySubst Spec.EntitiesSpec Proofs.EntitiesTables Proofs.EntitiesProofs
     Proofs.EntitiesAttrProofs.
Import ListNotations.
Open Scope N_scope.

Notation rdt := (read_from ent_text num_text).

(* ================================================================================================ *)
(* element text                                                                                      *)
(* ================================================================================================ *)

(* table obligation: a named reference never stands for more characters than its name has *)
Lemma ent_values_short_tbl :
  forallb (fun kv => Nat.leb (length (snd kv)) (length (fst kv))) html_entity_to_character = true.
Proof. vm_compute. reflexivity. Qed.

Lemma ent_text_short name v : ent_text name = Some v -> (length v <= length name)%nat.
Proof.
  unfold ent_text. intros H. apply assocS_some_in in H.
  pose proof ent_values_short_tbl as T. rewrite forallb_forall in T. specialize (T _ H). now apply Nat.leb_le in T.
Qed.

Lemma resolve_len acc : (length (resolve_named ent_text acc) <= S (length acc))%nat.
Proof.
  unfold resolve_named. destruct (ent_text (rev acc)) as [v|] eqn:E.
  - apply ent_text_short in E. rewrite rev_length in E. lia.
  - cbn. now rewrite rev_length.
Qed.

Lemma resolve_known_len acc : name_unknown acc = false -> (length (resolve_named ent_text acc) <= length acc)%nat.
Proof.
  unfold name_unknown, resolve_named. destruct (ent_text (rev acc)) as [v|] eqn:E; [|discriminate].
  intros _. apply ent_text_short in E. now rewrite rev_length in E.
Qed.

Lemma num_text_len n : length (num_text n) = 1%nat.
Proof.
  unfold num_text. destruct (n <? 256); [destruct (decode_byte cp1252_table n); reflexivity|].
  destruct (n <=? 1114111); reflexivity.
Qed.

(* the characters a pending state has consumed and not yet given out *)
Definition pend (st : rstate) : nat :=
  match st with
  | Idle => 0
  | Amp => 1
  | Named acc => S (length acc)
  | Hash => 2
  | HashX _ => 3
  | Dec acc => 2 + length acc
  | Hex _ acc => 3 + length acc
  end.

Lemma idle_step_len c st' o : idle_step c = (st', o) -> (length o + pend st' = 1)%nat.
Proof. unfold idle_step. destruct (c =? c_amp); intros H; inversion H; reflexivity. Qed.

(* one step never gives out more than it has consumed *)
Lemma step_len st c st' o :
  step ent_text num_text st c = (st', o) -> (length o + pend st' <= pend st + 1)%nat.
Proof.
  pose proof resolve_len as RL. pose proof num_text_len as NL.
  destruct st as [| |acc| |x|acc|x acc]; cbn [step]; try specialize (RL acc);
    destruct (idle_step c) as [s1 o1] eqn:E; apply idle_step_len in E;
    repeat match goal with
    | |- context [if ?b then _ else _] => destruct b
    end;
    intros H; inversion H; subst; cbn [pend length literal app];
    rewrite ?app_length, ?NL, ?rev_length; cbn [pend length app]; rewrite ?app_length, ?rev_length; cbn [length];
    lia.
Qed.

Lemma finish_len st : (length (finish ent_text num_text st) <= pend st)%nat.
Proof.
  destruct st; cbn; rewrite ?num_text_len, ?rev_length; try lia. apply resolve_len.
Qed.

Lemma flush_len st : (length (flush ent_text num_text st) <= pend st)%nat.
Proof.
  destruct st; cbn; rewrite ?num_text_len; try lia. apply resolve_len.
Qed.

(* reading "&amp;" + rest from any state *)
Lemma rd_escaped_amp st X :
  rdt st (s_amp_ent ++ X) = flush ent_text num_text st ++ c_amp :: rdt Idle X.
Proof.
  change (s_amp_ent ++ X) with (c_amp :: n_amp ++ c_semi :: X).
  cbn [read_from]. rewrite step_amp. destruct known_amp as [Hg [He _]].
  now rewrite (rd_ref _ _ n_amp [c_amp] X Hg He).
Qed.

Lemma rd_bare_amp st X : rdt st (c_amp :: X) = flush ent_text num_text st ++ rdt Amp X.
Proof. cbn [read_from]. now rewrite step_amp. Qed.

(* what is read back is never longer than the original ... *)
Lemma esc_read_len : forall s st, (length (rdt st (esc_loc s)) <= pend st + length s)%nat.
Proof.
  induction s as [|c r IH]; intros st.
  - cbn. pose proof (finish_len st). lia.
  - cbn [esc_loc length].
    destruct ((c =? c_amp) && match any_entity_match r with Some _ => true | None => false end) eqn:E.
    + rewrite rd_escaped_amp, app_length. cbn [length]. pose proof (flush_len st). specialize (IH Idle). cbn in IH. lia.
    + cbn [read_from]. destruct (step ent_text num_text st c) as [st' o] eqn:Es.
      apply step_len in Es. rewrite app_length. specialize (IH st'). lia.
Qed.

(* ... and strictly shorter as soon as one bare reference is completed *)
Lemma hex_strict : forall r x acc, (length (rdt (Hex x acc) (esc_loc r)) < 3 + length acc + length r)%nat.
Proof.
  induction r as [|c r IH]; intros x acc.
  - cbn. rewrite num_text_len. lia.
  - destruct (esc_loc_cons c r) as (w & Ew & Hw). rewrite Ew.
    destruct (is_hexd c) eqn:Eh.
    + assert (Hna : c <> c_amp) by (intros ->; discriminate). rewrite (Hw Hna).
      cbn [read_from step]. rewrite Eh. cbn [app]. specialize (IH x (c :: acc)). cbn [length] in *. lia.
    + destruct (c =? c_semi) eqn:Es.
      * assert (Hna : c <> c_amp) by (intros ->; discriminate). rewrite (Hw Hna).
        cbn [read_from step]. rewrite Eh, Es. rewrite app_length, num_text_len.
        pose proof (esc_read_len r Idle). cbn [pend length] in *. lia.
      * rewrite (rd_giveup _ _ (Hex x acc) c w (num_text (num_of 16 (rev acc)))) by (cbn [step]; now rewrite Eh, Es).
        rewrite <- Ew, app_length, num_text_len. pose proof (esc_read_len (c :: r) Idle). cbn [pend length] in *. lia.
Qed.

Lemma dead_dec_strict : forall r acc,
  dead_dec r = false -> (length (rdt (Dec acc) (esc_loc r)) < 2 + length acc + length r)%nat.
Proof.
  induction r as [|c r IH]; intros acc H.
  - cbn. rewrite num_text_len. lia.
  - cbn [dead_dec] in H. destruct (esc_loc_cons c r) as (w & Ew & Hw). rewrite Ew.
    destruct (is_digit c) eqn:Ed.
    + assert (Hna : c <> c_amp) by (intros ->; discriminate). rewrite (Hw Hna).
      cbn [read_from step]. rewrite Ed. cbn [app]. specialize (IH (c :: acc) H). cbn [length] in *. lia.
    + destruct (c =? c_semi) eqn:Es.
      * assert (Hna : c <> c_amp) by (intros ->; discriminate). rewrite (Hw Hna).
        cbn [read_from step]. rewrite Ed, Es. rewrite app_length, num_text_len.
        pose proof (esc_read_len r Idle). cbn [pend length] in *. lia.
      * rewrite (rd_giveup _ _ (Dec acc) c w (num_text (num_of 10 (rev acc)))) by (cbn [step]; now rewrite Ed, Es, H).
        rewrite <- Ew, app_length, num_text_len. pose proof (esc_read_len (c :: r) Idle). cbn [pend length] in *. lia.
Qed.

Lemma dead_name_strict : forall r acc,
  dead_name acc r = false -> (length (rdt (Named acc) (esc_loc r)) < S (length acc) + length r)%nat.
Proof.
  induction r as [|c r IH]; intros acc H.
  - cbn in *. apply resolve_known_len in H. lia.
  - cbn [dead_name] in H. destruct (esc_loc_cons c r) as (w & Ew & Hw). rewrite Ew.
    destruct (is_namechar c) eqn:En.
    + destruct (namechar_not_special c En) as (Hna & _). rewrite (Hw Hna).
      cbn [read_from step]. rewrite En. cbn [app]. specialize (IH (c :: acc) H). cbn [length] in *. lia.
    + destruct (c =? c_semi) eqn:Es.
      * assert (Hna : c <> c_amp) by (apply N.eqb_eq in Es; subst c; discriminate). rewrite (Hw Hna).
        cbn [read_from step]. rewrite En, Es. rewrite app_length.
        pose proof (resolve_len acc). pose proof (esc_read_len r Idle). cbn [pend length] in *. lia.
      * rewrite (rd_giveup _ _ (Named acc) c w (resolve_named ent_text acc)) by (cbn [step]; now rewrite En, Es).
        rewrite <- Ew, app_length. pose proof (resolve_known_len acc H).
        pose proof (esc_read_len (c :: r) Idle). cbn [pend length] in *. lia.
Qed.

Lemma dead_amp_strict r : dead_amp r = false -> (length (rdt Amp (esc_loc r)) < 1 + length r)%nat.
Proof.
  destruct r as [|c r]; [discriminate|]. cbn [dead_amp]. intros H.
  destruct (esc_loc_cons c r) as (w & Ew & Hw). rewrite Ew.
  destruct (c =? c_hash) eqn:Eh.
  - apply N.eqb_eq in Eh. subst c. rewrite Hw by discriminate.
    assert (E0 : forall v, rdt Amp (c_hash :: v) = rdt Hash v) by reflexivity. rewrite E0.
    destruct r as [|d r']; [discriminate|].
    destruct (esc_loc_cons d r') as (w' & Ew' & Hw'). rewrite Ew'.
    destruct (is_digit d) eqn:Ed.
    + assert (Hna : d <> c_amp) by (intros ->; discriminate). rewrite (Hw' Hna).
      assert (E2 : forall v, rdt Hash (d :: v) = rdt (Dec [d]) v) by (intros v; cbn [read_from step]; now rewrite Ed).
      rewrite E2. pose proof (dead_dec_strict r' [d] H). cbn [length] in *. lia.
    + destruct ((d =? c_x) || (d =? c_X)) eqn:Ex; [|discriminate].
      assert (Hna : d <> c_amp) by (intros ->; discriminate). rewrite (Hw' Hna).
      assert (E2 : forall v, rdt Hash (d :: v) = rdt (HashX d) v) by (intros v; cbn [read_from step]; now rewrite Ed, Ex).
      rewrite E2. destruct r' as [|h r3]; [discriminate|]. apply negb_false_iff in H.
      destruct (esc_loc_cons h r3) as (w3 & Ew3 & Hw3). rewrite Ew3.
      assert (Hnh : h <> c_amp) by (intros ->; discriminate). rewrite (Hw3 Hnh).
      assert (E3 : forall v, rdt (HashX d) (h :: v) = rdt (Hex d [h]) v) by (intros v; cbn [read_from step]; now rewrite H).
      rewrite E3. pose proof (hex_strict r3 d [h]). cbn [length] in *. lia.
  - destruct (is_alpha c) eqn:Ea; [|discriminate].
    assert (Hna : c <> c_amp) by (intros ->; discriminate). rewrite (Hw Hna).
    assert (E2 : forall v, rdt Amp (c :: v) = rdt (Named [c]) v) by (intros v; cbn [read_from step]; now rewrite Eh, Ea).
    rewrite E2. pose proof (dead_name_strict r [c] H). cbn [length] in *. lia.
Qed.

Lemma esc_read_strict : forall s st,
  no_bare_ref s = false -> (length (rdt st (esc_loc s)) < pend st + length s)%nat.
Proof.
  induction s as [|c r IH]; intros st H; [discriminate|].
  cbn [no_bare_ref] in H. cbn [esc_loc length].
  destruct (c =? c_amp) eqn:Ec; cbn [andb] in *.
  - apply N.eqb_eq in Ec. subst c. destruct (any_entity_match r) as [n|].
    + cbn [andb] in H. rewrite rd_escaped_amp, app_length. cbn [length].
      pose proof (flush_len st). specialize (IH Idle H). cbn [pend] in IH. lia.
    + rewrite rd_bare_amp, app_length. pose proof (flush_len st).
      destruct (dead_amp r) eqn:Ed; cbn [andb] in H.
      * specialize (IH Amp H). cbn [pend] in IH. lia.
      * pose proof (dead_amp_strict r Ed). lia.
  - cbn [read_from]. destruct (step ent_text num_text st c) as [st' o] eqn:Es.
    apply step_len in Es. rewrite app_length. specialize (IH st' H). lia.
Qed.

(* the hypothesis of the partial theorem is exact *)
Theorem html5_text_roundtrip_iff s : read_text (substitute_html5 s) = s <-> no_bare_ref s = true.
Proof.
  split; [|apply html5_text_roundtrip].
  intros H. destruct (no_bare_ref s) eqn:E; [reflexivity|]. exfalso.
  rewrite html5_text_reads_as, escape_any_entity_loc in H. unfold read_text, read in H.
  pose proof (esc_read_strict s Idle E) as Hs. rewrite H in Hs. cbn [pend] in Hs. lia.
Qed.

(* ================================================================================================ *)
(* attribute value (html.unescape)                                                                   *)
(* ================================================================================================ *)

(* oracle-table facts: what a reference stands for is at most two characters (named) / one character (numeric) *)
Lemma html5_values_short_tbl : forallb (fun kv => Nat.leb (length (snd kv)) 2) py_html5 = true.
Proof. vm_compute. reflexivity. Qed.

Lemma invalid_charrefs_short_tbl : forallb (fun kv => Nat.leb (length (snd kv)) 1) py_invalid_charrefs = true.
Proof. vm_compute. reflexivity. Qed.

Lemma html5_value_len k v : html5_lookup k = Some v -> (length v <= 2)%nat.
Proof.
  unfold html5_lookup. intros H. apply assocS_some_in in H.
  pose proof html5_values_short_tbl as T. rewrite forallb_forall in T. specialize (T _ H). now apply Nat.leb_le in T.
Qed.

Lemma assocN_some_in {X} k (l : list (N * X)) v : assocN k l = Some v -> In (k, v) l.
Proof.
  induction l as [|[k' v'] l IH]; cbn; [discriminate|].
  destruct (k =? k') eqn:E.
  - intros H. inversion H; subst. apply N.eqb_eq in E. subst. now left.
  - intros H. right. now apply IH.
Qed.

Lemma replace_numeric_len n : (length (replace_numeric n) <= 1)%nat.
Proof.
  unfold replace_numeric. destruct (assocN n py_invalid_charrefs) as [r|] eqn:E.
  - apply assocN_some_in in E. pose proof invalid_charrefs_short_tbl as T. rewrite forallb_forall in T.
    specialize (T _ E). now apply Nat.leb_le in T.
  - destruct (((55296 <=? n) && (n <=? 57343)) || (1114111 <? n)); [cbn; lia|].
    destruct (memN n py_invalid_codepoints); cbn; lia.
Qed.

Lemma longest_prefix_len s : forall x r', (x <= length s)%nat -> longest_prefix x s = Some r' -> (length r' <= length s)%nat.
Proof.
  induction x as [|x IH]; intros r' Hx H; [discriminate|].
  cbn [longest_prefix] in H. destruct (Nat.leb 2 (S x)) eqn:E2; [|discriminate].
  apply Nat.leb_le in E2.
  destruct (html5_lookup (firstn (S x) s)) as [v|] eqn:El.
  - injection H as <-. apply html5_value_len in El. change (match s with [] => [] | _ :: l => skipn x l end) with (skipn (S x) s). rewrite app_length, skipn_length. lia.
  - apply IH; [lia | assumption].
Qed.

Lemma replace_named_len s : replace_named s = c_amp :: s \/ (length (replace_named s) < 1 + length s)%nat.
Proof.
  unfold replace_named. destruct (html5_lookup s) as [v|] eqn:E.
  - right. destruct (html5_key_facts s v E) as [_ Hl]. apply html5_value_len in E. lia.
  - destruct (longest_prefix (pred (length s)) s) as [r'|] eqn:Ep; [|now left].
    right. apply longest_prefix_len in Ep; lia.
Qed.

(* a match either leaves the text as it is, or gives out strictly less than it covers *)
Lemma charref_match_rep w rep n :
  charref_match w = Some (rep, n) -> rep = c_amp :: firstn n w \/ (length rep < 1 + n)%nat.
Proof.
  unfold charref_match. destruct w as [|h r1]; [discriminate|]. destruct (h =? c_hash).
  - destruct r1 as [|d r2]; [discriminate|]. destruct (is_digit d).
    + destruct (span is_digit (d :: r2)) as [ds rest]. intros H. inversion H; subst. right.
      pose proof (replace_numeric_len (num_of 10 ds)). lia.
    + destruct ((d =? c_x) || (d =? c_X)); [|discriminate].
      destruct (span is_hexd r2) as [hs rest]. destruct hs as [|h0 hs0]; [discriminate|].
      intros H. inversion H; subst. right. pose proof (replace_numeric_len (num_of 16 (h0 :: hs0))). lia.
  - destruct (take_max un_name_char 32 (h :: r1)) as [run rest] eqn:Et.
    destruct run as [|c0 run0]; [discriminate|]. intros H. inversion H; subst. clear H.
    apply take_max_spec in Et as (Er & _).
    remember (if starts_semi rest then c0 :: run0 ++ [c_semi] else c0 :: run0) as s eqn:Es.
    assert (Hs : firstn (length s) (h :: r1) = s).
    { rewrite Er, Es. destruct rest as [|c rest0]; cbn [starts_semi].
      - now rewrite app_nil_r, firstn_all.
      - destruct (c =? c_semi) eqn:Ec.
        + apply N.eqb_eq in Ec. subst c.
          change (c0 :: run0 ++ [c_semi]) with ((c0 :: run0) ++ [c_semi]).
          replace ((c0 :: run0) ++ c_semi :: rest0) with (((c0 :: run0) ++ [c_semi]) ++ rest0) by now rewrite <- app_assoc.
          now rewrite firstn_app, firstn_all, Nat.sub_diag, firstn_O, app_nil_r.
        + now rewrite firstn_app, firstn_all, Nat.sub_diag, firstn_O, app_nil_r. }
    rewrite Hs. destruct (replace_named_len s) as [E|E]; [left; exact E | now right].
Qed.

Lemma no_bare_ref_attr_amp r :
  no_bare_ref_attr (c_amp :: r) =
  (match any_entity_match r with Some _ => true | None => dead_amp_attr r end) && no_bare_ref_attr r.
Proof. reflexivity. Qed.

(* html.unescape never gives out more than it reads; strictly less once a bare reference is completed *)
Lemma attr_len_n : forall n s, (length s <= n)%nat ->
  (length (unescape_go O (esc_loc s)) <= length s)%nat /\
  (no_bare_ref_attr s = false -> (length (unescape_go O (esc_loc s)) < length s)%nat).
Proof.
  induction n as [|n IH]; intros s Hl.
  - destruct s; [|cbn in Hl; lia]. split; [cbn; lia | discriminate].
  - destruct s as [|c r]; [split; [cbn; lia | discriminate]|].
    cbn [length] in Hl. assert (Hr : (length r <= n)%nat) by lia.
    destruct (IH r Hr) as [IHle IHlt].
    destruct (N.eqb_spec c c_amp) as [->|Hc].
    + rewrite no_bare_ref_attr_amp. cbn [esc_loc]. rewrite N.eqb_refl. cbn [andb].
      destruct (any_entity_match r) as [m|] eqn:Em.
      * (* escaped *)
        change (s_amp_ent ++ esc_loc r) with (c_amp :: n_amp ++ c_semi :: esc_loc r).
        destruct known_amp as [Hg [_ Hk]]. rewrite (unescape_ref n_amp [c_amp] _ Hg Hk). cbn [app length andb].
        split; [lia|]. intros H. specialize (IHlt H). lia.
      * destruct (dead_amp_attr r) eqn:Ed; cbn [andb].
        -- (* left alone by html.unescape *)
           pose proof (dead_amp_attr_read r Ed) as Hd. rewrite Hd. cbn [length].
           split; [lia|]. intros H. specialize (IHlt H). lia.
        -- (* completed: strictly shorter *)
           assert (Hlt : (length (unescape_go O (c_amp :: esc_loc r)) < S (length r))%nat).
           { destruct (esc_loc_upto r) as (X & Hx & HX & HY).
             destruct (upto_amp_split r) as (Y & Hry & _ & Hn).
             specialize (HY Y Hry). subst X.
             unfold dead_amp_attr in Ed. set (w := upto_amp r) in *.
             assert (HlY : (length Y <= n)%nat).
             { assert (length r = length w + length Y)%nat by (rewrite Hry at 1; apply app_length). lia. }
             destruct (IH Y HlY) as [IHY _].
             assert (Hlr : (length r = length w + length Y)%nat) by (rewrite Hry at 1; apply app_length).
             rewrite Hx, unescape_amp, (charref_match_local w (esc_loc Y) HX).
             destruct (charref_match w) as [[rep m]|] eqn:Ecm.
             - pose proof (charref_match_len _ _ _ Ecm) as Hm.
               assert (Hns : ~ In c_amp (skipn m w)).
               { intros Hi. apply Hn. rewrite <- (firstn_skipn m w). apply in_or_app. now right. }
               rewrite unescape_skip, skipn_app. replace (m - length w)%nat with O by lia. rewrite skipn_O.
               rewrite (unescape_plain_run _ _ Hns). rewrite !app_length, skipn_length.
               destruct (charref_match_rep w rep m Ecm) as [El|El]; [|lia].
               exfalso. (* a literal match would make the ampersand dead *)
               assert (E : str_eqb (unescape (c_amp :: w)) (c_amp :: w) = true).
               { apply str_eqb_eq. unfold unescape. rewrite unescape_amp, Ecm, El.
                 rewrite unescape_skip, (unescape_no_amp _ Hns). cbn [app]. now rewrite firstn_skipn. }
               rewrite E in Ed. discriminate.
             - exfalso.
               assert (E : str_eqb (unescape (c_amp :: w)) (c_amp :: w) = true).
               { apply str_eqb_eq. unfold unescape. rewrite unescape_amp, Ecm. now rewrite (unescape_no_amp w Hn). }
               rewrite E in Ed. discriminate. }
           cbn [length]. split; [lia | intros _; lia].
    + cbn [no_bare_ref_attr esc_loc]. apply N.eqb_neq in Hc. rewrite Hc. cbn [andb].
      apply N.eqb_neq in Hc. rewrite unescape_plain by assumption. cbn [length].
      split; [lia|]. intros H. specialize (IHlt H). lia.
Qed.

Theorem html5_attr_roundtrip_iff s :
  read_quoted (quoted_attribute_value (substitute_html5 s)) = Some s <-> no_bare_ref_attr s = true.
Proof.
  split; [|apply html5_attr_roundtrip].
  intros H. destruct (no_bare_ref_attr s) eqn:E; [reflexivity|]. exfalso.
  rewrite html5_attr_reads_as, escape_any_entity_loc in H. inversion H as [H'].
  destruct (attr_len_n (length s) s (le_n _)) as [_ Hlt]. specialize (Hlt E).
  unfold unescape in H'. rewrite H' in Hlt. lia.
Qed.
