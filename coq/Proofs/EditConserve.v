(* C02 — conservation and documented effects of the tree-editing calls of Model/Edit.v, complementing
   Proofs/EditRep.v (every call keeps the forest consistent) and Proofs/EditEffect.v (insert, insert_before,
   insert_after, replace_with on the child list of the receiving tag).
     A. conservation on consistent states, admissible calls: op_ext, op_conserves (nothing lost, nothing invented,
        static fields kept), op_decompose_conserves / op_clear_true_conserves (exactly the requested subtrees
        die), one_place / one_place_forest (no element in two places), history_static, history_conserves(_or), history_one_place
     B. documented effects, each with its frame ("nothing else moves"):
        op_extract_documented, op_append_documented, op_extend_list_documented, op_extend_tag_documented,
        op_replace_with_frame, op_wrap_documented, op_unwrap_documented, op_clear_documented,
        op_set_string_documented, op_decompose_documented, op_clear_true_documented; subtrees intact (op_*_subtree);
        op_insert_before_frame, op_insert_after_frame; op_fresh_count (one fresh id per string argument, no
        hypothesis); strings and elements mixed, the k-th string standing for the k-th fresh id ([arg_ids]):
        op_insert_mixed_documented, op_extend_list_mixed_documented, op_insert_before_mixed_documented,
        op_insert_after_mixed_documented, op_replace_with_mixed_documented
     C. no hypothesis on the state or the call: op_grows, op_live_exact (live after = live before + fresh),
        op_static, history_live_exact
     D. examples (non-vacuity), and a counterexample to the naive frame statement
   Conventions: [anc h a y] = a is y or an ancestor of y; [drop c K] = K without c; [others cs K] = K without
   the elements of cs; element arguments are restricted to non-BeautifulSoup elements ([elem_args], [nonsoups])
   exactly where Proofs/EditEffect.v does so.
   Findings recorded here: smooth() destroys nothing (the merged strings stay live, detached), so the only
   destroying calls are decompose and clear(decompose=True); extend(self) leaves the child list unchanged. *)
From Coq Require Import List Arith Bool Lia Permutation.
From BS Require Import Base.Sexp Model.Heap Model.Iter Model.Edit Model.EditOps Spec.Tree Spec.ListEdit
  Proofs.HeapBasics Proofs.Views Proofs.ExtractRep Proofs.InsertRep Proofs.EditFrames Proofs.EditBase
  Proofs.EditRep Proofs.ListEditProofs Proofs.EditEffect.
Import ListNotations.

(* ------------------------------------------------------------------------------------------ *)
(* A. conservation                                                                            *)
(* ------------------------------------------------------------------------------------------ *)

(* the calls that destroy elements.  (smooth() does NOT: in the model as in the code, the two merged
   strings are extracted / replaced, not decomposed; they stay live, detached.) *)
Definition destroying (o : op) : bool :=
  match o with ODecompose _ | OClear _ true => true | _ => false end.

Lemma ext_back s s' x : ext s s' -> live s' x -> live s x \/ nxt s <= x.
Proof.
  intros (_ & N & M) [L D]. destruct (Nat.lt_ge_cases x (nxt s)) as [H|H]; [left|now right].
  split; [exact H|]. rewrite <- (meta_dead _ _ (M x H)). exact D.
Qed.

Lemma into_ext d s s' : into d s s' -> ext s s'.
Proof. intros [E _]. eapply evo_ext; eauto. Qed.

Lemma alloc_ext s k t : consistent s -> ext s (fst (alloc s k t)).
Proof.
  intros C. split; [now apply alloc_consistent|]. unfold alloc. cbn [fst hp nxt]. split; [lia|].
  intros y Hy. rewrite upd_other by lia. reflexivity.
Qed.

(* wrap, as the two calls it is made of *)
Lemma op_wrap_steps s self p w :
  consistent s -> live s self -> par (hp s self) = Some p ->
  live s w -> is_tag (hp s) w = true -> kind (hp s w) <> KSoup -> w <> self -> ~ anc (hp s) w p ->
  exists s2 s', op_replace_with s self [AEl w] = Ok s2 /\ op_append s2 w (AEl self) = Ok s' /\
    op_wrap s self w = Ok s' /\ evo p s s2 /\ into w s2 s' /\
    live s2 w /\ is_tag (hp s2) w = true /\ arg_ok s2 w (AEl self) /\ par (hp s2 self) = None /\
    par (hp s2 w) = Some p.
Proof.
  intros C L P Lw Tw Kw Nws Nwp.
  assert (HF : Forall (arg_ok s p) [AEl w]) by (constructor; [split; assumption | constructor]).
  destruct (replace_general s self p [AEl w] C L P HF) as (idx & s2 & ins & Eidx & E & E1 & [E2 Pf2] & Hna & Lp1 & Hins & Hroot).
  cbv zeta in *. remember (with_heap s (extract (fuel_of s) (hp s) self)) as s1 eqn:Es1.
  assert (Kw1 : kind (hp s1 w) <> KSoup) by (rewrite (evo_kind p s s1 w E1 (proj1 Lw)); exact Kw).
  pose proof (insert_args_single s1 p idx w s2 ins E Kw1) as ->.
  destruct (Hins w (or_introl eq_refl)) as [Lw2 Pw2].
  assert (E12 : evo p s s2) by (eapply evo_trans; eauto).
  assert (Erep : op_replace_with s self [AEl w] = Ok s2).
  { unfold op_replace_with. rewrite P. apply Nat.eqb_neq in Nws. rewrite Nws.
    assert (Nwp' : w <> p) by (intros ->; apply Nwp; constructor).
    apply Nat.eqb_neq in Nwp'. rewrite Nwp', Eidx. unfold op_insert. rewrite <- Es1, E. reflexivity. }
  assert (Ha : arg_ok s2 w (AEl self)).
  { split; [eapply evo_live; eauto|]. intros H. apply anc_inv in H. destruct H as [H|(q & Pq & H)]; [congruence|].
    rewrite Pw2 in Pq. inversion Pq; subst q. apply Hna. destruct E2 as (_ & _ & _ & A). now apply A. }
  assert (Tw2 : is_tag (hp s2) w = true) by (rewrite (evo_tag p s s2 w E12 Lw); exact Tw).
  destruct (op_insert_into s2 w (length (kids (hp s2 w))) [AEl self] (evo_consistent _ _ _ E12) Lw2 Tw2
              (Forall_cons _ Ha (Forall_nil _))) as (s' & E' & I' & _).
  exists s2, s'. split; [exact Erep|]. split; [exact E'|]. split; [unfold op_wrap; rewrite Erep; exact E'|].
  split; [exact E12|]. split; [exact I'|]. split; [exact Lw2|]. split; [exact Tw2|]. split; [exact Ha|].
  split; [|exact Pw2]. apply Hroot. intros [H|[]]. congruence.
Qed.

(* unwrap, as extract followed by the re-insertion loop *)
Lemma op_unwrap_steps s self p :
  consistent s -> live s self -> par (hp s self) = Some p ->
  let s1 := with_heap s (extract (fuel_of s) (hp s) self) in
  exists idx s', index_of self (kids (hp s p)) = Some idx /\
    unwrap_loop s1 p idx (rev (kids (hp s1 self))) = Ok s' /\ op_unwrap s self = Ok s' /\
    evo p s s1 /\ evo p s1 s' /\ live s1 p /\ is_tag (hp s1) p = true /\
    Forall (fun c => arg_ok s1 p (AEl c)) (rev (kids (hp s1 self))).
Proof.
  intros C L Ep s1.
  destruct (replace_general s self p [] C L Ep (Forall_nil _)) as (idx & _ & _ & Eidx & _ & E1 & _ & Hna & Lp1 & _ & _).
  cbv zeta in *. fold s1 in E1, Hna, Lp1.
  pose proof (evo_consistent _ _ _ E1) as C1. pose proof (evo_live _ _ _ _ E1 L) as L1.
  destruct (parent_facts s self p C L Ep) as (Lp & Tp & _).
  assert (Tp1 : is_tag (hp s1) p = true) by (rewrite (evo_tag p s s1 p E1 Lp); exact Tp).
  assert (HF : Forall (fun c => arg_ok s1 p (AEl c)) (rev (kids (hp s1 self)))).
  { apply Forall_forall. intros c Hc. apply in_rev in Hc. destruct (kids_facts s1 self c C1 L1 Hc) as [Lc Pc].
    split; [exact Lc|]. intros H. apply Hna. eapply anc_up; eauto. }
  destruct (unwrap_loop_evo (rev (kids (hp s1 self))) s1 p idx C1 Lp1 Tp1 HF) as (s' & E & Ev & _).
  exists idx, s'. split; [exact Eidx|]. split; [exact E|]. split.
  { unfold op_unwrap. rewrite Ep, Eidx. exact E. }
  auto.
Qed.

(* .string= as clear, alloc, append *)
Lemma op_set_string_steps s self t :
  consistent s -> live s self -> is_tag (hp s) self = true ->
  exists s1 s', op_clear s self false = Ok s1 /\
    let s2 := fst (alloc s1 (KStr false) t) in
    op_append s2 self (AEl (nxt s)) = Ok s' /\ op_set_string s self t = Ok s' /\
    evo self s s1 /\ into self s1 s2 /\ into self s2 s' /\ nxt s1 = nxt s /\
    live s2 self /\ is_tag (hp s2) self = true /\ live s2 (nxt s) /\ hp s2 (nxt s) = blank (KStr false) t /\
    ~ anc (hp s2) (nxt s) self.
Proof.
  intros C L T. destruct (op_clear_false_evo self s self C L) as (s1 & E1 & Ev1).
  exists s1. pose proof (evo_consistent _ _ _ Ev1) as C1. pose proof (evo_live _ _ _ _ Ev1 L) as L1.
  assert (N1 : nxt s1 = nxt s) by (unfold op_clear in E1; inversion E1; reflexivity).
  pose proof (alloc_into self s1 (KStr false) t C1 L1) as HA. cbv zeta in HA.
  destruct HA as (I2 & Ex & Lx & Hcell & Nx).
  assert (Ex' : snd (alloc s1 (KStr false) t) = nxt s1) by reflexivity. rewrite Ex', N1 in Lx, Hcell, Nx.
  remember (fst (alloc s1 (KStr false) t)) as s2 eqn:Es2.
  pose proof I2 as [Ev2 _].
  assert (E12 : evo self s s2) by (eapply evo_trans; eauto).
  assert (T2 : is_tag (hp s2) self = true) by (rewrite (evo_tag self s s2 self E12 L); exact T).
  pose proof (evo_live _ _ _ _ E12 L) as L2.
  destruct (op_insert_into s2 self (length (kids (hp s2 self))) [AEl (nxt s)] (evo_consistent _ _ _ Ev2) L2 T2
              (Forall_cons (AEl (nxt s)) (conj Lx Nx) (Forall_nil _))) as (s' & E' & I' & _).
  exists s'. split; [exact E1|]. cbv zeta. split; [exact E'|]. split.
  { unfold op_set_string. rewrite E1. unfold alloc. unfold alloc in Es2. cbn [fst] in Es2. rewrite <- Es2, N1. exact E'. }
  repeat (split; [assumption|]). assumption.
Qed.

(* every call that is not decompose / clear(decompose=True): the new state extends the old one *)
Theorem op_ext s o s' : consistent s -> wf_op s o -> destroying o = false -> apply_op s o = Ok s' -> ext s s'.
Proof.
  intros C. destruct o as [k t|self pos args|self a|self other|self args|self args|self args|x|self args|self w|self|x|self d|self t|self];
    cbn [wf_op apply_op destroying]; intros W ND E; try discriminate.
  - inversion E; subst s'. now apply alloc_ext.
  - destruct W as (L & T & A). destruct (op_insert_into s self pos args C L T A) as (s'' & E' & I & _).
    assert (s'' = s') by congruence. subst s''. eapply into_ext; eauto.
  - destruct W as (L & T & A).
    destruct (op_insert_into s self (length (kids (hp s self))) [a] C L T (Forall_cons _ A (Forall_nil _))) as (s'' & E' & I & _).
    unfold op_append in E. assert (s'' = s') by congruence. subst s''. eapply into_ext; eauto.
  - destruct W as (L & T & A). unfold op_extend_tag in E.
    destruct (append_all_into (map AEl (kids (hp s other))) s self C L T) as (s'' & E' & I).
    { apply Forall_forall. intros a Ha. apply in_map_iff in Ha. destruct Ha as (c & <- & Hc).
      rewrite Forall_forall in A. exact (A c Hc). }
    assert (s'' = s') by congruence. subst s''. eapply into_ext; eauto.
  - destruct W as (L & T & A). unfold op_extend_list in E.
    destruct (append_all_into args s self C L T A) as (s'' & E' & I).
    assert (s'' = s') by congruence. subst s''. eapply into_ext; eauto.
  - destruct W as (L & P & A). unfold op_insert_before in E. destruct (par (hp s self)) as [parent|] eqn:Ep; [|congruence].
    assert (HF' : Forall (fun a => arg_ok s parent a /\ is_self self a = false) args).
    { eapply Forall_impl; [|exact A]. intros a. now apply arg_ok_parent. }
    destruct (existsb (is_self self) args); [discriminate|].
    destruct (before_loop_ok args s self parent C L Ep HF') as (s'' & E' & Ev).
    assert (s'' = s') by congruence. subst s''. eapply evo_ext; eauto.
  - destruct W as (L & P & A). unfold op_insert_after in E. destruct (par (hp s self)) as [parent|] eqn:Ep; [|discriminate].
    destruct (existsb (is_self self) args); [discriminate|].
    destruct (parent_facts s self parent C L Ep) as (Lp & Tp & _).
    assert (HF' : Forall (arg_ok s parent) args).
    { eapply Forall_impl; [|exact A]. intros a Ha. now apply (arg_ok_parent s self parent a Ep). }
    eapply evo_ext. apply (after_loop_evo args s self parent s' C Lp Tp HF' E).
  - unfold op_extract in E. inversion E; subst s'. eapply evo_ext. apply (extract_evo x s x C W).
  - destruct W as (L & p & P & A). destruct (op_replace_with_evo s self p args C L P A) as (s'' & E' & Ev & _).
    assert (s'' = s') by congruence. subst s''. eapply evo_ext; eauto.
  - destruct W as (L & p & P & Lw & Tw & Kw & Nw & A).
    destruct (op_wrap_steps s self p w C L P Lw Tw Kw Nw A) as (s2 & s'' & _ & _ & E' & Ev & I & _).
    assert (s'' = s') by congruence. subst s''. eapply ext_trans; [eapply evo_ext; eauto | eapply into_ext; eauto].
  - destruct W as (L & P). destruct (par (hp s self)) as [p|] eqn:Ep; [|congruence].
    destruct (op_unwrap_steps s self p C L Ep) as (idx & s'' & _ & _ & E' & Ev1 & Ev2 & _).
    assert (s'' = s') by congruence. subst s''. eapply ext_trans; eapply evo_ext; eauto.
  - destruct d; [discriminate|]. destruct (op_clear_false_evo self s self C W) as (s'' & E' & Ev).
    assert (s'' = s') by congruence. subst s''. eapply evo_ext; eauto.
  - destruct W as (L & T). destruct (op_set_string_steps s self t C L T) as (s1 & s'' & _ & H). cbv zeta in H.
    destruct H as (_ & E' & Ev1 & I2 & I3 & _).
    assert (s'' = s') by congruence. subst s''.
    eapply ext_trans; [eapply evo_ext; eauto|]. eapply ext_trans; eapply into_ext; eauto.
  - assert (E2 : s' = smooth_rec (fuel_of s) s self) by (unfold op_smooth in E; congruence).
    rewrite E2. now apply smooth_rec_ext.
Qed.

(* ---- decompose / clear(decompose=True): exactly the requested subtrees are destroyed ---- *)

Lemma anc_extract_back fuel h x a y : anc (extract fuel h x) a y -> anc h a y.
Proof.
  apply anc_cut. intros z p. destruct (Nat.eq_dec z x) as [->|N].
  - rewrite extract_par_self. discriminate.
  - now rewrite extract_par_other by exact N.
Qed.

Lemma anc_extract_under fuel h x y : anc h x y -> anc (extract fuel h x) x y.
Proof.
  intros H. induction H as [|y p P H IH]; [constructor|].
  destruct (Nat.eq_dec y x) as [->|N]; [constructor|].
  eapply anc_step; [|exact IH]. now rewrite extract_par_other by exact N.
Qed.

Lemma forest_tree_unique : forall (F : forest) T b T2 b2 x, NoDup (fids F) -> In (T, b) F -> In (T2, b2) F ->
  In x (pre T) -> In x (pre T2) -> (T, b) = (T2, b2).
Proof.
  induction F as [|[T0 b0] F IH]; intros T b T2 b2 x ND H1 H2 Hx1 Hx2; [contradiction|].
  rewrite fids_cons in ND.
  assert (Hin : forall T' b', In (T', b') F -> In x (pre T') -> In x (fids F)).
  { intros T' b' H Hx. apply in_fids. exists T', b'. auto. }
  destruct H1 as [H1|H1], H2 as [H2|H2].
  - congruence.
  - inversion H1; subst. exfalso. apply (NoDup_app_disj _ _ x ND Hx1). eapply Hin; eauto.
  - inversion H2; subst. exfalso. apply (NoDup_app_disj _ _ x ND Hx2). eapply Hin; eauto.
  - apply (IH T b T2 b2 x); auto. now apply NoDup_app_r in ND.
Qed.

Definition wiped (c : cell) : cell := mkcell (kind c) None [] None None None None (txt c) true.

Lemma fold_set_dead_cell : forall l h y, In y l -> fold_left set_dead l h y = wiped (h y).
Proof.
  induction l as [|x l IH]; intros h y H; [contradiction|]. cbn [fold_left].
  destruct (in_dec Nat.eq_dec y l) as [Hl|Hl].
  - rewrite IH by exact Hl. destruct (Nat.eq_dec y x) as [->|N].
    + unfold set_dead. rewrite upd_same. reflexivity.
    + now rewrite set_dead_other by exact N.
  - rewrite fold_set_dead_out by exact Hl. destruct H as [->|H]; [|contradiction].
    unfold set_dead. now rewrite upd_same.
Qed.

(* decompose on states: outside the subtree of x it is extract(); the live elements under x are wiped *)
Lemma decompose_cells F s x : cons_with F s -> live s x ->
  let h' := decompose_h (fuel_of s) (hp s) x in
  (forall y, ~ anc (hp s) x y -> h' y = extract (fuel_of s) (hp s) x y) /\
  (forall y, live s y -> anc (hp s) x y -> h' y = wiped (hp s y)) /\
  (forall y, meta (h' y) = meta (hp s y) \/ h' y = wiped (extract (fuel_of s) (hp s) x y)).
Proof.
  intros C L. cbv zeta. destruct (extract_cons F s x C L) as (F1 & C1 & (T & b & HT & Hx) & _).
  remember (extract (fuel_of s) (hp s) x) as h1 eqn:Eh1.
  pose proof C1 as (R1 & A1 & A2 & A3 & A4). cbn [with_heap hp nxt] in *.
  pose proof (rep_in _ _ _ _ R1 HT) as RT.
  assert (Hlist : x :: (if is_tag h1 x then descendants (fuel_of s) h1 x else []) = pre T).
  { rewrite (pre_cons T), Hx. f_equal. destruct (is_tag h1 x) eqn:Etag.
    - rewrite <- Hx. apply (descendants_spec' h1 T b T (fuel_of s) RT (subterms_self T)).
      pose proof (cons_tree_fuel _ _ T b C1 HT) as Hl. unfold fuel_of in *. cbn [with_heap nxt] in Hl. lia.
    - destruct RT as (Hok & _). destruct (Hok T (subterms_self T)) as (_ & _ & _ & Hleaf).
      rewrite Hx in Hleaf. rewrite tl_pre, (Hleaf Etag). reflexivity. }
  unfold decompose_h. rewrite <- Eh1. cbv zeta. rewrite Hlist.
  assert (Hup : forall y, In y (pre T) -> anc (hp s) x y).
  { intros y Hi. apply (anc_extract_back (fuel_of s) _ x). rewrite <- Eh1, <- Hx.
    apply pre_sub_anc; [apply RT | exact Hi]. }
  split; [|split].
  - intros y Hy. apply fold_set_dead_out. intros Hi. apply Hy. now apply Hup.
  - intros y [Ly Dy] Ha.
    assert (Hi : In y (pre T)).
    { assert (Hy1 : In y (fids F1)).
      { apply A2; [exact Ly|]. rewrite Eh1, (meta_dead _ _ (extract_meta _ _ _ _)). exact Dy. }
      apply in_fids in Hy1. destruct Hy1 as (T2 & b2 & HT2 & Hy2).
      pose proof (rep_in _ _ _ _ R1 HT2) as (Hok2 & Hr2 & _).
      assert (Ha1 : anc h1 x y) by (rewrite Eh1; now apply anc_extract_under).
      pose proof (anc_closed h1 T2 Hok2 Hr2 x y Ha1 Hy2) as Hx2.
      assert (E : (T, b) = (T2, b2)).
      { apply (forest_tree_unique F1 T b T2 b2 x (proj1 R1) HT HT2); [|exact Hx2]. rewrite <- Hx. apply InsertRep.rid_in_pre. }
      inversion E; subst. exact Hy2. }
    rewrite (fold_set_dead_cell _ _ _ Hi).
    (* the cell of y before wiping: only its links differ from the one in s *)
    unfold wiped. rewrite Eh1. rewrite (meta_kind _ _ (extract_meta _ _ _ _)), (meta_txt _ _ (extract_meta _ _ _ _)). reflexivity.
  - intros y. destruct (in_dec Nat.eq_dec y (pre T)) as [Hi|Hi].
    + right. apply (fold_set_dead_cell _ _ _ Hi).
    + left. rewrite fold_set_dead_out by exact Hi. rewrite Eh1. apply extract_meta.
Qed.

Lemma wiped_dead c : dead (wiped c) = true. Proof. reflexivity. Qed.

Lemma decompose_live F s x : cons_with F s -> live s x ->
  forall y, live (with_heap s (decompose_h (fuel_of s) (hp s) x)) y <-> live s y /\ ~ anc (hp s) x y.
Proof.
  intros C L y. destruct (decompose_cells F s x C L) as (H1 & H2 & H3). cbv zeta in *.
  unfold live at 1. cbn [with_heap hp nxt]. split.
  - intros [Ly Dy].
    assert (Ds : dead (hp s y) = false).
    { destruct (H3 y) as [M|E]; [rewrite <- (meta_dead _ _ M); exact Dy | rewrite E in Dy; discriminate]. }
    split; [split; assumption|]. intros Ha. rewrite (H2 y (conj Ly Ds) Ha) in Dy. discriminate.
  - intros [[Ly Dy] Hn]. split; [exact Ly|]. rewrite (H1 y Hn), (meta_dead _ _ (extract_meta _ _ _ _)). exact Dy.
Qed.

(* decompose(): exactly x and its descendants die; they are wiped; kinds and labels stay *)
Theorem op_decompose_conserves s x s' : consistent s -> live s x -> op_decompose s x = Ok s' ->
  nxt s' = nxt s /\
  (forall y, live s' y <-> live s y /\ ~ anc (hp s) x y) /\
  (forall y, live s y -> anc (hp s) x y -> hp s' y = wiped (hp s y)) /\
  (forall y, kind (hp s' y) = kind (hp s y) /\ txt (hp s' y) = txt (hp s y) /\
             (dead (hp s y) = true -> dead (hp s' y) = true)).
Proof.
  intros [F C] L E. unfold op_decompose in E. inversion E; subst s'. clear E. cbn [with_heap nxt hp].
  split; [reflexivity|]. split; [apply (decompose_live F s x C L)|].
  destruct (decompose_cells F s x C L) as (H1 & H2 & H3). cbv zeta in *. split; [exact H2|].
  intros y. destruct (H3 y) as [M|E].
  - rewrite (meta_kind _ _ M), (meta_txt _ _ M), (meta_dead _ _ M). auto.
  - rewrite E. unfold wiped. cbn [kind txt dead].
    rewrite (meta_kind _ _ (extract_meta _ _ _ _)), (meta_txt _ _ (extract_meta _ _ _ _)). auto.
Qed.

Lemma anc_agree h h' a y : (forall z, anc h z y -> par (h' z) = par (h z)) -> (anc h' a y <-> anc h a y).
Proof.
  intros Fr. split; intros H.
  - induction H as [|y p P H IH]; [constructor|].
    assert (P' : par (h y) = Some p) by (rewrite <- Fr; [exact P | constructor]).
    eapply anc_step; [exact P'|]. apply IH. intros z Hz. apply Fr. eapply anc_step; eauto.
  - induction H as [|y p P H IH]; [constructor|].
    assert (P' : par (h' y) = Some p) by (rewrite Fr; [exact P | constructor]).
    eapply anc_step; [exact P'|]. apply IH. intros z Hz. apply Fr. eapply anc_step; eauto.
Qed.

Lemma clear_true_live self : forall cs s, consistent s -> NoDup cs ->
  Forall (fun c => live s c /\ par (hp s c) = Some self) cs ->
  forall y, live (with_heap s (fold_left (fun h c => decompose_h (fuel_of s) h c) cs (hp s))) y <->
            live s y /\ forall c, In c cs -> ~ anc (hp s) c y.
Proof.
  induction cs as [|c cs IH]; intros s C ND HF y.
  - cbn [fold_left]. rewrite with_heap_id. split; [intros H; split; [exact H | intros c []] | tauto].
  - inversion HF as [|? ? [Lc Pc] HF']; subst. inversion ND as [|? ? Hn ND']; subst. cbn [fold_left].
    destruct C as [F C]. destruct (decompose_cons F s c C Lc) as (F' & C' & Hfr).
    pose proof (decompose_live F s c C Lc) as Hlive.
    remember (with_heap s (decompose_h (fuel_of s) (hp s) c)) as s1 eqn:Es1.
    assert (Hpar1 : forall z, ~ anc (hp s) c z -> par (hp s1 z) = par (hp s z)).
    { intros z Hz. subst s1. cbn [with_heap hp]. rewrite (Hfr z Hz). apply extract_par_other.
      intros ->. apply Hz. constructor. }
    assert (HF1 : Forall (fun c0 => live s1 c0 /\ par (hp s1 c0) = Some self) cs).
    { apply Forall_forall. intros c0 Hc0. rewrite Forall_forall in HF'. destruct (HF' c0 Hc0) as [L0 P0].
      assert (N0 : c0 <> c) by (intros ->; contradiction).
      assert (Hna : ~ anc (hp s) c c0).
      { intros H. apply anc_inv in H. destruct H as [H|(q & Pq & H)]; [congruence|].
        rewrite P0 in Pq. inversion Pq; subst q. exact (acyclic s c self (ex_intro _ F C) Lc Pc H). }
      split; [subst s1; apply Hlive; split; assumption|]. rewrite (Hpar1 c0 Hna). exact P0. }
    pose proof (IH s1 (ex_intro _ F' C') ND' HF1 y) as H.
    assert (Hs1 : live s1 y <-> live s y /\ ~ anc (hp s) c y) by (subst s1; apply Hlive).
    assert (Hanc : ~ anc (hp s) c y -> forall c0, anc (hp s1) c0 y <-> anc (hp s) c0 y).
    { intros Hy c0. apply anc_agree. intros z Hz. apply Hpar1. intros Hcz. apply Hy. eapply anc_trans; eauto. }
    assert (G : live (with_heap s1 (fold_left (fun h c0 => decompose_h (fuel_of s1) h c0) cs (hp s1))) y <->
                live s y /\ forall c0, In c0 (c :: cs) -> ~ anc (hp s) c0 y).
    { rewrite H, Hs1. split.
      - intros [[Ly Hy] Hcs]. split; [exact Ly|]. intros c0 [<-|Hc0]; [exact Hy|].
        intros Ha. apply (Hcs c0 Hc0). now apply (Hanc Hy).
      - intros [Ly Hall]. assert (Hy : ~ anc (hp s) c y) by (apply Hall; now left).
        split; [split; assumption|]. intros c0 Hc0 Ha. apply (Hall c0 (or_intror Hc0)). now apply (Hanc Hy). }
    subst s1. exact G.
Qed.

Lemma decompose_static fuel h x y :
  kind (decompose_h fuel h x y) = kind (h y) /\ txt (decompose_h fuel h x y) = txt (h y) /\
  (dead (h y) = true -> dead (decompose_h fuel h x y) = true).
Proof.
  unfold decompose_h. cbv zeta.
  remember (x :: (if is_tag (extract fuel h x) x then descendants fuel (extract fuel h x) x else [])) as l eqn:El. clear El.
  destruct (in_dec Nat.eq_dec y l) as [Hi|Hi].
  - rewrite (fold_set_dead_cell _ _ _ Hi). unfold wiped. cbn [kind txt dead].
    rewrite (meta_kind _ _ (extract_meta _ _ _ _)), (meta_txt _ _ (extract_meta _ _ _ _)). auto.
  - rewrite fold_set_dead_out by exact Hi.
    rewrite (meta_kind _ _ (extract_meta _ _ _ _)), (meta_txt _ _ (extract_meta _ _ _ _)), (meta_dead _ _ (extract_meta _ _ _ _)). auto.
Qed.

Lemma fold_decompose_static fuel : forall cs h y,
  let h' := fold_left (fun h c => decompose_h fuel h c) cs h in
  kind (h' y) = kind (h y) /\ txt (h' y) = txt (h y) /\ (dead (h y) = true -> dead (h' y) = true).
Proof.
  induction cs as [|c cs IH]; intros h y; cbv zeta; cbn [fold_left]; [auto|].
  destruct (IH (decompose_h fuel h c) y) as (K & T & D). cbv zeta in *.
  destruct (decompose_static fuel h c y) as (K1 & T1 & D1). rewrite K, T, K1, T1. auto.
Qed.

Lemma anc_via_child s self y : consistent s -> anc (hp s) self y -> live s y -> y <> self ->
  exists c, In c (kids (hp s self)) /\ anc (hp s) c y.
Proof.
  intros C H. induction H as [|y p P H IH]; intros Ly Ny; [congruence|].
  destruct (parent_facts s y p C Ly P) as (Lp & _ & Hin).
  destruct (Nat.eq_dec p self) as [->|Np].
  - exists y. split; [exact Hin | constructor].
  - destruct (IH Lp Np) as (c & Hc & Ha). exists c. split; [exact Hc|]. eapply anc_step; eauto.
Qed.

(* clear(decompose=True): exactly the proper descendants of self die *)
Theorem op_clear_true_conserves s self s' : consistent s -> live s self -> op_clear s self true = Ok s' ->
  nxt s' = nxt s /\
  (forall y, live s' y <-> live s y /\ forall c, In c (kids (hp s self)) -> ~ anc (hp s) c y) /\
  (forall y, live s' y <-> live s y /\ (y = self \/ ~ anc (hp s) self y)) /\
  (forall y, kind (hp s' y) = kind (hp s y) /\ txt (hp s' y) = txt (hp s y) /\
             (dead (hp s y) = true -> dead (hp s' y) = true)).
Proof.
  intros C L E. unfold op_clear in E. inversion E; subst s'. clear E. cbn [with_heap nxt hp].
  split; [reflexivity|].
  assert (HF : Forall (fun c => live s c /\ par (hp s c) = Some self) (kids (hp s self))).
  { apply Forall_forall. intros c Hc. apply (kids_facts s self c C L Hc). }
  pose proof (clear_true_live self (kids (hp s self)) s C (kids_NoDup s self C L) HF) as H.
  split; [exact H|]. split; [|intros y; apply (fold_decompose_static (fuel_of s) (kids (hp s self)) (hp s) y)].
  intros y. rewrite (H y). split; intros [Ly Hy]; (split; [exact Ly|]).
  - destruct (Nat.eq_dec y self) as [->|Ny]; [now left|right]. intros Ha.
    destruct (anc_via_child s self y C Ha Ly Ny) as (c & Hc & Hcy). exact (Hy c Hc Hcy).
  - intros c Hc Ha. rewrite Forall_forall in HF. destruct (HF c Hc) as [Lc Pc]. destruct Hy as [->|Hy].
    + exact (acyclic s c self C Lc Pc Ha).
    + apply Hy. eapply anc_up; eauto.
Qed.

(* ---- one statement for all calls ---- *)

Theorem op_conserves s o s' : consistent s -> wf_op s o -> apply_op s o = Ok s' ->
  nxt s <= nxt s' /\
  (forall y, y < nxt s -> kind (hp s' y) = kind (hp s y) /\ txt (hp s' y) = txt (hp s y) /\
                          (dead (hp s y) = true -> dead (hp s' y) = true)) /\
  (forall x, live s' x -> live s x \/ nxt s <= x) /\
  (destroying o = false ->
     (forall y, y < nxt s -> meta (hp s' y) = meta (hp s y)) /\ (forall x, live s x -> live s' x)).
Proof.
  intros C W E. destruct (destroying o) eqn:D.
  - destruct o as [| | | | | | | | | | |x|self [|]| |]; try discriminate; cbn [wf_op apply_op] in W, E.
    + destruct (op_decompose_conserves s x s' C W E) as (N & Hl & _ & Hs).
      split; [lia|]. split; [intros y _; apply Hs|]. split; [|discriminate].
      intros y Hy. left. apply Hl, Hy.
    + destruct (op_clear_true_conserves s self s' C W E) as (N & Hl & _ & Hs).
      split; [lia|]. split; [intros y _; apply Hs|]. split; [|discriminate].
      intros y Hy. left. apply Hl, Hy.
  - pose proof (op_ext s o s' C W D E) as X. pose proof X as (_ & N & M).
    split; [exact N|]. split; [|split].
    + intros y Hy. rewrite (meta_kind _ _ (M y Hy)), (meta_txt _ _ (M y Hy)), (meta_dead _ _ (M y Hy)). auto.
    + intros x. now apply ext_back.
    + intros _. split; [exact M|]. intros x. now apply ext_live.
Qed.

(* with the executable admissibility test *)
Corollary op_conserves_b s o s' : consistent s -> wf_op_b s o = true -> apply_op s o = Ok s' ->
  destroying o = false ->
  nxt s <= nxt s' /\ (forall x, live s x -> live s' x) /\ (forall x, live s' x -> live s x \/ nxt s <= x).
Proof.
  intros C W E D. destruct (op_conserves s o s' C (wf_op_b_sound s o C W) E) as (N & _ & B & H).
  destruct (H D) as [_ Lv]. auto.
Qed.

(* ---- no element occupies two places ---- *)

Theorem one_place s : consistent s ->
  (forall p x, live s p -> (In x (kids (hp s p)) <-> live s x /\ par (hp s x) = Some p)) /\
  (forall p, live s p -> NoDup (kids (hp s p))) /\
  (forall p q x, live s p -> live s q -> In x (kids (hp s p)) -> In x (kids (hp s q)) -> p = q) /\
  (forall p x, live s p -> In x (kids (hp s p)) -> count_occ Nat.eq_dec (kids (hp s p)) x = 1) /\
  (forall x p, live s x -> par (hp s x) = Some p -> live s p /\ In x (kids (hp s p))).
Proof.
  intros C. split; [|split; [|split; [|split]]].
  - intros p x Lp. split.
    + intros Hin. apply (kids_facts s p x C Lp Hin).
    + intros [Lx P]. apply (parent_facts s x p C Lx P).
  - intros p Lp. now apply kids_NoDup.
  - intros p q x Lp Lq Hp Hq. destruct (kids_facts s p x C Lp Hp) as [_ P1].
    destruct (kids_facts s q x C Lq Hq) as [_ P2]. congruence.
  - intros p x Lp Hin. pose proof (kids_NoDup s p C Lp) as ND.
    rewrite (NoDup_count_occ Nat.eq_dec) in ND. specialize (ND x).
    apply (count_occ_In Nat.eq_dec) in Hin. lia.
  - intros x p Lx P. destruct (parent_facts s x p C Lx P) as (Lp & _ & Hin). auto.
Qed.

(* the same seen on the forest: every live element occurs exactly once in the pre-orders of the trees *)
Theorem one_place_forest s : consistent s ->
  exists F, rep F (hp s) /\ NoDup (fids F) /\ (forall x, In x (fids F) <-> live s x) /\
            (forall x, live s x -> count_occ Nat.eq_dec (fids F) x = 1).
Proof.
  intros [F C]. exists F. pose proof C as (R & _). split; [exact R|]. split; [apply R|].
  split; [intros x; apply (cons_live F s x C)|]. intros x Lx. apply (cons_live F s x C) in Lx.
  destruct R as [ND _]. rewrite (NoDup_count_occ Nat.eq_dec) in ND. specialize (ND x).
  apply (count_occ_In Nat.eq_dec) in Lx. lia.
Qed.

(* ---- histories ---- *)

Lemma step_cases s o : step s o = s \/ (wf_op_b s o = true /\ apply_op s o = Ok (step s o)).
Proof.
  unfold step. destruct (wf_op_b s o) eqn:W; [|now left]. destruct (apply_op s o) as [s'|] eqn:E; [|now left].
  right. auto.
Qed.

Lemma step_conserves s o : consistent s ->
  nxt s <= nxt (step s o) /\
  (forall y, y < nxt s -> kind (hp (step s o) y) = kind (hp s y) /\ txt (hp (step s o) y) = txt (hp s y) /\
                          (dead (hp s y) = true -> dead (hp (step s o) y) = true)) /\
  (forall x, live (step s o) x -> live s x \/ nxt s <= x) /\
  (destroying o = false -> forall x, live s x -> live (step s o) x).
Proof.
  intros C. destruct (step_cases s o) as [->|[W E]].
  - split; [lia|]. split; [auto|]. split; [auto|auto].
  - destruct (op_conserves s o _ C (wf_op_b_sound s o C W) E) as (N & S & B & H).
    split; [exact N|]. split; [exact S|]. split; [exact B|]. intros D. now apply H.
Qed.

(* over a history: ids are never reused, kinds and labels never change, the dead stay dead, everything
   live at the end was live at the start or has been allocated since *)
Theorem history_static : forall ops s, consistent s ->
  nxt s <= nxt (run_history s ops) /\
  (forall y, y < nxt s -> kind (hp (run_history s ops) y) = kind (hp s y) /\ txt (hp (run_history s ops) y) = txt (hp s y) /\
                          (dead (hp s y) = true -> dead (hp (run_history s ops) y) = true)) /\
  (forall x, live (run_history s ops) x -> live s x \/ nxt s <= x).
Proof.
  induction ops as [|o ops IH]; intros s C; cbn [run_history fold_left].
  - split; [lia|]. auto.
  - destruct (step_conserves s o C) as (N1 & S1 & B1 & _).
    destruct (IH (step s o) (step_consistent s o C)) as (N2 & S2 & B2). unfold run_history in *.
    split; [lia|]. split.
    + intros y Hy. destruct (S1 y Hy) as (K1 & T1 & D1). destruct (S2 y ltac:(lia)) as (K2 & T2 & D2).
      rewrite K2, T2, K1, T1. auto.
    + intros x Hx. destruct (B2 x Hx) as [H|H]; [|right; lia]. destruct (B1 x H); [now left | now right].
Qed.

(* nothing is lost along a history without decompose / clear(decompose=True) *)
Theorem history_conserves : forall ops s, consistent s -> forallb (fun o => negb (destroying o)) ops = true ->
  forall x, live s x -> live (run_history s ops) x.
Proof.
  induction ops as [|o ops IH]; intros s C H x Lx; cbn [run_history fold_left]; [exact Lx|].
  cbn [forallb] in H. apply andb_true_iff in H. destruct H as [H1 H2]. apply negb_true_iff in H1.
  apply (IH (step s o) (step_consistent s o C) H2).
  destruct (step_conserves s o C) as (_ & _ & _ & Hl). now apply Hl.
Qed.

(* in general: an element live at the start is live at the end, or some destroying call killed it *)
Theorem history_conserves_or : forall ops s, consistent s -> forall x, live s x ->
  live (run_history s ops) x \/
  exists ops1 o ops2, ops = ops1 ++ o :: ops2 /\ destroying o = true /\
    live (run_history s ops1) x /\ ~ live (step (run_history s ops1) o) x.
Proof.
  induction ops as [|o ops IH] using rev_ind; intros s C x Lx; [now left|].
  unfold run_history in *. rewrite fold_left_app. cbn [fold_left].
  destruct (IH s C x Lx) as [H|(ops1 & o1 & ops2 & -> & D & L1 & L2)].
  - pose proof (history_consistent ops s C) as C1. unfold run_history in C1.
    destruct (destroying o) eqn:D.
    + destruct (dead (hp (step (fold_left step ops s) o) x)) eqn:Dx.
      * right. exists ops, o, []. split; [reflexivity|]. split; [exact D|]. split; [exact H|].
        intros [_ Dx']. congruence.
      * left. split; [|exact Dx]. destruct (step_conserves _ o C1) as (N & _). destruct H as [H _]. lia.
    + left. destruct (step_conserves _ o C1) as (_ & _ & _ & Hl). now apply Hl.
  - right. exists ops1, o1, (ops2 ++ [o]). split; [now rewrite <- app_assoc|]. auto.
Qed.

(* ------------------------------------------------------------------------------------------ *)
(* B. documented effects                                                                      *)
(* ------------------------------------------------------------------------------------------ *)

(* ---- list facts ---- *)

Lemma kmove_end pos c K : NoDup K -> length K <= pos -> kmove pos c K = drop c K ++ [c].
Proof.
  intros ND Hp. rewrite <- kmove_all_one. rewrite kmove_all_spec; [|constructor; [intros []|constructor] | exact ND].
  rewrite splice_spec_split, firstn_all2, skipn_all2 by lia. rewrite others_cons, !others_nil. cbn [drop filter].
  now rewrite app_nil_r.
Qed.

Lemma kmove_notin pos c K : ~ In c K -> kmove pos c K = insert_at (Nat.min pos (length K)) c K.
Proof. intros N. unfold kmove. cbv zeta. now rewrite (index_of_notin c K N). Qed.

Lemma drop_split c K : NoDup K -> In c K -> exists A B, K = A ++ c :: B /\ drop c K = A ++ B /\ ~ In c A /\ ~ In c B.
Proof.
  intros ND Hin. destruct (in_split_nodup c K ND Hin) as (A & B & -> & HA & HB).
  exists A, B. split; [reflexivity|]. split; [now apply drop_here | auto].
Qed.

Lemma others_self l : others l l = [].
Proof.
  unfold others. induction l as [|x l IH]; [reflexivity|].
  assert (G : forall l', (forall y, In y l' -> In y (x :: l)) -> filter (fun y => negb (mem y (x :: l))) l' = []).
  { induction l' as [|y l' IH']; intros Hs; [reflexivity|]. cbn [filter].
    assert (E : mem y (x :: l) = true) by (apply mem_In; apply Hs; now left). rewrite E. cbn [negb].
    apply IH'. intros z Hz. apply Hs. now right. }
  apply G. auto.
Qed.

Lemma others_one c K : others [c] K = drop c K.
Proof. now rewrite others_cons, others_nil. Qed.

(* ---- state facts ---- *)

Lemma self_not_parent s x : consistent s -> live s x -> par (hp s x) <> Some x.
Proof. intros C L P. apply (acyclic s x x C L P). constructor. Qed.

Lemma drop_not_kid s q c : consistent s -> live s q -> par (hp s c) <> Some q -> drop c (kids (hp s q)) = kids (hp s q).
Proof. intros C L N. apply drop_notin. now apply not_kid. Qed.

Lemma others_not_kids s q cs : consistent s -> live s q -> (forall c, In c cs -> par (hp s c) <> Some q) ->
  others cs (kids (hp s q)) = kids (hp s q).
Proof.
  intros C L N. apply others_disjoint. intros x Hx Hc. destruct (kids_facts s q x C L Hx) as [_ P]. exact (N x Hc P).
Qed.

(* one extract() *)
Lemma extract_step s x : consistent s -> live s x ->
  let s1 := with_heap s (extract (fuel_of s) (hp s) x) in
  (forall d, evo d s s1) /\
  (forall q, live s q -> kids (hp s1 q) = drop x (kids (hp s q))) /\
  par (hp s1 x) = None /\ (forall y, y <> x -> par (hp s1 y) = par (hp s y)).
Proof.
  intros C L s1. split; [intros d; apply (extract_evo d s x C L)|]. split; [|split].
  - intros q Lq. unfold s1. cbn [with_heap hp]. rewrite (extract_kids_at s x q C Lq L).
    apply kremove_drop. now apply kids_NoDup.
  - apply extract_par_self.
  - intros y N. now apply extract_par_other.
Qed.

(* one _insert of an element that is not a BeautifulSoup object *)
Lemma insert_one_step s d pos c s' :
  consistent s -> live s d -> is_tag (hp s) d = true -> arg_ok s d (AEl c) -> kind (hp s c) <> KSoup ->
  op_insert s d pos [AEl c] = Ok s' ->
  into d s s' /\ nxt s' = nxt s /\ kids (hp s' d) = kmove pos c (kids (hp s d)) /\
  (forall q, live s q -> q <> d -> kids (hp s' q) = drop c (kids (hp s q))) /\
  par (hp s' c) = Some d /\ (forall y, y <> c -> par (hp s' y) = par (hp s y)).
Proof.
  intros C Ld Td [Lc Nc] Kc H.
  assert (Ncd : c <> d) by (intros ->; apply Nc; constructor).
  destruct (move_into s d pos c C Ld Td Lc Nc (or_introl Kc)) as (h' & Hins & Hinto & Ppar & Pfr).
  unfold op_insert in H. cbn [insert_args] in H. rewrite (insert_arg_el s d pos c Ncd Kc), Hins in H.
  cbn [insert_args last_opt rev app] in H. inversion H; subst s'. clear H. cbn [with_heap hp nxt].
  split; [exact Hinto|]. split; [reflexivity|]. split; [now apply (insert1_kids_dest s d pos c h')|].
  split; [|split; [exact Ppar | exact Pfr]].
  intros q Lq Nq. now apply (insert1_kids_other s d pos c h' q).
Qed.

(* ---- extract() ---- *)

Theorem op_extract_documented s x s' : consistent s -> live s x -> op_extract s x = Ok s' ->
  nxt s' = nxt s /\ (forall y, meta (hp s' y) = meta (hp s y)) /\
  par (hp s' x) = None /\ kids (hp s' x) = kids (hp s x) /\
  (forall p, par (hp s x) = Some p ->
     kids (hp s' p) = drop x (kids (hp s p)) /\
     exists A B, kids (hp s p) = A ++ x :: B /\ kids (hp s' p) = A ++ B /\ ~ In x (A ++ B)) /\
  (forall q, live s q -> par (hp s x) <> Some q -> kids (hp s' q) = kids (hp s q)) /\
  (forall y, y <> x -> par (hp s' y) = par (hp s y)).
Proof.
  intros C L E. unfold op_extract in E. inversion E; subst s'. clear E.
  destruct (extract_step s x C L) as (_ & K & P & Pf). cbv zeta in *.
  assert (Fr : forall q, live s q -> par (hp s x) <> Some q ->
            kids (hp (with_heap s (extract (fuel_of s) (hp s) x)) q) = kids (hp s q)).
  { intros q Lq N. rewrite (K q Lq). now apply drop_not_kid. }
  split; [reflexivity|]. split; [intros y; apply extract_meta|]. split; [exact P|].
  split; [apply (Fr x L); now apply self_not_parent|]. split; [|split; [exact Fr | exact Pf]].
  intros p Pp. destruct (parent_facts s x p C L Pp) as (Lp & _ & Hin). rewrite (K p Lp). split; [reflexivity|].
  destruct (drop_split x _ (kids_NoDup s p C Lp) Hin) as (A & B & E1 & E2 & HA & HB).
  exists A, B. split; [exact E1|]. split; [exact E2|]. intros H. apply in_app_or in H. tauto.
Qed.

(* ---- append ---- *)

(* appending a new string is appending the freshly allocated element *)
Lemma insert_str_as_el s d pos t : nxt s <> d ->
  op_insert s d pos [AStr t] = op_insert (fst (alloc s (KStr false) t)) d pos [AEl (nxt s)].
Proof.
  intros N. unfold op_insert. cbn [insert_args insert_arg]. unfold alloc. cbn [fst hp nxt].
  apply Nat.eqb_neq in N. rewrite N. rewrite upd_same. cbn [blank kind]. reflexivity.
Qed.

Theorem op_append_documented s self a s' : consistent s -> wf_op s (OAppend self a) -> op_append s self a = Ok s' ->
  match a with
  | AEl c =>
      kind (hp s c) <> KSoup ->
      nxt s' = nxt s /\
      kids (hp s' self) = drop c (kids (hp s self)) ++ [c] /\ par (hp s' c) = Some self /\
      (forall q, live s q -> q <> self -> kids (hp s' q) = drop c (kids (hp s q))) /\
      (forall y, y <> c -> par (hp s' y) = par (hp s y))
  | AStr t =>
      nxt s' = S (nxt s) /\
      kids (hp s' self) = kids (hp s self) ++ [nxt s] /\
      kind (hp s' (nxt s)) = KStr false /\ txt (hp s' (nxt s)) = t /\ dead (hp s' (nxt s)) = false /\
      par (hp s' (nxt s)) = Some self /\ kids (hp s' (nxt s)) = [] /\
      (forall q, live s q -> q <> self -> kids (hp s' q) = kids (hp s q)) /\
      (forall y, y < nxt s -> par (hp s' y) = par (hp s y))
  end.
Proof.
  intros C (L & T & A) E. unfold op_append in E. destruct a as [c|t].
  - intros Kc. destruct (insert_one_step s self _ c s' C L T A Kc E) as (_ & N & K & O & P & Pf).
    split; [exact N|]. split; [|auto]. rewrite K. apply kmove_end; [now apply kids_NoDup | lia].
  - assert (Nd : nxt s <> self) by (destruct L; lia).
    rewrite (insert_str_as_el s self _ t Nd) in E.
    pose proof (alloc_into self s (KStr false) t C L) as HA. cbv zeta in HA.
    destruct HA as (I1 & _ & Lx & Hcell & Nx). change (snd (alloc s (KStr false) t)) with (nxt s) in *.
    remember (fst (alloc s (KStr false) t)) as s1 eqn:Es1. pose proof I1 as [E1 _].
    assert (Hsame : forall y, y <> nxt s -> hp s1 y = hp s y).
    { intros y Hy. subst s1. unfold alloc. cbn [fst hp]. now apply upd_other. }
    assert (N1 : nxt s1 = S (nxt s)) by (subst s1; reflexivity).
    assert (T1 : is_tag (hp s1) self = true) by (rewrite (evo_tag self s s1 self E1 L); exact T).
    assert (Kx : kind (hp s1 (nxt s)) <> KSoup) by (rewrite Hcell; discriminate).
    rewrite <- (Hsame self) in E by auto.
    destruct (insert_one_step s1 self _ (nxt s) s' (evo_consistent _ _ _ E1) (evo_live _ _ _ _ E1 L) T1 (conj Lx Nx) Kx E)
      as ([Ev _] & N & K & O & P & Pf).
    assert (Mx : meta (hp s' (nxt s)) = meta (hp s1 (nxt s))) by (apply Ev; lia).
    assert (Px1 : forall q, par (hp s1 (nxt s)) <> Some q) by (intros q; rewrite Hcell; discriminate).
    pose proof (evo_consistent _ _ _ E1) as C1. pose proof (evo_live _ _ _ _ E1 L) as Ls1.
    split; [lia|]. split; [|split; [|split; [|split; [|split; [exact P|split; [|split]]]]]].
    + rewrite K. rewrite kmove_end; [|now apply kids_NoDup | lia].
      rewrite (drop_not_kid s1 self (nxt s) C1 Ls1 (Px1 self)). now rewrite (Hsame self) by auto.
    + rewrite (meta_kind _ _ Mx), Hcell. reflexivity.
    + rewrite (meta_txt _ _ Mx), Hcell. reflexivity.
    + rewrite (meta_dead _ _ Mx), Hcell. reflexivity.
    + (* the new string has no children: it is live in s', and a child would point back to it *)
      destruct (kids (hp s' (nxt s))) as [|k ks] eqn:Ek; [reflexivity|]. exfalso.
      assert (Ls' : live s' (nxt s)) by (eapply evo_live; eauto).
      destruct (kids_facts s' (nxt s) k (evo_consistent _ _ _ Ev) Ls') as [Lk Pk]; [rewrite Ek; now left|].
      destruct (Nat.eq_dec k (nxt s)) as [->|Nk].
      * apply (self_not_parent s' (nxt s) (evo_consistent _ _ _ Ev) Ls' Pk).
      * rewrite (Pf k Nk) in Pk. destruct (ext_back s1 s' k (evo_ext _ _ _ Ev) Lk) as [Lk1|Hk]; [|destruct Lk; lia].
        destruct (parent_facts s1 k (nxt s) (evo_consistent _ _ _ E1) Lk1 Pk) as (_ & Tx & _).
        unfold is_tag in Tx. rewrite Hcell in Tx. discriminate.
    + intros q Lq Nq. rewrite (O q (evo_live _ _ _ _ E1 Lq) Nq).
      rewrite (drop_not_kid s1 q (nxt s) C1 (evo_live _ _ _ _ E1 Lq) (Px1 q)). apply f_equal, Hsame. destruct Lq; lia.
    + intros y Hy. rewrite Pf by lia. now rewrite Hsame by lia.
Qed.

(* ---- extend ---- *)

Lemma append_all_elems : forall cs s d s',
  consistent s -> live s d -> is_tag (hp s) d = true ->
  Forall (arg_ok s d) (map AEl cs) -> nonsoups s cs -> NoDup cs ->
  append_all s d (map AEl cs) = Ok s' ->
  into d s s' /\ nxt s' = nxt s /\
  kids (hp s' d) = others cs (kids (hp s d)) ++ cs /\
  (forall q, live s q -> q <> d -> kids (hp s' q) = others cs (kids (hp s q))) /\
  (forall c, In c cs -> par (hp s' c) = Some d) /\
  (forall y, ~ In y cs -> par (hp s' y) = par (hp s y)).
Proof.
  induction cs as [|c cs IH]; intros s d s' C Ld Td HF HK ND H.
  - cbn in H. inversion H; subst. split; [now apply into_refl|]. split; [reflexivity|].
    rewrite others_nil, app_nil_r. split; [reflexivity|]. split; [intros; now rewrite others_nil|].
    split; [intros c []|auto].
  - cbn [map] in HF, H. inversion HF as [|? ? Ha HF']; subst. inversion HK as [|? ? Kc HK']; subst.
    inversion ND as [|? ? Hn ND']; subst.
    cbn [append_all] in H. unfold op_append in H.
    destruct (op_insert s d (length (kids (hp s d))) [AEl c]) as [s1|] eqn:E1; [|discriminate].
    destruct (insert_one_step s d _ c s1 C Ld Td Ha Kc E1) as (I1 & N1 & K1 & O1 & P1 & Pf1).
    pose proof I1 as [Ev1 _]. pose proof (evo_consistent _ _ _ Ev1) as C1. pose proof (evo_live _ _ _ _ Ev1 Ld) as Ld1.
    assert (Td1 : is_tag (hp s1) d = true) by (rewrite (evo_tag d s s1 d Ev1 Ld); exact Td).
    destruct (IH s1 d s' C1 Ld1 Td1 (Forall_arg_ok_evo _ _ _ _ Ev1 HF')
                 (nonsoups_evo d s s1 cs Ev1 (args_live s d cs HF') HK') ND' H) as (I2 & N2 & K2 & O2 & P2 & Pf2).
    split; [eapply into_trans; eauto|]. split; [congruence|]. split; [|split; [|split]].
    + rewrite K2, K1. rewrite kmove_end; [|now apply kids_NoDup | lia].
      rewrite others_app, (others_single cs c Hn), others_cons, <- app_assoc. reflexivity.
    + intros q Lq Nq. rewrite (O2 q (evo_live _ _ _ _ Ev1 Lq) Nq), (O1 q Lq Nq). now rewrite others_cons.
    + intros c0 [<-|Hc0]; [|now apply P2]. rewrite Pf2 by exact Hn. exact P1.
    + intros y Hy. rewrite Pf2 by (intros Hi; apply Hy; now right). apply Pf1. intros ->. apply Hy. now left.
Qed.

(* extend(list of elements): the arguments, in order, at the end; they leave their old places *)
Theorem op_extend_list_documented s self args cs s' :
  consistent s -> wf_op s (OExtendList self args) -> elem_args s args cs -> op_extend_list s self args = Ok s' ->
  nxt s' = nxt s /\
  kids (hp s' self) = others cs (kids (hp s self)) ++ cs /\
  (forall q, live s q -> q <> self -> kids (hp s' q) = others cs (kids (hp s q))) /\
  (forall c, In c cs -> par (hp s' c) = Some self) /\
  (forall y, ~ In y cs -> par (hp s' y) = par (hp s y)).
Proof.
  intros C (L & T & A) (-> & ND & K) E. unfold op_extend_list in E.
  destruct (append_all_elems cs s self s' C L T A K ND E) as (_ & H). exact H.
Qed.

(* extend(tag): the children of [other], as they were before the call, are appended in order;
   [other] ends up childless.  extend(self) leaves the child list as it was. *)
Theorem op_extend_tag_documented s self other s' :
  consistent s -> wf_op s (OExtendTag self other) -> live s other -> nonsoups s (kids (hp s other)) ->
  op_extend_tag s self other = Ok s' ->
  let cs := kids (hp s other) in
  nxt s' = nxt s /\
  (other <> self -> kids (hp s' self) = kids (hp s self) ++ cs /\ kids (hp s' other) = []) /\
  (other = self -> kids (hp s' self) = kids (hp s self)) /\
  (forall q, live s q -> q <> self -> q <> other -> kids (hp s' q) = kids (hp s q)) /\
  (forall c, In c cs -> par (hp s' c) = Some self) /\
  (forall y, ~ In y cs -> par (hp s' y) = par (hp s y)).
Proof.
  intros C (L & T & A) Lo K E cs. unfold op_extend_tag in E. fold cs in E, A.
  assert (A' : Forall (arg_ok s self) (map AEl cs)).
  { apply Forall_forall. intros a Ha. apply in_map_iff in Ha. destruct Ha as (c & <- & Hc).
    rewrite Forall_forall in A. exact (A c Hc). }
  assert (Pcs : forall c, In c cs -> par (hp s c) = Some other) by (intros c Hc; apply (kids_facts s other c C Lo Hc)).
  destruct (append_all_elems cs s self s' C L T A' K (kids_NoDup s other C Lo) E) as (_ & N & Ks & O & P & Pf).
  split; [exact N|]. split; [|split; [|split; [|split; [exact P | exact Pf]]]].
  - intros Ne. split.
    + rewrite Ks. f_equal. apply others_not_kids; auto. intros c Hc. rewrite (Pcs c Hc). congruence.
    + rewrite (O other Lo Ne). apply others_self.
  - intros ->. rewrite Ks. unfold cs. now rewrite others_self.
  - intros q Lq N1 N2. rewrite (O q Lq N1). apply others_not_kids; auto. intros c Hc. rewrite (Pcs c Hc). congruence.
Qed.

(* ---- replace_with: nothing else moves (complements op_replace_with_documented) ---- *)

Lemma insert_elems_nxt : forall cs s d pos s' ins, insert_elems s d pos cs = Ok (s', ins) -> nxt s' = nxt s.
Proof.
  induction cs as [|c cs IH]; intros s d pos s' ins H; cbn [insert_elems] in H; [inversion H; reflexivity|].
  destruct (insert1 (fuel_of s) (hp s) d pos c) as [h|]; [|discriminate]. cbv zeta in H.
  match type of H with match ?e with _ => _ end = _ => destruct e as [[s2 ins2]|] eqn:E; [|discriminate] end.
  inversion H; subst. apply IH in E. exact E.
Qed.

Lemma insert_args_els_nxt : forall cs s d pos s' ins, insert_args s d pos (map AEl cs) = Ok (s', ins) -> nxt s' = nxt s.
Proof.
  induction cs as [|c cs IH]; intros s d pos s' ins H; cbn [map insert_args] in H; [inversion H; reflexivity|].
  destruct (insert_arg s d pos (AEl c)) as [[s1 just]|] eqn:E1; [|discriminate].
  match type of H with match ?e with _ => _ end = _ => destruct e as [[s2 ins2]|] eqn:E; [|discriminate] end.
  inversion H; subst. apply IH in E. rewrite E. clear - E1.
  unfold insert_arg in E1. destruct (Nat.eqb c d); [discriminate|].
  destruct (kind (hp s c)).
  - destruct (insert1 _ _ d pos c); [|discriminate]. inversion E1; reflexivity.
  - destruct (insert1 _ _ d pos c); [|discriminate]. inversion E1; reflexivity.
  - eapply insert_elems_nxt; eauto.
Qed.

Lemma replace_with_as_insert s self p cs s' idx :
  par (hp s self) = Some p -> Forall (arg_ok s p) (map AEl cs) -> ~ In self cs ->
  index_of self (kids (hp s p)) = Some idx -> op_replace_with s self (map AEl cs) = Ok s' ->
  op_insert (with_heap s (extract (fuel_of s) (hp s) self)) p idx (map AEl cs) = Ok s'.
Proof.
  intros P A Hn Eidx H. unfold op_replace_with in H. rewrite P in H.
  assert (G : (if existsb (is_self p) (map AEl cs) then ValueError else
               match index_of self (kids (hp s p)) with
               | None => ValueError
               | Some my_index => op_insert (with_heap s (extract (fuel_of s) (hp s) self)) p my_index (map AEl cs)
               end) = Ok s' ->
              op_insert (with_heap s (extract (fuel_of s) (hp s) self)) p idx (map AEl cs) = Ok s').
  { rewrite (arg_ok_not_self s p _ A), Eidx. auto. }
  destruct cs as [|y [|y2 cs']]; try (apply G; exact H).
  cbn [map] in H. destruct (Nat.eqb_spec y self) as [->|Ny]; [exfalso; apply Hn; now left|].
  destruct (Nat.eqb y p); [discriminate|]. rewrite Eidx in H. exact H.
Qed.

Theorem op_replace_with_frame s self p args cs s' :
  consistent s -> wf_op s (OReplaceWith self args) -> elem_args s args cs -> ~ In self cs ->
  par (hp s self) = Some p -> op_replace_with s self args = Ok s' ->
  nxt s' = nxt s /\ par (hp s' self) = None /\
  (forall q, live s q -> q <> p -> kids (hp s' q) = others cs (kids (hp s q))) /\
  (forall c, In c cs -> par (hp s' c) = Some p) /\
  (forall y, live s y -> y <> self -> ~ In y cs -> par (hp s' y) = par (hp s y)).
Proof.
  intros C (L & p' & P' & A) (-> & ND & K) Hn P H. assert (p' = p) by congruence. subst p'.
  destruct (parent_facts s self p C L P) as (Lp & Tp & Hin). destruct (index_of_In _ _ Hin) as (idx & Eidx).
  pose proof (replace_with_as_insert s self p cs s' idx P A Hn Eidx H) as G.
  destruct (extract_step s self C L) as (Ev & K1 & P1 & Pf1). cbv zeta in *.
  remember (with_heap s (extract (fuel_of s) (hp s) self)) as s1 eqn:Es1.
  pose proof (evo_consistent _ _ _ (Ev p)) as C1. pose proof (evo_live _ _ _ _ (Ev p) Lp) as Lp1.
  assert (Tp1 : is_tag (hp s1) p = true) by (rewrite (evo_tag p s s1 p (Ev p) Lp); exact Tp).
  pose proof (Forall_arg_ok_evo _ _ _ _ (Ev p) A) as A1.
  pose proof (nonsoups_evo p s s1 cs (Ev p) (args_live s p cs A) K) as K1'.
  destruct (op_insert_frame s1 p idx (map AEl cs) cs s' C1 (conj Lp1 (conj Tp1 A1)) (conj eq_refl (conj ND K1')) G)
    as (O & Pc & Pfr).
  assert (N1 : nxt s1 = nxt s) by (subst s1; reflexivity).
  split; [|split; [|split; [|split; [exact Pc|]]]].
  - unfold op_insert in G. destruct (insert_args s1 p idx (map AEl cs)) as [[s2 ins]|] eqn:E; [|discriminate].
    inversion G; subst s2. rewrite (insert_args_els_nxt _ _ _ _ _ _ E). exact N1.
  - rewrite (Pfr self (evo_live _ _ _ _ (Ev p) L) Hn). exact P1.
  - intros q Lq Nq. rewrite (O q (evo_live _ _ _ _ (Ev p) Lq) Nq). fold (others cs (kids (hp s1 q))).
    rewrite (K1 q Lq). rewrite (drop_not_kid s q self C Lq); [reflexivity | congruence].
  - intros y Ly Ny Hy. rewrite (Pfr y (evo_live _ _ _ _ (Ev p) Ly) Hy). now apply Pf1.
Qed.

(* ---- wrap ---- *)

(* wrap(w): w takes self's place in self's parent (leaving its own old place, if it had one), self becomes
   the last child of w, nothing else moves *)
Theorem op_wrap_documented s self w p s' :
  consistent s -> wf_op s (OWrap self w) -> par (hp s self) = Some p -> kind (hp s self) <> KSoup ->
  op_wrap s self w = Ok s' ->
  nxt s' = nxt s /\
  par (hp s' self) = Some w /\ par (hp s' w) = Some p /\
  kids (hp s' w) = kids (hp s w) ++ [self] /\
  kids (hp s' p) = replace_spec self [w] (kids (hp s p)) /\
  (forall P Q, kids (hp s p) = P ++ self :: Q -> kids (hp s' p) = drop w P ++ w :: drop w Q) /\
  (forall q, live s q -> q <> p -> q <> w -> kids (hp s' q) = drop w (kids (hp s q))) /\
  (forall y, live s y -> y <> self -> y <> w -> par (hp s' y) = par (hp s y)).
Proof.
  intros C (L & p' & P' & Lw & Tw & Kw & Nws & Nwp) P Ks H. assert (p' = p) by congruence. subst p'.
  destruct (op_wrap_steps s self p w C L P Lw Tw Kw Nws Nwp)
    as (s2 & s'' & Erep & Eapp & Ewrap & Ev & I & Lw2 & Tw2 & Ha & Ps2 & Pw2).
  assert (s'' = s') by congruence. subst s''.
  assert (Wr : wf_op s (OReplaceWith self [AEl w])).
  { split; [exact L|]. exists p. split; [exact P|]. constructor; [split; assumption | constructor]. }
  assert (EA : elem_args s [AEl w] [w]).
  { split; [reflexivity|]. split; [constructor; [intros []|constructor] | constructor; [exact Kw | constructor]]. }
  assert (Hn : ~ In self [w]) by (intros [->|[]]; congruence).
  pose proof (op_replace_with_documented s self p [AEl w] [w] s2 C Wr EA Hn P Erep) as Kp2.
  destruct (op_replace_with_frame s self p [AEl w] [w] s2 C Wr EA Hn P Erep) as (N2 & _ & O2 & _ & Pf2).
  pose proof (evo_consistent _ _ _ Ev) as C2.
  pose proof (op_append_documented s2 w (AEl self) s' C2 (conj Lw2 (conj Tw2 Ha)) Eapp) as HA. cbn beta iota in HA.
  assert (Ks2 : kind (hp s2 self) <> KSoup) by (rewrite (evo_kind p s s2 self Ev (proj1 L)); exact Ks).
  destruct (HA Ks2) as (N' & Kw' & Pself & O' & Pf').
  assert (Nwp' : w <> p) by (intros ->; apply Nwp; constructor).
  destruct (parent_facts s self p C L P) as (Lp & _ & _).
  assert (D2 : forall q, live s2 q -> drop self (kids (hp s2 q)) = kids (hp s2 q)).
  { intros q Lq. apply drop_not_kid; auto. rewrite Ps2. discriminate. }
  split; [congruence|]. split; [exact Pself|]. split; [rewrite Pf' by exact Nws; exact Pw2|].
  split; [|split; [|split; [|split]]].
  - rewrite Kw', (D2 w Lw2), (O2 w Lw Nwp'), others_one.
    rewrite (drop_not_kid s w w C Lw (self_not_parent s w C Lw)). reflexivity.
  - rewrite (O' p (evo_live _ _ _ _ Ev Lp) (not_eq_sym Nwp')), (D2 p (evo_live _ _ _ _ Ev Lp)). exact Kp2.
  - intros P0 Q0 EK. rewrite (O' p (evo_live _ _ _ _ Ev Lp) (not_eq_sym Nwp')), (D2 p (evo_live _ _ _ _ Ev Lp)), Kp2, EK.
    rewrite replace_spec_split; [|rewrite <- EK; now apply kids_NoDup | exact Hn]. now rewrite !others_one.
  - intros q Lq Nqp Nqw. rewrite (O' q (evo_live _ _ _ _ Ev Lq) Nqw), (D2 q (evo_live _ _ _ _ Ev Lq)), (O2 q Lq Nqp).
    apply others_one.
  - intros y Ly Ny1 Ny2. rewrite Pf' by exact Ny1. apply Pf2; auto. intros [->|[]]. congruence.
Qed.

(* ---- unwrap ---- *)

Lemma others_all cs K : (forall y, In y K -> In y cs) -> others cs K = [].
Proof.
  unfold others. induction K as [|y K IH]; intros Hs; [reflexivity|]. cbn [filter].
  assert (E : mem y cs = true) by (apply mem_In; apply Hs; now left). rewrite E. cbn [negb].
  apply IH. intros z Hz. apply Hs. now right.
Qed.

Lemma unwrap_loop_kids : forall l s p A B s',
  consistent s -> live s p -> is_tag (hp s) p = true ->
  Forall (fun c => arg_ok s p (AEl c)) l -> nonsoups s l -> NoDup l ->
  kids (hp s p) = A ++ B -> (forall c, In c l -> ~ In c (A ++ B)) ->
  unwrap_loop s p (length A) l = Ok s' ->
  nxt s' = nxt s /\
  kids (hp s' p) = A ++ rev l ++ B /\
  (forall q, live s q -> q <> p -> kids (hp s' q) = others l (kids (hp s q))) /\
  (forall c, In c l -> par (hp s' c) = Some p) /\
  (forall y, ~ In y l -> par (hp s' y) = par (hp s y)).
Proof.
  induction l as [|c l IH]; intros s p A B s' C Lp Tp HF HK ND EK Hfresh H.
  - cbn in H. inversion H; subst. split; [reflexivity|]. split; [exact EK|]. split; [intros; now rewrite others_nil|].
    split; [intros c []|auto].
  - inversion HF as [|? ? Ha HF']; subst. inversion HK as [|? ? Kc HK']; subst. inversion ND as [|? ? Hn ND']; subst.
    cbn [unwrap_loop] in H. destruct (op_insert s p (length A) [AEl c]) as [s1|] eqn:E1; [|discriminate].
    destruct (insert_one_step s p _ c s1 C Lp Tp Ha Kc E1) as ([Ev1 _] & N1 & K1 & O1 & P1 & Pf1).
    pose proof (evo_consistent _ _ _ Ev1) as C1. pose proof (evo_live _ _ _ _ Ev1 Lp) as Lp1.
    assert (Tp1 : is_tag (hp s1) p = true) by (rewrite (evo_tag p s s1 p Ev1 Lp); exact Tp).
    rewrite EK, (kmove_fresh c A B (Hfresh c (or_introl eq_refl))) in K1.
    assert (HF1 : Forall (fun c0 => arg_ok s1 p (AEl c0)) l).
    { eapply Forall_impl; [|exact HF']. intros c0. now apply arg_ok_evo. }
    assert (HK1 : nonsoups s1 l).
    { apply (nonsoups_evo p s s1 l Ev1); [|exact HK']. eapply Forall_impl; [|exact HF']. intros c0 [Lc0 _]. exact Lc0. }
    assert (Hfresh1 : forall c0, In c0 l -> ~ In c0 (A ++ c :: B)).
    { intros c0 Hc0 Hi. apply in_app_or in Hi. destruct Hi as [Hi|[->|Hi]]; [| contradiction |];
        apply (Hfresh c0 (or_intror Hc0)); apply in_or_app; auto. }
    destruct (IH s1 p A (c :: B) s' C1 Lp1 Tp1 HF1 HK1 ND' K1 Hfresh1 H) as (N2 & K2 & O2 & P2 & Pf2).
    split; [congruence|]. split; [|split; [|split]].
    + rewrite K2. cbn [rev]. now rewrite <- !app_assoc.
    + intros q Lq Nq. rewrite (O2 q (evo_live _ _ _ _ Ev1 Lq) Nq), (O1 q Lq Nq). now rewrite others_cons.
    + intros c0 [<-|Hc0]; [|now apply P2]. rewrite Pf2 by exact Hn. exact P1.
    + intros y Hy. rewrite Pf2 by (intros Hi; apply Hy; now right). apply Pf1. intros ->. apply Hy. now left.
Qed.

(* unwrap(): the children of self take its place, in order and contiguous; self comes back detached and
   childless; nothing else moves *)
Theorem op_unwrap_documented s self p s' :
  consistent s -> wf_op s (OUnwrap self) -> par (hp s self) = Some p -> nonsoups s (kids (hp s self)) ->
  op_unwrap s self = Ok s' ->
  nxt s' = nxt s /\ par (hp s' self) = None /\ kids (hp s' self) = [] /\
  (forall A B, kids (hp s p) = A ++ self :: B -> kids (hp s' p) = A ++ kids (hp s self) ++ B) /\
  (forall c, In c (kids (hp s self)) -> par (hp s' c) = Some p) /\
  (forall q, live s q -> q <> p -> q <> self -> kids (hp s' q) = kids (hp s q)) /\
  (forall y, y <> self -> ~ In y (kids (hp s self)) -> par (hp s' y) = par (hp s y)).
Proof.
  intros C (L & _) P HK H.
  destruct (op_unwrap_steps s self p C L P) as (idx & s'' & Eidx & Eloop & Eun & Ev1 & Ev2 & Lp1 & Tp1 & HF).
  cbv zeta in *. assert (s'' = s') by congruence. subst s''.
  destruct (extract_step s self C L) as (_ & K1 & P1 & Pf1). cbv zeta in *.
  remember (with_heap s (extract (fuel_of s) (hp s) self)) as s1 eqn:Es1.
  pose proof (evo_consistent _ _ _ Ev1) as C1. pose proof (evo_live _ _ _ _ Ev1 L) as L1.
  destruct (parent_facts s self p C L P) as (Lp & _ & Hin).
  assert (Nsp : self <> p) by (intros ->; exact (self_not_parent s p C Lp P)).
  assert (Ks1 : kids (hp s1 self) = kids (hp s self)).
  { rewrite (K1 self L). apply drop_not_kid; auto. now apply self_not_parent. }
  rewrite Ks1 in *. remember (kids (hp s self)) as ks eqn:Eks.
  assert (Hkid1 : forall c, In c ks -> live s1 c /\ par (hp s1 c) = Some self).
  { intros c Hc. apply (kids_facts s1 self c C1 L1). now rewrite Ks1. }
  assert (HK1 : nonsoups s1 (rev ks)).
  { apply Forall_forall. intros c Hc. apply in_rev in Hc. unfold nonsoups in HK. rewrite Forall_forall in HK.
    assert (Lc : live s c) by (apply (kids_facts s self c C L); rewrite <- Eks; exact Hc).
    rewrite (evo_kind p s s1 c Ev1 (proj1 Lc)). now apply HK. }
  assert (ND1 : NoDup (rev ks)) by (apply NoDup_rev; rewrite Eks; now apply kids_NoDup).
  destruct (drop_split self _ (kids_NoDup s p C Lp) Hin) as (A0 & B0 & EK0 & ED0 & HA0 & HB0).
  assert (Main : forall A B, kids (hp s p) = A ++ self :: B ->
            nxt s' = nxt s1 /\ kids (hp s' p) = A ++ rev (rev ks) ++ B /\
            (forall q, live s1 q -> q <> p -> kids (hp s' q) = others (rev ks) (kids (hp s1 q))) /\
            (forall c, In c (rev ks) -> par (hp s' c) = Some p) /\
            (forall y, ~ In y (rev ks) -> par (hp s' y) = par (hp s1 y))).
  { intros A B EK. pose proof (kids_NoDup s p C Lp) as NDp. rewrite EK in NDp.
    assert (HA : ~ In self A).
    { intros Hi. apply NoDup_remove_2 in NDp. apply NDp. apply in_or_app. now left. }
    assert (HB : ~ In self B).
    { intros Hi. apply NoDup_remove_2 in NDp. apply NDp. apply in_or_app. now right. }
    assert (Ei : idx = length A).
    { rewrite EK, (index_of_app_here self A B HA) in Eidx. congruence. }
    rewrite Ei in Eloop.
    apply (unwrap_loop_kids (rev ks) s1 p A B s' C1 Lp1 Tp1 HF HK1 ND1); [| |exact Eloop].
    - rewrite (K1 p Lp), EK. now apply drop_here.
    - intros c Hc Hi. apply in_rev in Hc. destruct (Hkid1 c Hc) as [_ Pc].
      assert (Hi1 : In c (kids (hp s1 p))) by (rewrite (K1 p Lp), EK, (drop_here self A B HA HB); exact Hi).
      destruct (kids_facts s1 p c C1 Lp1 Hi1) as [_ Pc']. congruence. }
  destruct (Main A0 B0 EK0) as (N & _ & O & Pc & Pf).
  assert (Hself : ~ In self (rev ks)).
  { intros Hi. apply in_rev in Hi. destruct (Hkid1 self Hi) as [_ Pc']. congruence. }
  split; [rewrite N; subst s1; reflexivity|]. split; [rewrite (Pf self Hself); exact P1|]. split; [|split; [|split; [|split]]].
  - rewrite (O self L1 Nsp), Ks1. apply others_all. intros y Hy. now apply in_rev in Hy.
  - intros A B EK. destruct (Main A B EK) as (_ & K & _). now rewrite rev_involutive in K.
  - intros c Hc. apply Pc. now apply in_rev in Hc.
  - intros q Lq Nqp Nqs. rewrite (O q (evo_live _ _ _ _ Ev1 Lq) Nqp), (K1 q Lq).
    rewrite (drop_not_kid s q self C Lq) by congruence.
    apply others_disjoint. intros x Hx Hc. apply in_rev in Hc. destruct (Hkid1 x Hc) as [Lx Px].
    destruct (kids_facts s q x C Lq Hx) as [_ Px0].
    assert (Nx : x <> self) by (intros ->; congruence).
    rewrite (Pf1 x Nx) in Px. congruence.
  - intros y Ny Hy. rewrite Pf by (intros Hi; apply in_rev in Hi; contradiction). now apply Pf1.
Qed.

(* ---- clear() ---- *)

Lemma fold_extract_effect : forall cs s, consistent s -> Forall (live s) cs ->
  let s' := with_heap s (fold_left (fun h c => extract (fuel_of s) h c) cs (hp s)) in
  (forall q, live s q -> kids (hp s' q) = others cs (kids (hp s q))) /\
  (forall y, ~ In y cs -> par (hp s' y) = par (hp s y)) /\
  (forall y, meta (hp s' y) = meta (hp s y)).
Proof.
  induction cs as [|c cs IH]; intros s C HF; cbv zeta.
  - cbn [fold_left]. rewrite with_heap_id. split; [intros; now rewrite others_nil|]. auto.
  - inversion HF as [|? ? Lc HF']; subst. cbn [fold_left].
    destruct (extract_step s c C Lc) as (Ev & K1 & _ & Pf1). cbv zeta in *.
    remember (with_heap s (extract (fuel_of s) (hp s) c)) as s1 eqn:Es1.
    assert (Es' : with_heap s (fold_left (fun h c0 => extract (fuel_of s) h c0) cs (extract (fuel_of s) (hp s) c)) =
                  with_heap s1 (fold_left (fun h c0 => extract (fuel_of s1) h c0) cs (hp s1))) by (subst s1; reflexivity).
    rewrite Es'. clear Es'.
    assert (HF1 : Forall (live s1) cs) by (eapply Forall_impl; [|exact HF']; intros c0; apply (evo_live 0 _ _ _ (Ev 0))).
    destruct (IH s1 (evo_consistent _ _ _ (Ev 0)) HF1) as (K2 & Pf2 & M2). cbv zeta in *.
    split; [|split].
    + intros q Lq. rewrite (K2 q (evo_live _ _ _ _ (Ev 0) Lq)), (K1 q Lq). now rewrite others_cons.
    + intros y Hy. rewrite Pf2 by (intros Hi; apply Hy; now right). apply Pf1. intros ->. apply Hy. now left.
    + intros y. rewrite M2. subst s1. apply extract_meta.
Qed.

(* clear(): self ends up childless, every former child comes back detached with its own children,
   nothing else moves *)
Theorem op_clear_documented s self s' : consistent s -> live s self -> op_clear s self false = Ok s' ->
  nxt s' = nxt s /\ (forall y, meta (hp s' y) = meta (hp s y)) /\
  kids (hp s' self) = [] /\
  (forall c, In c (kids (hp s self)) -> par (hp s' c) = None /\ kids (hp s' c) = kids (hp s c)) /\
  (forall q, live s q -> q <> self -> kids (hp s' q) = kids (hp s q)) /\
  (forall y, ~ In y (kids (hp s self)) -> par (hp s' y) = par (hp s y)).
Proof.
  intros C L E. unfold op_clear in E. inversion E; subst s'. clear E.
  assert (HF : Forall (live s) (kids (hp s self))).
  { apply Forall_forall. intros c Hc. apply (kids_facts s self c C L Hc). }
  destruct (fold_extract_effect (kids (hp s self)) s C HF) as (K & Pf & M). cbv zeta in *.
  assert (Fr : forall q, live s q -> q <> self ->
     kids (hp (with_heap s (fold_left (fun h c => extract (fuel_of s) h c) (kids (hp s self)) (hp s))) q) = kids (hp s q)).
  { intros q Lq Nq. rewrite (K q Lq). apply others_not_kids; auto. intros c Hc.
    destruct (kids_facts s self c C L Hc) as [_ Pc]. congruence. }
  split; [reflexivity|]. split; [exact M|]. split; [rewrite (K self L); apply others_self|].
  split; [|split; [exact Fr | exact Pf]].
  intros c Hc. split; [cbn [with_heap hp]; apply fold_extract_par_none; now left|].
  destruct (kids_facts s self c C L Hc) as [Lc Pc]. apply (Fr c Lc). intros ->.
  exact (self_not_parent s self C L Pc).
Qed.

(* ---- tag.string = t ---- *)

Lemma fresh_not_kid s q : consistent s -> live s q -> ~ In (nxt s) (kids (hp s q)).
Proof. intros C L Hi. destruct (kids_facts s q _ C L Hi) as [[Hlt _] _]. lia. Qed.

Theorem op_set_string_documented s self t s' :
  consistent s -> wf_op s (OSetString self t) -> op_set_string s self t = Ok s' ->
  nxt s' = S (nxt s) /\ kids (hp s' self) = [nxt s] /\
  kind (hp s' (nxt s)) = KStr false /\ txt (hp s' (nxt s)) = t /\ dead (hp s' (nxt s)) = false /\
  par (hp s' (nxt s)) = Some self /\ kids (hp s' (nxt s)) = [] /\
  (forall c, In c (kids (hp s self)) -> par (hp s' c) = None /\ kids (hp s' c) = kids (hp s c)) /\
  (forall q, live s q -> q <> self -> kids (hp s' q) = kids (hp s q)) /\
  (forall y, y < nxt s -> ~ In y (kids (hp s self)) -> par (hp s' y) = par (hp s y)).
Proof.
  intros C (L & T) H. destruct (op_set_string_steps s self t C L T) as (s1 & s'' & E1 & G). cbv zeta in G.
  destruct G as (Eapp & Eset & Ev1 & I2 & I3 & N1 & L2 & T2 & Lx & Hcell & Nx).
  assert (s'' = s') by congruence. subst s''.
  destruct (op_clear_documented s self s1 C L E1) as (_ & _ & Ks1 & Kc1 & Fr1 & Pf1).
  remember (fst (alloc s1 (KStr false) t)) as s2 eqn:Es2.
  assert (Hsame : forall y, y <> nxt s -> hp s2 y = hp s1 y).
  { intros y Hy. subst s2. unfold alloc. cbn [fst hp]. rewrite N1. now apply upd_other. }
  assert (N2 : nxt s2 = S (nxt s)) by (subst s2; unfold alloc; cbn [fst nxt]; now rewrite N1).
  pose proof I2 as [Ev2 _]. pose proof I3 as [Ev3 _].
  pose proof (evo_consistent _ _ _ Ev1) as C1. pose proof (evo_consistent _ _ _ Ev2) as C2.
  assert (Kx : kind (hp s2 (nxt s)) <> KSoup) by (rewrite Hcell; discriminate).
  pose proof (op_append_documented s2 self (AEl (nxt s)) s' C2 (conj L2 (conj T2 (conj Lx Nx))) Eapp) as HA.
  cbn beta iota in HA. destruct (HA Kx) as (N' & K' & Px & O' & Pf').
  assert (Nxs : nxt s <> self) by (destruct L; lia).
  assert (Mx : meta (hp s' (nxt s)) = meta (hp s2 (nxt s))) by (apply Ev3; lia).
  assert (Dx : forall q, live s q -> drop (nxt s) (kids (hp s1 q)) = kids (hp s1 q)).
  { intros q Lq. apply drop_notin. rewrite <- N1. apply fresh_not_kid; auto. eapply evo_live; eauto. }
  assert (L12 : forall q, live s q -> live s2 q).
  { intros q Lq. eapply evo_live; [exact Ev2|]. eapply evo_live; eauto. }
  split; [congruence|]. split; [|split; [|split; [|split; [|split; [exact Px|split; [|split; [|split]]]]]]].
  - rewrite K', (Hsame self) by auto. rewrite Ks1. reflexivity.
  - rewrite (meta_kind _ _ Mx), Hcell. reflexivity.
  - rewrite (meta_txt _ _ Mx), Hcell. reflexivity.
  - rewrite (meta_dead _ _ Mx), Hcell. reflexivity.
  - rewrite (O' (nxt s) Lx Nxs), Hcell. reflexivity.
  - intros c Hc. destruct (kids_facts s self c C L Hc) as [Lc Pc]. destruct (Kc1 c Hc) as [Pc1 Kc1'].
    assert (Ncx : c <> nxt s) by (destruct Lc; lia).
    assert (Ncs : c <> self) by (intros ->; exact (self_not_parent s self C L Pc)).
    split.
    + rewrite (Pf' c Ncx), (Hsame c Ncx). exact Pc1.
    + rewrite (O' c (L12 c Lc) Ncs), (Hsame c Ncx), (Dx c Lc). exact Kc1'.
  - intros q Lq Nq. assert (Nqx : q <> nxt s) by (destruct Lq; lia).
    rewrite (O' q (L12 q Lq) Nq), (Hsame q Nqx), (Dx q Lq). now apply Fr1.
  - intros y Hy Hn. assert (Nyx : y <> nxt s) by lia. rewrite (Pf' y Nyx), (Hsame y Nyx). now apply Pf1.
Qed.

(* ---- decompose() ---- *)

(* the element and its descendants are wiped (dead, no parent, no children, no links); for the survivors
   decompose() is extract() *)
Theorem op_decompose_documented s x s' : consistent s -> live s x -> op_decompose s x = Ok s' ->
  (forall y, live s y -> anc (hp s) x y -> hp s' y = wiped (hp s y)) /\
  (forall p, par (hp s x) = Some p -> kids (hp s' p) = drop x (kids (hp s p))) /\
  (forall q, live s q -> ~ anc (hp s) x q -> par (hp s x) <> Some q -> kids (hp s' q) = kids (hp s q)) /\
  (forall y, ~ anc (hp s) x y -> par (hp s' y) = par (hp s y)).
Proof.
  intros C L E. pose proof C as [F CF]. unfold op_decompose in E. inversion E; subst s'. clear E.
  destruct (decompose_cells F s x CF L) as (H1 & H2 & _). cbv zeta in *. cbn [with_heap hp].
  destruct (op_extract_documented s x _ C L eq_refl) as (_ & _ & _ & _ & Kp & Kq & Pf). cbn [with_heap hp] in *.
  split; [exact H2|]. split; [|split].
  - intros p P. destruct (parent_facts s x p C L P) as (Lp & _ & _).
    rewrite H1 by (exact (acyclic s x p C L P)). apply (Kp p P).
  - intros q Lq Hq Nq. rewrite (H1 q Hq). now apply Kq.
  - intros y Hy. rewrite (H1 y Hy). apply Pf. intros ->. apply Hy. constructor.
Qed.


(* ---- subtrees stay intact ---- *)

(* [abs_tree f h x] (Spec/Tree.v) reads the subtree of x off the child lists.  If no element at or below x
   has its child list changed, the subtree is the same, to any depth *)
Lemma abs_tree_intact s h' x : consistent s -> live s x ->
  (forall y, live s y -> anc (hp s) x y -> kids (h' y) = kids (hp s y)) ->
  forall f, abs_tree f h' x = abs_tree f (hp s) x.
Proof.
  intros C L H f. revert x L H. induction f as [|f IH]; intros x L H; [reflexivity|].
  cbn [abs_tree]. rewrite (H x L (anc_refl _ _)). f_equal. apply map_ext_in. intros c Hc.
  destruct (kids_facts s x c C L Hc) as [Lc Pc]. apply IH; [exact Lc|].
  intros y Ly Hy. apply H; [exact Ly|]. eapply anc_trans; [|exact Hy]. eapply anc_step; [exact Pc | constructor].
Qed.

(* extract(): the extracted element keeps its whole subtree (child lists and parent pointers) *)
Theorem op_extract_subtree s x s' : consistent s -> live s x -> op_extract s x = Ok s' ->
  (forall f, abs_tree f (hp s') x = abs_tree f (hp s) x) /\
  (forall y, anc (hp s) x y -> y <> x -> par (hp s' y) = par (hp s y)).
Proof.
  intros C L E. destruct (op_extract_documented s x s' C L E) as (_ & _ & _ & _ & _ & Kq & Pf).
  split; [|intros y _ Ny; now apply Pf].
  apply (abs_tree_intact s (hp s') x C L). intros y Ly Hy. apply (Kq y Ly).
  intros P. exact (acyclic s x y C L P Hy).
Qed.

(* clear() / .string=: every former child keeps its whole subtree *)
Theorem op_clear_subtree s self s' c : consistent s -> live s self -> op_clear s self false = Ok s' ->
  In c (kids (hp s self)) -> forall f, abs_tree f (hp s') c = abs_tree f (hp s) c.
Proof.
  intros C L E Hc. destruct (op_clear_documented s self s' C L E) as (_ & _ & _ & _ & Fr & _).
  destruct (kids_facts s self c C L Hc) as [Lc Pc].
  apply (abs_tree_intact s (hp s') c C Lc). intros y Ly Hy. apply (Fr y Ly). intros ->.
  exact (acyclic s c self C Lc Pc Hy).
Qed.

Theorem op_set_string_subtree s self t s' c : consistent s -> wf_op s (OSetString self t) ->
  op_set_string s self t = Ok s' ->
  In c (kids (hp s self)) -> forall f, abs_tree f (hp s') c = abs_tree f (hp s) c.
Proof.
  intros C W E Hc. pose proof W as (L & _).
  destruct (op_set_string_documented s self t s' C W E) as (_ & _ & _ & _ & _ & _ & _ & _ & Fr & _).
  destruct (kids_facts s self c C L Hc) as [Lc Pc].
  apply (abs_tree_intact s (hp s') c C Lc). intros y Ly Hy. apply (Fr y Ly). intros ->.
  exact (acyclic s c self C Lc Pc Hy).
Qed.

(* unwrap(): every child of the unwrapped element keeps its whole subtree *)
Theorem op_unwrap_subtree s self p s' c :
  consistent s -> wf_op s (OUnwrap self) -> par (hp s self) = Some p -> nonsoups s (kids (hp s self)) ->
  op_unwrap s self = Ok s' ->
  In c (kids (hp s self)) -> forall f, abs_tree f (hp s') c = abs_tree f (hp s) c.
Proof.
  intros C W P K E Hc. pose proof W as (L & _).
  destruct (op_unwrap_documented s self p s' C W P K E) as (_ & _ & _ & _ & _ & Fr & _).
  destruct (kids_facts s self c C L Hc) as [Lc Pc].
  apply (abs_tree_intact s (hp s') c C Lc). intros y Ly Hy. apply (Fr y Ly).
  - intros ->. apply (acyclic s self p C L P). eapply anc_up; eauto.
  - intros ->. exact (acyclic s c self C Lc Pc Hy).
Qed.

(* replace_with(): the replaced element keeps its whole subtree, provided no replacement was taken from
   inside it (a replacement taken from inside it is, as documented, first removed from there) *)
Theorem op_replace_with_subtree s self p args cs s' :
  consistent s -> wf_op s (OReplaceWith self args) -> elem_args s args cs -> ~ In self cs ->
  par (hp s self) = Some p -> op_replace_with s self args = Ok s' ->
  (forall c, In c cs -> ~ anc (hp s) self c) ->
  forall f, abs_tree f (hp s') self = abs_tree f (hp s) self.
Proof.
  intros C W EA Hn P E Hout. pose proof W as (L & _).
  destruct (op_replace_with_frame s self p args cs s' C W EA Hn P E) as (_ & _ & O & _ & _).
  apply (abs_tree_intact s (hp s') self C L). intros y Ly Hy. rewrite (O y Ly).
  - apply others_disjoint. intros x Hx Hc. destruct (kids_facts s y x C Ly Hx) as [_ Px].
    apply (Hout x Hc). eapply anc_trans; [exact Hy|]. eapply anc_step; [exact Px | constructor].
  - intros ->. exact (acyclic s self p C L P Hy).
Qed.

(* wrap(): the wrapped element keeps its whole subtree, provided the wrapper was not taken from inside it *)
Theorem op_wrap_subtree s self w p s' :
  consistent s -> wf_op s (OWrap self w) -> par (hp s self) = Some p -> kind (hp s self) <> KSoup ->
  op_wrap s self w = Ok s' -> ~ anc (hp s) self w ->
  forall f, abs_tree f (hp s') self = abs_tree f (hp s) self.
Proof.
  intros C W P K E Hout. pose proof W as (L & _).
  destruct (op_wrap_documented s self w p s' C W P K E) as (_ & _ & _ & _ & _ & _ & O & _).
  apply (abs_tree_intact s (hp s') self C L). intros y Ly Hy. rewrite (O y Ly).
  - apply drop_notin. intros Hx. destruct (kids_facts s y w C Ly Hx) as [_ Px].
    apply Hout. eapply anc_trans; [exact Hy|]. eapply anc_step; [exact Px | constructor].
  - intros ->. exact (acyclic s self p C L P Hy).
  - intros ->. exact (Hout Hy).
Qed.

(* ---- insert_before / insert_after: nothing else moves (complements op_insert_before/after_documented) ---- *)

Lemma drop_drop c K : drop c (drop c K) = drop c K.
Proof. apply drop_notin. intros H. apply drop_In in H. destruct H as [_ H]. now apply H. Qed.

Lemma insert_args_op_insert s d pos args s' ins : insert_args s d pos args = Ok (s', ins) -> op_insert s d pos args = Ok s'.
Proof. intros H. unfold op_insert. now rewrite H. Qed.

(* one round of the loops: extract the argument, then _insert it under p *)
Lemma extract_insert_step s p pos c s2 ins :
  consistent s -> live s p -> is_tag (hp s) p = true -> arg_ok s p (AEl c) -> kind (hp s c) <> KSoup ->
  insert_args (with_heap s (extract (fuel_of s) (hp s) c)) p pos [AEl c] = Ok (s2, ins) ->
  evo p s s2 /\ nxt s2 = nxt s /\ ins = [c] /\
  (forall q, live s q -> q <> p -> kids (hp s2 q) = drop c (kids (hp s q))) /\
  par (hp s2 c) = Some p /\ (forall y, y <> c -> par (hp s2 y) = par (hp s y)).
Proof.
  intros C Lp Tp Ha Kc H. pose proof Ha as [Lc Nc].
  destruct (extract_step s c C Lc) as (Ev & K1 & _ & Pf1). cbv zeta in *.
  remember (with_heap s (extract (fuel_of s) (hp s) c)) as s1 eqn:Es1.
  pose proof (evo_consistent _ _ _ (Ev p)) as C1. pose proof (evo_live _ _ _ _ (Ev p) Lp) as Lp1.
  assert (Tp1 : is_tag (hp s1) p = true) by (rewrite (evo_tag p s s1 p (Ev p) Lp); exact Tp).
  assert (Kc1 : kind (hp s1 c) <> KSoup) by (rewrite (evo_kind p s s1 c (Ev p) (proj1 Lc)); exact Kc).
  pose proof (insert_args_single s1 p pos c s2 ins H Kc1) as Eins.
  destruct (insert_one_step s1 p pos c s2 C1 Lp1 Tp1 (arg_ok_evo _ _ _ _ (Ev p) Ha) Kc1 (insert_args_op_insert _ _ _ _ _ _ H))
    as ([Ev2 _] & N2 & _ & O2 & P2 & Pf2).
  split; [eapply evo_trans; eauto|]. split; [rewrite N2; subst s1; reflexivity|]. split; [exact Eins|].
  split; [|split; [exact P2|]].
  - intros q Lq Nq. rewrite (O2 q (evo_live _ _ _ _ (Ev p) Lq) Nq), (K1 q Lq). apply drop_drop.
  - intros y Ny. rewrite (Pf2 y Ny). now apply Pf1.
Qed.

Lemma before_loop_frame : forall cs s self p s',
  consistent s -> live s p -> is_tag (hp s) p = true ->
  Forall (arg_ok s p) (map AEl cs) -> nonsoups s cs -> NoDup cs ->
  before_loop s self p (map AEl cs) = Ok s' ->
  nxt s' = nxt s /\
  (forall q, live s q -> q <> p -> kids (hp s' q) = others cs (kids (hp s q))) /\
  (forall c, In c cs -> par (hp s' c) = Some p) /\
  (forall y, ~ In y cs -> par (hp s' y) = par (hp s y)).
Proof.
  induction cs as [|c cs IH]; intros s self p s' C Lp Tp HF HK ND H.
  - cbn in H. inversion H; subst. split; [reflexivity|]. split; [intros; now rewrite others_nil|]. split; [intros c []|auto].
  - cbn [map] in HF, H. inversion HF as [|? ? Ha HF']; subst. inversion HK as [|? ? Kc HK']; subst.
    inversion ND as [|? ? Hn ND']; subst. cbn [before_loop extract_arg] in H.
    destruct (index_of self _) as [idx|]; [|discriminate].
    destruct (insert_args _ p idx [AEl c]) as [[s2 ins]|] eqn:E2; [|discriminate].
    destruct (extract_insert_step s p idx c s2 ins C Lp Tp Ha Kc E2) as (Ev & N2 & _ & O2 & P2 & Pf2).
    assert (Tp2 : is_tag (hp s2) p = true) by (rewrite (evo_tag p s s2 p Ev Lp); exact Tp).
    destruct (IH s2 self p s' (evo_consistent _ _ _ Ev) (evo_live _ _ _ _ Ev Lp) Tp2 (Forall_arg_ok_evo _ _ _ _ Ev HF')
                 (nonsoups_evo p s s2 cs Ev (args_live s p cs HF') HK') ND' H) as (N3 & O3 & P3 & Pf3).
    split; [congruence|]. split; [|split].
    + intros q Lq Nq. rewrite (O3 q (evo_live _ _ _ _ Ev Lq) Nq), (O2 q Lq Nq). now rewrite others_cons.
    + intros c0 [<-|Hc0]; [|now apply P3]. rewrite Pf3 by exact Hn. exact P2.
    + intros y Hy. rewrite Pf3 by (intros Hi; apply Hy; now right). apply Pf2. intros ->. apply Hy. now left.
Qed.

Lemma after_loop_frame : forall cs s anchor p s',
  consistent s -> live s p -> is_tag (hp s) p = true ->
  Forall (arg_ok s p) (map AEl cs) -> nonsoups s cs -> NoDup cs ->
  after_loop s anchor p (map AEl cs) = Ok s' ->
  nxt s' = nxt s /\
  (forall q, live s q -> q <> p -> kids (hp s' q) = others cs (kids (hp s q))) /\
  (forall c, In c cs -> par (hp s' c) = Some p) /\
  (forall y, ~ In y cs -> par (hp s' y) = par (hp s y)).
Proof.
  induction cs as [|c cs IH]; intros s anchor p s' C Lp Tp HF HK ND H.
  - cbn in H. inversion H; subst. split; [reflexivity|]. split; [intros; now rewrite others_nil|]. split; [intros c []|auto].
  - cbn [map] in HF, H. inversion HF as [|? ? Ha HF']; subst. inversion HK as [|? ? Kc HK']; subst.
    inversion ND as [|? ? Hn ND']; subst. cbn [after_loop extract_arg] in H.
    destruct (index_of anchor _) as [idx|]; [|discriminate].
    destruct (insert_args _ p (S idx) [AEl c]) as [[s2 ins]|] eqn:E2; [|discriminate].
    destruct (extract_insert_step s p (S idx) c s2 ins C Lp Tp Ha Kc E2) as (Ev & N2 & _ & O2 & P2 & Pf2).
    assert (Tp2 : is_tag (hp s2) p = true) by (rewrite (evo_tag p s s2 p Ev Lp); exact Tp).
    destruct (IH s2 _ p s' (evo_consistent _ _ _ Ev) (evo_live _ _ _ _ Ev Lp) Tp2 (Forall_arg_ok_evo _ _ _ _ Ev HF')
                 (nonsoups_evo p s s2 cs Ev (args_live s p cs HF') HK') ND' H) as (N3 & O3 & P3 & Pf3).
    split; [congruence|]. split; [|split].
    + intros q Lq Nq. rewrite (O3 q (evo_live _ _ _ _ Ev Lq) Nq), (O2 q Lq Nq). now rewrite others_cons.
    + intros c0 [<-|Hc0]; [|now apply P3]. rewrite Pf3 by exact Hn. exact P2.
    + intros y Hy. rewrite Pf3 by (intros Hi; apply Hy; now right). apply Pf2. intros ->. apply Hy. now left.
Qed.

Theorem op_insert_before_frame s self p args cs s' :
  consistent s -> wf_op s (OInsertBefore self args) -> elem_args s args cs -> par (hp s self) = Some p ->
  op_insert_before s self args = Ok s' ->
  nxt s' = nxt s /\
  (forall q, live s q -> q <> p -> kids (hp s' q) = others cs (kids (hp s q))) /\
  (forall c, In c cs -> par (hp s' c) = Some p) /\
  (forall y, ~ In y cs -> par (hp s' y) = par (hp s y)).
Proof.
  intros C (L & _ & A) (-> & ND & K) P H. unfold op_insert_before in H. rewrite P in H.
  destruct (wf_anchor_unfold s self p cs C L P A) as (A' & _ & _).
  destruct (existsb (is_self self) (map AEl cs)); [discriminate|].
  destruct (parent_facts s self p C L P) as (Lp & Tp & _).
  apply (before_loop_frame cs s self p s' C Lp Tp); auto.
  eapply Forall_impl; [|exact A']. cbv beta. tauto.
Qed.

Theorem op_insert_after_frame s self p args cs s' :
  consistent s -> wf_op s (OInsertAfter self args) -> elem_args s args cs -> par (hp s self) = Some p ->
  op_insert_after s self args = Ok s' ->
  nxt s' = nxt s /\
  (forall q, live s q -> q <> p -> kids (hp s' q) = others cs (kids (hp s q))) /\
  (forall c, In c cs -> par (hp s' c) = Some p) /\
  (forall y, ~ In y cs -> par (hp s' y) = par (hp s y)).
Proof.
  intros C (L & _ & A) (-> & ND & K) P H. unfold op_insert_after in H. rewrite P in H.
  destruct (wf_anchor_unfold s self p cs C L P A) as (A' & _ & _).
  destruct (existsb (is_self self) (map AEl cs)); [discriminate|].
  destruct (parent_facts s self p C L P) as (Lp & Tp & _).
  apply (after_loop_frame cs s self p s' C Lp Tp); auto.
  eapply Forall_impl; [|exact A']. cbv beta. tauto.
Qed.

(* ---- how many elements a call allocates: one per string argument (no hypothesis on the state) ---- *)

Fixpoint nstr (args : list arg) : nat :=
  match args with [] => 0 | AStr _ :: r => S (nstr r) | AEl _ :: r => nstr r end.

Lemma nstr_els cs : nstr (map AEl cs) = 0.
Proof. induction cs as [|c cs IH]; [reflexivity | exact IH]. Qed.

Lemma insert_arg_nxt s d pos a s' just : insert_arg s d pos a = Ok (s', just) -> nxt s' = nxt s + nstr [a].
Proof.
  intros H. destruct a as [c|t]; cbn [nstr].
  - rewrite Nat.add_0_r. unfold insert_arg in H. destruct (Nat.eqb c d); [discriminate|].
    destruct (kind (hp s c)).
    + destruct (insert1 _ _ d pos c); [|discriminate]. inversion H; reflexivity.
    + destruct (insert1 _ _ d pos c); [|discriminate]. inversion H; reflexivity.
    + eapply insert_elems_nxt; eauto.
  - unfold insert_arg, alloc in H. cbv beta iota zeta in H.
    match type of H with match ?e with _ => _ end = _ => destruct e; [|discriminate] end.
    inversion H. cbn [with_heap nxt]. lia.
Qed.

Lemma insert_args_nxt : forall args s d pos s' ins, insert_args s d pos args = Ok (s', ins) -> nxt s' = nxt s + nstr args.
Proof.
  induction args as [|a args IH]; intros s d pos s' ins H; cbn [insert_args] in H; [inversion H; cbn; lia|].
  destruct (insert_arg s d pos a) as [[s1 just]|] eqn:E1; [|discriminate].
  match type of H with match ?e with _ => _ end = _ => destruct e as [[s2 ins2]|] eqn:E; [|discriminate] end.
  inversion H; subst. apply IH in E. apply insert_arg_nxt in E1. rewrite E, E1.
  destruct a; cbn [nstr]; lia.
Qed.

Lemma op_insert_nxt s d pos args s' : op_insert s d pos args = Ok s' -> nxt s' = nxt s + nstr args.
Proof.
  unfold op_insert. destruct (insert_args s d pos args) as [[s2 ins]|] eqn:E; [|discriminate].
  intros H. inversion H; subst. eapply insert_args_nxt; eauto.
Qed.

Lemma append_all_nxt : forall args s d s', append_all s d args = Ok s' -> nxt s' = nxt s + nstr args.
Proof.
  induction args as [|a args IH]; intros s d s' H; cbn [append_all] in H; [inversion H; cbn; lia|].
  destruct (op_append s d a) as [s1|] eqn:E1; [|discriminate]. apply IH in H.
  unfold op_append in E1. apply op_insert_nxt in E1. rewrite H, E1. destruct a; cbn [nstr]; lia.
Qed.

Lemma extract_arg_nxt s a : nxt (extract_arg s a) = nxt s.
Proof. destruct a; reflexivity. Qed.

Lemma before_loop_nxt : forall args s self p s', before_loop s self p args = Ok s' -> nxt s' = nxt s + nstr args.
Proof.
  induction args as [|a args IH]; intros s self p s' H; cbn [before_loop] in H; [inversion H; cbn; lia|].
  destruct (index_of self _) as [idx|]; [|discriminate].
  destruct (insert_args _ p idx [a]) as [[s2 ins]|] eqn:E2; [|discriminate].
  apply IH in H. apply insert_args_nxt in E2. rewrite extract_arg_nxt in E2. rewrite H, E2.
  destruct a; cbn [nstr]; lia.
Qed.

Lemma after_loop_nxt : forall args s anchor p s', after_loop s anchor p args = Ok s' -> nxt s' = nxt s + nstr args.
Proof.
  induction args as [|a args IH]; intros s anchor p s' H; cbn [after_loop] in H; [inversion H; cbn; lia|].
  destruct (index_of anchor _) as [idx|]; [|discriminate].
  destruct (insert_args _ p (S idx) [a]) as [[s2 ins]|] eqn:E2; [|discriminate].
  apply IH in H. apply insert_args_nxt in E2. rewrite extract_arg_nxt in E2. rewrite H, E2.
  destruct a; cbn [nstr]; lia.
Qed.

Lemma unwrap_loop_nxt : forall cs s p idx s', unwrap_loop s p idx cs = Ok s' -> nxt s' = nxt s.
Proof.
  induction cs as [|c cs IH]; intros s p idx s' H; cbn [unwrap_loop] in H; [inversion H; reflexivity|].
  destruct (op_insert s p idx [AEl c]) as [s1|] eqn:E1; [|discriminate].
  apply IH in H. apply op_insert_nxt in E1. cbn [nstr] in E1. lia.
Qed.

Lemma op_replace_with_nxt s self args s' : op_replace_with s self args = Ok s' -> nxt s' = nxt s + nstr args.
Proof.
  unfold op_replace_with. destruct (par (hp s self)) as [p|]; [|discriminate].
  assert (G : (if existsb (is_self p) args then ValueError else
               match index_of self (kids (hp s p)) with
               | None => ValueError
               | Some my_index => op_insert (with_heap s (extract (fuel_of s) (hp s) self)) p my_index args
               end) = Ok s' -> nxt s' = nxt s + nstr args).
  { destruct (existsb (is_self p) args); [discriminate|]. destruct (index_of self (kids (hp s p))); [|discriminate].
    intros H. apply op_insert_nxt in H. exact H. }
  destruct args as [|[y|t] [|a2 rest]]; try exact G.
  destruct (Nat.eqb y self); [intros H; inversion H; cbn; lia|].
  destruct (Nat.eqb y p); [discriminate|]. destruct (index_of self (kids (hp s p))); [|discriminate].
  intros H. apply op_insert_nxt in H. exact H.
Qed.

Definition fresh_count (o : op) : option nat :=
  match o with
  | OAlloc _ _ | OSetString _ _ => Some 1
  | OInsert _ _ args | OExtendList _ args | OInsertBefore _ args | OInsertAfter _ args | OReplaceWith _ args =>
      Some (nstr args)
  | OAppend _ a => Some (nstr [a])
  | OSmooth _ => None              (* one new string per merged pair *)
  | _ => Some 0
  end.

(* the number of fresh ids is the number of string arguments (1 for .string= and for an allocation) *)
Theorem op_fresh_count s o s' n : apply_op s o = Ok s' -> fresh_count o = Some n -> nxt s' = nxt s + n.
Proof.
  destruct o as [k t|self pos args|self a|self other|self args|self args|self args|x|self args|self w|self|x|self d|self t|self];
    cbn [apply_op fresh_count]; intros E F; inversion F; subst n; clear F.
  - inversion E. cbn. lia.
  - now apply op_insert_nxt in E.
  - unfold op_append in E. now apply op_insert_nxt in E.
  - unfold op_extend_tag in E. apply append_all_nxt in E. now rewrite nstr_els in E.
  - unfold op_extend_list in E. now apply append_all_nxt in E.
  - unfold op_insert_before in E. destruct (par (hp s self)); [|discriminate].
    destruct (existsb _ args); [discriminate|]. now apply before_loop_nxt in E.
  - unfold op_insert_after in E. destruct (par (hp s self)); [|discriminate].
    destruct (existsb _ args); [discriminate|]. now apply after_loop_nxt in E.
  - unfold op_extract in E. inversion E. cbn. lia.
  - exact (op_replace_with_nxt _ _ _ _ E).
  - unfold op_wrap in E. destruct (op_replace_with s self [AEl w]) as [s2|] eqn:E2; [|discriminate].
    apply op_replace_with_nxt in E2. unfold op_append in E. apply op_insert_nxt in E. cbn [nstr] in *. lia.
  - unfold op_unwrap in E. destruct (par (hp s self)); [|discriminate]. destruct (index_of self _); [|discriminate].
    apply unwrap_loop_nxt in E. cbn [with_heap nxt] in E. lia.
  - unfold op_decompose in E. inversion E. cbn. lia.
  - unfold op_clear in E. inversion E. cbn. lia.
  - unfold op_set_string in E. cbn [op_clear] in E. unfold alloc in E. cbv beta iota zeta in E.
    unfold op_append in E. apply op_insert_nxt in E. cbn [nstr with_heap nxt] in E. lia.
Qed.

(* ---- Tag.insert with strings and elements mixed: the new strings get the next free ids, in order ---- *)

(* the ids the arguments stand for: an element stands for itself, the k-th string for the k-th fresh id *)
Fixpoint arg_ids (n : nat) (args : list arg) : list nat :=
  match args with
  | [] => []
  | AEl c :: r => c :: arg_ids n r
  | AStr _ :: r => n :: arg_ids (S n) r
  end.

Lemma arg_ids_els cs n : arg_ids n (map AEl cs) = cs.
Proof. induction cs as [|c cs IH]; [reflexivity|]. cbn [map arg_ids]. now rewrite IH. Qed.

Lemma arg_ids_in : forall args n y, In y (arg_ids n args) -> In y (els args) \/ n <= y.
Proof.
  induction args as [|[c|t] args IH]; intros n y H; cbn [arg_ids] in H; [contradiction| |].
  - destruct H as [<-|H]; [left; now left|]. destruct (IH n y H) as [H1|H1]; [left; now right | now right].
  - destruct H as [<-|H]; [right; lia|]. destruct (IH (S n) y H) as [H1|H1]; [now left | right; lia].
Qed.

Lemma arg_ids_nodup : forall args n, NoDup (els args) -> (forall c, In c (els args) -> c < n) -> NoDup (arg_ids n args).
Proof.
  induction args as [|[c|t] args IH]; intros n ND Hlt; cbn [arg_ids]; [constructor| |].
  - cbn [els flat_map app] in ND, Hlt. inversion ND as [|? ? Hn ND']; subst. constructor.
    + intros H. destruct (arg_ids_in args n c H) as [H1|H1]; [contradiction|]. specialize (Hlt c (or_introl eq_refl)). lia.
    + apply IH; [exact ND'|]. intros c0 Hc0. apply Hlt. now right.
  - cbn [els flat_map app] in ND, Hlt. constructor.
    + intros H. destruct (arg_ids_in args (S n) n H) as [H1|H1]; [|lia]. specialize (Hlt n H1). lia.
    + apply IH; [exact ND|]. intros c0 Hc0. specialize (Hlt c0 Hc0). lia.
Qed.

Lemma insert_arg_as_op s d pos c s1 just : insert_arg s d pos (AEl c) = Ok (s1, just) -> op_insert s d pos [AEl c] = Ok s1.
Proof. intros H. unfold op_insert. cbn [insert_args]. rewrite H. reflexivity. Qed.

Lemma insert_arg_el_just s d pos c s1 just : insert_arg s d pos (AEl c) = Ok (s1, just) -> kind (hp s c) <> KSoup -> just = [c].
Proof.
  intros H K. unfold insert_arg in H. destruct (Nat.eqb c d); [discriminate|].
  destruct (kind (hp s c)) eqn:Ek; try congruence;
    destruct (insert1 (fuel_of s) (hp s) d pos c); try discriminate; inversion H; reflexivity.
Qed.

Lemma insert_arg_str_as_el s d pos t : nxt s <> d ->
  insert_arg s d pos (AStr t) = insert_arg (fst (alloc s (KStr false) t)) d pos (AEl (nxt s)).
Proof.
  intros N. cbn [insert_arg]. unfold alloc. cbn [fst hp nxt].
  apply Nat.eqb_neq in N. rewrite N. rewrite upd_same. cbn [blank kind]. reflexivity.
Qed.

Lemma insert_args_mixed : forall args s d pos s' ins,
  consistent s -> live s d -> is_tag (hp s) d = true -> Forall (arg_ok s d) args -> Forall (nonsoup s) args ->
  insert_args s d pos args = Ok (s', ins) ->
  ins = arg_ids (nxt s) args /\
  kids (hp s' d) = kmove_all pos (arg_ids (nxt s) args) (kids (hp s d)) /\
  (forall q, live s q -> q <> d -> kids (hp s' q) = others (arg_ids (nxt s) args) (kids (hp s q))) /\
  (forall c, In c (arg_ids (nxt s) args) -> par (hp s' c) = Some d) /\
  (forall y, y < nxt s -> ~ In y (arg_ids (nxt s) args) -> par (hp s' y) = par (hp s y)) /\
  into d s s'.
Proof.
  induction args as [|a args IH]; intros s d pos s' ins C Ld Td HF HK H.
  - cbn in H. inversion H; subst. cbn [arg_ids kmove_all]. split; [reflexivity|]. split; [reflexivity|].
    split; [intros; now rewrite others_nil|]. split; [intros c []|]. split; [auto | now apply into_refl].
  - inversion HF as [|? ? Ha HF']; subst. inversion HK as [|? ? Ka HK']; subst. cbn [insert_args] in H.
    destruct (insert_arg s d pos a) as [[s1 just]|] eqn:E1; [|discriminate].
    (* one step: the id x the argument stands for, placed from the (possibly extended) state s0 *)
    assert (Step : exists x, arg_ids (nxt s) (a :: args) = x :: arg_ids (nxt s1) args /\ just = [x] /\
              into d s s1 /\ kids (hp s1 d) = kmove pos x (kids (hp s d)) /\
              (forall q, live s q -> q <> d -> kids (hp s1 q) = drop x (kids (hp s q))) /\
              par (hp s1 x) = Some d /\ (forall y, y < nxt s -> y <> x -> par (hp s1 y) = par (hp s y)) /\
              x < nxt s1).
    { destruct a as [c|t].
      - cbn [nonsoup] in Ka. pose proof (insert_arg_el_just _ _ _ _ _ _ E1 Ka) as ->.
        destruct (insert_one_step s d pos c s1 C Ld Td Ha Ka (insert_arg_as_op _ _ _ _ _ _ E1)) as (I & N & K & O & P & Pf).
        exists c. cbn [arg_ids]. rewrite N. split; [reflexivity|]. split; [reflexivity|]. split; [exact I|].
        split; [exact K|]. split; [exact O|]. split; [exact P|]. split; [intros y _ Ny; now apply Pf|].
        destruct Ha as [[Lc _] _]. lia.
      - assert (Nd : nxt s <> d) by (destruct Ld; lia).
        rewrite (insert_arg_str_as_el s d pos t Nd) in E1.
        pose proof (alloc_into d s (KStr false) t C Ld) as HA. cbv zeta in HA.
        destruct HA as (I0 & _ & Lx & Hcell & Nx). change (snd (alloc s (KStr false) t)) with (nxt s) in *.
        remember (fst (alloc s (KStr false) t)) as s0 eqn:Es0. pose proof I0 as [E0 _].
        assert (Hsame : forall y, y <> nxt s -> hp s0 y = hp s y).
        { intros y Hy. subst s0. unfold alloc. cbn [fst hp]. now apply upd_other. }
        assert (N0 : nxt s0 = S (nxt s)) by (subst s0; reflexivity).
        pose proof (evo_consistent _ _ _ E0) as C0. pose proof (evo_live _ _ _ _ E0 Ld) as Ld0.
        assert (T0 : is_tag (hp s0) d = true) by (rewrite (evo_tag d s s0 d E0 Ld); exact Td).
        assert (Kx : kind (hp s0 (nxt s)) <> KSoup) by (rewrite Hcell; discriminate).
        pose proof (insert_arg_el_just _ _ _ _ _ _ E1 Kx) as ->.
        destruct (insert_one_step s0 d pos (nxt s) s1 C0 Ld0 T0 (conj Lx Nx) Kx (insert_arg_as_op _ _ _ _ _ _ E1))
          as (I & N & K & O & P & Pf).
        exists (nxt s). cbn [arg_ids]. rewrite N, N0. split; [reflexivity|]. split; [reflexivity|].
        split; [eapply into_trans; eauto|]. split; [rewrite K, (Hsame d) by auto; reflexivity|].
        split; [|split; [exact P|split; [|lia]]].
        + intros q Lq Nq. rewrite (O q (evo_live _ _ _ _ E0 Lq) Nq), (Hsame q); [reflexivity | destruct Lq; lia].
        + intros y Hy Ny. rewrite (Pf y Ny). now rewrite Hsame by exact Ny. }
    destruct Step as (x & Eids & -> & I1 & K1 & O1 & P1 & Pf1 & Lx1). cbn [last_opt rev app] in H.
    pose proof I1 as [Ev1 _]. pose proof (evo_consistent _ _ _ Ev1) as C1. pose proof (evo_live _ _ _ _ Ev1 Ld) as Ld1.
    assert (Td1 : is_tag (hp s1) d = true) by (rewrite (evo_tag d s s1 d Ev1 Ld); exact Td).
    assert (HK1 : Forall (nonsoup s1) args).
    { rewrite Forall_forall in HF', HK' |- *. intros [y|t'] Hy; cbn [nonsoup]; [|exact I].
      destruct (HF' _ Hy) as [[Ly _] _]. rewrite (evo_kind d s s1 y Ev1 Ly). exact (HK' _ Hy). }
    match type of H with match ?e with _ => _ end = _ => destruct e as [[s2 ins2]|] eqn:E2; [|discriminate] end.
    inversion H; subst s2 ins. clear H.
    destruct (IH s1 d _ s' ins2 C1 Ld1 Td1 (Forall_arg_ok_evo _ _ _ _ Ev1 HF') HK1 E2) as (-> & K2 & O2 & P2 & Pf2 & I2).
    rewrite Eids. assert (Nle : nxt s <= nxt s1) by (destruct Ev1 as (_ & N & _); exact N).
    split; [reflexivity|]. split; [|split; [|split; [|split]]].
    + rewrite K2. cbn [kmove_all]. now rewrite K1.
    + intros q Lq Nq. rewrite (O2 q (evo_live _ _ _ _ Ev1 Lq) Nq), (O1 q Lq Nq). now rewrite others_cons.
    + intros c [<-|Hc]; [|now apply P2]. destruct I2 as [_ Q2]. destruct (Q2 x Lx1) as [Q|Q]; rewrite Q; auto.
    + intros y Hy Hn. rewrite Pf2; [apply Pf1; [exact Hy|] | lia |]; intros Hi; apply Hn; [left; now symmetry | now right].
    + eapply into_trans; eauto.
Qed.

(* the documented effect of insert for arguments that are strings or non-BeautifulSoup elements *)
Theorem op_insert_mixed_documented s self pos args s' :
  consistent s -> wf_op s (OInsert self pos args) -> Forall (nonsoup s) args -> NoDup (els args) ->
  op_insert s self pos args = Ok s' ->
  let ids := arg_ids (nxt s) args in
  nxt s' = nxt s + nstr args /\
  kids (hp s' self) = splice_spec pos ids (kids (hp s self)) /\
  (forall q, live s q -> q <> self -> kids (hp s' q) = others ids (kids (hp s q))) /\
  (forall c, In c ids -> par (hp s' c) = Some self) /\
  (forall y, y < nxt s -> ~ In y ids -> par (hp s' y) = par (hp s y)).
Proof.
  intros C (L & T & A) K ND H. cbv zeta. split; [exact (op_insert_nxt _ _ _ _ _ H)|].
  unfold op_insert in H. destruct (insert_args s self pos args) as [[s2 ins]|] eqn:E; [|discriminate]. inversion H; subst s2.
  destruct (insert_args_mixed args s self pos s' ins C L T A K E) as (_ & K' & O & P & Pf & _).
  split; [|auto]. rewrite K'. apply kmove_all_spec; [|now apply kids_NoDup].
  apply arg_ids_nodup; [exact ND|]. intros c Hc. unfold els in Hc. apply in_flat_map in Hc.
  destruct Hc as ([y|t] & Hy & Hy'); [|contradiction]. destruct Hy' as [<-|[]].
  rewrite Forall_forall in A. destruct (A _ Hy) as [[Ly _] _]. exact Ly.
Qed.

(* ---- extend / insert_before / insert_after / replace_with with strings and elements mixed ---- *)

Definition arg_id (n : nat) (a : arg) : nat := match a with AEl c => c | AStr _ => n end.

Lemma arg_ids_cons n a args : arg_ids n (a :: args) = arg_id n a :: arg_ids (n + nstr [a]) args.
Proof. destruct a; cbn [arg_ids arg_id nstr]; [now rewrite Nat.add_0_r | now rewrite Nat.add_1_r]. Qed.

Lemma nonsoup_evo d s s' args : evo d s s' -> Forall (arg_ok s d) args -> Forall (nonsoup s) args -> Forall (nonsoup s') args.
Proof.
  intros Ev HF HK. rewrite Forall_forall in HF, HK |- *. intros [y|t'] Hy; cbn [nonsoup]; [|exact I].
  destruct (HF _ Hy) as [[Ly _] _]. rewrite (evo_kind d s s' y Ev Ly). exact (HK _ Hy).
Qed.

Lemma els_lt s d args : Forall (arg_ok s d) args -> forall c, In c (els args) -> c < nxt s.
Proof.
  intros A c Hc. unfold els in Hc. apply in_flat_map in Hc.
  destruct Hc as ([y|t] & Hy & Hy'); [|contradiction]. destruct Hy' as [<-|[]].
  rewrite Forall_forall in A. destruct (A _ Hy) as [[Ly _] _]. exact Ly.
Qed.

(* one _insert of one argument (string or non-BeautifulSoup element) *)
Lemma insert_args_one s d pos a s1 ins :
  consistent s -> live s d -> is_tag (hp s) d = true -> arg_ok s d a -> nonsoup s a ->
  insert_args s d pos [a] = Ok (s1, ins) ->
  ins = [arg_id (nxt s) a] /\ nxt s1 = nxt s + nstr [a] /\ arg_id (nxt s) a < nxt s1 /\ into d s s1 /\
  kids (hp s1 d) = kmove pos (arg_id (nxt s) a) (kids (hp s d)) /\
  (forall q, live s q -> q <> d -> kids (hp s1 q) = drop (arg_id (nxt s) a) (kids (hp s q))) /\
  par (hp s1 (arg_id (nxt s) a)) = Some d /\
  (forall y, y < nxt s -> y <> arg_id (nxt s) a -> par (hp s1 y) = par (hp s y)).
Proof.
  intros C L T A K H.
  destruct (insert_args_mixed [a] s d pos s1 ins C L T (Forall_cons _ A (Forall_nil _)) (Forall_cons _ K (Forall_nil _)) H)
    as (E & K1 & O & P & Pf & I).
  assert (Eid : arg_ids (nxt s) [a] = [arg_id (nxt s) a]) by (destruct a; reflexivity).
  rewrite Eid in *. pose proof (insert_args_nxt _ _ _ _ _ _ H) as N.
  split; [exact E|]. split; [exact N|]. split.
  { rewrite N. destruct a as [c|t]; cbn [arg_id nstr]; [destruct A as [[Lc _] _]; lia | lia]. }
  split; [exact I|]. split; [exact K1|]. split; [intros q Lq Nq; rewrite (O q Lq Nq); apply others_one|].
  split; [apply P; now left|]. intros y Hy Ny. apply Pf; auto. intros [H1|[]]. congruence.
Qed.

(* ---- extend(list) ---- *)

Lemma append_all_mixed : forall args s d s',
  consistent s -> live s d -> is_tag (hp s) d = true -> Forall (arg_ok s d) args -> Forall (nonsoup s) args ->
  NoDup (arg_ids (nxt s) args) ->
  append_all s d args = Ok s' ->
  into d s s' /\
  kids (hp s' d) = others (arg_ids (nxt s) args) (kids (hp s d)) ++ arg_ids (nxt s) args /\
  (forall q, live s q -> q <> d -> kids (hp s' q) = others (arg_ids (nxt s) args) (kids (hp s q))) /\
  (forall c, In c (arg_ids (nxt s) args) -> par (hp s' c) = Some d) /\
  (forall y, y < nxt s -> ~ In y (arg_ids (nxt s) args) -> par (hp s' y) = par (hp s y)).
Proof.
  induction args as [|a args IH]; intros s d s' C Ld Td HF HK ND H.
  - cbn in H. inversion H; subst. cbn [arg_ids]. split; [now apply into_refl|]. rewrite others_nil, app_nil_r.
    split; [reflexivity|]. split; [intros; now rewrite others_nil|]. split; [intros c []|auto].
  - inversion HF as [|? ? Ha HF']; subst. inversion HK as [|? ? Ka HK']; subst.
    cbn [append_all] in H. unfold op_append, op_insert in H.
    destruct (insert_args s d (length (kids (hp s d))) [a]) as [[s1 ins]|] eqn:E1; [|discriminate].
    destruct (insert_args_one s d _ a s1 ins C Ld Td Ha Ka E1) as (_ & N1 & Lx & I1 & K1 & O1 & P1 & Pf1).
    rewrite arg_ids_cons in ND |- *. rewrite <- N1 in *. remember (arg_id (nxt s) a) as x eqn:Ex.
    inversion ND as [|? ? Hn ND']; subst.
    pose proof I1 as [Ev1 _]. pose proof (evo_consistent _ _ _ Ev1) as C1. pose proof (evo_live _ _ _ _ Ev1 Ld) as Ld1.
    assert (Td1 : is_tag (hp s1) d = true) by (rewrite (evo_tag d s s1 d Ev1 Ld); exact Td).
    destruct (IH s1 d s' C1 Ld1 Td1 (Forall_arg_ok_evo _ _ _ _ Ev1 HF') (nonsoup_evo d s s1 args Ev1 HF' HK') ND' H)
      as (I2 & K2 & O2 & P2 & Pf2).
    assert (Nle : nxt s <= nxt s1) by lia.
    split; [eapply into_trans; eauto|]. split; [|split; [|split]].
    + rewrite K2, K1. rewrite kmove_end; [|now apply kids_NoDup | lia].
      rewrite others_app, (others_single _ _ Hn), others_cons, <- app_assoc. reflexivity.
    + intros q Lq Nq. rewrite (O2 q (evo_live _ _ _ _ Ev1 Lq) Nq), (O1 q Lq Nq). now rewrite others_cons.
    + intros c [<-|Hc]; [|now apply P2]. rewrite (Pf2 _ Lx Hn). exact P1.
    + intros y Hy Hny. rewrite Pf2; [apply Pf1; [exact Hy|] | lia |]; intros Hi; apply Hny; [left; now symmetry | now right].
Qed.

Theorem op_extend_list_mixed_documented s self args s' :
  consistent s -> wf_op s (OExtendList self args) -> Forall (nonsoup s) args -> NoDup (els args) ->
  op_extend_list s self args = Ok s' ->
  let ids := arg_ids (nxt s) args in
  nxt s' = nxt s + nstr args /\
  kids (hp s' self) = others ids (kids (hp s self)) ++ ids /\
  (forall q, live s q -> q <> self -> kids (hp s' q) = others ids (kids (hp s q))) /\
  (forall c, In c ids -> par (hp s' c) = Some self) /\
  (forall y, y < nxt s -> ~ In y ids -> par (hp s' y) = par (hp s y)).
Proof.
  intros C (L & T & A) K ND H. cbv zeta. unfold op_extend_list in H. split; [exact (append_all_nxt _ _ _ _ H)|].
  destruct (append_all_mixed args s self s' C L T A K (arg_ids_nodup args (nxt s) ND (els_lt s self args A)) H) as (_ & G).
  exact G.
Qed.

(* ---- insert_before / insert_after ---- *)

Lemma extract_arg_step s p a : consistent s -> arg_ok s p a ->
  evo p s (extract_arg s a) /\ nxt (extract_arg s a) = nxt s /\
  (forall q, live s q -> kids (hp (extract_arg s a) q) = drop (arg_id (nxt s) a) (kids (hp s q))) /\
  (forall y, y <> arg_id (nxt s) a -> par (hp (extract_arg s a) y) = par (hp s y)).
Proof.
  intros C A. destruct a as [c|t]; cbn [extract_arg arg_id].
  - destruct A as [Lc _]. destruct (extract_step s c C Lc) as (Ev & K & _ & Pf). cbv zeta in *.
    split; [apply Ev|]. split; [reflexivity|]. split; [exact K | exact Pf].
  - split; [now apply evo_refl|]. split; [reflexivity|]. split; [|auto].
    intros q Lq. symmetry. apply drop_notin. now apply fresh_not_kid.
Qed.

Lemma arg_id_extract s a : arg_id (nxt (extract_arg s a)) a = arg_id (nxt s) a.
Proof. now rewrite extract_arg_nxt. Qed.

(* one round of the loops of insert_before / insert_after *)
Lemma loop_round s p pos a s2 ins :
  consistent s -> live s p -> is_tag (hp s) p = true -> arg_ok s p a -> nonsoup s a ->
  insert_args (extract_arg s a) p pos [a] = Ok (s2, ins) ->
  ins = [arg_id (nxt s) a] /\ nxt s2 = nxt s + nstr [a] /\ arg_id (nxt s) a < nxt s2 /\ evo p s s2 /\
  kids (hp (extract_arg s a) p) = kremove (arg_id (nxt s) a) (kids (hp s p)) /\
  kids (hp s2 p) = kmove pos (arg_id (nxt s) a) (kremove (arg_id (nxt s) a) (kids (hp s p))) /\
  (forall q, live s q -> q <> p -> kids (hp s2 q) = drop (arg_id (nxt s) a) (kids (hp s q))) /\
  par (hp s2 (arg_id (nxt s) a)) = Some p /\
  (forall y, y < nxt s -> y <> arg_id (nxt s) a -> par (hp s2 y) = par (hp s y)).
Proof.
  intros C Lp Tp Ha Ka H. destruct (extract_arg_step s p a C Ha) as (Ev1 & N1 & K1 & Pf1).
  remember (extract_arg s a) as s1 eqn:Es1.
  pose proof (evo_consistent _ _ _ Ev1) as C1. pose proof (evo_live _ _ _ _ Ev1 Lp) as Lp1.
  assert (Tp1 : is_tag (hp s1) p = true) by (rewrite (evo_tag p s s1 p Ev1 Lp); exact Tp).
  assert (Ka1 : nonsoup s1 a).
  { pose proof (nonsoup_evo p s s1 [a] Ev1 (Forall_cons _ Ha (Forall_nil _)) (Forall_cons _ Ka (Forall_nil _))) as X.
    now inversion X. }
  destruct (insert_args_one s1 p pos a s2 ins C1 Lp1 Tp1 (arg_ok_evo _ _ _ _ Ev1 Ha) Ka1 H)
    as (E & N2 & Lx & [Ev2 _] & K2 & O2 & P2 & Pf2).
  rewrite N1 in *. 
  assert (Kp1 : kids (hp s1 p) = kremove (arg_id (nxt s) a) (kids (hp s p))).
  { rewrite (K1 p Lp). symmetry. apply kremove_drop. now apply kids_NoDup. }
  split; [exact E|]. split; [exact N2|]. split; [exact Lx|]. split; [eapply evo_trans; eauto|]. split; [exact Kp1|].
  split; [rewrite K2, Kp1; reflexivity|]. split; [|split; [exact P2|]].
  - intros q Lq Nq. rewrite (O2 q (evo_live _ _ _ _ Ev1 Lq) Nq), (K1 q Lq). apply drop_drop.
  - intros y Hy Ny. rewrite (Pf2 y Hy Ny). now apply Pf1.
Qed.

Lemma before_loop_mixed : forall args s self p s',
  consistent s -> live s p -> is_tag (hp s) p = true -> Forall (arg_ok s p) args -> Forall (nonsoup s) args ->
  NoDup (arg_ids (nxt s) args) ->
  before_loop s self p args = Ok s' ->
  kids (hp s' p) = kbefore self (arg_ids (nxt s) args) (kids (hp s p)) /\
  (forall q, live s q -> q <> p -> kids (hp s' q) = others (arg_ids (nxt s) args) (kids (hp s q))) /\
  (forall c, In c (arg_ids (nxt s) args) -> par (hp s' c) = Some p) /\
  (forall y, y < nxt s -> ~ In y (arg_ids (nxt s) args) -> par (hp s' y) = par (hp s y)).
Proof.
  induction args as [|a args IH]; intros s self p s' C Lp Tp HF HK ND H.
  - cbn in H. inversion H; subst. cbn [arg_ids kbefore]. split; [reflexivity|].
    split; [intros; now rewrite others_nil|]. split; [intros c []|auto].
  - inversion HF as [|? ? Ha HF']; subst. inversion HK as [|? ? Ka HK']; subst. cbn [before_loop] in H.
    destruct (index_of self (kids (hp (extract_arg s a) p))) as [idx|] eqn:Eidx; [|discriminate].
    destruct (insert_args (extract_arg s a) p idx [a]) as [[s2 ins]|] eqn:E2; [|discriminate].
    destruct (loop_round s p idx a s2 ins C Lp Tp Ha Ka E2) as (_ & N2 & Lx & Ev & Kp1 & K2 & O2 & P2 & Pf2).
    rewrite arg_ids_cons in ND |- *. rewrite <- N2 in *. remember (arg_id (nxt s) a) as x eqn:Ex.
    inversion ND as [|? ? Hn ND']; subst.
    assert (Tp2 : is_tag (hp s2) p = true) by (rewrite (evo_tag p s s2 p Ev Lp); exact Tp).
    destruct (IH s2 self p s' (evo_consistent _ _ _ Ev) (evo_live _ _ _ _ Ev Lp) Tp2 (Forall_arg_ok_evo _ _ _ _ Ev HF')
                 (nonsoup_evo p s s2 args Ev HF' HK') ND' H) as (K3 & O3 & P3 & Pf3).
    assert (Nle : nxt s <= nxt s2) by lia.
    split; [|split; [|split]].
    + rewrite K3, K2. cbn [kbefore]. rewrite Kp1 in Eidx. rewrite Eidx. reflexivity.
    + intros q Lq Nq. rewrite (O3 q (evo_live _ _ _ _ Ev Lq) Nq), (O2 q Lq Nq). now rewrite others_cons.
    + intros c [<-|Hc]; [|now apply P3]. rewrite (Pf3 _ Lx Hn). exact P2.
    + intros y Hy Hny. rewrite Pf3; [apply Pf2; [exact Hy|] | lia |]; intros Hi; apply Hny; [left; now symmetry | now right].
Qed.

Lemma after_loop_mixed : forall args s anchor p s',
  consistent s -> live s p -> is_tag (hp s) p = true -> Forall (arg_ok s p) args -> Forall (nonsoup s) args ->
  NoDup (arg_ids (nxt s) args) ->
  after_loop s anchor p args = Ok s' ->
  kids (hp s' p) = kafter anchor (arg_ids (nxt s) args) (kids (hp s p)) /\
  (forall q, live s q -> q <> p -> kids (hp s' q) = others (arg_ids (nxt s) args) (kids (hp s q))) /\
  (forall c, In c (arg_ids (nxt s) args) -> par (hp s' c) = Some p) /\
  (forall y, y < nxt s -> ~ In y (arg_ids (nxt s) args) -> par (hp s' y) = par (hp s y)).
Proof.
  induction args as [|a args IH]; intros s anchor p s' C Lp Tp HF HK ND H.
  - cbn in H. inversion H; subst. cbn [arg_ids kafter]. split; [reflexivity|].
    split; [intros; now rewrite others_nil|]. split; [intros c []|auto].
  - inversion HF as [|? ? Ha HF']; subst. inversion HK as [|? ? Ka HK']; subst. cbn [after_loop] in H.
    destruct (index_of anchor (kids (hp (extract_arg s a) p))) as [idx|] eqn:Eidx; [|discriminate].
    destruct (insert_args (extract_arg s a) p (S idx) [a]) as [[s2 ins]|] eqn:E2; [|discriminate].
    destruct (loop_round s p (S idx) a s2 ins C Lp Tp Ha Ka E2) as (-> & N2 & Lx & Ev & Kp1 & K2 & O2 & P2 & Pf2).
    cbn [last_opt rev app] in H.
    rewrite arg_ids_cons in ND |- *. rewrite <- N2 in *. remember (arg_id (nxt s) a) as x eqn:Ex.
    inversion ND as [|? ? Hn ND']; subst.
    assert (Tp2 : is_tag (hp s2) p = true) by (rewrite (evo_tag p s s2 p Ev Lp); exact Tp).
    destruct (IH s2 _ p s' (evo_consistent _ _ _ Ev) (evo_live _ _ _ _ Ev Lp) Tp2 (Forall_arg_ok_evo _ _ _ _ Ev HF')
                 (nonsoup_evo p s s2 args Ev HF' HK') ND' H) as (K3 & O3 & P3 & Pf3).
    assert (Nle : nxt s <= nxt s2) by lia.
    split; [|split; [|split]].
    + rewrite K3, K2. cbn [kafter]. rewrite Kp1 in Eidx. rewrite Eidx. reflexivity.
    + intros q Lq Nq. rewrite (O3 q (evo_live _ _ _ _ Ev Lq) Nq), (O2 q Lq Nq). now rewrite others_cons.
    + intros c [<-|Hc]; [|now apply P3]. rewrite (Pf3 _ Lx Hn). exact P2.
    + intros y Hy Hny. rewrite Pf3; [apply Pf2; [exact Hy|] | lia |]; intros Hi; apply Hny; [left; now symmetry | now right].
Qed.

Lemma self_not_arg_id s self args : live s self -> Forall (fun a => is_self self a = false) args ->
  ~ In self (arg_ids (nxt s) args).
Proof.
  intros L HF Hi. destruct (arg_ids_in args (nxt s) self Hi) as [H|H]; [|destruct L; lia].
  unfold els in H. apply in_flat_map in H. destruct H as ([y|t] & Hy & Hy'); [|contradiction].
  destruct Hy' as [<-|[]]. rewrite Forall_forall in HF. specialize (HF _ Hy). cbn in HF.
  rewrite Nat.eqb_refl in HF. discriminate.
Qed.

Theorem op_insert_before_mixed_documented s self p args s' :
  consistent s -> wf_op s (OInsertBefore self args) -> Forall (nonsoup s) args -> NoDup (els args) ->
  par (hp s self) = Some p -> op_insert_before s self args = Ok s' ->
  let ids := arg_ids (nxt s) args in
  nxt s' = nxt s + nstr args /\
  kids (hp s' p) = before_spec self ids (kids (hp s p)) /\
  (forall q, live s q -> q <> p -> kids (hp s' q) = others ids (kids (hp s q))) /\
  (forall c, In c ids -> par (hp s' c) = Some p) /\
  (forall y, y < nxt s -> ~ In y ids -> par (hp s' y) = par (hp s y)).
Proof.
  intros C (L & _ & A) K ND P H. cbv zeta. unfold op_insert_before in H. rewrite P in H.
  assert (A' : Forall (fun a => arg_ok s p a /\ is_self self a = false) args).
  { eapply Forall_impl; [|exact A]. intros a. now apply arg_ok_parent. }
  assert (Ap : Forall (arg_ok s p) args) by (eapply Forall_impl; [|exact A']; cbv beta; tauto).
  assert (As : Forall (fun a => is_self self a = false) args) by (eapply Forall_impl; [|exact A']; cbv beta; tauto).
  destruct (existsb (is_self self) args); [discriminate|].
  destruct (parent_facts s self p C L P) as (Lp & Tp & Hin).
  pose proof (arg_ids_nodup args (nxt s) ND (els_lt s p args Ap)) as NDi.
  destruct (before_loop_mixed args s self p s' C Lp Tp Ap K NDi H) as (K1 & G).
  split; [exact (before_loop_nxt _ _ _ _ _ H)|]. split; [|exact G].
  rewrite K1. apply kbefore_spec; auto; [now apply kids_NoDup | now apply self_not_arg_id].
Qed.

Theorem op_insert_after_mixed_documented s self p args s' :
  consistent s -> wf_op s (OInsertAfter self args) -> Forall (nonsoup s) args -> NoDup (els args) ->
  par (hp s self) = Some p -> op_insert_after s self args = Ok s' ->
  let ids := arg_ids (nxt s) args in
  nxt s' = nxt s + nstr args /\
  kids (hp s' p) = after_spec self ids (kids (hp s p)) /\
  (forall q, live s q -> q <> p -> kids (hp s' q) = others ids (kids (hp s q))) /\
  (forall c, In c ids -> par (hp s' c) = Some p) /\
  (forall y, y < nxt s -> ~ In y ids -> par (hp s' y) = par (hp s y)).
Proof.
  intros C (L & _ & A) K ND P H. cbv zeta. unfold op_insert_after in H. rewrite P in H.
  assert (A' : Forall (fun a => arg_ok s p a /\ is_self self a = false) args).
  { eapply Forall_impl; [|exact A]. intros a. now apply arg_ok_parent. }
  assert (Ap : Forall (arg_ok s p) args) by (eapply Forall_impl; [|exact A']; cbv beta; tauto).
  assert (As : Forall (fun a => is_self self a = false) args) by (eapply Forall_impl; [|exact A']; cbv beta; tauto).
  destruct (existsb (is_self self) args); [discriminate|].
  destruct (parent_facts s self p C L P) as (Lp & Tp & Hin).
  pose proof (arg_ids_nodup args (nxt s) ND (els_lt s p args Ap)) as NDi.
  destruct (after_loop_mixed args s self p s' C Lp Tp Ap K NDi H) as (K1 & G).
  split; [exact (after_loop_nxt _ _ _ _ _ H)|]. split; [|exact G].
  rewrite K1. apply kafter_spec; auto; [now apply kids_NoDup | now apply self_not_arg_id].
Qed.

(* ---- replace_with ---- *)

Lemma replace_with_as_insert_gen s self p args s' idx :
  par (hp s self) = Some p -> Forall (arg_ok s p) args -> ~ In (AEl self) args ->
  index_of self (kids (hp s p)) = Some idx -> op_replace_with s self args = Ok s' ->
  op_insert (with_heap s (extract (fuel_of s) (hp s) self)) p idx args = Ok s'.
Proof.
  intros P A Hn Eidx H. unfold op_replace_with in H. rewrite P in H.
  assert (G : (if existsb (is_self p) args then ValueError else
               match index_of self (kids (hp s p)) with
               | None => ValueError
               | Some my_index => op_insert (with_heap s (extract (fuel_of s) (hp s) self)) p my_index args
               end) = Ok s' ->
              op_insert (with_heap s (extract (fuel_of s) (hp s) self)) p idx args = Ok s').
  { rewrite (arg_ok_not_self s p _ A), Eidx. auto. }
  destruct args as [|[y|t] [|a2 rest]]; try (apply G; exact H).
  destruct (Nat.eqb_spec y self) as [->|Ny]; [exfalso; apply Hn; now left|].
  destruct (Nat.eqb y p); [discriminate|]. rewrite Eidx in H. exact H.
Qed.

Theorem op_replace_with_mixed_documented s self p args s' :
  consistent s -> wf_op s (OReplaceWith self args) -> Forall (nonsoup s) args -> NoDup (els args) ->
  ~ In (AEl self) args -> par (hp s self) = Some p -> op_replace_with s self args = Ok s' ->
  let ids := arg_ids (nxt s) args in
  nxt s' = nxt s + nstr args /\ par (hp s' self) = None /\
  kids (hp s' p) = replace_spec self ids (kids (hp s p)) /\
  (forall q, live s q -> q <> p -> kids (hp s' q) = others ids (kids (hp s q))) /\
  (forall c, In c ids -> par (hp s' c) = Some p) /\
  (forall y, y < nxt s -> y <> self -> ~ In y ids -> par (hp s' y) = par (hp s y)).
Proof.
  intros C (L & p' & P' & A) K ND Hn P H. cbv zeta. assert (p' = p) by congruence. subst p'.
  destruct (parent_facts s self p C L P) as (Lp & Tp & Hin). destruct (index_of_In _ _ Hin) as (idx & Eidx).
  pose proof (replace_with_as_insert_gen s self p args s' idx P A Hn Eidx H) as G.
  destruct (extract_step s self C L) as (Ev & K1 & P1 & Pf1). cbv zeta in *.
  remember (with_heap s (extract (fuel_of s) (hp s) self)) as s1 eqn:Es1.
  assert (N1 : nxt s1 = nxt s) by (subst s1; reflexivity).
  pose proof (evo_consistent _ _ _ (Ev p)) as C1. pose proof (evo_live _ _ _ _ (Ev p) Lp) as Lp1.
  assert (Tp1 : is_tag (hp s1) p = true) by (rewrite (evo_tag p s s1 p (Ev p) Lp); exact Tp).
  unfold op_insert in G. destruct (insert_args s1 p idx args) as [[s2 ins]|] eqn:E; [|discriminate]. inversion G; subst s2.
  destruct (insert_args_mixed args s1 p idx s' ins C1 Lp1 Tp1 (Forall_arg_ok_evo _ _ _ _ (Ev p) A)
              (nonsoup_evo p s s1 args (Ev p) A K) E) as (_ & K2 & O2 & P2 & Pf2 & _).
  rewrite N1 in *.
  assert (Hself : ~ In self (arg_ids (nxt s) args)).
  { intros Hi. destruct (arg_ids_in args (nxt s) self Hi) as [H0|H0]; [|destruct L; lia].
    unfold els in H0. apply in_flat_map in H0. destruct H0 as ([y|t] & Hy & Hy'); [|contradiction].
    destruct Hy' as [<-|[]]. contradiction. }
  split; [exact (op_replace_with_nxt _ _ _ _ H)|]. split; [rewrite (Pf2 self (proj1 L) Hself); exact P1|].
  split; [|split; [|split; [exact P2|]]].
  - rewrite K2. rewrite (K1 p Lp), <- (kremove_drop self _ (kids_NoDup s p C Lp)). unfold kremove. rewrite Eidx.
    assert (Er : kmove_all idx (arg_ids (nxt s) args) (remove_at idx (kids (hp s p))) =
                 kreplace self (arg_ids (nxt s) args) (kids (hp s p))) by (unfold kreplace; now rewrite Eidx).
    rewrite Er. apply kreplace_spec; auto; [|now apply kids_NoDup].
    apply arg_ids_nodup; [exact ND | exact (els_lt s p args A)].
  - intros q Lq Nq. rewrite (O2 q (evo_live _ _ _ _ (Ev p) Lq) Nq), (K1 q Lq).
    rewrite (drop_not_kid s q self C Lq); [reflexivity | congruence].
  - intros y Hy Ny Hi. rewrite (Pf2 y Hy Hi). now apply Pf1.
Qed.

(* ---- clear(decompose=True): what happens to the survivors ---- *)

Lemma clear_true_cells self : forall cs s, consistent s -> NoDup cs ->
  Forall (fun c => live s c /\ par (hp s c) = Some self) cs ->
  forall z, live s z -> (forall c, In c cs -> ~ anc (hp s) c z) ->
  kids (fold_left (fun h c => decompose_h (fuel_of s) h c) cs (hp s) z) = others cs (kids (hp s z)) /\
  par (fold_left (fun h c => decompose_h (fuel_of s) h c) cs (hp s) z) = par (hp s z).
Proof.
  induction cs as [|c cs IH]; intros s C ND HF z Lz Hz.
  - cbn [fold_left]. now rewrite others_nil.
  - inversion HF as [|? ? [Lc Pc] HF']; subst. inversion ND as [|? ? Hn ND']; subst. cbn [fold_left].
    pose proof C as [F CF]. destruct (decompose_cons F s c CF Lc) as (F' & C' & Hfr).
    pose proof (decompose_live F s c CF Lc) as Hlive.
    remember (with_heap s (decompose_h (fuel_of s) (hp s) c)) as s1 eqn:Es1.
    assert (Hcell : forall y, ~ anc (hp s) c y -> hp s1 y = extract (fuel_of s) (hp s) c y).
    { intros y Hy. subst s1. cbn [with_heap hp]. now apply Hfr. }
    assert (Hpar1 : forall y, ~ anc (hp s) c y -> par (hp s1 y) = par (hp s y)).
    { intros y Hy. rewrite (Hcell y Hy). apply extract_par_other. intros ->. apply Hy. constructor. }
    assert (HF1 : Forall (fun c0 => live s1 c0 /\ par (hp s1 c0) = Some self) cs).
    { apply Forall_forall. intros c0 Hc0. rewrite Forall_forall in HF'. destruct (HF' c0 Hc0) as [L0 P0].
      assert (N0 : c0 <> c) by (intros ->; contradiction).
      assert (Hna : ~ anc (hp s) c c0).
      { intros H. apply anc_inv in H. destruct H as [H|(q & Pq & H)]; [congruence|].
        rewrite P0 in Pq. inversion Pq; subst q. exact (acyclic s c self C Lc Pc H). }
      split; [subst s1; apply Hlive; split; assumption|]. rewrite (Hpar1 c0 Hna). exact P0. }
    assert (Hzc : ~ anc (hp s) c z) by (apply Hz; now left).
    assert (Lz1 : live s1 z) by (subst s1; apply Hlive; split; assumption).
    assert (Hz1 : forall c0, In c0 cs -> ~ anc (hp s1) c0 z).
    { intros c0 Hc0 Ha. apply (Hz c0 (or_intror Hc0)).
      apply (anc_agree (hp s) (hp s1) c0 z); [|exact Ha].
      intros y Hy. apply Hpar1. intros Hcy. apply Hzc. eapply anc_trans; eauto. }
    pose proof (IH s1 (ex_intro _ F' C') ND' HF1 z Lz1 Hz1) as G.
    assert (G' : kids (fold_left (fun h c0 => decompose_h (fuel_of s) h c0) cs (decompose_h (fuel_of s) (hp s) c) z) =
                 others cs (kids (hp s1 z)) /\
                 par (fold_left (fun h c0 => decompose_h (fuel_of s) h c0) cs (decompose_h (fuel_of s) (hp s) c) z) = par (hp s1 z))
      by (subst s1; exact G).
    destruct G' as [G1 G2]. split.
    + rewrite G1, (Hcell z Hzc), (extract_kids_at s c z C Lz Lc), (kremove_drop c _ (kids_NoDup s z C Lz)).
      now rewrite others_cons.
    + rewrite G2. now apply Hpar1.
Qed.

(* clear(decompose=True): self ends up childless; the elements that survive (self, and everything not below
   self) keep their child lists and parents *)
Theorem op_clear_true_documented s self s' : consistent s -> live s self -> op_clear s self true = Ok s' ->
  kids (hp s' self) = [] /\ par (hp s' self) = par (hp s self) /\
  (forall q, live s q -> ~ anc (hp s) self q -> kids (hp s' q) = kids (hp s q) /\ par (hp s' q) = par (hp s q)).
Proof.
  intros C L E. unfold op_clear in E. inversion E; subst s'. clear E. cbn [with_heap hp].
  assert (HF : Forall (fun c => live s c /\ par (hp s c) = Some self) (kids (hp s self))).
  { apply Forall_forall. intros c Hc. apply (kids_facts s self c C L Hc). }
  pose proof (clear_true_cells self (kids (hp s self)) s C (kids_NoDup s self C L) HF) as G.
  assert (Hs : forall c, In c (kids (hp s self)) -> ~ anc (hp s) c self).
  { intros c Hc. rewrite Forall_forall in HF. destruct (HF c Hc) as [Lc Pc]. exact (acyclic s c self C Lc Pc). }
  destruct (G self L Hs) as [K1 P1]. split; [rewrite K1; apply others_self|]. split; [exact P1|].
  intros q Lq Hq.
  assert (Hqc : forall c, In c (kids (hp s self)) -> ~ anc (hp s) c q).
  { intros c Hc Ha. apply Hq. rewrite Forall_forall in HF. destruct (HF c Hc) as [_ Pc]. eapply anc_up; eauto. }
  destruct (G q Lq Hqc) as [K2 P2]. split; [|exact P2]. rewrite K2.
  apply others_not_kids; auto. intros c Hc Pq. rewrite Forall_forall in HF. destruct (HF c Hc) as [_ Pc].
  assert (q = self) by congruence. subst q. apply Hq. constructor.
Qed.

(* ---- along histories: one place per element, always ---- *)

Corollary history_one_place ops s : consistent s ->
  let s' := run_history s ops in
  (forall p x, live s' p -> (In x (kids (hp s' p)) <-> live s' x /\ par (hp s' x) = Some p)) /\
  (forall p, live s' p -> NoDup (kids (hp s' p))) /\
  (forall p q x, live s' p -> live s' q -> In x (kids (hp s' p)) -> In x (kids (hp s' q)) -> p = q).
Proof.
  intros C. cbv zeta. destruct (one_place _ (history_consistent ops s C)) as (H1 & H2 & H3 & _). auto.
Qed.

(* ------------------------------------------------------------------------------------------ *)
(* C. conservation with no hypothesis on the state or on the call                             *)
(* ------------------------------------------------------------------------------------------ *)

(* s' has the cells of s with the same static fields, plus fresh live cells *)
Definition grows (s s' : st) : Prop :=
  nxt s <= nxt s' /\ (forall y, y < nxt s -> meta (hp s' y) = meta (hp s y)) /\
  (forall y, nxt s <= y < nxt s' -> dead (hp s' y) = false).

Lemma grows_refl s : grows s s.
Proof. split; [lia|]. split; [auto|]. intros y Hy. lia. Qed.

Lemma grows_trans s1 s2 s3 : grows s1 s2 -> grows s2 s3 -> grows s1 s3.
Proof.
  intros (N1 & M1 & F1) (N2 & M2 & F2). split; [lia|]. split.
  - intros y Hy. rewrite M2 by lia. now apply M1.
  - intros y Hy. destruct (Nat.lt_ge_cases y (nxt s2)) as [H|H].
    + rewrite (meta_dead _ _ (M2 y H)). apply F1. lia.
    + apply F2. lia.
Qed.

Lemma grows_heap s h : (forall y, meta (h y) = meta (hp s y)) -> grows s (with_heap s h).
Proof. intros M. split; [cbn; lia|]. split; [intros y _; apply M|]. cbn [with_heap nxt]. intros y Hy. lia. Qed.

Lemma grows_alloc s k t : grows s (fst (alloc s k t)).
Proof.
  unfold alloc. cbn [fst]. split; [cbn; lia|]. cbn [hp nxt]. split.
  - intros y Hy. rewrite upd_other by lia. reflexivity.
  - intros y Hy. assert (y = nxt s) by lia. subst y. rewrite upd_same. reflexivity.
Qed.

Lemma grows_extract s x : grows s (with_heap s (extract (fuel_of s) (hp s) x)).
Proof. apply grows_heap. intros y. apply extract_meta. Qed.

Lemma grows_insert1 s d pos c h : insert1 (fuel_of s) (hp s) d pos c = Some h -> grows s (with_heap s h).
Proof. intros H. apply grows_heap. apply (insert1_frame _ _ _ _ _ _ H). Qed.

Lemma insert_elems_grows : forall cs s d pos s' ins, insert_elems s d pos cs = Ok (s', ins) -> grows s s'.
Proof.
  induction cs as [|c cs IH]; intros s d pos s' ins H; cbn [insert_elems] in H; [inversion H; apply grows_refl|].
  destruct (insert1 (fuel_of s) (hp s) d pos c) as [h|] eqn:E1; [|discriminate]. cbv zeta in H.
  match type of H with match ?e with _ => _ end = _ => destruct e as [[s2 ins2]|] eqn:E; [|discriminate] end.
  inversion H; subst. eapply grows_trans; [eapply grows_insert1; eauto | eapply IH; eauto].
Qed.

Lemma insert_arg_grows s d pos a s' just : insert_arg s d pos a = Ok (s', just) -> grows s s'.
Proof.
  intros H. destruct a as [c|t].
  - unfold insert_arg in H. destruct (Nat.eqb c d); [discriminate|].
    destruct (kind (hp s c)).
    + destruct (insert1 _ _ d pos c) eqn:E; [|discriminate]. inversion H; subst. eapply grows_insert1; eauto.
    + destruct (insert1 _ _ d pos c) eqn:E; [|discriminate]. inversion H; subst. eapply grows_insert1; eauto.
    + eapply insert_elems_grows; eauto.
  - cbn [insert_arg] in H. pose proof (grows_alloc s (KStr false) t) as G.
    destruct (alloc s (KStr false) t) as [s0 x]. cbn [fst] in G.
    destruct (insert1 (fuel_of s0) (hp s0) d pos x) eqn:E; [|discriminate]. inversion H; subst.
    eapply grows_trans; [exact G | eapply grows_insert1; eauto].
Qed.

Lemma insert_args_grows : forall args s d pos s' ins, insert_args s d pos args = Ok (s', ins) -> grows s s'.
Proof.
  induction args as [|a args IH]; intros s d pos s' ins H; cbn [insert_args] in H; [inversion H; apply grows_refl|].
  destruct (insert_arg s d pos a) as [[s1 just]|] eqn:E1; [|discriminate].
  match type of H with match ?e with _ => _ end = _ => destruct e as [[s2 ins2]|] eqn:E; [|discriminate] end.
  inversion H; subst. eapply grows_trans; [eapply insert_arg_grows; eauto | eapply IH; eauto].
Qed.

Lemma op_insert_grows s d pos args s' : op_insert s d pos args = Ok s' -> grows s s'.
Proof.
  unfold op_insert. destruct (insert_args s d pos args) as [[s2 ins]|] eqn:E; [|discriminate].
  intros H. inversion H; subst. eapply insert_args_grows; eauto.
Qed.

Lemma append_all_grows : forall args s d s', append_all s d args = Ok s' -> grows s s'.
Proof.
  induction args as [|a args IH]; intros s d s' H; cbn [append_all] in H; [inversion H; apply grows_refl|].
  destruct (op_append s d a) as [s1|] eqn:E1; [|discriminate].
  eapply grows_trans; [unfold op_append in E1; eapply op_insert_grows; eauto | eapply IH; eauto].
Qed.

Lemma extract_arg_grows s a : grows s (extract_arg s a).
Proof. destruct a; cbn [extract_arg]; [apply grows_extract | apply grows_refl]. Qed.

Lemma before_loop_grows : forall args s self p s', before_loop s self p args = Ok s' -> grows s s'.
Proof.
  induction args as [|a args IH]; intros s self p s' H; cbn [before_loop] in H; [inversion H; apply grows_refl|].
  destruct (index_of self _) as [idx|]; [|discriminate].
  destruct (insert_args _ p idx [a]) as [[s2 ins]|] eqn:E2; [|discriminate].
  eapply grows_trans; [apply (extract_arg_grows s a)|]. eapply grows_trans; [eapply insert_args_grows; eauto | eapply IH; eauto].
Qed.

Lemma after_loop_grows : forall args s anchor p s', after_loop s anchor p args = Ok s' -> grows s s'.
Proof.
  induction args as [|a args IH]; intros s anchor p s' H; cbn [after_loop] in H; [inversion H; apply grows_refl|].
  destruct (index_of anchor _) as [idx|]; [|discriminate].
  destruct (insert_args _ p (S idx) [a]) as [[s2 ins]|] eqn:E2; [|discriminate].
  eapply grows_trans; [apply (extract_arg_grows s a)|]. eapply grows_trans; [eapply insert_args_grows; eauto | eapply IH; eauto].
Qed.

Lemma unwrap_loop_grows : forall cs s p idx s', unwrap_loop s p idx cs = Ok s' -> grows s s'.
Proof.
  induction cs as [|c cs IH]; intros s p idx s' H; cbn [unwrap_loop] in H; [inversion H; apply grows_refl|].
  destruct (op_insert s p idx [AEl c]) as [s1|] eqn:E1; [|discriminate].
  eapply grows_trans; [eapply op_insert_grows; eauto | eapply IH; eauto].
Qed.

Lemma op_replace_with_grows s self args s' : op_replace_with s self args = Ok s' -> grows s s'.
Proof.
  unfold op_replace_with. destruct (par (hp s self)) as [p|]; [|discriminate].
  assert (G : (if existsb (is_self p) args then ValueError else
               match index_of self (kids (hp s p)) with
               | None => ValueError
               | Some my_index => op_insert (with_heap s (extract (fuel_of s) (hp s) self)) p my_index args
               end) = Ok s' -> grows s s').
  { destruct (existsb (is_self p) args); [discriminate|]. destruct (index_of self (kids (hp s p))); [|discriminate].
    intros H. eapply grows_trans; [apply grows_extract | eapply op_insert_grows; eauto]. }
  destruct args as [|[y|t] [|a2 rest]]; try exact G.
  destruct (Nat.eqb y self); [intros H; inversion H; apply grows_refl|].
  destruct (Nat.eqb y p); [discriminate|]. destruct (index_of self (kids (hp s p))); [|discriminate].
  intros H. eapply grows_trans; [apply grows_extract | eapply op_insert_grows; eauto].
Qed.

Lemma fold_extract_meta fuel : forall cs h y, meta (fold_left (fun h c => extract fuel h c) cs h y) = meta (h y).
Proof.
  induction cs as [|c cs IH]; intros h y; cbn [fold_left]; [reflexivity|]. rewrite IH. apply extract_meta.
Qed.

Lemma fold_grows {A} (f : st -> A -> st) : (forall s a, grows s (f s a)) -> forall l s, grows s (fold_left f l s).
Proof.
  intros Hf. induction l as [|a l IH]; intros s; cbn [fold_left]; [apply grows_refl|].
  eapply grows_trans; [apply Hf | apply IH].
Qed.

Lemma merge_at_grows s self i : grows s (merge_at s self i).
Proof.
  unfold merge_at. cbv zeta.
  remember (with_heap s (extract (fuel_of s) (hp s) (nth (S i) (kids (hp s self)) 0))) as s1 eqn:Es1.
  assert (G1 : grows s s1) by (subst s1; apply grows_extract).
  pose proof (grows_alloc s1 (KStr false) (txt (hp s1 (nth i (kids (hp s self)) 0)) ++ txt (hp s1 (nth (S i) (kids (hp s self)) 0)))) as G2.
  destruct (alloc s1 (KStr false) _) as [s2 n]. cbn [fst] in G2.
  destruct (op_replace_with s2 _ [AEl n]) as [s3|] eqn:E3.
  - eapply grows_trans; [exact G1|]. eapply grows_trans; [exact G2|]. eapply op_replace_with_grows; eauto.
  - eapply grows_trans; eauto.
Qed.

Lemma smooth_rec_grows : forall fuel s self, grows s (smooth_rec fuel s self).
Proof.
  induction fuel as [|f IH]; intros s self; [apply grows_refl|]. rewrite smooth_rec_S. cbv zeta.
  eapply grows_trans.
  - apply (fold_grows (fun s a => if is_tag (hp s) a then smooth_rec f s a else s)).
    intros s0 a. destruct (is_tag (hp s0) a); [apply IH | apply grows_refl].
  - apply fold_grows. intros s0 i. apply merge_at_grows.
Qed.

(* every call other than decompose / clear(decompose=True), admissible or not: the old cells keep their
   static fields, the new cells are live *)
Theorem op_grows s o s' : apply_op s o = Ok s' -> destroying o = false -> grows s s'.
Proof.
  destruct o as [k t|self pos args|self a|self other|self args|self args|self args|x|self args|self w|self|x|self d|self t|self];
    cbn [apply_op destroying]; intros E D; try discriminate.
  - inversion E; subst. apply grows_alloc.
  - eapply op_insert_grows; eauto.
  - unfold op_append in E. eapply op_insert_grows; eauto.
  - unfold op_extend_tag in E. eapply append_all_grows; eauto.
  - unfold op_extend_list in E. eapply append_all_grows; eauto.
  - unfold op_insert_before in E. destruct (par (hp s self)); [|discriminate].
    destruct (existsb _ args); [discriminate|]. eapply before_loop_grows; eauto.
  - unfold op_insert_after in E. destruct (par (hp s self)); [|discriminate].
    destruct (existsb _ args); [discriminate|]. eapply after_loop_grows; eauto.
  - unfold op_extract in E. inversion E; subst. apply grows_extract.
  - eapply op_replace_with_grows; eauto.
  - unfold op_wrap in E. destruct (op_replace_with s self [AEl w]) as [s2|] eqn:E2; [|discriminate].
    eapply grows_trans; [eapply op_replace_with_grows; eauto|]. unfold op_append in E. eapply op_insert_grows; eauto.
  - unfold op_unwrap in E. destruct (par (hp s self)); [|discriminate]. destruct (index_of self _); [|discriminate].
    eapply grows_trans; [apply grows_extract | eapply unwrap_loop_grows; eauto].
  - destruct d; [discriminate|]. unfold op_clear in E. inversion E; subst. apply grows_heap. intros y. apply fold_extract_meta.
  - unfold op_set_string in E. cbn [op_clear] in E.
    remember (with_heap s (fold_left (fun h c => extract (fuel_of s) h c) (kids (hp s self)) (hp s))) as s1 eqn:Es1.
    assert (G1 : grows s s1) by (subst s1; apply grows_heap; intros y; apply fold_extract_meta).
    pose proof (grows_alloc s1 (KStr false) t) as G2. destruct (alloc s1 (KStr false) t) as [s2 x]. cbn [fst] in G2.
    eapply grows_trans; [exact G1|]. eapply grows_trans; [exact G2|]. unfold op_append in E. eapply op_insert_grows; eauto.
  - assert (E2 : s' = smooth_rec (fuel_of s) s self) by (unfold op_smooth in E; congruence).
    rewrite E2. apply smooth_rec_grows.
Qed.

(* exactly: the live elements after the call are the live elements before it and the freshly allocated ones *)
Theorem op_live_exact s o s' : apply_op s o = Ok s' -> destroying o = false ->
  forall x, live s' x <-> live s x \/ nxt s <= x < nxt s'.
Proof.
  intros E D x. destruct (op_grows s o s' E D) as (N & M & F). unfold live. split.
  - intros [L Dx]. destruct (Nat.lt_ge_cases x (nxt s)) as [H|H]; [left|right; lia].
    split; [exact H|]. rewrite <- (meta_dead _ _ (M x H)). exact Dx.
  - intros [[L Dx]|H]; [|split; [lia | now apply F]]. split; [lia|]. rewrite (meta_dead _ _ (M x L)). exact Dx.
Qed.

(* every call, admissible or not: ids are kept, kinds and labels never change, the dead stay dead *)
Theorem op_static s o s' : apply_op s o = Ok s' ->
  nxt s <= nxt s' /\
  forall y, y < nxt s -> kind (hp s' y) = kind (hp s y) /\ txt (hp s' y) = txt (hp s y) /\
                         (dead (hp s y) = true -> dead (hp s' y) = true).
Proof.
  intros E. destruct (destroying o) eqn:D.
  - destruct o as [| | | | | | | | | | |x|self [|]| |]; try discriminate; cbn [apply_op] in E.
    + unfold op_decompose in E. inversion E; subst. cbn [with_heap nxt hp]. split; [lia|]. intros y _. apply decompose_static.
    + unfold op_clear in E. inversion E; subst. cbn [with_heap nxt hp]. split; [lia|]. intros y _.
      apply (fold_decompose_static (fuel_of s) (kids (hp s self)) (hp s) y).
  - destruct (op_grows s o s' E D) as (N & M & _). split; [exact N|]. intros y Hy.
    rewrite (meta_kind _ _ (M y Hy)), (meta_txt _ _ (M y Hy)), (meta_dead _ _ (M y Hy)). auto.
Qed.

(* over histories, exactly *)
Theorem history_live_exact : forall ops s, forallb (fun o => negb (destroying o)) ops = true ->
  forall x, live (run_history s ops) x <-> live s x \/ nxt s <= x < nxt (run_history s ops).
Proof.
  induction ops as [|o ops IH]; intros s H x; cbn [run_history fold_left].
  - split; [now left|]. intros [L|L]; [exact L | lia].
  - cbn [forallb] in H. apply andb_true_iff in H. destruct H as [H1 H2]. apply negb_true_iff in H1.
    specialize (IH (step s o) H2 x). unfold run_history in IH. rewrite IH.
    assert (St : nxt s <= nxt (step s o) /\ (live (step s o) x <-> live s x \/ nxt s <= x < nxt (step s o))).
    { destruct (step_cases s o) as [->|[W E]].
      - split; [lia|]. split; [now left|]. intros [L|L]; [exact L | lia].
      - split; [apply (op_grows s o _ E H1) | apply (op_live_exact s o _ E H1)]. }
    destruct St as [N St].
    assert (N2 : nxt (step s o) <= nxt (fold_left step ops (step s o))).
    { clear. generalize (step s o). induction ops as [|o' ops IH]; intros s0; cbn [fold_left]; [lia|].
      specialize (IH (step s0 o')).
      assert (nxt s0 <= nxt (step s0 o')).
      { destruct (step_cases s0 o') as [->|[W E]]; [lia|]. apply (op_static s0 o' _ E). }
      lia. }
    rewrite St. split.
    + intros [[L|L]|L]; [now left | right; lia | right; lia].
    + intros [L|L]; [left; now left|]. destruct (Nat.lt_ge_cases x (nxt (step s o))); [left; right; lia | right; lia].
Qed.
(* ------------------------------------------------------------------------------------------ *)
(* D. examples: the hypotheses of the theorems above are met by concrete states and calls     *)
(* ------------------------------------------------------------------------------------------ *)

(* s_ex (Proofs/EditRep.v) is the document 0[1[3 5] 2[4 6]]: 0 BeautifulSoup, 1 2 4 tags, 3 5 6 strings *)

Lemma wf_ex o : wf_op_b s_ex o = true -> wf_op s_ex o.
Proof. apply wf_op_b_sound, ex_consistent. Qed.

Definition ok_of (r : res st) : st := match r with Ok s => s | ValueError => s_empty end.
Definition shape (s : st) : list (nat * option nat * list nat * bool) :=
  map (fun x => (x, par (hp s x), kids (hp s x), dead (hp s x))) (seq 0 (nxt s)).

(* the calls used below are admissible and return *)
Example ex_calls_return :
  forallb (fun o => wf_op_b s_ex o && match apply_op s_ex o with Ok _ => true | ValueError => false end)
    [OExtract 1; OAppend 0 (AEl 1); OAppend 1 (AStr []); OExtendTag 1 2; OExtendTag 0 0; OExtendList 1 [AEl 5; AEl 4; AEl 3];
     OWrap 1 4; OWrap 2 4; OUnwrap 1; OClear 0 false; OClear 0 true; OSetString 1 []; ODecompose 1;
     OReplaceWith 1 [AEl 6; AEl 3]; OSmooth 1] = true.
Proof. vm_compute. reflexivity. Qed.

(* conservation, instantiated *)
Example ex_conserves_wrap :
  let s' := ok_of (op_wrap s_ex 1 4) in
  (forall x, live s_ex x -> live s' x) /\ (forall x, live s' x -> live s_ex x \/ nxt s_ex <= x).
Proof.
  cbv zeta. assert (E : apply_op s_ex (OWrap 1 4) = Ok (ok_of (op_wrap s_ex 1 4))) by (vm_compute; reflexivity).
  assert (W : wf_op_b s_ex (OWrap 1 4) = true) by (vm_compute; reflexivity).
  destruct (op_conserves s_ex (OWrap 1 4) _ ex_consistent (wf_ex _ W) E) as (_ & _ & B & H).
  destruct (H eq_refl) as [_ Lv]. split; [exact Lv | exact B].
Qed.

Example ex_decompose :
  let s' := ok_of (op_decompose s_ex 1) in
  forall y, live s' y <-> live s_ex y /\ ~ anc (hp s_ex) 1 y.
Proof.
  cbv zeta. assert (E : op_decompose s_ex 1 = Ok (ok_of (op_decompose s_ex 1))) by reflexivity.
  assert (L : live s_ex 1) by (apply live_b_true; vm_compute; reflexivity).
  destruct (op_decompose_conserves s_ex 1 _ ex_consistent L E) as (_ & H & _). exact H.
Qed.

(* what the model computes in these cases (the statements above predict exactly this) *)
Example ex_shapes :
  shape s_ex = [(0, None, [1; 2], false); (1, Some 0, [3; 5], false); (2, Some 0, [4; 6], false);
                (3, Some 1, [], false); (4, Some 2, [], false); (5, Some 1, [], false); (6, Some 2, [], false)] /\
  shape (ok_of (op_extract s_ex 1)) =
               [(0, None, [2], false); (1, None, [3; 5], false); (2, Some 0, [4; 6], false);
                (3, Some 1, [], false); (4, Some 2, [], false); (5, Some 1, [], false); (6, Some 2, [], false)] /\
  shape (ok_of (op_append s_ex 0 (AEl 1))) =
               [(0, None, [2; 1], false); (1, Some 0, [3; 5], false); (2, Some 0, [4; 6], false);
                (3, Some 1, [], false); (4, Some 2, [], false); (5, Some 1, [], false); (6, Some 2, [], false)] /\
  shape (ok_of (op_extend_tag s_ex 1 2)) =
               [(0, None, [1; 2], false); (1, Some 0, [3; 5; 4; 6], false); (2, Some 0, [], false);
                (3, Some 1, [], false); (4, Some 1, [], false); (5, Some 1, [], false); (6, Some 1, [], false)] /\
  shape (ok_of (op_extend_tag s_ex 0 0)) = shape s_ex /\
  shape (ok_of (op_wrap s_ex 1 4)) =
               [(0, None, [4; 2], false); (1, Some 4, [3; 5], false); (2, Some 0, [6], false);
                (3, Some 1, [], false); (4, Some 0, [1], false); (5, Some 1, [], false); (6, Some 2, [], false)] /\
  shape (ok_of (op_unwrap s_ex 1)) =
               [(0, None, [3; 5; 2], false); (1, None, [], false); (2, Some 0, [4; 6], false);
                (3, Some 0, [], false); (4, Some 2, [], false); (5, Some 0, [], false); (6, Some 2, [], false)] /\
  shape (ok_of (op_clear s_ex 0 false)) =
               [(0, None, [], false); (1, None, [3; 5], false); (2, None, [4; 6], false);
                (3, Some 1, [], false); (4, Some 2, [], false); (5, Some 1, [], false); (6, Some 2, [], false)] /\
  shape (ok_of (op_set_string s_ex 1 [])) =
               [(0, None, [1; 2], false); (1, Some 0, [7], false); (2, Some 0, [4; 6], false);
                (3, None, [], false); (4, Some 2, [], false); (5, None, [], false); (6, Some 2, [], false);
                (7, Some 1, [], false)] /\
  shape (ok_of (op_decompose s_ex 1)) =
               [(0, None, [2], false); (1, None, [], true); (2, Some 0, [4; 6], false);
                (3, None, [], true); (4, Some 2, [], false); (5, None, [], true); (6, Some 2, [], false)].
Proof. vm_compute. repeat split; reflexivity. Qed.

(* the documented-effect theorems, instantiated on these calls *)
Example ex_wrap_documented :
  let s' := ok_of (op_wrap s_ex 1 4) in
  par (hp s' 1) = Some 4 /\ par (hp s' 4) = Some 0 /\ kids (hp s' 4) = kids (hp s_ex 4) ++ [1] /\
  kids (hp s' 0) = replace_spec 1 [4] (kids (hp s_ex 0)).
Proof.
  cbv zeta. assert (E : op_wrap s_ex 1 4 = Ok (ok_of (op_wrap s_ex 1 4))) by (vm_compute; reflexivity).
  assert (K : kind (hp s_ex 1) <> KSoup) by (vm_compute; discriminate).
  assert (W : wf_op_b s_ex (OWrap 1 4) = true) by (vm_compute; reflexivity).
  assert (P : par (hp s_ex 1) = Some 0) by (vm_compute; reflexivity).
  destruct (op_wrap_documented s_ex 1 4 0 _ ex_consistent (wf_ex _ W) P K E) as (_ & H1 & H2 & H3 & H4 & _).
  split; [exact H1|]. split; [exact H2|]. split; [exact H3 | exact H4].
Qed.

Example ex_unwrap_documented :
  let s' := ok_of (op_unwrap s_ex 1) in
  par (hp s' 1) = None /\ kids (hp s' 1) = [] /\ kids (hp s' 0) = [] ++ kids (hp s_ex 1) ++ [2].
Proof.
  cbv zeta. assert (E : op_unwrap s_ex 1 = Ok (ok_of (op_unwrap s_ex 1))) by (vm_compute; reflexivity).
  assert (K : nonsoups s_ex (kids (hp s_ex 1))).
  { assert (E1 : kids (hp s_ex 1) = [3; 5]) by (vm_compute; reflexivity). rewrite E1.
    repeat constructor; vm_compute; discriminate. }
  assert (W : wf_op_b s_ex (OUnwrap 1) = true) by (vm_compute; reflexivity).
  assert (P : par (hp s_ex 1) = Some 0) by (vm_compute; reflexivity).
  destruct (op_unwrap_documented s_ex 1 0 _ ex_consistent (wf_ex _ W) P K E) as (_ & H1 & H2 & H3 & _).
  split; [exact H1|]. split; [exact H2|]. apply (H3 [] [2]). vm_compute. reflexivity.
Qed.

(* a history without destroying calls, every call of which is admissible and returns: nothing is lost *)
Definition ex_history3 : list op :=
  [OInsertBefore 3 [AEl 4; AStr []; AEl 2]; OWrap 3 4; OAlloc KTag []; OReplaceWith 1 [AEl 8; AStr []];
   OAppend 8 (AEl 1); OUnwrap 2; OSetString 4 []; OExtendTag 8 1; OInsertAfter 5 [AEl 6; AStr []];
   OSmooth 8; OExtract 7; OClear 0 false; OExtendList 2 [AEl 9; AStr []; AEl 8]].

Example ex_history3_applied :
  all_applied s_ex_parsed ex_history3 = true /\ forallb (fun o => negb (destroying o)) ex_history3 = true.
Proof. vm_compute. split; reflexivity. Qed.

Example ex_history3_conserves : forall x, live s_ex_parsed x -> live (run_history s_ex_parsed ex_history3) x.
Proof.
  apply history_conserves; [eexists; exact ex_parsed_consistent | vm_compute; reflexivity].
Qed.

(* smooth() merges two adjacent strings into a NEW string; the two old ones stay live, detached *)
Example ex_smooth_keeps :
  let s := ok_of (op_smooth s_ex 1) in
  nxt s = 8 /\ kids (hp s 1) = [7] /\ live_b s 3 = true /\ live_b s 5 = true /\
  par (hp s 3) = None /\ par (hp s 5) = None.
Proof. vm_compute. repeat split; reflexivity. Qed.

(* the naive frame statement "every element that is neither the target, its parent, nor an argument keeps its
   child list" is FALSE: the old parent of a moved argument loses it (that is the documented "an element that
   was elsewhere is first removed from there").  Here 2 is neither the target 1, nor its parent 0, nor the
   argument 4.  The frame statements above say: child list minus the arguments. *)
Example ex_frame_old_parent :
  let s' := ok_of (op_append s_ex 1 (AEl 4)) in
  wf_op_b s_ex (OAppend 1 (AEl 4)) = true /\
  kids (hp s_ex 2) = [4; 6] /\ kids (hp s' 2) = [6] /\ kids (hp s' 1) = [3; 5; 4].
Proof. vm_compute. repeat split; reflexivity. Qed.

(* insert with strings and an element mixed: the strings get ids 7 and 8 *)
Example ex_insert_mixed :
  let s' := ok_of (op_insert s_ex 1 1 [AStr []; AEl 4; AStr []]) in
  nxt s' = 9 /\ kids (hp s' 1) = [3; 7; 4; 8; 5] /\ kids (hp s' 2) = [6].
Proof.
  cbv zeta. assert (E : op_insert s_ex 1 1 [AStr []; AEl 4; AStr []] = Ok (ok_of (op_insert s_ex 1 1 [AStr []; AEl 4; AStr []])))
    by (vm_compute; reflexivity).
  assert (W : wf_op_b s_ex (OInsert 1 1 [AStr []; AEl 4; AStr []]) = true) by (vm_compute; reflexivity).
  assert (K : Forall (nonsoup s_ex) [AStr []; AEl 4; AStr []]).
  { repeat constructor. cbn [nonsoup]. vm_compute. discriminate. }
  assert (ND : NoDup (els [AStr []; AEl 4; AStr []])) by (cbn; repeat constructor; intros []).
  destruct (op_insert_mixed_documented s_ex 1 1 _ _ ex_consistent (wf_ex _ W) K ND E) as (N & K1 & O & _).
  assert (L2 : live s_ex 2) by (apply live_b_true; vm_compute; reflexivity).
  split; [rewrite N; vm_compute; reflexivity|]. split.
  - rewrite K1. vm_compute. reflexivity.
  - rewrite (O 2 L2) by discriminate. vm_compute. reflexivity.
Qed.

(* insert_before with a new string and an element taken from elsewhere: 5's parent 1 gets [3; 7; 4; 5] *)
Example ex_before_mixed :
  let s' := ok_of (op_insert_before s_ex 5 [AStr []; AEl 4]) in
  kids (hp s' 1) = [3; 7; 4; 5] /\ kids (hp s' 2) = [6] /\ par (hp s' 7) = Some 1 /\ par (hp s' 4) = Some 1.
Proof.
  cbv zeta. assert (E : op_insert_before s_ex 5 [AStr []; AEl 4] = Ok (ok_of (op_insert_before s_ex 5 [AStr []; AEl 4])))
    by (vm_compute; reflexivity).
  assert (W : wf_op_b s_ex (OInsertBefore 5 [AStr []; AEl 4]) = true) by (vm_compute; reflexivity).
  assert (K : Forall (nonsoup s_ex) [AStr []; AEl 4]).
  { repeat constructor. cbn [nonsoup]. vm_compute. discriminate. }
  assert (ND : NoDup (els [AStr []; AEl 4])) by (cbn; repeat constructor; intros []).
  assert (P : par (hp s_ex 5) = Some 1) by (vm_compute; reflexivity).
  destruct (op_insert_before_mixed_documented s_ex 5 1 _ _ ex_consistent (wf_ex _ W) K ND P E) as (_ & K1 & O & Pc & _).
  assert (L2 : live s_ex 2) by (apply live_b_true; vm_compute; reflexivity).
  assert (Ei : arg_ids (nxt s_ex) [AStr []; AEl 4] = [7; 4]) by (vm_compute; reflexivity).
  rewrite Ei in *. split; [rewrite K1; vm_compute; reflexivity|]. split; [rewrite (O 2 L2) by discriminate; vm_compute; reflexivity|].
  split; apply Pc; cbn; auto.
Qed.

(* exact liveness after a call, no hypothesis needed *)
Example ex_live_exact :
  let s' := ok_of (op_set_string s_ex 1 []) in
  forall x, live s' x <-> live s_ex x \/ 7 <= x < 8.
Proof.
  cbv zeta. assert (E : apply_op s_ex (OSetString 1 []) = Ok (ok_of (op_set_string s_ex 1 []))) by (vm_compute; reflexivity).
  intros x. rewrite (op_live_exact s_ex (OSetString 1 []) _ E eq_refl x).
  assert (N1 : nxt s_ex = 7) by (vm_compute; reflexivity).
  assert (N2 : nxt (ok_of (op_set_string s_ex 1 [])) = 8) by (vm_compute; reflexivity).
  rewrite N1, N2. reflexivity.
Qed.

Print Assumptions op_ext.
Print Assumptions op_conserves.
Print Assumptions op_conserves_b.
Print Assumptions op_decompose_conserves.
Print Assumptions op_clear_true_conserves.
Print Assumptions one_place.
Print Assumptions one_place_forest.
Print Assumptions history_static.
Print Assumptions history_conserves.
Print Assumptions history_conserves_or.
Print Assumptions op_extract_documented.
Print Assumptions op_append_documented.
Print Assumptions op_extend_list_documented.
Print Assumptions op_extend_tag_documented.
Print Assumptions op_replace_with_frame.
Print Assumptions op_wrap_documented.
Print Assumptions op_unwrap_documented.
Print Assumptions op_clear_documented.
Print Assumptions op_set_string_documented.
Print Assumptions op_decompose_documented.
Print Assumptions op_extract_subtree.
Print Assumptions op_clear_subtree.
Print Assumptions op_set_string_subtree.
Print Assumptions op_unwrap_subtree.
Print Assumptions op_replace_with_subtree.
Print Assumptions op_wrap_subtree.
Print Assumptions op_insert_before_frame.
Print Assumptions op_insert_after_frame.
Print Assumptions op_fresh_count.
Print Assumptions op_insert_mixed_documented.
Print Assumptions op_extend_list_mixed_documented.
Print Assumptions op_insert_before_mixed_documented.
Print Assumptions op_insert_after_mixed_documented.
Print Assumptions op_replace_with_mixed_documented.
Print Assumptions op_clear_true_documented.
Print Assumptions history_one_place.
Print Assumptions op_grows.
Print Assumptions op_live_exact.
Print Assumptions op_static.
Print Assumptions history_live_exact.
Print Assumptions ex_conserves_wrap.
Print Assumptions ex_decompose.
Print Assumptions ex_wrap_documented.
Print Assumptions ex_unwrap_documented.
Print Assumptions ex_history3_conserves.
Print Assumptions ex_frame_old_parent.
Print Assumptions ex_insert_mixed.
Print Assumptions ex_live_exact.
Print Assumptions ex_before_mixed.
