(* C16 — the frame machine of the theorems (Model.Strainer.zfeed) and the heap machine that follows the
   code link by link (Model.Strainer.feed_po = Model/Build.v + the two parse_only checks) build the
   same tree, for every configuration, every filter and every event sequence (well-formed or not).

   Part A: the heap machine with parse_only simulates the flat machine of Spec/BuildSpec.v extended
           with the same two checks (reusing the simulation [sim] of Proofs/BuildRefines.v).
   Part B: the flat machine with parse_only and the frame machine stay related: the flat node list is
           the pre-order listing (parent index + payload) of the frame machine's partial tree.
   Conclusion: the final heap is exactly the parent / child-list / payload encoding of zfeed's tree. *)
From Coq Require Import List NArith ZArith Bool Arith Lia.
From BS Require Import Base.Sexp Base.Types Model.Heap Model.Edit Model.Build Model.Attrs Model.Search Model.Strainer
                       Spec.BuildSpec Spec.StrainerSpec Proofs.BuildRefines Proofs.StrainerProofs.
Import ListNotations.
Local Open Scope nat_scope.

Section PartA.
  Variable pat_sem : N -> str -> bool.
  Variable fun_sem : N -> callarg -> bool.
  Variable po : option strainer.
  Variable cfg : bconfig.

  Notation rejects_tag := (rejects_tag pat_sem fun_sem po).
  Notation rejects_string := (rejects_string pat_sem fun_sem po).
  Notation end_data_po := (end_data_po pat_sem fun_sem po).
  Notation step_event_po := (step_event_po pat_sem fun_sem po).

  (* the text s_flush would store *)
  Definition s_text (s : sstate) (cls : option N) (chunks : list str) : str :=
    let text := concat (rev chunks) in
    let preserved := existsb (fun x => memS (s_name s x) (c_pw cfg)) (s_open s) in
    let special := match cls with Some c => preformatted_cls c | None => false end in
    if negb special && negb preserved && all_in (c_spaces cfg) text
    then (if memN 10%N text then [10%N] else [32%N]) else text.

  (* the documented rules with the two parse_only checks *)
  Definition s_flush_po (s : sstate) (cls : option N) : sstate :=
    match s_pending s with
    | [] => s
    | chunks =>
        if rejects_string (length (s_open s)) (s_text s cls chunks)
        then mkss (s_nodes s) (s_open s) []
        else s_flush cfg s cls
    end.
  Definition s_step_po (s : sstate) (e : event) : sstate :=
    match e with
    | EStart n p a =>
        let s' := s_flush_po s None in
        if rejects_tag (length (s_open s')) p n a then s' else s_step cfg s' (EStart n p a)
    | EEnd n p => s_step cfg (s_flush_po s None) (EEnd n p)
    | EData t => s_step cfg s (EData t)
    | EEndData c => s_flush_po s c
    end.
  Definition spec_run_po (evs : list event) : list snode :=
    s_nodes (s_flush_po (fold_left s_step_po evs (s_start cfg)) None).

  Lemma null_filter_existsb {X} (f : X -> bool) l : negb (null (filter f l)) = existsb f l.
  Proof. induction l as [|x l IH]; [reflexivity|]. cbn. destruct (f x); [reflexivity|exact IH]. Qed.

  Lemma sim_gathered b s cls chunks : sim cfg b s ->
    gathered cfg (negb (null (b_pws b))) (is_special cls) chunks = s_text s cls chunks.
  Proof.
    intros H. unfold gathered, s_text, is_special. rewrite (sim_pws_s _ _ _ H), null_filter_existsb. reflexivity.
  Qed.

  Lemma sim_drop_data b s : sim cfg b s ->
    sim cfg (mkb (b_st b) (b_pay b) (b_stack b) (b_counter b) (b_pws b) (b_scs b) [] (b_mre b) (b_cur b))
            (mkss (s_nodes s) (s_open s) []).
  Proof.
    intros H. destruct H.
    constructor; cbn [b_st b_pay b_stack b_counter b_pws b_scs b_data b_mre b_cur s_nodes s_open s_pending];
      try assumption. reflexivity.
  Qed.

  Lemma sim_end_data_po b s cls : sim cfg b s -> sim cfg (end_data_po cfg b cls) (s_flush_po s cls).
  Proof.
    intros H. unfold Strainer.end_data_po, s_flush_po. rewrite <- (sim_data _ _ _ H).
    destruct (b_data b) as [|c cs] eqn:Ed; [exact H|].
    assert (L : length (b_stack b) = length (s_open s)) by (now rewrite (sim_stack _ _ _ H)).
    rewrite (sim_gathered b s cls (c :: cs) H), L.
    destruct (rejects_string (length (s_open s)) (s_text s cls (c :: cs))).
    - now apply sim_drop_data.
    - now apply sim_end_data.
  Qed.

  Lemma end_data_po_data b cls : b_data (end_data_po cfg b cls) = [].
  Proof.
    unfold Strainer.end_data_po. destruct (b_data b) eqn:E; [exact E|].
    destruct (rejects_string _ _); [reflexivity|apply end_data_data].
  Qed.

  Lemma s_flush_po_pending s cls : s_pending (s_flush_po s cls) = [].
  Proof.
    unfold s_flush_po. destruct (s_pending s) eqn:E; [exact E|].
    destruct (rejects_string _ _); [reflexivity|]. unfold s_flush. rewrite E. reflexivity.
  Qed.

  Lemma end_data_nodata b cls : b_data b = [] -> end_data cfg b cls = b.
  Proof. intros E. unfold end_data. now rewrite E. Qed.

  Lemma sim_step_po b s e : sim cfg b s -> sim cfg (step_event_po cfg b e) (s_step_po s e).
  Proof.
    intros H. destruct e as [name prefix attrs|name prefix|t|c]; cbn [Strainer.step_event_po s_step_po].
    - unfold handle_starttag_po. cbv zeta.
      pose proof (sim_end_data_po b s None H) as H1.
      assert (L : length (b_stack (end_data_po cfg b None)) = length (s_open (s_flush_po s None)))
        by (now rewrite (sim_stack _ _ _ H1)).
      rewrite L.
      destruct (rejects_tag (length (s_open (s_flush_po s None))) prefix name attrs); [exact H1|].
      now apply sim_starttag.
    - unfold handle_endtag_po.
      pose proof (sim_end_data_po b s None H) as H1.
      pose proof (sim_step cfg _ _ (EEnd name prefix) H1) as H2. cbn [step_event] in H2.
      unfold handle_endtag in H2. rewrite (end_data_nodata _ None (end_data_po_data b None)) in H2. exact H2.
    - exact (sim_step cfg b s (EData t) H).
    - now apply sim_end_data_po.
  Qed.

  Lemma sim_fold_po evs : forall b s, sim cfg b s ->
    sim cfg (fold_left (step_event_po cfg) evs b) (fold_left s_step_po evs s).
  Proof.
    induction evs as [|e evs IH]; intros b s H; [exact H|]. cbn [fold_left]. apply IH. now apply sim_step_po.
  Qed.

  (* the heap machine with parse_only builds exactly the flat tree of the rules with parse_only *)
  Theorem feed_po_refines evs :
    let b := feed_po pat_sem fun_sem po cfg evs in
    let nodes := spec_run_po evs in
    nxt (b_st b) = length nodes /\ nodes_ok (hp (b_st b)) (b_pay b) nodes /\
    b_stack b = [0] /\ b_cur b = Some 0.
  Proof.
    intros b nodes. unfold b, nodes, feed_po, spec_run_po.
    set (b1 := end_data_po cfg (fold_left (step_event_po cfg) evs (reset cfg)) None).
    set (s1 := s_flush_po (fold_left s_step_po evs (s_start cfg)) None).
    assert (H : sim cfg b1 s1) by (apply sim_end_data_po, sim_fold_po, sim_reset).
    destruct (pop_all_st cfg (length (b_stack b1)) b1) as [-> ->].
    split; [apply H|]. split; [apply H|].
    destruct (sim_shape _ _ _ H) as [pre Hpre].
    apply (pop_all_root cfg pre b1 _ _ H Hpre). rewrite Hpre, app_length. cbn. lia.
  Qed.
End PartA.

(* ------------------------------------------------------------------------------------------ *)
(* Part B: trees in flat form                                                                  *)
(* ------------------------------------------------------------------------------------------ *)
Lemma F2_length {X Y} (R : X -> Y -> Prop) a b : Forall2 R a b -> length a = length b.
Proof. induction 1; cbn; congruence. Qed.

Section PnodeInd.
  Variable P : pnode -> Prop.
  Hypothesis Htag : forall n p a ks, Forall P ks -> P (PTag n p a ks).
  Hypothesis Hstr : forall c t, P (PStr c t).
  Fixpoint pnode_ind' (t : pnode) : P t :=
    match t with
    | PTag n p a ks => Htag n p a ks ((fix go (l : list pnode) : Forall P l :=
                                         match l with
                                         | [] => Forall_nil _
                                         | k :: l' => Forall_cons _ (pnode_ind' k) (go l')
                                         end) ks)
    | PStr c t => Hstr c t
    end.
End PnodeInd.

Fixpoint psize (t : pnode) : nat :=
  match t with
  | PTag _ _ _ ks => S (list_sum (map psize ks))
  | PStr _ _ => 1
  end.
Definition psizes (ks : list pnode) : nat := list_sum (map psize ks).

Lemma psizes_app a b : psizes (a ++ b) = psizes a + psizes b.
Proof. unfold psizes. now rewrite map_app, list_sum_app. Qed.
Lemma psizes_cons k l : psizes (k :: l) = psize k + psizes l.
Proof. reflexivity. Qed.
Lemma psizes_rev l : psizes (rev l) = psizes l.
Proof.
  induction l as [|k l IH]; [reflexivity|]. cbn [rev]. rewrite psizes_app, IH.
  unfold psizes. cbn [map].
  change (list_sum (psize k :: map psize l)) with (psize k + list_sum (map psize l)).
  change (list_sum [psize k]) with (psize k + 0). lia.
Qed.

Section Flat.
  Variable cfg : bconfig.

  Definition tag_payload (n : str) (p : option str) (a : list (str * str)) : payload :=
    mkpl n p a 0%N (can_be_empty cfg n).
  Definition str_payload (c : N) (text : str) : payload := mkpl text None [] c false.

  (* the pre-order listing of a tree placed at index [start], its root naming [parent] *)
  Fixpoint flat (parent : option nat) (start : nat) (t : pnode) {struct t} : list snode :=
    match t with
    | PStr c text => [mksn parent (str_payload c text)]
    | PTag n p a ks =>
        mksn parent (tag_payload n p a) ::
        (fix go (st : nat) (l : list pnode) {struct l} : list snode :=
           match l with
           | [] => []
           | k :: r => flat (Some start) st k ++ go (st + psize k) r
           end) (S start) ks
    end.
  Fixpoint flat_list (parent : option nat) (st : nat) (l : list pnode) : list snode :=
    match l with
    | [] => []
    | k :: r => flat parent st k ++ flat_list parent (st + psize k) r
    end.

  Lemma flat_tag parent start n p a ks :
    flat parent start (PTag n p a ks) = mksn parent (tag_payload n p a) :: flat_list (Some start) (S start) ks.
  Proof.
    cbn [flat]. f_equal. generalize (S start). induction ks as [|k r IH]; intros st; [reflexivity|].
    cbn [flat_list]. now rewrite IH.
  Qed.

  Lemma length_flat : forall t parent start, length (flat parent start t) = psize t.
  Proof.
    induction t as [n p a ks IH|c t] using pnode_ind'; intros parent start; [|reflexivity].
    rewrite flat_tag. cbn [length psize]. f_equal. generalize (S start).
    induction IH as [|k r Hk Hr IHr]; intros st; [reflexivity|].
    cbn [flat_list map list_sum]. now rewrite app_length, Hk, IHr.
  Qed.

  Lemma length_flat_list l : forall parent st, length (flat_list parent st l) = psizes l.
  Proof.
    induction l as [|k r IH]; intros parent st; [reflexivity|].
    cbn [flat_list]. now rewrite app_length, length_flat, IH.
  Qed.

  Lemma flat_list_app a : forall b parent st,
    flat_list parent st (a ++ b) = flat_list parent st a ++ flat_list parent (st + psizes a) b.
  Proof.
    induction a as [|k a IH]; intros b parent st; cbn [app flat_list].
    - unfold psizes. cbn. now rewrite Nat.add_0_r.
    - rewrite IH, <- app_assoc, psizes_cons. now rewrite Nat.add_assoc.
  Qed.

  (* ---- the open part of the frame machine's tree, bottom frame first ---- *)
  Definition frame_payload (isroot : bool) (f : frame) : payload :=
    if isroot then mkpl (fr_name f) (fr_prefix f) (fr_attrs f) 0%N false
    else tag_payload (fr_name f) (fr_prefix f) (fr_attrs f).

  Fixpoint flat_stack (isroot : bool) (parent : option nat) (start : nat) (fs : list frame) : list snode :=
    match fs with
    | [] => []
    | f :: above =>
        mksn parent (frame_payload isroot f) :: flat_list (Some start) (S start) (rev (fr_kids f)) ++
        flat_stack false (Some start) (S start + psizes (fr_kids f)) above
    end.
  (* the indices of the open frames *)
  Fixpoint ids (start : nat) (fs : list frame) : list nat :=
    match fs with
    | [] => []
    | f :: above => start :: ids (S start + psizes (fr_kids f)) above
    end.
  (* where a frame pushed above [fs] goes, and what it names as parent *)
  Fixpoint top_pos (parent : option nat) (start : nat) (fs : list frame) : option nat * nat :=
    match fs with
    | [] => (parent, start)
    | f :: above => top_pos (Some start) (S start + psizes (fr_kids f)) above
    end.

  Lemma flat_stack_snoc fs : forall isroot parent start f,
    flat_stack isroot parent start (fs ++ [f]) =
    flat_stack isroot parent start fs ++
    mksn (fst (top_pos parent start fs)) (frame_payload (isroot && null fs) f) ::
    flat_list (Some (snd (top_pos parent start fs))) (S (snd (top_pos parent start fs))) (rev (fr_kids f)).
  Proof.
    induction fs as [|g fs IH]; intros isroot parent start f; cbn [app flat_stack top_pos fst snd null].
    - rewrite andb_true_r. now rewrite app_nil_r.
    - rewrite IH. cbn [andb]. rewrite andb_false_r. now rewrite <- app_assoc.
  Qed.

  Lemma ids_snoc fs : forall start f, ids start (fs ++ [f]) = ids start fs ++ [snd (top_pos None start fs)].
  Proof.
    induction fs as [|g fs IH]; intros start f; cbn [app ids top_pos snd]; [reflexivity|].
    rewrite IH. f_equal. f_equal. clear. generalize (S start + psizes (fr_kids g)) as st.
    generalize (@None nat) as p1. generalize (Some start) as p2.
    induction fs as [|h fs IH]; intros; cbn [top_pos snd]; [reflexivity|]. apply IH.
  Qed.

  Lemma top_pos_snd_indep fs : forall p1 p2 start, snd (top_pos p1 start fs) = snd (top_pos p2 start fs).
  Proof. induction fs as [|h fs IH]; intros; cbn [top_pos snd]; [reflexivity|]. apply IH. Qed.

  Lemma top_pos_len fs : forall isroot parent start,
    snd (top_pos parent start fs) = start + length (flat_stack isroot parent start fs).
  Proof.
    induction fs as [|g fs IH]; intros isroot parent start; cbn [top_pos flat_stack length snd]; [lia|].
    rewrite app_length, length_flat_list, psizes_rev, (IH false). lia.
  Qed.

  (* for a non-empty stack the parent of a pushed frame is the top frame's index *)
  Lemma top_pos_fst fs f : forall parent start,
    fst (top_pos parent start (fs ++ [f])) = Some (snd (top_pos parent start fs)).
  Proof.
    induction fs as [|g fs IH]; intros parent start; cbn [app top_pos fst snd]; [reflexivity|]. apply IH.
  Qed.
  Lemma top_pos_snoc_snd fs f : forall parent start,
    snd (top_pos parent start (fs ++ [f])) = S (snd (top_pos parent start fs)) + psizes (fr_kids f).
  Proof.
    induction fs as [|g fs IH]; intros parent start; cbn [app top_pos fst snd]; [reflexivity|]. apply IH.
  Qed.
End Flat.

(* ------------------------------------------------------------------------------------------ *)
(* Part B: the flat machine with parse_only and the frame machine stay related                *)
(* ------------------------------------------------------------------------------------------ *)
Section Rel.
  Variable pat_sem : N -> str -> bool.
  Variable fun_sem : N -> callarg -> bool.
  Variable po : option strainer.
  Variable cfg : bconfig.

  Notation rejects_tag := (rejects_tag pat_sem fun_sem po).
  Notation rejects_string := (rejects_string pat_sem fun_sem po).
  Notation zend_data := (zend_data pat_sem fun_sem po).
  Notation zstep := (zstep pat_sem fun_sem po).
  Notation s_flush_po := (s_flush_po pat_sem fun_sem po cfg).
  Notation s_step_po := (s_step_po pat_sem fun_sem po cfg).
  Notation dn := (mksn None no_payload).

  (* what the two auxiliary stacks of the frame machine hold, as a function of the frame stack (top first) *)
  Fixpoint pw_depths (stack : list frame) : list nat :=
    match stack with
    | [] => []
    | f :: rest => if memS (fr_name f) (c_pw cfg) then length stack :: pw_depths rest else pw_depths rest
    end.
  Fixpoint sc_depths (stack : list frame) : list (nat * N) :=
    match stack with
    | [] => []
    | f :: rest => match assocS (fr_name f) (c_containers cfg) with
                   | Some c => (length stack, c) :: sc_depths rest
                   | None => sc_depths rest
                   end
    end.

  Definition same_head (s : sstate) (x : nat) (f : frame) : Prop :=
    s_name s x = fr_name f /\ s_prefix s x = fr_prefix f.

  Record zrel (s : sstate) (z : zst) : Prop := mkzrel {
    zr_nodes : s_nodes s = flat_stack cfg true None 0 (rev (z_stack z));
    zr_open : s_open s = rev (ids 0 (rev (z_stack z)));
    zr_data : s_pending s = z_data z;
    zr_pws : z_pws z = pw_depths (z_stack z);
    zr_scs : z_scs z = sc_depths (z_stack z);
    zr_heads : Forall2 (same_head s) (s_open s) (z_stack z);
    zr_lt : Forall (fun x => x < length (s_nodes s)) (s_open s);
    zr_ne : z_stack z <> []
  }.

  (* ---- facts about the auxiliary stacks ---- *)
  Lemma pw_depths_le stack : Forall (fun d => d <= length stack) (pw_depths stack).
  Proof.
    induction stack as [|f rest IH]; [constructor|]. cbn [pw_depths length].
    destruct (memS _ _); [constructor; [lia|]|]; (eapply Forall_impl; [|exact IH]; cbn; intros; lia).
  Qed.
  Lemma sc_depths_le stack : Forall (fun dc => fst dc <= length stack) (sc_depths stack).
  Proof.
    induction stack as [|f rest IH]; [constructor|]. cbn [sc_depths length].
    destruct (assocS _ _); [constructor; [cbn; lia|]|]; (eapply Forall_impl; [|exact IH]; cbn; intros; lia).
  Qed.
  Lemma pw_depths_null stack : negb (null (pw_depths stack)) = existsb (fun f => memS (fr_name f) (c_pw cfg)) stack.
  Proof.
    induction stack as [|f rest IH]; [reflexivity|]. cbn [pw_depths existsb]. destruct (memS _ _); [reflexivity|exact IH].
  Qed.
  (* only names and the number of frames matter *)
  Lemma pw_depths_ext a b : Forall2 (fun f g => fr_name f = fr_name g) a b -> pw_depths a = pw_depths b.
  Proof.
    induction 1 as [|f g a b Hfg Hab IH]; [reflexivity|]. cbn [pw_depths length].
    rewrite Hfg, IH, (F2_length _ _ _ Hab). reflexivity.
  Qed.
  Lemma sc_depths_ext a b : Forall2 (fun f g => fr_name f = fr_name g) a b -> sc_depths a = sc_depths b.
  Proof.
    induction 1 as [|f g a b Hfg Hab IH]; [reflexivity|]. cbn [sc_depths length].
    rewrite Hfg, IH, (F2_length _ _ _ Hab). reflexivity.
  Qed.
  Lemma Forall2_same_names (l : list frame) : Forall2 (fun f g => fr_name f = fr_name g) l l.
  Proof. induction l; constructor; auto. Qed.

  (* ---- the open list against the frame stack ---- *)
  Lemma heads_existsb s (P : str -> bool) open stack : Forall2 (same_head s) open stack ->
    existsb (fun x => P (s_name s x)) open = existsb (fun f => P (fr_name f)) stack.
  Proof.
    induction 1 as [|x f open stack [Hn _] _ IH]; [reflexivity|]. cbn [existsb]. now rewrite Hn, IH.
  Qed.

  Lemma heads_nearest s open stack : Forall2 (same_head s) open stack ->
    nearest_container cfg s open = match sc_depths stack with (_, c) :: _ => c | [] => 0%N end.
  Proof.
    induction 1 as [|x f open stack [Hn _] _ IH]; [reflexivity|]. cbn [nearest_container sc_depths].
    rewrite Hn. destruct (assocS (fr_name f) (c_containers cfg)); [reflexivity|exact IH].
  Qed.

  Lemma heads_grow s s' open stack : (exists extra, s_nodes s' = s_nodes s ++ extra) ->
    Forall (fun x => x < length (s_nodes s)) open -> Forall2 (same_head s) open stack -> Forall2 (same_head s') open stack.
  Proof.
    intros [extra E] Hlt H. induction H as [|x f open stack [H1 H2] _ IH]; [constructor|].
    inversion Hlt; subst. constructor; [|now apply IH].
    unfold same_head, s_name, s_prefix in *. rewrite E, app_nth1 by assumption. now split.
  Qed.

  (* ---- text and class computed by the two machines ---- *)
  Lemma zrel_text s z cls chunks : zrel s z ->
    s_text cfg s cls chunks = gathered cfg (negb (null (z_pws z))) (is_special cls) chunks.
  Proof.
    intros H. unfold s_text, gathered, is_special.
    rewrite (zr_pws _ _ H), pw_depths_null.
    now rewrite (heads_existsb s (fun n => memS n (c_pw cfg)) _ _ (zr_heads _ _ H)).
  Qed.

  Lemma zrel_cls s z cls : zrel s z ->
    match cls with
    | Some c => if N.eqb c 0 then nearest_container cfg s (s_open s) else c
    | None => nearest_container cfg s (s_open s)
    end = zstring_container z cls.
  Proof.
    intros H. unfold zstring_container. rewrite (heads_nearest _ _ _ (zr_heads _ _ H)), (zr_scs _ _ H).
    destruct (sc_depths (z_stack z)) as [|[d c0] r]; destruct cls as [c|]; cbn; try reflexivity.
    destruct (N.eqb c 0) eqn:E; [|reflexivity]. now apply N.eqb_eq in E.
  Qed.

  Lemma zrel_depth s z : zrel s z -> length (s_open s) = length (z_stack z).
  Proof. intros H. exact (F2_length _ _ _ (zr_heads _ _ H)). Qed.

  (* the top frame's index is the head of the open list *)
  Lemma zrel_top s z top rest : zrel s z -> z_stack z = top :: rest ->
    s_open s = snd (top_pos None 0 (rev rest)) :: rev (ids 0 (rev rest)).
  Proof.
    intros H E. rewrite (zr_open _ _ H), E. cbn [rev]. rewrite ids_snoc, rev_app_distr. reflexivity.
  Qed.

  Lemma s_flush_kept s cls c cs : s_pending s = c :: cs ->
    s_flush cfg s cls =
    mkss (s_nodes s ++ [mksn (hd_error (s_open s))
                             (str_payload (match cls with
                                           | Some c0 => if N.eqb c0 0 then nearest_container cfg s (s_open s) else c0
                                           | None => nearest_container cfg s (s_open s)
                                           end) (s_text cfg s cls (c :: cs)))])
         (s_open s) [].
  Proof. intros E. unfold s_flush. rewrite E. reflexivity. Qed.

  Lemma null_snoc {X} (l : list X) x : null (l ++ [x]) = false.
  Proof. destruct l; reflexivity. Qed.

  (* ---- endData ---- *)
  Lemma zrel_flush s z cls : zrel s z -> zrel (s_flush_po s cls) (zend_data cfg z cls).
  Proof.
    intros H. unfold StrainerSim.s_flush_po, Strainer.zend_data. rewrite (zr_data _ _ H).
    destruct (z_data z) as [|c cs] eqn:D; [exact H|].
    rewrite (zrel_text _ _ cls (c :: cs) H), (zrel_depth _ _ H).
    destruct (rejects_string (length (z_stack z)) _) eqn:RJ.
    - destruct H. constructor; cbn [s_nodes s_open s_pending z_stack z_pws z_scs z_data]; auto.
    - pose proof (zr_data _ _ H) as Ed. rewrite D in Ed.
      rewrite (s_flush_kept s cls c cs Ed), (zrel_cls _ _ cls H), (zrel_text _ _ cls (c :: cs) H).
      set (text := gathered cfg (negb (null (z_pws z))) (is_special cls) (c :: cs)).
      set (cl := zstring_container z cls).
      destruct (z_stack z) as [|top rest] eqn:Est; [exfalso; exact (zr_ne _ _ H Est)|].
      pose proof (zrel_top _ _ top rest H Est) as Eo.
      set (id := snd (top_pos None 0 (rev rest))) in *.
      constructor; cbn [s_nodes s_open s_pending z_stack z_pws z_scs z_data].
      + rewrite (zr_nodes _ _ H), Est. cbn [rev]. rewrite !flat_stack_snoc.
        rewrite <- app_assoc. f_equal. cbn [app]. unfold add_kid at 1. cbn [fr_name fr_prefix fr_attrs fr_kids].
        unfold frame_payload at 2. cbn [fr_name fr_prefix fr_attrs]. fold (frame_payload cfg (true && null (rev rest)) top).
        cbn [app]. f_equal. unfold add_kid. cbn [fr_kids rev]. rewrite flat_list_app. f_equal.
        cbn [flat_list flat]. rewrite app_nil_r, Eo. reflexivity.
      + rewrite (zr_open _ _ H), Est. cbn [rev]. now rewrite !ids_snoc.
      + reflexivity.
      + rewrite (zr_pws _ _ H), Est. reflexivity.
      + rewrite (zr_scs _ _ H), Est. reflexivity.
      + pose proof (zr_heads _ _ H) as Hh. rewrite Est in Hh.
        assert (G : Forall2 (same_head (mkss (s_nodes s ++ [mksn (hd_error (s_open s)) (str_payload cl text)]) (s_open s) []))
                            (s_open s) (top :: rest)).
        { apply (heads_grow s); [now eexists|exact (zr_lt _ _ H)|exact Hh]. }
        inversion G as [|x f o st Hx Hr]; subst. constructor; [exact Hx|exact Hr].
      + rewrite app_length. eapply Forall_impl; [|exact (zr_lt _ _ H)]. cbn. intros. lia.
      + discriminate.
  Qed.

  Lemma s_flush_nodata s cls : s_pending s = [] -> s_flush cfg s cls = s.
  Proof. intros E. unfold s_flush. now rewrite E. Qed.

  (* ---- a start tag that is kept ---- *)
  Lemma zrel_push s z n p a : zrel s z -> s_pending s = [] ->
    zrel (s_step cfg s (EStart n p a)) (zpush cfg z (mkfr n p a [])).
  Proof.
    intros H Ep. cbn [s_step]. cbv zeta. rewrite (s_flush_nodata s None Ep).
    destruct (z_stack z) as [|top rest] eqn:Est; [exfalso; exact (zr_ne _ _ H Est)|].
    pose proof (zrel_top _ _ top rest H Est) as Eo.
    assert (Elen : snd (top_pos None 0 (rev rest ++ [top])) = length (s_nodes s)).
    { rewrite (top_pos_len cfg _ true None 0), (zr_nodes _ _ H), Est. reflexivity. }
    unfold zpush. cbn [z_stack z_pws z_scs z_data fr_name]. rewrite Est.
    constructor; cbn [s_nodes s_open s_pending z_stack z_pws z_scs z_data].
    - rewrite (zr_nodes _ _ H), Est. cbn [rev]. rewrite (flat_stack_snoc cfg (rev rest ++ [top])).
      f_equal. rewrite null_snoc, andb_false_r. cbn [fr_kids rev flat_list]. unfold frame_payload. cbn [fr_name fr_prefix fr_attrs].
      rewrite top_pos_fst, Eo. reflexivity.
    - cbn [rev]. rewrite (ids_snoc (rev rest ++ [top])), rev_app_distr. cbn [rev app].
      rewrite Elen. f_equal.
      rewrite (zr_open _ _ H), Est. reflexivity.
    - now rewrite (zr_data _ _ H) in Ep.
    - cbn [pw_depths fr_name length]. rewrite (zr_pws _ _ H), Est. reflexivity.
    - cbn [sc_depths fr_name length]. rewrite (zr_scs _ _ H), Est. reflexivity.
    - constructor.
      + unfold same_head, s_name, s_prefix. cbn [s_nodes]. rewrite app_nth2, Nat.sub_diag by lia. cbn. split; reflexivity.
      + pose proof (zr_heads _ _ H) as Hh. rewrite Est in Hh.
        apply (heads_grow s); [now eexists|exact (zr_lt _ _ H)|exact Hh].
    - rewrite app_length. cbn [length]. constructor; [lia|].
      eapply Forall_impl; [|exact (zr_lt _ _ H)]. cbn. intros. lia.
    - discriminate.
  Qed.

  (* ---- popTag ---- *)
  Lemma head_neq_pws d (l : list nat) : Forall (fun x => x <= d) l ->
    match l with d' :: r => if Nat.eqb d' (S d) then r else l | [] => [] end = l.
  Proof.
    intros H. destruct l as [|d' r]; [reflexivity|]. inversion H; subst.
    destruct (Nat.eqb d' (S d)) eqn:E; [|reflexivity]. apply Nat.eqb_eq in E. lia.
  Qed.
  Lemma head_neq_scs d (l : list (nat * N)) : Forall (fun x => fst x <= d) l ->
    match l with (d', c) :: r => if Nat.eqb d' (S d) then r else l | [] => [] end = l.
  Proof.
    intros H. destruct l as [|[d' c] r]; [reflexivity|]. inversion H; subst. cbn in *.
    destruct (Nat.eqb d' (S d)) eqn:E; [|reflexivity]. apply Nat.eqb_eq in E. lia.
  Qed.

  Lemma zrel_pop s z top parent rest : zrel s z -> z_stack z = top :: parent :: rest ->
    zrel (mkss (s_nodes s) (tl (s_open s)) (s_pending s)) (zpop z).
  Proof.
    intros H Est. unfold zpop. rewrite Est.
    set (parent' := add_kid parent (node_of top)).
    constructor; cbn [s_nodes s_open s_pending z_stack z_pws z_scs z_data].
    - rewrite (zr_nodes _ _ H), Est. cbn [rev]. rewrite (flat_stack_snoc cfg (rev rest ++ [parent])).
      rewrite !(flat_stack_snoc cfg (rev rest)). rewrite <- app_assoc. f_equal. cbn [app]. f_equal.
      unfold parent', add_kid. cbn [fr_kids fr_name fr_prefix fr_attrs rev].
      rewrite flat_list_app. f_equal. cbn [flat_list]. rewrite app_nil_r.
      unfold node_of. rewrite flat_tag, null_snoc, andb_false_r, top_pos_fst, top_pos_snoc_snd, psizes_rev.
      unfold frame_payload. reflexivity.
    - rewrite (zr_open _ _ H), Est. cbn [rev]. rewrite (ids_snoc (rev rest ++ [parent])), rev_app_distr. cbn [rev app tl].
      now rewrite !ids_snoc.
    - exact (zr_data _ _ H).
    - rewrite (zr_pws _ _ H), Est.
      assert (E2 : pw_depths (parent' :: rest) = pw_depths (parent :: rest)) by reflexivity. rewrite E2.
      cbn [pw_depths length]. destruct (memS (fr_name top) (c_pw cfg)).
      + now rewrite Nat.eqb_refl.
      + apply (head_neq_pws (S (length rest))). apply (pw_depths_le (parent :: rest)).
    - rewrite (zr_scs _ _ H), Est.
      assert (E2 : sc_depths (parent' :: rest) = sc_depths (parent :: rest)) by reflexivity. rewrite E2.
      cbn [sc_depths length]. destruct (assocS (fr_name top) (c_containers cfg)).
      + now rewrite Nat.eqb_refl.
      + apply (head_neq_scs (S (length rest))). apply (sc_depths_le (parent :: rest)).
    - pose proof (zr_heads _ _ H) as Hh. rewrite Est in Hh.
      inversion Hh as [|x f o st Hx Hr]; subst. cbn [tl].
      inversion Hr as [|y g o' st' Hy Hr']; subst. constructor; [exact Hy|exact Hr'].
    - pose proof (zr_lt _ _ H) as Hl. destruct (s_open s); [constructor|]. inversion Hl; assumption.
    - discriminate.
  Qed.

  (* ---- _popToTag against close_through ---- *)
  Definition fmatch (name : str) (prefix : option str) (f : frame) : bool :=
    str_eqb name (fr_name f) && opt_str_eqb prefix (fr_prefix f).

  Lemma close_open s name prefix open stack : Forall2 (same_head s) open stack ->
    match close_through s name prefix open with
    | None => existsb (fmatch name prefix) (removelast stack) = false
    | Some _ => existsb (fmatch name prefix) (removelast stack) = true /\ zcount name stack <> 0
    end.
  Proof.
    induction 1 as [|x f open stack [Hn Hp] Hr IH]; [reflexivity|].
    destruct Hr as [|y g open stack Hy Hr]; [reflexivity|].
    rewrite close_through_cons. unfold smatch. rewrite Hn, Hp. fold (fmatch name prefix f).
    change (removelast (f :: g :: stack)) with (f :: removelast (g :: stack)). cbn [existsb].
    unfold zcount. change (removelast (f :: g :: stack)) with (f :: removelast (g :: stack)). cbn [filter].
    destruct (fmatch name prefix f) eqn:Fm.
    - split; [reflexivity|]. unfold fmatch in Fm. apply andb_prop in Fm as [Fm _]. rewrite Fm. cbn. lia.
    - cbn [orb]. destruct (close_through s name prefix (y :: open)); [|exact IH].
      destruct IH as [I1 I2]. split; [exact I1|]. unfold zcount in I2.
      destruct (str_eqb name (fr_name f)); cbn [length]; lia.
  Qed.

  Lemma zpop_loop_rel name prefix : forall n z s rest, zrel s z -> length (z_stack z) <= S n ->
    close_through s name prefix (s_open s) = Some rest ->
    zrel (mkss (s_nodes s) rest (s_pending s)) (zpop_loop n z name prefix).
  Proof.
    induction n as [|n IH]; intros z s rest H Hlen Hcl.
    - exfalso. pose proof (zr_heads _ _ H) as Hh. pose proof (zr_ne _ _ H) as Hne.
      destruct (z_stack z) as [|f [|g st]]; [contradiction| |cbn in Hlen; lia].
      inversion Hh as [|x f' o st' Hx Hr]; subst. inversion Hr; subst. rewrite <- H0 in Hcl. discriminate.
    - cbn [zpop_loop].
      pose proof (close_open s name prefix _ _ (zr_heads _ _ H)) as CO. rewrite Hcl in CO. destruct CO as [_ Cn].
      apply Nat.eqb_neq in Cn. rewrite Cn.
      pose proof (zr_heads _ _ H) as Hh.
      destruct (z_stack z) as [|top [|parent rest0]] eqn:Est.
      + exfalso. exact (zr_ne _ _ H Est).
      + exfalso. inversion Hh as [|x f' o st' Hx Hr]; subst. inversion Hr; subst. rewrite <- H0 in Hcl. discriminate.
      + inversion Hh as [|x f' o st' [Hn Hp] Hr]; subst. inversion Hr as [|y g o' st'' Hy Hr']; subst.
        rewrite <- H0 in Hcl. rewrite close_through_cons in Hcl. unfold smatch in Hcl. rewrite Hn, Hp in Hcl.
        fold (fmatch name prefix top) in Hcl. fold (fmatch name prefix top).
        pose proof (zrel_pop s z top parent rest0 H Est) as Hpop. rewrite <- H0 in Hpop. cbn [tl] in Hpop.
        destruct (fmatch name prefix top).
        * inversion Hcl; subst rest. exact Hpop.
        * apply (IH (zpop z) (mkss (s_nodes s) (y :: o') (s_pending s)) rest Hpop).
          -- unfold zpop. rewrite Est. cbn [z_stack length] in *. lia.
          -- cbn [s_open]. rewrite <- Hcl. now apply close_through_ext.
  Qed.

  Lemma zrel_close s z name prefix : zrel s z ->
    zrel (match close_through s name prefix (s_open s) with
          | Some rest => mkss (s_nodes s) rest (s_pending s)
          | None => s
          end) (zpop_to_tag cfg z name prefix).
  Proof.
    intros H. unfold zpop_to_tag, zis_open.
    pose proof (close_open s name prefix _ _ (zr_heads _ _ H)) as CO. fold (fmatch name prefix).
    destruct (close_through s name prefix (s_open s)) as [rest|] eqn:Ecl.
    - destruct CO as [Co _]. rewrite Co. cbn [negb]. rewrite andb_false_r.
      apply (zpop_loop_rel name prefix _ z s rest H); [|exact Ecl].
      pose proof (zr_ne _ _ H). destruct (z_stack z); [contradiction|cbn; lia].
    - rewrite CO. cbn [negb]. rewrite andb_true_r.
      destruct (Nat.eqb (zcount name (z_stack z)) 0) eqn:C; cbn [negb]; [|exact H].
      destruct (pred (length (z_stack z))); cbn [zpop_loop]; [exact H|]. now rewrite C.
  Qed.

  (* ---- one event ---- *)
  Lemma zrel_step s z e : zrel s z -> zrel (s_step_po s e) (zstep cfg z e).
  Proof.
    intros H. destruct e as [n p a|n p|t|c]; cbn [StrainerSim.s_step_po Strainer.zstep].
    - unfold zstart. cbv zeta.
      pose proof (zrel_flush s z None H) as H1. rewrite (zrel_depth _ _ H1).
      destruct (rejects_tag (length (z_stack (zend_data cfg z None))) p n a); [exact H1|].
      apply zrel_push; [exact H1|apply s_flush_po_pending].
    - unfold zend. pose proof (zrel_flush s z None H) as H1.
      cbn [s_step]. cbv zeta. rewrite (s_flush_nodata _ None (s_flush_po_pending _ _ _ _ s None)).
      now apply zrel_close.
    - cbn [s_step]. unfold zdata. destruct H.
      constructor; cbn [s_nodes s_open s_pending z_stack z_pws z_scs z_data]; auto. now f_equal.
    - now apply zrel_flush.
  Qed.

  Lemma zrel_reset : zrel (s_start cfg) (zreset cfg).
  Proof.
    unfold s_start, zreset.
    constructor; cbn [s_nodes s_open s_pending z_stack z_pws z_scs z_data].
    - reflexivity.
    - reflexivity.
    - reflexivity.
    - cbn [pw_depths fr_name length]. reflexivity.
    - cbn [sc_depths fr_name length]. reflexivity.
    - constructor; [|constructor]. split; reflexivity.
    - constructor; [cbn; lia|constructor].
    - discriminate.
  Qed.

  Lemma zrel_fold evs : forall s z, zrel s z -> zrel (fold_left s_step_po evs s) (fold_left (zstep cfg) evs z).
  Proof.
    induction evs as [|e evs IH]; intros s z H; [exact H|]. cbn [fold_left]. apply IH. now apply zrel_step.
  Qed.

  (* closing everything at the end of input does not touch the nodes and leaves only the document frame *)
  Lemma zpop_all_rel : forall n z s, zrel s z -> length (z_stack z) <= S n ->
    exists s' f, s_nodes s' = s_nodes s /\ zrel s' (zpop_all n cfg z) /\ z_stack (zpop_all n cfg z) = [f].
  Proof.
    induction n as [|n IH]; intros z s H Hlen.
    - cbn [zpop_all]. pose proof (zr_ne _ _ H) as Hne.
      destruct (z_stack z) as [|f [|g st]] eqn:Est; [contradiction| |cbn in Hlen; lia].
      exists s, f. split; [reflexivity|split; [exact H|first [exact Est|reflexivity]]].
    - cbn [zpop_all]. pose proof (zr_ne _ _ H) as Hne.
      destruct (z_stack z) as [|top [|parent rest]] eqn:Est; [contradiction| |].
      + exists s, top. split; [reflexivity|split; [exact H|first [exact Est|reflexivity]]].
      + pose proof (zrel_pop s z top parent rest H Est) as Hp.
        destruct (IH (zpop z) _ Hp) as (s' & f & E1 & E2 & E3).
        { unfold zpop. rewrite Est. cbn [z_stack length] in *. lia. }
        exists s', f. split; [exact E1|split; [exact E2|exact E3]].
  Qed.

  (* the flat machine's first node is the document object *)
  Definition root_node : snode := mksn None (mkpl (c_root cfg) None [] 0%N false).
  Definition rooted (s : sstate) : Prop := exists l, s_nodes s = root_node :: l.

  Lemma rooted_flush s cls : rooted s -> rooted (s_flush cfg s cls).
  Proof.
    intros [l E]. unfold s_flush. destruct (s_pending s); [now exists l|]. cbv zeta. cbn [s_nodes].
    rewrite E. eexists. reflexivity.
  Qed.
  Lemma rooted_flush_po s cls : rooted s -> rooted (s_flush_po s cls).
  Proof.
    intros H. unfold StrainerSim.s_flush_po. destruct (s_pending s); [exact H|].
    destruct (rejects_string _ _); [exact H|now apply rooted_flush].
  Qed.
  Lemma rooted_step s e : rooted s -> rooted (s_step cfg s e).
  Proof.
    intros H. destruct e as [n p a|n p|t|c]; cbn [s_step]; cbv zeta.
    - destruct (rooted_flush s None H) as [l E]. cbn [s_nodes]. rewrite E. eexists. reflexivity.
    - pose proof (rooted_flush s None H) as H1. destruct (close_through _ _ _ _); [|exact H1]. exact H1.
    - exact H.
    - now apply rooted_flush.
  Qed.
  Lemma rooted_step_po s e : rooted s -> rooted (s_step_po s e).
  Proof.
    intros H. destruct e as [n p a|n p|t|c]; cbn [StrainerSim.s_step_po]; cbv zeta.
    - destruct (rejects_tag _ _ _ _); [now apply rooted_flush_po|]. apply rooted_step. now apply rooted_flush_po.
    - apply rooted_step. now apply rooted_flush_po.
    - now apply rooted_step.
    - now apply rooted_flush_po.
  Qed.
  Lemma rooted_fold evs : forall s, rooted s -> rooted (fold_left s_step_po evs s).
  Proof. induction evs as [|e evs IH]; intros s H; [exact H|]. cbn [fold_left]. apply IH. now apply rooted_step_po. Qed.

  (* the flat tree of the rules with parse_only is the pre-order listing of the frame machine's result *)
  Theorem frame_is_flat evs :
    spec_run_po pat_sem fun_sem po cfg evs =
    root_node :: flat_list cfg (Some 0) 1 (zfeed pat_sem fun_sem po cfg evs).
  Proof.
    unfold spec_run_po, zfeed, zrun.
    set (s1 := s_flush_po (fold_left s_step_po evs (s_start cfg)) None).
    set (z1 := zend_data cfg (fold_left (zstep cfg) evs (zreset cfg)) None).
    assert (H : zrel s1 z1) by (apply zrel_flush, zrel_fold, zrel_reset).
    assert (Hr : rooted s1) by (apply rooted_flush_po, rooted_fold; now exists []).
    destruct (zpop_all_rel (length (z_stack z1)) z1 s1 H) as (s' & f & E1 & E2 & E3); [lia|].
    rewrite E3. pose proof (zr_nodes _ _ E2) as En. rewrite E3, E1 in En. cbn [rev app flat_stack] in En.
    rewrite app_nil_r in En. destruct Hr as [l El]. rewrite En in El.
    assert (Enode : mksn None (frame_payload cfg true f) = root_node) by congruence.
    rewrite En, Enode. reflexivity.
  Qed.
End Rel.

(* ------------------------------------------------------------------------------------------ *)
(* Conclusion                                                                                  *)
(* ------------------------------------------------------------------------------------------ *)

(* For every configuration, every filter (or none) and EVERY event sequence, the heap that the model of the
   code builds — Model/Build.v's machine with the two parse_only checks, all links, open_tag_counter and the
   two auxiliary object stacks as in the code — is exactly the parent / child-list / payload encoding of the
   tree the frame machine returns: node x of the heap (in creation order) is node x of the pre-order listing
   of [zfeed]'s result under the document object, with that parent, that payload, and as contents the nodes
   naming it as parent, in order; and only the document object is left open. *)
Theorem frame_machine_is_heap_machine pat_sem fun_sem po cfg evs :
  let b := feed_po pat_sem fun_sem po cfg evs in
  let nodes := root_node cfg :: flat_list cfg (Some 0) 1 (zfeed pat_sem fun_sem po cfg evs) in
  nxt (b_st b) = length nodes /\
  (forall x, x < length nodes ->
     par (hp (b_st b) x) = sn_parent (nth x nodes (mksn None no_payload)) /\
     b_pay b x = sn_pay (nth x nodes (mksn None no_payload)) /\
     kids (hp (b_st b) x) = children_of nodes x) /\
  b_stack b = [0] /\ b_cur b = Some 0.
Proof.
  intros b nodes. unfold nodes. rewrite <- frame_is_flat.
  destruct (feed_po_refines pat_sem fun_sem po cfg evs) as (H1 & H2 & H3 & H4).
  repeat split; try assumption; now apply H2.
Qed.

Print Assumptions frame_machine_is_heap_machine.

(* the heap of a final state [b] is the encoding of the forest [T] under the document object *)
Definition encodes (cfg : bconfig) (b : bstate) (T : list pnode) : Prop :=
  let nodes := root_node cfg :: flat_list cfg (Some 0) 1 T in
  nxt (b_st b) = length nodes /\
  (forall x, x < length nodes ->
     par (hp (b_st b) x) = sn_parent (nth x nodes (mksn None no_payload)) /\
     b_pay b x = sn_pay (nth x nodes (mksn None no_payload)) /\
     kids (hp (b_st b) x) = children_of nodes x) /\
  b_stack b = [0] /\ b_cur b = Some 0.

Corollary feed_po_encodes_zfeed pat_sem fun_sem po cfg evs :
  encodes cfg (feed_po pat_sem fun_sem po cfg evs) (zfeed pat_sem fun_sem po cfg evs).
Proof. exact (frame_machine_is_heap_machine pat_sem fun_sem po cfg evs). Qed.

(* without a filter the heap machine with the checks is Model/Build.v's machine itself *)
Lemma feed_po_none pat_sem fun_sem cfg evs : feed_po pat_sem fun_sem None cfg evs = feed cfg evs.
Proof.
  unfold feed_po, feed.
  assert (E : forall b c, end_data_po pat_sem fun_sem None cfg b c = end_data cfg b c).
  { intros b c. unfold end_data_po, end_data. destruct (b_data b); reflexivity. }
  assert (S : forall b e, step_event_po pat_sem fun_sem None cfg b e = step_event cfg b e).
  { intros b e. destruct e; cbn [step_event_po step_event]; try reflexivity.
    - unfold handle_starttag_po, handle_starttag. cbv zeta. rewrite E. cbn [rejects_tag].
      unfold handle_starttag. cbv zeta. rewrite (end_data_nodata cfg _ None (end_data_data cfg b None)). reflexivity.
    - unfold handle_endtag_po, handle_endtag. now rewrite E.
    - apply E. }
  assert (F : forall evs b, fold_left (step_event_po pat_sem fun_sem None cfg) evs b = fold_left (step_event cfg) evs b).
  { induction evs0 as [|e evs0 IH]; intros b; [reflexivity|]. cbn [fold_left]. now rewrite S, IH. }
  now rewrite F, E.
Qed.
Print Assumptions feed_po_none.

(* on the heaps: the selective parse's heap encodes the outermost matching elements of the tree the full
   parse's heap (Model.Build.feed, the machine of C03) encodes *)
Theorem parse_only_outermost_heap pat_sem fun_sem cfg sr table ds :
  tag_filter sr = true ->
  forallb (single_valued sr table) ds = true -> forallb (ctx_ok pat_sem fun_sem sr cfg) ds = true ->
  exists T,
    encodes cfg (feed cfg (brackets_f ds)) T /\
    encodes cfg (feed_po pat_sem fun_sem (Some sr) cfg (brackets_f ds)) (outermost_f (tag_matches pat_sem fun_sem sr table) T).
Proof.
  intros TF SV CO.
  exists (zfeed pat_sem fun_sem None cfg (brackets_f ds)). split.
  - rewrite <- (feed_po_none pat_sem fun_sem). apply feed_po_encodes_zfeed.
  - rewrite <- (parse_only_outermost pat_sem fun_sem cfg sr table ds TF SV CO). apply feed_po_encodes_zfeed.
Qed.
Print Assumptions parse_only_outermost_heap.
