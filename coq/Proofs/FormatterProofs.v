(* C15 — proofs about Model/Formatter.v against Spec/FormatterSpec.v. *)
From Coq Require Import String List NArith ZArith Bool Permutation Lia Sorted.
From BS Require Import Base.Sexp Base.Types Base.Lit Model.FmtTypes Gen.Stdlib Gen.T_C15 Model.Formatter
     Spec.FormatterSpec.
Import ListNotations.
Open Scope string_scope.
Open Scope list_scope.
Open Scope N_scope.

(* ================================================================== 1. constructors *)

Lemma normalise_indent_documented i : normalise_indent i = documented_indent i.
Proof.
  destruct i as [|z|s|]; cbn; try reflexivity.
  destruct (z <? 0)%Z eqn:E; [|reflexivity].
  apply Z.ltb_lt in E. destruct z; try lia. reflexivity.
Qed.

(* the signatures' defaults are the documented ones (table obligation over Gen/T_C15.v) *)
Lemma ctor_defaults_documented :
  formatter_defaults = mkdef None None (Some (lit "/")) None false (IInt 1) /\
  htmlformatter_defaults = mkdef None None (Some (lit "/")) None false (IInt 1) /\
  xmlformatter_defaults = mkdef None None (Some (lit "/")) None false (IInt 1).
Proof. repeat split; reflexivity. Qed.

Lemma language_constants_documented :
  fmt_lang_html = lit "html" /\ fmt_lang_xml = lit "xml" /\
  fmt_html_default_cdata = [lit "script"; lit "style"].
Proof. repeat split; reflexivity. Qed.

(* every constructor argument of every class arrives as documented *)
Theorem construct_documented c a : construct c a = documented_formatter c a.
Proof.
  destruct a as [l s v cd e i].
  unfold construct, new_Formatter, new_HTMLFormatter, new_XMLFormatter, formatter_init, documented_formatter,
    documented_language, arg.
  cbn [a_language a_subst a_void a_cdata a_eab a_indent].
  rewrite !normalise_indent_documented.
  destruct c.
  - destruct l as [[[|ch l]|]|]; destruct s, v, e, i; destruct cd as [[cd|]|]; reflexivity.
  - destruct s, v, e, i; destruct cd as [[cd|]|]; reflexivity.
  - destruct s, v, e, i; destruct cd as [[cd|]|]; reflexivity.
Qed.

(* ================================================================== 2. registries (table obligations) *)

Definition F (lang : str) (s : option subst) (void : str) (cdata : list str) (eab : bool) : formatter :=
  mkfmt lang s (Some void) cdata eab (lit " ").

Lemma html_registry_documented :
  let cd := [lit "script"; lit "style"] in
  html_registry =
  [ (None,                     F (lit "html") None            (lit "/") cd false);
    (Some (lit "html"),        F (lit "html") (Some SubHtml)  (lit "/") cd false);
    (Some (lit "html5"),       F (lit "html") (Some SubHtml5) (lit "")  cd true);
    (Some (lit "html5-4.12"),  F (lit "html") (Some SubHtml)  (lit "")  cd true);
    (Some (lit "minimal"),     F (lit "html") (Some SubXml)   (lit "/") cd false) ].
Proof. reflexivity. Qed.

Lemma xml_registry_documented :
  xml_registry =
  [ (None,                 F (lit "xml") None           (lit "/") [] false);
    (Some (lit "html"),    F (lit "xml") (Some SubHtml) (lit "/") [] false);
    (Some (lit "minimal"), F (lit "xml") (Some SubXml)  (lit "/") [] false) ].
Proof. reflexivity. Qed.

(* a registered object is what the class constructor makes of the documented arguments *)
Lemma registries_are_constructed :
  reg_get (Some (lit "html5")) html_registry =
    Some (construct CHTMLFormatter (mkargs None (Some (Some SubHtml5)) (Some (Some [])) None (Some true) None)) /\
  reg_get (Some (lit "minimal")) html_registry = Some (construct CHTMLFormatter (only_subst SubXml)) /\
  reg_get (Some (lit "html")) html_registry = Some (construct CHTMLFormatter (only_subst SubHtml)) /\
  reg_get None html_registry = Some (construct CHTMLFormatter (mkargs None (Some None) None None None None)) /\
  reg_get (Some (lit "minimal")) xml_registry = Some (construct CXMLFormatter (only_subst SubXml)) /\
  reg_get (Some (lit "html")) xml_registry = Some (construct CXMLFormatter (only_subst SubHtml)) /\
  reg_get None xml_registry = Some (construct CXMLFormatter (mkargs None (Some None) None None None None)).
Proof. repeat split; reflexivity. Qed.

(* string classes: which are emitted verbatim, with which delimiters *)
Lemma string_classes_documented :
  c15_string_classes =
  [ (0, (false, ([], [])));                              (* NavigableString *)
    (1, (true, (lit "<![CDATA[", lit "]]>")));           (* CData *)
    (2, (true, (lit "<?", lit ">")));                    (* ProcessingInstruction *)
    (3, (true, (lit "<?", lit "?>")));                   (* XMLProcessingInstruction *)
    (4, (true, (lit "<!--", lit "-->")));                (* Comment *)
    (5, (true, (lit "<?", lit "?>")));                   (* Declaration *)
    (6, (true, (lit "<!DOCTYPE ", [62; 10])));           (* Doctype *)
    (7, (false, ([], []))); (8, (false, ([], []))); (9, (false, ([], [])));      (* Stylesheet Script TemplateString *)
    (10, (false, ([], []))); (11, (false, ([], []))) ].                         (* RubyTextString RubyParenthesisString *)
Proof. reflexivity. Qed.

(* ================================================================== 3. resolution *)

Lemma formatter_for_name_object x f : formatter_for_name x (FObj f) = Some f.
Proof. reflexivity. Qed.

Lemma formatter_for_name_function x s :
  formatter_for_name x (FFunc s) =
  Some (documented_formatter (if x then CXMLFormatter else CHTMLFormatter) (only_subst s)).
Proof.
  destruct x; cbn [formatter_for_name]; f_equal.
Qed.

Lemma formatter_for_name_name x n :
  formatter_for_name x (FName n) = reg_get n (if x then xml_registry else html_registry).
Proof. reflexivity. Qed.

Definition known (k : option bool) : bool := match k with Some _ => true | None => false end.
Lemma is_xml_of_spec chain top :
  is_xml_of chain top = match find known chain with Some (Some b) => b | _ => top end.
Proof. induction chain as [|[b|] chain IH]; cbn; auto. Qed.

(* ================================================================== 4. attribute order *)

Lemma str_ltb_irrefl a : str_ltb a a = false.
Proof. induction a as [|x a IH]; cbn; [reflexivity|]. now rewrite N.ltb_irrefl. Qed.

Lemma str_ltb_trichotomy a b : str_ltb a b = false -> str_ltb b a = false -> a = b.
Proof.
  revert b. induction a as [|x a IH]; destruct b as [|y b]; cbn; try congruence; intros H1 H2.
  destruct (x <? y) eqn:E1; [discriminate|]. destruct (y <? x) eqn:E2; [discriminate|].
  apply N.ltb_ge in E1, E2. assert (x = y) by lia. subst. f_equal. now apply IH.
Qed.

Lemma str_ltb_asym a b : str_ltb a b = true -> str_ltb b a = false.
Proof.
  revert b. induction a as [|x a IH]; destruct b as [|y b]; cbn; try congruence; intros H.
  destruct (x <? y) eqn:E1.
  - apply N.ltb_lt in E1. destruct (y <? x) eqn:E2; [apply N.ltb_lt in E2; lia|reflexivity].
  - destruct (y <? x) eqn:E2; [discriminate|]. now apply IH.
Qed.

Lemma str_ltb_trans a b c : str_ltb a b = true -> str_ltb b c = true -> str_ltb a c = true.
Proof.
  revert b c. induction a as [|x a IH]; intros [|y b] [|z c]; cbn; try congruence; intros H1 H2.
  destruct (x <? y) eqn:E1; destruct (y <? z) eqn:E2;
    try apply N.ltb_lt in E1; try apply N.ltb_lt in E2; try apply N.ltb_ge in E1; try apply N.ltb_ge in E2.
  - assert (E : x <? z = true) by (apply N.ltb_lt; lia). now rewrite E.
  - destruct (z <? y) eqn:E3; [discriminate|]. apply N.ltb_ge in E3. assert (y = z) by lia; subst.
    assert (E : x <? z = true) by (apply N.ltb_lt; lia). now rewrite E.
  - destruct (y <? x) eqn:E3; [discriminate|]. apply N.ltb_ge in E3. assert (x = y) by lia; subst.
    assert (E : y <? z = true) by (apply N.ltb_lt; lia). now rewrite E.
  - destruct (y <? x) eqn:E3; [discriminate|]. destruct (z <? y) eqn:E4; [discriminate|].
    apply N.ltb_ge in E3, E4. assert (x = y) by lia. assert (y = z) by lia. subst.
    rewrite N.ltb_irrefl. now apply (IH b c).
Qed.

Lemma str_leb_total a b : str_leb a b = true \/ str_leb b a = true.
Proof.
  unfold str_leb. destruct (str_ltb b a) eqn:E; [right|left; reflexivity].
  now rewrite (str_ltb_asym _ _ E).
Qed.

Lemma str_leb_antisym a b : str_leb a b = true -> str_leb b a = true -> a = b.
Proof.
  unfold str_leb. intros H1 H2. apply negb_true_iff in H1, H2. now apply str_ltb_trichotomy.
Qed.

Lemma str_leb_trans a b c : str_leb a b = true -> str_leb b c = true -> str_leb a c = true.
Proof.
  unfold str_leb. intros H1 H2. apply negb_true_iff in H1, H2. apply negb_true_iff.
  destruct (str_ltb c a) eqn:E; [|reflexivity].
  destruct (str_ltb a b) eqn:E2.
  - rewrite (str_ltb_trans c a b E E2) in H2. discriminate.
  - rewrite (str_ltb_trichotomy a b E2 H1) in E. congruence.
Qed.

Lemma insert_attr_perm x l : Permutation (x :: l) (insert_attr x l).
Proof.
  induction l as [|y l IH]; cbn; [apply Permutation_refl|].
  destruct (str_leb (fst x) (fst y)); [apply Permutation_refl|].
  eapply perm_trans; [apply perm_swap|]. now apply perm_skip.
Qed.

Lemma sort_attrs_cons x l : sort_attrs (x :: l) = insert_attr x (sort_attrs l).
Proof. reflexivity. Qed.

Lemma sort_attrs_perm l : Permutation l (sort_attrs l).
Proof.
  induction l as [|x l IH]; [apply perm_nil|]. rewrite sort_attrs_cons.
  eapply perm_trans; [apply perm_skip; exact IH|]. apply insert_attr_perm.
Qed.

(* inserting two elements with different keys commutes, whatever the list *)
Lemma insert_attr_comm x y l :
  str_leb (fst x) (fst y) = true -> str_leb (fst y) (fst x) = false ->
  insert_attr x (insert_attr y l) = insert_attr y (insert_attr x l).
Proof.
  intros Hxy Hyx. induction l as [|c l IH]; cbn.
  - now rewrite Hxy, Hyx.
  - destruct (str_leb (fst y) (fst c)) eqn:Eyc.
    + assert (Exc : str_leb (fst x) (fst c) = true) by (eapply str_leb_trans; eassumption).
      cbn. rewrite Hxy, Exc. cbn. now rewrite Hyx, Eyc.
    + cbn. destruct (str_leb (fst x) (fst c)) eqn:Exc; cbn.
      * now rewrite Hyx, Eyc.
      * now rewrite Eyc, IH.
Qed.

Lemma insert_attr_comm_ne x y l :
  fst x <> fst y -> insert_attr x (insert_attr y l) = insert_attr y (insert_attr x l).
Proof.
  intros Hne. destruct (str_leb (fst x) (fst y)) eqn:E1; destruct (str_leb (fst y) (fst x)) eqn:E2.
  - exfalso. apply Hne. now apply str_leb_antisym.
  - now apply insert_attr_comm.
  - symmetry. now apply insert_attr_comm.
  - destruct (str_leb_total (fst x) (fst y)); congruence.
Qed.

Lemma NoDup_map_perm {X Y} (f : X -> Y) l l' : Permutation l l' -> NoDup (map f l) -> NoDup (map f l').
Proof. intros P. apply Permutation_NoDup. now apply Permutation_map. Qed.

(* the sorted list is independent of the insertion order *)
Theorem sort_attrs_order_invariant (a b : list attr) :
  Permutation a b -> NoDup (map fst a) -> sort_attrs a = sort_attrs b.
Proof.
  induction 1 as [|x l l' P IH|x y l|l l' l'' P1 IH1 P2 IH2]; intros ND.
  - reflexivity.
  - rewrite !sort_attrs_cons. inversion ND; subst. now rewrite IH.
  - rewrite !sort_attrs_cons. apply insert_attr_comm_ne. inversion ND as [|? ? Hn _]; subst. intros E. apply Hn. left. now symmetry.
  - rewrite IH1 by assumption. apply IH2. eapply NoDup_map_perm; eassumption.
Qed.

Lemma map_fst_eab fmt ats : map fst (map (fun kv : attr => (fst kv, eab_conv fmt (snd kv))) ats) = map fst ats.
Proof. rewrite map_map. now apply map_ext. Qed.

Theorem attributes_order_invariant fmt ats ats' :
  Permutation ats ats' -> NoDup (map fst ats) -> attributes fmt ats = attributes fmt ats'.
Proof.
  intros P ND. unfold attributes. apply sort_attrs_order_invariant.
  - now apply Permutation_map.
  - now rewrite map_fst_eab.
Qed.

(* ... and it is sorted by name (strictly, names being unique) and contains exactly the attributes *)
Definition key_lt (a b : attr) : Prop := str_ltb (fst a) (fst b) = true.
Definition key_le (a b : attr) : Prop := str_leb (fst a) (fst b) = true.

Lemma insert_attr_sorted x l : Sorted key_le l -> Sorted key_le (insert_attr x l).
Proof.
  induction 1 as [|y l S IH H]; cbn; [repeat constructor|].
  destruct (str_leb (fst x) (fst y)) eqn:E.
  - constructor; [now constructor|]. now constructor.
  - constructor; [exact IH|].
    assert (Hyx : key_le y x) by (destruct (str_leb_total (fst x) (fst y)); [congruence|assumption]).
    destruct l as [|z l]; cbn; [now constructor|].
    destruct (str_leb (fst x) (fst z)); constructor; [assumption|].
    now inversion H.
Qed.

Lemma sort_attrs_sorted l : Sorted key_le (sort_attrs l).
Proof. induction l; [constructor|]. rewrite sort_attrs_cons. now apply insert_attr_sorted. Qed.

Lemma key_le_trans : Relations_1.Transitive key_le.
Proof. intros a b c. apply str_leb_trans. Qed.

Lemma sorted_strict (s : list attr) :
  NoDup (map fst s) -> StronglySorted key_le s -> StronglySorted key_lt s.
Proof.
  induction s as [|x s IH]; intros ND SS; [constructor|].
  inversion SS as [|? ? SS' Hall]; subst. inversion ND as [|? ? Hn ND']; subst.
  constructor; [now apply IH|].
  rewrite Forall_forall in *. intros y Iy. specialize (Hall y Iy). unfold key_lt, key_le in *.
  destruct (str_ltb (fst x) (fst y)) eqn:E; [reflexivity|].
  exfalso. apply Hn. unfold str_leb in Hall. apply negb_true_iff in Hall.
  rewrite (str_ltb_trichotomy _ _ E Hall). now apply in_map.
Qed.

Theorem attributes_sorted fmt ats :
  NoDup (map fst ats) ->
  StronglySorted key_lt (attributes fmt ats) /\
  Permutation (map (fun kv : attr => (fst kv, eab_conv fmt (snd kv))) ats) (attributes fmt ats).
Proof.
  intros ND. split; [|apply sort_attrs_perm].
  apply sorted_strict.
  - eapply NoDup_map_perm; [apply sort_attrs_perm|]. now rewrite map_fst_eab.
  - apply (Sorted_StronglySorted key_le_trans). apply sort_attrs_sorted.
Qed.

(* ================================================================== 5. the decode loop computes the spec *)

Lemma nodup_app_l {X} (a b : list X) : NoDup (a ++ b) -> NoDup a.
Proof.
  induction a as [|x a IH]; intros H; [constructor|].
  inversion H; subst. constructor; [|now apply IH]. intros I. apply H2. apply in_or_app. now left.
Qed.
Lemma nodup_app_r {X} (a b : list X) : NoDup (a ++ b) -> NoDup b.
Proof. induction a as [|x a IH]; intros H; [exact H|]. inversion H; subst. now apply IH. Qed.

Section NodeInd.
  Variable P : node -> Prop.
  Hypothesis Htext : forall c s, P (NText c s).
  Hypothesis Helem : forall i nm pf ats cbe hid pw ks, Forall P ks -> P (NElem i nm pf ats cbe hid pw ks).
  Fixpoint node_ind' (n : node) : P n :=
    match n with
    | NText c s => Htext c s
    | NElem i nm pf ats cbe hid pw ks =>
        Helem i nm pf ats cbe hid pw ks
              ((fix go (l : list node) : Forall P l :=
                  match l with
                  | [] => Forall_nil P
                  | x :: l' => Forall_cons x (node_ind' x) (go l')
                  end) ks)
    end.
End NodeInd.

Section Decode.
  Variable apply : subst -> str -> str.
  Variable fmt : formatter.

  Notation step := (step apply fmt).
  Notation decode_loop := (decode_loop apply fmt).
  Notation piece_of := (piece_of apply fmt).
  Notation format_tag := (format_tag apply fmt).
  Notation output_ready := (output_ready apply fmt).
  Notation render_plain := (render_plain apply fmt).
  Notation render_pretty := (render_pretty apply fmt).
  Notation line := (line fmt).
  Local Arguments Formatter.strip : simpl never.
  Local Arguments Formatter.output_ready : simpl never.
  Local Arguments Formatter.format_tag : simpl never.
  Local Arguments Formatter.indent_string : simpl never.
  Local Arguments Formatter.rep : simpl never.

  Lemma decode_loop_cons lvl slt ev evs :
    decode_loop lvl slt (ev :: evs) =
    fst (fst (step lvl slt ev)) ++ decode_loop (snd (fst (step lvl slt ev))) (snd (step lvl slt ev)) evs.
  Proof. cbn [Formatter.decode_loop]. destruct (step lvl slt ev) as [[p l] s]. reflexivity. Qed.

  (* --- without pretty-printing the state is irrelevant --- *)
  Lemma step_plain slt ev : exists slt', step None slt ev = (piece_of ev, None, slt').
  Proof.
    unfold Formatter.step.
    destruct ev as [e|e|e|c s pn], slt as [k|]; cbn;
      try destruct (should_pretty_print e); try destruct (Nat.eqb (ei_id e) k); eexists; reflexivity.
  Qed.

  Lemma decode_loop_plain evs : forall slt, decode_loop None slt evs = flat_map piece_of evs.
  Proof.
    induction evs as [|ev evs IH]; intros slt; [reflexivity|].
    rewrite decode_loop_cons. destruct (step_plain slt ev) as [slt' E]. rewrite E. cbn [fst snd flat_map].
    now rewrite IH.
  Qed.

  Lemma pieces_plain n : forall pn, flat_map piece_of (events pn n) = render_plain pn n.
  Proof.
    induction n as [c s|i nm pf ats cbe hid pw ks IH] using node_ind'; intros pn.
    - cbn. now rewrite app_nil_r.
    - cbn [events FormatterSpec.render_plain]. unfold einfo_of.
      destruct (cbe && is_nil ks); [cbn; now rewrite app_nil_r|].
      cbn [flat_map Formatter.piece_of]. rewrite flat_map_app. cbn [flat_map Formatter.piece_of]. rewrite app_nil_r.
      f_equal. f_equal.
      induction IH as [|k ks Hk _ IHks]; [reflexivity|].
      cbn [flat_map]. rewrite flat_map_app. now rewrite Hk, IHks.
  Qed.

  (* --- pretty-printing --- *)
  Lemma indent_string_rep p l ib ia :
    indent_string fmt p l ib ia =
    (if ib then rep (f_indent fmt) (Z.to_nat l) else []) ++ p ++ (if ia then [10] else []).
  Proof.
    unfold indent_string. destruct ib; cbn [andb]; [|reflexivity].
    destruct (Z.eqb_spec l 0); [subst|]; reflexivity.
  Qed.

  Lemma pred_succ_level l : Z.pred (l + 1) = l.
  Proof. lia. Qed.

  (* inside a string-literal element nothing is decorated *)
  Lemma step_literal l k ev :
    (forall e, ev = EvEnd e -> ei_id e <> k) ->
    step (Some l) (Some k) ev =
    (piece_of ev,
     match ev with EvStart _ => Some (l + 1)%Z | EvEnd _ => Some (Z.pred l) | _ => Some l end,
     Some k).
  Proof.
    intros H. unfold Formatter.step. destruct ev as [e|e|e|c s pn]; cbn; try reflexivity.
    assert (N : Nat.eqb (ei_id e) k = false) by (apply Nat.eqb_neq; now apply H).
    rewrite N. reflexivity.
  Qed.

  Lemma literal_forall ks :
    Forall (fun n => forall pn k l rest, ~ In k (node_ids n) ->
              decode_loop (Some l) (Some k) (events pn n ++ rest) =
              render_plain pn n ++ decode_loop (Some l) (Some k) rest) ks ->
    forall pn k l rest, ~ In k (flat_map node_ids ks) ->
    decode_loop (Some l) (Some k) (flat_map (events pn) ks ++ rest) =
    flat_map (render_plain pn) ks ++ decode_loop (Some l) (Some k) rest.
  Proof.
    induction 1 as [|x ks Hx _ IHks]; intros pn k l rest Hk; [reflexivity|].
    cbn [flat_map] in *. rewrite in_app_iff in Hk. rewrite <- !app_assoc.
    rewrite Hx by tauto. f_equal. apply IHks. tauto.
  Qed.

  Lemma literal_node n :
    forall pn k l rest, ~ In k (node_ids n) ->
    decode_loop (Some l) (Some k) (events pn n ++ rest) =
    render_plain pn n ++ decode_loop (Some l) (Some k) rest.
  Proof.
    induction n as [c s|i nm pf ats cbe hid pw ks IH] using node_ind'; intros pn k l rest Hk.
    - cbn [events app]. rewrite decode_loop_cons, step_literal by (intros; discriminate).
      reflexivity.
    - cbn [events FormatterSpec.render_plain]. unfold einfo_of.
      set (e := mkei i nm pf ats (cbe && is_nil ks) hid pw).
      cbn [node_ids] in Hk.
      destruct (cbe && is_nil ks) eqn:Emp.
      + cbn [app]. rewrite decode_loop_cons, step_literal by (intros; discriminate). reflexivity.
      + rewrite <- app_comm_cons. rewrite decode_loop_cons, step_literal by (intros; discriminate).
        cbn [fst snd Formatter.piece_of]. rewrite <- !app_assoc. f_equal.
        assert (Hks : ~ In k (flat_map node_ids ks)) by (intros X; apply Hk; now right).
        assert (Hi : i <> k) by (intros X; apply Hk; now left).
        clear Hk.
        rewrite (literal_forall ks IH) by assumption. f_equal.
        cbn [app]. rewrite decode_loop_cons, step_literal by (intros e' E; inversion E; subst; exact Hi).
        cbn [fst snd Formatter.piece_of]. now rewrite pred_succ_level.
  Qed.

  Lemma literal_list ks :
    forall pn k l rest, ~ In k (flat_map node_ids ks) ->
    decode_loop (Some l) (Some k) (flat_map (events pn) ks ++ rest) =
    flat_map (render_plain pn) ks ++ decode_loop (Some l) (Some k) rest.
  Proof.
    induction ks as [|x ks IH]; intros pn k l rest Hk; [reflexivity|].
    cbn [flat_map] in *. rewrite in_app_iff in Hk. rewrite <- !app_assoc.
    rewrite literal_node by tauto. f_equal. apply IH. tauto.
  Qed.

  Lemma step_pretty_string l c s pn :
    step (Some l) None (EvString c s pn) = (line l (strip (output_ready c s pn)), Some l, None).
  Proof.
    unfold Formatter.step, FormatterSpec.line. cbn.
    destruct (strip (output_ready c s pn)) as [|x0 p0]; [reflexivity|]. cbn [is_nil]. rewrite indent_string_rep. reflexivity.
  Qed.

  Lemma step_pretty_empty l e :
    step (Some l) None (EvEmpty e) = (line l (format_tag e true), Some l, None).
  Proof.
    unfold Formatter.step, FormatterSpec.line. cbn.
    destruct (format_tag e true) as [|x0 p0]; [reflexivity|]. cbn [is_nil]. rewrite indent_string_rep. reflexivity.
  Qed.

  Lemma step_pretty_start l e :
    should_pretty_print e = true ->
    step (Some l) None (EvStart e) = (line l (format_tag e true), Some (l + 1)%Z, None).
  Proof.
    intros H. unfold Formatter.step, FormatterSpec.line. cbn. rewrite H. cbn.
    destruct (format_tag e true) as [|x0 p0]; [reflexivity|]. cbn [is_nil]. rewrite indent_string_rep. reflexivity.
  Qed.

  Lemma step_pretty_end l e :
    step (Some l) None (EvEnd e) = (line (Z.pred l) (format_tag e false), Some (Z.pred l), None).
  Proof.
    unfold Formatter.step, FormatterSpec.line. cbn.
    destruct (format_tag e false) as [|x0 p0]; [reflexivity|]. cbn [is_nil]. rewrite indent_string_rep. reflexivity.
  Qed.

  Lemma step_enter_literal l e :
    should_pretty_print e = false ->
    step (Some l) None (EvStart e) =
    ((if is_nil (format_tag e true) then [] else rep (f_indent fmt) (Z.to_nat l) ++ format_tag e true),
     Some (l + 1)%Z, Some (ei_id e)).
  Proof.
    intros H. unfold Formatter.step. cbn. rewrite H. cbn.
    destruct (format_tag e true) as [|x0 p0]; [reflexivity|]. cbn [is_nil]. rewrite indent_string_rep.
    cbn. now rewrite app_nil_r.
  Qed.

  Lemma step_leave_literal l e :
    step (Some l) (Some (ei_id e)) (EvEnd e) =
    ((if is_nil (format_tag e false) then [] else format_tag e false ++ [10]), Some (Z.pred l), None).
  Proof.
    unfold Formatter.step. cbn. rewrite Nat.eqb_refl. cbn.
    destruct (format_tag e false) as [|x0 p0]; [reflexivity|]. cbn [is_nil]. rewrite indent_string_rep. reflexivity.
  Qed.

  Lemma pretty_forall ks :
    Forall (fun n => forall pn l rest, NoDup (node_ids n) ->
              decode_loop (Some l) None (events pn n ++ rest) =
              render_pretty l pn n ++ decode_loop (Some l) None rest) ks ->
    forall pn l rest, NoDup (flat_map node_ids ks) ->
    decode_loop (Some l) None (flat_map (events pn) ks ++ rest) =
    flat_map (render_pretty l pn) ks ++ decode_loop (Some l) None rest.
  Proof.
    induction 1 as [|x ks Hx _ IHks]; intros pn l rest ND; [reflexivity|].
    cbn [flat_map] in *. rewrite <- !app_assoc.
    rewrite Hx by (eapply nodup_app_l; exact ND). f_equal.
    apply IHks. eapply nodup_app_r; exact ND.
  Qed.

  Lemma pretty_node n :
    forall pn l rest, NoDup (node_ids n) ->
    decode_loop (Some l) None (events pn n ++ rest) =
    render_pretty l pn n ++ decode_loop (Some l) None rest.
  Proof.
    induction n as [c s|i nm pf ats cbe hid pw ks IH] using node_ind'; intros pn l rest ND.
    - cbn [events app]. rewrite decode_loop_cons, step_pretty_string. reflexivity.
    - cbn [events FormatterSpec.render_pretty]. unfold einfo_of.
      set (e := mkei i nm pf ats (cbe && is_nil ks) hid pw).
      cbn [node_ids] in ND. inversion ND as [|? ? Hi NDks]; subst.
      destruct (cbe && is_nil ks) eqn:Emp.
      + cbn [app]. rewrite decode_loop_cons, step_pretty_empty. reflexivity.
      + rewrite <- app_comm_cons, decode_loop_cons.
        assert (SPP : should_pretty_print e = negb (memS nm pw)) by reflexivity.
        destruct (negb (memS nm pw)) eqn:PP.
        * rewrite step_pretty_start by assumption. cbn [fst snd]. rewrite <- !app_assoc. f_equal.
          rewrite (pretty_forall ks IH) by assumption. f_equal. cbn [app]. rewrite decode_loop_cons, step_pretty_end.
          cbn [fst snd]. now rewrite pred_succ_level.
        * rewrite step_enter_literal by assumption. cbn [fst snd]. rewrite <- !app_assoc. f_equal.
          change (ei_id e) with i.
          rewrite literal_list by assumption. f_equal.
          cbn [app]. rewrite decode_loop_cons.
          change (Some i) with (Some (ei_id e)). rewrite step_leave_literal.
          cbn [fst snd]. now rewrite pred_succ_level.
  Qed.

  Lemma pretty_list ks :
    forall pn l rest, NoDup (flat_map node_ids ks) ->
    decode_loop (Some l) None (flat_map (events pn) ks ++ rest) =
    flat_map (render_pretty l pn) ks ++ decode_loop (Some l) None rest.
  Proof.
    induction ks as [|x ks IH]; intros pn l rest ND; [reflexivity|].
    cbn [flat_map] in *. rewrite <- !app_assoc.
    rewrite pretty_node by (eapply nodup_app_l; exact ND). f_equal.
    apply IH. eapply nodup_app_r; exact ND.
  Qed.

  Lemma flat_map_pieces_plain ks pn :
    flat_map piece_of (flat_map (events pn) ks) = flat_map (render_plain pn) ks.
  Proof.
    induction ks as [|x ks IH]; [reflexivity|]. cbn [flat_map]. rewrite flat_map_app. now rewrite pieces_plain, IH.
  Qed.

  (* decode / decode_contents = the structural rendering, for every tree, level and formatter *)
  Theorem decode_refines_spec lvl incl root :
    NoDup (node_ids root) ->
    decode apply fmt lvl incl root = render_spec apply fmt lvl incl root.
  Proof.
    intros ND. unfold decode, render_spec, root_events, render_node.
    destruct lvl as [l|].
    - destruct root as [c s|i nm pf ats cbe hid pw ks].
      + rewrite <- (app_nil_r (events None (NText c s))). rewrite pretty_node by assumption. now rewrite app_nil_r.
      + destruct (incl && negb hid).
        * rewrite <- (app_nil_r (events None _)). rewrite pretty_node by assumption. now rewrite app_nil_r.
        * rewrite <- (app_nil_r (flat_map _ ks)). cbn [node_ids] in ND. inversion ND; subst.
          rewrite pretty_list by assumption. now rewrite app_nil_r.
    - rewrite decode_loop_plain.
      destruct root as [c s|i nm pf ats cbe hid pw ks].
      + apply pieces_plain.
      + destruct (incl && negb hid); [apply pieces_plain|apply flat_map_pieces_plain].
  Qed.

  (* without pretty-printing no hypothesis on identities is needed *)
  Theorem decode_plain_refines_spec incl root :
    decode apply fmt None incl root = render_spec apply fmt None incl root.
  Proof.
    unfold decode, render_spec, root_events, render_node. rewrite decode_loop_plain.
    destruct root as [c s|i nm pf ats cbe hid pw ks].
    - apply pieces_plain.
    - destruct (incl && negb hid); [apply pieces_plain|apply flat_map_pieces_plain].
  Qed.
End Decode.

(* ================================================================== 6. where the substitution function matters *)

(* the complete case analysis of a text node's piece *)
Theorem text_piece apply fmt c s pn :
  output_ready apply fmt c s pn =
  fst (snd (class_row c)) ++
  (match f_subst fmt with
   | Some f => if verbatim_class c || in_cdata_parent fmt pn then s else apply f s
   | None => s
   end) ++ snd (snd (class_row c)).
Proof.
  unfold output_ready, verbatim_class, substitute. destruct (class_row c) as [pre [px sx]]. cbn.
  destruct pre; cbn; [now destruct (f_subst fmt)|].
  destruct (f_subst fmt); [|reflexivity]. now destruct (in_cdata_parent fmt pn).
Qed.

(* ... and of an attribute *)
Theorem attr_piece apply fmt k v :
  attr_text apply fmt (k, v) =
  match attr_value_text v with
  | None => k
  | Some t => k ++ 61 :: quoted_attribute_value (match f_subst fmt with Some f => apply f t | None => t end)
  end.
Proof.
  unfold attr_text, substitute. cbn. destruct (attr_value_text v); [|reflexivity]. now destruct (f_subst fmt).
Qed.

Section Locality.
  Variable fmt : formatter.

  Definition ev_sites (ev : event) : list str :=
    match ev with
    | EvStart e | EvEmpty e => if ei_hidden e then [] else attr_sites fmt (ei_attrs e)
    | EvEnd _ => []
    | EvString c s pn => if verbatim_class c || in_cdata_parent fmt pn then [] else [s]
    end.
  Definition ev_call_sites (ev : event) : list str :=
    match ev with
    | EvStart e | EvEmpty e => if ei_hidden e then [] else attr_sites fmt (ei_attrs e)
    | EvEnd _ => []
    | EvString c s pn => if in_cdata_parent fmt pn then [] else [s]
    end.

  Lemma flat_map_flat_map {X Y Z} (f : X -> list Y) (g : Y -> list Z) l :
    flat_map g (flat_map f l) = flat_map (fun x => flat_map g (f x)) l.
  Proof. induction l; cbn; [reflexivity|]. now rewrite flat_map_app, IHl. Qed.

  Lemma flat_map_Forall {X Y} (f g : X -> list Y) l :
    Forall (fun x => f x = g x) l -> flat_map f l = flat_map g l.
  Proof. induction 1 as [|x l Hx _ IH]; cbn; [reflexivity|]. now rewrite Hx, IH. Qed.

  Lemma andb_nil_inv {X} (b : bool) (ks : list X) : b && is_nil ks = true -> ks = [].
  Proof. destruct b, ks; cbn; congruence. Qed.

  Lemma sites_of_events (evs : event -> list str) (sites : option str -> node -> list str) :
    (forall c s pn, evs (EvString c s pn) = sites pn (NText c s)) ->
    (forall e, evs (EvEnd e) = []) ->
    (forall e, evs (EvEmpty e) = evs (EvStart e)) ->
    (forall i nm pf ats cbe hid pw ks pn,
        sites pn (NElem i nm pf ats cbe hid pw ks) =
        evs (EvStart (einfo_of i nm pf ats cbe hid pw ks)) ++ flat_map (sites (Some nm)) ks) ->
    forall n pn, flat_map evs (events pn n) = sites pn n.
  Proof.
    intros Hs He Hm Hn.
    induction n as [c s|i nm pf ats cbe hid pw ks IH] using node_ind'; intros pn.
    - cbn. now rewrite app_nil_r, Hs.
    - cbn [events]. rewrite Hn. unfold einfo_of.
      destruct (cbe && is_nil ks) eqn:Emp.
      + apply andb_nil_inv in Emp. subst ks. cbn. now rewrite Hm.
      + cbn [flat_map]. rewrite flat_map_app. cbn [flat_map]. rewrite He, !app_nil_r. f_equal.
        rewrite flat_map_flat_map. apply flat_map_Forall.
        eapply Forall_impl; [|exact IH]. intros x Hx. apply Hx.
  Qed.

  Lemma subst_sites_of_events n pn : flat_map ev_sites (events pn n) = subst_sites fmt pn n.
  Proof. apply sites_of_events; reflexivity. Qed.
  Lemma call_sites_of_events n pn : flat_map ev_call_sites (events pn n) = call_sites fmt pn n.
  Proof. apply sites_of_events; reflexivity. Qed.

  Lemma root_sites_of_events (evs : event -> list str) (sites : option str -> node -> list str) :
    (forall n pn, flat_map evs (events pn n) = sites pn n) ->
    forall incl root, flat_map evs (root_events incl root) = root_sites sites incl root.
  Proof.
    intros H incl root. unfold root_events, root_sites.
    destruct root as [c s|i nm pf ats cbe hid pw ks]; [apply H|].
    destruct (incl && negb hid); [apply H|].
    rewrite flat_map_flat_map. apply flat_map_ext. intros. apply H.
  Qed.

  (* --- the calls --- *)
  Lemma calls_of_some f ev : f_subst fmt = Some f -> calls_of fmt ev = ev_call_sites ev.
  Proof.
    intros Hf.
    assert (A : forall e, format_tag_calls fmt e true = if ei_hidden e then [] else attr_sites fmt (ei_attrs e)).
    { intros e. unfold format_tag_calls, attr_sites. destruct (ei_hidden e); [reflexivity|].
      apply flat_map_ext. intros kv. unfold attr_calls, substitute_calls. rewrite Hf.
      now destruct (attr_value_text (snd kv)). }
    destruct ev as [e|e|e|c s pn]; cbn [calls_of ev_call_sites]; try apply A.
    - unfold format_tag_calls. now destruct (ei_hidden e).
    - unfold output_ready_calls, substitute_calls. rewrite Hf. cbn. now destruct (in_cdata_parent fmt pn).
  Qed.

  Lemma calls_of_none ev : f_subst fmt = None -> calls_of fmt ev = [].
  Proof.
    intros Hf. destruct ev as [e|e|e|c s pn]; cbn [calls_of];
      unfold format_tag_calls, output_ready_calls, substitute_calls; rewrite ?Hf; try reflexivity;
      destruct (ei_hidden e); try reflexivity;
      induction (attributes fmt (ei_attrs e)) as [|kv l IH]; cbn; try reflexivity;
      unfold attr_calls at 1, substitute_calls; rewrite Hf; destruct (attr_value_text (snd kv)); cbn; exact IH.
  Qed.

  Theorem decode_calls_spec incl root :
    decode_calls fmt incl root =
    match f_subst fmt with
    | Some _ => root_sites (call_sites fmt) incl root
    | None => []
    end.
  Proof.
    unfold decode_calls. destruct (f_subst fmt) as [f|] eqn:Hf.
    - rewrite <- (root_sites_of_events ev_call_sites (call_sites fmt) call_sites_of_events).
      apply flat_map_ext. intros. now apply (calls_of_some f).
    - induction (root_events incl root) as [|ev evs IH]; [reflexivity|].
      cbn [flat_map]. now rewrite calls_of_none, IH.
  Qed.

  (* --- the results --- *)
  Lemma piece_ext a1 a2 ev :
    (forall f s, f_subst fmt = Some f -> In s (ev_sites ev) -> a1 f s = a2 f s) ->
    piece_of a1 fmt ev = piece_of a2 fmt ev.
  Proof.
    intros H.
    assert (A : forall e b, (forall f s, f_subst fmt = Some f ->
                                    In s (if ei_hidden e then [] else attr_sites fmt (ei_attrs e)) -> a1 f s = a2 f s) ->
                       format_tag a1 fmt e b = format_tag a2 fmt e b).
    { intros e b He. unfold format_tag. destruct (ei_hidden e); [reflexivity|].
      f_equal. f_equal. f_equal. destruct b; [|reflexivity]. f_equal.
      unfold attribute_string.
      assert (M : map (attr_text a1 fmt) (attributes fmt (ei_attrs e)) = map (attr_text a2 fmt) (attributes fmt (ei_attrs e))).
      { apply map_ext_in. intros [k v] Ikv. rewrite !attr_piece.
        destruct (attr_value_text v) as [t|] eqn:Ev; [|reflexivity].
        destruct (f_subst fmt) as [f|] eqn:Hf; [|reflexivity].
        rewrite (He f t eq_refl); [reflexivity|].
        unfold attr_sites. apply in_flat_map. exists (k, v). split; [exact Ikv|]. cbn. rewrite Ev. now left. }
      now rewrite M. }
    destruct ev as [e|e|e|c s pn]; cbn [piece_of]; try (apply A; exact H).
    - reflexivity.
    - rewrite !text_piece. cbn [ev_sites] in H.
      destruct (f_subst fmt) as [f|] eqn:Hf; [|reflexivity].
      destruct (verbatim_class c || in_cdata_parent fmt pn); [reflexivity|].
      rewrite (H f s eq_refl); [reflexivity|now left].
  Qed.

  Lemma step_ext a1 a2 lvl slt ev :
    piece_of a1 fmt ev = piece_of a2 fmt ev -> step a1 fmt lvl slt ev = step a2 fmt lvl slt ev.
  Proof. intros H. unfold step. now rewrite H. Qed.

  Lemma decode_loop_ext a1 a2 evs :
    (forall ev, In ev evs -> piece_of a1 fmt ev = piece_of a2 fmt ev) ->
    forall lvl slt, decode_loop a1 fmt lvl slt evs = decode_loop a2 fmt lvl slt evs.
  Proof.
    induction evs as [|ev evs IH]; intros H lvl slt; [reflexivity|].
    rewrite !decode_loop_cons. rewrite (step_ext a1 a2 lvl slt ev) by (apply H; now left).
    f_equal. apply IH. intros. apply H. now right.
  Qed.

  (* The output depends on the substitution functions only through their values on the text nodes
     outside cdata-containing tags (verbatim classes excluded) and on the attribute values. *)
  Theorem subst_locality a1 a2 lvl incl root :
    (forall f s, f_subst fmt = Some f -> In s (root_sites (subst_sites fmt) incl root) -> a1 f s = a2 f s) ->
    decode a1 fmt lvl incl root = decode a2 fmt lvl incl root.
  Proof.
    intros H. unfold decode. apply decode_loop_ext. intros ev Iev. apply piece_ext.
    intros f s Hf Is. apply (H f s Hf).
    rewrite <- (root_sites_of_events ev_sites (subst_sites fmt) subst_sites_of_events).
    apply in_flat_map. now exists ev.
  Qed.
End Locality.

(* without a substitution function nothing is substituted: the functions are not consulted at all *)
Theorem no_substitution a1 a2 fmt lvl incl root :
  f_subst fmt = None -> decode a1 fmt lvl incl root = decode a2 fmt lvl incl root.
Proof. intros Hf. apply subst_locality. intros f s E. congruence. Qed.

(* ================================================================== 7. attribute insertion order, whole trees *)

Section AttrOrder.
  Variable apply : subst -> str -> str.
  Variable fmt : formatter.

  (* what the loop reads from an event besides its piece *)
  Definition ev_shape (ev : event) : nat * nat * bool :=
    match ev with
    | EvStart e => (0, ei_id e, should_pretty_print e)
    | EvEnd e => (1, ei_id e, true)
    | EvEmpty e => (2, 0, true)
    | EvString _ _ _ => (3, 0, true)
    end%nat.
  Definition ev_same (e1 e2 : event) : Prop :=
    piece_of apply fmt e1 = piece_of apply fmt e2 /\ ev_shape e1 = ev_shape e2.

  Lemma step_same lvl slt e1 e2 : ev_same e1 e2 -> step apply fmt lvl slt e1 = step apply fmt lvl slt e2.
  Proof.
    intros [Hp Hs]. unfold step. rewrite Hp.
    destruct e1 as [a|a|a|c s pn], e2 as [b|b|b|c' s' pn']; cbn in Hs; try discriminate; cbn [is_string_event].
    - injection Hs as Hi Hpp. now rewrite Hi, Hpp.
    - injection Hs as Hi. now rewrite Hi.
    - reflexivity.
    - reflexivity.
  Qed.

  Lemma decode_loop_same evs evs' :
    Forall2 ev_same evs evs' ->
    forall lvl slt, decode_loop apply fmt lvl slt evs = decode_loop apply fmt lvl slt evs'.
  Proof.
    induction 1 as [|e1 e2 evs evs' H _ IH]; intros lvl slt; [reflexivity|].
    rewrite !decode_loop_cons, (step_same lvl slt e1 e2 H). now rewrite IH.
  Qed.

  Lemma format_tag_attrs i nm pf ats ats' emp hid pw b :
    attributes fmt ats = attributes fmt ats' ->
    format_tag apply fmt (mkei i nm pf ats emp hid pw) b = format_tag apply fmt (mkei i nm pf ats' emp hid pw) b.
  Proof.
    intros H. unfold format_tag, attribute_string, qname, void_slash.
    cbn [ei_attrs ei_hidden ei_prefix ei_name ei_empty]. now rewrite H.
  Qed.

  Lemma Forall2_app' {X} (R : X -> X -> Prop) a a' b b' :
    Forall2 R a a' -> Forall2 R b b' -> Forall2 R (a ++ b) (a' ++ b').
  Proof. induction 1; cbn; [auto|]. intros. constructor; auto. Qed.

  Lemma events_attr_perm n :
    forall n' pn, attr_perm n n' -> Forall2 ev_same (events pn n) (events pn n').
  Proof.
    induction n as [c s|i nm pf ats cbe hid pw ks IH] using node_ind'; intros n' pn H.
    - destruct n' as [c' s'|]; [|destruct H]. destruct H as [-> ->]. cbn [events]. constructor; [split; reflexivity|constructor].
    - destruct n' as [|i' nm' pf' ats' cbe' hid' pw' ks']; [destruct H|].
      cbn [attr_perm] in H. destruct H as [[-> [-> [-> [-> [-> ->]]]]] [P [ND A2]]].
      pose proof (attributes_order_invariant fmt ats ats' P ND) as EA.
      assert (K : is_nil ks = is_nil ks' /\
                  Forall2 ev_same (flat_map (events (Some nm')) ks) (flat_map (events (Some nm')) ks')).
      { clear - IH A2. revert ks' A2. induction IH as [|x ks Hx _ IHks]; intros [|y ks'] A2; try destruct A2.
        - split; [reflexivity|constructor].
        - destruct (IHks ks' H0) as [_ F]. split; [reflexivity|].
          cbn [flat_map]. apply Forall2_app'; [now apply Hx|exact F]. }
      destruct K as [Kn KF]. cbn [events]. rewrite <- Kn.
      destruct (cbe' && is_nil ks).
      + constructor; [|constructor]. split; [|reflexivity]. cbn [piece_of]. now apply format_tag_attrs.
      + constructor.
        * split; [|reflexivity]. cbn [piece_of]. now apply format_tag_attrs.
        * apply Forall2_app'; [exact KF|]. constructor; [|constructor].
          split; [|reflexivity]. cbn [piece_of]. now apply format_tag_attrs.
  Qed.

  (* rendering is invariant under the order in which attributes were inserted, anywhere in the tree *)
  Theorem decode_attr_order_invariant lvl incl t t' :
    attr_perm t t' -> decode apply fmt lvl incl t = decode apply fmt lvl incl t'.
  Proof.
    intros H. unfold decode. apply decode_loop_same. unfold root_events.
    destruct t as [c s|i nm pf ats cbe hid pw ks], t' as [c' s'|i' nm' pf' ats' cbe' hid' pw' ks'].
    - now apply events_attr_perm.
    - destruct H.
    - destruct H.
    - pose proof (events_attr_perm _ _ None H) as E.
      cbn [attr_perm] in H. destruct H as [[-> [-> [-> [-> [-> ->]]]]] [P [ND A2]]].
      destruct (incl && negb hid'); [exact E|].
      clear - A2. revert ks' A2. induction ks as [|x ks IHks]; intros [|y ks'] A2; try destruct A2; [constructor|].
      cbn [flat_map]. apply Forall2_app'; [now apply events_attr_perm|now apply IHks].
  Qed.
End AttrOrder.

(* ================================================================== 8. the options, end to end *)

(* any class, any arguments: the output is the structural rendering under the documented options *)
Theorem options_end_to_end apply c a lvl incl root :
  NoDup (node_ids root) ->
  decode apply (construct c a) lvl incl root = render_spec apply (documented_formatter c a) lvl incl root.
Proof. intros ND. rewrite construct_documented. now apply decode_refines_spec. Qed.

(* shape of a visible tag: the void prefix goes to empty elements only, attributes to start tags only *)
Theorem tag_piece apply fmt e opening :
  ei_hidden e = false ->
  format_tag apply fmt e opening =
  [60] ++ (if opening then [] else [47]) ++ qname e
       ++ (if opening then attribute_string apply fmt e else [])
       ++ (if ei_empty e then match f_void fmt with Some v => v | None => [] end else []) ++ [62].
Proof. intros H. unfold format_tag, void_slash. now rewrite H. Qed.

Theorem hidden_tag_piece apply fmt e opening : ei_hidden e = true -> format_tag apply fmt e opening = [].
Proof. intros H. unfold format_tag. now rewrite H. Qed.

(* empty_attributes_are_booleans: exactly the empty-string values become bare names *)
Theorem eab_effect fmt v :
  eab_conv fmt v = match v with AStr [] => if f_eab fmt then ANone else AStr [] | _ => v end.
Proof. unfold eab_conv. destruct (f_eab fmt), v as [|[|]| |]; reflexivity. Qed.

Lemma join_sp_flat (l : list str) :
  match l with [] => [] | _ => 32 :: join [32] l end = flat_map (fun t => 32 :: t) l.
Proof.
  induction l as [|t l IH]; [reflexivity|].
  destruct l as [|t' r]; [cbn; now rewrite app_nil_r|].
  cbn [flat_map] in *. rewrite <- IH. reflexivity.
Qed.

Theorem attribute_string_spec apply fmt e :
  attribute_string apply fmt e =
  flat_map (fun kv => 32 :: attr_text apply fmt kv) (attributes fmt (ei_attrs e)).
Proof.
  unfold attribute_string.
  transitivity (flat_map (fun t => 32 :: t) (map (attr_text apply fmt) (attributes fmt (ei_attrs e)))).
  { rewrite <- join_sp_flat. now destruct (map (attr_text apply fmt) (attributes fmt (ei_attrs e))). }
  induction (attributes fmt (ei_attrs e)) as [|x l IH]; [reflexivity|]. cbn [map flat_map]. now rewrite IH.
Qed.

(* ================================================================== 9. Tag._event_stream emits the bracket sequence *)

Definition nopop (par : option nat) (stack : list einfo) : Prop :=
  match stack with [] => True | t :: _ => is_top par t = true end.
Definition next_ok (ids : list nat) (rest : list item) : Prop :=
  match rest with
  | [] => True
  | it :: _ => match parent_of it with Some p => ~ In p ids | None => True end
  end.

Lemma pop_until_nopop par stack : nopop par stack -> pop_until par stack = ([], stack).
Proof. destruct stack as [|t st]; cbn; [reflexivity|]. now intros ->. Qed.

Lemma preorder_head par pn n : exists it tl, preorder par pn n = it :: tl /\ parent_of it = par.
Proof. destruct n; cbn; eexists; eexists; split; reflexivity. Qed.

(* a finished element on top of the stack is closed before anything that is not its child *)
Lemma close_finished e stack rest :
  next_ok [ei_id e] rest -> event_stream (e :: stack) rest = EvEnd e :: event_stream stack rest.
Proof.
  destruct rest as [|it rest]; intros H; [reflexivity|].
  cbn [event_stream pop_until].
  assert (T : is_top (parent_of it) e = false).
  { unfold is_top. cbn in H. destruct (parent_of it) as [p|]; [|reflexivity].
    apply Nat.eqb_neq. intros ->. apply H. now left. }
  rewrite T. destruct (pop_until (parent_of it) stack) as [evs st']. reflexivity.
Qed.

Lemma next_ok_sub ids ids' rest : (forall x, In x ids' -> In x ids) -> next_ok ids rest -> next_ok ids' rest.
Proof.
  intros S. destruct rest as [|it rest]; [trivial|]. cbn. destruct (parent_of it); [|trivial]. intros H I. apply H. now apply S.
Qed.

Definition es_statement (n : node) : Prop :=
  forall par pn stack rest,
    NoDup (node_ids n) -> nopop par stack -> next_ok (node_ids n) rest ->
    event_stream stack (preorder par pn n ++ rest) = events pn n ++ event_stream stack rest.

Lemma es_list ks :
  Forall es_statement ks ->
  forall par pn stack rest,
    NoDup (flat_map node_ids ks) -> nopop par stack ->
    match par with Some p => ~ In p (flat_map node_ids ks) | None => True end ->
    next_ok (flat_map node_ids ks) rest ->
    event_stream stack (flat_map (preorder par pn) ks ++ rest) =
    flat_map (events pn) ks ++ event_stream stack rest.
Proof.
  induction 1 as [|x ks Hx _ IH]; intros par pn stack rest ND NP Hpar NX; [reflexivity|].
  cbn [flat_map] in *. rewrite <- !app_assoc.
  rewrite Hx.
  - f_equal. apply IH.
    + eapply nodup_app_r; exact ND.
    + exact NP.
    + destruct par; [|trivial]. intros I. apply Hpar. apply in_or_app. now right.
    + eapply next_ok_sub; [|exact NX]. intros y Iy. apply in_or_app. now right.
  - eapply nodup_app_l; exact ND.
  - exact NP.
  - destruct ks as [|y ks'].
    + cbn [flat_map app]. eapply next_ok_sub; [|exact NX]. intros z Iz. apply in_or_app. now left.
    + cbn [flat_map]. destruct (preorder_head par pn y) as [it [tl [E Ep]]]. rewrite E. cbn. rewrite Ep.
      destruct par as [p|]; [|trivial]. intros I. apply Hpar. apply in_or_app. now left.
Qed.

Lemma es_node n : es_statement n.
Proof.
  induction n as [c s|i nm pf ats cbe hid pw ks IH] using node_ind'; intros par pn stack rest ND NP NX.
  - cbn [preorder events app event_stream parent_of]. rewrite pop_until_nopop by exact NP. reflexivity.
  - cbn [preorder events]. rewrite <- app_comm_cons.
    cbn [event_stream parent_of]. rewrite pop_until_nopop by exact NP. cbn [app ei_empty].
    cbn [node_ids] in ND, NX. inversion ND as [|? ? Hi NDks]; subst.
    destruct (cbe && is_nil ks) eqn:Emp.
    + apply andb_nil_inv in Emp. subst ks. reflexivity.
    + rewrite <- app_comm_cons. f_equal. rewrite <- app_assoc.
      set (e := mkei i nm pf ats false hid pw).
      rewrite (es_list ks IH (Some i) (Some nm) (e :: stack) rest).
      * f_equal. cbn [app]. apply close_finished. cbn [ei_id e].
        eapply next_ok_sub; [|exact NX]. intros z [<-|[]]. now left.
      * exact NDks.
      * cbn. apply Nat.eqb_refl.
      * exact Hi.
      * eapply next_ok_sub; [|exact NX]. intros z Iz. now right.
Qed.

(* for every tree with distinct element identities, _event_stream over self_and_descendants /
   descendants yields exactly the recursive bracket sequence *)
Theorem event_stream_brackets incl root :
  NoDup (node_ids root) -> event_stream [] (root_items incl root) = root_events incl root.
Proof.
  intros ND. unfold root_items, root_events.
  assert (A : forall n, NoDup (node_ids n) -> event_stream [] (preorder None None n) = events None n).
  { intros n NDn. rewrite <- (app_nil_r (preorder None None n)).
    rewrite (es_node n None None [] []); [now rewrite app_nil_r|exact NDn|exact I|exact I]. }
  destruct root as [c s|i nm pf ats cbe hid pw ks]; [now apply A|].
  destruct (incl && negb hid); [now apply A|].
  cbn [node_ids] in ND. inversion ND as [|? ? Hi NDks]; subst.
  rewrite <- (app_nil_r (flat_map (preorder (Some i) (Some nm)) ks)).
  rewrite (es_list ks); [now rewrite app_nil_r| |exact NDks|exact I|exact Hi|exact I].
  clear. induction ks; constructor; [apply es_node|assumption].
Qed.

Theorem decode_stream_eq apply fmt lvl incl root :
  NoDup (node_ids root) ->
  decode_stream apply fmt lvl incl root = decode apply fmt lvl incl root /\
  decode_stream_calls fmt incl root = decode_calls fmt incl root.
Proof.
  intros ND. unfold decode_stream, decode_stream_calls, decode, decode_calls.
  now rewrite event_stream_brackets.
Qed.

(* the code's own pipeline (explicit-stack event stream + decode loop), from constructor arguments to
   the structural rendering under the documented options *)
Theorem stream_end_to_end apply c a lvl incl root :
  NoDup (node_ids root) ->
  decode_stream apply (construct c a) lvl incl root = render_spec apply (documented_formatter c a) lvl incl root.
Proof.
  intros ND. destruct (decode_stream_eq apply (construct c a) lvl incl root ND) as [-> _].
  now apply options_end_to_end.
Qed.

(* the entry point as a whole: however the formatter is supplied, the result is the structural rendering
   under the formatter it documentedly denotes (or KeyError for an unregistered name), and the
   substitution function is called exactly on the call sites *)
Definition denoted_formatter (is_xml : bool) (sp : fspec) : option formatter :=
  match sp with
  | FObj f => Some f
  | FFunc s => Some (documented_formatter (if is_xml then CXMLFormatter else CHTMLFormatter) (only_subst s))
  | FName n => reg_get n (if is_xml then xml_registry else html_registry)
  end.

Theorem tag_decode_spec apply chain top sp lvl incl soup_xml root :
  NoDup (node_ids root) ->
  tag_decode apply chain top sp lvl incl soup_xml root =
  match denoted_formatter (is_xml_of chain top) sp with
  | None => None
  | Some f => Some ((if soup_xml then xml_declaration else []) ++ render_spec apply f lvl incl root,
                    match f_subst f with Some _ => root_sites (call_sites f) incl root | None => [] end)
  end.
Proof.
  intros ND. unfold tag_decode.
  assert (E : formatter_for_name (is_xml_of chain top) sp = denoted_formatter (is_xml_of chain top) sp).
  { destruct sp; [reflexivity|reflexivity|apply formatter_for_name_function]. }
  rewrite E. destruct (denoted_formatter (is_xml_of chain top) sp) as [f|]; [|reflexivity].
  destruct (decode_stream_eq apply f lvl incl root ND) as [-> ->].
  now rewrite decode_refines_spec, decode_calls_spec.
Qed.
