(* C01 / C03 — a freshly parsed document is a well-linked tree: the heap built by the construction machine of
   Model/Build.v (setup, pushTag, object_was_parsed with _linkage_fixer, popTag) represents, in the sense of
   [rep] (Spec/Tree.v), ONE tree rooted at the document object 0 whose pre-order is the creation order of the
   elements, the root standing outside the next/previous-element chain. *)
From Coq Require Import List NArith ZArith Bool Arith Lia.
From BS Require Import Base.Sexp Base.Types Model.Heap Model.Edit Model.Build Spec.Tree Spec.BuildSpec
  Proofs.HeapBasics Proofs.InsertRep Proofs.BuildRefines.
Import ListNotations.
Local Open Scope nat_scope.

(* ------------------------------------------------------------------------------------------ *)
(* small list facts *)
Lemma last_opt_nil {X} : @last_opt X [] = None.
Proof. reflexivity. Qed.
Lemma last_opt_snoc {X} (l : list X) a : last_opt (l ++ [a]) = Some a.
Proof. unfold last_opt. now rewrite rev_app_distr. Qed.

Definition mre_of (n : nat) : option nat := if Nat.leb n 1 then None else Some (n - 1).

Lemma last_opt_seq1 n : last_opt (seq 1 (n - 1)) = mre_of n.
Proof.
  unfold mre_of. destruct (Nat.leb_spec n 1) as [H|H].
  - replace (n - 1) with 0 by lia. reflexivity.
  - replace (n - 1) with (S (n - 2)) by lia. rewrite seq_S, last_opt_snoc. f_equal; lia.
Qed.

Lemma oeqb_eq a b : oeqb a b = true <-> a = b.
Proof.
  destruct a as [x|], b as [y|]; cbn; split; intros H; try reflexivity; try discriminate.
  - apply Nat.eqb_eq in H. now subst.
  - inversion H. apply Nat.eqb_refl.
Qed.
Lemma oeqb_neq a b : oeqb a b = false <-> a <> b.
Proof.
  split.
  - intros H E. apply oeqb_eq in E. congruence.
  - intros H. destruct (oeqb a b) eqn:E; [|reflexivity]. apply oeqb_eq in E. contradiction.
Qed.

(* ------------------------------------------------------------------------------------------ *)
(* what "a fresh cell n of kind k was set up under x after [mre] and appended to x's contents" does to the six links *)
Definition grown (h : heap) (n : nat) (k : nkind) (x : nat) (mre : option nat) (h' : heap) : Prop :=
  forall y,
    kind (h' y) = (if Nat.eqb y n then k else kind (h y)) /\
    par (h' y) = (if Nat.eqb y n then Some x else par (h y)) /\
    kids (h' y) = (if Nat.eqb y x then kids (h x) ++ [n] else if Nat.eqb y n then [] else kids (h y)) /\
    ns (h' y) = (if Nat.eqb y n then None
                 else if oeqb (Some y) (last_opt (kids (h x))) then Some n else ns (h y)) /\
    ps (h' y) = (if Nat.eqb y n then last_opt (kids (h x)) else ps (h y)) /\
    ne (h' y) = (if Nat.eqb y n then None else if oeqb (Some y) mre then Some n else ne (h y)) /\
    pe (h' y) = (if Nat.eqb y n then mre else pe (h y)).

Lemma grown_ext h n k x mre h2 h3 : grown h n k x mre h2 -> (forall y, h3 y = h2 y) -> grown h n k x mre h3.
Proof. intros G E y. rewrite E. apply G. Qed.

Lemma kind_upd_blank h x k t y : kind (upd h x (blank k t) y) = if Nat.eqb y x then k else kind (h y).
Proof. unfold upd. destruct (Nat.eqb y x); reflexivity. Qed.
Lemma ns_upd_blank h x k t y : ns (upd h x (blank k t) y) = if Nat.eqb y x then None else ns (h y).
Proof. unfold upd. destruct (Nat.eqb y x); reflexivity. Qed.
Lemma ps_upd_blank h x k t y : ps (upd h x (blank k t) y) = if Nat.eqb y x then None else ps (h y).
Proof. unfold upd. destruct (Nat.eqb y x); reflexivity. Qed.
Lemma ne_upd_blank h x k t y : ne (upd h x (blank k t) y) = if Nat.eqb y x then None else ne (h y).
Proof. unfold upd. destruct (Nat.eqb y x); reflexivity. Qed.
Lemma pe_upd_blank h x k t y : pe (upd h x (blank k t) y) = if Nat.eqb y x then None else pe (h y).
Proof. unfold upd. destruct (Nat.eqb y x); reflexivity. Qed.

Local Hint Rewrite kind_upd_blank ns_upd_blank ps_upd_blank ne_upd_blank pe_upd_blank par_upd_blank kids_upd_blank : heap.

Lemma eqb_false_of_neq a b : a <> b -> Nat.eqb a b = false.
Proof. apply Nat.eqb_neq. Qed.

(* PageElement.setup on the fresh cell *)
Lemma setup_fields h n k t x mre :
  x <> n -> mre <> Some n -> last_opt (kids (h x)) <> Some n ->
  let hA := setup (upd h n (blank k t)) n (Some x) mre in
  forall y,
    kind (hA y) = (if Nat.eqb y n then k else kind (h y)) /\
    par (hA y) = (if Nat.eqb y n then Some x else par (h y)) /\
    kids (hA y) = (if Nat.eqb y n then [] else kids (h y)) /\
    ns (hA y) = (if Nat.eqb y n then None
                 else if oeqb (Some y) (last_opt (kids (h x))) then Some n else ns (h y)) /\
    ps (hA y) = (if Nat.eqb y n then last_opt (kids (h x)) else ps (h y)) /\
    ne (hA y) = (if Nat.eqb y n then None else if oeqb (Some y) mre then Some n else ne (h y)) /\
    pe (hA y) = (if Nat.eqb y n then mre else pe (h y)).
Proof.
  intros Hx Hm Hl hA y. unfold hA, setup. cbv zeta.
  assert (Ek : kids (match mre with
                     | Some q => set_ne (set_pe (set_par (upd h n (blank k t)) n (Some x)) n mre) q (Some n)
                     | None => set_pe (set_par (upd h n (blank k t)) n (Some x)) n mre
                     end x) = kids (h x)).
  { destruct mre; autorewrite with heap; rewrite (eqb_false_of_neq x n Hx); reflexivity. }
  autorewrite with heap. rewrite Ek. clear Ek.
  destruct (last_opt (kids (h x))) as [l|] eqn:El; destruct mre as [q|];
    autorewrite with heap; cbn [oeqb];
    repeat match goal with
    | |- context [Nat.eqb ?a ?b] => destruct (Nat.eqb_spec a b); subst
    end; repeat split; try reflexivity; try congruence.
Qed.

(* object_was_parsed before the fixer: setup, then append to the parent's contents *)
Lemma grown_string h n k t x mre :
  x <> n -> mre <> Some n -> last_opt (kids (h x)) <> Some n ->
  let hA := setup (upd h n (blank k t)) n (Some x) mre in
  grown h n k x mre (set_kids hA x (kids (hA x) ++ [n])).
Proof.
  intros Hx Hm Hl hA y. pose proof (setup_fields h n k t x mre Hx Hm Hl) as F. fold hA in F.
  destruct (F y) as (F1 & F2 & F3 & F4 & F5 & F6 & F7). destruct (F x) as (_ & _ & F3x & _).
  rewrite (eqb_false_of_neq x n Hx) in F3x.
  autorewrite with heap. rewrite F3x. repeat split; try assumption.
  destruct (Nat.eqb y x); [reflexivity|exact F3].
Qed.

(* handle_starttag: setup, the (redundant) second write of next_element, then pushTag's append *)
Lemma grown_tag h n k t x mre :
  x <> n -> mre <> Some n -> last_opt (kids (h x)) <> Some n ->
  let hA := setup (upd h n (blank k t)) n (Some x) mre in
  let hB := match mre with Some q => set_ne hA q (Some n) | None => hA end in
  grown h n k x mre (set_kids hB x (kids (hB x) ++ [n])).
Proof.
  intros Hx Hm Hl hA hB y. pose proof (setup_fields h n k t x mre Hx Hm Hl) as F. fold hA in F.
  destruct (F y) as (F1 & F2 & F3 & F4 & F5 & F6 & F7). destruct (F x) as (_ & _ & F3x & _).
  rewrite (eqb_false_of_neq x n Hx) in F3x.
  assert (Ek : kids (hB x) = kids (h x)) by (unfold hB; destruct mre; autorewrite with heap; exact F3x).
  rewrite Ek. unfold hB. destruct mre as [q|]; autorewrite with heap.
  - repeat split; try assumption.
    + destruct (Nat.eqb y x); [reflexivity|exact F3].
    + rewrite F6. cbn [oeqb]. destruct (Nat.eqb_spec y q) as [->|Hq]; [|reflexivity].
      destruct (Nat.eqb_spec q n) as [->|Hn]; [congruence|reflexivity].
  - repeat split; try assumption. destruct (Nat.eqb y x); [reflexivity|exact F3].
Qed.

(* ------------------------------------------------------------------------------------------ *)
(* _linkage_fixer after appending the very last element below an element of the right spine: every write stores the
   value the cell already holds *)
Lemma set_ns_noop h x v : ns (h x) = v -> forall y, set_ns h x v y = h y.
Proof.
  intros H y. unfold set_ns, upd. destruct (Nat.eqb_spec y x) as [->|]; [|reflexivity].
  subst v. destruct (h x); reflexivity.
Qed.
Lemma set_ne_noop h x v : ne (h x) = v -> forall y, set_ne h x v y = h y.
Proof.
  intros H y. unfold set_ne, upd. destruct (Nat.eqb_spec y x) as [->|]; [|reflexivity].
  subst v. destruct (h x); reflexivity.
Qed.

(* the walk up from an element of the right spine finds no next_sibling *)
Definition spine_clean (h : heap) (l : list nat) : Prop :=
  forall x, In x l -> ns (h x) = None /\ (par (h x) = None \/ exists q, par (h x) = Some q /\ In q l).

Lemma fixer_walk_clean h l d c : spine_clean h l ->
  forall fuel t, In t l -> fixer_walk fuel h (Some t) d c = h.
Proof.
  intros H. induction fuel as [|f IH]; intros t Ht; [reflexivity|]. cbn [fixer_walk].
  destruct (H t Ht) as [Hns Hp]. rewrite Hns. destruct Hp as [Hp|(q & Hp & Hq)]; rewrite Hp.
  - destruct f; reflexivity.
  - now apply IH.
Qed.

Lemma linkage_fixer_id fuel h el n first rest l :
  kids (h el) = first :: rest -> last_opt (first :: rest) = Some n -> n <> first ->
  ns (h n) = None -> ne (h n) = None -> is_tag h n = false ->
  spine_clean h l -> In el l ->
  forall y, linkage_fixer fuel h el y = h y.
Proof.
  intros Ek El Hnf Hns Hne Htag Hsp Hel y. unfold linkage_fixer. rewrite Ek, El.
  rewrite (eqb_false_of_neq n first Hnf). cbn [andb]. cbv zeta.
  set (h1 := set_ns h n None).
  assert (E1 : forall z, h1 z = h z) by (apply set_ns_noop; exact Hns).
  assert (Et : is_tag h1 n = false) by (unfold is_tag; rewrite E1; exact Htag).
  rewrite Et. cbn [andb].
  set (h2 := set_ne h1 n None).
  assert (E2 : forall z, h2 z = h z).
  { intros z. unfold h2. rewrite set_ne_noop; [apply E1|]. now rewrite E1. }
  set (h3 := set_ns h2 n None).
  assert (E3 : forall z, h3 z = h z).
  { intros z. unfold h3. rewrite set_ns_noop; [apply E2|]. now rewrite E2. }
  rewrite (fixer_walk_clean h3 l n n); [apply E3| |exact Hel].
  intros z Hz. rewrite !E3. now apply Hsp.
Qed.

(* ------------------------------------------------------------------------------------------ *)
(* appending one element at the end of a doubly linked chain *)
Lemma gchain_snoc nx pv nx' pv' L n :
  gchain nx pv L -> ~ In n L ->
  nx' n = None -> pv' n = last_opt L ->
  (forall y, In y L -> nx' y = if oeqb (Some y) (last_opt L) then Some n else nx y) ->
  (forall y, In y L -> pv' y = pv y) ->
  gchain nx' pv' (L ++ [n]).
Proof.
  intros H Hn Hnx Hpv Fn Fp i y Hy.
  destruct (exists_last_or_nil L) as [->|(L' & a & ->)].
  - destruct i as [|i]; [|destruct i; discriminate]. cbn in Hy. inversion Hy; subst y.
    rewrite Hnx, Hpv. split; reflexivity.
  - rewrite last_opt_snoc in *. cbn [oeqb] in Fn.
    assert (Hlen : length (L' ++ [a]) = S (length L')) by (rewrite app_length; cbn; lia).
    assert (Hlast : nth_error (L' ++ [a]) (length L') = Some a)
      by (rewrite nth_error_app2 by lia; now rewrite Nat.sub_diag).
    pose proof (nth_error_lt _ _ _ Hy) as Hi. rewrite app_length, Hlen in Hi. cbn [length] in Hi.
    destruct (Nat.eq_dec i (S (length L'))) as [->|Hne].
    + (* the new element *)
      rewrite nth_error_app2 in Hy by lia. rewrite Hlen, Nat.sub_diag in Hy. cbn in Hy. inversion Hy; subst y.
      rewrite Hnx, Hpv. split.
      * symmetry. apply nth_error_None. rewrite app_length, Hlen. cbn. lia.
      * cbn [pred_at]. rewrite nth_error_app1 by lia. now rewrite Hlast.
    + rewrite nth_error_app1 in Hy by lia.
      assert (Hin : In y (L' ++ [a])) by (eapply nth_error_In; eauto).
      destruct (H i y Hy) as [Hnx0 Hpv0]. rewrite (Fn y Hin), (Fp y Hin). split.
      * destruct (Nat.eq_dec i (length L')) as [->|Hne2].
        -- rewrite Hlast in Hy. inversion Hy; subst y. rewrite Nat.eqb_refl.
           rewrite nth_error_app2 by lia. rewrite Hlen, Nat.sub_diag. reflexivity.
        -- assert (Hya : y <> a).
           { intros ->. destruct (H (length L') a Hlast) as [Hnx1 _].
             rewrite Hnx0 in Hnx1.
             assert (Hn1 : nth_error (L' ++ [a]) (S (length L')) = None) by (apply nth_error_None; lia).
             rewrite Hn1 in Hnx1. apply nth_error_None in Hnx1. lia. }
           rewrite (eqb_false_of_neq y a Hya). rewrite Hnx0. symmetry. apply nth_error_app1. lia.
      * rewrite Hpv0. destruct i as [|i]; cbn [pred_at]; [reflexivity|]. symmetry. apply nth_error_app1. lia.
Qed.

Lemma schain_gchain L h : schain L h = gchain (fun x => ns (h x)) (fun x => ps (h x)) L.
Proof. reflexivity. Qed.
Lemma echain_gchain L h : echain L h = gchain (fun x => ne (h x)) (fun x => pe (h x)) L.
Proof. reflexivity. Qed.

(* ------------------------------------------------------------------------------------------ *)
(* the partial tree as a zipper along the open elements: one frame per open element (innermost first), holding the
   element and its closed children so far *)
Definition frame := (nat * list tree)%type.

Fixpoint zpre (Z : list frame) : list nat :=
  match Z with
  | [] => []
  | fr :: Z' => zpre Z' ++ fst fr :: pres (snd fr)
  end.

Definition ocons (c : option nat) : list nat := match c with Some c => [c] | None => [] end.

Definition closed_ok (h : heap) (ks : list tree) : Prop :=
  forall k t, In k ks -> In t (subterms k) -> node_ok h t.

(* the open element of a frame: its contents are its closed children followed by the next open element, if any *)
Definition frame_ok (h : heap) (fr : frame) (child : option nat) : Prop :=
  let cl := map rid (snd fr) ++ ocons child in
  kids (h (fst fr)) = cl /\ schain cl h /\ (forall c, In c cl -> par (h c) = Some (fst fr)) /\
  (is_tag h (fst fr) = false -> cl = []) /\ closed_ok h (snd fr).

Fixpoint frames_ok (h : heap) (Z : list frame) (child : option nat) : Prop :=
  match Z with
  | [] => True
  | fr :: Z' => frame_ok h fr child /\ frames_ok h Z' (Some (fst fr))
  end.

Lemma fst_in_zpre Z x : In x (map fst Z) -> In x (zpre Z).
Proof.
  induction Z as [|fr Z IH]; intros H; [contradiction|]. cbn [zpre]. apply in_or_app. destruct H as [<-|H].
  - right. now left.
  - left. now apply IH.
Qed.

Lemma closed_in_zpre Z fr y : In fr Z -> In y (pres (snd fr)) -> In y (zpre Z).
Proof.
  induction Z as [|fr' Z IH]; intros H Hy; [contradiction|]. cbn [zpre]. apply in_or_app. destruct H as [->|H].
  - right. now right.
  - left. now apply IH.
Qed.

(* a heap that agrees with h on everything a stack of frames mentions *)
Definition same_tree (h h' : heap) (y : nat) : Prop :=
  kids (h' y) = kids (h y) /\ kind (h' y) = kind (h y) /\ par (h' y) = par (h y) /\
  ps (h' y) = ps (h y) /\ ns (h' y) = ns (h y).

Lemma closed_ok_same h h' ks : closed_ok h ks -> (forall y, In y (pres ks) -> same_tree h h' y) -> closed_ok h' ks.
Proof.
  intros H Fr k t Hk Ht.
  assert (Hin : forall y, In y (pre k) -> In y (pres ks)) by (intros y Hy; apply in_pres; eauto).
  apply (node_ok_frame h h' t t (H k t Hk Ht) eq_refl eq_refl).
  - apply Fr, Hin. now apply subterms_rid_in.
  - apply Fr, Hin. now apply subterms_rid_in.
  - intros x Hx. apply in_map_iff in Hx. destruct Hx as (c & <- & Hc).
    destruct (Fr (rid c)) as (_ & _ & -> & -> & ->); [|auto].
    apply Hin. eapply subterms_kid_rid_in; eauto.
Qed.

Definition same_sib (h h' : heap) (y : nat) : Prop :=
  par (h' y) = par (h y) /\ ps (h' y) = ps (h y) /\ ns (h' y) = ns (h y).

Lemma same_tree_sib h h' y : same_tree h h' y -> same_sib h h' y.
Proof. intros (_ & _ & H1 & H2 & H3). now repeat split. Qed.

Lemma frame_ok_same h h' fr child : frame_ok h fr child ->
  (forall y, y = fst fr \/ In y (pres (snd fr)) -> same_tree h h' y) ->
  (forall y, child = Some y -> same_sib h h' y) ->
  frame_ok h' fr child.
Proof.
  intros (Hk & Hs & Hp & Ht & Hc) Fr Frc. unfold frame_ok. cbv zeta.
  assert (Hcl : forall c, In c (map rid (snd fr) ++ ocons child) -> same_sib h h' c).
  { intros c Hc'. apply in_app_or in Hc'. destruct Hc' as [Hc'|Hc'].
    - apply same_tree_sib, Fr. right. now apply map_rid_incl_pres.
    - apply Frc. destruct child as [c'|]; [|contradiction]. destruct Hc' as [->|[]]. reflexivity. }
  destruct (Fr (fst fr)) as (Ek & Ed & _); [now left|].
  split; [|split; [|split; [|split]]].
  - now rewrite Ek.
  - rewrite schain_gchain in *. apply (chain_frame _ _ _ _ _ Hs). cbv beta. intros x Hx.
    destruct (Hcl x Hx) as (_ & -> & ->). now split.
  - intros c Hc'. destruct (Hcl c Hc') as (-> & _). now apply Hp.
  - intros Ht'. apply Ht. rewrite <- Ht'. symmetry. now apply is_tag_ext.
  - apply (closed_ok_same h h' _ Hc). intros y Hy. apply Fr. now right.
Qed.

Lemma frames_ok_same h h' : forall Z child, frames_ok h Z child ->
  (forall y, In y (zpre Z) -> same_tree h h' y) ->
  (forall y, child = Some y -> same_sib h h' y) ->
  frames_ok h' Z child.
Proof.
  induction Z as [|fr Z IH]; intros child H Fr Frc; [exact I|]. destruct H as [H1 H2]. split.
  - apply (frame_ok_same h h' fr child H1); [|exact Frc]. intros y Hy. apply Fr. cbn [zpre].
    apply in_or_app; right. destruct Hy as [->|Hy]; [now left|now right].
  - apply IH; [exact H2| |].
    + intros y Hy. apply Fr. cbn [zpre]. apply in_or_app. now left.
    + intros y Hy. inversion Hy; subst y. apply same_tree_sib, Fr. cbn [zpre]. apply in_or_app. right. now left.
Qed.

(* ------------------------------------------------------------------------------------------ *)
(* the invariant on the heap: n cells allocated, Z the zipper of the open elements *)
Record hinv (h : heap) (n : nat) (Z : list frame) : Prop := mkhinv {
  hi_pre : zpre Z = seq 0 n;
  hi_frames : frames_ok h Z None;
  hi_chain : echain (seq 1 (n - 1)) h;
  hi_root : par (h 0) = None /\ ps (h 0) = None /\ ns (h 0) = None /\ ne (h 0) = None /\ pe (h 0) = None
}.

Lemma last_opt_In {X} (l : list X) a : last_opt l = Some a -> In a l.
Proof.
  destruct (exists_last_or_nil l) as [->|(l' & b & ->)]; [discriminate|].
  rewrite last_opt_snoc. intros E. inversion E. apply in_or_app. right. now left.
Qed.

Lemma grown_same h n k x mre h' y : grown h n k x mre h' ->
  y <> n -> y <> x -> last_opt (kids (h x)) <> Some y -> same_tree h h' y.
Proof.
  intros G Hn Hx Hl. destruct (G y) as (G1 & G2 & G3 & G4 & G5 & _).
  rewrite (eqb_false_of_neq y n Hn) in *. rewrite (eqb_false_of_neq y x Hx) in G3.
  assert (E : oeqb (Some y) (last_opt (kids (h x))) = false) by (apply oeqb_neq; congruence).
  rewrite E in G4. now repeat split.
Qed.
Lemma grown_sib h n k x mre h' y : grown h n k x mre h' ->
  y <> n -> last_opt (kids (h x)) <> Some y -> same_sib h h' y.
Proof.
  intros G Hn Hl. destruct (G y) as (G1 & G2 & G3 & G4 & G5 & _).
  rewrite (eqb_false_of_neq y n Hn) in *.
  assert (E : oeqb (Some y) (last_opt (kids (h x))) = false) by (apply oeqb_neq; congruence).
  rewrite E in G4. now repeat split.
Qed.

(* a new element: one more frame *)
Lemma hinv_push h n k x ks Zlow h' :
  hinv h n ((x, ks) :: Zlow) -> is_tag h x = true -> grown h n k x (mre_of n) h' ->
  hinv h' (S n) ((n, []) :: (x, ks) :: Zlow).
Proof.
  intros [Hpre [Hfr Hlow] Hch (R1 & R2 & R3 & R4 & R5)] Htag G.
  cbn [zpre fst snd] in Hpre.
  assert (ND : NoDup (zpre Zlow ++ x :: pres ks)) by (rewrite Hpre; apply seq_NoDup).
  assert (Hlt : forall y, In y (zpre Zlow ++ x :: pres ks) -> y < n)
    by (intros y Hy; rewrite Hpre in Hy; apply in_seq in Hy; lia).
  assert (Hxn : x < n) by (apply Hlt, in_or_app; right; now left).
  destruct Hfr as (Fk & Fs & Fp & Ft & Fc). cbn [fst snd ocons] in Fk, Fs, Fp, Ft, Fc.
  rewrite app_nil_r in Fk, Fs, Fp.
  assert (Hl : forall l, last_opt (kids (h x)) = Some l -> In l (map rid ks))
    by (intros l El; rewrite Fk in El; now apply last_opt_In).
  assert (Hlp : forall l, last_opt (kids (h x)) = Some l -> In l (pres ks))
    by (intros l El; now apply map_rid_incl_pres, Hl).
  assert (NDx : NoDup (x :: pres ks)) by (now apply NoDup_app_r in ND).
  assert (Hxl : last_opt (kids (h x)) <> Some x).
  { intros El. apply Hlp in El. now inversion NDx. }
  constructor.
  - cbn [zpre fst snd]. change (pres []) with (@nil nat). rewrite Hpre. now rewrite seq_S.
  - split; [|split].
    + (* the new element *)
      destruct (G n) as (_ & _ & G3 & _). rewrite Nat.eqb_refl, (eqb_false_of_neq n x) in G3 by lia.
      unfold frame_ok. cbn [fst snd map ocons app]. split; [exact G3|]. split; [|split; [|split]].
      * intros i y Hy. destruct i; discriminate.
      * intros c [].
      * reflexivity.
      * intros c t [].
    + (* its parent *)
      unfold frame_ok. cbn [fst snd ocons]. split; [|split; [|split; [|split]]].
      * destruct (G x) as (_ & _ & G3 & _). rewrite Nat.eqb_refl in G3. now rewrite G3, Fk.
      * rewrite schain_gchain in *. assert (Fs' := Fs). rewrite <- Fk in Fs' |- *.
        apply (gchain_snoc _ _ _ _ _ _ Fs'); try (intros y Hy; rewrite Fk in Hy).
        -- rewrite Fk. intros Hin. apply map_rid_incl_pres in Hin. assert (n < n); [|lia]. apply Hlt, in_or_app. right. now right.
        -- cbv beta. destruct (G n) as (_ & _ & _ & G4 & _). now rewrite Nat.eqb_refl in G4.
        -- cbv beta. destruct (G n) as (_ & _ & _ & _ & G5 & _). now rewrite Nat.eqb_refl in G5.
        -- cbv beta. destruct (G y) as (_ & _ & _ & G4 & _).
           assert (Hyn : y <> n).
           { intros ->. apply map_rid_incl_pres in Hy. assert (n < n); [|lia]. apply Hlt, in_or_app. right. now right. }
           now rewrite (eqb_false_of_neq y n Hyn) in G4.
        -- cbv beta. destruct (G y) as (_ & _ & _ & _ & G5 & _).
           assert (Hyn : y <> n).
           { intros ->. apply map_rid_incl_pres in Hy. assert (n < n); [|lia]. apply Hlt, in_or_app. right. now right. }
           now rewrite (eqb_false_of_neq y n Hyn) in G5.
      * intros c Hc. destruct (G c) as (_ & G2 & _). apply in_app_or in Hc. destruct Hc as [Hc|[<-|[]]].
        -- assert (Hcn : c <> n).
           { intros ->. apply map_rid_incl_pres in Hc. assert (n < n); [|lia]. apply Hlt, in_or_app. right. now right. }
           rewrite (eqb_false_of_neq c n Hcn) in G2. rewrite G2. now apply Fp.
        -- now rewrite Nat.eqb_refl in G2.
      * intros Ht'. exfalso. destruct (G x) as (G1 & _). rewrite (eqb_false_of_neq x n) in G1 by lia.
        rewrite (is_tag_ext h h' x G1) in Ht'. congruence.
      * intros c t Hc Ht'.
        assert (Hin : forall y, In y (pre c) -> In y (pres ks)) by (intros y Hy; apply in_pres; eauto).
        assert (Hrt : rid t <> x).
        { intros E. apply subterms_rid_in in Ht'. apply Hin in Ht'. rewrite E in Ht'. now inversion NDx. }
        assert (Hrn : forall y, In y (pres ks) -> y <> n).
        { intros y Hy ->. assert (n < n); [|lia]. apply Hlt, in_or_app. right. now right. }
        pose proof (Fc c t Hc Ht') as Hok.
        apply (node_ok_frame h h' t t Hok eq_refl eq_refl).
        -- destruct (G (rid t)) as (_ & _ & G3 & _). rewrite (eqb_false_of_neq _ _ Hrt) in G3.
           rewrite (eqb_false_of_neq (rid t) n) in G3; [exact G3|]. apply Hrn, Hin. now apply subterms_rid_in.
        -- destruct (G (rid t)) as (G1 & _).
           rewrite (eqb_false_of_neq (rid t) n) in G1; [exact G1|]. apply Hrn, Hin. now apply subterms_rid_in.
        -- intros y Hy. apply in_map_iff in Hy. destruct Hy as (c' & <- & Hc').
           assert (Hcn : rid c' <> n) by (apply Hrn, Hin; eapply subterms_kid_rid_in; eauto).
           destruct (grown_sib h n k x (mre_of n) h' (rid c') G Hcn) as (-> & -> & ->); [|now repeat split].
           intros El. apply Hl in El. apply Fp in El.
           destruct Hok as (_ & _ & Hpar & _). rewrite (Hpar c' Hc') in El. congruence.
    + (* the frames below *)
      apply (frames_ok_same h h' Zlow (Some x) Hlow).
      * intros y Hy. apply (grown_same h n k x (mre_of n) h' y G).
        -- assert (y < n); [|lia]. apply Hlt, in_or_app. now left.
        -- intros ->. apply (NoDup_app_disj _ _ x ND Hy). now left.
        -- intros El. apply Hlp in El. apply (NoDup_app_disj _ _ y ND Hy). now right.
      * intros y Hy. inversion Hy; subst y. apply (grown_sib h n k x (mre_of n) h' x G); [lia|exact Hxl].
  - replace (S n - 1) with (S (n - 1)) by lia. rewrite seq_S. replace (1 + (n - 1)) with n by lia.
    rewrite echain_gchain in *. apply (gchain_snoc _ _ _ _ _ _ Hch).
    + intros Hin. apply in_seq in Hin. lia.
    + cbv beta. destruct (G n) as (_ & _ & _ & _ & _ & G6 & _). now rewrite Nat.eqb_refl in G6.
    + cbv beta. destruct (G n) as (_ & _ & _ & _ & _ & _ & G7). rewrite Nat.eqb_refl in G7.
      now rewrite last_opt_seq1.
    + cbv beta. intros y Hy. apply in_seq in Hy. destruct (G y) as (_ & _ & _ & _ & _ & G6 & _).
      rewrite (eqb_false_of_neq y n) in G6 by lia. now rewrite last_opt_seq1.
    + cbv beta. intros y Hy. apply in_seq in Hy. destruct (G y) as (_ & _ & _ & _ & _ & _ & G7).
      now rewrite (eqb_false_of_neq y n) in G7 by lia.
  - assert (H0l : last_opt (kids (h x)) <> Some 0).
    { intros El. apply Hl in El. apply Fp in El. congruence. }
    destruct (grown_sib h n k x (mre_of n) h' 0 G) as (-> & -> & ->); [lia|exact H0l|].
    destruct (G 0) as (_ & _ & _ & _ & _ & G6 & G7). rewrite (eqb_false_of_neq 0 n) in G6, G7 by lia.
    assert (E : oeqb (Some 0) (mre_of n) = false).
    { apply oeqb_neq. unfold mre_of. destruct (Nat.leb_spec n 1); [discriminate|]. intros E. inversion E. lia. }
    rewrite E in G6. rewrite G6, G7. now repeat split.
Qed.

(* closing the innermost open element: its frame becomes the last closed child of the frame below; no link changes *)
Lemma hinv_merge h n x ks y ks' Zlow :
  hinv h n ((x, ks) :: (y, ks') :: Zlow) -> hinv h n ((y, ks' ++ [Node x ks]) :: Zlow).
Proof.
  intros [Hpre (Fx & Fy & Hlow) Hch Hroot]. constructor; try assumption.
  - rewrite <- Hpre. cbn [zpre fst snd]. rewrite pres_app. cbn [pres flat_map pre]. fold (pres ks).
    rewrite app_nil_r, <- !app_assoc. reflexivity.
  - split; [|exact Hlow].
    destruct Fx as (Xk & Xs & Xp & Xt & Xc). destruct Fy as (Yk & Ys & Yp & Yt & Yc).
    cbn [fst snd ocons] in *. rewrite app_nil_r in Xk, Xs, Xp, Xt.
    unfold frame_ok. cbn [fst snd ocons]. rewrite map_app, app_nil_r. cbn [map rid].
    split; [exact Yk|]. split; [exact Ys|]. split; [exact Yp|]. split; [exact Yt|].
    intros k t Hk Ht. apply in_app_or in Hk. destruct Hk as [Hk|[<-|[]]]; [now apply (Yc k t)|].
    cbn [subterms] in Ht. destruct Ht as [<-|Ht].
    + unfold node_ok. cbn [rid tkids]. split; [exact Xk|]. split; [exact Xs|]. split; [|exact (fun Hf => map_eq_nil _ _ (Xt Hf))].
      intros c Hc. apply Xp. now apply in_map.
    + apply in_flat_map in Ht. destruct Ht as (k' & Hk' & Ht). now apply (Xc k' t).
Qed.

(* the open elements are tags *)
Definition tags_ok (h : heap) (Z : list frame) : Prop := forall x, In x (map fst Z) -> is_tag h x = true.

Lemma grown_tags h n k x mre h' Z : grown h n k x mre h' -> tags_ok h Z -> (forall y, In y (map fst Z) -> y < n) ->
  tags_ok h' Z.
Proof.
  intros G H Hlt y Hy. destruct (G y) as (G1 & _). rewrite (eqb_false_of_neq y n) in G1 by (apply Hlt in Hy; lia).
  rewrite (is_tag_ext h h' y G1). now apply H.
Qed.

Lemma hinv_stack_lt h n Z : hinv h n Z -> forall y, In y (map fst Z) -> y < n.
Proof. intros H y Hy. apply fst_in_zpre in Hy. rewrite (hi_pre _ _ _ H) in Hy. apply in_seq in Hy. lia. Qed.

(* when everything but the root is closed, the zipper is the tree *)
Lemma hinv_rep h n ks : hinv h n [(0, ks)] ->
  pre (Node 0 ks) = seq 0 n /\ rep [(Node 0 ks, false)] h.
Proof.
  intros [Hpre (F0 & _) Hch (R1 & R2 & R3 & R4 & R5)]. cbn [zpre fst snd app] in Hpre.
  assert (Ep : pre (Node 0 ks) = seq 0 n) by exact Hpre.
  split; [exact Ep|]. split.
  - unfold fids. cbn [flat_map fst]. rewrite app_nil_r, Ep. apply seq_NoDup.
  - constructor; [|constructor]. cbn [fst snd]. unfold rep1. cbn [rid].
    destruct F0 as (Xk & Xs & Xp & Xt & Xc). cbn [fst snd ocons] in *. rewrite app_nil_r in Xk, Xs, Xp, Xt.
    split; [|split; [exact R1|split; [exact R2|split; [exact R3|split; [|split; [exact R4|exact R5]]]]]].
    + intros t Ht. cbn [subterms] in Ht. destruct Ht as [<-|Ht].
      * unfold node_ok. cbn [rid tkids]. split; [exact Xk|]. split; [exact Xs|].
        split; [|exact (fun Hf => map_eq_nil _ _ (Xt Hf))]. intros c Hc. apply Xp. now apply in_map.
      * apply in_flat_map in Ht. destruct Ht as (k' & Hk' & Ht). now apply (Xc k' t).
    + rewrite Ep. destruct n as [|n]; [discriminate|]. cbn [seq tl]. now replace (S n - 1) with n in Hch by lia.
Qed.

(* the open elements above the root have no next sibling, and their parents are open elements *)
Lemma frames_child h Z c : frames_ok h Z (Some c) -> Z <> [] ->
  ns (h c) = None /\ par (h c) = hd_error (map fst Z).
Proof.
  destruct Z as [|fr Z]; [congruence|]. intros ((Fk & Fs & Fp & _) & _) _. cbn [ocons] in *. split.
  - destruct (Fs (length (map rid (snd fr))) c) as [Hn _].
    + rewrite nth_error_app2 by lia. now rewrite Nat.sub_diag.
    + rewrite Hn. apply nth_error_None. rewrite app_length. cbn. lia.
  - cbn [map hd_error]. apply Fp. apply in_or_app. right. now left.
Qed.

Lemma frames_spine h : forall Z child, frames_ok h Z child ->
  forall x, In x (map fst Z) ->
    x = last (map fst Z) 0 \/ (ns (h x) = None /\ exists q, par (h x) = Some q /\ In q (map fst Z)).
Proof.
  induction Z as [|fr Z IH]; intros child H x Hx; [contradiction|]. destruct H as [_ H].
  destruct Hx as [<-|Hx].
  - destruct Z as [|fr' Z]; [now left|]. right.
    destruct (frames_child h (fr' :: Z) (fst fr) H) as [Hn Hp]; [discriminate|]. split; [exact Hn|].
    exists (fst fr'). split; [exact Hp|]. right. now left.
  - destruct (IH _ H x Hx) as [E|(Hn & q & Hp & Hq)].
    + left. rewrite E. destruct Z as [|fr' Z]; [contradiction|]. reflexivity.
    + right. split; [exact Hn|]. exists q. split; [exact Hp|now right].
Qed.

Lemma hinv_spine_clean h n Z : hinv h n Z -> last (map fst Z) 0 = 0 -> spine_clean h (map fst Z).
Proof.
  intros H Hl x Hx. destruct (frames_spine h Z None (hi_frames _ _ _ H) x Hx) as [E|(Hn & q & Hp & Hq)].
  - rewrite Hl in E. subst x. destruct (hi_root _ _ _ H) as (R1 & _ & R3 & _). now split; [|left].
  - split; [exact Hn|]. right. eauto.
Qed.

(* ------------------------------------------------------------------------------------------ *)
(* the invariant on builder states *)
Definition Inv (cfg : bconfig) (b : bstate) : Prop :=
  exists s Z, sim cfg b s /\ map fst Z = b_stack b /\
    hinv (hp (b_st b)) (nxt (b_st b)) Z /\ tags_ok (hp (b_st b)) Z /\
    b_mre b = mre_of (nxt (b_st b)).

Lemma mre_of_S n : 1 <= n -> mre_of (S n) = Some n.
Proof.
  intros H. unfold mre_of. destruct (Nat.leb_spec (S n) 1); [lia|]. f_equal. lia.
Qed.
Lemma mre_of_neq n : mre_of n <> Some n.
Proof. unfold mre_of. destruct (Nat.leb_spec n 1); [discriminate|]. intros E. inversion E. lia. Qed.

Lemma nth_error_seq a len i : i < len -> nth_error (seq a len) i = Some (a + i).
Proof.
  intros H. rewrite (nth_error_nth' _ 0) by (now rewrite seq_length). now rewrite seq_nth.
Qed.

(* the most recent element has no next element yet *)
Lemma hinv_last_ne h n Z : hinv h n Z -> 1 <= n -> ne (h (n - 1)) = None.
Proof.
  intros H Hn. destruct (Nat.eq_dec n 1) as [->|Hne].
  - now destruct (hi_root _ _ _ H) as (_ & _ & _ & R4 & _).
  - destruct (hi_chain _ _ _ H (n - 2) (n - 1)) as [E _].
    + rewrite nth_error_seq by lia. f_equal. lia.
    + rewrite E. apply nth_error_None. rewrite seq_length. lia.
Qed.

(* an innermost open element without children is the most recent element *)
Lemma hinv_top_leaf h n x Zlow : hinv h n ((x, []) :: Zlow) -> 1 <= n /\ x = n - 1.
Proof.
  intros H. pose proof (hi_pre _ _ _ H) as E. cbn [zpre fst snd] in E. change (pres []) with (@nil nat) in E.
  destruct n as [|n]; [destruct (zpre Zlow); discriminate|]. rewrite seq_S in E. apply app_inj_tail in E.
  destruct E as [_ ->]. split; lia.
Qed.

(* the common part of "a new element n was linked in under the innermost open element" *)
Lemma Inv_grow_core h n k top ks Zlow :
  hinv h n ((top, ks) :: Zlow) -> tags_ok h ((top, ks) :: Zlow) ->
  top <> n /\ mre_of n <> Some n /\ last_opt (kids (h top)) <> Some n /\ 1 <= n /\
  forall h', grown h n k top (mre_of n) h' ->
    hinv h' (S n) ((n, []) :: (top, ks) :: Zlow) /\ tags_ok h' ((top, ks) :: Zlow).
Proof.
  intros Hh Ht. pose proof (hinv_stack_lt _ _ _ Hh) as Hlt.
  assert (Htop : top < n) by (apply Hlt; now left).
  split; [lia|]. split; [apply mre_of_neq|]. split; [|split; [lia|]].
  - intros El. apply last_opt_In in El. destruct (hi_frames _ _ _ Hh) as ((Fk & _) & _). cbn [fst snd ocons] in Fk.
    rewrite Fk, app_nil_r in El. apply map_rid_incl_pres in El.
    assert (Hin : In n (zpre ((top, ks) :: Zlow))) by (cbn [zpre fst snd]; apply in_or_app; right; now right).
    rewrite (hi_pre _ _ _ Hh) in Hin. apply in_seq in Hin. lia.
  - intros h' G. split.
    + apply (hinv_push h n k top ks Zlow h' Hh); [|exact G]. apply Ht. now left.
    + now apply (grown_tags h n k top (mre_of n) h').
Qed.

(* ------------------------------------------------------------------------------------------ *)
(* endData: a new string under the innermost open element *)
Lemma end_data_proj cfg b cls c cs top : b_data b = c :: cs -> b_cur b = Some top ->
  exists k text fuel,
    let h := hp (b_st b) in let n := nxt (b_st b) in
    let hA := setup (upd h n (blank (KStr k) text)) n (Some top) (b_mre b) in
    let h2 := set_kids hA top (kids (hA top) ++ [n]) in
    let fix_ := match ne (upd h n (blank (KStr k) text) top) with Some _ => true | None => false end in
    b_st (end_data cfg b cls) = mkst (if fix_ then linkage_fixer fuel h2 top else h2) (S n) /\
    b_stack (end_data cfg b cls) = b_stack b /\
    b_mre (end_data cfg b cls) = Some n.
Proof.
  intros Ed Ecur. unfold end_data. rewrite Ed. unfold alloc, object_was_parsed.
  cbn [b_cur b_st b_mre b_pay b_stack b_counter b_pws b_scs b_data]. rewrite Ecur. cbn [hp].
  unfold with_heap. cbn [nxt b_st b_stack b_mre].
  eexists _, _, _. cbv zeta. split; [reflexivity|]. split; reflexivity.
Qed.

Lemma Inv_end_data cfg b cls : Inv cfg b -> Inv cfg (end_data cfg b cls).
Proof.
  intros (s & Z & Hs & HZ & Hh & Ht & Hm).
  pose proof (sim_end_data cfg b s cls Hs) as Hs'.
  destruct (b_data b) as [|c cs] eqn:Ed.
  { assert (E : end_data cfg b cls = b) by (unfold end_data; now rewrite Ed).
    rewrite E in *. exists (s_flush cfg s cls), Z. auto. }
  destruct (sim_top _ _ _ Hs) as (top & rest & Est & Ecur).
  destruct (end_data_proj cfg b cls c cs top Ed Ecur) as (k & text & fuel & E1 & E2 & E3).
  cbv zeta in E1. rewrite Hm in E1.
  set (h := hp (b_st b)) in *. set (n := nxt (b_st b)) in *.
  destruct Z as [|[top' ks] Zlow]; [rewrite Est in HZ; discriminate|].
  assert (top' = top) by (rewrite Est in HZ; cbn in HZ; congruence). subst top'.
  destruct (Inv_grow_core h n (KStr k) top ks Zlow Hh Ht) as (N1 & N2 & N3 & Hn & Hgen).
  pose proof (grown_string h n (KStr k) text top (mre_of n) N1 N2 N3) as G2. cbv zeta in G2.
  set (hA := setup (upd h n (blank (KStr k) text)) n (Some top) (mre_of n)) in *.
  set (h2 := set_kids hA top (kids (hA top) ++ [n])) in *.
  assert (Hfin : forall h', grown h n (KStr k) top (mre_of n) h' ->
            hinv h' (S n) ((top, ks ++ [Node n []]) :: Zlow) /\ tags_ok h' ((top, ks ++ [Node n []]) :: Zlow)).
  { intros h' G. destruct (Hgen h' G) as [A B]. split; [now apply hinv_merge|exact B]. }
  assert (G3 : grown h n (KStr k) top (mre_of n) (hp (b_st (end_data cfg b cls)))).
  { rewrite E1. cbn [hp]. rewrite upd_other by exact N1. fold h.
    destruct (ne (h top)) as [e|] eqn:Ene; [|exact G2].
    apply (grown_ext _ _ _ _ _ h2); [exact G2|].
    destruct (Hfin h2 G2) as [Hh2 _].
    (* the innermost open element already has children *)
    destruct (hi_frames _ _ _ Hh) as ((Fk & _) & _). cbn [fst snd ocons] in Fk. rewrite app_nil_r in Fk.
    destruct (kids (h top)) as [|first rest'] eqn:Ek.
    { exfalso. symmetry in Fk. apply map_eq_nil in Fk. subst ks.
      destruct (hinv_top_leaf _ _ _ _ Hh) as [_ ->]. rewrite (hinv_last_ne _ _ _ Hh Hn) in Ene. discriminate. }
    assert (Hfirst : first < n).
    { assert (Hin : In first (zpre ((top, ks) :: Zlow))).
      { cbn [zpre fst snd]. apply in_or_app. right. right. apply map_rid_incl_pres. rewrite <- Fk. now left. }
      rewrite (hi_pre _ _ _ Hh) in Hin. apply in_seq in Hin. lia. }
    destruct (G2 top) as (_ & _ & K3 & _). rewrite Nat.eqb_refl, Ek in K3.
    destruct (G2 n) as (K1 & _ & _ & K4 & _ & K6 & _). rewrite Nat.eqb_refl in K1, K4, K6.
    apply (linkage_fixer_id fuel h2 top n first (rest' ++ [n]) (map fst ((top, ks ++ [Node n []]) :: Zlow))).
    - exact K3.
    - change (first :: rest' ++ [n]) with ((first :: rest') ++ [n]). apply last_opt_snoc.
    - lia.
    - exact K4.
    - exact K6.
    - unfold is_tag. now rewrite K1.
    - apply (hinv_spine_clean _ _ _ Hh2). cbn [map fst]. change (top :: map fst Zlow) with (map fst ((top, ks) :: Zlow)).
      rewrite HZ. destruct (sim_shape _ _ _ Hs) as [pre ->]. apply last_last.
    - now left. }
  destruct (Hfin _ G3) as [A B].
  exists (s_flush cfg s cls), ((top, ks ++ [Node n []]) :: Zlow).
  split; [exact Hs'|]. split; [now rewrite E2, <- HZ|].
  assert (En : nxt (b_st (end_data cfg b cls)) = S n) by now rewrite E1.
  rewrite En. split; [exact A|]. split; [exact B|]. rewrite E3. symmetry. now apply mre_of_S.
Qed.

(* ------------------------------------------------------------------------------------------ *)
(* handle_starttag: a new tag under the innermost open element, which it becomes *)
Definition start_body (cfg : bconfig) (b : bstate) (name : str) (prefix : option str) (attrs : list (str * str)) : bstate :=
  let '(st', tag) := alloc (b_st b) KTag name in
  let pay := pupd (b_pay b) tag (mkpl name prefix attrs 0%N (can_be_empty cfg name)) in
  let h := setup (hp st') tag (b_cur b) (b_mre b) in
  let h := match b_mre b with Some q => set_ne h q (Some tag) | None => h end in
  push_tag cfg (mkb (with_heap st' h) pay (b_stack b) (b_counter b) (b_pws b) (b_scs b) (b_data b)
                    (Some tag) (b_cur b)) tag.

Lemma handle_starttag_body cfg b name prefix attrs :
  handle_starttag cfg b name prefix attrs = start_body cfg (end_data cfg b None) name prefix attrs.
Proof. reflexivity. Qed.

Lemma start_body_proj cfg b name prefix attrs top : b_cur b = Some top ->
  let h := hp (b_st b) in let n := nxt (b_st b) in
  let hA := setup (upd h n (blank KTag name)) n (Some top) (b_mre b) in
  let hB := match b_mre b with Some q => set_ne hA q (Some n) | None => hA end in
  b_st (start_body cfg b name prefix attrs) = mkst (set_kids hB top (kids (hB top) ++ [n])) (S n) /\
  b_stack (start_body cfg b name prefix attrs) = n :: b_stack b /\
  b_mre (start_body cfg b name prefix attrs) = Some n.
Proof.
  intros Ecur. unfold start_body, alloc, push_tag, name_of, with_heap.
  cbn [b_cur b_st b_mre b_pay b_stack b_counter b_pws b_scs b_data hp nxt]. rewrite Ecur.
  cbv zeta. split; [reflexivity|]. split; reflexivity.
Qed.

Lemma Inv_start cfg b name prefix attrs : Inv cfg b -> b_data b = [] ->
  Inv cfg (start_body cfg b name prefix attrs).
Proof.
  intros (s & Z & Hs & HZ & Hh & Ht & Hm) Ed.
  pose proof (sim_start cfg b s name prefix attrs Hs Ed) as Hs'.
  destruct (sim_top _ _ _ Hs) as (top & rest & Est & Ecur).
  destruct (start_body_proj cfg b name prefix attrs top Ecur) as (E1 & E2 & E3).
  cbv zeta in E1. rewrite Hm in E1.
  set (h := hp (b_st b)) in *. set (n := nxt (b_st b)) in *.
  destruct Z as [|[top' ks] Zlow]; [rewrite Est in HZ; discriminate|].
  assert (top' = top) by (rewrite Est in HZ; cbn in HZ; congruence). subst top'.
  destruct (Inv_grow_core h n KTag top ks Zlow Hh Ht) as (N1 & N2 & N3 & Hn & Hgen).
  pose proof (grown_tag h n KTag name top (mre_of n) N1 N2 N3) as G2. cbv zeta in G2.
  destruct (Hgen _ G2) as [A B].
  eexists _, ((n, []) :: (top, ks) :: Zlow).
  split; [exact Hs'|]. fold (start_body cfg b name prefix attrs).
  split; [now rewrite E2, <- HZ|]. rewrite E1. cbn [hp nxt].
  split; [exact A|]. split.
  - intros y [Ey|Hy]; [subst y|now apply B]. destruct (G2 n) as (K1 & _). rewrite Nat.eqb_refl in K1.
    unfold is_tag. cbn [fst]. now rewrite K1.
  - rewrite E3. symmetry. now apply mre_of_S.
Qed.

(* ------------------------------------------------------------------------------------------ *)
(* popTag, _popToTag, the pops at end of input: no link changes *)
Lemma Inv_pop cfg b x y rest : Inv cfg b -> b_stack b = x :: y :: rest -> Inv cfg (pop_tag b).
Proof.
  intros (s & Z & Hs & HZ & Hh & Ht & Hm) Est.
  pose proof (sim_pop cfg b s x y rest Hs Est) as Hs'.
  destruct (pop_tag_st b) as [E1 _]. pose proof (b_stack_pop b x (y :: rest) Est) as E2.
  assert (E3 : b_mre (pop_tag b) = b_mre b) by (unfold pop_tag; now rewrite Est).
  destruct Z as [|[x' ks] [|[y' ks'] Zlow]]; try (rewrite Est in HZ; discriminate).
  rewrite Est in HZ. cbn in HZ. inversion HZ; subst x' y'.
  eexists _, ((y, ks' ++ [Node x ks]) :: Zlow). split; [exact Hs'|]. rewrite E1, E2, E3.
  split; [cbn; congruence|]. split; [now apply hinv_merge|]. split; [|exact Hm].
  intros z Hz. apply Ht. now right.
Qed.

Lemma Inv_stack_ne cfg b : Inv cfg b -> 1 <= length (b_stack b).
Proof.
  intros (s & Z & Hs & _). destruct (sim_shape _ _ _ Hs) as [pre ->]. rewrite app_length. cbn. lia.
Qed.

Lemma Inv_pop_loop cfg name prefix : forall n b, Inv cfg b -> n < length (b_stack b) ->
  Inv cfg (pop_loop n b name prefix).
Proof.
  induction n as [|n IH]; intros b H Hn; [exact H|]. cbn [pop_loop].
  destruct (cget name (b_counter b)) as [z|]; [|exact H]. destruct (Z.eqb z 0); [exact H|].
  destruct (b_stack b) as [|t [|y rest]] eqn:Est; try (cbn in Hn; lia).
  destruct (_ && _).
  - now apply (Inv_pop cfg b t y rest).
  - apply IH; [now apply (Inv_pop cfg b t y rest)|]. rewrite (b_stack_pop b t (y :: rest) Est). cbn in *. lia.
Qed.

Lemma Inv_pop_to_tag cfg b name prefix : Inv cfg b -> Inv cfg (pop_to_tag cfg b name prefix).
Proof.
  intros H. unfold pop_to_tag. destruct (_ && _); [exact H|].
  apply Inv_pop_loop; [exact H|]. pose proof (Inv_stack_ne cfg b H). lia.
Qed.

Lemma Inv_pop_all cfg : forall pre b n, Inv cfg b -> b_stack b = pre ++ [0] -> length pre <= n ->
  Inv cfg (pop_all n cfg b) /\ b_stack (pop_all n cfg b) = [0].
Proof.
  induction pre as [|x pre IH]; intros b n H Hst Hn.
  - destruct H as (s & Z & Hs & Hrest).
    assert (Ec : b_cur b = Some 0) by (now rewrite (sim_cur _ _ _ Hs), Hst).
    assert (E : pop_all n cfg b = b) by (destruct n as [|n]; cbn [pop_all]; [reflexivity|]; now rewrite Ec).
    rewrite E. split; [now exists s, Z|exact Hst].
  - destruct n as [|n]; [cbn in Hn; lia|]. cbn [pop_all].
    destruct H as (s & Z & Hs & Hrest).
    assert (Ec : b_cur b = Some x) by (now rewrite (sim_cur _ _ _ Hs), Hst).
    rewrite Ec. assert (Ex : Nat.eqb x 0 = false).
    { apply Nat.eqb_neq. apply (sim_pre_nz _ _ _ _ x Hs Hst). now left. }
    rewrite Ex. cbn [app] in Hst. destruct (pre ++ [0]) as [|y l] eqn:E; [destruct pre; discriminate|].
    apply IH.
    + apply (Inv_pop cfg b x y l); [now exists s, Z|exact Hst].
    + now apply (b_stack_pop _ _ _ Hst).
    + cbn in Hn. lia.
Qed.

(* ------------------------------------------------------------------------------------------ *)
(* reset and the event loop *)
Lemma Inv_reset cfg : Inv cfg (reset cfg).
Proof.
  exists (s_start cfg), [(0, [])]. split; [apply sim_reset|].
  unfold reset, alloc, push_tag, name_of, with_heap.
  cbn [b_cur b_st b_mre b_pay b_stack b_counter b_pws b_scs b_data hp nxt map fst].
  split; [reflexivity|]. split; [|split; [|reflexivity]].
  - constructor.
    + reflexivity.
    + split; [|exact I]. unfold frame_ok. cbn [fst snd map ocons app]. rewrite upd_same. cbn [blank kids].
      split; [reflexivity|]. split; [intros i y Hy; destruct i; discriminate|].
      split; [intros c []|]. split; [reflexivity|]. intros c t [].
    + intros i y Hy. destruct i; discriminate.
    + rewrite upd_same. cbn. now repeat split.
  - intros y [<-|[]]. unfold is_tag. rewrite upd_same. reflexivity.
Qed.

Lemma Inv_step cfg b e : Inv cfg b -> Inv cfg (step_event cfg b e).
Proof.
  intros H. destruct e as [name prefix attrs|name prefix|t|c]; cbn [step_event].
  - rewrite handle_starttag_body. apply Inv_start; [now apply Inv_end_data|apply end_data_data].
  - unfold handle_endtag. apply Inv_pop_to_tag. now apply Inv_end_data.
  - destruct H as (s & Z & Hs & Hrest). exists (s_step cfg s (EData t)), Z.
    split; [exact (sim_step cfg b s (EData t) Hs)|exact Hrest].
  - now apply Inv_end_data.
Qed.

Lemma Inv_fold cfg evs : forall b, Inv cfg b -> Inv cfg (fold_left (step_event cfg) evs b).
Proof.
  induction evs as [|e evs IH]; intros b H; [exact H|]. cbn [fold_left]. apply IH. now apply Inv_step.
Qed.

(* closing every open element above the root changes no link: the invariant already describes a whole tree *)
Lemma hinv_close h n : forall pre Z, hinv h n Z -> map fst Z = pre ++ [0] -> exists ks, hinv h n [(0, ks)].
Proof.
  induction pre as [|x pre IH]; intros Z H HZ.
  - destruct Z as [|[r ks] [|fr Z]]; try discriminate. cbn in HZ. inversion HZ; subst r. now exists ks.
  - destruct Z as [|[x' ks] [|[y ks'] Zlow]]; try discriminate.
    + cbn in HZ. destruct pre; discriminate.
    + apply (IH ((y, ks' ++ [Node x' ks]) :: Zlow)); [now apply hinv_merge|].
      cbn [map fst] in *. now inversion HZ.
Qed.

Lemma Inv_rep cfg b : Inv cfg b ->
  exists T, rid T = 0 /\ pre T = seq 0 (nxt (b_st b)) /\ rep [(T, false)] (hp (b_st b)).
Proof.
  intros (s & Z & Hs & HZ & Hh & _). destruct (sim_shape _ _ _ Hs) as [pre Hpre]. rewrite Hpre in HZ.
  destruct (hinv_close _ _ pre Z Hh HZ) as [ks Hk]. destruct (hinv_rep _ _ _ Hk) as [Ep Hrep].
  exists (Node 0 ks). split; [reflexivity|]. split; assumption.
Qed.

(* the same holds at every moment of the parse: after any sequence of events, before the final flush and pops, the
   heap represents the tree in which the open elements are the right spine *)
Theorem parse_rep_prefix : forall cfg evs,
  let b := fold_left (step_event cfg) evs (reset cfg) in
  exists T, rid T = 0 /\ pre T = seq 0 (nxt (b_st b)) /\ rep [(T, false)] (hp (b_st b)).
Proof. intros cfg evs b. apply (Inv_rep cfg). apply Inv_fold, Inv_reset. Qed.

(* the most recent element is the last one created (None while only the root object exists) *)
Theorem parse_mre : forall cfg evs,
  let b := feed cfg evs in
  b_mre b = (if Nat.leb (nxt (b_st b)) 1 then None else Some (nxt (b_st b) - 1)).
Proof.
  intros cfg evs b. unfold b, feed. cbv zeta.
  set (b1 := end_data cfg (fold_left (step_event cfg) evs (reset cfg)) None).
  assert (H1 : Inv cfg b1) by (apply Inv_end_data, Inv_fold, Inv_reset).
  assert (Hsh : exists pre, b_stack b1 = pre ++ [0]) by (destruct H1 as (s & Z & Hs & _); exact (sim_shape _ _ _ Hs)).
  destruct Hsh as [pre Hpre].
  destruct (Inv_pop_all cfg pre b1 (length (b_stack b1)) H1 Hpre) as [H2 _].
  { rewrite Hpre, app_length. cbn. lia. }
  destruct H2 as (s & Z & _ & _ & _ & _ & Hm). exact Hm.
Qed.

(* ------------------------------------------------------------------------------------------ *)
(* MAIN THEOREM: for every configuration and every event sequence the heap built by the parser represents ONE tree,
   rooted at the document object 0, whose pre-order is exactly the creation order of the elements, with the root
   outside the element chain *)
Theorem parse_rep : forall cfg evs,
  let b := feed cfg evs in
  exists T, rid T = 0 /\ pre T = seq 0 (nxt (b_st b)) /\ rep [(T, false)] (hp (b_st b)).
Proof.
  intros cfg evs b. unfold b, feed. cbv zeta.
  set (b1 := end_data cfg (fold_left (step_event cfg) evs (reset cfg)) None).
  assert (H1 : Inv cfg b1) by (apply Inv_end_data, Inv_fold, Inv_reset).
  assert (Hsh : exists pre, b_stack b1 = pre ++ [0]) by (destruct H1 as (s & Z & Hs & _); exact (sim_shape _ _ _ Hs)).
  destruct Hsh as [pre Hpre].
  destruct (Inv_pop_all cfg pre b1 (length (b_stack b1)) H1 Hpre) as [H2 Est].
  { rewrite Hpre, app_length. cbn. lia. }
  destruct H2 as (s & Z & _ & HZ & Hh & _). rewrite Est in HZ.
  destruct Z as [|[r ks] [|fr Z]]; try discriminate. cbn in HZ. inversion HZ; subst r.
  destruct (hinv_rep _ _ _ Hh) as [Ep Hrep].
  exists (Node 0 ks). split; [reflexivity|]. split; assumption.
Qed.

Print Assumptions parse_rep_prefix.
Print Assumptions parse_mre.
Print Assumptions parse_rep.
