(* Proofs about the concrete codecs of Model/Codecs.v, for ALL byte strings / strings:
   round trips, totality, agreement on ASCII, and the instances of the codec-parametric C07 and C08
   theorems (Proofs/DammitProofs.v, Proofs/EncodeProofs.v, Proofs/EncodeCompose.v) with nothing about the
   codecs left as a hypothesis.  Facts about the generated single-byte tables are decided by vm_compute over
   the 256 entries and lifted with forallb_forall. *)
From Coq Require Import List NArith Bool Arith Lia ZArith.
From BS Require Import Base.Sexp Base.Types Base.Reader Spec.Utf8 Gen.T_Codecs Gen.T_C07 Gen.Stdlib
     Model.Dammit Model.Sniff Model.Encode Model.Codecs Spec.DammitSpec
     Proofs.EncodeProofs Proofs.Utf8Codec Proofs.EncodeCompose Proofs.DammitProofs.
Import ListNotations.
Open Scope N_scope.

Ltac Zify.zify_post_hook ::= Z.to_euclidean_division_equations.

(* ================================================================== *)
(* 0. all bytes                                                        *)
(* ================================================================== *)
Definition bytes256 : list N := map N.of_nat (seq 0 256).
Definition is_bytes (bs : list N) : bool := forallb (fun b => b <? 256) bs.

Lemma in_bytes256 b : b < 256 -> In b bytes256.
Proof.
  intros H. unfold bytes256. rewrite <- (N2Nat.id b). apply in_map. apply in_seq. lia.
Qed.

Lemma byte_sweep (P : N -> bool) : forallb P bytes256 = true -> forall b, b < 256 -> P b = true.
Proof. intros H b Hb. rewrite forallb_forall in H. apply H. now apply in_bytes256. Qed.

(* ================================================================== *)
(* 1. single-byte codecs, generic in the table                         *)
(* ================================================================== *)
Section SB.
  Variable tbl : list (option N).

  (* the table obligation: 256 entries, and the encoder finds every byte back *)
  Definition sb_inverse_ok : bool :=
    Nat.eqb (length tbl) 256 &&
    forallb (fun b => match sb_dec_byte tbl b with
                      | Some c => match sb_find c tbl 0 with Some b' => b' =? b | None => false end
                      | None => true
                      end) bytes256.

  Lemma sb_dec_byte_lt b c : sb_dec_byte tbl b = Some c -> b < 256.
  Proof. unfold sb_dec_byte. destruct (b <? 256) eqn:E; [intros _; now apply N.ltb_lt|discriminate]. Qed.

  Lemma sb_find_sound c : forall t i b, sb_find c t i = Some b ->
    exists k, b = i + N.of_nat k /\ (k < length t)%nat /\ nth k t None = Some c.
  Proof.
    induction t as [|e t IH]; intros i b; cbn [sb_find]; [discriminate|].
    assert (Hrec : sb_find c t (i + 1) = Some b ->
                   exists k, b = i + N.of_nat k /\ (k < length (e :: t))%nat /\ nth k (e :: t) None = Some c).
    { intros H. destruct (IH _ _ H) as (k & -> & Hk & Hn). exists (S k). cbn [length nth]. repeat split; [lia|lia|exact Hn]. }
    destruct e as [d|]; [|exact Hrec].
    destruct (d =? c) eqn:E; [|exact Hrec].
    intros [= <-]. apply N.eqb_eq in E. subst d. exists O. cbn [length nth]. repeat split; lia.
  Qed.

  Hypothesis Hlen : length tbl = 256%nat.

  (* what the encoder writes decodes to the character *)
  Lemma sb_enc_dec c bs : sb_enc_char tbl c = Some bs -> exists b, bs = [b] /\ sb_dec_byte tbl b = Some c.
  Proof.
    unfold sb_enc_char. destruct (sb_find c tbl 0) as [b|] eqn:E; [|discriminate]. intros [= <-].
    exists b. split; [reflexivity|]. destruct (sb_find_sound _ _ _ _ E) as (k & -> & Hk & Hn).
    unfold sb_dec_byte. assert ((0 + N.of_nat k <? 256) = true) as -> by (apply N.ltb_lt; lia).
    now rewrite N.add_0_l, Nat2N.id.
  Qed.

  (* decode (encode s) = Some s *)
  Theorem sb_decode_encode u : forall b, enc_strict (sb_enc_char tbl) u = Some b -> sb_decode tbl b = Some u.
  Proof.
    induction u as [|c u IH]; intros b; cbn [enc_strict]; [intros [= <-]; reflexivity|].
    destruct (sb_enc_char tbl c) as [x|] eqn:E; [|discriminate].
    destruct (enc_strict (sb_enc_char tbl) u) as [r|]; [|discriminate]. intros [= <-].
    destruct (sb_enc_dec _ _ E) as (b0 & -> & Hd). cbn [app sb_decode]. now rewrite Hd, (IH r eq_refl).
  Qed.

  Hypothesis Hinv : sb_inverse_ok = true.

  Lemma sb_dec_enc b c : sb_dec_byte tbl b = Some c -> sb_enc_char tbl c = Some [b].
  Proof.
    intros Hd. pose proof (sb_dec_byte_lt _ _ Hd) as Hb.
    unfold sb_inverse_ok in Hinv. apply andb_prop in Hinv as [_ H].
    pose proof (byte_sweep _ H b Hb) as G. cbn beta in G. rewrite Hd in G.
    unfold sb_enc_char. destruct (sb_find c tbl 0) as [b'|]; [|discriminate]. apply N.eqb_eq in G. now subst.
  Qed.

  (* encode (decode b) = Some b *)
  Theorem sb_encode_decode bs : forall u, sb_decode tbl bs = Some u -> enc_strict (sb_enc_char tbl) u = Some bs.
  Proof.
    induction bs as [|b bs IH]; intros u; cbn [sb_decode]; [intros [= <-]; reflexivity|].
    destruct (sb_dec_byte tbl b) as [c|] eqn:E; [|discriminate].
    destruct (sb_decode tbl bs) as [r|]; [|discriminate]. intros [= <-].
    cbn [enc_strict]. now rewrite (sb_dec_enc _ _ E), (IH r eq_refl).
  Qed.

  (* errors="replace" changes nothing when strict decoding succeeds, and never fails *)
  Theorem sb_replace_agrees bs : forall u, sb_decode tbl bs = Some u -> sb_decode_replace tbl bs = u.
  Proof.
    induction bs as [|b bs IH]; intros u; cbn [sb_decode sb_decode_replace map]; [intros [= <-]; reflexivity|].
    destruct (sb_dec_byte tbl b) as [c|]; [|discriminate].
    destruct (sb_decode tbl bs) as [r|]; [|discriminate]. intros [= <-]. f_equal. now apply IH.
  Qed.

  (* strict decoding fails exactly on an undefined byte *)
  Theorem sb_decode_none_iff bs : sb_decode tbl bs = None <-> exists b, In b bs /\ sb_dec_byte tbl b = None.
  Proof.
    induction bs as [|b bs IH]; cbn [sb_decode].
    - split; [discriminate|intros (b & [] & _)].
    - destruct (sb_dec_byte tbl b) as [c|] eqn:E.
      + destruct (sb_decode tbl bs) as [r|].
        * split; [discriminate|]. intros (x & [<-|Hx] & Hn); [congruence|].
          destruct IH as [_ IH]. discriminate IH. now exists x.
        * split; [|reflexivity]. intros _. destruct IH as [IH _]. destruct (IH eq_refl) as (x & Hx & Hn).
          exists x. split; [now right|exact Hn].
      + split; [|reflexivity]. intros _. exists b. split; [now left|exact E].
  Qed.
End SB.

(* ---- the three generated tables ---- *)
Lemma ascii_len : length cd_ascii_table = 256%nat. Proof. reflexivity. Qed.
Lemma latin1_len : length cd_latin1_table = 256%nat. Proof. reflexivity. Qed.
Lemma cp1252_len : length cd_cp1252_table = 256%nat. Proof. reflexivity. Qed.
Lemma ascii_inverse_ok : sb_inverse_ok cd_ascii_table = true. Proof. vm_compute. reflexivity. Qed.
Lemma latin1_inverse_ok : sb_inverse_ok cd_latin1_table = true. Proof. vm_compute. reflexivity. Qed.
Lemma cp1252_inverse_ok : sb_inverse_ok cd_cp1252_table = true. Proof. vm_compute. reflexivity. Qed.

(* closed forms, each a sweep over the 256 entries *)
Lemma ascii_dec_byte b : sb_dec_byte cd_ascii_table b = if b <? 128 then Some b else None.
Proof.
  destruct (b <? 256) eqn:E.
  - apply N.ltb_lt in E.
    assert (H : forallb (fun b => match sb_dec_byte cd_ascii_table b, (if b <? 128 then Some b else None) with
                                  | Some x, Some y => x =? y | None, None => true | _, _ => false end) bytes256 = true)
      by (vm_compute; reflexivity).
    pose proof (byte_sweep _ H b E) as G. cbn beta in G.
    destruct (sb_dec_byte cd_ascii_table b), (b <? 128); try discriminate; [|reflexivity].
    apply N.eqb_eq in G. now subst.
  - unfold sb_dec_byte. rewrite E. apply N.ltb_ge in E.
    assert ((b <? 128) = false) as -> by (apply N.ltb_ge; lia). reflexivity.
Qed.

Lemma latin1_dec_byte b : sb_dec_byte cd_latin1_table b = if b <? 256 then Some b else None.
Proof.
  destruct (b <? 256) eqn:E.
  - apply N.ltb_lt in E.
    assert (H : forallb (fun b => match sb_dec_byte cd_latin1_table b with Some x => x =? b | None => false end)
                        bytes256 = true) by (vm_compute; reflexivity).
    pose proof (byte_sweep _ H b E) as G. cbn beta in G.
    destruct (sb_dec_byte cd_latin1_table b); [|discriminate]. apply N.eqb_eq in G. now subst.
  - unfold sb_dec_byte. now rewrite E.
Qed.

(* windows-1252: the bytes the running interpreter leaves undefined *)
Definition cp1252_undefined : list N := [129; 141; 143; 144; 157].
Lemma cp1252_undefined_iff b : b < 256 -> (sb_dec_byte cd_cp1252_table b = None <-> In b cp1252_undefined).
Proof.
  intros E.
  assert (H : forallb (fun b => Bool.eqb (match sb_dec_byte cd_cp1252_table b with Some _ => false | None => true end)
                                         (memN b cp1252_undefined)) bytes256 = true) by (vm_compute; reflexivity).
  pose proof (byte_sweep _ H b E) as G. cbn beta in G. apply eqb_prop in G.
  rewrite <- memN_In, <- G. destruct (sb_dec_byte cd_cp1252_table b); split; congruence.
Qed.
(* ... is the identity on ASCII and on U+00A0..U+00FF *)
Lemma cp1252_dec_byte_id b : b < 128 \/ 160 <= b < 256 -> sb_dec_byte cd_cp1252_table b = Some b.
Proof.
  intros Hb. assert (E : b < 256) by lia.
  assert (H : forallb (fun b => if (b <? 128) || (160 <=? b)
                                then match sb_dec_byte cd_cp1252_table b with Some x => x =? b | None => false end
                                else true) bytes256 = true) by (vm_compute; reflexivity).
  pose proof (byte_sweep _ H b E) as G. cbn beta in G.
  assert ((b <? 128) || (160 <=? b) = true) as Hc.
  { apply orb_true_iff. destruct Hb; [left; apply N.ltb_lt|right; apply N.leb_le]; lia. }
  rewrite Hc in G. destruct (sb_dec_byte cd_cp1252_table b); [|discriminate]. apply N.eqb_eq in G. now subst.
Qed.

(* ================================================================== *)
(* 2. UTF-8                                                            *)
(* ================================================================== *)
(* the model's decoder / encoder are the ones Proofs/Utf8Codec.v is about *)
Lemma utf8_decode_eq bs : utf8_decode bs = utf8_dec bs.
Proof. reflexivity. Qed.
Lemma utf8_enc_char_eq c : utf8_enc_char c = utf8_codec c.
Proof. reflexivity. Qed.

Lemma is_cont_range b : is_cont b = true -> 128 <= b <= 191.
Proof. unfold is_cont. intros H. apply andb_prop in H as [H1 H2]. apply N.leb_le in H1, H2. lia. Qed.

Lemma range_of a b x : (a <=? x) && (x <=? b) = true -> a <= x <= b.
Proof. intros H. apply andb_prop in H as [H1 H2]. apply N.leb_le in H1, H2. lia. Qed.

Lemma utf8_enc2 b0 b1 : 194 <= b0 <= 223 -> 128 <= b1 <= 191 ->
  scalar ((b0 - 192) * 64 + (b1 - 128)) = true /\ utf8_enc ((b0 - 192) * 64 + (b1 - 128)) = [b0; b1].
Proof.
  intros H0 H1. set (c := (b0 - 192) * 64 + (b1 - 128)).
  assert (Hc : 128 <= c < 2048) by (unfold c; lia).
  split.
  - unfold scalar. assert ((c <? 55296) = true) as -> by (apply N.ltb_lt; lia). reflexivity.
  - unfold utf8_enc. assert ((c <? 128) = false) as -> by (apply N.ltb_ge; lia).
    assert ((c <? 2048) = true) as -> by (apply N.ltb_lt; lia).
    assert (c / 64 = b0 - 192) by (unfold c; lia). assert (c mod 64 = b1 - 128) by (unfold c; lia).
    f_equal; [lia|]. f_equal. lia.
Qed.

Lemma utf8_enc3 b0 b1 b2 : 224 <= b0 <= 239 -> 128 <= b1 <= 191 -> 128 <= b2 <= 191 ->
  2048 <= (b0 - 224) * 4096 + (b1 - 128) * 64 + (b2 - 128) ->
  utf8_enc ((b0 - 224) * 4096 + (b1 - 128) * 64 + (b2 - 128)) = [b0; b1; b2].
Proof.
  intros H0 H1 H2. set (c := (b0 - 224) * 4096 + (b1 - 128) * 64 + (b2 - 128)). intros Hc.
  assert (Hu : c < 65536) by (unfold c; lia).
  unfold utf8_enc. assert ((c <? 128) = false) as -> by (apply N.ltb_ge; lia).
  assert ((c <? 2048) = false) as -> by (apply N.ltb_ge; lia).
  assert ((c <? 65536) = true) as -> by (apply N.ltb_lt; lia).
  assert (c / 4096 = b0 - 224) by (unfold c; lia).
  assert ((c / 64) mod 64 = b1 - 128) by (unfold c; lia).
  assert (c mod 64 = b2 - 128) by (unfold c; lia).
  f_equal; [lia|]. f_equal; [lia|]. f_equal. lia.
Qed.

Lemma utf8_enc4 b0 b1 b2 b3 : 240 <= b0 <= 244 -> 128 <= b1 <= 191 -> 128 <= b2 <= 191 -> 128 <= b3 <= 191 ->
  65536 <= (b0 - 240) * 262144 + (b1 - 128) * 4096 + (b2 - 128) * 64 + (b3 - 128) <= 1114111 ->
  scalar ((b0 - 240) * 262144 + (b1 - 128) * 4096 + (b2 - 128) * 64 + (b3 - 128)) = true /\
  utf8_enc ((b0 - 240) * 262144 + (b1 - 128) * 4096 + (b2 - 128) * 64 + (b3 - 128)) = [b0; b1; b2; b3].
Proof.
  intros H0 H1 H2 H3. set (c := (b0 - 240) * 262144 + (b1 - 128) * 4096 + (b2 - 128) * 64 + (b3 - 128)). intros Hc.
  split.
  - unfold scalar. assert ((57344 <=? c) && (c <=? 1114111) = true) as ->
      by (apply andb_true_intro; split; apply N.leb_le; lia). apply orb_true_r.
  - unfold utf8_enc. assert ((c <? 128) = false) as -> by (apply N.ltb_ge; lia).
    assert ((c <? 2048) = false) as -> by (apply N.ltb_ge; lia).
    assert ((c <? 65536) = false) as -> by (apply N.ltb_ge; lia).
    assert (c / 262144 = b0 - 240) by (unfold c; lia).
    assert ((c / 4096) mod 64 = b1 - 128) by (unfold c; lia).
    assert ((c / 64) mod 64 = b2 - 128) by (unfold c; lia).
    assert (c mod 64 = b3 - 128) by (unfold c; lia).
    f_equal; [lia|]. f_equal; [lia|]. f_equal; [lia|]. f_equal. lia.
Qed.

Lemma utf8_enc_step c bs v r : scalar c = true -> utf8_enc c = bs -> enc_strict utf8_codec v = Some r ->
  enc_strict utf8_codec (c :: v) = Some (bs ++ r).
Proof. intros Hs He Hv. cbn [enc_strict]. unfold utf8_codec at 1. now rewrite Hs, Hv, He. Qed.

(* encode (decode b) = Some b: the strict decoder accepts only what the encoder writes *)
Lemma utf8_encode_decode_n : forall n bs u, (length bs <= n)%nat ->
  utf8_dec bs = Some u -> enc_strict utf8_codec u = Some bs.
Proof.
  induction n as [|n IH]; intros bs u Hl.
  { destruct bs; [|cbn in Hl; lia]. cbn. intros [= <-]. reflexivity. }
  destruct bs as [|b0 r0]; [cbn; intros [= <-]; reflexivity|].
  cbn [utf8_dec]. cbn [length] in Hl.
  destruct (b0 <? 128) eqn:E1.
  { destruct (utf8_dec r0) as [v|] eqn:Er; cbn [option_map]; [|discriminate]. intros [= <-].
    apply N.ltb_lt in E1.
    apply (utf8_enc_step b0 [b0] v r0); [| |apply (IH r0 v); [lia|exact Er]].
    - unfold scalar. assert ((b0 <? 55296) = true) as -> by (apply N.ltb_lt; lia). reflexivity.
    - unfold utf8_enc. assert ((b0 <? 128) = true) as -> by (apply N.ltb_lt; lia). reflexivity. }
  destruct ((194 <=? b0) && (b0 <=? 223)) eqn:E2.
  { apply range_of in E2. destruct r0 as [|b1 r1]; [discriminate|].
    destruct (is_cont b1) eqn:C1; [|discriminate]. apply is_cont_range in C1.
    destruct (utf8_dec r1) as [v|] eqn:Er; cbn [option_map]; [|discriminate]. intros [= <-].
    destruct (utf8_enc2 b0 b1 E2 C1) as [Hs He].
    apply (utf8_enc_step _ [b0; b1] v r1 Hs He). apply (IH r1 v); [cbn [length] in Hl; lia|exact Er]. }
  destruct ((224 <=? b0) && (b0 <=? 239)) eqn:E3.
  { apply range_of in E3. destruct r0 as [|b1 [|b2 r2]]; [discriminate|discriminate|].
    destruct (is_cont b1) eqn:C1; [|discriminate]. destruct (is_cont b2) eqn:C2; [|discriminate]. cbn [andb].
    apply is_cont_range in C1, C2.
    destruct (scalar ((b0 - 224) * 4096 + (b1 - 128) * 64 + (b2 - 128)) &&
              (2048 <=? (b0 - 224) * 4096 + (b1 - 128) * 64 + (b2 - 128))) eqn:S; [|discriminate].
    apply andb_prop in S as [Hs Hc]. apply N.leb_le in Hc.
    destruct (utf8_dec r2) as [v|] eqn:Er; cbn [option_map]; [|discriminate]. intros [= <-].
    apply (utf8_enc_step _ [b0; b1; b2] v r2 Hs (utf8_enc3 b0 b1 b2 E3 C1 C2 Hc)).
    apply (IH r2 v); [cbn [length] in Hl; lia|exact Er]. }
  destruct ((240 <=? b0) && (b0 <=? 244)) eqn:E4; [|discriminate].
  apply range_of in E4. destruct r0 as [|b1 [|b2 [|b3 r3]]]; [discriminate|discriminate|discriminate|].
  destruct (is_cont b1) eqn:C1; [|discriminate]. destruct (is_cont b2) eqn:C2; [|discriminate].
  destruct (is_cont b3) eqn:C3; [|discriminate]. cbn [andb].
  apply is_cont_range in C1, C2, C3.
  destruct ((65536 <=? (b0 - 240) * 262144 + (b1 - 128) * 4096 + (b2 - 128) * 64 + (b3 - 128)) &&
            ((b0 - 240) * 262144 + (b1 - 128) * 4096 + (b2 - 128) * 64 + (b3 - 128) <=? 1114111)) eqn:S; [|discriminate].
  apply range_of in S.
  destruct (utf8_dec r3) as [v|] eqn:Er; cbn [option_map]; [|discriminate]. intros [= <-].
  destruct (utf8_enc4 b0 b1 b2 b3 E4 C1 C2 C3 S) as [Hs He].
  apply (utf8_enc_step _ [b0; b1; b2; b3] v r3 Hs He). apply (IH r3 v); [cbn [length] in Hl; lia|exact Er].
Qed.

Theorem utf8_encode_decode bs u : utf8_dec bs = Some u -> enc_strict utf8_codec u = Some bs.
Proof. apply (utf8_encode_decode_n (length bs)). lia. Qed.

(* what strict decoding yields is a string of Unicode scalar values *)
Lemma enc_strict_utf8_scalar u : forall b, enc_strict utf8_codec u = Some b -> forallb scalar u = true.
Proof.
  induction u as [|c u IH]; intros b; cbn [enc_strict forallb]; [reflexivity|].
  unfold utf8_codec at 1. destruct (scalar c); [|discriminate].
  destruct (enc_strict utf8_codec u) as [r|]; [|discriminate]. intros _. now rewrite (IH r eq_refl).
Qed.
Theorem utf8_decode_scalar bs u : utf8_dec bs = Some u -> forallb scalar u = true.
Proof. intros H. exact (enc_strict_utf8_scalar u bs (utf8_encode_decode bs u H)). Qed.

(* ================================================================== *)
(* 3. the codec interface                                              *)
(* ================================================================== *)
(* [encoder k]: k is one of the four codecs with an encoder (Model/Codecs.v) *)

(* decode (encode s) = Some s, whenever strict encoding succeeds *)
Theorem codec_decode_encode k u b : encoder k = true ->
  enc_strict (codec_enc_char k) u = Some b -> codec_decode k Dammit.Strict b = Some u.
Proof.
  destruct k; try discriminate; intros _; cbn [codec_enc_char codec_decode].
  - apply sb_decode_encode. exact ascii_len.
  - apply sb_decode_encode. exact latin1_len.
  - apply sb_decode_encode. exact cp1252_len.
  - intros H. rewrite utf8_decode_eq. exact (utf8_dec_ok u b H).
Qed.

(* encode (decode b) = Some b, whenever strict decoding succeeds *)
Theorem codec_encode_decode k bs u : encoder k = true ->
  codec_decode k Dammit.Strict bs = Some u -> enc_strict (codec_enc_char k) u = Some bs.
Proof.
  destruct k; try discriminate; intros _; cbn [codec_enc_char codec_decode].
  - apply sb_encode_decode. exact ascii_inverse_ok.
  - apply sb_encode_decode. exact latin1_inverse_ok.
  - apply sb_encode_decode. exact cp1252_inverse_ok.
  - rewrite utf8_decode_eq. apply utf8_encode_decode.
Qed.

(* errors="replace" never fails, for all eight decoders *)
Lemma u16_go_rep_total us : forall pend t, u16_go true pend us t <> None.
Proof.
  induction us as [|u r IH]; intros pend t; cbn [u16_go].
  - destruct pend, t; discriminate.
  - assert (F : (if is_high u then u16_go true (Some u) r t
                 else if is_low u then option_map (cons cd_decode_replacement) (u16_go true None r t)
                 else option_map (cons u) (u16_go true None r t)) <> None).
    { destruct (is_high u); [apply IH|]. destruct (is_low u);
        (destruct (u16_go true None r t) eqn:E; [discriminate|now apply IH in E]). }
    destruct pend as [h|]; [|exact F].
    destruct (is_low u).
    + destruct (u16_go true None r t) eqn:E; [discriminate|now apply IH in E].
    + match goal with |- option_map _ ?x <> None => destruct x eqn:E end; [discriminate|contradiction].
Qed.
Lemma u32_go_rep_total us t : u32_go true us t <> None.
Proof.
  induction us as [|u r IH]; cbn [u32_go]; [destruct t; discriminate|].
  destruct (scalar u); (destruct (u32_go true r t); [discriminate|contradiction]).
Qed.

Theorem codec_replace_total k bs : exists u, codec_decode k Replace bs = Some u.
Proof.
  destruct k; cbn [codec_decode]; try (eexists; reflexivity).
  - unfold utf16_decode. destruct (units16 true bs) as [us t].
    destruct (u16_go true None us t) eqn:E; [eexists; reflexivity|now apply u16_go_rep_total in E].
  - unfold utf16_decode. destruct (units16 false bs) as [us t].
    destruct (u16_go true None us t) eqn:E; [eexists; reflexivity|now apply u16_go_rep_total in E].
  - unfold utf32_decode. destruct (units32 true bs) as [us t].
    destruct (u32_go true us t) eqn:E; [eexists; reflexivity|now apply u32_go_rep_total in E].
  - unfold utf32_decode. destruct (units32 false bs) as [us t].
    destruct (u32_go true us t) eqn:E; [eexists; reflexivity|now apply u32_go_rep_total in E].
Qed.

(* iso-8859-1 decodes every byte string, to the same numbers *)
Lemma sb_decode_id tbl bs : (forall b, In b bs -> sb_dec_byte tbl b = Some b) ->
  sb_decode tbl bs = Some bs /\ sb_decode_replace tbl bs = bs.
Proof.
  induction bs as [|b bs IH]; intros H; [split; reflexivity|].
  destruct IH as [I1 I2]; [intros x Hx; apply H; now right|].
  cbn [sb_decode sb_decode_replace map]. rewrite (H b (or_introl eq_refl)), I1. split; [reflexivity|].
  f_equal. exact I2.
Qed.

Theorem latin1_total bs : is_bytes bs = true ->
  codec_decode Latin1 Dammit.Strict bs = Some bs /\ codec_decode Latin1 Replace bs = Some bs.
Proof.
  intros H. unfold is_bytes in H. rewrite forallb_forall in H. cbn [codec_decode].
  destruct (sb_decode_id cd_latin1_table bs) as [A B].
  { intros b Hb. rewrite latin1_dec_byte. now rewrite (H b Hb). }
  now rewrite A, B.
Qed.

(* windows-1252 rejects exactly the byte strings containing one of its five undefined bytes *)
Theorem cp1252_strict_fails_iff bs : is_bytes bs = true ->
  (codec_decode Cp1252 Dammit.Strict bs = None <-> exists b, In b bs /\ In b cp1252_undefined).
Proof.
  intros H. unfold is_bytes in H. rewrite forallb_forall in H. cbn [codec_decode].
  rewrite sb_decode_none_iff. split; intros (b & Hb & Hu); exists b; (split; [exact Hb|]).
  - apply cp1252_undefined_iff; [apply N.ltb_lt; now apply H|exact Hu].
  - apply cp1252_undefined_iff; [apply N.ltb_lt; now apply H|exact Hu].
Qed.

(* ASCII-only input decodes to itself under ascii, iso-8859-1, windows-1252 and utf-8, strictly and with replacement *)
Definition is_ascii (bs : list N) : bool := forallb (fun b => b <? 128) bs.

Lemma utf8_dec_ascii bs : is_ascii bs = true -> utf8_dec bs = Some bs.
Proof.
  induction bs as [|b bs IH]; [reflexivity|]. cbn [is_ascii forallb]. intros H. apply andb_prop in H as [H1 H2].
  cbn [utf8_dec]. rewrite H1. unfold is_ascii in IH. now rewrite (IH H2).
Qed.
Lemma u8_run_ascii bs : is_ascii bs = true -> u8_run U8Start bs = bs.
Proof.
  induction bs as [|b bs IH]; [reflexivity|]. cbn [is_ascii forallb]. intros H. apply andb_prop in H as [H1 H2].
  cbn [u8_run u8_step]. unfold u8_start. rewrite H1. cbn [app]. unfold is_ascii in IH. now rewrite (IH H2).
Qed.

Theorem ascii_agree k m bs : encoder k = true -> is_ascii bs = true -> codec_decode k m bs = Some bs.
Proof.
  intros Hk H. pose proof H as H'. unfold is_ascii in H'. rewrite forallb_forall in H'.
  assert (L : forall b, In b bs -> b < 128) by (intros b Hb; apply N.ltb_lt; now apply H').
  destruct k; try discriminate; destruct m; cbn [codec_decode].
  - apply sb_decode_id. intros b Hb. rewrite ascii_dec_byte. now rewrite (H' b Hb).
  - f_equal. apply sb_decode_id. intros b Hb. rewrite ascii_dec_byte. now rewrite (H' b Hb).
  - apply sb_decode_id. intros b Hb. rewrite latin1_dec_byte. specialize (L b Hb).
    assert ((b <? 256) = true) as -> by (apply N.ltb_lt; lia). reflexivity.
  - f_equal. apply sb_decode_id. intros b Hb. rewrite latin1_dec_byte. specialize (L b Hb).
    assert ((b <? 256) = true) as -> by (apply N.ltb_lt; lia). reflexivity.
  - apply sb_decode_id. intros b Hb. apply cp1252_dec_byte_id. left. now apply L.
  - f_equal. apply sb_decode_id. intros b Hb. apply cp1252_dec_byte_id. left. now apply L.
  - rewrite utf8_decode_eq. now apply utf8_dec_ascii.
  - f_equal. unfold utf8_decode_replace. now apply u8_run_ascii.
Qed.

(* strict ASCII decoding succeeds exactly on ASCII-only input *)
Theorem ascii_strict_iff bs : codec_decode Ascii Dammit.Strict bs = Some bs <-> is_ascii bs = true.
Proof.
  split; [|apply (ascii_agree Ascii Dammit.Strict bs eq_refl)].
  cbn [codec_decode]. induction bs as [|b bs IH]; [reflexivity|].
  cbn [sb_decode is_ascii forallb]. rewrite ascii_dec_byte. destruct (b <? 128); [|discriminate].
  destruct (sb_decode cd_ascii_table bs) as [r|] eqn:E; [|discriminate]. intros [= ->]. cbn [andb]. now apply IH.
Qed.

(* ================================================================== *)
(* 4. C07 with concrete codecs                                         *)
(* ================================================================== *)
(* The theorems below hold for EVERY [known] / [decode] that behave as Python does on the modelled names —
   whatever any other codec does — and for every sniffer and chardet. Model.Codecs.c_known / c_decode are one
   such pair (c_extends). Names are compared with ASCII lower-casing. *)
Definition extends_known (known : str -> bool) : Prop :=
  forall n, c_known n = true -> known n = true.
Definition extends_decode (decode : str -> str -> dmode -> option str) : Prop :=
  forall bs n k m, codec_of_name n = Some k -> decode bs n m = codec_decode k m bs.

Lemma codec_decode_nil k m : codec_decode k m [] = Some [].
Proof. destruct k, m; reflexivity. Qed.

Theorem c_extends : extends_known c_known /\ extends_decode c_decode.
Proof.
  split; [intros n H; exact H|].
  intros bs n k m H. unfold c_decode. rewrite H. destruct bs; [now rewrite codec_decode_nil|reflexivity].
Qed.

Lemma assocS_none_by_key {X} (P : str -> bool) c (l : list (str * X)) :
  forallb (fun kv => negb (P (fst kv))) l = true -> P c = true -> assocS c l = None.
Proof.
  induction l as [|[k v] l IH]; cbn [assocS forallb fst]; [reflexivity|].
  intros H Hc. apply andb_prop in H as [H1 H2].
  destruct (str_eqb c k) eqn:E; [|now apply IH].
  apply str_eqb_eq in E. subst k. rewrite Hc in H1. discriminate.
Qed.

Lemma lower_ascii_nonempty c n : lower_ascii c = n -> n <> [] -> is_empty c = false.
Proof. destruct c; [cbn; congruence|reflexivity]. Qed.

(* any spelling of a modelled, un-aliased name resolves to the lower-cased name *)
Lemma find_codec_spelling known c n k :
  extends_known known -> lower_ascii c = n -> n <> [] ->
  forallb (fun kv => negb (str_eqb (lower_ascii (fst kv)) n)) charset_aliases = true ->
  assocS n cd_codec_names = Some (Some k) -> codec_of_id k <> None ->
  find_codec lower_ascii known c = Some n.
Proof.
  intros Hk Hc Hn Hal Hnm Hid.
  assert (Ha : assocS c charset_aliases = None).
  { apply (assocS_none_by_key (fun x => str_eqb (lower_ascii x) n)); [exact Hal|]. rewrite Hc. apply str_eqb_refl. }
  assert (Hkn : known c = true).
  { apply Hk. unfold c_known, codec_of_name. rewrite Hc, Hnm. destruct (codec_of_id k); [reflexivity|contradiction]. }
  unfold find_codec, alias_of. rewrite Ha. unfold codec_. rewrite (lower_ascii_nonempty c n Hc Hn), Hkn.
  cbn [or_else]. now rewrite Hc.
Qed.

Lemma find_codec_cp1252 known c : extends_known known -> lower_ascii c = n_windows1252 ->
  find_codec lower_ascii known c = Some n_windows1252.
Proof.
  intros Hk Hc. apply (find_codec_spelling known c n_windows1252 2 Hk Hc); try discriminate; vm_compute; reflexivity.
Qed.
Lemma find_codec_utf8 known c : extends_known known -> lower_ascii c = n_utf8 ->
  find_codec lower_ascii known c = Some n_utf8.
Proof.
  intros Hk Hc. apply (find_codec_spelling known c n_utf8 3 Hk Hc); try discriminate; vm_compute; reflexivity.
Qed.

Lemma decode_cp1252 decode bs m : extends_decode decode ->
  decode bs n_windows1252 m = codec_decode Cp1252 m bs.
Proof. intros H. apply H. vm_compute. reflexivity. Qed.
Lemma decode_utf8 decode bs m : extends_decode decode -> decode bs n_utf8 m = codec_decode Utf8 m bs.
Proof. intros H. apply H. vm_compute. reflexivity. Qed.

(* (a) the last resort never fails: unless windows-1252 is excluded, every non-empty byte string gets a text *)
Theorem last_resort_never_fails known decode sniff chardet b a :
  extends_known known -> extends_decode decode -> b <> [] ->
  excluded lower_ascii (a_exclude a) n_windows1252 = false ->
  r_text (dammit lower_ascii known decode sniff chardet (MBytes b) a) <> None.
Proof.
  intros Hk Hd Hb Hex Hn.
  apply (no_text_iff lower_ascii known decode sniff chardet b a Hb) in Hn. destruct Hn as [_ Hrep].
  rewrite encodings_spec in Hrep.
  destruct (candidates_represent lower_ascii (a_exclude a)
              (documented_order (a_known a ++ a_override a) (det_sniffed (MBytes b)) (a_user a)
                 (det_declared sniff (MBytes b) a) (chardet (det_markup (MBytes b)))) n_windows1252)
    as (c & Hin & Hl).
  { unfold documented_order. repeat (apply in_or_app; right). right. left. reflexivity. }
  { exact Hex. }
  assert (Hlc : lower_ascii c = n_windows1252) by (rewrite Hl; vm_compute; reflexivity).
  assert (Hna : c <> n_ascii).
  { intros ->. vm_compute in Hlc. discriminate. }
  specialize (Hrep c Hin Hna). unfold attempt in Hrep.
  rewrite (find_codec_cp1252 known c Hk Hlc), (decode_cp1252 decode _ _ Hd) in Hrep.
  cbn [codec_decode] in Hrep. discriminate.
Qed.

(* (b) whichever of ascii / iso-8859-1 / windows-1252 / utf-8 ends up being used, ASCII-only input is returned
   as it is *)
Theorem ascii_input_text known decode sniff chardet b a u o k :
  extends_decode decode -> b <> [] -> is_ascii (fst (strip_bom b)) = true ->
  r_text (dammit lower_ascii known decode sniff chardet (MBytes b) a) = Some u ->
  r_orig (dammit lower_ascii known decode sniff chardet (MBytes b) a) = Some o ->
  codec_of_name o = Some k -> encoder k = true ->
  u = fst (strip_bom b).
Proof.
  intros Hd Hb Ha Ht Ho Hn He.
  destruct (text_is_decoding lower_ascii known decode sniff chardet b a u Hb Ht) as (o' & Ho' & Hdec).
  rewrite Ho in Ho'. injection Ho' as <-.
  rewrite (Hd _ _ _ _ Hn), (ascii_agree k _ _ He Ha) in Hdec. congruence.
Qed.

(* (c) valid UTF-8 with no contrary indication is decoded as UTF-8, by the UTF-8 decoder defined in Coq *)
Theorem valid_utf8_wins known decode sniff chardet b a u :
  extends_known known -> extends_decode decode -> b <> [] ->
  a_known a = [] -> a_override a = [] -> a_user a = [] ->
  chardet (MBytes (fst (strip_bom b))) = None ->
  (snd (strip_bom b) = None \/ snd (strip_bom b) = Some n_utf8) ->
  (sniff (MBytes (fst (strip_bom b))) (a_is_html a) = None \/
   sniff (MBytes (fst (strip_bom b))) (a_is_html a) = Some n_utf8) ->
  excluded lower_ascii (a_exclude a) n_utf8 = false ->
  utf8_decode (fst (strip_bom b)) = Some u ->
  outcome (dammit lower_ascii known decode sniff chardet (MBytes b) a) = (Some u, Some n_utf8, false).
Proof.
  intros Hk Hd Hb H1 H2 H3 H4 H5 H6 H7 Hu.
  apply (utf8_default lower_ascii known decode sniff chardet b a u n_utf8); try assumption.
  - apply find_codec_utf8; [exact Hk|reflexivity].
  - rewrite (decode_utf8 decode _ _ Hd). exact Hu.
Qed.

(* (d) UnicodeDammit(data) with no arguments, no byte-order mark and no declaration, completely: UTF-8 if the
   bytes are valid UTF-8; else windows-1252 if none of its five undefined bytes occurs; else UTF-8 with U+FFFD
   and the flag set.  For every byte string. *)
Definition no_args : dargs := mkargs [] [] [] [] true.

Theorem default_detection known decode sniff chardet b :
  extends_known known -> extends_decode decode -> b <> [] ->
  snd (strip_bom b) = None ->
  sniff (MBytes (fst (strip_bom b))) true = None -> chardet (MBytes (fst (strip_bom b))) = None ->
  outcome (dammit lower_ascii known decode sniff chardet (MBytes b) no_args) =
  match utf8_decode (fst (strip_bom b)) with
  | Some u => (Some u, Some n_utf8, false)
  | None =>
      match sb_decode cd_cp1252_table (fst (strip_bom b)) with
      | Some u => (Some u, Some n_windows1252, false)
      | None => (Some (utf8_decode_replace (fst (strip_bom b))), Some n_utf8, true)
      end
  end.
Proof.
  intros Hk Hd Hb Hbom Hsn Hch.
  rewrite (dammit_outcome lower_ascii known decode sniff chardet b no_args Hb), encodings_spec.
  unfold det_sniffed, det_declared, det_markup, strip_byte_order_mark. cbn [fst snd no_args a_known a_override a_user a_exclude a_is_html].
  rewrite Hbom, Hsn, Hch.
  assert (Hc : spec_candidates lower_ascii [] (documented_order ([] ++ []) None [] None None) = [n_utf8; n_windows1252])
    by (vm_compute; reflexivity).
  rewrite Hc. unfold spec_outcome. cbn [first_some filter].
  assert (Hf : negb (str_eqb n_utf8 n_ascii) = true) by (vm_compute; reflexivity).
  assert (Hg : negb (str_eqb n_windows1252 n_ascii) = true) by (vm_compute; reflexivity).
  rewrite Hf, Hg. cbn [first_some]. unfold attempt.
  rewrite (find_codec_utf8 known n_utf8 Hk eq_refl), (find_codec_cp1252 known n_windows1252 Hk eq_refl).
  rewrite !(decode_utf8 decode _ _ Hd), !(decode_cp1252 decode _ _ Hd). cbn [codec_decode].
  destruct (utf8_decode (fst (strip_bom b))); [reflexivity|].
  destruct (sb_decode cd_cp1252_table (fst (strip_bom b))); reflexivity.
Qed.

(* ================================================================== *)
(* 5. C08 with concrete codecs                                         *)
(* ================================================================== *)
(* which characters each target represents *)
Lemma sb_encodable_of_dec tbl c : sb_inverse_ok tbl = true -> sb_dec_byte tbl c = Some c ->
  encodable (sb_enc_char tbl) c = true.
Proof. intros Hi Hd. unfold encodable. now rewrite (sb_dec_enc tbl Hi c c Hd). Qed.

Theorem ascii_encodable c : encodable (codec_enc_char Ascii) c = (c <? 128).
Proof.
  change (codec_enc_char Ascii) with (sb_enc_char cd_ascii_table). destruct (c <? 128) eqn:E.
  - apply sb_encodable_of_dec; [exact ascii_inverse_ok|]. now rewrite ascii_dec_byte, E.
  - unfold encodable. destruct (sb_enc_char cd_ascii_table c) as [bs|] eqn:F; [|reflexivity].
    destruct (sb_enc_dec _ ascii_len _ _ F) as (b & -> & Hd). rewrite ascii_dec_byte in Hd.
    destruct (b <? 128) eqn:G; [|discriminate]. injection Hd as ->. congruence.
Qed.
Theorem latin1_encodable c : encodable (codec_enc_char Latin1) c = (c <? 256).
Proof.
  change (codec_enc_char Latin1) with (sb_enc_char cd_latin1_table). destruct (c <? 256) eqn:E.
  - apply sb_encodable_of_dec; [exact latin1_inverse_ok|]. now rewrite latin1_dec_byte, E.
  - unfold encodable. destruct (sb_enc_char cd_latin1_table c) as [bs|] eqn:F; [|reflexivity].
    destruct (sb_enc_dec _ latin1_len _ _ F) as (b & -> & Hd). rewrite latin1_dec_byte in Hd.
    destruct (b <? 256) eqn:G; [|discriminate]. injection Hd as ->. congruence.
Qed.
Theorem utf8_encodable c : encodable (codec_enc_char Utf8) c = scalar c.
Proof. exact (utf8_encodable_scalar c). Qed.
(* windows-1252: exactly the characters in the table; in particular no C1 control *)
Theorem cp1252_encodable_iff c : encodable (codec_enc_char Cp1252) c = true <-> In (Some c) cd_cp1252_table.
Proof.
  change (codec_enc_char Cp1252) with (sb_enc_char cd_cp1252_table). unfold encodable. split.
  - destruct (sb_enc_char cd_cp1252_table c) as [bs|] eqn:F; [|discriminate]. intros _.
    destruct (sb_enc_dec _ cp1252_len _ _ F) as (b & -> & Hd). unfold sb_dec_byte in Hd.
    destruct (b <? 256) eqn:G; [|discriminate]. rewrite <- Hd. apply nth_In. rewrite cp1252_len.
    apply N.ltb_lt in G. lia.
  - intros H. destruct (In_nth _ _ None H) as (k & Hk & Hn). rewrite cp1252_len in Hk.
    assert (Hd : sb_dec_byte cd_cp1252_table (N.of_nat k) = Some c).
    { unfold sb_dec_byte. assert ((N.of_nat k <? 256) = true) as -> by (apply N.ltb_lt; lia). now rewrite Nat2N.id. }
    now rewrite (sb_dec_enc _ cp1252_inverse_ok _ _ Hd).
Qed.
Theorem cp1252_c1_unencodable c : 128 <= c <= 159 -> encodable (codec_enc_char Cp1252) c = false.
Proof.
  intros Hc. destruct (encodable (codec_enc_char Cp1252) c) eqn:E; [|reflexivity]. exfalso.
  apply cp1252_encodable_iff in E.
  assert (H : forallb (fun e => match e with Some d => negb ((128 <=? d) && (d <=? 159)) | None => true end)
                      cd_cp1252_table = true) by (vm_compute; reflexivity).
  rewrite forallb_forall in H. specialize (H _ E). cbn beta iota in H.
  assert ((128 <=? c) && (c <=? 159) = true) as G by (apply andb_true_intro; split; apply N.leb_le; lia).
  rewrite G in H. discriminate.
Qed.

Theorem codec_ascii_ok k : encoder k = true -> ascii_ok (codec_enc_char k).
Proof.
  intros Hk c Hc. destruct k; try discriminate.
  - rewrite ascii_encodable. now apply N.ltb_lt.
  - rewrite latin1_encodable. apply N.ltb_lt. lia.
  - change (codec_enc_char Cp1252) with (sb_enc_char cd_cp1252_table).
    apply sb_encodable_of_dec; [exact cp1252_inverse_ok|]. apply cp1252_dec_byte_id. now left.
  - exact (utf8_ascii_ok c Hc).
Qed.

Lemma codec_dec_ok k : encoder k = true ->
  forall u b, enc_strict (codec_enc_char k) u = Some b -> codec_decode k Dammit.Strict ([] ++ b) = Some u.
Proof. intros Hk u b H. cbn [app]. now apply codec_decode_encode. Qed.

(* str.encode(target, "xmlcharrefreplace") never fails and the bytes decode, strictly, in the target, to the text
   with exactly the unrepresentable characters written as decimal references — every string *)
Theorem concrete_encode_total k s : encoder k = true ->
  exists b, codec_encode k EXmlCharRef s = Some b /\
            codec_decode k Dammit.Strict b = Some (xcr_text (codec_enc_char k) s).
Proof.
  intros Hk. cbn [codec_encode].
  destruct (encode_total (codec_enc_char k) [] (codec_ascii_ok k Hk) s) as [b Hb]. exists b. split; [exact Hb|].
  exact (decodes_in_target (codec_enc_char k) [] (codec_decode k Dammit.Strict) (codec_dec_ok k Hk) XmlCharRef _ _ Hb).
Qed.

(* errors="replace": never fails either *)
Theorem concrete_encode_replace_total k s : encoder k = true -> exists b, codec_encode k EReplace s = Some b.
Proof.
  intros Hk. cbn [codec_encode]. apply enc_strict_total. rewrite forallb_forall. intros x Hx.
  apply in_flat_map in Hx. destruct Hx as (c & _ & Hx).
  destruct (encodable (codec_enc_char k) c) eqn:E.
  - destruct Hx as [<-|[]]. exact E.
  - change cd_encode_replacement with [63] in Hx. destruct Hx as [<-|[]]. apply (codec_ascii_ok k Hk). lia.
Qed.

(* every entry point, every tree: never raises *)
Theorem concrete_entry_points_total k nm ep f t : encoder k = true ->
  exists b, entry_bytes (codec_enc_char k) [] nm ep f t = Some b.
Proof. intros Hk. apply entry_points_total. now apply codec_ascii_ok. Qed.

(* lossless: substitute -> encode(target, xmlcharrefreplace) -> decode strictly in the target -> read back,
   for every text whose characters are representable in the target or lie in U+00A0..U+10FFFF
   (the complement is the class of the open finding C08-c1-nonchar-reference) *)
Definition text_ok (k : codec) (t : str) : Prop :=
  forall c, In c t -> encodable (codec_enc_char k) c = true \/ 160 <= c <= 1114111.
Definition attr_ok (k : codec) (v : str) : Prop :=
  forall c, In c v -> encodable (codec_enc_char k) c = true \/
                      (160 <= c <= 1114111 /\ is_surrogate c = false /\ is_nonchar c = false).

Lemma text_ok_class k t : text_ok k t -> text_class (codec_enc_char k) t.
Proof. intros H c Hc Hu. destruct (H c Hc) as [G|G]; [congruence|exact G]. Qed.
Lemma attr_ok_class k v : attr_ok k v -> attr_class (codec_enc_char k) v.
Proof. intros H c Hc Hu. destruct (H c Hc) as [G|G]; [congruence|exact G]. Qed.

Theorem concrete_lossless_text k t : encoder k = true -> text_ok k t ->
  exists o b d, ES.substitute_xml t false = Some o /\ codec_encode k EXmlCharRef o = Some b /\
                codec_decode k Dammit.Strict b = Some d /\ SQ.read_text d = t.
Proof.
  intros Hk Ht.
  exact (lossless_text_minimal (codec_enc_char k) (codec_ascii_ok k Hk) [] (codec_decode k Dammit.Strict)
           (codec_dec_ok k Hk) t (text_ok_class k t Ht)).
Qed.
Theorem concrete_lossless_attr k v : encoder k = true -> attr_ok k v ->
  exists q b d, ES.substitute_xml v true = Some q /\ codec_encode k EXmlCharRef q = Some b /\
                codec_decode k Dammit.Strict b = Some d /\ ES.read_quoted d = Some v.
Proof.
  intros Hk Hv.
  exact (lossless_attr_minimal (codec_enc_char k) (codec_ascii_ok k Hk) [] (codec_decode k Dammit.Strict)
           (codec_dec_ok k Hk) v (attr_ok_class k v Hv)).
Qed.
Theorem concrete_lossless_html k t : encoder k = true ->
  (text_ok k t ->
   exists b d, codec_encode k EXmlCharRef (ES.substitute_html t) = Some b /\
               codec_decode k Dammit.Strict b = Some d /\ SQ.read_text d = t) /\
  (attr_ok k t ->
   exists b d, codec_encode k EXmlCharRef (ES.quoted_attribute_value (ES.substitute_html t)) = Some b /\
               codec_decode k Dammit.Strict b = Some d /\ ES.read_quoted d = Some t).
Proof.
  intros Hk. split; intros H.
  - exact (lossless_text_html (codec_enc_char k) (codec_ascii_ok k Hk) [] (codec_decode k Dammit.Strict)
             (codec_dec_ok k Hk) t (text_ok_class k t H)).
  - exact (lossless_attr_html (codec_enc_char k) (codec_ascii_ok k Hk) [] (codec_decode k Dammit.Strict)
             (codec_dec_ok k Hk) t (attr_ok_class k t H)).
Qed.

(* what the side conditions come to per target *)
Theorem text_ok_by_target t :
  ((forall c, In c t -> c < 128 \/ 160 <= c <= 1114111) -> text_ok Ascii t /\ text_ok Cp1252 t) /\
  ((forall c, In c t -> c <= 1114111) -> text_ok Latin1 t /\ text_ok Utf8 t).
Proof.
  split; intros H; split; intros c Hc; specialize (H c Hc).
  - destruct H as [H|H]; [left; rewrite ascii_encodable; now apply N.ltb_lt|now right].
  - destruct H as [H|H]; [left; now apply (codec_ascii_ok Cp1252 eq_refl)|now right].
  - destruct (c <? 256) eqn:E; [left; now rewrite latin1_encodable|right; apply N.ltb_ge in E; lia].
  - destruct (c <? 160) eqn:E; [left|right; apply N.ltb_ge in E; lia].
    rewrite utf8_encodable. unfold scalar. apply N.ltb_lt in E.
    assert ((c <? 55296) = true) as -> by (apply N.ltb_lt; lia). reflexivity.
Qed.

Lemma text_ok_examples : text_ok Cp1252 [99; 8364; 9731] /\ text_ok Ascii [233] /\ text_ok Latin1 [150].
Proof.
  repeat split; intros c H; cbn [In] in H.
  - destruct H as [<-|[<-|[<-|[]]]]; [left; vm_compute; reflexivity|left; vm_compute; reflexivity|right; lia].
  - destruct H as [<-|[]]. right. lia.
  - destruct H as [<-|[]]. left. vm_compute. reflexivity.
Qed.

(* outside that class the clause is false for windows-1252 and ascii too (open finding C08-c1-nonchar-reference):
   U+0096 goes out as &#150; and html.parser's handle_charref reads that as U+2013 *)
Theorem concrete_lossless_refuted :
  exists t, forall k, k = Ascii \/ k = Cp1252 ->
    exists o b d, ES.substitute_xml t false = Some o /\ codec_encode k EXmlCharRef o = Some b /\
                  codec_decode k Dammit.Strict b = Some d /\ SQ.read_text d <> t.
Proof.
  exists [150]. intros k [->| ->]; eexists; eexists; eexists; (split; [vm_compute; reflexivity|]);
    (split; [vm_compute; reflexivity|]); (split; [vm_compute; reflexivity|]); vm_compute; discriminate.
Qed.

(* ================================================================== *)
(* 6. C19: the library's Windows-1252 tables against the codec        *)
(* ================================================================== *)
From BS Require Import Gen.Tables Model.SmartQuotes.

(* the single-byte tables of Gen/Stdlib.v (used by Model/SmartQuotes.v and the readers) are the codec's *)
Lemma stdlib_tables_are_the_codecs : cp1252_table = cd_cp1252_table /\ latin1_table = cd_latin1_table.
Proof. split; reflexivity. Qed.

(* MS_CHARS: its keys are exactly the bytes 0x80..0x9F; an entry is a (name, hex) pair exactly where windows-1252
   defines the byte, and then the hex digits are the code point and &name; reads back as the character *)
Definition sq_range : list N := map N.of_nat (seq 128 32).
Definition ms_entry_ok (b : N) : bool :=
  match assocN b ms_chars, sb_dec_byte cd_cp1252_table b with
  | Some (MsPair name hex), Some c =>
      (num_of 16 hex =? c) && forallb is_hexd hex && negb (is_nil hex) &&
      str_eqb (SmartQuotes.read_text (38 :: name ++ [59])) [c]
  | Some (MsPlain s), None => forallb (fun x => x <? 128) s
  | _, _ => false
  end.
Lemma ms_chars_keys : map fst ms_chars = sq_range.
Proof. reflexivity. Qed.
Lemma ms_chars_sweep : forallb ms_entry_ok sq_range = true.
Proof. vm_compute. reflexivity. Qed.
Theorem ms_chars_match_cp1252 b : 128 <= b <= 159 -> ms_entry_ok b = true.
Proof.
  intros Hb. pose proof ms_chars_sweep as H. rewrite forallb_forall in H. apply H.
  unfold sq_range. rewrite <- (N2Nat.id b). apply in_map. apply in_seq. lia.
Qed.

(* WINDOWS_1252_TO_UTF8: one entry for every byte >= 0x80 that windows-1252 defines, in order; each entry is the
   UTF-8 encoding of the byte's character — except the entries listed (found by computation) *)
Definition w1252_entry_matches (kv : N * list N) : bool :=
  match sb_dec_byte cd_cp1252_table (fst kv) with
  | Some c => str_eqb (snd kv) (utf8_enc c)
  | None => false
  end.
Definition w1252_exceptions : list N :=
  map fst (filter (fun kv => negb (w1252_entry_matches kv)) windows_1252_to_utf8).
Lemma w1252_keys :
  map fst windows_1252_to_utf8 =
  filter (fun b => match sb_dec_byte cd_cp1252_table b with Some _ => true | None => false end)
         (map N.of_nat (seq 128 128)).
Proof. vm_compute. reflexivity. Qed.
(* the one wrong entry: 0xE1 -> A1 instead of C3 A1 (a lead byte of a multibyte sequence for detwingle, so the
   entry is never consulted; see C19_detwingle_embedded's "convertible") *)
Lemma w1252_exceptions_are : w1252_exceptions = [225].
Proof. vm_compute. reflexivity. Qed.
Theorem w1252_matches_cp1252 b u : assocN b windows_1252_to_utf8 = Some u -> b <> 225 ->
  exists c, sb_dec_byte cd_cp1252_table b = Some c /\ u = utf8_enc c.
Proof.
  intros H Hb.
  assert (G : forallb (fun kv => (fst kv =? 225) || w1252_entry_matches kv) windows_1252_to_utf8 = true)
    by (vm_compute; reflexivity).
  assert (Hin : In (b, u) windows_1252_to_utf8).
  { clear G Hb. induction windows_1252_to_utf8 as [|[k v] l IH]; cbn [assocN] in H; [discriminate|].
    destruct (b =? k) eqn:E; [apply N.eqb_eq in E; injection H as <-; subst; now left|right; now apply IH]. }
  rewrite forallb_forall in G. specialize (G _ Hin). cbn [fst] in G.
  assert ((b =? 225) = false) as E by (now apply N.eqb_neq). rewrite E in G. cbn [orb] in G.
  unfold w1252_entry_matches in G. cbn [fst snd] in G.
  destruct (sb_dec_byte cd_cp1252_table b) as [c|]; [|discriminate]. exists c. split; [reflexivity|].
  now apply str_eqb_eq.
Qed.

(* ================================================================== *)
(* 7. errors="replace" is strict decoding wherever that succeeds       *)
(* ================================================================== *)
Lemma u8_start_run b r : u8_run U8Start (b :: r) = fst (u8_start b) ++ u8_run (snd (u8_start b)) r.
Proof. cbn [u8_run u8_step]. now destruct (u8_start b). Qed.

Lemma u8_cont_last acc lo hi b r : (lo <=? b) && (b <=? hi) = true ->
  u8_run (U8Cont acc 1 lo hi) (b :: r) = (acc * 64 + (b - 128)) :: u8_run U8Start r.
Proof. intros H. cbn [u8_run u8_step]. rewrite H. reflexivity. Qed.

Lemma u8_cont_more acc k lo hi b r : (lo <=? b) && (b <=? hi) = true ->
  u8_run (U8Cont acc (S (S k)) lo hi) (b :: r) = u8_run (U8Cont (acc * 64 + (b - 128)) (S k) 128 191) r.
Proof. intros H. cbn [u8_run u8_step]. rewrite H. reflexivity. Qed.

Lemma in_range a b x : a <= x <= b -> (a <=? x) && (x <=? b) = true.
Proof. intros H. apply andb_true_intro; split; apply N.leb_le; lia. Qed.

Lemma u8_start_1 b : b < 128 -> u8_start b = ([b], U8Start).
Proof. intros H. unfold u8_start. assert ((b <? 128) = true) as -> by (now apply N.ltb_lt). reflexivity. Qed.

Lemma u8_start_2 b : 194 <= b <= 223 -> u8_start b = ([], U8Cont (b - 192) 1 128 191).
Proof.
  intros H. unfold u8_start. assert ((b <? 128) = false) as -> by (apply N.ltb_ge; lia).
  now rewrite (in_range 194 223 b H).
Qed.

Lemma u8_start_3 b : 224 <= b <= 239 ->
  exists lo hi, u8_start b = ([], U8Cont (b - 224) 2 lo hi) /\
    (b = 224 -> lo = 160 /\ hi = 191) /\ (b = 237 -> lo = 128 /\ hi = 159) /\
    (b <> 224 -> b <> 237 -> lo = 128 /\ hi = 191).
Proof.
  intros H. unfold u8_start. assert ((b <? 128) = false) as -> by (apply N.ltb_ge; lia).
  assert ((194 <=? b) && (b <=? 223) = false) as -> by (apply andb_false_iff; right; apply N.leb_gt; lia).
  destruct (b =? 224) eqn:E1.
  { apply N.eqb_eq in E1. subst b. exists 160, 191. repeat split; try reflexivity; intros; lia. }
  destruct (b =? 237) eqn:E2.
  { apply N.eqb_eq in E2. subst b. exists 128, 159. repeat split; try reflexivity; intros; lia. }
  apply N.eqb_neq in E1, E2.
  assert ((225 <=? b) && (b <=? 239) = true) as -> by (apply in_range; lia).
  exists 128, 191. repeat split; try reflexivity; intros; lia.
Qed.

Lemma u8_start_4 b : 240 <= b <= 244 ->
  exists lo hi, u8_start b = ([], U8Cont (b - 240) 3 lo hi) /\
    (b = 240 -> lo = 144 /\ hi = 191) /\ (b = 244 -> lo = 128 /\ hi = 143) /\
    (b <> 240 -> b <> 244 -> lo = 128 /\ hi = 191).
Proof.
  intros H. unfold u8_start. assert ((b <? 128) = false) as -> by (apply N.ltb_ge; lia).
  assert ((194 <=? b) && (b <=? 223) = false) as -> by (apply andb_false_iff; right; apply N.leb_gt; lia).
  assert ((b =? 224) = false) as -> by (apply N.eqb_neq; lia).
  assert ((b =? 237) = false) as -> by (apply N.eqb_neq; lia).
  assert ((225 <=? b) && (b <=? 239) = false) as -> by (apply andb_false_iff; right; apply N.leb_gt; lia).
  destruct (b =? 240) eqn:E1.
  { apply N.eqb_eq in E1. subst b. exists 144, 191. repeat split; try reflexivity; intros; lia. }
  apply N.eqb_neq in E1.
  destruct ((241 <=? b) && (b <=? 243)) eqn:E2.
  { apply range_of in E2. exists 128, 191. repeat split; try reflexivity; intros; lia. }
  assert (b = 244).
  { apply andb_false_iff in E2. destruct E2 as [E2|E2]; [apply N.leb_gt in E2|apply N.leb_gt in E2]; lia. }
  subst b. exists 128, 143. repeat split; try reflexivity; intros; lia.
Qed.

Lemma scalar_prop c : scalar c = true -> c < 55296 \/ 57344 <= c <= 1114111.
Proof.
  unfold scalar. intros H. apply orb_prop in H as [H|H]; [left; now apply N.ltb_lt|right; now apply range_of in H].
Qed.

Lemma utf8_replace_agrees_n : forall n bs u, (length bs <= n)%nat ->
  utf8_dec bs = Some u -> u8_run U8Start bs = u.
Proof.
  induction n as [|n IH]; intros bs u Hl.
  { destruct bs; [|cbn in Hl; lia]. cbn. now intros [= <-]. }
  destruct bs as [|b0 r0]; [cbn; now intros [= <-]|].
  cbn [utf8_dec]. cbn [length] in Hl. rewrite u8_start_run.
  destruct (b0 <? 128) eqn:E1.
  { destruct (utf8_dec r0) as [v|] eqn:Er; cbn [option_map]; [|discriminate]. intros [= <-].
    apply N.ltb_lt in E1. rewrite (u8_start_1 b0 E1). cbn [fst snd app]. f_equal. apply IH; [lia|exact Er]. }
  destruct ((194 <=? b0) && (b0 <=? 223)) eqn:E2.
  { apply range_of in E2. destruct r0 as [|b1 r1]; [discriminate|].
    destruct (is_cont b1) eqn:C1; [|discriminate].
    destruct (utf8_dec r1) as [v|] eqn:Er; cbn [option_map]; [|discriminate]. intros [= <-].
    rewrite (u8_start_2 b0 E2). cbn [fst snd app]. rewrite (u8_cont_last _ 128 191 b1 r1 C1).
    f_equal. apply IH; [cbn [length] in Hl; lia|exact Er]. }
  destruct ((224 <=? b0) && (b0 <=? 239)) eqn:E3.
  { apply range_of in E3. destruct r0 as [|b1 [|b2 r2]]; [discriminate|discriminate|].
    destruct (is_cont b1) eqn:C1; [|discriminate]. destruct (is_cont b2) eqn:C2; [|discriminate]. cbn [andb].
    pose proof (is_cont_range _ C1) as R1. pose proof (is_cont_range _ C2) as R2.
    destruct (scalar ((b0 - 224) * 4096 + (b1 - 128) * 64 + (b2 - 128)) &&
              (2048 <=? (b0 - 224) * 4096 + (b1 - 128) * 64 + (b2 - 128))) eqn:S; [|discriminate].
    apply andb_prop in S as [Hs Hc]. apply N.leb_le in Hc. apply scalar_prop in Hs.
    destruct (utf8_dec r2) as [v|] eqn:Er; cbn [option_map]; [|discriminate]. intros [= <-].
    destruct (u8_start_3 b0 E3) as (lo & hi & Hst & H224 & H237 & Hoth). rewrite Hst. cbn [fst snd app].
    assert (Hr : (lo <=? b1) && (b1 <=? hi) = true).
    { apply in_range.
      destruct (N.eq_dec b0 224) as [e|ne1]; [destruct (H224 e) as [-> ->]; subst b0; lia|].
      destruct (N.eq_dec b0 237) as [e|ne2]; [destruct (H237 e) as [-> ->]; subst b0; lia|].
      destruct (Hoth ne1 ne2) as [-> ->]. lia. }
    rewrite (u8_cont_more _ 0 lo hi b1 _ Hr), (u8_cont_last _ 128 191 b2 r2 C2).
    f_equal; [lia|]. apply IH; [cbn [length] in Hl; lia|exact Er]. }
  destruct ((240 <=? b0) && (b0 <=? 244)) eqn:E4; [|discriminate].
  apply range_of in E4. destruct r0 as [|b1 [|b2 [|b3 r3]]]; [discriminate|discriminate|discriminate|].
  destruct (is_cont b1) eqn:C1; [|discriminate]. destruct (is_cont b2) eqn:C2; [|discriminate].
  destruct (is_cont b3) eqn:C3; [|discriminate]. cbn [andb].
  pose proof (is_cont_range _ C1) as R1. pose proof (is_cont_range _ C2) as R2. pose proof (is_cont_range _ C3) as R3.
  destruct ((65536 <=? (b0 - 240) * 262144 + (b1 - 128) * 4096 + (b2 - 128) * 64 + (b3 - 128)) &&
            ((b0 - 240) * 262144 + (b1 - 128) * 4096 + (b2 - 128) * 64 + (b3 - 128) <=? 1114111)) eqn:S; [|discriminate].
  apply range_of in S.
  destruct (utf8_dec r3) as [v|] eqn:Er; cbn [option_map]; [|discriminate]. intros [= <-].
  destruct (u8_start_4 b0 E4) as (lo & hi & Hst & H240 & H244 & Hoth). rewrite Hst. cbn [fst snd app].
  assert (Hr : (lo <=? b1) && (b1 <=? hi) = true).
  { apply in_range.
    destruct (N.eq_dec b0 240) as [e|ne1]; [destruct (H240 e) as [-> ->]; subst b0; lia|].
    destruct (N.eq_dec b0 244) as [e|ne2]; [destruct (H244 e) as [-> ->]; subst b0; lia|].
    destruct (Hoth ne1 ne2) as [-> ->]. lia. }
  rewrite (u8_cont_more _ 1 lo hi b1 _ Hr), (u8_cont_more _ 0 128 191 b2 _ C2), (u8_cont_last _ 128 191 b3 r3 C3).
  f_equal; [lia|]. apply IH; [cbn [length] in Hl; lia|exact Er].
Qed.

Theorem utf8_replace_agrees bs u : utf8_decode bs = Some u -> utf8_decode_replace bs = u.
Proof. rewrite utf8_decode_eq. apply (utf8_replace_agrees_n (length bs)). lia. Qed.

Lemma u16_go_agree us : forall pend t u, u16_go false pend us t = Some u -> u16_go true pend us t = Some u.
Proof.
  induction us as [|x r IH]; intros pend t u; cbn [u16_go].
  - destruct pend, t; try discriminate. auto.
  - assert (F : forall w,
        (if is_high x then u16_go false (Some x) r t
         else if is_low x then None else option_map (cons x) (u16_go false None r t)) = Some w ->
        (if is_high x then u16_go true (Some x) r t
         else if is_low x then option_map (cons cd_decode_replacement) (u16_go true None r t)
         else option_map (cons x) (u16_go true None r t)) = Some w).
    { intros w. destruct (is_high x); [apply IH|]. destruct (is_low x); [discriminate|].
      destruct (u16_go false None r t) as [v|] eqn:E; [|discriminate]. cbn [option_map]. intros [= <-].
      now rewrite (IH _ _ _ E). }
    destruct pend as [h|]; [|apply F].
    destruct (is_low x); [|discriminate].
    destruct (u16_go false None r t) as [v|] eqn:E; [|discriminate]. cbn [option_map]. intros [= <-].
    now rewrite (IH _ _ _ E).
Qed.
Lemma u32_go_agree us t : forall u, u32_go false us t = Some u -> u32_go true us t = Some u.
Proof.
  induction us as [|x r IH]; intros u; cbn [u32_go]; [destruct t; [discriminate|auto]|].
  destruct (scalar x); [|discriminate].
  destruct (u32_go false r t) as [v|] eqn:E; [|discriminate]. cbn [option_map]. intros [= <-]. now rewrite (IH _ eq_refl).
Qed.

(* all eight decoders *)
Theorem codec_replace_agrees k bs u :
  codec_decode k Dammit.Strict bs = Some u -> codec_decode k Replace bs = Some u.
Proof.
  destruct k; cbn [codec_decode].
  - intros H. f_equal. now apply sb_replace_agrees.
  - intros H. f_equal. now apply sb_replace_agrees.
  - intros H. f_equal. now apply sb_replace_agrees.
  - intros H. f_equal. now apply utf8_replace_agrees.
  - unfold utf16_decode. destruct (units16 true bs). apply u16_go_agree.
  - unfold utf16_decode. destruct (units16 false bs). apply u16_go_agree.
  - unfold utf32_decode. destruct (units32 true bs). apply u32_go_agree.
  - unfold utf32_decode. destruct (units32 false bs). apply u32_go_agree.
Qed.

(* a candidate that names iso-8859-1 makes the strict pass succeed: text, and no replacement flag *)
Lemma find_codec_latin1 known c n : extends_known known -> lower_ascii c = n ->
  n = [108; 97; 116; 105; 110; 45; 49] \/ n = [105; 115; 111; 45; 56; 56; 53; 57; 45; 49] ->
  find_codec lower_ascii known c = Some n /\ codec_of_name n = Some Latin1.
Proof.
  intros Hk Hc [-> | ->]; (split; [|vm_compute; reflexivity]);
    apply (find_codec_spelling known c _ 1 Hk Hc); try discriminate; vm_compute; reflexivity.
Qed.

Theorem latin1_candidate_always_clean known decode sniff chardet b a c :
  extends_known known -> extends_decode decode -> b <> [] -> is_bytes (fst (strip_bom b)) = true ->
  In c (encodings lower_ascii sniff chardet (MBytes b) a) ->
  (lower_ascii c = [108; 97; 116; 105; 110; 45; 49] \/ lower_ascii c = [105; 115; 111; 45; 56; 56; 53; 57; 45; 49]) ->
  r_text (dammit lower_ascii known decode sniff chardet (MBytes b) a) <> None /\
  r_flag (dammit lower_ascii known decode sniff chardet (MBytes b) a) = false.
Proof.
  intros Hk Hd Hb Hby Hin Hn.
  destruct (find_codec_latin1 known c (lower_ascii c) Hk eq_refl Hn) as [Hf Hcn].
  assert (Hat : attempt (find_codec lower_ascii known) decode (fst (strip_bom b)) Dammit.Strict c <> None).
  { unfold attempt. rewrite Hf, (Hd _ _ _ _ Hcn), (proj1 (latin1_total _ Hby)). discriminate. }
  split.
  - intros Hnone. apply (no_text_iff lower_ascii known decode sniff chardet b a Hb) in Hnone.
    destruct Hnone as [H _]. apply Hat. now apply H.
  - destruct (r_flag (dammit lower_ascii known decode sniff chardet (MBytes b) a)) eqn:E; [|reflexivity].
    apply (replacement_flag_iff lower_ascii known decode sniff chardet b a Hb) in E. destruct E as [H _].
    exfalso. apply Hat. now apply H.
Qed.

(* ================================================================== *)
(* 8. a byte-order mark decides, with the UTF-8 / UTF-16 / UTF-32 decoders defined in Coq *)
(* ================================================================== *)
Lemma find_codec_bom_name known n : extends_known known ->
  In n [n_utf8; n_utf16le; n_utf16be; n_utf32le; n_utf32be] -> find_codec lower_ascii known n = Some n.
Proof.
  intros Hk H. cbn [In] in H. destruct H as [<-|[<-|[<-|[<-|[<-|[]]]]]].
  - apply (find_codec_spelling known n_utf8 n_utf8 3 Hk eq_refl); try discriminate; vm_compute; reflexivity.
  - apply (find_codec_spelling known n_utf16le n_utf16le 4 Hk eq_refl); try discriminate; vm_compute; reflexivity.
  - apply (find_codec_spelling known n_utf16be n_utf16be 5 Hk eq_refl); try discriminate; vm_compute; reflexivity.
  - apply (find_codec_spelling known n_utf32le n_utf32le 6 Hk eq_refl); try discriminate; vm_compute; reflexivity.
  - apply (find_codec_spelling known n_utf32be n_utf32be 7 Hk eq_refl); try discriminate; vm_compute; reflexivity.
Qed.

(* with no known-definite encoding given, the encoding a byte-order mark announces is used whenever the rest of the
   data decodes in it (strictly, by the decoder defined in Coq), whatever the document declares *)
Theorem bom_encoding_wins known decode sniff chardet b a n k u :
  extends_known known -> extends_decode decode -> b <> [] ->
  a_known a = [] -> a_override a = [] ->
  snd (strip_bom b) = Some n -> In n [n_utf8; n_utf16le; n_utf16be; n_utf32le; n_utf32be] ->
  excluded lower_ascii (a_exclude a) n = false ->
  codec_of_name n = Some k -> codec_decode k Dammit.Strict (fst (strip_bom b)) = Some u ->
  outcome (dammit lower_ascii known decode sniff chardet (MBytes b) a) = (Some u, Some n, false).
Proof.
  intros Hk Hd Hb Hkn Hov Hbom Hin Hex Hcn Hdec.
  pose proof (find_codec_bom_name known n Hk Hin) as Hf.
  eapply (precedence_documented_order lower_ascii known decode sniff chardet b a [] n _ u n Hb).
  - unfold documented_order. rewrite Hkn, Hov, Hbom. cbn [app olist]. reflexivity.
  - exact Hex.
  - intros y [].
  - intros y [].
  - unfold attempt. rewrite Hf, (Hd _ _ _ _ Hcn), Hdec. reflexivity.
Qed.

(* the names strip_byte_order_mark can report are these five, and each denotes a decoder defined in Model/Codecs.v *)
Lemma bom_names_modelled :
  map (fun r => rule_name r) bom_rules = [n_utf16be; n_utf16le; n_utf8; n_utf32be; n_utf32le] /\
  map codec_of_name [n_utf8; n_utf16le; n_utf16be; n_utf32le; n_utf32be] =
  [Some Utf8; Some Utf16LE; Some Utf16BE; Some Utf32LE; Some Utf32BE].
Proof. split; vm_compute; reflexivity. Qed.

(* strict UTF-8 decoding accepts exactly the well-formed byte strings of Spec/Utf8.v *)
Theorem utf8_strict_is_wellformed bs : (exists u, utf8_decode bs = Some u) <-> valid_utf8 bs.
Proof.
  split.
  - intros [u H]. exists u. split; [exact (utf8_decode_scalar bs u H)|].
    pose proof (utf8_encode_decode bs u H) as G. clear H. revert bs G.
    induction u as [|c u IH]; intros bs; cbn [enc_strict]; [intros [= <-]; reflexivity|].
    unfold utf8_codec at 1. destruct (scalar c); [|discriminate].
    destruct (enc_strict utf8_codec u) as [r|] eqn:E; [|discriminate]. intros [= <-].
    unfold utf8_of. cbn [flat_map]. f_equal. exact (IH r eq_refl).
  - intros [cs [Hs ->]]. exists cs. rewrite utf8_decode_eq.
    assert (G : enc_strict utf8_codec cs = Some (utf8_of cs)).
    { clear -Hs. induction cs as [|c cs IH]; [reflexivity|]. cbn [forallb] in Hs. apply andb_prop in Hs as [H1 H2].
      cbn [enc_strict]. unfold utf8_codec at 1. rewrite H1, (IH H2). reflexivity. }
    exact (utf8_dec_ok cs _ G).
Qed.

(* the other last resort: unless utf-8 is excluded, a non-empty byte string always gets a text too (UTF-8 with
   errors="replace" never fails) — so "no text at all" needs both utf-8 and windows-1252 excluded *)
Theorem utf8_never_fails known decode sniff chardet b a :
  extends_known known -> extends_decode decode -> b <> [] ->
  excluded lower_ascii (a_exclude a) n_utf8 = false ->
  r_text (dammit lower_ascii known decode sniff chardet (MBytes b) a) <> None.
Proof.
  intros Hk Hd Hb Hex Hn.
  apply (no_text_iff lower_ascii known decode sniff chardet b a Hb) in Hn. destruct Hn as [_ Hrep].
  rewrite encodings_spec in Hrep.
  destruct (candidates_represent lower_ascii (a_exclude a)
              (documented_order (a_known a ++ a_override a) (det_sniffed (MBytes b)) (a_user a)
                 (det_declared sniff (MBytes b) a) (chardet (det_markup (MBytes b)))) n_utf8)
    as (c & Hin & Hl).
  { unfold documented_order. repeat (apply in_or_app; right). left. reflexivity. }
  { exact Hex. }
  assert (Hlc : lower_ascii c = n_utf8) by (rewrite Hl; vm_compute; reflexivity).
  assert (Hna : c <> n_ascii).
  { intros ->. vm_compute in Hlc. discriminate. }
  specialize (Hrep c Hin Hna). unfold attempt in Hrep.
  rewrite (find_codec_utf8 known c Hk Hlc), (decode_utf8 decode _ _ Hd) in Hrep.
  cbn [codec_decode] in Hrep. discriminate.
Qed.

(* and it can happen: both excluded, bytes that are not ASCII *)
Lemma no_text_possible :
  r_text (c_dammit (MBytes [129]) (mkargs [] [] [] [n_utf8; n_windows1252] true)) = None.
Proof. vm_compute. reflexivity. Qed.
