From Coq Require Import List NArith Bool Lia Arith ZArith.
From BS Require Import Base.Sexp Base.Types Base.Reader Gen.Tables Gen.Stdlib Gen.Entities
     Model.SmartQuotes Spec.Utf8.
Import ListNotations.
Open Scope N_scope.

(* ---------- finite byte domain ---------- *)
Definition bytes256 : list N := map N.of_nat (seq 0 256).

Lemma in_bytes256 b : b < 256 -> In b bytes256.
Proof.
  intros H. unfold bytes256. rewrite <- (N2Nat.id b). apply in_map. apply in_seq. lia.
Qed.

Lemma forallb_bytes256 (p : N -> bool) :
  forallb p bytes256 = true -> forall b, b < 256 -> p b = true.
Proof. intros H b Hb. rewrite forallb_forall in H. apply H. now apply in_bytes256. Qed.

(* ---------- table obligations (re-checked whenever Gen/Tables.v changes) ---------- *)

Definition in_lead_range (b : N) : bool := (194 <=? b) && (b <=? 244).

Lemma marker_consts : first_multibyte_marker = 194 /\ last_multibyte_marker = 244.
Proof. split; reflexivity. Qed.

(* every byte the code treats as a multibyte marker is covered by a (start,end,size) row with
   the UTF-8 length — also the reason the implementation's scan terminates *)
Lemma markers_match_tbl :
  forallb (fun b => Nat.eqb (marker_size b multibyte_markers) (lead_len b)) bytes256 = true.
Proof. vm_compute. reflexivity. Qed.

Lemma markers_match b : b < 256 -> marker_size b multibyte_markers = lead_len b.
Proof. intros H. apply Nat.eqb_eq. exact (forallb_bytes256 _ markers_match_tbl b H). Qed.

Lemma markers_cover_tbl :
  forallb (fun b => negb (in_lead_range b) ||
                    existsb (fun m => let '(lo, hi, _) := m in (lo <=? b) && (b <=? hi))
                            multibyte_markers) bytes256 = true.
Proof. vm_compute. reflexivity. Qed.

Definition convertible (b : N) : bool :=
  (128 <=? b) && (b <? 256) && negb (in_lead_range b) &&
  match assocN b windows_1252_to_utf8 with Some _ => true | None => false end.

Definition w1252_char (b : N) : N :=
  match decode_byte cp1252_table b with Some c => c | None => 65533 end.

(* each convertible table entry is the UTF-8 encoding of the byte's Windows-1252 character *)
Lemma w1252_entries_tbl :
  forallb (fun b => negb (convertible b) ||
     match assocN b windows_1252_to_utf8, decode_byte cp1252_table b with
     | Some u, Some c => str_eqb u (utf8_enc c) && scalar c
     | _, _ => false
     end) bytes256 = true.
Proof. vm_compute. reflexivity. Qed.

Lemma w1252_entry b :
  convertible b = true ->
  assocN b windows_1252_to_utf8 = Some (utf8_enc (w1252_char b)) /\ scalar (w1252_char b) = true.
Proof.
  intros Hc. assert (Hb : b < 256).
  { unfold convertible in Hc. repeat (apply andb_prop in Hc as [Hc ?]). now apply N.ltb_lt. }
  pose proof (forallb_bytes256 _ w1252_entries_tbl b Hb) as H. cbv beta in H.
  rewrite Hc in H. cbn [negb orb] in H. unfold w1252_char.
  destruct (assocN b windows_1252_to_utf8) as [u|]; [|discriminate].
  destruct (decode_byte cp1252_table b) as [c|]; [|discriminate].
  apply andb_prop in H as [H1 H2]. apply str_eqb_eq in H1. subst u. auto.
Qed.

(* completeness of the table: every byte >= 0x80 that Windows-1252 defines and that is not a
   UTF-8 lead byte has an entry *)
Lemma w1252_complete_tbl :
  forallb (fun b => negb ((128 <=? b) && negb (in_lead_range b)) ||
     match decode_byte cp1252_table b with
     | Some _ => convertible b
     | None => true
     end) bytes256 = true.
Proof. vm_compute. reflexivity. Qed.

(* ---------- detwingle: valid UTF-8 is returned unchanged ---------- *)

Ltac Zify.zify_post_hook ::= Z.to_euclidean_division_equations.

Lemma detw_skip k : forall pre rest,
  length pre = k -> detwingle_from k (pre ++ rest) = pre ++ detwingle_from O rest.
Proof.
  induction k as [|k IH]; intros pre rest Hl.
  - destruct pre; [reflexivity | discriminate].
  - destruct pre as [|p pre]; [discriminate|]. cbn [app detwingle_from]. f_equal.
    apply IH. cbn in Hl. lia.
Qed.

Lemma detw_lead b conts rest :
  b < 256 -> in_lead_range b = true -> S (length conts) = lead_len b ->
  detwingle_from O (b :: conts ++ rest) = b :: conts ++ detwingle_from O rest.
Proof.
  intros Hb Hr Hl. cbn [detwingle_from].
  destruct marker_consts as [-> ->]. unfold in_lead_range in Hr. rewrite Hr.
  rewrite (markers_match b Hb), <- Hl. cbn [pred]. f_equal. now apply detw_skip.
Qed.

Lemma detw_ascii b rest : b < 128 ->
  detwingle_from O (b :: rest) = b :: detwingle_from O rest.
Proof.
  intros Hb. cbn [detwingle_from]. destruct marker_consts as [-> ->].
  assert ((194 <=? b) = false) as -> by (apply N.leb_gt; lia). cbn [andb].
  assert ((128 <=? b) = false) as -> by (apply N.leb_gt; lia). reflexivity.
Qed.

Lemma detw_char c rest : scalar c = true ->
  detwingle_from O (utf8_enc c ++ rest) = utf8_enc c ++ detwingle_from O rest.
Proof.
  intros Hs. unfold scalar in Hs. unfold utf8_enc.
  destruct (c <? 128) eqn:E1; [apply N.ltb_lt in E1; now apply detw_ascii|].
  apply N.ltb_ge in E1.
  destruct (c <? 2048) eqn:E2.
  { apply N.ltb_lt in E2.
    change ([192 + c / 64; 128 + c mod 64] ++ rest) with ((192 + c / 64) :: [128 + c mod 64] ++ rest).
    change ([192 + c / 64; 128 + c mod 64] ++ detwingle_from 0 rest)
      with ((192 + c / 64) :: [128 + c mod 64] ++ detwingle_from 0 rest).
    apply detw_lead; [lia | unfold in_lead_range; apply andb_true_intro; split; apply N.leb_le; lia |].
    unfold lead_len. assert ((194 <=? 192 + c / 64) = true) as -> by (apply N.leb_le; lia).
    assert ((192 + c / 64 <=? 223) = true) as -> by (apply N.leb_le; lia). reflexivity. }
  apply N.ltb_ge in E2.
  destruct (c <? 65536) eqn:E3.
  { apply N.ltb_lt in E3.
    change ([224 + c / 4096; 128 + (c / 64) mod 64; 128 + c mod 64] ++ rest)
      with ((224 + c / 4096) :: [128 + (c / 64) mod 64; 128 + c mod 64] ++ rest).
    change ([224 + c / 4096; 128 + (c / 64) mod 64; 128 + c mod 64] ++ detwingle_from 0 rest)
      with ((224 + c / 4096) :: [128 + (c / 64) mod 64; 128 + c mod 64] ++ detwingle_from 0 rest).
    apply detw_lead; [lia | unfold in_lead_range; apply andb_true_intro; split; apply N.leb_le; lia |].
    unfold lead_len. assert ((194 <=? 224 + c / 4096) = true) as -> by (apply N.leb_le; lia).
    assert ((224 + c / 4096 <=? 223) = false) as -> by (apply N.leb_gt; lia). cbn [andb].
    assert ((224 <=? 224 + c / 4096) = true) as -> by (apply N.leb_le; lia).
    assert ((224 + c / 4096 <=? 239) = true) as -> by (apply N.leb_le; lia). reflexivity. }
  apply N.ltb_ge in E3.
  assert (Hmax : c <= 1114111).
  { apply orb_prop in Hs as [H|H]; [apply N.ltb_lt in H; lia|].
    apply andb_prop in H as [_ H]. now apply N.leb_le in H. }
  change ([240 + c / 262144; 128 + (c / 4096) mod 64; 128 + (c / 64) mod 64; 128 + c mod 64] ++ rest)
    with ((240 + c / 262144) :: [128 + (c / 4096) mod 64; 128 + (c / 64) mod 64; 128 + c mod 64] ++ rest).
  change ([240 + c / 262144; 128 + (c / 4096) mod 64; 128 + (c / 64) mod 64; 128 + c mod 64] ++ detwingle_from 0 rest)
    with ((240 + c / 262144) :: [128 + (c / 4096) mod 64; 128 + (c / 64) mod 64; 128 + c mod 64] ++ detwingle_from 0 rest).
  apply detw_lead; [lia | unfold in_lead_range; apply andb_true_intro; split; apply N.leb_le; lia |].
  unfold lead_len. assert ((194 <=? 240 + c / 262144) = true) as -> by (apply N.leb_le; lia).
  assert ((240 + c / 262144 <=? 223) = false) as -> by (apply N.leb_gt; lia). cbn [andb].
  assert ((224 <=? 240 + c / 262144) = true) as -> by (apply N.leb_le; lia).
  assert ((240 + c / 262144 <=? 239) = false) as -> by (apply N.leb_gt; lia). cbn [andb].
  assert ((240 <=? 240 + c / 262144) = true) as -> by (apply N.leb_le; lia).
  assert ((240 + c / 262144 <=? 244) = true) as -> by (apply N.leb_le; lia). reflexivity.
Qed.

Theorem detwingle_valid_utf8_id : forall bs, valid_utf8 bs -> detwingle bs = bs.
Proof.
  intros bs [cs [Hs ->]]. unfold detwingle, utf8_of.
  induction cs as [|c cs IH]; [reflexivity|].
  cbn [forallb] in Hs. apply andb_prop in Hs as [Hc Hcs].
  cbn [flat_map]. rewrite detw_char by exact Hc. f_equal. now apply IH.
Qed.

(* ---------- detwingle: embedded Windows-1252 bytes ---------- *)

Inductive seg := Ch (c : N) | Emb (b : N).
Definition seg_ok (s : seg) : bool :=
  match s with Ch c => scalar c | Emb b => convertible b end.
Definition seg_raw (s : seg) : list N := match s with Ch c => utf8_enc c | Emb b => [b] end.
Definition seg_char (s : seg) : N := match s with Ch c => c | Emb b => w1252_char b end.

Lemma detw_emb b rest : convertible b = true ->
  detwingle_from O (b :: rest) = utf8_enc (w1252_char b) ++ detwingle_from O rest.
Proof.
  intros Hc. destruct (w1252_entry b Hc) as [He _].
  unfold convertible in Hc. apply andb_prop in Hc as [Hc _]. apply andb_prop in Hc as [Hc Hnl].
  apply andb_prop in Hc as [H128 _].
  cbn [detwingle_from]. destruct marker_consts as [-> ->].
  unfold in_lead_range in Hnl. apply negb_true_iff in Hnl. rewrite Hnl, H128, He. reflexivity.
Qed.

Theorem detwingle_embedded : forall segs,
  forallb seg_ok segs = true ->
  detwingle (flat_map seg_raw segs) = utf8_of (map seg_char segs) /\
  valid_utf8 (detwingle (flat_map seg_raw segs)).
Proof.
  intros segs Hok.
  assert (E : detwingle (flat_map seg_raw segs) = utf8_of (map seg_char segs)).
  { unfold detwingle, utf8_of. induction segs as [|s segs IH]; [reflexivity|].
    cbn [forallb] in Hok. apply andb_prop in Hok as [Hs Hr].
    cbn [flat_map map]. destruct s as [c|b]; cbn [seg_raw seg_char seg_ok] in *.
    - rewrite detw_char by exact Hs. f_equal. now apply IH.
    - cbn [app]. rewrite detw_emb by exact Hs. f_equal. now apply IH. }
  split; [exact E|]. rewrite E. exists (map seg_char segs). split; [|reflexivity].
  clear E. induction segs as [|s segs IH]; [reflexivity|].
  cbn [forallb] in Hok. apply andb_prop in Hok as [Hs Hr]. cbn [map forallb].
  rewrite IH by exact Hr. rewrite andb_true_r.
  destruct s as [c|b]; cbn [seg_char seg_ok] in *; [exact Hs|]. now destruct (w1252_entry b Hs).
Qed.

(* the characters between embedded bytes are untouched: a corollary in the property's words *)
Corollary detwingle_embedded_chars segs :
  forallb seg_ok segs = true ->
  exists cs, detwingle (flat_map seg_raw segs) = utf8_of cs /\ length cs = length segs /\
    forall i c, nth_error segs i = Some (Ch c) -> nth_error cs i = Some c.
Proof.
  intros H. exists (map seg_char segs). split; [now apply detwingle_embedded|].
  split; [apply map_length|]. intros i c Hi. rewrite nth_error_map, Hi. reflexivity.
Qed.

Example embedded_example :
  forallb seg_ok [Ch 104; Emb 147; Ch 233; Ch 8364; Emb 148; Ch 128512] = true /\
  detwingle (flat_map seg_raw [Ch 104; Emb 147; Ch 233; Ch 8364; Emb 148; Ch 128512]) =
  utf8_of [104; 8220; 233; 8364; 8221; 128512].
Proof. split; vm_compute; reflexivity. Qed.

(* ---------- smart quotes ---------- *)

Definition sq_bytes : list N := filter (fun b => (128 <=? b) && (b <=? 159)) bytes256.
Definition sq_modes : list sq_mode := [SqNone; SqAscii; SqXml; SqHtml].

Definition plain_sub (b : N) : option str :=
  match assocN b ms_chars with Some (MsPlain s) => Some s | _ => None end.

(* the character byte b denotes in Windows-1252; for the five undefined bytes, the table's
   plain substitute *)
Definition expected_text (b : N) : option str :=
  match decode_byte cp1252_table b with
  | Some c => Some [c]
  | None => plain_sub b
  end.

Definition is_nil {X} (l : list X) : bool := match l with [] => true | _ => false end.

Definition sweep_ok (carrier : str) (mode : sq_mode) (b : N) : bool :=
  match carrier_table carrier with
  | None => false
  | Some tbl =>
      match mode with
      | SqNone =>
          (* no conversion requested: the byte's own character in the carrier encoding *)
          match decode_byte tbl b with
          | Some c => match decode_bytes tbl (convert_smart_quotes mode carrier [b]) with
                      | Some txt => str_eqb txt [c] | None => false end
          | None => true
          end
      | SqAscii =>
          match decode_bytes tbl (convert_smart_quotes mode carrier [b]), assocN b ms_chars_to_ascii with
          | Some txt, Some a => str_eqb txt a && forallb (fun c => c <? 128) a && negb (is_nil a)
          | _, _ => false
          end
      | _ =>
          match decode_bytes tbl (convert_smart_quotes mode carrier [b]), expected_text b with
          | Some txt, Some e => str_eqb (read_text txt) e
          | _, _ => false
          end
      end
  end.

Lemma smart_quotes_sweep_tbl :
  forallb (fun carrier => forallb (fun mode => forallb (sweep_ok carrier mode) sq_bytes) sq_modes)
          encodings_with_smart_quotes = true.
Proof. vm_compute. reflexivity. Qed.

Theorem smart_quotes_sweep : forall carrier mode b,
  In carrier encodings_with_smart_quotes -> In mode sq_modes -> 128 <= b <= 159 ->
  sweep_ok carrier mode b = true.
Proof.
  intros carrier mode b Hc Hm Hb.
  pose proof smart_quotes_sweep_tbl as H. rewrite forallb_forall in H.
  specialize (H carrier Hc). rewrite forallb_forall in H. specialize (H mode Hm).
  rewrite forallb_forall in H. apply H. unfold sq_bytes. apply filter_In. split.
  - apply in_bytes256. lia.
  - apply andb_true_intro. split; apply N.leb_le; lia.
Qed.

(* the carrier list and byte range are the ones the property names *)
Lemma carriers_are_the_documented_three :
  encodings_with_smart_quotes =
  [[119; 105; 110; 100; 111; 119; 115; 45; 49; 50; 53; 50];
   [105; 115; 111; 45; 56; 56; 53; 57; 45; 49];
   [105; 115; 111; 45; 56; 56; 53; 57; 45; 50]] /\ smart_quotes_lo = 128 /\ smart_quotes_hi = 159.
Proof. repeat split; reflexivity. Qed.

(* unbounded facts about the conversion step *)
Theorem no_mode_no_conversion : forall enc markup, convert_smart_quotes SqNone enc markup = markup.
Proof. reflexivity. Qed.

Theorem non_carrier_never_converted : forall mode enc markup,
  memS enc encodings_with_smart_quotes = false -> convert_smart_quotes mode enc markup = markup.
Proof. intros mode enc markup H. unfold convert_smart_quotes. rewrite H. now destruct mode. Qed.

Theorem other_bytes_untouched : forall mode enc markup,
  forallb (fun b => negb (in_sq_range b)) markup = true ->
  convert_smart_quotes mode enc markup = markup.
Proof.
  intros mode enc markup H. unfold convert_smart_quotes.
  assert (G : flat_map (fun b => if in_sq_range b then sub_ms_char mode b else [b]) markup = markup).
  { induction markup as [|b m IH]; [reflexivity|]. cbn [forallb] in H. apply andb_prop in H as [Hb Hm].
    cbn [flat_map]. apply negb_true_iff in Hb. rewrite Hb. cbn [app]. f_equal. now apply IH. }
  destruct mode; try reflexivity; destruct (memS enc encodings_with_smart_quotes); auto.
Qed.

(* conversion is byte-local: the converted document is the concatenation of the converted bytes *)
Theorem conversion_is_bytewise : forall mode enc m1 m2,
  convert_smart_quotes mode enc (m1 ++ m2) =
  convert_smart_quotes mode enc m1 ++ convert_smart_quotes mode enc m2.
Proof.
  intros mode enc m1 m2. unfold convert_smart_quotes.
  destruct mode; try reflexivity; destruct (memS enc encodings_with_smart_quotes); try reflexivity;
    apply flat_map_app.
Qed.
