(* C14 — the pretty-printed output re-parses to the same tree as the plain output once whitespace
   inside text is disregarded (token level).  Route:
     1. the reader makes the same events of [ptokens t] (the pretty rendering's tokens) and of the plain
        tokens of the decorated tree [ptn t] (simulation token by token, reader state included);
     2. the decorated tree is representable when t is, so C05's round trip applies to it;
     3. [norm] of the decorated tree and [norm] of t have the same whitespace-blind canonical form. *)
From Coq Require Import List NArith ZArith Bool Arith Lia.
From BS Require Import Base.Sexp Base.Types Gen.Tables Gen.Stdlib Gen.T_C05 Model.Attrs Model.Render Model.Reparse
     Model.Heap Model.Edit Model.Build Spec.BuildSpec Spec.RenderSpec Spec.RoundTrip Spec.PrettyTokens
     Proofs.RenderProofs Proofs.PrettyProofs Proofs.RoundTripProofs Proofs.NormProofs.
Import ListNotations.
Local Arguments is_ws : simpl never.
Local Arguments ascii_lower : simpl never.

(* ================================================================ unfolding the nested fixes *)
Lemma ptokens_tag enc f lv pn p ks :
  ptokens enc f lv pn (NTag p ks) =
  let opening := if g_hidden p then TNone else TOpen (qname p) (token_attrs enc f p) in
  let closing := if g_hidden p then TNone else TClose (qname p) in
  let deco_tag b a tok := if g_hidden p then [tok] else wrap f lv b a [tok] in
  if is_empty_element p (length ks)
  then deco_tag true true (if g_hidden p then TNone else TEmptyTag (qname p) (token_attrs enc f p) (f_void f))
  else if should_pretty_print p then
    deco_tag true true opening ++ ptokens_kids enc f (lv + 1) (g_name p) ks ++ deco_tag true true closing
  else deco_tag true false opening ++ tokens_kids enc f (g_name p) ks ++ deco_tag false true closing.
Proof.
  cbn [ptokens]. cbn zeta. destruct (is_empty_element p (length ks)); [reflexivity|].
  destruct (should_pretty_print p); [|reflexivity]. f_equal. f_equal.
  induction ks as [|k ks IH]; cbn; [reflexivity|]. now rewrite IH.
Qed.
Lemma ptn_tag rt enc f lv pn p ks :
  ptn rt enc f lv pn (NTag p ks) =
  if is_empty_element p (length ks) then [wsnode (ind f lv); NTag p ks; wsnode [nl_]]
  else if should_pretty_print p then
    [wsnode (ind f lv);
     NTag p (wsnode [nl_] :: ptn_kids rt enc f (lv + 1) (g_name p) ks ++ [wsnode (ind f lv)]);
     wsnode [nl_]]
  else [wsnode (ind f lv); NTag p ks; wsnode [nl_]].
Proof.
  cbn [ptn]. destruct (is_empty_element p (length ks)); [reflexivity|].
  destruct (should_pretty_print p); [|reflexivity]. f_equal. f_equal. f_equal. f_equal. f_equal.
  induction ks as [|k ks IH]; cbn; [reflexivity|]. now rewrite IH.
Qed.
Lemma tokens_kids_app enc f pn a b : tokens_kids enc f pn (a ++ b) = tokens_kids enc f pn a ++ tokens_kids enc f pn b.
Proof. induction a as [|k a IH]; [reflexivity|]. cbn [app tokens_kids]. now rewrite IH, app_assoc. Qed.

Lemma affixes_zero : affixes 0%N = ([], []).
Proof. reflexivity. Qed.
Lemma preformatted_zero : preformatted 0%N = false.
Proof. reflexivity. Qed.
Lemma wsnode_tokens enc f pn w : tokens enc f pn (wsnode w) = [TText (substitute f true pn w)].
Proof.
  unfold wsnode. cbn [tokens]. unfold string_tokens. rewrite preformatted_zero, affixes_zero. cbn [fst snd app].
  now rewrite app_nil_r.
Qed.

(* ================================================================ 1. the reader reads both token sequences alike *)
Section Sim.
  Variables (f : fmt) (rt ra : str -> str) (rc : rcfg) (g : str -> str).
  Hypothesis Hsub : f_subst f = Some g.
  Hypothesis Hg_nil : g [] = [].
  Hypothesis Hrt : forall s, rt (g s) = s.
  Hypothesis Hrt_nil : rt [] = [].
  Hypothesis Hws_id : forall w, all_ws w = true -> rt w = w.

  Definition rtok := read_token rt ra rc.
  Definition rrun (st : rstate) (toks : list token) : rstate := fold_left (fun st tok => fst (rtok st tok)) toks st.
  Lemma rrun_app st a b : rrun st (a ++ b) = rrun (rrun st a) b.
  Proof. apply fold_left_app. Qed.
  Lemma rrun_cons st a l : rrun st (a :: l) = rrun (fst (rtok st a)) l.
  Proof. reflexivity. Qed.
  Lemma rrun_nil st : rrun st [] = st.
  Proof. reflexivity. Qed.

  Fixpoint sim (st : rstate) (A B : list token) : Prop :=
    match A, B with
    | [], [] => True
    | a :: A', b :: B' => rtok st a = rtok st b /\ sim (fst (rtok st a)) A' B'
    | _, _ => False
    end.
  Lemma sim_refl : forall A st, sim st A A.
  Proof. induction A as [|a A IH]; intros st; cbn; auto. Qed.
  Lemma sim_rrun : forall A B st, sim st A B -> rrun st A = rrun st B.
  Proof.
    induction A as [|a A IH]; intros [|b B] st H; cbn in H; try contradiction; [reflexivity|].
    destruct H as [E H]. cbn [rrun fold_left]. rewrite <- E. now apply IH.
  Qed.
  Lemma sim_app : forall A B st A2 B2, sim st A B -> sim (rrun st A) A2 B2 -> sim st (A ++ A2) (B ++ B2).
  Proof.
    induction A as [|a A IH]; intros [|b B] st A2 B2 H H2; cbn in H; try contradiction; [exact H2|].
    destruct H as [E H]. cbn [app sim]. split; [exact E|]. apply IH; [exact H|exact H2].
  Qed.
  Lemma sim_read : forall A B st, sim st A B -> read_from rt ra rc st A = read_from rt ra rc st B.
  Proof.
    induction A as [|a A IH]; intros [|b B] st H; cbn in H; try contradiction; [reflexivity|].
    destruct H as [E H]. cbn [read_from]. unfold rtok in *. rewrite <- E.
    destruct (read_token rt ra rc st a) as [st' evs]. cbn [fst] in H. now rewrite (IH B st' H).
  Qed.

  (* ---- what single tokens do to the reader's state ---- *)
  Definition nonraw (st : rstate) : Prop := rs_raw st = None.
  Lemma step_text_state st w : fst (rtok st (TText w)) = st.
  Proof. unfold rtok, read_token. destruct st as [[e|] cl]; reflexivity. Qed.
  Lemma step_special_state st c s : nonraw st -> fst (rtok st (TSpecial c s)) = st.
  Proof. unfold nonraw, rtok, read_token. destruct st as [[e|] cl]; cbn; [discriminate|reflexivity]. Qed.
  Lemma endtag_nonraw st n chk : nonraw st -> nonraw (fst (parser_endtag st n chk)).
  Proof. unfold nonraw, parser_endtag. intros H. destruct (chk && memS n (rs_closed st)); cbn; exact H. Qed.
  Lemma step_close_nonraw st n : nonraw st -> nonraw (fst (rtok st (TClose n))).
  Proof.
    intros H. unfold rtok, read_token. unfold nonraw in H. rewrite H. now apply endtag_nonraw.
  Qed.
  Lemma step_empty_nonraw st n a slash : nonraw st -> slash <> [] -> nonraw (fst (rtok st (TEmptyTag n a slash))).
  Proof.
    intros H Hs. unfold rtok, read_token. unfold nonraw in H. rewrite H. destruct slash; [contradiction|].
    destruct (parser_endtag st (ascii_lower n) (r_check rc)) as [st' evs] eqn:E. cbn [fst].
    change st' with (fst (st', evs)). rewrite <- E. now apply endtag_nonraw.
  Qed.
  Lemma step_open_state st n a : nonraw st -> memS (ascii_lower n) (r_void rc) = false ->
    fst (rtok st (TOpen n a)) = mkrs (if memS (ascii_lower n) (r_cdata rc) then Some (ascii_lower n) else None) (rs_closed st).
  Proof. intros H Hv. unfold rtok, read_token. unfold nonraw in H. rewrite H, Hv. reflexivity. Qed.

  (* a whitespace text and its substituted form read alike outside raw text; they are the same inside cdata *)
  Lemma g_nonempty' s : s <> [] -> g s <> [].
  Proof. intros Hs E. apply Hs. rewrite <- (Hrt s), E. exact Hrt_nil. Qed.
  Lemma ws_token_pair st pn w : all_ws w = true -> (nonraw st \/ in_cdata f pn = true) ->
    rtok st (TText w) = rtok st (TText (substitute f true pn w)).
  Proof.
    intros Hw Hst. unfold substitute. rewrite Hsub. cbn [andb]. fold (in_cdata f pn).
    destruct (in_cdata f pn) eqn:Ec; [reflexivity|]. destruct Hst as [Hst|Hst]; [|discriminate].
    unfold rtok, read_token. unfold nonraw in Hst. rewrite Hst. f_equal.
    destruct w as [|c w]; [now rewrite Hg_nil|].
    pose proof (g_nonempty' (c :: w)) as Hn. destruct (g (c :: w)) eqn:E; [exfalso; apply Hn; [discriminate|reflexivity]|].
    rewrite <- E, Hrt, (Hws_id _ Hw). reflexivity.
  Qed.

  (* ---- trees ---- *)
  Variables (enc : bool) (cfg : bconfig).
  Hypothesis Hslash : f_void f <> [].
  Hypothesis Hind : all_ws (f_indent f) = true.
  Hypothesis Hws_ne : forall s w1, all_ws w1 = true -> strip (g s) <> [] -> rt (w1 ++ strip (g s) ++ [nl_]) <> [].

  Lemma tokens_kids_flat name l : tokens_kids enc f name l = flat_map (tokens enc f (Some name)) l.
  Proof. induction l as [|k l IH]; [reflexivity|]. cbn [tokens_kids flat_map]. now rewrite IH. Qed.
  Lemma substitute_cdata pn w : in_cdata f pn = true -> substitute f true pn w = w.
  Proof. intros H. unfold substitute. rewrite Hsub. cbn [andb]. fold (in_cdata f pn). now rewrite H. Qed.
  Lemma substitute_plain pn w : in_cdata f pn = false -> substitute f true pn w = g w.
  Proof. intros H. unfold substitute. rewrite Hsub. cbn [andb]. fold (in_cdata f pn). now rewrite H. Qed.
  Lemma all_ws_ind lv : all_ws (ind f lv) = true.
  Proof. unfold ind. destruct (lv =? 0)%Z; [reflexivity|]. now apply all_ws_repeat. Qed.
  Lemma all_ws_nl : all_ws [nl_] = true.
  Proof. reflexivity. Qed.
  Lemma deco_shape piece lv :
    deco f true piece lv true true = match strip piece with [] => [] | sp => ind f lv ++ sp ++ [nl_] end.
  Proof.
    unfold deco. cbn zeta. destruct (strip piece) as [|c sp]; [reflexivity|].
    unfold indent_string, ind. cbn [andb]. destruct (lv =? 0)%Z; reflexivity.
  Qed.

  Definition is_text_tok (tok : token) : Prop := match tok with TText _ => True | _ => False end.
  Lemma rrun_texts st l : Forall is_text_tok l -> rrun st l = st.
  Proof.
    induction 1 as [|tok l Ht _ IH]; [reflexivity|]. cbn [rrun fold_left]. destruct tok; try contradiction.
    rewrite step_text_state. exact IH.
  Qed.
  Lemma raw_kids_texts name ks : forallb (raw_text_ok f name) ks = true -> Forall is_text_tok (tokens_kids enc f name ks).
  Proof.
    induction ks as [|k ks IH]; intros H; [constructor|]. cbn [forallb] in H. apply andb_prop in H as [H1 H2].
    destruct k as [p ks'|c s]; [discriminate H1|]. cbn [raw_text_ok] in H1. apply andb_prop in H1 as [Hk _].
    cbn [tokens_kids tokens]. unfold string_tokens, preformatted. rewrite Hk. cbn [negb app].
    constructor; [exact I|now apply IH].
  Qed.

  Definition good (t : node) : Prop := representable f rc cfg t = true /\ pretty_ok f rc cfg t = true.

  (* the facts [good] gives about a tag *)
  Lemma good_tag p ks : good (NTag p ks) ->
    g_hidden p = false /\ ascii_lower (qname p) = qname p /\
    (memS (qname p) (r_void rc) = true -> ks = [] /\ g_can_empty p = true) /\
    should_pretty_print p = negb (memS (qname p) (c_pw cfg)) /\
    (if memS (qname p) (r_cdata rc)
     then forallb (raw_text_ok f (g_name p)) ks = true /\ memS (g_name p) (f_cdata f) = true
     else memS (g_name p) (f_cdata f) = false /\ Forall good ks).
  Proof.
    intros [Hr Hp]. cbn [representable pretty_ok] in Hr, Hp. cbn zeta in Hr.
    apply andb_prop in Hr as [Hr R5]. apply andb_prop in Hr as [Hr R4]. apply andb_prop in Hr as [Hr R3].
    apply andb_prop in Hr as [R1 R2].
    apply andb_prop in Hp as [Hp P4]. apply andb_prop in Hp as [Hp P3]. apply andb_prop in Hp as [P1 P2].
    apply negb_true_iff in R1. apply str_eqb_eq in R2. apply Bool.eqb_prop in P1.
    split; [exact R1|]. split; [exact R2|]. split.
    - intros Hv. rewrite Hv in R4, P2. split; [destruct ks; [reflexivity|discriminate R4]|exact P2].
    - split; [exact P1|]. destruct (memS (qname p) (r_cdata rc)).
      + split; assumption.
      + apply andb_prop in R5 as [Hc Hk]. apply negb_true_iff in Hc. split; [exact Hc|].
        rewrite forallb_forall in Hk, P4. apply Forall_forall. intros k Hin. split; auto.
  Qed.

  Lemma eqb_q q : str_eqb q q = true.
  Proof. now apply str_eqb_eq. Qed.

  (* reading the tokens of a good subtree leaves the reader outside raw text *)
  Lemma nonraw_kids name : forall l st', Forall good l ->
    Forall (fun t => good t -> forall pn st, nonraw st -> nonraw (rrun st (tokens enc f pn t))) l ->
    nonraw st' -> nonraw (rrun st' (tokens_kids enc f name l)).
  Proof.
    induction l as [|k l IHl]; intros st' Hgl HIH Hs; [exact Hs|]. inversion Hgl; subst. inversion HIH; subst.
    cbn [tokens_kids]. rewrite rrun_app. apply IHl; auto.
  Qed.
  Lemma nonvoid_of_nonempty p ks : good (NTag p ks) -> is_empty_element p (length ks) = false ->
    memS (ascii_lower (qname p)) (r_void rc) = false.
  Proof.
    intros Hg Ee. destruct (good_tag p ks Hg) as (_ & Hlow & Hvoid & _). rewrite Hlow.
    destruct (memS (qname p) (r_void rc)) eqn:Ev; [|reflexivity].
    destruct (Hvoid eq_refl) as [-> Hce]. unfold is_empty_element in Ee. cbn in Ee. now rewrite Hce in Ee.
  Qed.
  (* the state after a start tag, and after the matching end tag of a raw-text element *)
  Definition after_open (st : rstate) (q : str) : rstate :=
    mkrs (if memS q (r_cdata rc) then Some q else None) (rs_closed st).
  Lemma close_raw_nonraw q cl : ascii_lower q = q -> nonraw (fst (rtok (mkrs (Some q) cl) (TClose q))).
  Proof.
    intros Hlow. unfold rtok, read_token. cbn [rs_raw rs_closed]. rewrite Hlow, eqb_q. apply endtag_nonraw. reflexivity.
  Qed.

  Lemma nonraw_after : forall t, good t -> forall pn st, nonraw st -> nonraw (rrun st (tokens enc f pn t)).
  Proof.
    induction t as [c s|p ks IH] using node_ind'; intros Hg pn st Hst.
    - cbn [tokens]. unfold string_tokens. destruct (preformatted c).
      + rewrite rrun_cons, step_special_state by exact Hst. rewrite rrun_texts; [exact Hst|].
        destruct (trailing c); repeat constructor.
      + rewrite rrun_cons, rrun_nil. now rewrite step_text_state.
    - destruct (good_tag p ks Hg) as (Hh & Hlow & Hvoid & _ & Hkids). rewrite tokens_tag, Hh.
      destruct (is_empty_element p (length ks)) eqn:Ee.
      + rewrite rrun_cons, rrun_nil. now apply step_empty_nonraw.
      + pose proof (nonvoid_of_nonempty p ks Hg Ee) as Hnv.
        rewrite rrun_cons, (step_open_state st _ _ Hst Hnv), Hlow. rewrite rrun_app.
        destruct (memS (qname p) (r_cdata rc)).
        * destruct Hkids as [Hraw _]. rewrite (rrun_texts _ _ (raw_kids_texts _ _ Hraw)).
          rewrite rrun_cons, rrun_nil. now apply close_raw_nonraw.
        * destruct Hkids as [_ Hk]. rewrite rrun_cons, rrun_nil. apply step_close_nonraw.
          apply nonraw_kids; [exact Hk|exact IH|reflexivity].
  Qed.

  (* ---- the simulation ---- *)
  Lemma sim_cons st a b A B : rtok st a = rtok st b -> sim (fst (rtok st a)) A B -> sim st (a :: A) (b :: B).
  Proof. intros E H. cbn [sim]. auto. Qed.
  Lemma trailing_cases' c : trailing c = [] \/ trailing c = [nl_].
  Proof. unfold trailing. destruct (ends_nl _); auto. Qed.

  Lemma kind0_output c s pn : preformatted c = false -> string_ok c s = true ->
    output_ready f c s pn = substitute f true pn s /\ affixes c = ([], []).
  Proof.
    intros Hp Hs. unfold string_ok in Hs. unfold preformatted in Hp. apply negb_false_iff in Hp. rewrite Hp in Hs.
    unfold output_ready, preformatted. rewrite Hp. cbn [negb].
    destruct (affixes c) as [[|] [|]]; try discriminate Hs. cbn [app]. now rewrite app_nil_r.
  Qed.
  Lemma good_str c s : good (NStr c s) -> string_ok c s = true.
  Proof. intros [H _]. exact H. Qed.

  (* inside a raw-text element (script, style) both token sequences are the same list of text tokens *)
  Lemma raw_kids_equal name lv : memS name (f_cdata f) = true -> forall ks,
    forallb (raw_text_ok f name) ks = true -> forallb (pretty_ok f rc cfg) ks = true ->
    ptokens_kids enc f lv name ks = tokens_kids enc f name (ptn_kids rt enc f lv name ks) /\
    Forall is_text_tok (ptokens_kids enc f lv name ks).
  Proof.
    intros Hcd. assert (Hic : in_cdata f (Some name) = true) by exact Hcd.
    induction ks as [|k ks IH]; intros Hr Hp; [split; [reflexivity|constructor]|].
    cbn [forallb] in Hr, Hp. apply andb_prop in Hr as [Hr1 Hr2]. apply andb_prop in Hp as [Hp1 Hp2].
    destruct (IH Hr2 Hp2) as [E1 E2]. destruct k as [p ks'|c s]; [discriminate Hr1|].
    cbn [raw_text_ok] in Hr1. apply andb_prop in Hr1 as [Hk _]. cbn [pretty_ok] in Hp1.
    assert (Hpre : preformatted c = false) by (unfold preformatted; now rewrite Hk).
    destruct (kind0_output c s (Some name) Hpre Hp1) as [Ho Ha].
    cbn [ptokens_kids ptn_kids ptokens ptn]. rewrite Hpre, Hic.
    destruct (deco f true (output_ready f c s (Some name)) lv true true) as [|x o] eqn:Ed.
    - cbn [app]. split; assumption.
    - split; [|cbn [app]; constructor; [exact I|exact E2]].
      rewrite tokens_kids_app. cbn [tokens_kids tokens app]. unfold string_tokens. rewrite Hpre, Ha. cbn [fst snd app].
      rewrite app_nil_r, (substitute_cdata _ _ Hic), E1. reflexivity.
  Qed.

  Definition Tst (t : node) : Prop := good t -> forall lv pn pn' st, in_cdata f pn' = in_cdata f pn -> nonraw st ->
    sim st (ptokens enc f lv pn t) (flat_map (tokens enc f pn') (ptn rt enc f lv pn t)) /\
    nonraw (rrun st (ptokens enc f lv pn t)).

  Lemma pretty_sim_kids name lv : forall ks, Forall Tst ks -> Forall good ks -> forall st, nonraw st ->
    sim st (ptokens_kids enc f lv name ks) (tokens_kids enc f name (ptn_kids rt enc f lv name ks)) /\
    nonraw (rrun st (ptokens_kids enc f lv name ks)).
  Proof.
    induction ks as [|k ks IH]; intros HT Hg st Hst; [split; [exact I|exact Hst]|].
    inversion HT as [|? ? Hk HT']; subst. inversion Hg as [|? ? Hgk Hg']; subst.
    cbn [ptokens_kids ptn_kids]. rewrite tokens_kids_app, (tokens_kids_flat name (ptn _ _ _ _ _ k)).
    destruct (Hk Hgk lv (Some name) (Some name) st eq_refl Hst) as [S1 N1].
    destruct (IH HT' Hg' _ N1) as [S2 N2]. split; [now apply sim_app|]. now rewrite rrun_app.
  Qed.

  Lemma pretty_sim_str c s : Tst (NStr c s).
  Proof.
    intros Hg lv pn pn' st Hpn Hst. pose proof (good_str c s Hg) as Hs.
    cbn [ptokens ptn]. destruct (preformatted c) eqn:Hpre.
    - unfold wrap. cbn [app flat_map]. rewrite wsnode_tokens. cbn [tokens]. unfold string_tokens. rewrite Hpre.
      destruct (trailing_cases' c) as [E|E]; rewrite E; cbn [app flat_map]; rewrite ?wsnode_tokens; cbn [app].
      + split.
        * apply sim_cons; [apply ws_token_pair; [apply all_ws_ind|now left]|]. rewrite step_text_state.
          apply sim_cons; [reflexivity|]. rewrite step_special_state by exact Hst.
          apply sim_cons; [apply ws_token_pair; [apply all_ws_nl|now left]|]. exact I.
        * rewrite !rrun_cons, rrun_nil, step_text_state, step_special_state, step_text_state by (rewrite ?step_text_state; exact Hst). exact Hst.
      + split.
        * apply sim_cons; [apply ws_token_pair; [apply all_ws_ind|now left]|]. rewrite step_text_state.
          apply sim_cons; [reflexivity|]. rewrite step_special_state by exact Hst.
          apply sim_cons; [reflexivity|]. exact I.
        * rewrite !rrun_cons, rrun_nil, step_text_state, step_special_state, step_text_state by (rewrite ?step_text_state; exact Hst). exact Hst.
    - destruct (kind0_output c s pn Hpre Hs) as [Ho Ha].
      destruct (deco f true (output_ready f c s pn) lv true true) as [|x o] eqn:Ed; [split; [exact I|exact Hst]|].
      cbn [flat_map tokens app]. unfold string_tokens. rewrite Hpre, Ha. cbn [fst snd app]. rewrite !app_nil_r.
      split; [|rewrite rrun_cons, rrun_nil, step_text_state; exact Hst].
      apply sim_cons; [|exact I].
      destruct (in_cdata f pn) eqn:Ec.
      + now rewrite (substitute_cdata pn' _ Hpn).
      + rewrite (substitute_plain pn' _ Hpn).
        (* the decorated text and its canonical re-writing read alike *)
        assert (Hne : rt (x :: o) <> []).
        { rewrite <- Ed, deco_shape, Ho, (substitute_plain pn s Ec). rewrite deco_shape, Ho, (substitute_plain pn s Ec) in Ed.
          destruct (strip (g s)) as [|y sp] eqn:Esp; [discriminate Ed|]. rewrite <- Esp.
          apply Hws_ne; [apply all_ws_ind|]. rewrite Esp. discriminate. }
        unfold rtok, read_token. unfold nonraw in Hst. rewrite Hst. f_equal.
        pose proof (g_nonempty' (rt (x :: o)) Hne) as Hn.
        destruct (g (rt (x :: o))) eqn:Eg; [contradiction|]. rewrite <- Eg, Hrt. reflexivity.
  Qed.

  Lemma ws_pair st pn w : all_ws w = true -> nonraw st -> rtok st (TText w) = rtok st (TText (substitute f true pn w)).
  Proof. intros Hw Hst. apply ws_token_pair; [exact Hw|now left]. Qed.

  Lemma pretty_sim_tag p ks : Forall Tst ks -> Tst (NTag p ks).
  Proof.
    intros IH Hg lv pn pn' st Hpn Hst.
    destruct (good_tag p ks Hg) as (Hh & Hlow & Hvoid & Hpp & Hkids).
    rewrite ptokens_tag, ptn_tag, Hh. cbn zeta.
    destruct (is_empty_element p (length ks)) eqn:Ee.
    - (* an empty-element tag *)
      unfold wrap. cbn [app flat_map]. rewrite !wsnode_tokens, tokens_tag, Hh, Ee. cbn [app].
      assert (N1 : nonraw (fst (rtok st (TEmptyTag (qname p) (token_attrs enc f p) (f_void f))))) by now apply step_empty_nonraw.
      split.
      + apply sim_cons; [apply ws_pair; [apply all_ws_ind|exact Hst]|]. rewrite step_text_state.
        apply sim_cons; [reflexivity|]. apply sim_cons; [apply ws_pair; [apply all_ws_nl|exact N1]|]. exact I.
      + now rewrite !rrun_cons, rrun_nil, step_text_state, step_text_state.
    - pose proof (nonvoid_of_nonempty p ks Hg Ee) as Hnv.
      assert (Eopen : fst (rtok st (TOpen (qname p) (token_attrs enc f p))) = after_open st (qname p))
        by (rewrite (step_open_state st _ _ Hst Hnv), Hlow; reflexivity).
      destruct (should_pretty_print p) eqn:Epp.
      + (* pretty-printed element: indentation, start tag, newline, children one level deeper, indentation, end tag, newline *)
        set (kids' := wsnode [nl_] :: ptn_kids rt enc f (lv + 1) (g_name p) ks ++ [wsnode (ind f lv)]).
        assert (Ek : tokens enc f pn' (NTag p kids') =
                     TOpen (qname p) (token_attrs enc f p) ::
                     (TText (substitute f true (Some (g_name p)) [nl_]) ::
                      tokens_kids enc f (g_name p) (ptn_kids rt enc f (lv + 1) (g_name p) ks) ++
                      [TText (substitute f true (Some (g_name p)) (ind f lv))]) ++ [TClose (qname p)]).
        { rewrite tokens_tag, Hh. unfold kids'. cbn [length is_empty_element Nat.eqb andb].
          f_equal. f_equal. cbn [tokens_kids]. rewrite wsnode_tokens, tokens_kids_app. cbn [tokens_kids app].
          now rewrite wsnode_tokens, app_nil_r. }
        unfold wrap. cbn [app flat_map]. rewrite !wsnode_tokens, Ek. cbn [app]. rewrite <- !app_assoc. cbn [app].
        set (st1 := after_open st (qname p)).
        (* what the children do *)
        assert (Hmid : sim st1 (ptokens_kids enc f (lv + 1) (g_name p) ks)
                           (tokens_kids enc f (g_name p) (ptn_kids rt enc f (lv + 1) (g_name p) ks)) /\
                       (nonraw st1 \/ in_cdata f (Some (g_name p)) = true) /\
                       (nonraw (rrun st1 (ptokens_kids enc f (lv + 1) (g_name p) ks)) \/
                        (in_cdata f (Some (g_name p)) = true /\ rrun st1 (ptokens_kids enc f (lv + 1) (g_name p) ks) = st1
                         /\ st1 = mkrs (Some (qname p)) (rs_closed st)))).
        { unfold st1, after_open. destruct (memS (qname p) (r_cdata rc)) eqn:Ec.
          - destruct Hkids as [Hraw Hcd]. destruct Hg as [_ Hp]. cbn [pretty_ok] in Hp.
            apply andb_prop in Hp as [_ Hp].
            destruct (raw_kids_equal (g_name p) (lv + 1) Hcd ks Hraw Hp) as [E1 E2].
            split; [rewrite E1; apply sim_refl|]. split; [right; exact Hcd|]. right.
            split; [exact Hcd|]. split; [now apply rrun_texts|reflexivity].
          - destruct Hkids as [_ Hk].
            destruct (pretty_sim_kids (g_name p) (lv + 1) ks IH Hk (mkrs None (rs_closed st)) eq_refl) as [S N].
            split; [exact S|]. split; left; [reflexivity|exact N]. }
        destruct Hmid as (Smid & Hst1 & Hafter).
        assert (Hst2 : nonraw (rrun st1 (ptokens_kids enc f (lv + 1) (g_name p) ks)) \/ in_cdata f (Some (g_name p)) = true)
          by (destruct Hafter as [H|[H _]]; auto).
        assert (N3 : nonraw (fst (rtok (rrun st1 (ptokens_kids enc f (lv + 1) (g_name p) ks)) (TClose (qname p))))).
        { destruct Hafter as [H|(_ & -> & ->)]; [now apply step_close_nonraw|now apply close_raw_nonraw]. }
        split.
        * apply sim_cons; [apply ws_pair; [apply all_ws_ind|exact Hst]|]. rewrite step_text_state.
          apply sim_cons; [reflexivity|]. rewrite Eopen. fold st1.
          apply sim_cons; [apply ws_token_pair; [apply all_ws_nl|exact Hst1]|]. rewrite step_text_state.
          apply sim_app; [exact Smid|].
          apply sim_cons; [apply ws_token_pair; [apply all_ws_ind|exact Hst2]|]. rewrite step_text_state.
          apply sim_cons; [reflexivity|].
          apply sim_cons; [apply ws_pair; [apply all_ws_nl|exact N3]|]. exact I.
        * rewrite rrun_cons, step_text_state, rrun_cons, Eopen. fold st1. rewrite rrun_cons, step_text_state, rrun_app.
          rewrite rrun_cons, step_text_state, rrun_cons, rrun_cons, rrun_nil, step_text_state. exact N3.
      + (* a whitespace-preserving element: its own tokens between an indentation and a newline *)
        unfold wrap. cbn [app flat_map]. rewrite !wsnode_tokens, app_nil_r. rewrite <- ?app_assoc. cbn [app].
        assert (Et : TOpen (qname p) (token_attrs enc f p) :: tokens_kids enc f (g_name p) ks ++ [TClose (qname p); TText [nl_]] =
                     tokens enc f pn' (NTag p ks) ++ [TText [nl_]]).
        { rewrite tokens_tag, Hh, Ee. cbn [app]. rewrite <- app_assoc. reflexivity. }
        rewrite Et. pose proof (nonraw_after (NTag p ks) Hg pn' st Hst) as N2.
        split.
        * apply sim_cons; [apply ws_pair; [apply all_ws_ind|exact Hst]|]. rewrite step_text_state.
          apply sim_app; [apply sim_refl|]. apply sim_cons; [apply ws_pair; [apply all_ws_nl|exact N2]|]. exact I.
        * rewrite rrun_cons, step_text_state, rrun_app, rrun_cons, rrun_nil, step_text_state. exact N2.
  Qed.

  Theorem pretty_sim : forall t, Tst t.
  Proof. induction t as [c s|p ks IH] using node_ind'; [apply pretty_sim_str|now apply pretty_sim_tag]. Qed.

  (* ================================================================ 2. the decorated tree is representable *)
  Lemma rep_wsnode w : representable f rc cfg (wsnode w) = true.
  Proof. reflexivity. Qed.
  Lemma raw_wsnode name w : memS name (f_cdata f) = true -> raw_text_ok f name (wsnode w) = true.
  Proof.
    intros Hcd. unfold wsnode. cbn [raw_text_ok]. rewrite affixes_zero. cbn [fst snd app]. rewrite app_nil_r.
    rewrite (substitute_cdata (Some name) w Hcd). cbn. now apply str_eqb_eq.
  Qed.
  Lemma forallb_app' {X} (p : X -> bool) a b : forallb p (a ++ b) = forallb p a && forallb p b.
  Proof. apply forallb_app. Qed.

  Lemma raw_ptn_kids name lv : memS name (f_cdata f) = true -> forall ks,
    forallb (raw_text_ok f name) ks = true -> forallb (pretty_ok f rc cfg) ks = true ->
    forallb (raw_text_ok f name) (ptn_kids rt enc f lv name ks) = true.
  Proof.
    intros Hcd. assert (Hic : in_cdata f (Some name) = true) by exact Hcd.
    induction ks as [|k ks IH]; intros Hr Hp; [reflexivity|].
    cbn [forallb] in Hr, Hp. apply andb_prop in Hr as [Hr1 Hr2]. apply andb_prop in Hp as [Hp1 Hp2].
    destruct k as [p ks'|c s]; [discriminate Hr1|].
    cbn [raw_text_ok] in Hr1. apply andb_prop in Hr1 as [Hk _]. cbn [pretty_ok] in Hp1.
    assert (Hpre : preformatted c = false) by (unfold preformatted; now rewrite Hk).
    destruct (kind0_output c s (Some name) Hpre Hp1) as [_ Ha].
    cbn [ptn_kids ptn]. rewrite Hpre, Hic, forallb_app', (IH Hr2 Hp2), andb_true_r.
    destruct (deco f true (output_ready f c s (Some name)) lv true true) as [|x o]; [reflexivity|].
    cbn [forallb raw_text_ok]. rewrite Hk, Ha. cbn [fst snd app andb]. rewrite app_nil_r, (substitute_cdata _ _ Hic), andb_true_r.
    now apply str_eqb_eq.
  Qed.

  Lemma rep_ptn : forall t, good t -> forall lv pn,
    forallb (representable f rc cfg) (ptn rt enc f lv pn t) = true.
  Proof.
    induction t as [c s|p ks IH] using node_ind'; intros Hg lv pn.
    - cbn [ptn]. destruct (preformatted c).
      + cbn [forallb]. rewrite rep_wsnode. destruct Hg as [Hr _]. rewrite Hr. destruct (trailing c); reflexivity.
      + destruct (deco f true (output_ready f c s pn) lv true true); [reflexivity|]. cbn [forallb representable].
        destruct Hg as [Hr _]. cbn [representable] in Hr. unfold string_ok in *. now rewrite Hr.
    - rewrite ptn_tag. destruct (is_empty_element p (length ks)) eqn:Ee.
      + cbn [forallb]. rewrite !rep_wsnode. destruct Hg as [Hr _]. now rewrite Hr.
      + destruct (should_pretty_print p); [|cbn [forallb]; rewrite !rep_wsnode; destruct Hg as [Hr _]; now rewrite Hr].
        cbn [forallb]. rewrite !rep_wsnode. cbn [andb]. rewrite andb_true_r.
        pose proof (nonvoid_of_nonempty p ks Hg Ee) as Hnv.
        destruct (good_tag p ks Hg) as (Hh & Hlow & _ & _ & Hkids). rewrite Hlow in Hnv.
        pose proof Hg as [Hr Hp]. cbn [representable pretty_ok] in Hr, Hp |- *. cbn zeta in Hr |- *.
        apply andb_prop in Hr as [Hr R5]. apply andb_prop in Hr as [Hr R4]. rewrite Hr, Hnv. cbn [andb].
        apply andb_prop in Hp as [_ P4].
        destruct (memS (qname p) (r_cdata rc)).
        * destruct Hkids as [Hraw Hcd]. cbn [forallb]. rewrite (raw_wsnode _ _ Hcd), forallb_app'. cbn [forallb andb].
          rewrite (raw_wsnode _ _ Hcd), (raw_ptn_kids _ _ Hcd ks Hraw P4). reflexivity.
        * destruct Hkids as [Hcd Hk]. rewrite Hcd. cbn [negb andb forallb]. rewrite rep_wsnode, forallb_app'. cbn [forallb andb].
          rewrite rep_wsnode, andb_true_r. cbn [andb].
          clear - IH Hk. induction ks as [|k ks IHk]; [reflexivity|]. inversion IH; subst. inversion Hk; subst.
          cbn [ptn_kids]. rewrite forallb_app'. rewrite H1 by assumption. now apply IHk.
  Qed.
  Lemma rep_ptn_kids name lv : forall ks, Forall good ks ->
    forallb (representable f rc cfg) (ptn_kids rt enc f lv name ks) = true.
  Proof.
    induction ks as [|k ks IH]; intros Hg; [reflexivity|]. inversion Hg; subst.
    cbn [ptn_kids]. rewrite forallb_app', rep_ptn by assumption. now apply IH.
  Qed.

  (* ================================================================ 3. the same tree, whitespace in text disregarded *)
  Hypothesis Hws_nows : forall s w1 w2, all_ws w1 = true -> all_ws w2 = true ->
    nows (rt (w1 ++ strip (g s) ++ w2)) = nows s.
  Hypothesis Hspaces : forallb is_ws (c_spaces cfg) = true.
  Hypothesis Hcont : forall n c, assocS n (c_containers cfg) = Some c -> output_kind c = 0%N.

  Definition W (l : list nnode) : list nnode := ws_canon cfg l.
  Definition cf (cont : N) (P : str) : list nnode := match nows P with [] => [] | s' => [NS cont s'] end.
  Lemma W_app a b : W (a ++ b) = W a ++ W b.
  Proof. unfold W, ws_canon. apply flat_map_app. Qed.
  Lemma W_cons x l : W (x :: l) = ws_canon_node cfg false x ++ W l.
  Proof. reflexivity. Qed.

  Lemma nows_spaces s : all_in (c_spaces cfg) s = true -> nows s = [].
  Proof.
    intros H. apply nows_all_ws. unfold all_ws, all_in in *. rewrite forallb_forall in *. intros c Hc.
    specialize (H c Hc). unfold memN in H. apply existsb_exists in H as [x [Hx Ex]]. apply N.eqb_eq in Ex. subst x.
    now apply Hspaces.
  Qed.
  Lemma nows_collapse s : nows (collapse cfg false s) = nows s.
  Proof.
    unfold collapse. cbn [negb andb]. destruct (all_in (c_spaces cfg) s) eqn:E; [|reflexivity].
    rewrite (nows_spaces s E). destruct (memN 10 s); reflexivity.
  Qed.
  Lemma W_flush cont P : (output_kind cont =? 0)%N = true -> W (flush_text cfg false cont P) = cf cont P.
  Proof.
    intros Hk. unfold flush_text, cf. destruct P as [|c P]; [reflexivity|].
    unfold W, ws_canon. cbn [flat_map ws_canon_node]. rewrite Hk, nows_collapse. cbn [negb andb]. now rewrite app_nil_r.
  Qed.
  Lemma cf_nows cont P P' : nows P' = nows P -> cf cont P' = cf cont P.
  Proof. unfold cf. now intros ->. Qed.

  Definition kc (cont : N) : Prop := (output_kind cont =? 0)%N = true.
  Lemma kc_child q cont : kc cont -> kc (match assocS q (c_containers cfg) with Some c => c | None => cont end).
  Proof. intros H. destruct (assocS q (c_containers cfg)) as [c|] eqn:E; [|exact H]. unfold kc. now rewrite (Hcont _ _ E). Qed.

  (* the statement for one node among its siblings: P / P' the pending text before it (equal up to whitespace), R / R'
     what follows, with the comparison already known for whatever pending text reaches them *)
  Definition cont_ok (cont : N) (R' R : list node) : Prop :=
    forall Q Q', nows Q' = nows Q ->
      W (norm_kids enc f cfg false cont Q' R') = W (norm_kids enc f cfg false cont Q R).
  Definition Kst (t : node) : Prop := good t -> forall lv pn cont P P' R R', kc cont -> nows P' = nows P -> cont_ok cont R' R ->
    W (norm_kids enc f cfg false cont P' (ptn rt enc f lv pn t ++ R')) = W (norm_kids enc f cfg false cont P (t :: R)).

  Lemma nk_ws cont P w r : norm_kids enc f cfg false cont P (wsnode w :: r) = norm_kids enc f cfg false cont (P ++ w) r.
  Proof. apply nk_text. reflexivity. Qed.
  Lemma nows_snoc_ws P w : all_ws w = true -> nows (P ++ w) = nows P.
  Proof. intros H. now rewrite nows_app, (nows_all_ws w H), app_nil_r. Qed.

  Lemma Kst_kids name lv cont : forall ks, Forall Kst ks -> Forall good ks -> kc cont ->
    forall P P' R R', nows P' = nows P -> cont_ok cont R' R ->
    W (norm_kids enc f cfg false cont P' (ptn_kids rt enc f lv name ks ++ R')) =
    W (norm_kids enc f cfg false cont P (ks ++ R)).
  Proof.
    induction ks as [|k ks IH]; intros HK Hg Hk P P' R R' HP HR; [now apply HR|].
    inversion HK as [|? ? Hk1 HK']; subst. inversion Hg as [|? ? Hg1 Hg']; subst.
    cbn [ptn_kids app]. rewrite <- app_assoc. apply (Hk1 Hg1); [exact Hk|exact HP|].
    intros Q Q' HQ. now apply IH.
  Qed.

  Lemma blank_nows c s pn lv : preformatted c = false -> string_ok c s = true ->
    deco f true (output_ready f c s pn) lv true true = [] -> nows s = [].
  Proof.
    intros Hpre Hs Hd. destruct (kind0_output c s pn Hpre Hs) as [Ho _]. rewrite deco_shape, Ho in Hd.
    destruct (strip (substitute f true pn s)) eqn:E; [|destruct (ind f lv); discriminate Hd].
    destruct (in_cdata f pn) eqn:Ec.
    - rewrite (substitute_cdata pn s Ec) in E. now rewrite <- (nows_strip s), E.
    - rewrite (substitute_plain pn s Ec) in E. pose proof (Hws_nows s [] [] eq_refl eq_refl) as H.
      rewrite E in H. cbn [app] in H. now rewrite Hrt_nil in H.
  Qed.
  Lemma text_nows c s pn lv x o : preformatted c = false -> string_ok c s = true ->
    deco f true (output_ready f c s pn) lv true true = x :: o ->
    nows (if in_cdata f pn then x :: o else rt (x :: o)) = nows s.
  Proof.
    intros Hpre Hs Hd. destruct (kind0_output c s pn Hpre Hs) as [Ho _]. rewrite deco_shape, Ho in Hd.
    destruct (strip (substitute f true pn s)) as [|y sp] eqn:E; [discriminate Hd|]. rewrite <- Hd, <- E.
    destruct (in_cdata f pn) eqn:Ec.
    - rewrite (substitute_cdata pn s Ec). rewrite !nows_app, (nows_all_ws _ (all_ws_ind lv)), nows_strip. cbn [app].
      now rewrite (nows_all_ws [nl_] eq_refl), app_nil_r.
    - rewrite (substitute_plain pn s Ec). apply Hws_nows; [apply all_ws_ind|reflexivity].
  Qed.

  Lemma Kst_str c s : Kst (NStr c s).
  Proof.
    intros Hg lv pn cont P P' R R' Hk HP HR. pose proof (good_str c s Hg) as Hs. cbn [ptn].
    destruct (preformatted c) eqn:Hpre.
    - (* a special string: indentation before, its own or an added newline after *)
      assert (Ek : (output_kind c =? 0)%N = false) by (unfold preformatted in Hpre; now apply negb_true_iff in Hpre).
      cbn [app]. rewrite nk_ws.
      assert (HP2 : nows (P' ++ ind f lv) = nows P) by (rewrite nows_snoc_ws; [exact HP|apply all_ws_ind]).
      destruct (read_special c s) as [[c' s']|] eqn:Er.
      + rewrite !(nk_special enc f cfg false cont _ c s _ c' s' Ek Er), !W_app, !W_flush by exact Hk.
        rewrite (cf_nows cont _ _ HP2). f_equal. rewrite !W_cons. f_equal.
        destruct (trailing_cases' c) as [E|E]; rewrite E; cbn [app].
        * rewrite nk_ws. apply HR. reflexivity.
        * apply HR. reflexivity.
      + rewrite !(nk_none enc f cfg false cont _ c s _ Ek Er).
        destruct (trailing_cases' c) as [E|E]; rewrite E; cbn [app]; rewrite ?app_nil_r.
        * rewrite nk_ws. apply HR. rewrite nows_snoc_ws by reflexivity. exact HP2.
        * apply HR. rewrite (nows_app (P' ++ ind f lv)), HP2. now rewrite nows_app.
    - assert (Ek : (output_kind c =? 0)%N = true) by (unfold preformatted in Hpre; now apply negb_false_iff in Hpre).
      rewrite (nk_text enc f cfg false cont P c s R Ek).
      destruct (deco f true (output_ready f c s pn) lv true true) as [|x o] eqn:Ed.
      + cbn [app]. apply HR. rewrite nows_app, (blank_nows c s pn lv Hpre Hs Ed), app_nil_r. exact HP.
      + cbn [app]. rewrite (nk_text enc f cfg false cont P' c _ R' Ek). apply HR.
        rewrite !nows_app, (text_nows c s pn lv x o Hpre Hs Ed). now rewrite HP.
  Qed.

  Lemma good_kids p ks : good (NTag p ks) -> Forall good ks.
  Proof.
    intros Hg. destruct (good_tag p ks Hg) as (_ & _ & _ & _ & Hkids). destruct Hg as [_ Hp].
    cbn [pretty_ok] in Hp. apply andb_prop in Hp as [_ P4].
    destruct (memS (qname p) (r_cdata rc)); [|exact (proj2 Hkids)].
    destruct Hkids as [Hraw _]. rewrite forallb_forall in Hraw, P4. apply Forall_forall. intros k Hin.
    specialize (Hraw k Hin). specialize (P4 k Hin). destruct k as [p' ks'|c s]; [discriminate Hraw|].
    split; [exact P4|exact P4].
  Qed.

  Lemma cont_ok_end cont w : kc cont -> all_ws w = true -> cont_ok cont [wsnode w] [].
  Proof.
    intros Hk Hw Q Q' HQ. rewrite nk_ws. cbn [norm_kids]. rewrite !W_flush by exact Hk.
    apply cf_nows. now rewrite nows_snoc_ws.
  Qed.
  Lemma cont_ok_nil cont : kc cont -> cont_ok cont [] [].
  Proof. intros Hk Q Q' HQ. cbn [norm_kids]. rewrite !W_flush by exact Hk. now apply cf_nows. Qed.

  Lemma Kst_tag p ks : Forall Kst ks -> Kst (NTag p ks).
  Proof.
    intros IH Hg lv pn cont P P' R R' Hk HP HR.
    destruct (good_tag p ks Hg) as (Hh & Hlow & _ & Hpp & _).
    assert (HP2 : nows (P' ++ ind f lv) = nows P) by (rewrite nows_snoc_ws; [exact HP|apply all_ws_ind]).
    assert (Hsame : W (norm_kids enc f cfg false cont P' (wsnode (ind f lv) :: NTag p ks :: wsnode [nl_] :: R')) =
                    W (norm_kids enc f cfg false cont P (NTag p ks :: R))).
    { rewrite nk_ws, !nk_tag, !W_app, !W_flush by exact Hk. rewrite (cf_nows cont _ _ HP2). f_equal. f_equal.
      rewrite nk_ws. apply HR. reflexivity. }
    rewrite ptn_tag. destruct (is_empty_element p (length ks)); [exact Hsame|].
    destruct (should_pretty_print p) eqn:Epp; [|exact Hsame].
    cbn [app]. rewrite nk_ws, !nk_tag, !W_app, !W_flush by exact Hk. rewrite (cf_nows cont _ _ HP2). f_equal.
    f_equal; [|rewrite nk_ws; apply HR; reflexivity].
    (* the element itself: same name and attributes, children compared one level down *)
    rewrite !(norm_node_tag enc f cfg). cbn zeta.
    assert (Hnpw : memS (qname p) (c_pw cfg) = false) by (symmetry in Hpp; apply negb_true_iff in Hpp; exact Hpp).
    unfold W, ws_canon. cbn [flat_map ws_canon_node]. rewrite Hnpw. cbn [orb]. rewrite !app_nil_r. f_equal. f_equal.
    fold (ws_canon cfg). fold W.
    set (cont' := match assocS (qname p) (c_containers cfg) with Some c => c | None => cont end).
    pose proof (kc_child (qname p) cont Hk) as Hk'. fold cont' in Hk'.
    rewrite nk_ws. rewrite <- (app_nil_r ks) at 2.
    apply Kst_kids; [exact IH|now apply (good_kids p)|exact Hk'|reflexivity|].
    apply cont_ok_end; [exact Hk'|apply all_ws_ind].
  Qed.
  Theorem Kst_all : forall t, Kst t.
  Proof. induction t as [c s|p ks IH] using node_ind'; [apply Kst_str|now apply Kst_tag]. Qed.

  (* ================================================================ the theorem *)
  Hypothesis Hra : forall s, ra (attr_inner (g s)) = s.
  Hypothesis Hroot_pw : memS (c_root cfg) (c_pw cfg) = false.
  Hypothesis Hroot_cont : assocS (c_root cfg) (c_containers cfg) = None.

  Lemma all_forall {X} (P : X -> Prop) l : (forall x, P x) -> Forall P l.
  Proof. intros H. apply Forall_forall. intros x _. apply H. Qed.
  Lemma good_of_forallb l : forallb (representable f rc cfg) l = true -> forallb (pretty_ok f rc cfg) l = true -> Forall good l.
  Proof. intros H1 H2. rewrite forallb_forall in H1, H2. apply Forall_forall. intros x Hx. split; auto. Qed.

  Theorem reparse_modulo_whitespace t :
    representable_top f rc cfg t = true -> pretty_ok_top f rc cfg t = true ->
    let pt := pretty_tree rt enc f cfg t in
    spec_run cfg (read_tokens rt ra rc (pretty_tokens enc f t)) = flat_tree cfg (norm enc f cfg pt) /\
    spec_run cfg (read_tokens rt ra rc (tokens_of enc f t)) = flat_tree cfg (norm enc f cfg t) /\
    ws_equiv cfg (norm enc f cfg pt) (norm enc f cfg t).
  Proof.
    intros Hr Hp pt.
    assert (RT : forall t', representable_top f rc cfg t' = true ->
                 spec_run cfg (read_tokens rt ra rc (tokens_of enc f t')) = flat_tree cfg (norm enc f cfg t')).
    { intros t' H. apply (roundtrip_tokens enc f rt ra rc cfg g Hsub Hg_nil Hrt Hrt_nil Hra Hslash (Hws_id [nl_] eq_refl)
                            Hroot_pw Hroot_cont t' H). }
    split; [|split; [now apply RT|]].
    - (* the pretty tokens read like the plain tokens of the decorated tree, which is representable *)
      unfold representable_top in Hr. apply andb_prop in Hr as [Hv Hr].
      unfold pretty_ok_top in Hp. apply andb_prop in Hp as [Hrootcd Hp]. apply negb_true_iff in Hrootcd.
      assert (E : read_tokens rt ra rc (pretty_tokens enc f t) = read_tokens rt ra rc (tokens_of enc f pt)).
      { unfold read_tokens. apply sim_read. unfold pt, pretty_tokens, pretty_tree, tokens_of.
        destruct t as [p ks|c s]; [|exact I]. destruct (g_hidden p) eqn:Hh.
        - apply andb_prop in Hr as [_ Hks]. cbn [g_hidden]. rewrite Hh.
          apply (pretty_sim_kids (g_name p) 0 ks (all_forall _ _ pretty_sim) (good_of_forallb ks Hks Hp)). reflexivity.
        - cbn [g_hidden g_name]. rewrite tokens_kids_flat.
          apply (pretty_sim (NTag p ks) (conj Hr Hp) 0%Z None (Some (c_root cfg))); [exact Hrootcd|reflexivity]. }
      rewrite E. apply RT. unfold representable_top. rewrite Hv. cbn [andb].
      unfold pt, pretty_tree. destruct t as [p ks|c s]; [|reflexivity]. destruct (g_hidden p) eqn:Hh.
      + apply andb_prop in Hr as [Hcd Hks]. rewrite Hh, Hcd. cbn [andb].
        apply rep_ptn_kids. now apply good_of_forallb.
      + cbn [g_hidden g_name]. rewrite Hrootcd. cbn [negb andb]. apply rep_ptn. now split.
    - (* whitespace-blind comparison of the two normal forms *)
      unfold representable_top in Hr. apply andb_prop in Hr as [_ Hr].
      unfold pretty_ok_top in Hp. apply andb_prop in Hp as [_ Hp].
      unfold ws_equiv. fold (W (norm enc f cfg pt)). fold (W (norm enc f cfg t)).
      unfold pt, pretty_tree, norm. destruct t as [p ks|c s]; [|reflexivity]. destruct (g_hidden p) eqn:Hh.
      + apply andb_prop in Hr as [_ Hks]. rewrite Hh.
        pose proof (Kst_kids (g_name p) 0%Z 0%N ks (all_forall _ _ Kst_all) (good_of_forallb ks Hks Hp) eq_refl
                      [] [] [] [] eq_refl (cont_ok_nil 0%N eq_refl)) as H.
        now rewrite !app_nil_r in H.
      + cbn [g_hidden].
        pose proof (Kst_all (NTag p ks) (conj Hr Hp) 0%Z None 0%N [] [] [] [] eq_refl eq_refl (cont_ok_nil 0%N eq_refl)) as H.
        rewrite app_nil_r in H. rewrite H, nk_tag. cbn [flush_text norm_kids app]. now rewrite app_nil_r.
  Qed.
End Sim.

(* ================================================================ 4. the readers and substitution functions of C09 *)
From BS Require Import Model.SmartQuotes Proofs.RoundTripHtml.
From BS Require Model.EntitySubst Spec.EntitiesSpec Proofs.EntitiesTables Proofs.EntitiesProofs.

Lemma amp_not_ws : is_ws Reader.c_amp = false.
Proof. reflexivity. Qed.
Lemma semi_not_ws : is_ws Reader.c_semi = false.
Proof. reflexivity. Qed.
Lemma all_ws_no_amp w : all_ws w = true -> ~ In Reader.c_amp w.
Proof.
  intros H Hin. unfold all_ws in H. rewrite forallb_forall in H. specialize (H _ Hin). rewrite amp_not_ws in H. discriminate.
Qed.
Lemma enc_ws w : all_ws w = true -> EntitiesSpec.enc w w.
Proof. intros H. apply EntitiesProofs.enc_refl_no_amp. now apply all_ws_no_amp. Qed.

Lemma nows_cons_ws c s : is_ws c = true -> nows (c :: s) = nows s.
Proof. intros H. unfold nows. cbn [filter]. now rewrite H. Qed.
Lemma nows_cons_nonws c s : is_ws c = false -> nows (c :: s) = c :: nows s.
Proof. intros H. unfold nows. cbn [filter]. now rewrite H. Qed.

(* written text whose leading whitespace is dropped is the writing of the text without that whitespace *)
Lemma enc_drop_ws o s : EntitiesSpec.enc o s -> exists s1, EntitiesSpec.enc (drop_ws o) s1 /\ nows s1 = nows s.
Proof.
  induction 1 as [|c o s Hc He IH|name seq o s Hk He IH].
  - exists []. split; [constructor|reflexivity].
  - cbn [drop_ws]. destruct (is_ws c) eqn:E.
    + destruct IH as [s1 [H1 H2]]. exists s1. split; [exact H1|]. now rewrite nows_cons_ws.
    + exists (c :: s). split; [now constructor|reflexivity].
  - cbn [drop_ws]. rewrite amp_not_ws. exists (seq ++ s). split; [now constructor|reflexivity].
Qed.

Definition rstrip (o : str) : str := rev (drop_ws (rev o)).
Lemma drop_ws_all w : all_ws w = true -> drop_ws w = [].
Proof. induction w as [|c w IH]; [reflexivity|]. cbn. intros H. apply andb_prop in H as [H1 H2]. rewrite H1. auto. Qed.
Lemma drop_ws_app a b : drop_ws (a ++ b) = if all_ws a then drop_ws b else drop_ws a ++ b.
Proof.
  induction a as [|c a IH]; [reflexivity|]. cbn [app drop_ws all_ws forallb]. destruct (is_ws c); [exact IH|reflexivity].
Qed.
Lemma all_ws_rev o : all_ws (rev o) = all_ws o.
Proof.
  unfold all_ws. induction o as [|c o IH]; [reflexivity|]. cbn [rev forallb]. rewrite forallb_app, IH. cbn [forallb].
  now rewrite andb_true_r, andb_comm.
Qed.
Lemma rstrip_all w : all_ws w = true -> rstrip w = [].
Proof. intros H. unfold rstrip. rewrite drop_ws_all; [reflexivity|]. now rewrite all_ws_rev. Qed.
Lemma rstrip_cons c o : rstrip (c :: o) = if all_ws (c :: o) then [] else c :: rstrip o.
Proof.
  unfold rstrip. cbn [rev]. rewrite drop_ws_app, all_ws_rev. cbn [all_ws forallb]. fold (all_ws o).
  destruct (all_ws o) eqn:E.
  - rewrite andb_true_r. cbn [drop_ws]. destruct (is_ws c); [reflexivity|].
    cbn [rev app]. f_equal. symmetry. change (rstrip o = []). now apply rstrip_all.
  - rewrite andb_false_r. now rewrite rev_app_distr.
Qed.
Lemma rstrip_app_nonws x c o : is_ws c = false -> rstrip (x ++ c :: o) = x ++ c :: rstrip o.
Proof.
  intros Hc. induction x as [|y x IH].
  - cbn [app]. rewrite rstrip_cons. cbn [all_ws forallb]. now rewrite Hc.
  - cbn [app]. rewrite rstrip_cons, IH. cbn [all_ws forallb]. unfold all_ws in *. rewrite forallb_app. cbn [forallb].
    now rewrite Hc, andb_false_r, andb_false_r.
Qed.
Lemma enc_all_ws o s : EntitiesSpec.enc o s -> all_ws o = true -> s = o.
Proof.
  induction 1 as [|c o s Hc He IH|name seq o s Hk He IH]; intros H; [reflexivity| |].
  - cbn in H. apply andb_prop in H as [_ H]. now rewrite IH.
  - cbn in H. rewrite amp_not_ws in H. discriminate.
Qed.
Lemma enc_rstrip o s : EntitiesSpec.enc o s -> exists s1, EntitiesSpec.enc (rstrip o) s1 /\ nows s1 = nows s.
Proof.
  induction 1 as [|c o s Hc He IH|name seq o s Hk He IH].
  - exists []. split; [constructor|reflexivity].
  - rewrite rstrip_cons. destruct (all_ws (c :: o)) eqn:E.
    + exists []. split; [constructor|]. cbn [all_ws forallb] in E. apply andb_prop in E as [E1 E2].
      rewrite (enc_all_ws o s He E2), nows_cons_ws by exact E1. symmetry. now apply nows_all_ws.
    + destruct IH as [s1 [H1 H2]]. exists (c :: s1). split; [now constructor|].
      destruct (is_ws c) eqn:Ec; [now rewrite !nows_cons_ws|now rewrite !nows_cons_nonws, H2].
  - rewrite rstrip_cons. cbn [all_ws forallb]. rewrite amp_not_ws. cbn [andb].
    rewrite (rstrip_app_nonws name Reader.c_semi o semi_not_ws).
    destruct IH as [s1 [H1 H2]]. exists (seq ++ s1). split; [now constructor|]. now rewrite !nows_app, H2.
Qed.
Lemma enc_strip o s : EntitiesSpec.enc o s -> exists s1, EntitiesSpec.enc (strip o) s1 /\ nows s1 = nows s.
Proof.
  intros H. destruct (enc_drop_ws o s H) as [s0 [H0 N0]]. destruct (enc_rstrip _ _ H0) as [s1 [H1 N1]].
  exists s1. split; [exact H1|]. now rewrite N1.
Qed.

Section EncReaders.
  Variable g : str -> str.
  Hypothesis Henc : forall s, EntitiesSpec.enc (g s) s.

  Lemma enc_ws_id w : all_ws w = true -> read_text w = w.
  Proof. intros H. apply EntitiesProofs.enc_read_text. now apply enc_ws. Qed.
  Lemma enc_ws_nows s w1 w2 : all_ws w1 = true -> all_ws w2 = true ->
    nows (read_text (w1 ++ strip (g s) ++ w2)) = nows s.
  Proof.
    intros H1 H2. destruct (enc_strip _ _ (Henc s)) as [s1 [E N]].
    rewrite (EntitiesProofs.enc_read_text _ (w1 ++ s1 ++ w2)).
    - now rewrite !nows_app, (nows_all_ws w1 H1), (nows_all_ws w2 H2), app_nil_r.
    - apply EntitiesProofs.enc_app; [now apply enc_ws|]. apply EntitiesProofs.enc_app; [exact E|now apply enc_ws].
  Qed.
  Lemma enc_ws_ne s w1 : all_ws w1 = true -> strip (g s) <> [] -> read_text (w1 ++ strip (g s) ++ [nl_]) <> [].
  Proof.
    intros H1 _. destruct (enc_strip _ _ (Henc s)) as [s1 [E N]].
    rewrite (EntitiesProofs.enc_read_text _ (w1 ++ s1 ++ [nl_])).
    - intros H. apply app_eq_nil in H as [_ H]. apply app_eq_nil in H as [_ H]. discriminate H.
    - apply EntitiesProofs.enc_app; [now apply enc_ws|]. apply EntitiesProofs.enc_app; [exact E|now apply enc_ws].
  Qed.

  Theorem reparse_modulo_whitespace_enc enc f rc cfg t :
    f_subst f = Some g -> g [] = [] -> f_void f <> [] -> all_ws (f_indent f) = true ->
    forallb is_ws (c_spaces cfg) = true ->
    (forall n c, assocS n (c_containers cfg) = Some c -> output_kind c = 0%N) ->
    memS (c_root cfg) (c_pw cfg) = false -> assocS (c_root cfg) (c_containers cfg) = None ->
    representable_top f rc cfg t = true -> pretty_ok_top f rc cfg t = true ->
    let pt := pretty_tree read_text enc f cfg t in
    spec_run cfg (read_tokens read_text EntitySubst.unescape rc (pretty_tokens enc f t)) = flat_tree cfg (norm enc f cfg pt) /\
    spec_run cfg (read_tokens read_text EntitySubst.unescape rc (tokens_of enc f t)) = flat_tree cfg (norm enc f cfg t) /\
    ws_equiv cfg (norm enc f cfg pt) (norm enc f cfg t).
  Proof.
    intros Hs Hg Hv Hi Hsp Hc Hr1 Hr2 Hrep Hok.
    apply (reparse_modulo_whitespace f read_text EntitySubst.unescape rc g Hs Hg
             (fun s => proj1 (enc_reads_back _ _ (Henc s))) eq_refl enc_ws_id enc cfg Hv Hi enc_ws_ne enc_ws_nows Hsp Hc
             (fun s => proj2 (enc_reads_back _ _ (Henc s))) Hr1 Hr2 t Hrep Hok).
  Qed.
End EncReaders.

(* ================================================================ 5. the pretty tokens spell the pretty rendering *)
Lemma strip_core M0 z T : forall x M', x :: M' = M0 ++ [z] -> is_ws x = false -> is_ws z = false -> all_ws T = true ->
  strip ((M0 ++ [z]) ++ T) = M0 ++ [z].
Proof.
  intros x M' E Hx Hz HT. unfold strip. fold (rstrip (drop_ws ((M0 ++ [z]) ++ T))).
  rewrite <- E. cbn [app drop_ws]. rewrite Hx. change (x :: M' ++ T) with ((x :: M') ++ T). rewrite E, <- app_assoc. cbn [app].
  rewrite (rstrip_app_nonws M0 z T Hz), (rstrip_all T HT). reflexivity.
Qed.

(* table fact: the markup of a special string starts and (before any trailing newline) ends with a non-whitespace character *)
Lemma special_shape c : preformatted c = true ->
  exists x pre' m z, fst (affixes c) = x :: pre' /\ is_ws x = false /\ special_suffix c = m ++ [z] /\ is_ws z = false.
Proof.
  unfold preformatted, output_kind, string_class_output. cbn [assocN].
  repeat match goal with
         | |- context [N.eqb c ?k] => destruct (N.eqb_spec c k); [subst; intros H; try discriminate H|]
         end; try (intros H; discriminate H).
  - exists 60%N, (tl (fst (affixes 1))), [93%N; 93%N], 62%N. repeat split; reflexivity.
  - exists 60%N, (tl (fst (affixes 2))), [], 62%N. repeat split; reflexivity.
  - exists 60%N, (tl (fst (affixes 3))), [63%N], 62%N. repeat split; reflexivity.
  - exists 60%N, (tl (fst (affixes 4))), [45%N; 45%N], 62%N. repeat split; reflexivity.
  - exists 60%N, (tl (fst (affixes 5))), [63%N], 62%N. repeat split; reflexivity.
  - exists 60%N, (tl (fst (affixes 6))), [], 62%N. repeat split; reflexivity.
Qed.
Lemma suffix_parts c : snd (affixes c) = special_suffix c ++ trailing c.
Proof.
  unfold special_suffix, trailing. destruct (ends_nl (snd (affixes c))) eqn:E; [|now rewrite app_nil_r].
  symmetry. now apply ends_nl_split.
Qed.
Lemma all_ws_trailing c : all_ws (trailing c) = true.
Proof. unfold trailing. destruct (ends_nl _); reflexivity. Qed.

Lemma special_pretty_piece f c s pn lv : preformatted c = true ->
  deco f true (output_ready f c s pn) lv true true = ind f lv ++ spell (TSpecial c s) ++ [nl_].
Proof.
  intros Hp. destruct (special_shape c Hp) as (x & pre' & m & z & E1 & Hx & E2 & Hz).
  unfold output_ready. rewrite Hp. destruct (affixes c) as [pre suf] eqn:Ea. cbn [fst] in E1.
  assert (Es : suf = special_suffix c ++ trailing c) by (rewrite <- (suffix_parts c), Ea; reflexivity).
  assert (Estrip : strip (pre ++ s ++ suf) = pre ++ s ++ special_suffix c).
  { rewrite Es, E2, E1. cbn [app].
    assert (EE : x :: pre' ++ s ++ (m ++ [z]) ++ trailing c = ((x :: pre' ++ s ++ m) ++ [z]) ++ trailing c)
      by (cbn [app]; f_equal; repeat rewrite <- app_assoc; reflexivity).
    rewrite EE.
    rewrite (strip_core (x :: pre' ++ s ++ m) z (trailing c) x ((pre' ++ s ++ m) ++ [z]) eq_refl Hx Hz (all_ws_trailing c)).
    cbn [app]. f_equal. repeat rewrite <- app_assoc. reflexivity. }
  unfold deco. cbn zeta. rewrite Estrip. unfold spell. rewrite Ea. cbn [fst].
  destruct (pre ++ s ++ special_suffix c) as [|y r] eqn:E.
  - rewrite E1 in E. discriminate E.
  - unfold indent_string, ind. cbn [andb]. destruct (lv =? 0)%Z; reflexivity.
Qed.

Lemma spell_wrap f lv b a tok :
  concat (map spell (wrap f lv b a [tok])) = (if b then ind f lv else []) ++ spell tok ++ (if a then [nl_] else []).
Proof.
  unfold wrap. rewrite !map_app, !concat_app. destruct b, a; cbn [map concat spell app]; now rewrite ?app_nil_r.
Qed.
Lemma deco_tag_piece f piece lv b a : piece <> [] ->
  deco f false piece lv b a = (if b then ind f lv else []) ++ piece ++ (if a then [nl_] else []).
Proof.
  intros Hne. unfold deco. cbn zeta. destruct piece as [|y r]; [contradiction|].
  unfold indent_string, ind. destruct b; cbn [andb]; [destruct (lv =? 0)%Z|]; reflexivity.
Qed.

Theorem ptokens_spell enc f : forall t lv pn,
  concat (map spell (ptokens enc f lv pn t)) = concat (pretty enc f lv pn t).
Proof.
  induction t as [c s|p ks IH] using node_ind'; intros lv pn.
  - cbn [ptokens pretty concat]. rewrite app_nil_r. destruct (preformatted c) eqn:Hp.
    + now rewrite spell_wrap, (special_pretty_piece f c s pn lv Hp).
    + destruct (deco f true (output_ready f c s pn) lv true true); cbn; [reflexivity|now rewrite app_nil_r].
  - rewrite ptokens_tag, pretty_tag. cbn zeta.
    assert (Hk : forall lv', concat (map spell (ptokens_kids enc f lv' (g_name p) ks)) = concat (pretty_kids enc f lv' (g_name p) ks)).
    { clear - IH. induction ks as [|k ks IHk]; intros lv'; [reflexivity|]. inversion IH; subst.
      cbn [ptokens_kids pretty_kids]. rewrite map_app, !concat_app. f_equal; auto. }
    destruct (g_hidden p) eqn:Hh.
    + (* a hidden tag writes nothing *)
      destruct (is_empty_element p (length ks)); [|destruct (should_pretty_print p)];
        rewrite ?map_app, ?concat_app; cbn [map concat spell app]; rewrite ?concat_app; cbn [concat];
        rewrite ?(format_tag_hidden enc f p _ _ Hh), ?Hk, ?tokens_kids_spell; unfold deco; cbn; now rewrite ?app_nil_r.
    + destruct (is_empty_element p (length ks)) eqn:Ee.
      * cbn [concat]. rewrite app_nil_r, spell_wrap, (deco_tag_piece f _ lv true true (format_tag_nonempty enc f p _ true Hh)).
        now rewrite (format_tag_empty enc f p _ Hh Ee).
      * destruct (should_pretty_print p).
        -- rewrite !map_app, !concat_app, !spell_wrap, Hk. cbn [concat]. rewrite concat_app. cbn [concat].
           rewrite !(deco_tag_piece f _ lv true true (format_tag_nonempty enc f p _ _ Hh)).
           rewrite (format_tag_open enc f p _ Hh Ee), (format_tag_close enc f p _ Hh Ee). now rewrite app_nil_r, <- !app_assoc.
        -- rewrite !map_app, !concat_app, !spell_wrap, tokens_kids_spell. cbn [concat]. rewrite concat_app. cbn [concat].
           rewrite (deco_tag_piece f _ lv true false (format_tag_nonempty enc f p _ _ Hh)),
                   (deco_tag_piece f _ lv false true (format_tag_nonempty enc f p _ _ Hh)).
           rewrite (format_tag_open enc f p _ Hh Ee), (format_tag_close enc f p _ Hh Ee). cbn [app]. now rewrite !app_nil_r, <- !app_assoc.
Qed.
Lemma ptokens_kids_spell enc f : forall ks lv pn,
  concat (map spell (ptokens_kids enc f lv pn ks)) = concat (pretty_kids enc f lv pn ks).
Proof.
  induction ks as [|k ks IH]; intros lv pn; [reflexivity|]. cbn [ptokens_kids pretty_kids].
  now rewrite map_app, !concat_app, ptokens_spell, IH.
Qed.
(* the text prettify() returns is the spelling of the pretty tokens *)
Theorem prettify_is_spelled_pretty_tokens enc f t :
  prettify enc f t = concat (map spell (pretty_tokens enc f t)).
Proof.
  unfold prettify. rewrite decode_spec. unfold render_spec, pretty_tokens. destruct t as [p ks|c s]; [|reflexivity].
  destruct (g_hidden p); cbn [render_kids render_node]; [now rewrite ptokens_kids_spell|now rewrite ptokens_spell].
Qed.

(* ================================================================ 6. inside whitespace-preserving elements nothing differs *)
Lemma ws_canon_pres cfg : forall n, ws_canon_node cfg true n = [n].
Proof.
  induction n as [c s|q a ks IH] using nnode_ind'.
  - cbn. now rewrite andb_false_r.
  - cbn [ws_canon_node orb]. f_equal. f_equal. induction ks as [|k ks IHk]; [reflexivity|]. inversion IH; subst.
    cbn [flat_map]. rewrite H1. cbn [app]. f_equal. now apply IHk.
Qed.
Definition pw_parts (cfg : bconfig) (l : list nnode) : list nnode := flat_map (pw_subtrees cfg) l.
Lemma pw_parts_app cfg a b : pw_parts cfg (a ++ b) = pw_parts cfg a ++ pw_parts cfg b.
Proof. apply flat_map_app. Qed.
Lemma pw_canon_node cfg : forall n, pw_parts cfg (ws_canon_node cfg false n) = pw_subtrees cfg n.
Proof.
  induction n as [c s|q a ks IH] using nnode_ind'.
  - cbn [ws_canon_node pw_subtrees]. destruct ((output_kind c =? 0)%N && negb false); [destruct (nows s)|]; reflexivity.
  - cbn [ws_canon_node orb]. unfold pw_parts at 1. cbn [flat_map pw_subtrees]. rewrite app_nil_r.
    destruct (memS q (c_pw cfg)) eqn:E.
    + f_equal. f_equal. clear IH. induction ks as [|k ks IHk]; [reflexivity|]. cbn [flat_map]. rewrite ws_canon_pres. cbn [app].
      f_equal. exact IHk.
    + change (pw_parts cfg (flat_map (ws_canon_node cfg false) ks) = pw_parts cfg ks).
      induction ks as [|k ks IHk]; [reflexivity|]. inversion IH; subst. cbn [flat_map].
      rewrite pw_parts_app, H1. unfold pw_parts at 2. cbn [flat_map]. f_equal. now apply IHk.
Qed.
Theorem ws_equiv_pw_exact cfg a b : ws_equiv cfg a b -> pw_parts cfg a = pw_parts cfg b.
Proof.
  assert (H : forall l, pw_parts cfg (ws_canon cfg l) = pw_parts cfg l).
  { induction l as [|n l IH]; [reflexivity|]. unfold ws_canon. cbn [flat_map]. fold (ws_canon cfg l).
    rewrite pw_parts_app, pw_canon_node, IH. reflexivity. }
  unfold ws_equiv. intros E. rewrite <- (H a), <- (H b), E. reflexivity.
Qed.

(* ================================================================ 7. 'html' and 'minimal' with the HTML builder's tables *)
Lemma html_bcfg_facts :
  forallb is_ws (c_spaces html_bcfg) = true /\
  (forall n c, assocS n (c_containers html_bcfg) = Some c -> output_kind c = 0%N) /\
  memS (c_root html_bcfg) (c_pw html_bcfg) = false /\ assocS (c_root html_bcfg) (c_containers html_bcfg) = None.
Proof.
  split; [reflexivity|]. split; [|split; reflexivity].
  intros n c H. apply N.eqb_eq.
  exact (assocS_forallb (fun c => (output_kind c =? 0)%N) default_string_containers n c html_containers_text_classes H).
Qed.

Theorem reparse_modulo_whitespace_html enc f rc t :
  f_subst f = Some EntitySubst.substitute_html -> f_void f <> [] -> all_ws (f_indent f) = true ->
  representable_top f rc html_bcfg t = true -> pretty_ok_top f rc html_bcfg t = true ->
  let pt := pretty_tree read_text enc f html_bcfg t in
  spec_run html_bcfg (read_tokens read_text EntitySubst.unescape rc (pretty_tokens enc f t)) = flat_tree html_bcfg (norm enc f html_bcfg pt) /\
  spec_run html_bcfg (read_tokens read_text EntitySubst.unescape rc (tokens_of enc f t)) = flat_tree html_bcfg (norm enc f html_bcfg t) /\
  ws_equiv html_bcfg (norm enc f html_bcfg pt) (norm enc f html_bcfg t).
Proof.
  intros Hs Hv Hi Hr Hp. destruct html_bcfg_facts as (A & B & C & D).
  exact (reparse_modulo_whitespace_enc EntitySubst.substitute_html (fun s => proj1 (EntitiesProofs.html_escaped s))
           enc f rc html_bcfg t Hs eq_refl Hv Hi A B C D Hr Hp).
Qed.
Theorem reparse_modulo_whitespace_minimal enc f rc t :
  f_subst f = Some subst_xml -> f_void f <> [] -> all_ws (f_indent f) = true ->
  representable_top f rc html_bcfg t = true -> pretty_ok_top f rc html_bcfg t = true ->
  let pt := pretty_tree read_text enc f html_bcfg t in
  spec_run html_bcfg (read_tokens read_text EntitySubst.unescape rc (pretty_tokens enc f t)) = flat_tree html_bcfg (norm enc f html_bcfg pt) /\
  spec_run html_bcfg (read_tokens read_text EntitySubst.unescape rc (tokens_of enc f t)) = flat_tree html_bcfg (norm enc f html_bcfg t) /\
  ws_equiv html_bcfg (norm enc f html_bcfg pt) (norm enc f html_bcfg t).
Proof.
  intros Hs Hv Hi Hr Hp. destruct html_bcfg_facts as (A & B & C & D).
  assert (He : forall s, EntitiesSpec.enc (subst_xml s) s) by (intros s; rewrite subst_xml_esc; apply enc_esc).
  exact (reparse_modulo_whitespace_enc subst_xml He enc f rc html_bcfg t Hs eq_refl Hv Hi A B C D Hr Hp).
Qed.
