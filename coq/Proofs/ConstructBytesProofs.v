(* C06 — the constructor on bytes within the concrete codecs (Model/ConstructBytes.v): a tree or ParserRejectedMarkup. *)
From Coq Require Import List NArith Bool Arith.
From BS Require Import Base.Sexp Base.Types Model.Dammit Model.Codecs Model.Heap Model.Edit Model.EditOps Model.Build
  Model.Construct Model.ConstructStr Model.ConstructBytes Gen.T_C06 Proofs.EditRep Proofs.ConstructProofs Proofs.RetryClean
  Proofs.ConstructStrProofs.
Import ListNotations.
Open Scope N_scope.

Lemma decoder_of_caught o : decoder_caught (option_map decoder_of o).
Proof.
  intros dec n c H E. destruct o as [name|]; [|discriminate]. cbn in H. inversion H; subst. unfold decoder_of in E.
  destruct (c_decode [n] name Dammit.Strict); inversion E. apply decode_catches_table.
Qed.

Theorem bytes_input_total : forall cfg b0 u b fe ex, cres_ok (fst (construct_bytes cfg b0 u b fe ex)).
Proof.
  intros. unfold construct_bytes. destruct (c_prepare_markup (Dammit.MBytes b) fe ex) as [text orig decl flag|].
  - apply text_input_total, decoder_of_caught.
  - unfold construct_htmlparser. destruct (preparse_total (Construct.MBytes b)) as [ws ->]. exact I.
Qed.

(* nothing could be decoded: ParserRejectedMarkup from prepare_markup *)
Theorem bytes_undecodable_rejected : forall cfg b0 u b fe ex,
  c_prepare_markup (Dammit.MBytes b) fe ex = Dammit.Rejected ->
  fst (construct_bytes cfg b0 u b fe ex) = CRaise (ParserRejected [could_not_convert]).
Proof.
  intros cfg b0 u b fe ex H. unfold construct_bytes. rewrite H. unfold construct_htmlparser.
  destruct (preparse_total (Construct.MBytes b)) as [ws ->]. reflexivity.
Qed.

(* a tree comes back: it is the tree of the text UnicodeDammit produced, consistent, fully built, and it carries the
   detected encoding, the declared one and the replacement flag *)
Theorem bytes_returned_tree : forall cfg b0 u b fe ex s, fst (construct_bytes cfg b0 u b fe ex) = CSoup s ->
  exists text orig decl flag,
    c_prepare_markup (Dammit.MBytes b) fe ex = Prepared text orig decl flag /\
    so_meta s = mkmeta orig decl flag /\ str_rejects u text = false /\
    same_object (so_b s) (feed cfg (text_events cfg (option_map decoder_of orig) u text)) /\
    consistent (b_st (so_b s)) /\
    b_stack (so_b s) = [0%nat] /\ b_cur (so_b s) = Some 0%nat /\ b_data (so_b s) = [].
Proof.
  intros cfg b0 u b fe ex s. unfold construct_bytes.
  destruct (c_prepare_markup (Dammit.MBytes b) fe ex) as [text orig decl flag|].
  - intros H. destruct (text_returned_tree _ _ _ _ _ _ _ _ (decoder_of_caught orig) H) as (M & R & rest).
    exists text, orig, decl, flag. split; [reflexivity|]. cbn in M. inversion M. split; [reflexivity|]. split; [exact R | exact rest].
  - unfold construct_htmlparser. destruct (preparse_total (Construct.MBytes b)) as [ws ->]. discriminate.
Qed.
