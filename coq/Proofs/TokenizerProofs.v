(* C18 / C04 — proofs about Model/Tokenizer.v (the model of the standard library's tokenizer).
   1. scanners: characterising lemmas;
   2. coverage: the consumed slices are consecutive, non-empty, and together with the unconsumed rest they are the
      input; the position each item carries is the true line/column of its offset;
   3. termination: fuel = length + 1 is never exhausted, and no iteration fails to advance;
   4. start tags: a start-tag callback is only ever fired for a slice that begins with '<' letter, and the name it
      reports is the (ASCII-)lower-cased maximal run of name characters after the '<'. *)
From Coq Require Import List NArith Bool Arith Lia Sorted.
From BS Require Import Base.Sexp Base.Types Base.Reader Model.Pos Proofs.PosProofs Model.Tokenizer Model.TokParse.
Import ListNotations.
Open Scope N_scope.

(* ------------------------------------------------------------------ 1. scanners *)
Lemma span_split p s a b : span p s = (a, b) -> s = a ++ b.
Proof.
  revert a b. induction s as [|c s IH]; intros a b H; cbn in H.
  - inversion H. reflexivity.
  - destruct (p c).
    + destruct (span p s) as [a' b'] eqn:E. inversion H; subst. cbn. f_equal. now apply IH.
    + inversion H. reflexivity.
Qed.
Lemma span_all p s a b : span p s = (a, b) -> forallb p a = true.
Proof.
  revert a b. induction s as [|c s IH]; intros a b H; cbn in H.
  - inversion H. reflexivity.
  - destruct (p c) eqn:P.
    + destruct (span p s) as [a' b'] eqn:E. inversion H; subst. cbn. rewrite P. cbn. eapply IH. reflexivity.
    + inversion H. reflexivity.
Qed.
Lemma span_stop p s a b : span p s = (a, b) -> match b with [] => True | c :: _ => p c = false end.
Proof.
  revert a b. induction s as [|c s IH]; intros a b H; cbn in H.
  - inversion H. exact I.
  - destruct (p c) eqn:P.
    + destruct (span p s) as [a' b'] eqn:E. inversion H; subst. eapply IH. reflexivity.
    + inversion H; subst. exact P.
Qed.
(* the converse: a run of p-characters followed by a non-p character (or nothing) is what span returns *)
Lemma span_intro p a b : forallb p a = true -> match b with [] => True | c :: _ => p c = false end ->
  span p (a ++ b) = (a, b).
Proof.
  intros Ha Hb. induction a as [|c a IH]; cbn in *.
  - destruct b as [|c b]; cbn; [reflexivity|]. now rewrite Hb.
  - apply andb_prop in Ha as [H1 H2]. rewrite H1, (IH H2). reflexivity.
Qed.

Lemma find_cdata_close_split e s a b : find_cdata_close e s = Some (a, b) -> s = a ++ b.
Proof.
  revert a b. induction s as [|c s IH]; intros a b H; cbn [find_cdata_close] in H.
  - destruct (cdata_close_at e []); inversion H. reflexivity.
  - destruct (cdata_close_at e (c :: s)).
    + inversion H. reflexivity.
    + destruct (find_cdata_close e s) as [[a' b']|] eqn:E; [|discriminate].
      inversion H; subst. cbn. f_equal. now apply IH.
Qed.
Lemma find_interesting_split cd s a b : find_interesting cd s = Some (a, b) -> s = a ++ b.
Proof.
  destruct cd as [e|]; cbn; intros H.
  - now apply find_cdata_close_split in H.
  - inversion H as [E]. now apply span_split in E.
Qed.

(* ------------------------------------------------------------------ 2. coverage *)
Definition spans (its : list item) : list str := map it_span its.

Definition covers (off : nat) (p : tpos) (s : str) (its : list item) (g : gstate) : Prop :=
  concat (spans its) ++ gs_rest g = s /\
  map it_off its = offsets off (spans its) /\
  map it_pos its = running p (spans its) /\
  gs_off g = (off + length (concat (spans its)))%nat /\
  gs_pos g = fold_left updatepos (spans its) p /\
  Forall (fun it => it_span it <> []) its.

Lemma updatepos_nil p : updatepos p [] = p.
Proof. destruct p as [l o]. unfold updatepos. cbn. f_equal. lia. Qed.

Lemma covers_nil cd off p s st : covers off p s [] (mkg cd off p s st).
Proof. unfold covers. cbn. repeat split; auto. Qed.

Lemma covers_item off p sp evs s' its g :
  covers (off + length sp)%nat (updatepos p sp) s' its g ->
  covers off p (sp ++ s') (item_of off p sp evs ++ its) g.
Proof.
  intros (H1 & H2 & H3 & H4 & H5 & H6). destruct sp as [|c sp].
  - cbn [item_of app length] in *. rewrite Nat.add_0_r in *. rewrite updatepos_nil in *.
    unfold covers. repeat split; assumption.
  - unfold covers, item_of, spans. cbn [app map it_span it_off it_pos concat offsets running fold_left].
    fold (spans its). repeat split.
    + rewrite <- H1. cbn. now rewrite <- app_assoc.
    + f_equal. exact H2.
    + f_equal. exact H3.
    + rewrite H4. cbn [length app]. rewrite app_length. lia.
    + exact H5.
    + constructor; [discriminate|exact H6].
Qed.

Lemma offsets_app o a b : offsets o (a ++ b) = offsets o a ++ offsets (o + length (concat a)) b.
Proof.
  revert o. induction a as [|t a IH]; intros o; cbn [app offsets concat length].
  - now rewrite Nat.add_0_r.
  - rewrite IH, app_length, Nat.add_assoc. reflexivity.
Qed.
Lemma running_app p a b : running p (a ++ b) = running p a ++ running (fold_left updatepos a p) b.
Proof. revert p. induction a as [|t a IH]; intros p; cbn; [reflexivity|]. now rewrite IH. Qed.

Lemma covers_app off p s i1 g1 i2 g2 :
  covers off p s i1 g1 -> covers (gs_off g1) (gs_pos g1) (gs_rest g1) i2 g2 -> covers off p s (i1 ++ i2) g2.
Proof.
  intros (A1 & A2 & A3 & A4 & A5 & A6) (B1 & B2 & B3 & B4 & B5 & B6).
  unfold covers, spans in *. rewrite !map_app, concat_app. repeat split.
  - rewrite <- app_assoc, B1. exact A1.
  - rewrite offsets_app, A2, B2, A4. reflexivity.
  - rewrite running_app, A3, B3, A5. reflexivity.
  - rewrite B4, A4, app_length. lia.
  - rewrite fold_left_app, <- A5. exact B5.
  - apply Forall_app. split; assumption.
Qed.

Ltac break_match H :=
  repeat match type of H with
  | context [match ?x with _ => _ end] => destruct x eqn:?
  end.

Section Unesc.
Variable unesc : str -> str.

Lemma go_covers fuel : forall endf cd off p s its g,
  go unesc fuel endf cd off p s = (its, g) -> covers off p s its g.
Proof.
  induction fuel as [|f IH]; intros endf cd off p s its g H.
  - destruct s; cbn in H; inversion H; apply covers_nil.
  - destruct s as [|c0 s0]; [cbn in H; inversion H; apply covers_nil|].
    cbn [go] in H. remember (c0 :: s0) as s eqn:Es.
    destruct (find_interesting cd s) as [[txt r]|] eqn:FI; [|inversion H; apply covers_nil].
    apply find_interesting_split in FI. rewrite FI.
    destruct r as [|c1 r1]; [inversion H; subst its g|].
    { rewrite <- (app_nil_r (item_of off p txt [TData txt])). apply covers_item. apply covers_nil. }
    remember (c1 :: r1) as r eqn:Er.
    destruct (dispatch unesc endf cd r) as [k evs cd'|k evs|] eqn:D.
    + destruct k as [|k'].
      * inversion H; subst its g. rewrite <- (app_nil_r (item_of off p txt [TData txt])).
        apply covers_item. apply covers_nil.
      * destruct (go unesc f endf cd' (off + length txt + length (firstn (S k') r))%nat
                     (updatepos (updatepos p txt) (firstn (S k') r)) (skipn (S k') r)) as [its' g'] eqn:G.
        inversion H; subst its g. apply covers_item.
        rewrite <- (firstn_skipn (S k') r) at 1. apply covers_item. eapply IH. exact G.
    + inversion H; subst its g. apply covers_item.
      rewrite <- (firstn_skipn k r) at 1.
      rewrite <- (app_nil_r (item_of _ _ (firstn k r) evs)). apply covers_item. apply covers_nil.
    + inversion H; subst its g. rewrite <- (app_nil_r (item_of off p txt [TData txt])).
      apply covers_item. apply covers_nil.
Qed.

Lemma covers_self g : covers (gs_off g) (gs_pos g) (gs_rest g) [] g.
Proof. unfold covers. cbn. rewrite Nat.add_0_r. repeat split; auto. Qed.

Lemma flush_covers g its g' : flush g = (its, g') ->
  covers (gs_off g) (gs_pos g) (gs_rest g) its g'.
Proof.
  unfold flush. intros H.
  destruct (gs_status g); try (inversion H; subst; apply covers_self).
  destruct (gs_cd g); try (inversion H; subst; apply covers_self).
  destruct (gs_rest g) as [|c0 rs] eqn:R.
  - inversion H; subst. rewrite <- R. apply covers_self.
  - inversion H; subst. unfold covers, spans. cbn. rewrite !app_nil_r. repeat split; auto.
    constructor; [discriminate|constructor].
Qed.

Theorem tokenize_covers text its g : tokenize unesc text = (its, g) -> covers 0 start_pos text its g.
Proof.
  unfold tokenize. destruct (go unesc (S (length text)) false None 0 start_pos text) as [i1 g1] eqn:G1.
  pose proof (go_covers _ _ _ _ _ _ _ _ G1) as C1.
  destruct (gs_status g1); try (intros H; inversion H; subst; exact C1).
  destruct (go unesc (S (length (gs_rest g1))) true (gs_cd g1) (gs_off g1) (gs_pos g1) (gs_rest g1)) as [i2 g2] eqn:G2.
  pose proof (go_covers _ _ _ _ _ _ _ _ G2) as C2.
  destruct (flush g2) as [i3 g3] eqn:F. pose proof (flush_covers _ _ _ F) as C3.
  intros H; inversion H; subst. eapply covers_app; [exact C1|]. eapply covers_app; eassumption.
Qed.

(* ---- consequences of [covers] ---- *)
Lemma offsets_bound toks : forall o x, In x (offsets o toks) -> (o <= x <= o + length (concat toks))%nat.
Proof.
  induction toks as [|t r IH]; intros o x H; cbn in *; [contradiction|].
  rewrite app_length. destruct H as [H|H]; [lia|]. apply IH in H. lia.
Qed.
Lemma true_pos_app_le a b o : (o <= length a)%nat -> true_pos (a ++ b) o = true_pos a o.
Proof.
  intros H. unfold true_pos. rewrite firstn_app. replace (o - length a)%nat with 0%nat by lia.
  cbn. now rewrite app_nil_r.
Qed.

(* the position an item carries is the line / column of its offset in the text *)
Lemma covers_positions text its g : covers 0 start_pos text its g ->
  map it_pos its = map (true_pos text) (map it_off its).
Proof.
  intros (H1 & H2 & H3 & _). rewrite H3, H2, running_true, <- H1.
  apply map_ext_in. intros o Ho. symmetry. apply true_pos_app_le.
  apply offsets_bound in Ho. lia.
Qed.

Lemma offsets_sorted toks : Forall (fun t => t <> []) toks -> forall o, StronglySorted lt (offsets o toks).
Proof.
  induction 1 as [|t r Ht Hr IH]; intros o; cbn; constructor.
  - apply IH.
  - apply Forall_forall. intros x Hx. apply offsets_bound in Hx.
    destruct t; [congruence|cbn in *; lia].
Qed.
Lemma covers_sorted off p s its g : covers off p s its g -> StronglySorted lt (map it_off its).
Proof.
  intros (_ & H2 & _ & _ & _ & H6). rewrite H2. apply offsets_sorted.
  unfold spans. apply Forall_map. exact H6.
Qed.

(* the slice of an item is the text at its offset *)
Lemma offsets_slices toks : forall o pre, length pre = o -> forall rest,
  Forall2 (fun off t => exists post, skipn off (pre ++ concat toks ++ rest) = t ++ post) (offsets o toks) toks.
Proof.
  induction toks as [|t r IH]; intros o pre Hp rest; cbn [offsets concat]; constructor.
  - exists (concat r ++ rest). rewrite <- Hp, skipn_app, Nat.sub_diag, skipn_all. cbn. now rewrite <- app_assoc.
  - specialize (IH (o + length t)%nat (pre ++ t)). rewrite app_length in IH. specialize (IH ltac:(lia) rest).
    rewrite <- !app_assoc in IH. rewrite <- app_assoc. exact IH.
Qed.

(* ------------------------------------------------------------------ 3. termination *)
Lemma go_fuel fuel : forall endf cd off p s its g, (length s < fuel)%nat ->
  go unesc fuel endf cd off p s = (its, g) -> gs_status g <> OutOfFuel.
Proof.
  induction fuel as [|f IH]; intros endf cd off p s its g L H; [lia|].
  destruct s as [|c0 s0]; [cbn in H; inversion H; cbn; discriminate|].
  cbn [go] in H. remember (c0 :: s0) as s eqn:Es.
  destruct (find_interesting cd s) as [[txt r]|] eqn:FI; [|inversion H; cbn; discriminate].
  apply find_interesting_split in FI.
  destruct r as [|c1 r1]; [inversion H; cbn; discriminate|].
  remember (c1 :: r1) as r eqn:Er.
  destruct (dispatch unesc endf cd r) as [k evs cd'|k evs|] eqn:D; try (inversion H; cbn; discriminate).
  destruct k as [|k']; [inversion H; cbn; discriminate|].
  destruct (go unesc f endf cd' (off + length txt + length (firstn (S k') r))%nat
               (updatepos (updatepos p txt) (firstn (S k') r)) (skipn (S k') r)) as [its' g'] eqn:G.
  inversion H; subst its g. eapply IH; [|exact G].
  rewrite skipn_length. rewrite FI, app_length in L. subst r. cbn [length] in *. lia.
Qed.

Lemma flush_status g its g' : flush g = (its, g') -> gs_status g' = gs_status g.
Proof.
  unfold flush. intros H. destruct (gs_status g) eqn:S; try (inversion H; subst; exact S).
  destruct (gs_cd g); try (inversion H; subst; exact S).
  destruct (gs_rest g); inversion H; subst; [exact S|reflexivity].
Qed.

Theorem tokenize_fuel text its g : tokenize unesc text = (its, g) -> gs_status g <> OutOfFuel.
Proof.
  unfold tokenize. destruct (go unesc (S (length text)) false None 0 start_pos text) as [i1 g1] eqn:G1.
  pose proof (go_fuel _ _ _ _ _ _ _ _ (Nat.lt_succ_diag_r _) G1) as F1.
  destruct (gs_status g1) eqn:S1; try (intros H; inversion H; subst; rewrite S1; discriminate); try congruence.
  destruct (go unesc (S (length (gs_rest g1))) true (gs_cd g1) (gs_off g1) (gs_pos g1) (gs_rest g1)) as [i2 g2] eqn:G2.
  pose proof (go_fuel _ _ _ _ _ _ _ _ (Nat.lt_succ_diag_r _) G2) as F2.
  destruct (flush g2) as [i3 g3] eqn:F. intros H; inversion H; subst.
  rewrite (flush_status _ _ _ F). exact F2.
Qed.

(* ---- no iteration fails to advance ---- *)

Lemma check_whole_pos s e : check_whole s = Some e -> e <> 0%nat.
Proof.
  unfold check_whole. cbv zeta. intros H. break_match H; inversion H; lia.
Qed.
Lemma parse_starttag_pos s k evs u : parse_starttag unesc s = PTo k evs u -> k <> 0%nat.
Proof.
  unfold parse_starttag. destruct (check_whole s) as [e|] eqn:C; [|discriminate].
  apply check_whole_pos in C. intros H. break_match H; inversion H; subst; exact C.
Qed.
Lemma parse_bogus_comment_pos s k evs u : parse_bogus_comment s = PTo k evs u -> k <> 0%nat.
Proof. unfold parse_bogus_comment. intros H. break_match H; inversion H; lia. Qed.
Lemma parse_endtag_pos cd s k evs u : parse_endtag cd s = PTo k evs u -> k <> 0%nat.
Proof.
  unfold parse_endtag. intros H.
  break_match H; try (inversion H; lia); try (apply parse_bogus_comment_pos in H; exact H).
Qed.
Lemma parse_comment_pos s k evs u : parse_comment s = PTo k evs u -> k <> 0%nat.
Proof. unfold parse_comment. intros H. break_match H; inversion H; lia. Qed.
Lemma parse_pi_pos s k evs u : parse_pi s = PTo k evs u -> k <> 0%nat.
Proof. unfold parse_pi. intros H. break_match H; inversion H; lia. Qed.
Lemma parse_marked_section_pos s k evs u : parse_marked_section s = PTo k evs u -> k <> 0%nat.
Proof. unfold parse_marked_section. intros H. break_match H; inversion H; lia. Qed.
Lemma parse_html_declaration_pos s k evs u : parse_html_declaration s = PTo k evs u -> k <> 0%nat.
Proof.
  unfold parse_html_declaration. intros H.
  destruct (has_prefix s_comment_open s); [now apply parse_comment_pos in H|].
  destruct (has_prefix s_marked_open s); [now apply parse_marked_section_pos in H|].
  destruct (str_eqb (ascii_lower (firstn 9 s)) s_doctype_open); [|now apply parse_bogus_comment_pos in H].
  break_match H; inversion H; lia.
Qed.
Lemma of_pres_pos endf cd r p k evs cd' :
  (forall k evs u, p = PTo k evs u -> k <> 0%nat) -> of_pres endf cd r p = ACont k evs cd' -> k <> 0%nat.
Proof.
  intros Hp. unfold of_pres, fallback. destruct p as [| |k0 evs0 u0].
  - destruct endf; [|discriminate]. intros H. break_match H; inversion H; lia.
  - discriminate.
  - intros H. inversion H; subst. eapply Hp. reflexivity.
Qed.

Lemma dispatch_progress endf cd r k evs cd' : dispatch unesc endf cd r = ACont k evs cd' -> k <> 0%nat.
Proof.
  unfold dispatch. destruct r as [|c r1]; [discriminate|].
  destruct (c =? 60).
  - destruct r1 as [|d r2]; [discriminate|].
    destruct (is_alpha d); [apply of_pres_pos; intros; eapply parse_starttag_pos; eassumption|].
    destruct (d =? 47); [apply of_pres_pos; intros; eapply parse_endtag_pos; eassumption|].
    destruct (has_prefix s_comment_open (c :: d :: r2)); [apply of_pres_pos; intros; eapply parse_comment_pos; eassumption|].
    destruct (d =? 63); [apply of_pres_pos; intros; eapply parse_pi_pos; eassumption|].
    destruct (d =? 33); [apply of_pres_pos; intros; eapply parse_html_declaration_pos; eassumption|].
    intros H; inversion H; lia.
  - destruct (c =? 38); [|discriminate].
    destruct r1 as [|d r2]; [discriminate|].
    intros H. break_match H; inversion H; lia.
Qed.

Lemma go_not_stuck fuel : forall endf cd off p s its g,
  go unesc fuel endf cd off p s = (its, g) -> gs_status g <> Stuck.
Proof.
  induction fuel as [|f IH]; intros endf cd off p s its g H.
  - destruct s; cbn in H; inversion H; cbn; discriminate.
  - destruct s as [|c0 s0]; [cbn in H; inversion H; cbn; discriminate|].
    cbn [go] in H. remember (c0 :: s0) as s eqn:Es.
    destruct (find_interesting cd s) as [[txt r]|] eqn:FI; [|inversion H; cbn; discriminate].
    destruct r as [|c1 r1]; [inversion H; cbn; discriminate|].
    remember (c1 :: r1) as r eqn:Er.
    destruct (dispatch unesc endf cd r) as [k evs cd'|k evs|] eqn:D; try (inversion H; cbn; discriminate).
    destruct k as [|k']; [apply dispatch_progress in D; congruence|].
    destruct (go unesc f endf cd' (off + length txt + length (firstn (S k') r))%nat
                 (updatepos (updatepos p txt) (firstn (S k') r)) (skipn (S k') r)) as [its' g'] eqn:G.
    inversion H; subst its g. eapply IH. exact G.
Qed.

Theorem tokenize_not_stuck text its g : tokenize unesc text = (its, g) -> gs_status g <> Stuck.
Proof.
  unfold tokenize. destruct (go unesc (S (length text)) false None 0 start_pos text) as [i1 g1] eqn:G1.
  pose proof (go_not_stuck _ _ _ _ _ _ _ _ G1) as F1.
  destruct (gs_status g1) eqn:S1; try (intros H; inversion H; subst; rewrite S1; discriminate); try congruence.
  destruct (go unesc (S (length (gs_rest g1))) true (gs_cd g1) (gs_off g1) (gs_pos g1) (gs_rest g1)) as [i2 g2] eqn:G2.
  pose proof (go_not_stuck _ _ _ _ _ _ _ _ G2) as F2.
  destruct (flush g2) as [i3 g3] eqn:F. intros H; inversion H; subst.
  rewrite (flush_status _ _ _ F). exact F2.
Qed.

(* the tokenizer always ends in one of the two states the Python code can end in *)
Theorem tokenize_total text its g : tokenize unesc text = (its, g) ->
  gs_status g = Running \/ gs_status g = Rejected.
Proof.
  intros H. pose proof (tokenize_fuel _ _ _ H). pose proof (tokenize_not_stuck _ _ _ H).
  destruct (gs_status g); auto; congruence.
Qed.

(* ------------------------------------------------------------------ 4. start tags *)
(* r begins with '<' and a letter, and n is the lower-cased maximal run of name characters after the '<' *)
Definition start_at (r n : str) : Prop :=
  exists d r', r = 60 :: d :: r' /\ is_alpha d = true /\ n = ascii_lower (fst (span name_char (d :: r'))).
Definition no_starts (evs : list tev) : Prop := forall e, In e evs -> ev_start_name e = None.

Lemma no_starts_nil : no_starts [].
Proof. intros e []. Qed.
Lemma no_starts_one e : ev_start_name e = None -> no_starts [e].
Proof. intros H x [<-|[]]. exact H. Qed.
#[local] Hint Resolve no_starts_nil : tok.

Lemma parse_starttag_starts s k evs u e n :
  parse_starttag unesc s = PTo k evs u -> In e evs -> ev_start_name e = Some n ->
  n = ascii_lower (fst (span name_char (tl s))).
Proof.
  unfold parse_starttag. intros H. break_match H; inversion H; subst; intros [<-|[]]; cbn; intros E; inversion E; reflexivity.
Qed.
Lemma parse_bogus_comment_nostart s k evs u : parse_bogus_comment s = PTo k evs u -> no_starts evs.
Proof. unfold parse_bogus_comment. intros H. break_match H; inversion H; subst. now apply no_starts_one. Qed.
Lemma parse_endtag_nostart cd s k evs u : parse_endtag cd s = PTo k evs u -> no_starts evs.
Proof.
  unfold parse_endtag. intros H.
  break_match H; try (inversion H; subst; (now apply no_starts_one) || apply no_starts_nil);
    try (apply parse_bogus_comment_nostart in H; exact H).
Qed.
Lemma parse_comment_nostart s k evs u : parse_comment s = PTo k evs u -> no_starts evs.
Proof. unfold parse_comment. intros H. break_match H; inversion H; subst. now apply no_starts_one. Qed.
Lemma parse_pi_nostart s k evs u : parse_pi s = PTo k evs u -> no_starts evs.
Proof. unfold parse_pi. intros H. break_match H; inversion H; subst. now apply no_starts_one. Qed.
Lemma parse_marked_section_nostart s k evs u : parse_marked_section s = PTo k evs u -> no_starts evs.
Proof. unfold parse_marked_section. intros H. break_match H; inversion H; subst. now apply no_starts_one. Qed.
Lemma parse_html_declaration_nostart s k evs u : parse_html_declaration s = PTo k evs u -> no_starts evs.
Proof.
  unfold parse_html_declaration. intros H.
  destruct (has_prefix s_comment_open s); [now apply parse_comment_nostart in H|].
  destruct (has_prefix s_marked_open s); [now apply parse_marked_section_nostart in H|].
  destruct (str_eqb (ascii_lower (firstn 9 s)) s_doctype_open); [|now apply parse_bogus_comment_nostart in H].
  break_match H; inversion H; subst. now apply no_starts_one.
Qed.
Lemma of_pres_nostart endf cd r p k evs cd' :
  (forall k evs u, p = PTo k evs u -> no_starts evs) -> of_pres endf cd r p = ACont k evs cd' -> no_starts evs.
Proof.
  intros Hp. unfold of_pres, fallback. destruct p as [| |k0 evs0 u0].
  - destruct endf; [|discriminate]. intros H. inversion H; subst. now apply no_starts_one.
  - discriminate.
  - intros H. inversion H; subst. eapply Hp. reflexivity.
Qed.
Lemma of_pres_stop endf cd r p k evs : of_pres endf cd r p = AStop k evs -> evs = [].
Proof.
  unfold of_pres, fallback. destruct p; [destruct endf| |]; intros H; inversion H; reflexivity.
Qed.

(* callbacks of one loop iteration: a start tag only when the rest begins with '<' letter, named after it *)
Lemma dispatch_starts endf cd r k evs cd' e n :
  dispatch unesc endf cd r = ACont k evs cd' -> In e evs -> ev_start_name e = Some n -> start_at r n.
Proof.
  unfold dispatch. destruct r as [|c r1]; [discriminate|].
  destruct (c =? 60) eqn:C.
  - apply N.eqb_eq in C. subst c. destruct r1 as [|d r2]; [discriminate|].
    destruct (is_alpha d) eqn:A.
    + unfold of_pres, fallback. destruct (parse_starttag unesc (60 :: d :: r2)) as [| |k0 evs0 u0] eqn:P.
      * destruct endf; [|discriminate]. intros H; inversion H; subst. intros [<-|[]]; discriminate.
      * discriminate.
      * intros H; inversion H; subst. intros Hin Hn.
        exists d, r2. repeat split; auto. eapply parse_starttag_starts in P; eauto.
    + intros H Hin Hn. exfalso.
      assert (no_starts evs) as NS.
      { destruct (d =? 47); [eapply of_pres_nostart; [|exact H]; intros; eapply parse_endtag_nostart; eassumption|].
        destruct (has_prefix s_comment_open (60 :: d :: r2));
          [eapply of_pres_nostart; [|exact H]; intros; eapply parse_comment_nostart; eassumption|].
        destruct (d =? 63); [eapply of_pres_nostart; [|exact H]; intros; eapply parse_pi_nostart; eassumption|].
        destruct (d =? 33); [eapply of_pres_nostart; [|exact H]; intros; eapply parse_html_declaration_nostart; eassumption|].
        inversion H; subst. now apply no_starts_one. }
      rewrite (NS _ Hin) in Hn. discriminate.
  - destruct (c =? 38); [|discriminate].
    destruct r1 as [|d r2]; [discriminate|].
    intros H Hin Hn. exfalso. assert (no_starts evs) as NS.
    { break_match H; inversion H; subst; now apply no_starts_one. }
    rewrite (NS _ Hin) in Hn. discriminate.
Qed.
Lemma dispatch_stop_nostart endf cd r k evs : dispatch unesc endf cd r = AStop k evs -> no_starts evs.
Proof.
  unfold dispatch. intros H.
  destruct r as [|c r1]; [inversion H; apply no_starts_nil|].
  destruct (c =? 60).
  - destruct r1 as [|d r2]; [inversion H; apply no_starts_nil|].
    break_match H; try (apply of_pres_stop in H; subst; apply no_starts_nil); discriminate.
  - destruct (c =? 38); [|discriminate].
    destruct r1 as [|d r2]; [inversion H; apply no_starts_nil|].
    break_match H; inversion H; subst; (now apply no_starts_one) || apply no_starts_nil.
Qed.

Definition item_starts_ok (text : str) (it : item) : Prop :=
  forall e n, In e (it_evs it) -> ev_start_name e = Some n -> start_at (skipn (it_off it) text) n.

Lemma Forall_item_of (P : item -> Prop) off p sp evs :
  P (mkitem off p sp evs) -> Forall P (item_of off p sp evs).
Proof. intros H. destruct sp; cbn; [constructor|]. constructor; [exact H|constructor]. Qed.

Lemma data_item_ok text off p sp d : item_starts_ok text (mkitem off p sp [TData d]).
Proof. intros e n [<-|[]] H; discriminate. Qed.

Lemma skipn_pre (pre s : str) : skipn (length pre) (pre ++ s) = s.
Proof. rewrite skipn_app, Nat.sub_diag, skipn_all. reflexivity. Qed.

Lemma go_starts text fuel : forall endf cd off p s its g pre,
  text = pre ++ s -> length pre = off ->
  go unesc fuel endf cd off p s = (its, g) -> Forall (item_starts_ok text) its.
Proof.
  induction fuel as [|f IH]; intros endf cd off p s its g pre Ht Hl H.
  - destruct s; cbn in H; inversion H; constructor.
  - destruct s as [|c0 s0]; [cbn in H; inversion H; constructor|].
    cbn [go] in H. remember (c0 :: s0) as s eqn:Es.
    destruct (find_interesting cd s) as [[txt r]|] eqn:FI; [|inversion H; constructor].
    apply find_interesting_split in FI.
    assert (Forall (item_starts_ok text) (item_of off p txt [TData txt])) as T1
      by (apply Forall_item_of, data_item_ok).
    destruct r as [|c1 r1]; [inversion H; subst; exact T1|].
    remember (c1 :: r1) as r eqn:Er.
    assert (skipn (off + length txt) text = r) as SK.
    { rewrite Ht, FI, app_assoc, <- Hl, <- app_length. apply skipn_pre. }
    destruct (dispatch unesc endf cd r) as [k evs cd'|k evs|] eqn:D.
    + destruct k as [|k']; [inversion H; subst; exact T1|].
      destruct (go unesc f endf cd' (off + length txt + length (firstn (S k') r))%nat
                   (updatepos (updatepos p txt) (firstn (S k') r)) (skipn (S k') r)) as [its' g'] eqn:G.
      inversion H; subst its g. apply Forall_app. split; [exact T1|]. apply Forall_app. split.
      * apply Forall_item_of. intros e n Hin Hn. cbn [it_off it_evs] in *. rewrite SK.
        eapply dispatch_starts; eassumption.
      * eapply (IH _ _ _ _ _ _ _ (pre ++ txt ++ firstn (S k') r)); [| |exact G].
        -- rewrite Ht, FI. rewrite <- !app_assoc. f_equal. f_equal. symmetry. apply firstn_skipn.
        -- rewrite !app_length. lia.
    + inversion H; subst its g. apply Forall_app. split; [exact T1|].
      apply Forall_item_of. intros e n Hin Hn. cbn [it_evs] in Hin.
      apply dispatch_stop_nostart in D. rewrite (D _ Hin) in Hn. discriminate.
    + inversion H; subst. exact T1.
Qed.

Theorem tokenize_starts text its g : tokenize unesc text = (its, g) -> Forall (item_starts_ok text) its.
Proof.
  unfold tokenize. destruct (go unesc (S (length text)) false None 0 start_pos text) as [i1 g1] eqn:G1.
  pose proof (go_starts text _ _ _ _ _ _ _ _ [] eq_refl eq_refl G1) as S1.
  pose proof (go_covers _ _ _ _ _ _ _ _ G1) as (C1 & _ & _ & C4 & _).
  destruct (gs_status g1); try (intros H; inversion H; subst; exact S1).
  destruct (go unesc (S (length (gs_rest g1))) true (gs_cd g1) (gs_off g1) (gs_pos g1) (gs_rest g1)) as [i2 g2] eqn:G2.
  pose proof (go_starts text _ _ _ _ _ _ _ _ (concat (spans i1)) (eq_sym C1) (eq_sym C4) G2) as S2.
  destruct (flush g2) as [i3 g3] eqn:F. intros H; inversion H; subst.
  apply Forall_app. split; [exact S1|]. apply Forall_app. split; [exact S2|].
  unfold flush in F. break_match F; inversion F; subst; try constructor; [apply data_item_ok|constructor].
Qed.

(* what [start_at] says about the text: '<', then the name's characters (a letter first), then a character
   that cannot be part of a name, or the end *)
Lemma start_at_text r n : start_at r n ->
  exists nm rest, r = 60 :: nm ++ rest /\ n = ascii_lower nm /\ forallb name_char nm = true /\
                  (exists d nm', nm = d :: nm' /\ is_alpha d = true) /\
                  match rest with [] => True | c :: _ => name_char c = false end.
Proof.
  intros (d & r' & -> & A & ->). destruct (span name_char (d :: r')) as [nm rest] eqn:E.
  exists nm, rest. cbn [fst]. repeat split.
  - f_equal. now apply span_split in E.
  - now apply span_all in E.
  - cbn in E. assert (name_char d = true) as ND.
    { unfold is_alpha, is_upper, is_lower in A. unfold name_char, memN. cbn [existsb].
      destruct (N.eqb_spec d 9), (N.eqb_spec d 10), (N.eqb_spec d 13), (N.eqb_spec d 12), (N.eqb_spec d 32),
        (N.eqb_spec d 47), (N.eqb_spec d 62), (N.eqb_spec d 0); subst; try discriminate A; reflexivity. }
    rewrite ND in E. destruct (span name_char r') as [a b]. inversion E; subst. exists d, a. auto.
  - now apply span_stop in E.
Qed.
End Unesc.
