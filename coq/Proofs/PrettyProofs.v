(* C14 — properties of the pretty-printed rendering (Spec/RenderSpec.v [pretty]), which
   Proofs/RenderProofs.v shows to be what decode(indent_level) computes. *)
From Coq Require Import List NArith ZArith Bool Arith Lia.
From BS Require Import Base.Sexp Base.Types Gen.Tables Gen.Stdlib Gen.T_C05 Model.Attrs Model.Render
     Spec.RenderSpec Proofs.RenderProofs.
Import ListNotations.
Local Arguments is_ws : simpl never.

(* ---------------------------------------------------------------- whitespace *)

Lemma nows_app a b : nows (a ++ b) = nows a ++ nows b.
Proof. apply filter_app. Qed.
Lemma nows_rev s : nows (rev s) = rev (nows s).
Proof.
  induction s as [|c s IH]; [reflexivity|]. cbn [rev]. rewrite nows_app, IH. unfold nows. cbn [filter].
  destruct (is_ws c); cbn [negb rev app]; [now rewrite app_nil_r|reflexivity].
Qed.
Lemma nows_all_ws s : all_ws s = true -> nows s = [].
Proof.
  induction s as [|c s IH]; [reflexivity|]. cbn. intros H. apply andb_prop in H as [H1 H2]. rewrite H1. cbn. auto.
Qed.
Lemma nows_drop_ws s : nows (drop_ws s) = nows s.
Proof. induction s as [|c s IH]; [reflexivity|]. cbn. destruct (is_ws c) eqn:E; cbn; [exact IH|now rewrite E]. Qed.
Lemma nows_strip s : nows (strip s) = nows s.
Proof. unfold strip. now rewrite nows_rev, nows_drop_ws, nows_rev, rev_involutive, nows_drop_ws. Qed.
Lemma nows_concat l : nows (concat l) = concat (map nows l).
Proof. induction l as [|x l IH]; [reflexivity|]. cbn. now rewrite nows_app, IH. Qed.
Lemma all_ws_repeat s n : all_ws s = true -> all_ws (repeat_str s n) = true.
Proof. intros H. induction n as [|n IH]; [reflexivity|]. cbn. unfold all_ws in *. now rewrite forallb_app, H, IH. Qed.
Lemma nl_is_ws : is_ws nl_ = true.
Proof. reflexivity. Qed.

Lemma nows_indent_string f s lv b a : all_ws (f_indent f) = true ->
  nows (indent_string f s lv b a) = nows s.
Proof.
  intros H. unfold indent_string. rewrite !nows_app.
  assert (E1 : nows (if b && negb (lv =? 0)%Z then repeat_str (f_indent f) (Z.to_nat lv) else []) = []).
  { destruct (b && negb (lv =? 0)%Z); [|reflexivity]. apply nows_all_ws. now apply all_ws_repeat. }
  assert (E2 : nows (if a then [nl_] else []) = []) by now destruct a.
  rewrite E1. cbn [app]. clear E2. destruct a; [change (nows [nl_]) with (@nil N)|change (nows []) with (@nil N)]; apply app_nil_r.
Qed.
Lemma nows_deco f is_str piece lv b a : all_ws (f_indent f) = true ->
  nows (deco f is_str piece lv b a) = nows piece.
Proof.
  intros H. unfold deco. cbn zeta.
  assert (E : nows (if is_str then strip piece else piece) = nows piece) by (destruct is_str; [apply nows_strip|reflexivity]).
  destruct (if is_str then strip piece else piece) as [|c pc] eqn:Epc.
  - now rewrite <- E.
  - rewrite nows_indent_string by assumption. exact E.
Qed.

(* prettify changes whitespace only: dropping every whitespace character from the pretty-printed and
   from the plain rendering gives the same text *)
Theorem pretty_only_ws enc f : all_ws (f_indent f) = true ->
  forall t lv pn, nows (concat (pretty enc f lv pn t)) = nows (concat (plain enc f pn t)).
Proof.
  intros Hind. induction t as [c s|p ks IH] using node_ind'; intros lv pn.
  - cbn [pretty plain concat]. rewrite !app_nil_r. now apply nows_deco.
  - rewrite pretty_tag, plain_tag. cbn zeta. destruct (is_empty_element p (length ks)).
    + cbn [concat]. rewrite !app_nil_r. now apply nows_deco.
    + destruct (should_pretty_print p).
      * cbn [concat]. rewrite !concat_app. cbn [concat]. rewrite !app_nil_r, !nows_app, !nows_deco by assumption.
        f_equal. f_equal.
        assert (Hk : forall lv', nows (concat (pretty_kids enc f lv' (g_name p) ks)) =
                                nows (concat (plain_kids enc f (g_name p) ks))).
        { induction ks as [|k ks IHk]; intros lv'; [reflexivity|]. inversion IH; subst.
          cbn [pretty_kids plain_kids]. rewrite !concat_app, !nows_app. f_equal; auto. }
        apply Hk.
      * cbn [concat]. rewrite !concat_app. cbn [concat]. rewrite !app_nil_r, !nows_app, !nows_deco by assumption.
        reflexivity.
Qed.
Lemma pretty_kids_only_ws enc f : all_ws (f_indent f) = true ->
  forall ks lv pn, nows (concat (pretty_kids enc f lv pn ks)) = nows (concat (plain_kids enc f pn ks)).
Proof.
  intros Hind. induction ks as [|k ks IH]; intros lv pn; [reflexivity|].
  cbn [pretty_kids plain_kids]. rewrite !concat_app, !nows_app. f_equal; [now apply pretty_only_ws|apply IH].
Qed.
Theorem prettify_only_ws enc f t : all_ws (f_indent f) = true ->
  nows (prettify enc f t) = nows (decode enc f None t).
Proof.
  intros H. unfold prettify. rewrite !decode_spec. unfold render_spec.
  destruct t as [p ks|c s]; [|reflexivity]. destruct (g_hidden p); cbn [render_kids render_node].
  - now apply pretty_kids_only_ws.
  - now apply pretty_only_ws.
Qed.

(* piece by piece: the pretty rendering has the pieces of the plain one, each either untouched or
   stripped (strings only) and given indentation / a newline *)
Definition decorates (f : fmt) (pp pl : str) : Prop :=
  pp = pl \/ exists is_str lv b a, pp = deco f is_str pl lv b a.
Theorem pretty_pieces enc f : forall t lv pn,
  Forall2 (decorates f) (pretty enc f lv pn t) (plain enc f pn t).
Proof.
  assert (Hrefl : forall l, Forall2 (decorates f) l l).
  { induction l; constructor; [now left|assumption]. }
  induction t as [c s|p ks IH] using node_ind'; intros lv pn.
  - constructor; [|constructor]. right. now exists true, lv, true, true.
  - rewrite pretty_tag, plain_tag. cbn zeta. destruct (is_empty_element p (length ks)).
    + constructor; [|constructor]. right. now exists false, lv, true, true.
    + destruct (should_pretty_print p).
      * constructor; [right; now exists false, lv, true, true|]. apply Forall2_app.
        -- generalize (lv + 1)%Z. induction ks as [|k ks IHk]; intros lv'; [constructor|]. inversion IH; subst.
           cbn [pretty_kids plain_kids]. apply Forall2_app; auto.
        -- constructor; [|constructor]. right. now exists false, lv, true, true.
      * constructor; [right; now exists false, lv, true, false|]. apply Forall2_app; [apply Hrefl|].
        constructor; [|constructor]. right. now exists false, lv, false, true.
Qed.

(* ---------------------------------------------------------------- line structure *)
Lemma indent_string_line f s lv :
  indent_string f s lv true true = line f (mkitem lv false s).
Proof.
  unfold indent_string, line. cbn [it_depth it_text andb]. f_equal.
  destruct (lv =? 0)%Z eqn:E; cbn [negb]; [|reflexivity]. apply Z.eqb_eq in E. now subst.
Qed.
Lemma deco_line f is_str piece lv :
  deco f is_str piece lv true true =
  concat (map (line f) (simple_items lv (if is_str then strip piece else piece))).
Proof.
  unfold deco, simple_items. cbn zeta. destruct (if is_str then strip piece else piece) as [|c pc]; [reflexivity|].
  cbn [nonblank map concat]. now rewrite app_nil_r, indent_string_line.
Qed.

Lemma format_tag_nonempty enc f p n o : g_hidden p = false -> format_tag enc f p n o <> [].
Proof. intros H. unfold format_tag. rewrite H. discriminate. Qed.

Lemma concat_map_app {X} (g : X -> str) a b : concat (map g (a ++ b)) = concat (map g a) ++ concat (map g b).
Proof. now rewrite map_app, concat_app. Qed.

(* the pretty-printed rendering is its items, one per line: indent * depth, text, newline *)
Theorem pretty_lines enc f : forall t lv pn, no_hidden t = true ->
  concat (pretty enc f lv pn t) = concat (map (line f) (items enc f lv pn t)).
Proof.
  induction t as [c s|p ks IH] using node_ind'; intros lv pn Hh.
  - cbn [pretty items concat]. now rewrite app_nil_r, (deco_line f true).
  - cbn [no_hidden] in Hh. apply andb_prop in Hh as [Hp Hks]. apply negb_true_iff in Hp.
    rewrite pretty_tag, items_tag. cbn zeta. destruct (is_empty_element p (length ks)) eqn:Eemp.
    + cbn [concat]. now rewrite app_nil_r, (deco_line f false).
    + destruct (should_pretty_print p).
      * cbn [concat]. rewrite concat_app. cbn [concat]. rewrite app_nil_r, !(deco_line f false).
        rewrite !concat_map_app. f_equal. f_equal.
        assert (Hk : forall lv', concat (pretty_kids enc f lv' (g_name p) ks) =
                                concat (map (line f) (items_kids enc f lv' (g_name p) ks))).
        { clear Eemp. revert IH Hks. induction ks as [|k ks IHk]; intros IH Hks lv'; [reflexivity|].
          inversion IH; subst. cbn [forallb] in Hks. apply andb_prop in Hks as [Hk1 Hk2].
          cbn [pretty_kids items_kids]. rewrite concat_app, concat_map_app. f_equal; auto. }
        apply Hk.
      * cbn [concat map]. rewrite concat_app. cbn [concat]. rewrite !app_nil_r.
        unfold deco. cbn zeta.
        pose proof (format_tag_nonempty enc f p (length ks) true Hp) as H1.
        pose proof (format_tag_nonempty enc f p (length ks) false Hp) as H2.
        destruct (format_tag enc f p (length ks) true) as [|c1 o1] eqn:E1; [contradiction|].
        destruct (format_tag enc f p (length ks) false) as [|c2 o2] eqn:E2; [contradiction|].
        unfold line. cbn [it_depth it_text]. rewrite plain_tag. cbn zeta. rewrite Eemp, E1, E2.
        cbn [concat]. rewrite concat_app. cbn [concat]. rewrite app_nil_r.
        unfold indent_string. cbn [andb].
        replace (if negb (lv =? 0)%Z then repeat_str (f_indent f) (Z.to_nat lv) else [])
          with (repeat_str (f_indent f) (Z.to_nat lv))
          by (destruct (lv =? 0)%Z eqn:E; cbn [negb]; [apply Z.eqb_eq in E; now subst|reflexivity]).
        cbn [app]. rewrite ?app_nil_r, <- ?app_assoc. cbn [app]. rewrite <- ?app_assoc. reflexivity.
Qed.
Lemma pretty_kids_lines enc f : forall ks lv pn, forallb no_hidden ks = true ->
  concat (pretty_kids enc f lv pn ks) = concat (map (line f) (items_kids enc f lv pn ks)).
Proof.
  induction ks as [|k ks IH]; intros lv pn Hh; [reflexivity|].
  cbn [forallb] in Hh. apply andb_prop in Hh as [H1 H2].
  cbn [pretty_kids items_kids]. rewrite concat_app, concat_map_app. f_equal; [now apply pretty_lines|now apply IH].
Qed.

(* prettify(): the output is the items of the tree, each on its own line *)
Theorem prettify_lines enc f t : no_hidden_below t = true ->
  prettify enc f t = concat (map (line f) (items_spec enc f t)).
Proof.
  intros Hh. unfold prettify. rewrite decode_spec. unfold render_spec, items_spec.
  destruct t as [p ks|c s]; [|reflexivity]. cbn [no_hidden_below] in Hh.
  destruct (g_hidden p) eqn:Ehid; cbn [render_kids render_node].
  - now apply pretty_kids_lines.
  - apply pretty_lines. cbn [no_hidden]. now rewrite Ehid, Hh.
Qed.

(* ... hence it is empty or ends with a newline *)
Definition ends_with_nl (s : str) : Prop := s = [] \/ exists s', s = s' ++ [nl_].
Lemma lines_end_nl f its : ends_with_nl (concat (map (line f) its)).
Proof.
  induction its as [|it its IH]; [now left|]. right. cbn [map concat].
  destruct IH as [E|[s' E]]; rewrite E.
  - rewrite app_nil_r. unfold line. eexists. rewrite app_assoc. reflexivity.
  - eexists. rewrite app_assoc. reflexivity.
Qed.
Theorem prettify_ends_with_newline enc f t : no_hidden_below t = true -> ends_with_nl (prettify enc f t).
Proof. intros H. rewrite prettify_lines by assumption. apply lines_end_nl. Qed.

(* the block items are exactly the plain renderings of the outermost whitespace-preserving
   elements: what is inside them is reproduced character for character *)
Definition block_texts (its : list item) : list str := map it_text (filter it_block its).
Lemma block_texts_app a b : block_texts (a ++ b) = block_texts a ++ block_texts b.
Proof. unfold block_texts. now rewrite filter_app, map_app. Qed.
Lemma block_texts_simple lv s : block_texts (simple_items lv s) = [].
Proof. unfold simple_items, nonblank. now destruct s. Qed.
Theorem pw_verbatim enc f : forall t lv pn,
  block_texts (items enc f lv pn t) = pw_blocks enc f pn t.
Proof.
  induction t as [c s|p ks IH] using node_ind'; intros lv pn.
  - cbn [items pw_blocks]. apply block_texts_simple.
  - rewrite items_tag, pw_blocks_tag. cbn zeta. destruct (is_empty_element p (length ks)); [apply block_texts_simple|].
    destruct (should_pretty_print p); [|reflexivity].
    rewrite !block_texts_app, !block_texts_simple. cbn [app]. rewrite app_nil_r.
    generalize (lv + 1)%Z. induction ks as [|k ks IHk]; intros lv'; [reflexivity|]. inversion IH; subst.
    cbn [items_kids pw_blocks_kids]. rewrite block_texts_app. f_equal; auto.
Qed.
Lemma pw_verbatim_kids enc f : forall ks lv pn,
  block_texts (items_kids enc f lv pn ks) = pw_blocks_kids enc f pn ks.
Proof.
  induction ks as [|k ks IH]; intros lv pn; [reflexivity|].
  cbn [items_kids pw_blocks_kids]. rewrite block_texts_app. f_equal; [apply pw_verbatim|apply IH].
Qed.

(* every non-block item of a tree rendered from level lv sits at depth >= lv; more precisely a
   node's items sit at lv + (number of its proper ancestors below the starting element) — by the
   definition of [items]. What follows pins the two ends: the starting element at lv, its children one deeper. *)
Lemma items_depth_ge enc f : forall t lv pn, Forall (fun it => (lv <= it_depth it)%Z) (items enc f lv pn t).
Proof.
  assert (Hs : forall lv lv' s, (lv <= lv')%Z -> Forall (fun it => (lv <= it_depth it)%Z) (simple_items lv' s)).
  { intros lv lv' s H. unfold simple_items, nonblank. destruct s; repeat constructor; exact H. }
  induction t as [c s|p ks IH] using node_ind'; intros lv pn.
  - cbn [items]. apply Hs; lia.
  - rewrite items_tag. cbn zeta. destruct (is_empty_element p (length ks)); [apply Hs; lia|].
    destruct (should_pretty_print p); [|repeat constructor; cbn; lia].
    apply Forall_app. split; [apply Hs; lia|]. apply Forall_app. split; [|apply Hs; lia].
    induction ks as [|k ks IHk]; [constructor|]. inversion IH; subst. cbn [items_kids]. apply Forall_app. split; [|auto].
    eapply Forall_impl; [|apply H1]. cbn. intros; lia.
Qed.

(* ---------------------------------------------------------------- Formatter.indent *)
Lemma repeat_sp_all_ws n : all_ws (repeat_str [sp_] n) = true.
Proof. apply all_ws_repeat. reflexivity. Qed.
Theorem formatter_indent_whitespace a :
  match a with IndStr s => True | _ => all_ws (formatter_indent a) = true end.
Proof. destruct a; cbn [formatter_indent]; try exact I; try apply repeat_sp_all_ws; reflexivity. Qed.
Theorem formatter_indent_int z : formatter_indent (IndInt z) = repeat_str [sp_] (Z.to_nat z).
Proof.
  cbn [formatter_indent]. destruct (z <? 0)%Z eqn:E; [|reflexivity].
  apply Z.ltb_lt in E. destruct z; try lia. reflexivity.
Qed.

Theorem prettify_pw_verbatim enc f t : block_texts (items_spec enc f t) = pw_blocks_spec enc f t.
Proof.
  unfold items_spec, pw_blocks_spec. destruct t as [p ks|c s]; [|reflexivity].
  destruct (g_hidden p); [apply pw_verbatim_kids|apply pw_verbatim].
Qed.
Theorem prettify_items_depth enc f t : Forall (fun it => (0 <= it_depth it)%Z) (items_spec enc f t).
Proof.
  unfold items_spec. destruct t as [p ks|c s]; [|constructor]. destruct (g_hidden p); [|apply items_depth_ge].
  generalize (g_name p). induction ks as [|k ks IH]; intros pn; [constructor|]. cbn [items_kids].
  apply Forall_app. split; [apply items_depth_ge|apply IH].
Qed.
