(* C09 — proofs about Model/EntitySubst.v (see Props/C09.v for the property theorems). *)
From Coq Require Import List NArith Bool Arith Lia Permutation.
From BS Require Import Base.Sexp Base.Types Base.Reader Gen.Entities Gen.T_C09
     Model.SmartQuotes Model.EntitySubst Model.EntitySubstFast Spec.EntitiesSpec Proofs.EntitiesTables.
Import ListNotations.
Open Scope N_scope.

(* ================================================================================================ *)
(* 1. small facts about lists and character classes                                                 *)
(* ================================================================================================ *)

Lemma memN_In x l : memN x l = true <-> In x l.
Proof.
  unfold memN. rewrite existsb_exists. split.
  - intros [y [Hy He]]. apply N.eqb_eq in He. now subst.
  - intros H. exists x. split; [assumption | apply N.eqb_refl].
Qed.

Lemma memN_false x l : memN x l = false <-> ~ In x l.
Proof.
  rewrite <- memN_In. destruct (memN x l); split; congruence.
Qed.

Lemma span_spec p s : forall a b, span p s = (a, b) -> s = a ++ b /\ forallb p a = true.
Proof.
  induction s as [|c s IH]; intros a b H; cbn in H.
  - inversion H; subst. auto.
  - destruct (p c) eqn:E.
    + destruct (span p s) as [a' b'] eqn:E2. inversion H; subst.
      destruct (IH a' b eq_refl) as [-> Hf]. cbn. rewrite E. auto.
    + inversion H; subst. auto.
Qed.

Lemma span_stop p a c r : forallb p a = true -> p c = false -> span p (a ++ c :: r) = (a, c :: r).
Proof.
  induction a as [|x a IH]; intros Ha Hc; cbn.
  - now rewrite Hc.
  - cbn in Ha. apply andb_prop in Ha as [Hx Ha]. rewrite Hx, (IH Ha Hc). reflexivity.
Qed.

Lemma span_all p a : forallb p a = true -> span p a = (a, []).
Proof.
  induction a as [|x a IH]; intros Ha; cbn; [reflexivity|].
  cbn in Ha. apply andb_prop in Ha as [Hx Ha]. now rewrite Hx, (IH Ha).
Qed.

Lemma prefix_rest_spec p : forall s r, prefix_rest p s = Some r -> s = p ++ r.
Proof.
  induction p as [|a p IH]; intros s r H; cbn in H.
  - inversion H. reflexivity.
  - destruct s as [|b s]; [discriminate|]. destruct (a =? b) eqn:E; [|discriminate].
    apply N.eqb_eq in E. subst b. cbn. f_equal. now apply IH.
Qed.

Lemma prefix_rest_app p r : prefix_rest p (p ++ r) = Some r.
Proof. induction p as [|a p IH]; cbn; [reflexivity|]. now rewrite N.eqb_refl. Qed.

Lemma alnum_namechar c : is_alnum c = true -> is_namechar c = true.
Proof. unfold is_namechar. intros ->. reflexivity. Qed.

Lemma alpha_alnum c : is_alpha c = true -> is_alnum c = true.
Proof. unfold is_alnum. intros ->. reflexivity. Qed.

Lemma digit_namechar c : is_digit c = true -> is_namechar c = true.
Proof. unfold is_namechar, is_alnum. intros ->. now rewrite orb_true_r. Qed.

(* ASCII classes are decided by bounds: turn a class test into linear arithmetic *)
Ltac classes :=
  unfold is_namechar, is_alnum, is_alpha, is_upper, is_lower, is_digit, is_hexd,
         c_amp, c_lt, c_gt, c_semi, c_hash, c_dq, c_sq, c_x, c_X in *.

Ltac bools :=
  repeat match goal with
  | H : _ && _ = true |- _ => apply andb_prop in H as [? ?]
  | H : _ || _ = true |- _ => apply orb_prop in H as [?|?]
  | H : _ || _ = false |- _ => apply orb_false_elim in H as [? ?]
  | H : negb _ = true |- _ => apply negb_true_iff in H
  | H : negb _ = false |- _ => apply negb_false_iff in H
  | H : (_ <=? _) = true |- _ => apply N.leb_le in H
  | H : (_ <=? _) = false |- _ => apply N.leb_gt in H
  | H : (_ <? _) = true |- _ => apply N.ltb_lt in H
  | H : (_ <? _) = false |- _ => apply N.ltb_ge in H
  | H : (_ =? _) = true |- _ => apply N.eqb_eq in H
  | H : (_ =? _) = false |- _ => apply N.eqb_neq in H
  end.

Lemma leb_and lo hi c : lo <= c <= hi -> (lo <=? c) && (c <=? hi) = true.
Proof. intros [H1 H2]. apply andb_true_intro. split; now apply N.leb_le. Qed.

Lemma hexd_namechar c : is_hexd c = true -> is_namechar c = true.
Proof.
  intros H. unfold is_hexd in H. apply orb_prop in H as [H|H]; [apply orb_prop in H as [H|H]|].
  - now apply digit_namechar.
  - apply alnum_namechar, alpha_alnum. unfold is_alpha, is_upper.
    apply andb_prop in H as [H1 H2]. apply N.leb_le in H1, H2. rewrite (leb_and 65 90 c); [reflexivity|lia].
  - apply alnum_namechar, alpha_alnum. unfold is_alpha, is_lower.
    apply andb_prop in H as [H1 H2]. apply N.leb_le in H1, H2. rewrite (leb_and 97 122 c); [apply orb_true_r|lia].
Qed.

Lemma namechar_not_special c :
  is_namechar c = true -> c <> c_amp /\ c <> c_semi /\ c <> c_hash /\ c <> c_lt /\ c <> c_gt /\ c <> c_dq /\ c <> c_sq.
Proof. classes. intros H. bools; repeat split; lia. Qed.

Lemma alpha_not_hash c : is_alpha c = true -> (c =? c_hash) = false.
Proof. classes. intros H. apply N.eqb_neq. bools; lia. Qed.

(* ================================================================================================ *)
(* 2. the text reader (Base.Reader) on pieces of escaped text                                       *)
(* ================================================================================================ *)
Section ReaderFacts.
  Variable ent : str -> option str.
  Variable num : N -> str.
  Notation rd := (read_from ent num).

  Lemma rd_plain c r : c <> c_amp -> rd Idle (c :: r) = c :: rd Idle r.
  Proof.
    intros H. cbn. unfold idle_step. apply N.eqb_neq in H. rewrite H. reflexivity.
  Qed.

  Lemma rd_plain_run w r : ~ In c_amp w -> rd Idle (w ++ r) = w ++ rd Idle r.
  Proof.
    induction w as [|c w IH]; intros H; [reflexivity|].
    cbn [app]. rewrite rd_plain; [|intros ->; apply H; now left].
    f_equal. apply IH. intros Hi. apply H. now right.
  Qed.

  Lemma rd_amp r : rd Idle (c_amp :: r) = rd Amp r.
  Proof. reflexivity. Qed.

  Lemma rd_named_run w : forall acc r,
    forallb is_namechar w = true ->
    rd (Named acc) (w ++ c_semi :: r) = resolve_named ent (rev w ++ acc) ++ rd Idle r.
  Proof.
    induction w as [|c w IH]; intros acc r Hw.
    - cbn. reflexivity.
    - cbn in Hw. apply andb_prop in Hw as [Hc Hw]. cbn [app read_from step]. rewrite Hc.
      cbn [app]. rewrite IH by assumption. cbn [rev]. now rewrite <- app_assoc.
  Qed.

  (* a complete reference "&name;" from the idle state *)
  Lemma rd_ref name seq r :
    good_name name = true -> ent name = Some seq ->
    rd Amp (name ++ c_semi :: r) = seq ++ rd Idle r.
  Proof.
    intros Hg He. destruct name as [|a t]; [discriminate|].
    cbn in Hg. apply andb_prop in Hg as [Hg _]. apply andb_prop in Hg as [Ha Ht].
    cbn [app read_from step]. rewrite (alpha_not_hash a Ha), Ha. cbn [app].
    rewrite rd_named_run.
    - unfold resolve_named. rewrite rev_app_distr, rev_involutive. cbn [rev app]. now rewrite He.
    - rewrite forallb_forall in *. intros x Hx. apply alnum_namechar. now apply Ht.
  Qed.

  (* what a pending state gives out when a character arrives that cannot continue any reference *)
  Definition flush (st : rstate) : str :=
    match st with
    | Idle => []
    | Amp => [c_amp]
    | Named acc => resolve_named ent acc
    | Hash => [c_amp; c_hash]
    | HashX x => [c_amp; c_hash; x]
    | Dec acc => num (num_of 10 (rev acc))
    | Hex x acc => num (num_of 16 (rev acc))
    end.

  Lemma inert_facts c : inert c = true ->
    is_namechar c = false /\ (c =? c_semi) = false /\ (c =? c_hash) = false /\ (c =? c_amp) = false /\
    is_digit c = false /\ is_alpha c = false /\ is_hexd c = false /\ (c =? c_x) = false /\ (c =? c_X) = false.
  Proof.
    unfold inert. intros H. apply negb_true_iff in H.
    apply orb_false_elim in H as [H H4]. apply orb_false_elim in H as [H H3].
    apply orb_false_elim in H as [H1 H2].
    repeat split; try assumption.
    - destruct (is_digit c) eqn:E; [|reflexivity]. now rewrite (digit_namechar c E) in H1.
    - destruct (is_alpha c) eqn:E; [|reflexivity].
      now rewrite (alnum_namechar c (alpha_alnum c E)) in H1.
    - destruct (is_hexd c) eqn:E; [|reflexivity]. now rewrite (hexd_namechar c E) in H1.
    - apply N.eqb_neq. intros ->. discriminate.
    - apply N.eqb_neq. intros ->. discriminate.
  Qed.

  Lemma step_inert st c : inert c = true -> step ent num st c = (Idle, flush st ++ [c]).
  Proof.
    intros H. destruct (inert_facts c H) as (H1 & H2 & H3 & H4 & H5 & H6 & H7 & H8 & H9).
    destruct st; cbn [step flush literal]; unfold idle_step;
      rewrite ?H1, ?H2, ?H3, ?H4, ?H5, ?H6, ?H7, ?H8, ?H9; cbn [orb app]; try reflexivity.
  Qed.

  Lemma step_amp st : step ent num st c_amp = (Amp, flush st).
  Proof.
    destruct st; cbn; rewrite ?app_nil_r; reflexivity.
  Qed.

  (* a step that gives up the pending reference and handles c from the idle state *)
  Lemma rd_giveup st c w X :
    step ent num st c = (let '(st', o) := idle_step c in (st', X ++ o)) ->
    rd st (c :: w) = X ++ rd Idle (c :: w).
  Proof.
    intros H. cbn [read_from]. rewrite H. cbn [step]. destruct (idle_step c) as [st' o].
    now rewrite <- app_assoc.
  Qed.
End ReaderFacts.

(* ================================================================================================ *)
(* 3. html.unescape on pieces of escaped text                                                       *)
(* ================================================================================================ *)

Lemma unescape_skip : forall k s, unescape_go k s = unescape_go O (skipn k s).
Proof.
  intros k s. revert k. induction s as [|c s IH]; intros k.
  - destruct k; reflexivity.
  - destruct k as [|k]; [reflexivity|]. cbn [unescape_go skipn]. apply IH.
Qed.

Lemma unescape_plain c r : c <> c_amp -> unescape_go O (c :: r) = c :: unescape_go O r.
Proof. intros H. cbn. apply N.eqb_neq in H. now rewrite H. Qed.

Lemma alnum_un_name_char c : is_alnum c = true -> un_name_char c = true.
Proof.
  intros H. unfold un_name_char. apply negb_true_iff. apply memN_false. intros Hi.
  cbn in Hi. classes. bools; lia.
Qed.

Lemma take_max_name (p : N -> bool) name : forall max c r,
  forallb p name = true -> (length name <= max)%nat -> p c = false ->
  take_max p max (name ++ c :: r) = (name, c :: r).
Proof.
  induction name as [|a t IH]; intros max c r Hp Hl Hc.
  - destruct max; cbn; [reflexivity|]. now rewrite Hc.
  - cbn in Hp. apply andb_prop in Hp as [Ha Ht]. destruct max as [|m]; [cbn in Hl; lia|].
    cbn [app take_max]. rewrite Ha. rewrite (IH m c r Ht); [reflexivity| cbn in Hl; lia | assumption].
Qed.

Lemma good_name_parts name : good_name name = true ->
  exists a t, name = a :: t /\ is_alpha a = true /\ forallb is_alnum t = true /\ (length name <= 31)%nat.
Proof.
  destruct name as [|a t]; [discriminate|]. cbn [good_name]. intros H.
  apply andb_prop in H as [H H3]. apply andb_prop in H as [H1 H2].
  exists a, t. repeat split; try assumption. now apply Nat.leb_le in H3.
Qed.

Lemma good_name_alnum name : good_name name = true -> forallb is_alnum name = true.
Proof.
  intros H. destruct (good_name_parts name H) as (a & t & -> & Ha & Ht & _).
  cbn. now rewrite (alpha_alnum a Ha), Ht.
Qed.

Lemma unescape_ref name seq r :
  good_name name = true -> html5_lookup (name ++ [c_semi]) = Some seq ->
  unescape_go O (c_amp :: name ++ c_semi :: r) = seq ++ unescape_go O r.
Proof.
  intros Hg Hl. pose proof (good_name_alnum name Hg) as Hal.
  destruct (good_name_parts name Hg) as (a & t & En & Ha & Ht & Hlen).
  cbn [unescape_go]. rewrite N.eqb_refl. unfold charref_match.
  assert (Hrun : take_max un_name_char 32 (name ++ c_semi :: r) = (name, c_semi :: r)).
  { apply take_max_name; [| lia | reflexivity].
    rewrite forallb_forall in *. intros x Hx. apply alnum_un_name_char. now apply Hal. }
  rewrite En in *. cbn [app] in *.
  rewrite (alpha_not_hash a Ha). rewrite Hrun. cbn [starts_semi]. rewrite N.eqb_refl.
  unfold replace_named. change (a :: t ++ [c_semi]) with ((a :: t) ++ [c_semi]) in Hl. rewrite Hl. f_equal.
  rewrite unescape_skip. f_equal.
  change (a :: t ++ c_semi :: r) with ((a :: t) ++ c_semi :: r).
  replace ((a :: t) ++ c_semi :: r) with (((a :: t) ++ [c_semi]) ++ r) by now rewrite <- app_assoc.
  rewrite skipn_app, skipn_all, Nat.sub_diag. reflexivity.
Qed.

(* ================================================================================================ *)
(* 4. consequences of [enc]: both readers give the original back; every '&' starts a known reference *)
(* ================================================================================================ *)

Theorem enc_read_text o s : enc o s -> read_text o = s.
Proof.
  unfold read_text, read. induction 1 as [|c o s Hc _ IH|name seq o s [Hg [He _]] _ IH].
  - reflexivity.
  - rewrite rd_plain by assumption. now rewrite IH.
  - rewrite rd_amp, (rd_ref _ _ name seq o Hg He). now rewrite IH.
Qed.

Theorem enc_unescape o s : enc o s -> unescape o = s.
Proof.
  unfold unescape. induction 1 as [|c o s Hc _ IH|name seq o s [Hg [_ Hl]] _ IH].
  - reflexivity.
  - rewrite unescape_plain by assumption. now rewrite IH.
  - rewrite (unescape_ref name seq o Hg Hl). now rewrite IH.
Qed.

(* no ampersand a parser could read differently: wherever an '&' stands in the output, a complete
   reference with a known name follows *)
Theorem enc_amp_unambiguous o s : enc o s ->
  forall pre post, o = pre ++ c_amp :: post ->
  exists name seq rest, post = name ++ c_semi :: rest /\ known_ref name seq.
Proof.
  induction 1 as [|c o s Hc _ IH|name seq o s Hk _ IH]; intros pre post E.
  - destruct pre; discriminate.
  - destruct pre as [|x pre]; cbn in E; inversion E; subst; [congruence|]. eapply IH. reflexivity.
  - destruct pre as [|x pre]; cbn in E; inversion E; subst.
    + exists name, seq, o. auto.
    + (* the '&' lies inside name (impossible), is the ';' (impossible) or lies in o *)
      destruct Hk as [Hg Hk]. pose proof (good_name_alnum name Hg) as Hal.
      assert (Hsplit : forall (nm : str) pre0, forallb is_alnum nm = true ->
                 nm ++ c_semi :: o = pre0 ++ c_amp :: post ->
                 exists pre1, o = pre1 ++ c_amp :: post).
      { induction nm as [|y nm IHn]; intros pre0 Hn E0.
        - destruct pre0 as [|z pre0]; cbn in E0; inversion E0. now exists pre0.
        - cbn in Hn. apply andb_prop in Hn as [Hy Hn].
          destruct pre0 as [|z pre0]; cbn in E0; inversion E0; subst.
          + exfalso. destruct (namechar_not_special _ (alnum_namechar _ Hy)) as [Hne _]. congruence.
          + eapply IHn; eauto. }
      destruct (Hsplit name pre Hal H1) as [pre1 ->]. eapply IH. reflexivity.
Qed.

Lemma enc_app o1 s1 o2 s2 : enc o1 s1 -> enc o2 s2 -> enc (o1 ++ o2) (s1 ++ s2).
Proof.
  induction 1; intros H2.
  - assumption.
  - cbn. constructor; auto.
  - replace ((c_amp :: name ++ c_semi :: o) ++ o2) with (c_amp :: name ++ c_semi :: (o ++ o2))
      by (cbn; now rewrite <- app_assoc).
    rewrite <- app_assoc. constructor; auto.
Qed.

(* characters that never occur inside a reference *)
Lemma enc_In_plain q o s : enc o s -> is_namechar q = false -> q <> c_amp -> q <> c_semi -> In q o -> In q s.
Proof.
  intros H Hq Ha Hs. induction H as [|c o s Hc _ IH|name seq o s [Hg _] _ IH]; intros Hi.
  - destruct Hi.
  - destruct Hi as [->|Hi]; [now left | right; auto].
  - apply in_or_app. right. apply IH.
    destruct Hi as [E|Hi]; [congruence|]. apply in_app_or in Hi as [Hi|Hi].
    + exfalso. pose proof (good_name_alnum name Hg) as Hal. rewrite forallb_forall in Hal.
      rewrite (alnum_namechar q (Hal q Hi)) in Hq. discriminate.
    + destruct Hi as [E|Hi]; [congruence | assumption].
Qed.

(* ================================================================================================ *)
(* 5. quoted_attribute_value                                                                        *)
(* ================================================================================================ *)

Lemma replace_dq_no_dq v : ~ In c_dq (replace_dq v).
Proof.
  induction v as [|a v IH]; cbn; [auto|].
  destruct (a =? c_dq) eqn:E.
  - intros H. apply in_app_or in H as [H|H]; [|auto].
    cbn in H. classes. repeat (destruct H as [H|H]; [discriminate|]). exact H.
  - cbn. intros [H|H]; [|auto]. apply N.eqb_neq in E. congruence.
Qed.

Lemma replace_dq_app a b : replace_dq (a ++ b) = replace_dq a ++ replace_dq b.
Proof. unfold replace_dq. apply flat_map_app. Qed.

Lemma replace_dq_id v : ~ In c_dq v -> replace_dq v = v.
Proof.
  induction v as [|a v IH]; intros H; cbn; [reflexivity|].
  destruct (a =? c_dq) eqn:E.
  - apply N.eqb_eq in E. exfalso. apply H. now left.
  - cbn. f_equal. apply IH. intros Hi. apply H. now right.
Qed.

Lemma span_quote qc body :
  ~ In qc body -> span (fun c => negb (c =? qc)) (body ++ [qc]) = (body, [qc]).
Proof.
  intros H. apply span_stop.
  - rewrite forallb_forall. intros x Hx. apply negb_true_iff. apply N.eqb_neq. intros ->. auto.
  - now rewrite N.eqb_refl.
Qed.

Theorem quote_wellformed v : wf_quoted (quoted_attribute_value v).
Proof.
  unfold wf_quoted, quoted_attribute_value.
  destruct (memN c_dq v) eqn:E1; [destruct (memN c_sq v) eqn:E2|].
  - exists c_dq, (replace_dq v). split; [reflexivity|]. split; [now left | apply replace_dq_no_dq].
  - exists c_sq, v. split; [reflexivity|]. split; [now right | now apply memN_false].
  - exists c_dq, v. split; [reflexivity|]. split; [now left | now apply memN_false].
Qed.

Lemma read_quoted_wf qc body :
  qc = c_dq \/ qc = c_sq -> ~ In qc body -> read_quoted (qc :: body ++ [qc]) = Some (unescape body).
Proof.
  intros Hq Hb. unfold read_quoted.
  assert ((qc =? c_dq) || (qc =? c_sq) = true) as ->.
  { destruct Hq as [-> | ->]; reflexivity. }
  now rewrite span_quote.
Qed.

Lemma enc_replace_dq o s : enc o s -> enc (replace_dq o) s.
Proof.
  induction 1 as [|c o s Hc _ IH|name seq o s Hk _ IH].
  - constructor.
  - change (replace_dq (c :: o)) with ((if c =? c_dq then s_quot_ent else [c]) ++ replace_dq o).
    destruct (c =? c_dq) eqn:E.
    + apply N.eqb_eq in E. subst c.
      change (s_quot_ent ++ replace_dq o) with (c_amp :: n_quot ++ c_semi :: replace_dq o).
      change (c_dq :: s) with ([c_dq] ++ s). constructor; [exact known_quot | exact IH].
    + cbn [app]. constructor; assumption.
  - change (c_amp :: name ++ c_semi :: o) with ([c_amp] ++ name ++ [c_semi] ++ o).
    rewrite !replace_dq_app. rewrite (replace_dq_id name).
    + cbn. constructor; assumption.
    + destruct Hk as [Hg _]. pose proof (good_name_alnum name Hg) as Hal. rewrite forallb_forall in Hal.
      intros Hi. destruct (namechar_not_special _ (alnum_namechar _ (Hal _ Hi))) as (_ & _ & _ & _ & _ & Hd & _).
      congruence.
Qed.

(* the quoted form of escaped text reads back as the original, whatever quotes it contains *)
Theorem enc_read_quoted o s : enc o s -> read_quoted (quoted_attribute_value o) = Some s.
Proof.
  intros H. unfold quoted_attribute_value.
  destruct (memN c_dq o) eqn:E1; [destruct (memN c_sq o) eqn:E2|].
  - rewrite read_quoted_wf; [| now left | apply replace_dq_no_dq].
    f_equal. apply enc_unescape. now apply enc_replace_dq.
  - rewrite read_quoted_wf; [| now right | now apply memN_false]. f_equal. now apply enc_unescape.
  - rewrite read_quoted_wf; [| now left | now apply memN_false]. f_equal. now apply enc_unescape.
Qed.

Lemma enc_refl_no_amp v : ~ In c_amp v -> enc v v.
Proof.
  induction v as [|a v IH]; intros H; constructor.
  - intros ->. apply H. now left.
  - apply IH. intros Hi. apply H. now right.
Qed.

(* quoting alone (no substitution before it) is reversible for every value without an ampersand *)
Theorem quote_roundtrip_no_amp v : ~ In c_amp v -> read_quoted (quoted_attribute_value v) = Some v.
Proof. intros H. apply enc_read_quoted. now apply enc_refl_no_amp. Qed.

(* ================================================================================================ *)
(* 6. substitute_xml ('minimal')                                                                    *)
(* ================================================================================================ *)

Definition no_angle (o : str) : Prop := ~ In c_lt o /\ ~ In c_gt o.

Lemma no_angle_nil : no_angle [].
Proof. split; intros []. Qed.

Lemma no_angle_cons c o : c <> c_lt -> c <> c_gt -> no_angle o -> no_angle (c :: o).
Proof. intros H1 H2 [H3 H4]. split; intros [E|Hi]; auto; congruence. Qed.

Lemma no_angle_app a b : no_angle a -> no_angle b -> no_angle (a ++ b).
Proof. intros [H1 H2] [H3 H4]. split; intros Hi; apply in_app_or in Hi as [Hi|Hi]; auto. Qed.

Lemma no_angle_ref name : forallb is_alnum name = true -> no_angle (c_amp :: name ++ [c_semi]).
Proof.
  intros Hal. rewrite forallb_forall in Hal.
  assert (forall q, is_namechar q = false -> q <> c_amp -> q <> c_semi -> ~ In q (c_amp :: name ++ [c_semi])).
  { intros q Hq Ha Hs [E|Hi]; [congruence|]. apply in_app_or in Hi as [Hi|[E|[]]]; [|congruence].
    rewrite (alnum_namechar q (Hal q Hi)) in Hq. discriminate. }
  split; apply H; (reflexivity || discriminate).
Qed.

Theorem xml_enc s : exists o, substitute_xml_chars s = Some o /\ enc o s /\ no_angle o.
Proof.
  induction s as [|c s (o & Ho & He & Hn)].
  - exists []. repeat split; try constructor; intros [].
  - cbn [substitute_xml_chars]. rewrite Ho, xml_class_tbl. unfold xml_entity_repl.
    destruct xml_entities_tbl as (Ta & Tl & Tg).
    destruct (memN c [c_lt; c_gt; c_amp]) eqn:E.
    + apply memN_In in E. destruct E as [<-|[<-|[<-|[]]]].
      * rewrite Tl. eexists. split; [reflexivity|]. split.
        -- change ((c_amp :: n_lt ++ [c_semi]) ++ o) with (c_amp :: n_lt ++ c_semi :: o).
           change (c_lt :: s) with ([c_lt] ++ s). constructor; [exact known_lt | exact He].
        -- apply no_angle_app; [|exact Hn]. now apply no_angle_ref.
      * rewrite Tg. eexists. split; [reflexivity|]. split.
        -- change ((c_amp :: n_gt ++ [c_semi]) ++ o) with (c_amp :: n_gt ++ c_semi :: o).
           change (c_gt :: s) with ([c_gt] ++ s). constructor; [exact known_gt | exact He].
        -- apply no_angle_app; [|exact Hn]. now apply no_angle_ref.
      * rewrite Ta. eexists. split; [reflexivity|]. split.
        -- change ((c_amp :: n_amp ++ [c_semi]) ++ o) with (c_amp :: n_amp ++ c_semi :: o).
           change (c_amp :: s) with ([c_amp] ++ s). constructor; [exact known_amp | exact He].
        -- apply no_angle_app; [|exact Hn]. now apply no_angle_ref.
    + apply memN_false in E. exists (c :: o). split; [reflexivity|]. split.
      * constructor; [|exact He]. intros ->. apply E. cbn. auto.
      * apply no_angle_cons; [| |exact Hn]; intros ->; apply E; cbn; auto.
Qed.

(* ================================================================================================ *)
(* 7. the particle scanner (substitute_html and the second pass of substitute_html5)                *)
(* ================================================================================================ *)

Lemma sub_particles_skip ps : forall k s, sub_particles ps k s = sub_particles ps O (skipn k s).
Proof.
  intros k s. revert k. induction s as [|c s IH]; intros k.
  - destruct k; reflexivity.
  - destruct k as [|k]; [reflexivity|]. cbn [sub_particles skipn]. apply IH.
Qed.

Lemma find_particle_some ps s p :
  find_particle ps s = Some p -> In p ps /\ exists rest, s = fst p ++ rest.
Proof.
  unfold find_particle. intros H. apply find_some in H as [Hi Hm]. split; [assumption|].
  unfold p_matches in Hm. destruct (prefix_rest (fst p) s) as [rest|] eqn:E; [|discriminate].
  exists rest. now apply prefix_rest_spec.
Qed.

Lemma opt_str_eqb_eq a b : opt_str_eqb a b = true -> a = Some b.
Proof. destruct a as [x|]; cbn; [|discriminate]. intros H. apply str_eqb_eq in H. now subst. Qed.

Lemma particle_entity_ok_spec p : particle_entity_ok p = true ->
  exists h t name, fst p = h :: t /\ html_entity_repl (fst p) = c_amp :: name ++ [c_semi] /\ known_ref name (fst p).
Proof.
  unfold particle_entity_ok, html_entity_repl. destruct (fst p) as [|h t] eqn:E; [discriminate|].
  destruct (assocS (h :: t) character_to_html_entity) as [name|]; [|discriminate].
  intros H. apply andb_prop in H as [H H3]. apply andb_prop in H as [H1 H2].
  exists h, t, name. split; [reflexivity|]. split; [reflexivity|].
  repeat split; [assumption | now apply opt_str_eqb_eq | now apply opt_str_eqb_eq].
Qed.

Lemma covered_find ps c r : covered ps c = true -> find_particle ps (c :: r) <> None.
Proof.
  unfold covered. intros H. apply existsb_exists in H as (p & Hp & H).
  apply andb_prop in H as [H1 H2]. apply str_eqb_eq in H1.
  intros Hn. unfold find_particle in Hn.
  pose proof (find_none _ _ Hn) as Hall.
  destruct r as [|d r].
  - specialize (Hall p Hp). unfold p_matches in Hall. rewrite H1 in Hall. cbn in Hall.
    rewrite N.eqb_refl in Hall. discriminate.
  - destruct (memN d (snd p)) eqn:Ed.
    + apply memN_In in Ed. rewrite forallb_forall in H2. specialize (H2 d Ed).
      apply existsb_exists in H2 as (q & Hq & H3). apply andb_prop in H3 as [H3 H4].
      apply str_eqb_eq in H3. specialize (Hall q Hq). unfold p_matches in Hall. rewrite H3 in Hall.
      cbn in Hall. rewrite !N.eqb_refl in Hall. destruct (snd q); [|discriminate].
      destruct r; discriminate.
    + specialize (Hall p Hp). unfold p_matches in Hall. rewrite H1 in Hall. cbn in Hall.
      rewrite N.eqb_refl, Ed in Hall. discriminate.
Qed.

Lemma skipn_pred {X} (l : list X) (c : X) s' :
  l <> [] -> skipn (pred (length l)) s' = skipn (length l) (c :: s').
Proof. destruct l; [congruence | reflexivity]. Qed.

(* one step of the scanner at skip 0 *)
Lemma sub_particles_step ps c s' :
  (forall p, In p ps -> fst p <> []) ->
  sub_particles ps O (c :: s') =
  match find_particle ps (c :: s') with
  | Some p => html_entity_repl (fst p) ++ sub_particles ps O (skipn (length (fst p)) (c :: s'))
  | None => c :: sub_particles ps O s'
  end.
Proof.
  intros Hne. cbn [sub_particles]. destruct (find_particle ps (c :: s')) as [p|] eqn:E; [|reflexivity].
  f_equal. rewrite sub_particles_skip. apply find_particle_some in E as [Hi _].
  f_equal. apply skipn_pred. now apply Hne.
Qed.

Lemma entity_ok_nonempty ps : forallb particle_entity_ok ps = true -> forall p, In p ps -> fst p <> [].
Proof.
  intros H p Hp. rewrite forallb_forall in H. specialize (H p Hp).
  unfold particle_entity_ok in H. destruct (fst p); [discriminate | discriminate].
Qed.

(* the output of a particle pass, for any table that passes the obligations, by strong induction *)
Section ParticlePass.
  Variable ps : list particle.
  Hypothesis Hent : forallb particle_entity_ok ps = true.

  Lemma pass_cases c s' :
    (exists p h t name rest,
        find_particle ps (c :: s') = Some p /\ fst p = h :: t /\ c :: s' = fst p ++ rest /\
        known_ref name (fst p) /\
        sub_particles ps O (c :: s') = (c_amp :: name ++ [c_semi]) ++ sub_particles ps O rest /\
        (length rest < length (c :: s'))%nat) \/
    (find_particle ps (c :: s') = None /\ sub_particles ps O (c :: s') = c :: sub_particles ps O s').
  Proof.
    rewrite (sub_particles_step ps c s' (entity_ok_nonempty ps Hent)).
    destruct (find_particle ps (c :: s')) as [p|] eqn:E; [left | right; auto].
    destruct (find_particle_some _ _ _ E) as [Hi [rest Hr]].
    rewrite forallb_forall in Hent.
    destruct (particle_entity_ok_spec p (Hent p Hi)) as (h & t & name & Hf & Hrepl & Hk).
    exists p, h, t, name, rest.
    split; [reflexivity|]. split; [assumption|]. split; [assumption|]. split; [assumption|]. split.
    - rewrite Hrepl. f_equal. f_equal. rewrite Hr at 1. rewrite skipn_app, skipn_all, Nat.sub_diag. reflexivity.
    - rewrite Hr, app_length, Hf. cbn. lia.
  Qed.

  (* what the pass writes is the input, escaped — as long as no '&' is copied *)
  Lemma pass_enc : (forall r, find_particle ps (c_amp :: r) <> None) ->
    forall n s, (length s <= n)%nat -> enc (sub_particles ps O s) s.
  Proof.
    intros Hamp. induction n as [|n IH]; intros s Hl.
    - destruct s; [constructor | cbn in Hl; lia].
    - destruct s as [|c s']; [constructor|].
      destruct (pass_cases c s') as [(p & h & t & name & rest & Hf & Hp & Hs & Hk & Ho & Hlt)|[Hf Ho]].
      + rewrite Ho, Hs. change ((c_amp :: name ++ [c_semi]) ++ sub_particles ps 0 rest)
          with (c_amp :: (name ++ [c_semi]) ++ sub_particles ps 0 rest).
        rewrite <- app_assoc. cbn [app]. constructor; [assumption|]. apply IH. lia.
      + rewrite Ho. constructor.
        * intros ->. now apply (Hamp s').
        * apply IH. cbn in Hl. lia.
  Qed.

  Lemma pass_no_angle :
    (forall r, find_particle ps (c_lt :: r) <> None) -> (forall r, find_particle ps (c_gt :: r) <> None) ->
    forall n s, (length s <= n)%nat -> no_angle (sub_particles ps O s).
  Proof.
    intros Hlt Hgt. induction n as [|n IH]; intros s Hl.
    - destruct s; [apply no_angle_nil | cbn in Hl; lia].
    - destruct s as [|c s']; [apply no_angle_nil|].
      destruct (pass_cases c s') as [(p & h & t & name & rest & Hf & Hp & Hs & Hk & Ho & Hlen)|[Hf Ho]].
      + rewrite Ho. apply no_angle_app; [|apply IH; lia].
        apply no_angle_ref. apply good_name_alnum. apply Hk.
      + rewrite Ho. apply no_angle_cons; [| |apply IH; cbn in Hl; lia].
        * intros ->. now apply (Hlt s').
        * intros ->. now apply (Hgt s').
  Qed.
End ParticlePass.

(* ---- substitute_html ---- *)
Theorem html_enc s : enc (substitute_html s) s.
Proof.
  unfold substitute_html. apply (pass_enc _ particles_amp_entity_tbl) with (n := length s); [|lia].
  intros r. apply covered_find. apply covered_amp_tbl.
Qed.

Theorem html_no_angle s : no_angle (substitute_html s).
Proof.
  unfold substitute_html. apply (pass_no_angle _ particles_amp_entity_tbl) with (n := length s); [| |lia];
    intros r; apply covered_find; apply covered_amp_tbl.
Qed.

(* ================================================================================================ *)
(* 8. substitute_html5                                                                              *)
(* ================================================================================================ *)

(* ---- second pass: naming characters never changes what the parser reads, whatever the text ---- *)
Lemma particle_inert_spec p : particle_inert p = true ->
  exists h t, fst p = h :: t /\ inert h = true /\ ~ In c_amp t.
Proof.
  unfold particle_inert. destruct (fst p) as [|h t]; [discriminate|]. intros H.
  apply andb_prop in H as [H1 H2]. exists h, t. repeat split; try assumption.
  intros Hi. rewrite forallb_forall in H2. specialize (H2 _ Hi). now rewrite N.eqb_refl in H2.
Qed.

Lemma html5_pass_transparent_n : forall n t st,
  (length t <= n)%nat ->
  read_from ent_text num_text st (sub_particles html_particles O t) = read_from ent_text num_text st t.
Proof.
  induction n as [|n IH]; intros t st Hl.
  - destruct t; [reflexivity | cbn in Hl; lia].
  - destruct t as [|c t']; [reflexivity|].
    destruct (pass_cases html_particles particles_entity_tbl c t')
      as [(p & h & tl & name & rest & Hf & Hp & Hs & Hk & Ho & Hlt)|[Hf Ho]].
    + rewrite Ho, Hs. apply find_particle_some in Hf as [Hi _].
      pose proof particles_inert_tbl as Hin. rewrite forallb_forall in Hin.
      destruct (particle_inert_spec p (Hin p Hi)) as (h' & tl' & Hp' & Hh & Htl).
      rewrite Hp' in *. destruct Hk as [Hg [He _]].
      (* written: &name; *)
      change ((c_amp :: name ++ [c_semi]) ++ sub_particles html_particles 0 rest)
        with (c_amp :: (name ++ [c_semi]) ++ sub_particles html_particles 0 rest).
      rewrite <- app_assoc. cbn [app].
      cbn [read_from]. rewrite step_amp.
      rewrite (rd_ref _ _ name (h' :: tl') _ Hg He).
      (* original: the characters themselves *)
      rewrite (step_inert _ _ st h' Hh). rewrite <- !app_assoc. f_equal. cbn [app]. f_equal.
      rewrite (rd_plain_run _ _ tl' rest Htl). f_equal. apply IH. lia.
    + rewrite Ho. cbn [read_from]. destruct (step ent_text num_text st c) as [st' o]. f_equal.
      apply IH. cbn in Hl. lia.
Qed.

Theorem html5_pass_transparent t :
  read_text (sub_particles html_particles O t) = read_text t.
Proof. unfold read_text, read. now apply html5_pass_transparent_n with (n := length t). Qed.

(* ---- first pass: the substitution is local — an ampersand that starts a match gets "amp;" after it ---- *)
Fixpoint esc_loc (s : str) : str :=
  match s with
  | [] => []
  | c :: r =>
      if (c =? c_amp) && (match any_entity_match r with Some _ => true | None => false end)
      then s_amp_ent ++ esc_loc r
      else c :: esc_loc r
  end.

Lemma firstn_run (a : str) c r : firstn (S (length a)) (a ++ c :: r) = a ++ [c].
Proof.
  replace (S (length a)) with (length a + 1)%nat by lia.
  rewrite firstn_app_2. reflexivity.
Qed.

Lemma forallb_app_1 {X} (p : X -> bool) a b : forallb p a = true -> forallb p b = true -> forallb p (a ++ b) = true.
Proof. intros. rewrite forallb_app. now apply andb_true_intro. Qed.

Definition not_amp (c : N) : bool := negb (c =? c_amp).

Lemma span_semi p r ws rest :
  span p r = (ws, rest) -> starts_semi rest = true -> exists rest', r = ws ++ c_semi :: rest' /\ forallb p ws = true.
Proof.
  intros Hs Hsemi. apply span_spec in Hs as [-> Hf]. destruct rest as [|x rest']; [discriminate|].
  cbn in Hsemi. apply N.eqb_eq in Hsemi. subst x. now exists rest'.
Qed.

Lemma class_not_amp (p : N -> bool) ws : p c_amp = false -> forallb p ws = true -> forallb not_amp ws = true.
Proof.
  intros Hp Hf. rewrite forallb_forall in *. intros x Hx. unfold not_amp. apply negb_true_iff, N.eqb_neq.
  intros ->. rewrite (Hf _ Hx) in Hp. discriminate.
Qed.

(* what a match covers contains no ampersand *)
Lemma any_entity_match_no_amp r n :
  any_entity_match r = Some n -> forallb not_amp (firstn n r) = true.
Proof.
  destruct word_class_tbl as (Hw & _ & _ & Hd & _).
  unfold any_entity_match. intros H.
  (* alt 1 *)
  destruct r as [|h r1]; [cbn in H; discriminate|].
  destruct (h =? c_hash) eqn:Eh.
  - apply N.eqb_eq in Eh. subst h.
    destruct (span is_ud r1) as [ds rest] eqn:Es.
    destruct (negb (Nat.eqb (length ds) 0) && starts_semi rest) eqn:E1.
    + inversion H; subst n. apply andb_prop in E1 as [_ E1].
      destruct (span_semi _ _ _ _ Es E1) as (rest' & -> & Hf).
      rewrite firstn_cons. cbn [forallb]. rewrite firstn_run. apply forallb_app_1; [|reflexivity].
      now apply (class_not_amp is_ud).
    + (* alt 2 *)
      destruct r1 as [|x r2]; [cbn in H; discriminate|].
      cbn [andb] in H.
      destruct ((x =? c_x) || (x =? c_X)) eqn:Ex.
      * destruct (span is_hexd r2) as [hs rest2] eqn:Es2.
        destruct (negb (Nat.eqb (length hs) 0) && starts_semi rest2) eqn:E2.
        -- inversion H; subst n. apply andb_prop in E2 as [_ E2].
           destruct (span_semi _ _ _ _ Es2 E2) as (rest' & -> & Hf).
           rewrite !firstn_cons. cbn [forallb]. rewrite firstn_run.
           assert (not_amp x = true) as ->.
           { unfold not_amp. apply negb_true_iff, N.eqb_neq. intros ->. discriminate. }
           cbn [andb]. apply forallb_app_1; [|reflexivity]. now apply (class_not_amp is_hexd).
        -- (* alt 3 cannot start with '#' *)
           destruct (span is_w (c_hash :: x :: r2)) as [ws rest3] eqn:Es3.
           cbn in Es3. destruct word_class_tbl as (_ & _ & Hh & _). rewrite ?Hh in Es3.
           inversion Es3; subst. cbn in H. discriminate.
      * destruct (span is_w (c_hash :: x :: r2)) as [ws rest3] eqn:Es3.
        cbn in Es3. destruct word_class_tbl as (_ & _ & Hh & _). rewrite ?Hh in Es3.
        inversion Es3; subst. cbn in H. discriminate.
  - (* only alt 3 *)
    assert (H' : (let '(ws, rest) := span is_w (h :: r1) in
                  if negb (Nat.eqb (length ws) 0) && starts_semi rest then Some (S (length ws)) else None) = Some n).
    { destruct r1; exact H. }
    clear H. destruct (span is_w (h :: r1)) as [ws rest] eqn:Es.
    destruct (negb (Nat.eqb (length ws) 0) && starts_semi rest) eqn:E3; [|discriminate].
    inversion H'; subst n. apply andb_prop in E3 as [_ E3].
    destruct (span_semi _ _ _ _ Es E3) as (rest' & Er & Hf). rewrite Er.
    rewrite firstn_run. apply forallb_app_1; [|reflexivity]. now apply (class_not_amp is_w).
Qed.

Lemma escape_go_loc : forall s k,
  forallb not_amp (firstn k s) = true -> escape_any_entity_go k s = esc_loc s.
Proof.
  induction s as [|c r IH]; intros k Hk; [destruct k; reflexivity|].
  destruct k as [|k].
  - cbn [escape_any_entity_go esc_loc]. destruct (c =? c_amp) eqn:Ec; cbn [andb].
    + destruct (any_entity_match r) as [n|] eqn:Em.
      * f_equal. apply IH. now apply any_entity_match_no_amp.
      * f_equal. now apply IH.
    + f_equal. now apply IH.
  - cbn [firstn forallb] in Hk. apply andb_prop in Hk as [Hc Hk].
    cbn [escape_any_entity_go esc_loc]. unfold not_amp in Hc. apply negb_true_iff in Hc. rewrite Hc.
    cbn [andb]. f_equal. now apply IH.
Qed.

Lemma escape_any_entity_loc s : escape_any_entity s = esc_loc s.
Proof. unfold escape_any_entity. now apply escape_go_loc. Qed.

(* whatever the first pass does to the rest, a character stays at the head of what it writes *)
Lemma esc_loc_cons c r : exists w, esc_loc (c :: r) = c :: w /\ (c <> c_amp -> w = esc_loc r).
Proof.
  cbn [esc_loc]. destruct (c =? c_amp) eqn:Ec; cbn [andb].
  - apply N.eqb_eq in Ec. subst c. destruct (any_entity_match r).
    + eexists. split; [reflexivity|]. congruence.
    + eexists. split; [reflexivity|]. congruence.
  - eexists. split; [reflexivity|]. reflexivity.
Qed.

(* ---- dead ampersands are read literally ---- *)
Notation rdt := (read_from ent_text num_text).

Lemma dead_name_read : forall r acc,
  dead_name acc r = true ->
  rdt (Named acc) (esc_loc r) = (c_amp :: rev acc) ++ rdt Idle (esc_loc r).
Proof.
  induction r as [|c r IH]; intros acc H.
  - cbn in *. unfold name_unknown in H. unfold resolve_named.
    destruct (ent_text (rev acc)); [discriminate|]. now rewrite app_nil_r.
  - cbn [dead_name] in H. destruct (esc_loc_cons c r) as (w & Ew & Hw). rewrite Ew.
    destruct (is_namechar c) eqn:En.
    + destruct (namechar_not_special c En) as (Hna & _). rewrite (Hw Hna).
      rewrite (rd_plain _ _ c _ Hna).
      cbn [read_from step]. rewrite En. cbn [app]. rewrite (IH _ H).
      cbn [rev app]. now rewrite <- app_assoc.
    + destruct (c =? c_semi) eqn:Es; [discriminate|].
      unfold name_unknown in H.
      rewrite (rd_giveup _ _ (Named acc) c w (resolve_named ent_text acc)).
      * unfold resolve_named. destruct (ent_text (rev acc)); [discriminate | reflexivity].
      * cbn [step]. now rewrite En, Es.
Qed.

Lemma dead_dec_read : forall r acc,
  dead_dec r = true ->
  rdt (Dec acc) (esc_loc r) = (c_amp :: c_hash :: rev acc) ++ rdt Idle (esc_loc r).
Proof.
  induction r as [|c r IH]; intros acc H; [discriminate|].
  cbn [dead_dec] in H. destruct (esc_loc_cons c r) as (w & Ew & Hw). rewrite Ew.
  destruct (is_digit c) eqn:Ed.
  - assert (Hna : c <> c_amp) by (intros ->; discriminate). rewrite (Hw Hna).
    rewrite (rd_plain _ _ c _ Hna).
    cbn [read_from step]. rewrite Ed. cbn [app]. rewrite (IH _ H).
    cbn [rev app]. rewrite <- !app_assoc. reflexivity.
  - destruct (c =? c_semi) eqn:Es; [discriminate|].
    apply (rd_giveup _ _ (Dec acc) c w (literal (Dec acc))).
    cbn [step]. now rewrite Ed, Es, H.
Qed.

Lemma dead_amp_read r :
  dead_amp r = true -> rdt Amp (esc_loc r) = c_amp :: rdt Idle (esc_loc r).
Proof.
  destruct r as [|c r]; intros H; [reflexivity|].
  cbn [dead_amp] in H. destruct (esc_loc_cons c r) as (w & Ew & Hw). rewrite Ew.
  destruct (c =? c_hash) eqn:Eh.
  - apply N.eqb_eq in Eh. subst c. rewrite Hw by discriminate.
    assert (E0 : forall v, rdt Amp (c_hash :: v) = rdt Hash v) by reflexivity.
    assert (E1 : forall v, rdt Idle (c_hash :: v) = c_hash :: rdt Idle v) by reflexivity.
    rewrite E0, E1.
    (* state Hash *)
    destruct r as [|d r']; [reflexivity|].
    destruct (esc_loc_cons d r') as (w' & Ew' & Hw'). rewrite Ew'.
    destruct (is_digit d) eqn:Ed.
    + assert (Hna : d <> c_amp) by (intros ->; discriminate). rewrite (Hw' Hna).
      rewrite (rd_plain _ _ d _ Hna).
      assert (E2 : forall v, rdt Hash (d :: v) = rdt (Dec [d]) v).
      { intros v. cbn [read_from step]. now rewrite Ed. }
      rewrite E2, (dead_dec_read _ _ H). reflexivity.
    + destruct ((d =? c_x) || (d =? c_X)) eqn:Ex.
      * assert (Hna : d <> c_amp) by (intros ->; discriminate). rewrite (Hw' Hna).
        rewrite (rd_plain _ _ d _ Hna).
        assert (E2 : forall v, rdt Hash (d :: v) = rdt (HashX d) v).
        { intros v. cbn [read_from step]. now rewrite Ed, Ex. }
        rewrite E2.
        (* state HashX *)
        destruct r' as [|h r3]; [reflexivity|].
        destruct (esc_loc_cons h r3) as (w3 & Ew3 & Hw3). rewrite Ew3.
        apply negb_true_iff in H.
        rewrite (rd_giveup _ _ (HashX d) h w3 (literal (HashX d))); [reflexivity|].
        cbn [step]. now rewrite H.
      * rewrite (rd_giveup _ _ Hash d w' (literal Hash)); [reflexivity|].
        cbn [step]. now rewrite Ed, Ex.
  - destruct (is_alpha c) eqn:Ea.
    + assert (Hna : c <> c_amp) by (intros ->; discriminate). rewrite (Hw Hna).
      rewrite (rd_plain _ _ c _ Hna).
      assert (E2 : forall v, rdt Amp (c :: v) = rdt (Named [c]) v).
      { intros v. cbn [read_from step]. now rewrite Eh, Ea. }
      rewrite E2, (dead_name_read _ _ H). reflexivity.
    + rewrite (rd_giveup _ _ Amp c w [c_amp]); [reflexivity|].
      cbn [step]. now rewrite Eh, Ea.
Qed.

Lemma esc_loc_read s : no_bare_ref s = true -> rdt Idle (esc_loc s) = s.
Proof.
  induction s as [|c r IH]; intros H; [reflexivity|].
  cbn [no_bare_ref] in H. apply andb_prop in H as [H1 H2]. cbn [esc_loc].
  destruct (c =? c_amp) eqn:Ec; cbn [andb].
  - apply N.eqb_eq in Ec. subst c. destruct (any_entity_match r) as [n|].
    + change (s_amp_ent ++ esc_loc r) with (c_amp :: n_amp ++ c_semi :: esc_loc r).
      rewrite rd_amp. destruct known_amp as [Hg [He _]].
      rewrite (rd_ref _ _ n_amp [c_amp] _ Hg He). cbn [app]. f_equal. now apply IH.
    + rewrite rd_amp, (dead_amp_read r H1). f_equal. now apply IH.
  - apply N.eqb_neq in Ec. rewrite rd_plain by assumption. f_equal. now apply IH.
Qed.

(* every string without a bare reference reads back unchanged *)
Theorem html5_text_roundtrip s : no_bare_ref s = true -> read_text (substitute_html5 s) = s.
Proof.
  intros H. unfold substitute_html5. rewrite html5_pass_transparent, escape_any_entity_loc.
  unfold read_text, read. now apply esc_loc_read.
Qed.

(* in general: what is read back is what the parser reads from the text with only its "&...;" forms protected *)
Theorem html5_text_reads_as s : read_text (substitute_html5 s) = read_text (escape_any_entity s).
Proof. unfold substitute_html5. apply html5_pass_transparent. Qed.

Theorem html5_no_angle s : no_angle (substitute_html5 s).
Proof.
  unfold substitute_html5.
  apply (pass_no_angle _ particles_entity_tbl) with (n := length (escape_any_entity s)); [| |lia];
    intros r; apply covered_find; apply covered_tbl.
Qed.

(* the full statement is false: a bare known reference is written as it is *)
Definition html5_witness : str := [38; 97; 109; 112; 32; 120].   (* "&amp x" *)

Theorem html5_text_refuted :
  exists s, no_bare_ref s = false /\ read_text (substitute_html5 s) <> s.
Proof.
  exists html5_witness. split; [vm_compute; reflexivity|]. vm_compute. discriminate.
Qed.

(* ================================================================================================ *)
(* 9. the order of the alternation cannot matter                                                    *)
(* ================================================================================================ *)

Lemma prefix_both a : forall b s r1 r2,
  prefix_rest a s = Some r1 -> prefix_rest b s = Some r2 ->
  (exists t, prefix_rest a b = Some t /\ r1 = t ++ r2) \/ (exists t, prefix_rest b a = Some t /\ r2 = t ++ r1).
Proof.
  induction a as [|x a IH]; intros b s r1 r2 H1 H2.
  - cbn in H1. inversion H1; subst. left. exists b. split; [reflexivity|]. now apply prefix_rest_spec.
  - destruct b as [|y b].
    + cbn in H2. inversion H2; subst. right. exists (x :: a). split; [reflexivity|]. now apply prefix_rest_spec.
    + destruct s as [|z s]; [discriminate|]. cbn in H1, H2.
      destruct (x =? z) eqn:E1; [|discriminate]. destruct (y =? z) eqn:E2; [|discriminate].
      apply N.eqb_eq in E1, E2. subst. cbn. rewrite N.eqb_refl. eapply IH; eauto.
Qed.

Lemma matches_overlap p q s :
  p_matches p s = true -> p_matches q s = true -> overlap p q || overlap q p = true.
Proof.
  unfold p_matches. intros Hp Hq.
  destruct (prefix_rest (fst p) s) as [r1|] eqn:E1; [|discriminate].
  destruct (prefix_rest (fst q) s) as [r2|] eqn:E2; [|discriminate].
  destruct (prefix_both _ _ _ _ _ E1 E2) as [(t & Ht & ->)|(t & Ht & ->)].
  - apply orb_true_intro. left. unfold overlap. rewrite Ht. destruct t as [|d t]; [reflexivity|]. exact Hp.
  - apply orb_true_intro. right. unfold overlap. rewrite Ht. destruct t as [|d t]; [reflexivity|]. exact Hq.
Qed.

Lemma pairwise_excl_spec ps : pairwise_excl ps = true ->
  forall p q, In p ps -> In q ps -> p = q \/ overlap p q || overlap q p = false.
Proof.
  induction ps as [|a ps IH]; intros H p q Hp Hq; [destruct Hp|].
  cbn in H. apply andb_prop in H as [H1 H2]. rewrite forallb_forall in H1.
  destruct Hp as [<-|Hp], Hq as [<-|Hq].
  - now left.
  - right. apply negb_true_iff. now apply H1.
  - right. rewrite orb_comm. apply negb_true_iff. now apply H1.
  - now apply IH.
Qed.

(* at most one alternative matches at any place *)
Theorem particles_exclusive ps : pairwise_excl ps = true ->
  forall p q s, In p ps -> In q ps -> p_matches p s = true -> p_matches q s = true -> p = q.
Proof.
  intros H p q s Hp Hq Mp Mq. destruct (pairwise_excl_spec ps H p q Hp Hq) as [E|E]; [assumption|].
  rewrite (matches_overlap p q s Mp Mq) in E. discriminate.
Qed.

Lemma find_unique {X} (f : X -> bool) l l' :
  (forall x y, In x l -> In y l -> f x = true -> f y = true -> x = y) ->
  Permutation l l' -> find f l = find f l'.
Proof.
  intros Hu Hperm.
  destruct (find f l) as [x|] eqn:E1; destruct (find f l') as [y|] eqn:E2; try reflexivity.
  - apply find_some in E1 as [Hx Fx]. apply find_some in E2 as [Hy Fy].
    f_equal. apply Hu; try assumption. eapply Permutation_in; [apply Permutation_sym; eassumption | assumption].
  - apply find_some in E1 as [Hx Fx]. pose proof (find_none _ _ E2 x) as Hn.
    rewrite Hn in Fx; [discriminate|]. eapply Permutation_in; eassumption.
  - apply find_some in E2 as [Hy Fy]. pose proof (find_none _ _ E1 y) as Hn.
    rewrite Hn in Fy; [discriminate|]. eapply Permutation_in; [apply Permutation_sym; eassumption | assumption].
Qed.

Theorem sub_particles_order_irrelevant ps ps' :
  pairwise_excl ps = true -> Permutation ps ps' ->
  forall s k, sub_particles ps' k s = sub_particles ps k s.
Proof.
  intros He Hp. induction s as [|c s IH]; intros k; [reflexivity|].
  cbn [sub_particles]. destruct k as [|k]; [|apply IH].
  assert (Ef : find_particle ps' (c :: s) = find_particle ps (c :: s)).
  { unfold find_particle. symmetry. apply find_unique; [|assumption].
    intros x y Hx Hy Fx Fy. eapply particles_exclusive; eauto. }
  rewrite Ef. destruct (find_particle ps (c :: s)); now rewrite ?IH.
Qed.

Theorem substitute_html_order_irrelevant ps' s :
  Permutation html_particles_amp ps' -> sub_particles ps' O s = substitute_html s.
Proof. intros H. apply sub_particles_order_irrelevant; [exact particles_amp_exclusive_tbl | assumption]. Qed.

Theorem substitute_html5_order_irrelevant ps' s :
  Permutation html_particles ps' -> sub_particles ps' O (escape_any_entity s) = substitute_html5 s.
Proof. intros H. apply sub_particles_order_irrelevant; [exact particles_exclusive_tbl | assumption]. Qed.

(* ================================================================================================ *)
(* 10. the formatter level: Formatter.substitute / attribute_value and the attribute text of a tag   *)
(* ================================================================================================ *)

Lemma attribute_value_is_substitute f v : formatter_attribute_value f v = formatter_substitute f false v.
Proof. reflexivity. Qed.

Lemma no_substitution_verbatim c s : formatter_substitute EsNone c s = Some s.
Proof. reflexivity. Qed.

Lemma cdata_verbatim f s : formatter_substitute f true s = Some s.
Proof. destruct f; reflexivity. Qed.

Theorem formatter_text_enc f s : f = EsXml \/ f = EsHtml ->
  exists o, formatter_substitute f false s = Some o /\ enc o s /\ no_angle o.
Proof.
  intros [-> | ->]; cbn [formatter_substitute apply_esub].
  - unfold substitute_xml. destruct (xml_enc s) as (o & -> & He & Hn). eauto.
  - exists (substitute_html s). split; [reflexivity|]. split; [apply html_enc | apply html_no_angle].
Qed.

Theorem formatter_attr_roundtrip f v : f = EsXml \/ f = EsHtml ->
  exists q, render_attribute_value f v = Some q /\ wf_quoted q /\ read_quoted q = Some v.
Proof.
  intros Hf. unfold render_attribute_value, formatter_attribute_value.
  destruct (formatter_text_enc f v Hf) as (o & -> & He & _).
  exists (quoted_attribute_value o). split; [reflexivity|]. split; [apply quote_wellformed | now apply enc_read_quoted].
Qed.

(* the quoted value never lets a raw angle bracket through either *)
Lemma quoted_no_angle o : no_angle o -> no_angle (quoted_attribute_value o).
Proof.
  intros Hn. unfold quoted_attribute_value.
  assert (Hq : forall q, (q = c_dq \/ q = c_sq) -> forall b, no_angle b -> no_angle (q :: b ++ [q])).
  { intros q Hq b Hb. apply no_angle_cons; [destruct Hq as [-> | ->]; discriminate ..|].
    apply no_angle_app; [assumption|]. apply no_angle_cons; [destruct Hq as [-> | ->]; discriminate ..|].
    apply no_angle_nil. }
  destruct (memN c_dq o); [destruct (memN c_sq o)|]; apply Hq; auto.
  clear Hq. induction o as [|c o IH]; [apply no_angle_nil|].
  destruct Hn as [H1 H2].
  change (replace_dq (c :: o)) with ((if c =? c_dq then s_quot_ent else [c]) ++ replace_dq o).
  apply no_angle_app.
  - destruct (c =? c_dq).
    + split; intros Hi; cbn in Hi; repeat (destruct Hi as [Hi|Hi]; [discriminate|]); exact Hi.
    + apply no_angle_cons; [intros -> .. | apply no_angle_nil]; [apply H1 | apply H2]; now left.
  - apply IH. split; intros Hi; [apply H1 | apply H2]; now right.
Qed.

(* ================================================================================================ *)
(* 11. the statements Props/C09.v quotes                                                            *)
(* ================================================================================================ *)

Theorem minimal_escaped s : exists o, substitute_xml s false = Some o /\ enc o s /\ no_angle o.
Proof. unfold substitute_xml. destruct (xml_enc s) as (o & -> & He & Hn). eauto. Qed.

Theorem html_escaped s : enc (substitute_html s) s /\ no_angle (substitute_html s).
Proof. split; [apply html_enc | apply html_no_angle]. Qed.

Theorem minimal_text_roundtrip s : exists o, substitute_xml s false = Some o /\ read_text o = s.
Proof. destruct (minimal_escaped s) as (o & Ho & He & _). exists o. split; [assumption | now apply enc_read_text]. Qed.

Theorem html_text_roundtrip s : read_text (substitute_html s) = s.
Proof. apply enc_read_text, html_enc. Qed.

Theorem minimal_attr_roundtrip v :
  exists q, substitute_xml v true = Some q /\ wf_quoted q /\ no_angle q /\ read_quoted q = Some v.
Proof.
  unfold substitute_xml. destruct (xml_enc v) as (o & -> & He & Hn).
  exists (quoted_attribute_value o). split; [reflexivity|]. split; [apply quote_wellformed|].
  split; [now apply quoted_no_angle | now apply enc_read_quoted].
Qed.

Theorem html_attr_roundtrip v :
  let q := quoted_attribute_value (substitute_html v) in
  wf_quoted q /\ no_angle q /\ read_quoted q = Some v.
Proof.
  cbv zeta. split; [apply quote_wellformed|]. split.
  - apply quoted_no_angle, html_no_angle.
  - apply enc_read_quoted, html_enc.
Qed.

Theorem escaped_reads_back o s : enc o s ->
  read_text o = s /\ unescape o = s /\ read_quoted (quoted_attribute_value o) = Some s.
Proof.
  intros H. split; [now apply enc_read_text|]. split; [now apply enc_unescape | now apply enc_read_quoted].
Qed.

Theorem html5_reads_as s :
  read_text (substitute_html5 s) = read_text (escape_any_entity s) /\ no_angle (substitute_html5 s).
Proof. split; [apply html5_text_reads_as | apply html5_no_angle]. Qed.

Theorem alternation_order_irrelevant ps' s :
  (Permutation html_particles_amp ps' -> sub_particles ps' O s = substitute_html s) /\
  (Permutation html_particles ps' -> sub_particles ps' O (escape_any_entity s) = substitute_html5 s).
Proof.
  split; intros H; [now apply substitute_html_order_irrelevant | now apply substitute_html5_order_irrelevant].
Qed.

(* ================================================================================================ *)
(* 12. the indexed scanner that is run (Model/EntitySubstFast.v) equals the scanner that is proved   *)
(* ================================================================================================ *)

Lemma find_filter_implied {X} (f g : X -> bool) l :
  (forall x, In x l -> f x = true -> g x = true) -> find f (filter g l) = find f l.
Proof.
  induction l as [|a l IH]; intros H; [reflexivity|].
  cbn. destruct (g a) eqn:Eg; cbn.
  - destruct (f a); [reflexivity|]. apply IH. intros x Hx. apply H. now right.
  - destruct (f a) eqn:Ef.
    + rewrite (H a (or_introl eq_refl) Ef) in Eg. discriminate.
    + apply IH. intros x Hx. apply H. now right.
Qed.

Lemma nth_map_seq {X} (f : nat -> X) n k d : (k < n)%nat -> nth k (map f (seq 0 n)) d = f k.
Proof.
  intros H. rewrite nth_indep with (d' := f O) by (now rewrite map_length, seq_length).
  rewrite map_nth, seq_nth by exact H. reflexivity.
Qed.

Lemma nth_mk_index ps c :
  nth (N.to_nat (c mod 256)) (mk_index ps) [] = filter (in_bucket (c mod 256)) ps.
Proof.
  unfold mk_index.
  assert (Hlt : (N.to_nat (c mod 256) < 256)%nat).
  { pose proof (N.mod_lt c 256 ltac:(discriminate)). lia. }
  rewrite (nth_map_seq (fun k => filter (in_bucket (N.of_nat k)) ps) 256 _ [] Hlt).
  now rewrite N2Nat.id.
Qed.

Lemma find_particle_ix_eq ps c s' : find_particle_ix (mk_index ps) c s' = find_particle ps (c :: s').
Proof.
  unfold find_particle_ix, find_particle. rewrite nth_mk_index. apply find_filter_implied.
  intros p _ Hm. unfold in_bucket. unfold p_matches in Hm.
  destruct (fst p) as [|h t]; [reflexivity|]. cbn in Hm.
  destruct (h =? c) eqn:E; [|discriminate]. apply N.eqb_eq in E. subst h. apply N.eqb_refl.
Qed.

Theorem sub_particles_ix_eq ps : forall s k, sub_particles_ix (mk_index ps) k s = sub_particles ps k s.
Proof.
  induction s as [|c s IH]; intros k; [reflexivity|].
  cbn [sub_particles_ix sub_particles]. destruct k as [|k]; [|apply IH].
  rewrite find_particle_ix_eq. destruct (find_particle ps (c :: s)); now rewrite IH.
Qed.

Theorem indexed_scanner_equal s :
  substitute_html_ix s = substitute_html s /\ substitute_html5_ix s = substitute_html5 s.
Proof. split; apply sub_particles_ix_eq. Qed.

(* the formatter-level functions the dispatcher runs (Run/D_C09.v) are the modelled ones *)
Lemma indexed_formatter_equal (f : esub) (c : bool) (s : str) :
  (match f with
   | EsNone => Some s
   | _ => if c then Some s else
            match f with
            | EsHtml => Some (substitute_html_ix s)
            | EsHtml5 => Some (substitute_html5_ix s)
            | _ => apply_esub f s
            end
   end) = formatter_substitute f c s.
Proof.
  destruct (indexed_scanner_equal s) as [E1 E2].
  destruct f, c; cbn [formatter_substitute apply_esub]; rewrite ?E1, ?E2; reflexivity.
Qed.
