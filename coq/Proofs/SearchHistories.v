(* C10 — end to end: the family theorems of Proofs/SearchAxes.v assume [rep1 h T linked]; the C01 development
   proves that every state reached by parsing ANY event list under ANY configuration and then applying ANY
   finite history of editing calls is [consistent] (Proofs/EditRep.v, Proofs/ParseConsistent.v) and that in a
   consistent state every live element lies in a tree with rep1.  Composed here: on every such state, for every
   live element and each of the seven families, the plural method returns the documented filter (cut to the
   limit) of the axis read off the tree's pre-order / child lists / ancestor path, and the singular method its
   first element — with the fuel the extracted model uses (fuel_of s). *)
From Coq Require Import List NArith Bool Arith Lia.
From BS Require Import Base.Sexp Base.Types Model.Heap Model.Edit Model.EditOps Model.Build Model.Iter Model.Attrs Model.Search
     Spec.Tree Spec.SearchSpec Proofs.Views Proofs.EditRep Proofs.ParseConsistent Proofs.SearchProofs Proofs.SearchAxes.
Import ListNotations.
Local Open Scope nat_scope.

(* ---- where an element sits in its tree ---- *)
Lemma pre_rids : forall t, pre t = map rid (subterms t).
Proof.
  induction t as [i ks IH] using tree_ind'. cbn [pre subterms map rid]. f_equal.
  induction ks as [|k ks IHk]; [reflexivity|].
  inversion IH as [|? ? Hk Hks]; subst. cbn [flat_map]. rewrite map_app, Hk, (IHk Hks). reflexivity.
Qed.

Lemma pre_subterm x T : In x (pre T) -> exists t, In t (subterms T) /\ rid t = x.
Proof.
  rewrite pre_rids. intros H. apply in_map_iff in H. destruct H as (t & E & Ht). exists t. split; assumption.
Qed.

Lemma path_to_l_some x i l : (exists k p, In k l /\ path_to x k = Some p) -> exists anc, path_to_l x i l = Some anc.
Proof.
  induction l as [|k l IH]; intros (k0 & p & Hin & Hp); [destruct Hin|]. cbn [path_to_l].
  destruct (path_to x k) as [p'|] eqn:E; [eexists; reflexivity|].
  destruct Hin as [->|Hin]; [congruence|]. apply IH. now exists k0, p.
Qed.

Lemma path_exists x : forall t, In x (pre t) -> exists anc, path_to x t = Some anc.
Proof.
  induction t as [i ks IH] using tree_ind'. intros Hx. rewrite path_to_Node.
  destruct (Nat.eqb i x) eqn:E; [eexists; reflexivity|].
  apply Nat.eqb_neq in E. cbn [pre] in Hx. destruct Hx as [Hx|Hx]; [contradiction|].
  apply path_to_l_some. apply in_flat_map in Hx as (k & Hk & Hxk).
  rewrite Forall_forall in IH. destruct (IH k Hk Hxk) as [p Hp]. now exists k, p.
Qed.

(* every node but the root is some node's j-th child *)
Lemma subterm_parent : forall T t, In t (subterms T) ->
  t = T \/ exists pt j, In pt (subterms T) /\ nth_error (tkids pt) j = Some t.
Proof.
  induction T as [i ks IH] using tree_ind'. intros t Ht.
  destruct (in_subterms_inv t (Node i ks) Ht) as [->|(k & Hk & Htk)]; [now left|]. right.
  rewrite Forall_forall in IH. destruct (IH k Hk t Htk) as [->|(pt & j & Hpt & Hj)].
  - cbn [tkids] in Hk. destruct (In_nth_error _ _ Hk) as [j Hj].
    exists (Node i ks), j. split; [apply subterms_self|exact Hj].
  - exists pt, j. split; [|exact Hj]. now apply (in_subterms_kid pt k (Node i ks)).
Qed.

Lemma in_echain x T b : In x (pre T) ->
  (exists i, nth_error (echain_of T b) i = Some x) \/ (b = false /\ x = rid T).
Proof.
  intros Hx. destruct b; cbn [echain_of].
  - left. now apply In_nth_error.
  - rewrite pre_cons in Hx. destruct Hx as [Hx|Hx]; [right; auto|left; now apply In_nth_error].
Qed.

(* ---- the axes of an element, read off its tree ---- *)
Inductive tree_axis (T : tree) (b : bool) (x : nat) : axis -> list nat -> Prop :=
| TA_descendants t : In t (subterms T) -> rid t = x -> tree_axis T b x AxDescendants (tl (pre t))
| TA_children t : In t (subterms T) -> rid t = x -> tree_axis T b x AxChildren (map rid (tkids t))
| TA_next i : nth_error (echain_of T b) i = Some x -> tree_axis T b x AxNext (skipn (S i) (echain_of T b))
| TA_next_root : b = false -> x = rid T -> tree_axis T b x AxNext []            (* a document root outside the chain *)
| TA_previous i : nth_error (echain_of T b) i = Some x -> tree_axis T b x AxPrevious (rev (firstn i (echain_of T b)))
| TA_previous_root : b = false -> x = rid T -> tree_axis T b x AxPrevious []
| TA_next_siblings pt j : In pt (subterms T) -> nth_error (map rid (tkids pt)) j = Some x ->
    tree_axis T b x AxNextSiblings (skipn (S j) (map rid (tkids pt)))
| TA_next_siblings_root : x = rid T -> tree_axis T b x AxNextSiblings []
| TA_previous_siblings pt j : In pt (subterms T) -> nth_error (map rid (tkids pt)) j = Some x ->
    tree_axis T b x AxPreviousSiblings (rev (firstn j (map rid (tkids pt))))
| TA_previous_siblings_root : x = rid T -> tree_axis T b x AxPreviousSiblings []
| TA_parents anc : path_to x T = Some anc -> tree_axis T b x AxParents (rev anc).

Section EndToEnd.
  Variable pat_sem : N -> str -> bool.
  Variable fun_sem : N -> callarg -> bool.
  Variable xm : xmap.

  Notation find_all_method := (find_all_method pat_sem fun_sem).
  Notation find_method := (find_method pat_sem fun_sem).
  Notation find_all_spec := (find_all_spec pat_sem fun_sem).
  Notation matches_spec := (matches_spec pat_sem fun_sem).

  (* what "the family on axis a, started at x, behaves as documented on the list V" means *)
  Definition family_ok (s : st) (x : nat) (a : axis) (V : list nat) : Prop :=
    forall q, query_ok (method_query a q) = true ->
      fst (find_all_method (hp s) xm (fuel_of s) a x q) = find_all_spec (hp s) xm (fuel_of s) (method_query a q) V /\
      fst (find_method (hp s) xm (fuel_of s) a x q) =
        hd_error (filter (matches_spec (hp s) xm (fuel_of s) (method_query a q)) V).

  (* any consistent state (C01's invariant), any live element, each of the seven families *)
  Theorem consistent_search : forall s x,
    consistent s -> live s x -> all_names_wf (hp s) xm ->
    exists T b, rep1 (hp s) T b /\ In x (pre T) /\
      forall a, exists V, tree_axis T b x a V /\ family_ok s x a V.
  Proof.
    intros s x Hc Hl WF.
    destruct (consistent_views_premise s x Hc Hl) as (F & T & b & Hcw & HinF & Hx & Hrep).
    pose proof (cons_tree_fuel F s T b Hcw HinF) as Hfuel0.
    assert (Hfuel : length (pre T) <= fuel_of s) by lia.
    exists T, b. split; [exact Hrep|]. split; [exact Hx|].
    destruct (pre_subterm x T Hx) as (t & Ht & Hr).
    assert (OK : forall a V, axis_list (hp s) (fuel_of s) a x = V -> family_ok s x a V).
    { intros a V E q Q. exact (method_on_view pat_sem fun_sem (hp s) xm (fuel_of s) a x q V E Q WF). }
    intros a. destruct a.
    - exists (tl (pre t)). split; [now apply (TA_descendants T b x t)|]. apply OK. cbn [axis_list]. subst x.
      now apply (descendants_spec' (hp s) T b).
    - exists (map rid (tkids t)). split; [now apply (TA_children T b x t)|]. apply OK. cbn [axis_list]. subst x.
      destruct (rep1_node_ok _ _ _ _ Hrep Ht) as (K & _). exact K.
    - destruct (in_echain x T b Hx) as [[i Hi]|[-> ->]].
      + exists (skipn (S i) (echain_of T b)). split; [now constructor|]. apply OK. cbn [axis_list].
        now apply (next_elements_spec (hp s) T b).
      + exists []. split; [now apply TA_next_root|]. apply OK. cbn [axis_list].
        exact (proj1 (unlinked_root_views (hp s) T (fuel_of s) Hrep)).
    - destruct (in_echain x T b Hx) as [[i Hi]|[-> ->]].
      + exists (rev (firstn i (echain_of T b))). split; [now constructor|]. apply OK. cbn [axis_list].
        now apply (previous_elements_spec (hp s) T b).
      + exists []. split; [now apply TA_previous_root|]. apply OK. cbn [axis_list].
        exact (proj2 (unlinked_root_views (hp s) T (fuel_of s) Hrep)).
    - destruct (subterm_parent T t Ht) as [->|(pt & j & Hpt & Hj)].
      + exists []. split; [now apply TA_next_siblings_root|]. apply OK. cbn [axis_list]. subst x.
        exact (proj1 (root_has_no_siblings (hp s) T b (fuel_of s) Hrep)).
      + assert (Hj' : nth_error (map rid (tkids pt)) j = Some x) by (rewrite <- Hr; now apply map_nth_error).
        exists (skipn (S j) (map rid (tkids pt))). split; [now apply (TA_next_siblings T b x pt j)|]. apply OK. cbn [axis_list].
        now apply (next_siblings_spec (hp s) T b pt).
    - destruct (subterm_parent T t Ht) as [->|(pt & j & Hpt & Hj)].
      + exists []. split; [now apply TA_previous_siblings_root|]. apply OK. cbn [axis_list]. subst x.
        exact (proj2 (root_has_no_siblings (hp s) T b (fuel_of s) Hrep)).
      + assert (Hj' : nth_error (map rid (tkids pt)) j = Some x) by (rewrite <- Hr; now apply map_nth_error).
        exists (rev (firstn j (map rid (tkids pt)))). split; [now apply (TA_previous_siblings T b x pt j)|]. apply OK. cbn [axis_list].
        now apply (previous_siblings_spec (hp s) T b pt).
    - destruct (path_exists x T Hx) as [anc Ha].
      exists (rev anc). split; [now constructor|]. apply OK. cbn [axis_list].
      now apply (parents_spec' (hp s) T b).
  Qed.

  (* THE PROPERTY's quantifier: parse any event list under any configuration, apply any finite history of editing
     calls (inadmissible ones are skipped, as run_history does), pick any live element and any family *)
  Theorem search_after_parse_and_history : forall cfg evs ops x,
    let s := run_history (b_st (feed cfg evs)) ops in
    live s x -> all_names_wf (hp s) xm ->
    exists T b, rep1 (hp s) T b /\ In x (pre T) /\
      forall a, exists V, tree_axis T b x a V /\ family_ok s x a V.
  Proof.
    intros cfg evs ops x s Hl WF. apply consistent_search; [apply parse_then_edit_consistent|exact Hl|exact WF].
  Qed.
End EndToEnd.

Print Assumptions search_after_parse_and_history.
