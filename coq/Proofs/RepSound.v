(* The executable representation check of Spec/Tree.v is sound for the relation the theorems assume:
   rep1_b h T linked = true -> rep1 h T linked.  The check runs (inside consistent_b) on every heap the
   correspondence dumps from the real objects, so each such state satisfies the hypothesis of the
   C13 (and C01) theorems, not just a look-alike of it. *)
From Coq Require Import List Arith Bool Lia.
From BS Require Import Base.Sexp Model.Heap Spec.Tree.
Import ListNotations.

Lemma oeqb_eq a b : oeqb a b = true -> a = b.
Proof.
  destruct a, b; cbn; try discriminate; try reflexivity.
  intros H. apply Nat.eqb_eq in H. now subst.
Qed.

Lemma list_eqb_eq a : forall b, list_eqb a b = true -> a = b.
Proof.
  induction a as [|x a IH]; destruct b as [|y b]; cbn; try discriminate; [reflexivity|].
  intros H. apply andb_prop in H as [H1 H2]. apply Nat.eqb_eq in H1. apply IH in H2. now subst.
Qed.

Lemma onone_eq o : onone o = true -> o = None.
Proof. destruct o; [discriminate|reflexivity]. Qed.

Lemma hd_error_nth {X} (l : list X) : hd_error l = nth_error l 0.
Proof. destruct l; reflexivity. Qed.

Lemma chain_b_sound nx pv : forall L prev, chain_b nx pv prev L = true ->
  forall i x, nth_error L i = Some x ->
  nx x = nth_error L (S i) /\ pv x = match i with 0 => prev | S j => nth_error L j end.
Proof.
  induction L as [|a L IH]; intros prev H i x Hi; [destruct i; discriminate|].
  cbn [chain_b] in H. apply andb_prop in H as [H12 H3]. apply andb_prop in H12 as [H1 H2].
  apply oeqb_eq in H1. apply oeqb_eq in H2.
  destruct i as [|j].
  - cbn in Hi. injection Hi as Hax. rewrite <- Hax. split; [rewrite H2; cbn; apply hd_error_nth|exact H1].
  - cbn [nth_error] in Hi. destruct (IH (Some a) H3 j x Hi) as (Hn & Hp). split.
    + exact Hn.
    + rewrite Hp. destruct j; reflexivity.
Qed.

Lemma echain_b_sound h L : chain_b (fun x => ne (h x)) (fun x => pe (h x)) None L = true -> echain L h.
Proof.
  intros H i x Hi. destruct (chain_b_sound _ _ L None H i x Hi) as (Hn & Hp). split; [exact Hn|].
  rewrite Hp. destruct i; reflexivity.
Qed.

Lemma schain_b_sound h L : chain_b (fun x => ns (h x)) (fun x => ps (h x)) None L = true -> schain L h.
Proof.
  intros H i x Hi. destruct (chain_b_sound _ _ L None H i x Hi) as (Hn & Hp). split; [exact Hn|].
  rewrite Hp. destruct i; reflexivity.
Qed.

Lemma node_ok_b_sound h t : node_ok_b h t = true -> node_ok h t.
Proof.
  unfold node_ok_b, node_ok. intros H.
  apply andb_prop in H as [H123 H4]. apply andb_prop in H123 as [H12 H3]. apply andb_prop in H12 as [H1 H2].
  repeat split.
  - now apply list_eqb_eq.
  - apply schain_b_sound in H2. apply (H2 i x H).
  - apply schain_b_sound in H2. apply (H2 i x H).
  - intros c Hc. rewrite forallb_forall in H3. apply oeqb_eq. now apply H3.
  - intros Ht. rewrite Ht in H4. cbn in H4. destruct (tkids t); [reflexivity|discriminate].
Qed.

Theorem rep1_b_sound : forall h T linked, rep1_b h T linked = true -> rep1 h T linked.
Proof.
  intros h T linked H. unfold rep1_b in H.
  apply andb_prop in H as [H1234 H5]. apply andb_prop in H1234 as [H123 H4].
  apply andb_prop in H123 as [H12 H3]. apply andb_prop in H12 as [H1 H2].
  unfold rep1. split; [|split; [|split; [|split]]].
  - intros t Ht. rewrite forallb_forall in H1. apply node_ok_b_sound. now apply H1.
  - now apply onone_eq.
  - now apply onone_eq.
  - now apply onone_eq.
  - destruct linked.
    + now apply echain_b_sound.
    + apply andb_prop in H5 as [H56 H7]. apply andb_prop in H56 as [H5 H6].
      split; [now apply echain_b_sound|split; now apply onone_eq].
Qed.

Theorem rep_b_sound : forall F h, rep_b F h = true -> Forall (fun tb => rep1 h (fst tb) (snd tb)) F.
Proof.
  intros F h H. unfold rep_b in H. apply andb_prop in H as [_ H].
  rewrite forallb_forall in H. rewrite Forall_forall. intros tb Hin. apply rep1_b_sound. now apply H.
Qed.

(* what the correspondence run evaluates on every dumped heap *)
Theorem consistent_b_sound : forall n h, consistent_b n h = true ->
  Forall (fun tb => rep1 h (fst tb) (snd tb)) (abs_forest n h).
Proof.
  intros n h H. unfold consistent_b in H. apply andb_prop in H as [H _]. now apply rep_b_sound.
Qed.
