(* C04 — bridge: on documents written by Spec/DocWrite.v (the sub-grammar [simple_doc]) the tokenizer model fires
   exactly the callbacks Spec/DocSpec.v assumes, so the C04 theorems about callback streams become theorems about
   the written text. *)
From Coq Require Import List NArith Bool Arith Lia.
From BS Require Import Base.Sexp Base.Types Base.Reader Model.Attrs Model.Build Model.Adapter Model.Pos
                       Spec.BuildSpec Spec.DocSpec Spec.DocWrite Proofs.PosProofs Proofs.AdapterProofs
                       Proofs.AdapterCompose Model.Tokenizer Model.TokParse Proofs.TokenizerProofs.
Import ListNotations.
Open Scope N_scope.

Section Unesc.
Variable unesc : str -> str.
(* html.unescape leaves a string without '&' alone *)
Hypothesis unesc_plain : forall v, memN 38 v = false -> unesc v = v.

(* ------------------------------------------------------------------ one iteration of goahead *)
Lemma go_S f endf cd off p s : s <> [] ->
  go unesc (S f) endf cd off p s =
  match find_interesting cd s with
  | None => ([], mkg cd off p s Running)
  | Some (txt, r) =>
      let it1 := item_of off p txt [TData txt] in
      let off1 := (off + length txt)%nat in
      let p1 := updatepos p txt in
      match r with
      | [] => (it1, mkg cd off1 p1 [] Running)
      | _ :: _ =>
          match dispatch unesc endf cd r with
          | ACont k evs cd' =>
              match k with
              | O => (it1, mkg cd off1 p1 r Stuck)
              | S _ =>
                  let sp := firstn k r in
                  let '(its, g) := go unesc f endf cd' (off1 + length sp)%nat (updatepos p1 sp) (skipn k r) in
                  (it1 ++ item_of off1 p1 sp evs ++ its, g)
              end
          | AStop k evs =>
              let sp := firstn k r in
              (it1 ++ item_of off1 p1 sp evs,
               mkg cd (off1 + length sp)%nat (updatepos p1 sp) (skipn k r) Running)
          | AReject => (it1, mkg cd off1 p1 r Rejected)
          end
      end
  end.
Proof. destruct s; [congruence|reflexivity]. Qed.

Definition starts_interesting (sp : str) : Prop := exists c sp', sp = c :: sp' /\ not_interesting c = false.

Lemma firstn_pre (a b : str) : firstn (length a) (a ++ b) = a.
Proof. rewrite firstn_app, Nat.sub_diag, firstn_all. cbn. apply app_nil_r. Qed.

Lemma go_step_cd f endf off p txt sp evs cd' rest its g :
  forallb not_interesting txt = true -> starts_interesting sp ->
  dispatch unesc endf None (sp ++ rest) = ACont (length sp) evs cd' ->
  go unesc f endf cd' (off + length txt + length sp)%nat (updatepos (updatepos p txt) sp) rest = (its, g) ->
  go unesc (S f) endf None off p (txt ++ sp ++ rest) =
    (item_of off p txt [TData txt] ++ item_of (off + length txt)%nat (updatepos p txt) sp evs ++ its, g).
Proof.
  intros Ht (c & sp' & -> & Hc) D G.
  rewrite go_S by (destruct txt; discriminate).
  unfold find_interesting. rewrite (span_intro not_interesting txt ((c :: sp') ++ rest) Ht Hc).
  cbv zeta. cbn [app]. cbn [app] in D. rewrite D. cbn [length].
  change (c :: sp' ++ rest) with ((c :: sp') ++ rest).
  change (S (length sp')) with (length (c :: sp')).
  rewrite firstn_pre, skipn_pre. cbn [length] in *. rewrite G. reflexivity.
Qed.

Lemma go_step f endf off p txt sp evs rest its g :
  forallb not_interesting txt = true -> starts_interesting sp ->
  dispatch unesc endf None (sp ++ rest) = ACont (length sp) evs None ->
  go unesc f endf None (off + length txt + length sp)%nat (updatepos (updatepos p txt) sp) rest = (its, g) ->
  go unesc (S f) endf None off p (txt ++ sp ++ rest) =
    (item_of off p txt [TData txt] ++ item_of (off + length txt)%nat (updatepos p txt) sp evs ++ its, g).
Proof. apply go_step_cd. Qed.

Lemma go_text_end f endf off p txt :
  txt <> [] -> forallb not_interesting txt = true ->
  go unesc (S f) endf None off p txt =
    (item_of off p txt [TData txt], mkg None (off + length txt)%nat (updatepos p txt) [] Running).
Proof.
  intros Hn Ht. rewrite go_S by exact Hn. unfold find_interesting.
  rewrite <- (app_nil_r txt) at 1. rewrite (span_intro not_interesting txt [] Ht I). reflexivity.
Qed.

Definition raw_step (n : str) (a a' : list (str * option str)) (s : str) : Prop :=
  (* the start tag switches to cdata mode, the text is skipped as one piece, the end tag switches back *)
  (forall endf rest, dispatch unesc endf None (w_start n a ++ rest) = ACont (length (w_start n a)) [TStart n a'] (Some n)) /\
  (forall rest, find_interesting (Some n) (s ++ w_end n ++ rest) = Some (s, w_end n ++ rest)) /\
  (forall endf rest, dispatch unesc endf (Some n) (w_end n ++ rest) = ACont (length (w_end n)) [TEnd n] None).
Lemma w_start_interesting n a : starts_interesting (w_start n a).
Proof. exists 60, (n ++ attrs_src a ++ [62]). split; reflexivity. Qed.
Lemma w_end_len n : length (w_end n) = S (S (S (length n))).
Proof. unfold w_end. cbn [length]. rewrite app_length. cbn [length]. lia. Qed.

(* one iteration in cdata mode: the raw text and the end tag that closes the element *)
Lemma go_cdata_step f endf n off p s rest its g :
  find_interesting (Some n) (s ++ w_end n ++ rest) = Some (s, w_end n ++ rest) ->
  dispatch unesc endf (Some n) (w_end n ++ rest) = ACont (length (w_end n)) [TEnd n] None ->
  go unesc f endf None (off + length s + length (w_end n))%nat (updatepos (updatepos p s) (w_end n)) rest = (its, g) ->
  go unesc (S f) endf (Some n) off p (s ++ w_end n ++ rest) =
    (item_of off p s [TData s] ++ item_of (off + length s)%nat (updatepos p s) (w_end n) [TEnd n] ++ its, g).
Proof.
  intros FI D G. rewrite go_S by (destruct s; discriminate). rewrite FI. cbv zeta.
  unfold w_end in *. cbn [app] in *. rewrite D. cbn [length].
  change (60 :: 47 :: (n ++ [62]) ++ rest) with ((60 :: 47 :: n ++ [62]) ++ rest).
  change (S (S (length (n ++ [62])))) with (length (60 :: 47 :: n ++ [62])).
  rewrite firstn_pre, skipn_pre. cbn [length] in *. rewrite G. reflexivity.
Qed.

(* a script / style element: two iterations *)
Lemma go_raw f endf off p txt n a a' s rest its g :
  forallb not_interesting txt = true -> raw_step n a a' s ->
  go unesc f endf None (off + length txt + length (w_start n a) + length s + length (w_end n))%nat
     (updatepos (updatepos (updatepos (updatepos p txt) (w_start n a)) s) (w_end n)) rest = (its, g) ->
  go unesc (S (S f)) endf None off p (txt ++ (w_start n a ++ s ++ w_end n) ++ rest) =
    (item_of off p txt [TData txt] ++
     item_of (off + length txt)%nat (updatepos p txt) (w_start n a) [TStart n a'] ++
     item_of (off + length txt + length (w_start n a))%nat (updatepos (updatepos p txt) (w_start n a)) s [TData s] ++
     item_of (off + length txt + length (w_start n a) + length s)%nat
             (updatepos (updatepos (updatepos p txt) (w_start n a)) s) (w_end n) [TEnd n] ++ its, g).
Proof.
  intros Ht (D1 & FI & D2) G.
  replace (txt ++ (w_start n a ++ s ++ w_end n) ++ rest) with (txt ++ w_start n a ++ (s ++ w_end n ++ rest))
    by (rewrite <- !app_assoc; reflexivity).
  rewrite (go_step_cd (S f) endf off p txt (w_start n a) [TStart n a'] (Some n) (s ++ w_end n ++ rest)
             (item_of (off + length txt + length (w_start n a))%nat (updatepos (updatepos p txt) (w_start n a)) s [TData s] ++
              item_of (off + length txt + length (w_start n a) + length s)%nat
                      (updatepos (updatepos (updatepos p txt) (w_start n a)) s) (w_end n) [TEnd n] ++ its) g
             Ht (w_start_interesting n a) (D1 endf _)).
  - reflexivity.
  - apply go_cdata_step; [apply FI|apply D2|exact G].
Qed.

(* ------------------------------------------------------------------ a written token list *)
Definition tok_ok (t : wtok) : Prop :=
  match t with
  | WText s => s <> [] /\ forallb not_interesting s = true
  | WCons sp evs =>
      starts_interesting sp /\
      forall endf rest, dispatch unesc endf None (sp ++ rest) = ACont (length sp) evs None
  | WRaw n a a' s => raw_step n a a' s
  end.
Definition srcs (toks : list wtok) : str := concat (map tok_src toks).

Lemma srcs_cons t l : srcs (t :: l) = tok_src t ++ srcs l.
Proof. reflexivity. Qed.

Lemma item_evs_of off p sp evs : sp <> [] -> flat_map it_evs (item_of off p sp evs) = evs.
Proof. destruct sp; [congruence|]. intros _. cbn. apply app_nil_r. Qed.
Lemma item_evs_nil off p evs : flat_map it_evs (item_of off p [] evs) = [].
Proof. reflexivity. Qed.

Lemma raw_src_len n a s : (2 <= length (w_start n a ++ s ++ w_end n))%nat.
Proof. unfold w_start, w_end. cbn [app length]. rewrite !app_length. cbn [length]. lia. Qed.
Lemma raw_evs off p n a a' s o2 p2 o3 p3 :
  flat_map it_evs (item_of off p (w_start n a) [TStart n a'] ++ item_of o2 p2 s [TData s] ++ item_of o3 p3 (w_end n) [TEnd n]) =
  tok_evs (WRaw n a a' s).
Proof.
  rewrite !flat_map_app. unfold w_start at 1, w_end at 1. cbn [item_of flat_map it_evs app tok_evs].
  destruct s; reflexivity.
Qed.

Lemma go_toks : forall n toks, (length toks <= n)%nat -> Forall tok_ok toks -> no_adj_text toks = true ->
  forall endf fuel off p, (length (srcs toks) < fuel)%nat ->
  exists its g, go unesc fuel endf None off p (srcs toks) = (its, g) /\
                flat_map it_evs its = flat_map tok_evs toks /\
                gs_status g = Running /\ gs_rest g = [] /\ gs_cd g = None.
Proof.
  induction n as [|n IH]; intros toks Hn Hok Hadj endf fuel off p Hf.
  - destruct toks; [|cbn in Hn; lia]. destruct fuel; eexists _, _; cbn; repeat split; reflexivity.
  - destruct toks as [|t toks]; [destruct fuel; eexists _, _; cbn; repeat split; reflexivity|].
    inversion Hok as [|? ? Ht Hok']; subst. destruct fuel as [|f]; [lia|].
    destruct t as [s|sp evs|rn ra ra' rs].
    + (* text first *)
      destruct Ht as [Hne Hs]. destruct toks as [|t2 toks2].
      * rewrite srcs_cons. cbn [tok_src]. change (srcs []) with (@nil N). rewrite app_nil_r.
        rewrite (go_text_end f endf off p s Hne Hs).
        eexists _, _. split; [reflexivity|]. cbn [gs_status gs_rest gs_cd].
        rewrite (item_evs_of _ _ _ _ Hne). cbn. repeat split; reflexivity.
      * destruct t2 as [s2|sp evs|rn ra ra' rs]; [cbn in Hadj; discriminate| |].
        -- inversion Hok' as [|? ? Ht2 Hok'']; subst. destruct Ht2 as [Hsi Hd].
           rewrite !srcs_cons in *. cbn [tok_src] in *.
           cbn [no_adj_text] in Hadj. rewrite !app_length in Hf. cbn [length] in Hn.
           assert (1 <= length sp)%nat as Lsp by (destruct Hsi as (c & sp' & E0 & _); rewrite E0; cbn; lia).
           destruct (IH toks2 ltac:(lia) Hok'' Hadj endf f (off + length s + length sp)%nat
                        (updatepos (updatepos p s) sp) ltac:(lia))
             as (its & g & G & E & S1 & S2 & S3).
           rewrite (go_step f endf off p s sp evs (srcs toks2) its g Hs Hsi (Hd endf _) G).
           eexists _, _. split; [reflexivity|]. repeat split; auto.
           rewrite !flat_map_app, (item_evs_of _ _ _ _ Hne), E.
           destruct Hsi as (c & sp' & -> & _). cbn. now rewrite app_nil_r.
        -- inversion Hok' as [|? ? Ht2 Hok'']; subst. cbn [tok_ok] in Ht2.
           rewrite !srcs_cons in *. cbn [tok_src] in *.
           cbn [no_adj_text] in Hadj. cbn [length] in Hn.
           pose proof (raw_src_len rn ra rs) as L2. rewrite app_length in Hf. rewrite (app_length (w_start rn ra ++ rs ++ w_end rn)) in Hf.
           destruct f as [|f']; [lia|].
           destruct (IH toks2 ltac:(lia) Hok'' Hadj endf f'
                        (off + length s + length (w_start rn ra) + length rs + length (w_end rn))%nat
                        (updatepos (updatepos (updatepos (updatepos p s) (w_start rn ra)) rs) (w_end rn))
                        ltac:(rewrite !app_length in L2, Hf; lia))
             as (its & g & G & E & S1 & S2 & S3).
           rewrite (go_raw f' endf off p s rn ra ra' rs (srcs toks2) its g Hs Ht2 G).
           eexists _, _. split; [reflexivity|]. repeat split; auto.
           rewrite flat_map_app, (item_evs_of _ _ _ _ Hne). cbn [flat_map app]. rewrite !app_assoc.
           rewrite flat_map_app, E. rewrite <- !app_assoc. rewrite raw_evs. reflexivity.
    + (* a construct first *)
      destruct Ht as [Hsi Hd].
      rewrite srcs_cons in *. cbn [tok_src] in *.
      cbn [no_adj_text] in Hadj. rewrite app_length in Hf. cbn [length] in Hn.
      assert (1 <= length sp)%nat as Lsp by (destruct Hsi as (c & sp' & E0 & _); rewrite E0; cbn; lia).
      destruct (IH toks ltac:(lia) Hok' Hadj endf f (off + length (@nil N) + length sp)%nat
                   (updatepos (updatepos p []) sp) ltac:(lia))
        as (its & g & G & E & S1 & S2 & S3).
      pose proof (go_step f endf off p [] sp evs (srcs toks) its g eq_refl Hsi (Hd endf _) G) as ST.
      cbn [app] in ST. rewrite ST. eexists _, _. split; [reflexivity|]. repeat split; auto.
      rewrite !flat_map_app, E. destruct Hsi as (c & sp' & -> & _). cbn. now rewrite app_nil_r.
    + (* a script / style element first *)
      cbn [tok_ok] in Ht. rewrite srcs_cons in *. cbn [tok_src] in *.
      cbn [no_adj_text] in Hadj. cbn [length] in Hn.
      pose proof (raw_src_len rn ra rs) as L2. rewrite app_length in Hf.
      destruct f as [|f']; [lia|].
      destruct (IH toks ltac:(lia) Hok' Hadj endf f'
                   (off + length (@nil N) + length (w_start rn ra) + length rs + length (w_end rn))%nat
                   (updatepos (updatepos (updatepos (updatepos p []) (w_start rn ra)) rs) (w_end rn))
                   ltac:(rewrite !app_length in L2, Hf; lia))
        as (its & g & G & E & S1 & S2 & S3).
      pose proof (go_raw f' endf off p [] rn ra ra' rs (srcs toks) its g eq_refl Ht G) as ST.
      cbn [app] in ST. rewrite ST. eexists _, _. split; [reflexivity|]. repeat split; auto.
      cbn [item_of app]. rewrite !app_assoc. rewrite flat_map_app, E. rewrite <- !app_assoc. rewrite raw_evs. reflexivity.
Qed.

(* feed + close on a written token list: every callback, nothing rejected, nothing left *)
Theorem tokenize_toks toks : Forall tok_ok toks -> no_adj_text toks = true ->
  exists its g, tokenize unesc (srcs toks) = (its, g) /\ flat_map it_evs its = flat_map tok_evs toks /\
                gs_status g = Running /\ gs_rest g = [] /\ gs_cd g = None.
Proof.
  intros Hok Hadj.
  destruct (go_toks _ toks (le_n _) Hok Hadj false (S (length (srcs toks))) 0%nat start_pos (Nat.lt_succ_diag_r _))
    as (its & g & G & E & S1 & S2 & S3).
  unfold tokenize. rewrite G, S1, S2, S3. cbn [go]. unfold flush. cbn [gs_status gs_cd gs_rest].
  eexists _, _. split; [reflexivity|]. cbn [gs_status gs_cd gs_rest]. rewrite !app_nil_r. repeat split; auto.
Qed.

(* ------------------------------------------------------------------ character classes *)
Lemma memN_outside c l lo hi : lo <= c -> c <= hi ->
  forallb (fun x => (x <? lo) || (hi <? x)) l = true -> memN c l = false.
Proof.
  intros H1 H2. unfold memN. induction l as [|x l IH]; cbn; [reflexivity|]. intros H.
  apply andb_prop in H as [Hx Hl]. rewrite (IH Hl), orb_false_r.
  apply N.eqb_neq. intros ->. apply orb_prop in Hx as [Hx|Hx]; apply N.ltb_lt in Hx; lia.
Qed.
Lemma not_space_mid c : 33 <= c -> c <= 132 -> is_space c = false.
Proof. intros H1 H2. apply (memN_outside c space_cps 33 132 H1 H2). vm_compute. reflexivity. Qed.

Lemma alpha_range c : is_alpha c = true -> 65 <= c /\ c <= 122.
Proof.
  unfold is_alpha, is_upper, is_lower. intros H. apply orb_prop in H as [H|H]; apply andb_prop in H as [H1 H2];
    apply N.leb_le in H1; apply N.leb_le in H2; lia.
Qed.
Lemma lower_or_digit_range c : lower_or_digit c = true -> (45 <= c /\ c <= 46) \/ (48 <= c /\ c <= 58) \/ (95 <= c /\ c <= 122).
Proof.
  unfold lower_or_digit, is_lower, is_digit, memN. cbn [existsb]. intros H.
  apply orb_prop in H as [H|H]; [apply orb_prop in H as [H|H]; apply andb_prop in H as [H1 H2];
                                 apply N.leb_le in H1; apply N.leb_le in H2; lia|].
  repeat (apply orb_prop in H as [H|H]; [apply N.eqb_eq in H; lia|]). discriminate.
Qed.
Lemma eqb_false_range c k : c <> k -> (c =? k) = false.
Proof. apply N.eqb_neq. Qed.

Lemma span_app_stop p a c rest : forallb p a = true -> p c = false -> span p (a ++ c :: rest) = (a, c :: rest).
Proof. intros Ha Hc. apply span_intro; assumption. Qed.
Lemma span_head_false p x s : p x = false -> span p (x :: s) = ([], x :: s).
Proof. intros H. cbn. now rewrite H. Qed.
Lemma index_of_app c s rest : no_char c s = true -> index_of c (s ++ c :: rest) = Some (length s).
Proof.
  unfold no_char. induction s as [|x s IH]; cbn; intros H.
  - now rewrite N.eqb_refl.
  - apply andb_prop in H as [Hx Hs]. apply negb_true_iff in Hx. rewrite Hx, (IH Hs). reflexivity.
Qed.
Lemma interesting_lt : not_interesting 60 = false. Proof. reflexivity. Qed.
Lemma interesting_amp : not_interesting 38 = false. Proof. reflexivity. Qed.

(* ------------------------------------------------------------------ references *)
Lemma tok_ok_entity c r : is_alpha c = true -> forallb is_namechar r = true ->
  tok_ok (WCons (38 :: (c :: r) ++ [59]) [TEntityref (c :: r)]).
Proof.
  intros Hc Hr. split; [exists 38, ((c :: r) ++ [59]); split; reflexivity|]. intros endf rest.
  apply alpha_range in Hc as Rc.
  assert ((c =? 35) = false) as E35 by (apply N.eqb_neq; lia).
  cbn [app]. rewrite <- app_assoc. cbn [app]. unfold dispatch.
  change (38 =? 60) with false. change (38 =? 38) with true. cbv iota. rewrite E35.
  unfold entityref_match. rewrite Hc. rewrite (span_app_stop is_namechar r 59 rest Hr eq_refl).
  change (N.eqb 59 59) with true. cbn [length]. rewrite app_length. cbn [length].
  f_equal; lia.
Qed.

Lemma tok_ok_charref n : simple_charref n = true -> tok_ok (WCons (38 :: 35 :: n ++ [59]) [TCharref n]).
Proof.
  intros Hn. split; [exists 38, (35 :: n ++ [59]); split; reflexivity|]. intros endf rest.
  cbn [app]. rewrite <- app_assoc. cbn [app]. unfold dispatch.
  change (38 =? 60) with false. change (38 =? 38) with true. change (35 =? 35) with true. cbv iota.
  assert (charref_match (n ++ 59 :: rest) = Some (n, 59)) as CM.
  { unfold simple_charref in Hn. apply orb_prop in Hn as [Hd|Hx].
    - unfold charref_match. destruct n as [|d ds]; [discriminate|]. cbn [nonempty_all] in Hd.
      rewrite (span_app_stop is_digit (d :: ds) 59 rest Hd eq_refl). reflexivity.
    - destruct n as [|x hs]; [discriminate|]. apply andb_prop in Hx as [Hx Hh].
      destruct hs as [|h hs']; [discriminate|]. cbn [nonempty_all] in Hh.
      unfold charref_match. cbn [app].
      assert (is_digit x = false) as Dx.
      { apply orb_prop in Hx as [E|E]; apply N.eqb_eq in E; subst; reflexivity. }
      rewrite (span_head_false is_digit x _ Dx). rewrite Hx.
      change (h :: hs' ++ 59 :: rest) with ((h :: hs') ++ 59 :: rest).
      rewrite (span_app_stop is_hexd (h :: hs') 59 rest Hh eq_refl). reflexivity. }
  rewrite CM. change (N.eqb 59 59) with true. cbn [length]. rewrite app_length. cbn [length]. f_equal; lia.
Qed.

(* ------------------------------------------------------------------ <?...> and <!--...--> *)
Lemma tok_ok_pi s : no_char 62 s = true -> tok_ok (WCons (60 :: 63 :: s ++ [62]) [TPi s]).
Proof.
  intros Hs. split; [exists 60, (63 :: s ++ [62]); split; reflexivity|]. intros endf rest.
  cbn [app]. rewrite <- app_assoc. cbn [app]. unfold dispatch.
  change (60 =? 60) with true. cbv iota. change (is_alpha 63) with false. change (63 =? 47) with false.
  cbv iota. change (has_prefix s_comment_open (60 :: 63 :: s ++ 62 :: rest)) with false.
  change (63 =? 63) with true. cbv iota.
  unfold parse_pi. cbn [skipn]. rewrite (index_of_app 62 s rest Hs). unfold of_pres.
  rewrite firstn_pre. cbn [length]. rewrite app_length. cbn [length]. f_equal; lia.
Qed.

Lemma search_skip m s t : (forall c r, In c s -> m (c :: r) = None) ->
  search m (s ++ t) = match search m t with Some (a, b) => Some (length s + a, length s + b)%nat | None => None end.
Proof.
  intros H. induction s as [|x s IH]; cbn [app length].
  - destruct (search m t) as [[a b]|]; reflexivity.
  - cbn [search]. rewrite (H x (s ++ t) (or_introl eq_refl)). rewrite IH by (intros c r Hc; apply H; right; exact Hc).
    destruct (search m t) as [[a b]|]; reflexivity.
Qed.
Lemma no_char_in c s x : no_char c s = true -> In x s -> x <> c.
Proof.
  unfold no_char. intros H Hin. rewrite forallb_forall in H. specialize (H x Hin).
  apply negb_true_iff in H. now apply N.eqb_neq in H.
Qed.

Lemma cc_none_ne c r : c <> 45 -> commentclose_at (c :: r) = None.
Proof.
  intros Nc. unfold commentclose_at. destruct c as [|pc]; [reflexivity|].
  repeat (destruct pc as [pc|pc|]; try reflexivity). congruence.
Qed.
Lemma cc_none_2 d r : d <> 45 -> commentclose_at (45 :: d :: r) = None.
Proof.
  intros Nd. unfold commentclose_at. destruct d as [|pd]; [reflexivity|].
  repeat (destruct pd as [pd|pd|]; try reflexivity). congruence.
Qed.
Lemma search_comment s rest : no_dd s = true ->
  search commentclose_at (s ++ 45 :: 45 :: 62 :: rest) = Some (length s, (length s + 3)%nat).
Proof.
  induction s as [|c s' IH]; intros H.
  - cbn [app length search commentclose_at span]. change (is_space 62) with false. cbv iota. change (62 =? 62) with true.
    reflexivity.
  - cbn [no_dd] in H. apply andb_prop in H as [H1 H2]. apply negb_true_iff in H1.
    assert (commentclose_at (c :: s' ++ 45 :: 45 :: 62 :: rest) = None) as CN.
    { destruct (N.eq_dec c 45) as [->|Nc]; [|now apply cc_none_ne].
      change (45 =? 45) with true in H1. cbn [andb] in H1. destruct s' as [|d s''].
      - reflexivity.
      - cbn [app]. apply cc_none_2. intros ->. discriminate H1. }
    cbn [app length search]. rewrite CN. rewrite (IH H2). reflexivity.
Qed.
Lemma tok_ok_comment s : no_dd s = true ->
  tok_ok (WCons (60 :: 33 :: 45 :: 45 :: s ++ [45; 45; 62]) [TComment s]).
Proof.
  intros Hs. split; [exists 60, (33 :: 45 :: 45 :: s ++ [45; 45; 62]); split; reflexivity|]. intros endf rest.
  cbn [app]. rewrite <- app_assoc. cbn [app]. unfold dispatch.
  change (60 =? 60) with true. cbv iota. change (is_alpha 33) with false. change (33 =? 47) with false. cbv iota.
  change (has_prefix s_comment_open (60 :: 33 :: 45 :: 45 :: s ++ 45 :: 45 :: 62 :: rest)) with true. cbv iota.
  unfold parse_comment. cbn [skipn]. rewrite (search_comment s rest Hs).
  unfold of_pres. rewrite firstn_pre. cbn [length]. rewrite app_length. cbn [length]. f_equal; lia.
Qed.

(* ------------------------------------------------------------------ tags without attributes *)
Lemma forallb_impl {A} (p q : A -> bool) l : (forall x, p x = true -> q x = true) -> forallb p l = true -> forallb q l = true.
Proof. intros H. induction l as [|x l IH]; cbn; [auto|]. intros E. apply andb_prop in E as [E1 E2]. now rewrite (H _ E1), IH. Qed.

Lemma lod_name_char x : lower_or_digit x = true -> name_char x = true.
Proof.
  intros H. apply lower_or_digit_range in H as [[H1 H2]|[[H1 H2]|[H1 H2]]]; unfold name_char; apply negb_true_iff.
  - apply (memN_outside x _ 45 46); [lia|lia|vm_compute; reflexivity].
  - apply (memN_outside x _ 48 58); [lia|lia|vm_compute; reflexivity].
  - apply (memN_outside x _ 95 122); [lia|lia|vm_compute; reflexivity].
Qed.
Lemma lod_not_space x : lower_or_digit x = true -> is_space x = false.
Proof. intros H. apply lower_or_digit_range in H. apply not_space_mid; lia. Qed.
Lemma lod_etag x : lower_or_digit x = true -> etag_char x = true.
Proof.
  unfold lower_or_digit, etag_char, is_alnum, is_alpha. intros H.
  apply orb_prop in H as [H|H]; [apply orb_prop in H as [H|H]; rewrite H; cbn; rewrite ?orb_true_r; reflexivity|].
  rewrite H. apply orb_true_r.
Qed.
Lemma lod_lower1 x : lower_or_digit x = true -> lower1 x = x.
Proof.
  intros H. apply lower_or_digit_range in H. unfold lower1, is_upper.
  destruct (65 <=? x) eqn:A; destruct (x <=? 90) eqn:B; cbn; try reflexivity.
  apply N.leb_le in A. apply N.leb_le in B. lia.
Qed.
Lemma lod_not_gt x : lower_or_digit x = true -> negb (x =? 62) = true.
Proof. intros H. apply lower_or_digit_range in H. apply negb_true_iff, N.eqb_neq. lia. Qed.
Lemma lower_lod c : is_lower c = true -> lower_or_digit c = true.
Proof. unfold lower_or_digit. now intros ->. Qed.
Lemma lower_alpha c : is_lower c = true -> is_alpha c = true.
Proof. unfold is_alpha. intros ->. apply orb_true_r. Qed.

Lemma ascii_lower_id n : forallb lower_or_digit n = true -> ascii_lower n = n.
Proof.
  unfold ascii_lower. induction n as [|x n IH]; cbn [map forallb]; [reflexivity|]. intros H.
  apply andb_prop in H as [H1 H2]. now rewrite (lod_lower1 _ H1), IH.
Qed.

Lemma scan_attr_gt prev rest : scan_attr prev (62 :: rest) = None.
Proof. unfold scan_attr. change (attr_first 62) with false. now rewrite andb_false_r. Qed.
Lemma scan_attr_slash prev rest : scan_attr prev (47 :: rest) = None.
Proof. unfold scan_attr. change (attr_first 47) with false. now rewrite andb_false_r. Qed.
Lemma locate_attrs_stop fuel s0 k : scan_attr (nth (k - 1) s0 0) (skipn k s0) = None -> locate_attrs fuel s0 k = k.
Proof. intros H. destruct fuel; cbn [locate_attrs]; [reflexivity|]. now rewrite H. Qed.
Lemma attr_loop_stop fuel e s0 k : scan_attr (nth (k - 1) s0 0) (skipn k s0) = None -> attr_loop unesc fuel e s0 k = ([], k).
Proof. intros H. destruct fuel; cbn [attr_loop]; [reflexivity|]. destruct (k <? e)%nat; [|reflexivity]. now rewrite H. Qed.

Lemma skipn_S_pre (x : N) (a b : str) : skipn (S (length a)) (x :: a ++ b) = b.
Proof. cbn [skipn]. apply skipn_pre. Qed.

Definition name_ok (n : str) : Prop :=
  exists c r, n = c :: r /\ is_lower c = true /\ forallb lower_or_digit r = true /\ memS n cdata_content_elements = false.
Lemma simple_name_ok n : simple_name n = true -> name_ok n.
Proof.
  unfold simple_name. destruct n as [|c r]; [discriminate|]. intros H.
  apply andb_prop in H as [H H3]. apply andb_prop in H as [H1 H2]. apply negb_true_iff in H3.
  exists c, r. auto.
Qed.
Lemma name_ok_all n : name_ok n -> forallb lower_or_digit n = true.
Proof. intros (c & r & -> & Hc & Hr & _). cbn. now rewrite (lower_lod _ Hc), Hr. Qed.
(* a lower-case name, script / style included *)
Definition lname (n : str) : Prop := exists c r, n = c :: r /\ is_lower c = true /\ forallb lower_or_digit r = true.
Lemma name_ok_lname n : name_ok n -> lname n.
Proof. intros (c & r & E & Hc & Hr & _). exists c, r. auto. Qed.
Lemma lname_all n : lname n -> forallb lower_or_digit n = true.
Proof. intros (c & r & -> & Hc & Hr). cbn. now rewrite (lower_lod _ Hc), Hr. Qed.
Definition cd_after (n : str) : option (option str) := if memS n cdata_content_elements then Some (Some n) else None.

Lemma parse_starttag_open n rest : lname n ->
  parse_starttag unesc (60 :: n ++ 62 :: rest) = PTo (S (S (length n))) [TStart n []] (cd_after n).
Proof.
  intros Hn. pose proof (lname_all n Hn) as Hall. destruct Hn as (c & r & En & Hc & Hr).
  pose proof (forallb_impl _ _ _ lod_name_char Hall) as Hnc.
  assert (span name_char (n ++ 62 :: rest) = (n, 62 :: rest)) as SP by (apply span_app_stop; [exact Hnc|reflexivity]).
  assert (skipn (S (length n)) (60 :: n ++ 62 :: rest) = 62 :: rest) as SK by apply skipn_S_pre.
  assert (check_whole (60 :: n ++ 62 :: rest) = Some (S (S (length n)))) as CW.
  { unfold check_whole, locate_end. cbn [tl]. rewrite SP. cbn [span]. change (ws_or_slash 62) with false. cbv iota.
    cbn [length]. replace (1 + length n + 0)%nat with (S (length n)) by lia.
    rewrite locate_attrs_stop by (rewrite SK; apply scan_attr_gt).
    rewrite SK. cbn [span]. change (is_space 62) with false. cbv iota. cbn [fst length].
    replace (S (length n) + 0)%nat with (S (length n)) by lia. rewrite SK. reflexivity. }
  unfold parse_starttag. rewrite CW. cbn [tl]. rewrite SP. cbn [skip_ws_slash]. change (is_space 62) with false.
  change (62 =? 47) with false. cbv iota. cbn [length]. replace (1 + length n + 0)%nat with (S (length n)) by lia.
  rewrite attr_loop_stop by (rewrite SK; apply scan_attr_gt).
  rewrite SK. replace (S (S (length n)) - S (length n))%nat with 1%nat by lia.
  rewrite (ascii_lower_id n Hall). reflexivity.
Qed.

Lemma parse_starttag_self n rest : lname n ->
  parse_starttag unesc (60 :: n ++ 47 :: 62 :: rest) = PTo (S (S (S (length n)))) [TStartEnd n []] None.
Proof.
  intros Hn. pose proof (lname_all n Hn) as Hall. destruct Hn as (c & r & En & Hc & Hr).
  pose proof (forallb_impl _ _ _ lod_name_char Hall) as Hnc.
  assert (span name_char (n ++ 47 :: 62 :: rest) = (n, 47 :: 62 :: rest)) as SP by (apply span_app_stop; [exact Hnc|reflexivity]).
  assert (skipn (S (length n)) (60 :: n ++ 47 :: 62 :: rest) = 47 :: 62 :: rest) as SK by apply skipn_S_pre.
  assert (skipn (S (S (length n))) (60 :: n ++ 47 :: 62 :: rest) = 62 :: rest) as SK2.
  { replace (S (S (length n))) with (S (length (n ++ [47]))) by (rewrite app_length; cbn; lia).
    replace (60 :: n ++ 47 :: 62 :: rest) with (60 :: (n ++ [47]) ++ 62 :: rest) by (now rewrite <- app_assoc).
    apply skipn_S_pre. }
  assert (check_whole (60 :: n ++ 47 :: 62 :: rest) = Some (S (S (S (length n))))) as CW.
  { unfold check_whole, locate_end. cbn [tl]. rewrite SP. cbn [span]. change (ws_or_slash 47) with true.
    change (ws_or_slash 62) with false. cbv iota.
    cbn [length]. replace (1 + length n + 1)%nat with (S (S (length n))) by lia.
    rewrite locate_attrs_stop by (rewrite SK2; apply scan_attr_gt).
    rewrite SK2. cbn [span]. change (is_space 62) with false. cbv iota. cbn [fst length].
    replace (S (S (length n)) + 0)%nat with (S (S (length n))) by lia. rewrite SK2. reflexivity. }
  unfold parse_starttag. rewrite CW. cbn [tl]. rewrite SP. cbn [skip_ws_slash]. change (is_space 47) with false.
  change (47 =? 47) with true. change (62 =? 62) with true. cbv iota. cbn [length].
  replace (1 + length n + 0)%nat with (S (length n)) by lia.
  rewrite attr_loop_stop by (rewrite SK; apply scan_attr_slash).
  rewrite SK. replace (S (S (S (length n))) - S (length n))%nat with 2%nat by lia.
  rewrite (ascii_lower_id n Hall). reflexivity.
Qed.

Definition cdv (n : str) : option str := if memS n cdata_content_elements then Some n else None.
Lemma dispatch_start0 endf n rest : lname n ->
  dispatch unesc endf None (w_start n [] ++ rest) = ACont (length (w_start n [])) [TStart n []] (cdv n).
Proof.
  intros Hn. unfold w_start, attrs_src. cbn [app]. rewrite <- app_assoc. cbn [app].
  pose proof Hn as (c & r & En & Hc & Hr).
  unfold dispatch. change (60 =? 60) with true. cbv iota. subst n. cbn [app]. rewrite (lower_alpha _ Hc).
  change (60 :: c :: r ++ 62 :: rest) with (60 :: (c :: r) ++ 62 :: rest).
  rewrite (parse_starttag_open (c :: r) rest Hn). unfold cd_after, cdv, of_pres.
  destruct (memS (c :: r) cdata_content_elements); cbn [length]; rewrite app_length; cbn [length]; f_equal; lia.
Qed.
Lemma name_ok_cdv n : name_ok n -> cdv n = None.
Proof. intros (c & r & _ & _ & _ & H). unfold cdv. now rewrite H. Qed.
Lemma tok_ok_start0 n : name_ok n -> tok_ok (WCons (w_start n []) [TStart n []]).
Proof.
  intros Hn. split; [exists 60, (n ++ [62]); split; reflexivity|]. intros endf rest.
  rewrite (dispatch_start0 endf n rest (name_ok_lname _ Hn)), (name_ok_cdv n Hn). reflexivity.
Qed.
Lemma tok_ok_self0 n : name_ok n -> tok_ok (WCons (w_self n []) [TStartEnd n []]).
Proof.
  intros Hn. split; [exists 60, (n ++ [47; 62]); split; reflexivity|]. intros endf rest.
  unfold w_self, attrs_src. cbn [app]. rewrite <- app_assoc. cbn [app].
  pose proof Hn as (c & r & En & Hc & Hr & Hcd).
  unfold dispatch. change (60 =? 60) with true. cbv iota. subst n. cbn [app]. rewrite (lower_alpha _ Hc).
  change (60 :: c :: r ++ 47 :: 62 :: rest) with (60 :: (c :: r) ++ 47 :: 62 :: rest).
  rewrite (parse_starttag_self (c :: r) rest (name_ok_lname _ Hn)). unfold of_pres. cbn [length]. rewrite app_length. cbn [length].
  f_equal; lia.
Qed.

Lemma str_eqb_refl s : str_eqb s s = true.
Proof. now apply str_eqb_eq. Qed.
(* an end tag, in normal mode or closing the open script / style element *)
Lemma dispatch_endtag endf cd n rest : lname n -> cd = None \/ cd = Some n ->
  dispatch unesc endf cd (60 :: 47 :: n ++ 62 :: rest) = ACont (S (S (S (length n)))) [TEnd n] None.
Proof.
  intros Hn Hcd. pose proof (lname_all n Hn) as Hall. destruct Hn as (c & r & En & Hc & Hr).
  unfold dispatch. change (60 =? 60) with true. cbv iota. change (is_alpha 47) with false. change (47 =? 47) with true.
  cbv iota. unfold parse_endtag. cbn [tl index_of]. change (47 =? 62) with false. cbv iota.
  rewrite (index_of_app 62 n rest) by (unfold no_char; exact (forallb_impl _ _ _ lod_not_gt Hall)).
  cbn [option_map].
  assert (endtagfind (60 :: 47 :: n ++ 62 :: rest) = Some n) as EF.
  { unfold endtagfind. cbn [skipn]. subst n. cbn [app].
    rewrite (span_head_false is_space c _ (lod_not_space _ (lower_lod _ Hc))).
    rewrite (lower_alpha _ Hc).
    rewrite (span_app_stop etag_char r 62 rest (forallb_impl _ _ _ lod_etag Hr) eq_refl).
    cbn [span]. change (is_space 62) with false. cbv iota. change (62 =? 62) with true. reflexivity. }
  rewrite EF. rewrite (ascii_lower_id n Hall).
  destruct Hcd as [-> | ->]; [|rewrite str_eqb_refl]; unfold of_pres; reflexivity.
Qed.
Lemma tok_ok_end n : name_ok n -> tok_ok (WCons (w_end n) [TEnd n]).
Proof.
  intros Hn. split; [exists 60, (47 :: n ++ [62]); split; reflexivity|]. intros endf rest.
  unfold w_end. cbn [app]. rewrite <- app_assoc. cbn [app].
  rewrite (dispatch_endtag endf None n rest (name_ok_lname _ Hn) (or_introl eq_refl)).
  cbn [length]. rewrite app_length. cbn [length]. f_equal; lia.
Qed.

(* ------------------------------------------------------------------ <!DOCTYPE ...> and <![CDATA[...]]> *)
Lemma tok_ok_doctype kw s : kw = lit_DOCTYPE_sp \/ kw = lit_doctype_sp -> no_char 62 s = true ->
  tok_ok (WCons (60 :: 33 :: kw ++ s ++ [62]) [TDecl (kw ++ s)]).
Proof.
  intros Hk Hs. split; [exists 60, (33 :: kw ++ s ++ [62]); split; reflexivity|]. intros endf rest.
  destruct Hk as [-> | ->]; unfold lit_DOCTYPE_sp, lit_doctype_sp; cbn [app]; rewrite <- app_assoc; cbn [app];
    unfold dispatch; change (60 =? 60) with true; cbv iota; change (is_alpha 33) with false;
    change (33 =? 47) with false; cbv iota;
    match goal with |- context [has_prefix s_comment_open ?x] => replace (has_prefix s_comment_open x) with false by reflexivity end;
    change (33 =? 63) with false; change (33 =? 33) with true; cbv iota;
    unfold parse_html_declaration;
    match goal with |- context [has_prefix s_comment_open ?x] => replace (has_prefix s_comment_open x) with false by reflexivity end;
    match goal with |- context [has_prefix s_marked_open ?x] => replace (has_prefix s_marked_open x) with false by reflexivity end;
    match goal with |- context [str_eqb (ascii_lower (firstn 9 ?x)) s_doctype_open] =>
      replace (str_eqb (ascii_lower (firstn 9 x)) s_doctype_open) with true by reflexivity end;
    cbv iota; cbn [skipn index_of]; change (32 =? 62) with false; cbv iota;
    rewrite (index_of_app 62 s rest Hs); cbn [option_map]; unfold of_pres;
    cbn [Nat.add firstn]; rewrite firstn_pre; cbn [length]; rewrite app_length; cbn [length]; f_equal; lia.
Qed.

Lemma markedclose_not93 c r : c <> 93 -> markedclose_at (c :: r) = None.
Proof.
  intros Nc. unfold markedclose_at. destruct c as [|pc]; [reflexivity|].
  repeat (destruct pc as [pc|pc|]; try reflexivity). congruence.
Qed.

Lemma tok_ok_cdata kw s : kw = s_cdata_open \/ kw = lit_cdata_open -> no_char 93 s = true ->
  tok_ok (WCons (60 :: 33 :: 91 :: kw ++ s ++ [93; 93; 62]) [TUnknownDecl (kw ++ s)]).
Proof.
  intros Hk Hs. split; [exists 60, (33 :: 91 :: kw ++ s ++ [93; 93; 62]); split; reflexivity|]. intros endf rest.
  assert (forall c r, In c (kw ++ s) -> markedclose_at (c :: r) = None) as NM.
  { intros c r Hc. apply markedclose_not93. apply in_app_or in Hc as [Hc|Hc].
    - destruct Hk as [-> | ->]; cbn in Hc; intuition (subst; discriminate).
    - exact (no_char_in 93 s c Hs Hc). }
  assert (length kw = 6%nat) as Lk by (destruct Hk as [-> | ->]; reflexivity).
  assert (parse_marked_section (60 :: 33 :: 91 :: (kw ++ s) ++ 93 :: 93 :: 62 :: rest) =
          PTo (3 + (length (kw ++ s) + 3))%nat [TUnknownDecl (kw ++ s)] None) as PM.
  { unfold parse_marked_section. cbn [skipn].
    assert (scan_name ((kw ++ s) ++ 93 :: 93 :: 62 :: rest) = SName lit_cdata 5%nat) as SN
      by (destruct Hk as [-> | ->]; reflexivity).
    rewrite SN. replace (memS lit_cdata [lit_temp; lit_cdata; lit_ignore; lit_include; lit_rcdata]) with true by reflexivity.
    cbv iota. rewrite (search_skip markedclose_at (kw ++ s) (93 :: 93 :: 62 :: rest) NM).
    replace (search markedclose_at (93 :: 93 :: 62 :: rest)) with (Some (0, 3)%nat) by reflexivity.
    cbv iota. rewrite Nat.add_0_r, firstn_pre. reflexivity. }
  cbn [app].
  replace ((kw ++ s ++ [93; 93; 62]) ++ rest) with ((kw ++ s) ++ 93 :: 93 :: 62 :: rest)
    by (rewrite <- !app_assoc; reflexivity).
  unfold dispatch. change (60 =? 60) with true. cbv iota. change (is_alpha 33) with false.
  change (33 =? 47) with false. cbv iota.
  match goal with |- context [has_prefix s_comment_open ?x] => replace (has_prefix s_comment_open x) with false by reflexivity end.
  change (33 =? 63) with false. change (33 =? 33) with true. cbv iota.
  unfold parse_html_declaration.
  match goal with |- context [has_prefix s_comment_open ?x] => replace (has_prefix s_comment_open x) with false by reflexivity end.
  match goal with |- context [has_prefix s_marked_open ?x] => replace (has_prefix s_marked_open x) with true by reflexivity end.
  cbv iota. rewrite PM. unfold of_pres. cbn [length]. rewrite !app_length. cbn [length]. f_equal; lia.
Qed.

(* ------------------------------------------------------------------ tags with attributes *)
Definition stops_here (R : str) : Prop :=
  exists c R', R = c :: R' /\ (attr_start c = true \/ c = 62 \/ (c = 47 /\ exists R'', R' = 62 :: R'')).
Definition tail_ok (tail : str) : Prop := (exists r, tail = 62 :: r) \/ (exists r, tail = 47 :: 62 :: r).

Lemma lower_range c : is_lower c = true -> 97 <= c /\ c <= 122.
Proof. unfold is_lower. intros H. apply andb_prop in H as [H1 H2]. apply N.leb_le in H1. apply N.leb_le in H2. lia. Qed.
Lemma astart_range c : attr_start c = true -> (97 <= c /\ c <= 122) \/ c = 95 \/ c = 58.
Proof.
  unfold attr_start. intros H. apply orb_prop in H as [H|H]; [apply orb_prop in H as [H|H]|].
  - left. now apply lower_range.
  - apply N.eqb_eq in H. auto.
  - apply N.eqb_eq in H. auto.
Qed.
Lemma astart_lod c : attr_start c = true -> lower_or_digit c = true.
Proof.
  unfold attr_start, lower_or_digit. intros H. apply orb_prop in H as [H|H]; [apply orb_prop in H as [H|H]|].
  - now rewrite H.
  - apply N.eqb_eq in H. subst. reflexivity.
  - apply N.eqb_eq in H. subst. reflexivity.
Qed.
Lemma stops_skip R : stops_here R -> skip_ws_slash R = ([], R).
Proof.
  intros (c & R' & -> & [H|[->|[-> (R'' & ->)]]]); [|reflexivity|reflexivity].
  cbn [skip_ws_slash]. rewrite (lod_not_space _ (astart_lod _ H)).
  apply astart_range in H. replace (c =? 47) with false by (symmetry; apply N.eqb_neq; lia). reflexivity.
Qed.
Lemma stops_not_space R : stops_here R -> span is_space R = ([], R).
Proof.
  intros (c & R' & -> & [H|[->|[-> _]]]); [|reflexivity|reflexivity].
  apply span_head_false. exact (lod_not_space _ (astart_lod _ H)).
Qed.
Lemma stops_not_eq R : stops_here R -> span (N.eqb 61) R = ([], R).
Proof.
  intros (c & R' & -> & [H|[->|[-> _]]]); [|reflexivity|reflexivity].
  apply span_head_false. apply astart_range in H. apply N.eqb_neq. lia.
Qed.
Lemma tail_stops tail : tail_ok tail -> stops_here tail.
Proof. intros [[r ->]|[r ->]]; [exists 62, r|exists 47, (62 :: r)]; split; eauto 6. Qed.
Lemma tail_no_attr prev tail : tail_ok tail -> scan_attr prev tail = None.
Proof. intros [[r ->]|[r ->]]; [apply scan_attr_gt|apply scan_attr_slash]. Qed.

Lemma scan_value_quoted_q q x T : q = 34 \/ q = 39 -> no_char q x = true -> scan_value (61 :: q :: x ++ q :: T) = Some (x, T).
Proof.
  intros Hq Hx. unfold scan_value.
  rewrite (span_head_false is_space 61 _ eq_refl).
  assert (span (N.eqb 61) (61 :: q :: x ++ q :: T) = ([61], q :: x ++ q :: T)) as E1
    by (destruct Hq as [-> | ->]; reflexivity).
  rewrite E1.
  assert (span is_space (q :: x ++ q :: T) = ([], q :: x ++ q :: T)) as E2
    by (destruct Hq as [-> | ->]; reflexivity).
  rewrite E2.
  assert ((q =? 39) || (q =? 34) = true) as E3 by (destruct Hq as [-> | ->]; reflexivity).
  rewrite E3.
  rewrite (span_app_stop (fun c => negb (c =? q)) x q T Hx) by (now rewrite N.eqb_refl). reflexivity.
Qed.
Lemma memN_no_char c s : memN c s = false -> no_char c s = true.
Proof.
  unfold no_char, memN. induction s as [|x s IH]; cbn; [reflexivity|]. intros H. apply orb_false_iff in H as [H1 H2].
  rewrite N.eqb_sym, H1. cbn. now apply IH.
Qed.
Lemma quote_ok x : negb (memN 34 x && memN 39 x) = true -> (quote_of x = 34 \/ quote_of x = 39) /\ no_char (quote_of x) x = true.
Proof.
  unfold quote_of. destruct (memN 34 x) eqn:D; cbn [andb negb]; intros H.
  - split; [auto|]. apply memN_no_char. now apply negb_true_iff in H.
  - split; [auto|]. now apply memN_no_char.
Qed.
Lemma scan_value_quoted x T : negb (memN 34 x && memN 39 x) = true ->
  scan_value (61 :: quote_of x :: x ++ quote_of x :: T) = Some (x, T).
Proof. intros H. destruct (quote_ok x H) as [Q N]. now apply scan_value_quoted_q. Qed.
Lemma scan_value_none R : stops_here R -> scan_value (32 :: R) = None.
Proof.
  intros H. unfold scan_value. cbn [span]. change (is_space 32) with true. cbv iota.
  rewrite (stops_not_space R H), (stops_not_eq R H). reflexivity.
Qed.

Lemma lod_attr_rest x : lower_or_digit x = true -> attr_rest x = true.
Proof.
  intros H. unfold attr_rest. rewrite (lod_not_space _ H). apply lower_or_digit_range in H.
  replace (x =? 47) with false by (symmetry; apply N.eqb_neq; lia).
  replace (x =? 61) with false by (symmetry; apply N.eqb_neq; lia).
  replace (x =? 62) with false by (symmetry; apply N.eqb_neq; lia). reflexivity.
Qed.
Lemma lower_attr_first c : attr_start c = true -> attr_first c = true.
Proof.
  intros H. unfold attr_first. rewrite (lod_not_space _ (astart_lod _ H)). apply astart_range in H.
  replace (c =? 47) with false by (symmetry; apply N.eqb_neq; lia).
  replace (c =? 62) with false by (symmetry; apply N.eqb_neq; lia). reflexivity.
Qed.

Lemma scan_attr_written k v R : quoted_attr (k, v) = true -> stops_here R ->
  scan_attr 32 (attr_src (k, v) ++ R) = Some (k, v, R).
Proof.
  unfold quoted_attr, simple_attr_name, attr_src. cbn [fst snd]. intros H HR.
  apply andb_prop in H as [Hk Hv]. destruct k as [|c kr]; [discriminate|]. apply andb_prop in Hk as [Hc Hkr].
  pose proof (forallb_impl _ _ _ lod_attr_rest Hkr) as Hrest.
  unfold scan_attr. cbn [app]. change (lookbehind_ok 32) with true. rewrite (lower_attr_first _ Hc). cbv iota. cbn [andb].
  destruct v as [x|].
  - pose proof Hv as Hq. unfold val_src.
    replace ((kr ++ (61 :: quote_of x :: x ++ [quote_of x]) ++ [32]) ++ R) with (kr ++ 61 :: quote_of x :: x ++ quote_of x :: 32 :: R)
      by (cbn [app]; rewrite <- !app_assoc; cbn [app]; rewrite <- !app_assoc; reflexivity).
    rewrite (span_app_stop attr_rest kr 61 _ Hrest eq_refl).
    rewrite (scan_value_quoted x (32 :: R) Hq).
    cbn [skip_ws_slash]. change (is_space 32) with true. cbv iota. rewrite (stops_skip R HR). reflexivity.
  - unfold val_src. replace ((kr ++ [] ++ [32]) ++ R) with (kr ++ 32 :: R)
      by (cbn [app]; rewrite <- app_assoc; reflexivity).
    rewrite (span_app_stop attr_rest kr 32 _ Hrest eq_refl).
    rewrite (scan_value_none R HR).
    cbn [skip_ws_slash]. change (is_space 32) with true. cbv iota. rewrite (stops_skip R HR). reflexivity.
Qed.

(* attributes that are all followed by a blank (= all but the last one) *)
Definition osrc (a : list (str * option str)) : str := concat (map attr_src a).
Lemma osrc_cons kv a : osrc (kv :: a) = attr_src kv ++ osrc a.
Proof. reflexivity. Qed.
Lemma osrc_len a : (length a <= length (osrc a))%nat.
Proof.
  induction a as [|[k v] a IH]; [cbn; lia|]. rewrite osrc_cons, app_length. unfold attr_src. cbn [fst snd].
  rewrite !app_length. cbn [length]. lia.
Qed.
Lemma attr_head_lower k v R : quoted_attr (k, v) = true -> exists c R', (k ++ val_src v) ++ R = c :: R' /\ attr_start c = true.
Proof.
  unfold quoted_attr, simple_attr_name. cbn [fst snd]. intros H. apply andb_prop in H as [Hk _].
  destruct k as [|c kr]; [discriminate|]. apply andb_prop in Hk as [Hc _]. cbn [app]. eauto.
Qed.
Lemma osrc_stops a R : quoted_attrs a = true -> stops_here R -> stops_here (osrc a ++ R).
Proof.
  intros Ha HR. destruct a as [|[k v] a']; [exact HR|].
  cbn [quoted_attrs forallb] in Ha. apply andb_prop in Ha as [H1 _].
  rewrite osrc_cons. unfold attr_src. cbn [fst snd]. rewrite <- !app_assoc.
  destruct (attr_head_lower k v ([32] ++ osrc a' ++ R) H1) as (c & R' & E & Hc).
  rewrite <- app_assoc in E. rewrite E. exists c, R'. auto.
Qed.
Lemma nth_last_pre (pre0 rest : str) : nth (length pre0) ((pre0 ++ [32]) ++ rest) 0 = 32.
Proof. rewrite <- app_assoc. rewrite app_nth2 by lia. now rewrite Nat.sub_diag. Qed.
Lemma attr_src_shift pre0 kv a R :
  (pre0 ++ [32]) ++ osrc (kv :: a) ++ R = ((pre0 ++ 32 :: fst kv ++ val_src (snd kv)) ++ [32]) ++ osrc a ++ R.
Proof. destruct kv as [k v]. rewrite osrc_cons. unfold attr_src. cbn [fst snd]. rewrite <- !app_assoc. cbn [app]. rewrite <- !app_assoc. reflexivity. Qed.
Lemma attr_src_len pre0 kv : S (length (pre0 ++ 32 :: fst kv ++ val_src (snd kv))) = (S (length pre0) + length (attr_src kv))%nat.
Proof. destruct kv as [k v]. unfold attr_src. cbn [fst snd]. rewrite !app_length. cbn [length]. rewrite !app_length. cbn [length]. lia. Qed.

(* the last attribute: directly followed by '>' or '/>' *)
Lemma scan_value_none0 R : stops_here R -> scan_value R = None.
Proof. intros H. unfold scan_value. rewrite (stops_not_space R H), (stops_not_eq R H). reflexivity. Qed.
Lemma tail_attr_rest tail : tail_ok tail -> exists c r, tail = c :: r /\ attr_rest c = false.
Proof. intros [[r ->]|[r ->]]; eexists _, _; split; reflexivity. Qed.
Lemma scan_attr_last k v tail : quoted_attr (k, v) = true -> tail_ok tail ->
  scan_attr 32 ((k ++ val_src v) ++ tail) = Some (k, v, tail).
Proof.
  unfold quoted_attr, simple_attr_name. cbn [fst snd]. intros H Ht.
  apply andb_prop in H as [Hk Hv]. destruct k as [|c kr]; [discriminate|]. apply andb_prop in Hk as [Hc Hkr].
  pose proof (forallb_impl _ _ _ lod_attr_rest Hkr) as Hrest. pose proof (tail_stops tail Ht) as HR.
  unfold scan_attr. cbn [app]. change (lookbehind_ok 32) with true. rewrite (lower_attr_first _ Hc). cbv iota. cbn [andb].
  destruct v as [x|].
  - unfold val_src.
    replace ((kr ++ 61 :: quote_of x :: x ++ [quote_of x]) ++ tail) with (kr ++ 61 :: quote_of x :: x ++ quote_of x :: tail)
      by (rewrite <- !app_assoc; cbn [app]; rewrite <- !app_assoc; reflexivity).
    rewrite (span_app_stop attr_rest kr 61 _ Hrest eq_refl).
    rewrite (scan_value_quoted x tail Hv). rewrite (stops_skip tail HR). reflexivity.
  - unfold val_src. rewrite app_nil_r. destruct (tail_attr_rest tail Ht) as (c0 & r0 & -> & A0).
    rewrite (span_app_stop attr_rest kr c0 r0 Hrest A0).
    rewrite (scan_value_none0 _ HR). rewrite (stops_skip _ HR). reflexivity.
Qed.

(* the loop of locatestarttagend_tolerant over attributes that are each followed by a blank, then whatever follows *)
Lemma locate_attrs_prefix : forall a fuel pre0 R, quoted_attrs a = true -> stops_here R ->
  locate_attrs (length a + fuel) ((pre0 ++ [32]) ++ osrc a ++ R) (S (length pre0)) =
  locate_attrs fuel ((pre0 ++ [32]) ++ osrc a ++ R) (S (length pre0) + length (osrc a))%nat.
Proof.
  induction a as [|[k v] a IH]; intros fuel pre0 R Ha HR.
  - cbn [osrc map concat app length]. now rewrite Nat.add_0_r.
  - cbn [quoted_attrs forallb] in Ha. apply andb_prop in Ha as [H1 H2].
    change (length ((k, v) :: a) + fuel)%nat with (S (length a + fuel)). cbn [locate_attrs].
    replace (S (length pre0) - 1)%nat with (length pre0) by lia. rewrite nth_last_pre.
    replace (skipn (S (length pre0)) ((pre0 ++ [32]) ++ osrc ((k, v) :: a) ++ R))
      with (attr_src (k, v) ++ osrc a ++ R).
    2:{ replace (S (length pre0)) with (length (pre0 ++ [32])) by (rewrite app_length; cbn; lia).
        rewrite skipn_pre, osrc_cons, <- app_assoc. reflexivity. }
    rewrite (scan_attr_written k v (osrc a ++ R) H1 (osrc_stops a R H2 HR)).
    rewrite app_length. replace (length (attr_src (k, v)) + length (osrc a ++ R) - length (osrc a ++ R))%nat
      with (length (attr_src (k, v))) by lia.
    rewrite attr_src_shift. rewrite <- attr_src_len.
    rewrite (IH fuel _ R H2 HR). rewrite attr_src_len, osrc_cons, app_length. f_equal. lia.
Qed.

Lemma no_char_memN c s : no_char c s = true -> memN c s = false.
Proof.
  unfold no_char, memN. induction s as [|x s IH]; cbn; [reflexivity|]. intros H. apply andb_prop in H as [H1 H2].
  apply negb_true_iff in H1. rewrite N.eqb_sym, H1. now apply IH.
Qed.
Lemma attr_value_id v : match v with Some x => no_char 34 x && no_char 38 x | None => true end = true ->
  option_map (unesc_value unesc) v = v.
Proof.
  destruct v as [x|]; [|reflexivity]. intros H. apply andb_prop in H as [_ Ha]. cbn [option_map]. f_equal.
  unfold unesc_value. destruct x; [reflexivity|]. apply unesc_plain. now apply no_char_memN.
Qed.

Definition unesc_attrs (a : list (str * option str)) : list (str * option str) :=
  map (fun kv => (fst kv, option_map (unesc_value unesc) (snd kv))) a.
Lemma quoted_name_lower k v : quoted_attr (k, v) = true -> ascii_lower k = k.
Proof.
  unfold quoted_attr, simple_attr_name. cbn [fst snd]. intros H. apply andb_prop in H as [Hk _].
  destruct k as [|c kr]; [discriminate|]. apply andb_prop in Hk as [Hc Hkr].
  apply ascii_lower_id. cbn [forallb]. now rewrite (astart_lod _ Hc), Hkr.
Qed.

(* the while k < endpos loop of parse_starttag over the same *)
Lemma attr_loop_prefix : forall a fuel e pre0 R, quoted_attrs a = true -> stops_here R ->
  (S (length pre0) + length (osrc a) <= e)%nat ->
  attr_loop unesc (length a + fuel) e ((pre0 ++ [32]) ++ osrc a ++ R) (S (length pre0)) =
  (let '(l, kf) := attr_loop unesc fuel e ((pre0 ++ [32]) ++ osrc a ++ R) (S (length pre0) + length (osrc a))%nat in
   (unesc_attrs a ++ l, kf)).
Proof.
  induction a as [|[k v] a IH]; intros fuel e pre0 R Ha HR He.
  - cbn [osrc map concat app length unesc_attrs]. rewrite Nat.add_0_r. change (0 + fuel)%nat with fuel.
    destruct (attr_loop unesc fuel e ((pre0 ++ [32]) ++ R) (S (length pre0))). reflexivity.
  - cbn [quoted_attrs forallb] in Ha. apply andb_prop in Ha as [H1 H2].
    change (length ((k, v) :: a) + fuel)%nat with (S (length a + fuel)). cbn [attr_loop]. rewrite osrc_cons, app_length in He.
    assert (1 <= length (attr_src (k, v)))%nat as L1 by (unfold attr_src; rewrite !app_length; cbn [length]; lia).
    replace (S (length pre0) <? e)%nat with true by (symmetry; apply Nat.ltb_lt; lia).
    replace (S (length pre0) - 1)%nat with (length pre0) by lia. rewrite nth_last_pre.
    replace (skipn (S (length pre0)) ((pre0 ++ [32]) ++ osrc ((k, v) :: a) ++ R))
      with (attr_src (k, v) ++ osrc a ++ R).
    2:{ replace (S (length pre0)) with (length (pre0 ++ [32])) by (rewrite app_length; cbn; lia).
        rewrite skipn_pre, osrc_cons, <- app_assoc. reflexivity. }
    rewrite (scan_attr_written k v (osrc a ++ R) H1 (osrc_stops a R H2 HR)).
    rewrite app_length. replace (length (attr_src (k, v)) + length (osrc a ++ R) - length (osrc a ++ R))%nat
      with (length (attr_src (k, v))) by lia.
    rewrite attr_src_shift. rewrite <- attr_src_len.
    rewrite (IH fuel e _ R H2 HR) by (rewrite attr_src_len; lia).
    rewrite attr_src_len, osrc_cons, app_length.
    replace (S (length pre0) + length (attr_src (k, v)) + length (osrc a))%nat
      with (S (length pre0) + (length (attr_src (k, v)) + length (osrc a)))%nat by lia.
    destruct (attr_loop unesc fuel e _ _) as [l kf].
    rewrite (quoted_name_lower k v H1). reflexivity.
Qed.

(* the written attribute list: all but the last followed by a blank *)
Lemma asrc_cons2 x r : r <> [] -> asrc (x :: r) = attr_src x ++ asrc r.
Proof. destruct r; [congruence|reflexivity]. Qed.
Lemma asrc_snoc init kv : asrc (init ++ [kv]) = osrc init ++ fst kv ++ val_src (snd kv).
Proof.
  induction init as [|x init IH]; [reflexivity|].
  cbn [app]. rewrite asrc_cons2 by (destruct init; discriminate). rewrite IH, osrc_cons, <- app_assoc. reflexivity.
Qed.
Lemma osrc_app a b : osrc (a ++ b) = osrc a ++ osrc b.
Proof. unfold osrc. now rewrite map_app, concat_app. Qed.
Lemma ends_blank pre0 init : exists q, (pre0 ++ [32]) ++ osrc init = q ++ [32].
Proof.
  induction init as [|x init _] using rev_ind.
  - exists pre0. cbn [osrc map concat]. now rewrite app_nil_r.
  - exists ((pre0 ++ [32]) ++ osrc init ++ fst x ++ val_src (snd x)).
    rewrite osrc_app. cbn [osrc map concat]. rewrite app_nil_r. unfold attr_src. now rewrite <- !app_assoc.
Qed.

Lemma locate_attrs_last f q k v tail : quoted_attr (k, v) = true -> tail_ok tail ->
  locate_attrs (S f) ((q ++ [32]) ++ (k ++ val_src v) ++ tail) (S (length q)) = (S (length q) + length (k ++ val_src v))%nat.
Proof.
  intros H Ht. cbn [locate_attrs]. replace (S (length q) - 1)%nat with (length q) by lia. rewrite nth_last_pre.
  replace (skipn (S (length q)) ((q ++ [32]) ++ (k ++ val_src v) ++ tail)) with ((k ++ val_src v) ++ tail)
    by (replace (S (length q)) with (length (q ++ [32])) by (rewrite app_length; cbn; lia); now rewrite skipn_pre).
  rewrite (scan_attr_last k v tail H Ht). rewrite app_length.
  replace (length (k ++ val_src v) + length tail - length tail)%nat with (length (k ++ val_src v)) by lia.
  apply locate_attrs_stop.
  replace (S (length q) + length (k ++ val_src v))%nat with (length ((q ++ [32]) ++ k ++ val_src v))
    by (rewrite !app_length; cbn [length]; lia).
  replace ((q ++ [32]) ++ (k ++ val_src v) ++ tail) with (((q ++ [32]) ++ k ++ val_src v) ++ tail)
    by (now rewrite <- !app_assoc).
  rewrite skipn_pre. now apply tail_no_attr.
Qed.
Lemma attr_loop_last f e q k v tail : quoted_attr (k, v) = true -> tail_ok tail -> (S (length q) < e)%nat ->
  attr_loop unesc (S f) e ((q ++ [32]) ++ (k ++ val_src v) ++ tail) (S (length q)) =
  ([(k, option_map (unesc_value unesc) v)], (S (length q) + length (k ++ val_src v))%nat).
Proof.
  intros H Ht He. cbn [attr_loop]. replace (S (length q) <? e)%nat with true by (symmetry; apply Nat.ltb_lt; lia).
  replace (S (length q) - 1)%nat with (length q) by lia. rewrite nth_last_pre.
  replace (skipn (S (length q)) ((q ++ [32]) ++ (k ++ val_src v) ++ tail)) with ((k ++ val_src v) ++ tail)
    by (replace (S (length q)) with (length (q ++ [32])) by (rewrite app_length; cbn; lia); now rewrite skipn_pre).
  rewrite (scan_attr_last k v tail H Ht). rewrite app_length.
  replace (length (k ++ val_src v) + length tail - length tail)%nat with (length (k ++ val_src v)) by lia.
  rewrite attr_loop_stop.
  - now rewrite (quoted_name_lower k v H).
  - replace (S (length q) + length (k ++ val_src v))%nat with (length ((q ++ [32]) ++ k ++ val_src v))
      by (rewrite !app_length; cbn [length]; lia).
    replace ((q ++ [32]) ++ (k ++ val_src v) ++ tail) with (((q ++ [32]) ++ k ++ val_src v) ++ tail)
      by (now rewrite <- !app_assoc).
    rewrite skipn_pre. now apply tail_no_attr.
Qed.

Lemma quoted_attrs_app a b : quoted_attrs (a ++ b) = true -> quoted_attrs a = true /\ quoted_attrs b = true.
Proof. unfold quoted_attrs. rewrite forallb_app. apply andb_prop. Qed.
Lemma asrc_len a : (length a <= S (length (asrc a)))%nat.
Proof.
  destruct a as [|x a']; [cbn; lia|].
  destruct (@exists_last _ (x :: a') ltac:(discriminate)) as (init & kv & E). rewrite E.
  rewrite asrc_snoc, !app_length. pose proof (osrc_len init). cbn [length]. lia.
Qed.

(* the whole written attribute list, from just after the blank that follows the tag name *)
Lemma locate_attrs_written a fuel pre0 tail : a <> [] -> (length a < fuel)%nat -> quoted_attrs a = true -> tail_ok tail ->
  locate_attrs fuel ((pre0 ++ [32]) ++ asrc a ++ tail) (S (length pre0)) = (S (length pre0) + length (asrc a))%nat.
Proof.
  intros Hne Hf Ha Ht. destruct (exists_last Hne) as (init & [k v] & ->).
  apply quoted_attrs_app in Ha as [Hi Hl]. cbn [quoted_attrs forallb] in Hl. rewrite andb_true_r in Hl.
  rewrite asrc_snoc. cbn [fst snd]. rewrite app_length in Hf. cbn [length] in Hf.
  replace fuel with (length init + (fuel - length init))%nat by lia.
  replace ((pre0 ++ [32]) ++ (osrc init ++ k ++ val_src v) ++ tail) with ((pre0 ++ [32]) ++ osrc init ++ ((k ++ val_src v) ++ tail))
    by (rewrite <- !app_assoc; reflexivity).
  assert (stops_here ((k ++ val_src v) ++ tail)) as HR
    by (destruct (attr_head_lower k v tail Hl) as (c & R' & E & Hc); rewrite E; exists c, R'; auto).
  rewrite (locate_attrs_prefix init _ pre0 _ Hi HR).
  destruct (ends_blank pre0 init) as (q & Eq). rewrite app_assoc, Eq.
  assert (S (length pre0) + length (osrc init) = S (length q))%nat as Lq.
  { apply (f_equal (@length N)) in Eq. rewrite !app_length in Eq. cbn [length] in Eq. lia. }
  rewrite Lq. destruct (fuel - length init)%nat as [|f] eqn:F; [lia|].
  rewrite (locate_attrs_last f q k v tail Hl Ht). rewrite <- Lq, !app_length. lia.
Qed.
Lemma attr_loop_written a fuel e pre0 tail : a <> [] -> (length a < fuel)%nat -> quoted_attrs a = true -> tail_ok tail ->
  (S (length pre0) + length (asrc a) < e)%nat ->
  attr_loop unesc fuel e ((pre0 ++ [32]) ++ asrc a ++ tail) (S (length pre0)) = (unesc_attrs a, (S (length pre0) + length (asrc a))%nat).
Proof.
  intros Hne Hf Ha Ht He. destruct (exists_last Hne) as (init & [k v] & ->).
  apply quoted_attrs_app in Ha as [Hi Hl]. cbn [quoted_attrs forallb] in Hl. rewrite andb_true_r in Hl.
  rewrite asrc_snoc in *. cbn [fst snd] in *. rewrite app_length in Hf. cbn [length] in Hf. rewrite !app_length in He.
  replace fuel with (length init + (fuel - length init))%nat by lia.
  replace ((pre0 ++ [32]) ++ (osrc init ++ k ++ val_src v) ++ tail) with ((pre0 ++ [32]) ++ osrc init ++ ((k ++ val_src v) ++ tail))
    by (rewrite <- !app_assoc; reflexivity).
  assert (stops_here ((k ++ val_src v) ++ tail)) as HR
    by (destruct (attr_head_lower k v tail Hl) as (c & R' & E & Hc); rewrite E; exists c, R'; auto).
  rewrite (attr_loop_prefix init _ e pre0 _ Hi HR) by lia.
  destruct (ends_blank pre0 init) as (q & Eq). rewrite app_assoc, Eq.
  assert (S (length pre0) + length (osrc init) = S (length q))%nat as Lq.
  { apply (f_equal (@length N)) in Eq. rewrite !app_length in Eq. cbn [length] in Eq. lia. }
  rewrite Lq. destruct (fuel - length init)%nat as [|f] eqn:F; [lia|].
  rewrite (attr_loop_last f e q k v tail Hl Ht) by lia.
  unfold unesc_attrs. rewrite map_app. cbn [map fst snd]. f_equal. rewrite <- Lq, !app_length. lia.
Qed.

Lemma asrc_head a tail : a <> [] -> quoted_attrs a = true -> exists c1 A', asrc a ++ tail = c1 :: A' /\ attr_start c1 = true.
Proof.
  intros Hne Ha. destruct a as [|[k v] a']; [congruence|].
  cbn [quoted_attrs forallb] in Ha. apply andb_prop in Ha as [H1 _].
  destruct a' as [|y a''].
  - cbn [asrc fst snd]. exact (attr_head_lower k v tail H1).
  - rewrite asrc_cons2 by discriminate. unfold attr_src. cbn [fst snd]. rewrite <- !app_assoc.
    destruct (attr_head_lower k v ([32] ++ asrc (y :: a'') ++ tail) H1) as (c & R' & E & Hc).
    rewrite <- app_assoc in E. rewrite E. eauto.
Qed.
Lemma asrc_stops a tail : a <> [] -> quoted_attrs a = true -> stops_here (asrc a ++ tail).
Proof. intros Hne Ha. destruct (asrc_head a tail Hne Ha) as (c & R' & E & Hc). rewrite E. exists c, R'. auto. Qed.

Lemma parse_starttag_attrs n a tail : lname n -> a <> [] -> quoted_attrs a = true -> tail_ok tail ->
  check_whole (60 :: n ++ 32 :: asrc a ++ tail) =
    Some (match tail with 62%N :: _ => S (S (S (length n) + length (asrc a))) | _ => S (S (S (S (length n) + length (asrc a)))) end)%nat /\
  parse_starttag unesc (60 :: n ++ 32 :: asrc a ++ tail) =
    match tail with
    | 62 :: _ => PTo (S (S (S (length n) + length (asrc a))))%nat [TStart n (unesc_attrs a)] (cd_after n)
    | _ => PTo (S (S (S (S (length n) + length (asrc a)))))%nat [TStartEnd n (unesc_attrs a)] None
    end.
Proof.
  intros Hn Hne Ha Ht. pose proof (lname_all n Hn) as Hall. destruct Hn as (c & r & En & Hc & Hr).
  pose proof (forallb_impl _ _ _ lod_name_char Hall) as Hnc.
  assert (span name_char (n ++ 32 :: asrc a ++ tail) = (n, 32 :: asrc a ++ tail)) as SP
    by (apply span_app_stop; [exact Hnc|reflexivity]).
  pose proof (asrc_stops a tail Hne Ha) as ST.
  destruct (asrc_head a tail Hne Ha) as (c1 & A' & EA & Hc1).
  assert (60 :: n ++ 32 :: asrc a ++ tail = ((60 :: n) ++ [32]) ++ asrc a ++ tail) as ES
    by (cbn [app]; rewrite <- app_assoc; reflexivity).
  set (j := (S (S (length n)) + length (asrc a))%nat).
  assert (skipn j (60 :: n ++ 32 :: asrc a ++ tail) = tail) as SKJ.
  { rewrite ES, app_assoc. replace j with (length (((60 :: n) ++ [32]) ++ asrc a)); [apply skipn_pre|].
    rewrite !app_length. cbn [length]. unfold j. lia. }
  assert (locate_end (60 :: n ++ 32 :: asrc a ++ tail) = j) as LE.
  { unfold locate_end. cbn [tl]. rewrite SP.
    assert (span ws_or_slash (32 :: asrc a ++ tail) = ([32], asrc a ++ tail)) as SW.
    { cbn [span]. change (ws_or_slash 32) with true. cbv iota. rewrite EA.
      rewrite (span_head_false ws_or_slash c1). reflexivity.
      unfold ws_or_slash. rewrite (lod_not_space _ (astart_lod _ Hc1)). apply astart_range in Hc1.
      apply N.eqb_neq. lia. }
    rewrite SW. cbn [length]. replace (1 + length n + 1)%nat with (S (length (60 :: n))) by (cbn [length]; lia).
    rewrite ES at 1 2.
    rewrite (locate_attrs_written a _ (60 :: n) tail Hne); try assumption.
    2:{ pose proof (asrc_len a) as LA. cbn [length]. repeat (rewrite !app_length; cbn [length]). lia. }
    cbn [length]. fold j. rewrite SKJ. rewrite (stops_not_space tail (tail_stops tail Ht)). cbn [fst length]. lia. }
  assert (skip_ws_slash (32 :: asrc a ++ tail) = ([32], asrc a ++ tail)) as SWS.
  { cbn [skip_ws_slash]. change (is_space 32) with true. cbv iota. now rewrite (stops_skip _ ST). }
  split.
  - unfold check_whole. rewrite LE, SKJ. destruct Ht as [[r0 ->]|[r0 ->]]; reflexivity.
  - unfold parse_starttag.
    assert (forall e, (j < e)%nat ->
              attr_loop unesc (length (60 :: n ++ 32 :: asrc a ++ tail)) e (60 :: n ++ 32 :: asrc a ++ tail) (1 + length n + 1)%nat = (unesc_attrs a, j)) as AL.
    { intros e He. replace (1 + length n + 1)%nat with (S (length (60 :: n))) by (cbn [length]; lia).
      rewrite ES at 2. rewrite (attr_loop_written a _ e (60 :: n) tail Hne); try assumption.
      - reflexivity.
      - pose proof (asrc_len a) as LA. cbn [length]. repeat (rewrite !app_length; cbn [length]). lia. }
    unfold check_whole. rewrite LE, SKJ. cbn [tl]. rewrite SP, SWS. change (length [32]) with 1%nat.
    destruct Ht as [[r0 ->]|[r0 ->]].
    + change (62 =? 62) with true. cbv iota. rewrite (AL (S j) (Nat.lt_succ_diag_r j)). rewrite SKJ.
      replace (S j - j)%nat with 1%nat by lia. rewrite (ascii_lower_id n Hall). reflexivity.
    + change (47 =? 62) with false. change (47 =? 47) with true. change (62 =? 62) with true. cbv iota.
      rewrite (AL (S (S j)) ltac:(lia)). rewrite SKJ.
      replace (S (S j) - j)%nat with 2%nat by lia. rewrite (ascii_lower_id n Hall). reflexivity.
Qed.

Lemma dispatch_start_gen endf n a rest : lname n -> quoted_attrs a = true ->
  dispatch unesc endf None (w_start n a ++ rest) = ACont (length (w_start n a)) [TStart n (unesc_attrs a)] (cdv n).
Proof.
  intros Hn Ha. destruct a as [|kv a']; [now apply dispatch_start0|].
  destruct (parse_starttag_attrs n (kv :: a') (62 :: rest) Hn ltac:(discriminate) Ha (or_introl (ex_intro _ rest eq_refl))) as [_ PS].
  destruct Hn as (c & r & En & Hc & Hr). subst n.
  unfold w_start, attrs_src. fold (asrc (kv :: a')).
  replace ((60 :: (c :: r) ++ (32 :: asrc (kv :: a')) ++ [62]) ++ rest) with (60 :: (c :: r) ++ 32 :: asrc (kv :: a') ++ 62 :: rest)
    by (cbn [app]; rewrite <- !app_assoc; cbn [app]; rewrite <- !app_assoc; reflexivity).
  unfold dispatch. change (60 =? 60) with true. cbv iota. cbn [app]. rewrite (lower_alpha _ Hc).
  change (60 :: c :: r ++ 32 :: asrc (kv :: a') ++ 62 :: rest) with (60 :: (c :: r) ++ 32 :: asrc (kv :: a') ++ 62 :: rest).
  rewrite PS. unfold cd_after, cdv, of_pres.
  destruct (memS (c :: r) cdata_content_elements); cbn [length]; repeat (rewrite !app_length; cbn [length]); f_equal; lia.
Qed.
Lemma tok_ok_start_gen n a : name_ok n -> quoted_attrs a = true -> tok_ok (WCons (w_start n a) [TStart n (unesc_attrs a)]).
Proof.
  intros Hn Ha. split; [exists 60, (n ++ attrs_src a ++ [62]); split; reflexivity|]. intros endf rest.
  rewrite (dispatch_start_gen endf n a rest (name_ok_lname _ Hn) Ha), (name_ok_cdv n Hn). reflexivity.
Qed.
Lemma tok_ok_self_gen n a : name_ok n -> quoted_attrs a = true -> tok_ok (WCons (w_self n a) [TStartEnd n (unesc_attrs a)]).
Proof.
  intros Hn Ha. destruct a as [|kv a']; [now apply tok_ok_self0|].
  split; [exists 60, (n ++ attrs_src (kv :: a') ++ [47; 62]); split; reflexivity|]. intros endf rest.
  destruct (parse_starttag_attrs n (kv :: a') (47 :: 62 :: rest) (name_ok_lname _ Hn) ltac:(discriminate) Ha (or_intror (ex_intro _ rest eq_refl))) as [_ PS].
  destruct Hn as (c & r & En & Hc & Hr & Hcd). subst n.
  unfold w_self, attrs_src. fold (asrc (kv :: a')).
  replace ((60 :: (c :: r) ++ (32 :: asrc (kv :: a')) ++ [47; 62]) ++ rest) with (60 :: (c :: r) ++ 32 :: asrc (kv :: a') ++ 47 :: 62 :: rest)
    by (cbn [app]; rewrite <- !app_assoc; cbn [app]; rewrite <- !app_assoc; reflexivity).
  unfold dispatch. change (60 =? 60) with true. cbv iota. cbn [app]. rewrite (lower_alpha _ Hc).
  change (60 :: c :: r ++ 32 :: asrc (kv :: a') ++ 47 :: 62 :: rest) with (60 :: (c :: r) ++ 32 :: asrc (kv :: a') ++ 47 :: 62 :: rest).
  rewrite PS. unfold of_pres. cbn [length]. repeat (rewrite !app_length; cbn [length]). f_equal; lia.
Qed.

Lemma simple_attrs_quoted a : simple_attrs a = true -> quoted_attrs a = true /\ unesc_attrs a = a.
Proof.
  unfold simple_attrs, quoted_attrs, unesc_attrs. induction a as [|[k v] a IH]; cbn [forallb map]; [auto|]. intros H.
  apply andb_prop in H as [H1 H2]. destruct (IH H2) as [Q U]. unfold simple_attr in H1. apply andb_prop in H1 as [Hq Ha].
  rewrite Hq, Q, U. split; [reflexivity|]. cbn [fst snd] in *. f_equal. f_equal.
  destruct v as [x|]; [|reflexivity]. cbn [option_map]. f_equal. unfold unesc_value. destruct x; [reflexivity|].
  apply unesc_plain. now apply no_char_memN.
Qed.
Lemma tok_ok_start n a : name_ok n -> simple_attrs a = true -> tok_ok (WCons (w_start n a) [TStart n a]).
Proof.
  intros Hn Ha. destruct (simple_attrs_quoted a Ha) as [Q U]. pose proof (tok_ok_start_gen n a Hn Q) as T.
  now rewrite U in T.
Qed.
Lemma tok_ok_self n a : name_ok n -> simple_attrs a = true -> tok_ok (WCons (w_self n a) [TStartEnd n a]).
Proof.
  intros Hn Ha. destruct (simple_attrs_quoted a Ha) as [Q U]. pose proof (tok_ok_self_gen n a Hn Q) as T.
  now rewrite U in T.
Qed.

(* ------------------------------------------------------------------ script / style elements *)
Lemma lod_ci_eq x : lower_or_digit x = true -> ci_eq x x = true.
Proof. intros H. unfold ci_eq. rewrite (lod_lower1 _ H), N.eqb_refl. reflexivity. Qed.
Lemma ci_prefix_self e rest : forallb lower_or_digit e = true -> ci_prefix e (e ++ rest) = Some rest.
Proof.
  induction e as [|x e IH]; cbn [ci_prefix app forallb]; [reflexivity|]. intros H. apply andb_prop in H as [H1 H2].
  now rewrite (lod_ci_eq _ H1), IH.
Qed.
Lemma cdata_close_at_end n rest : lname n -> cdata_close_at n (w_end n ++ rest) = true.
Proof.
  intros Hn. pose proof (lname_all n Hn) as Hall. destruct Hn as (c & r & -> & Hc & Hr).
  unfold w_end. cbn [app]. rewrite <- app_assoc. cbn [app]. unfold cdata_close_at.
  change (c :: r ++ 62 :: rest) with ((c :: r) ++ 62 :: rest).
  assert (span is_space ((c :: r) ++ 62 :: rest) = ([], (c :: r) ++ 62 :: rest)) as S1
    by (cbn [app]; apply span_head_false; exact (lod_not_space _ (lower_lod _ Hc))).
  rewrite S1. cbn [snd]. rewrite (ci_prefix_self (c :: r) (62 :: rest) Hall).
  cbn [span]. change (is_space 62) with false. cbv iota. reflexivity.
Qed.
Lemma cdata_close_not_lt e c r : c <> 60 -> cdata_close_at e (c :: r) = false.
Proof.
  intros Nc. unfold cdata_close_at. destruct c as [|pc]; [reflexivity|].
  repeat (destruct pc as [pc|pc|]; try reflexivity). congruence.
Qed.
Lemma find_cdata_close_skip e s t : no_char 60 s = true -> cdata_close_at e t = true ->
  find_cdata_close e (s ++ t) = Some (s, t).
Proof.
  intros Hs Ht. induction s as [|x s IH]; cbn [app].
  - destruct t; cbn [find_cdata_close]; now rewrite Ht.
  - unfold no_char in Hs. cbn [forallb] in Hs. apply andb_prop in Hs as [Hx Hs'].
    apply negb_true_iff, N.eqb_neq in Hx. cbn [find_cdata_close].
    rewrite (cdata_close_not_lt e x (s ++ t) Hx). now rewrite (IH Hs').
Qed.
Lemma lname_cdv n : lname n -> memS n cdata_content_elements = true -> cdv n = Some n.
Proof. intros _ H. unfold cdv. now rewrite H. Qed.

Lemma raw_step_ok_gen n a s : lname n -> memS n cdata_content_elements = true -> quoted_attrs a = true ->
  no_char 60 s = true -> raw_step n a (unesc_attrs a) s.
Proof.
  intros Hn Hcd Q Hs. split; [|split].
  - intros endf rest. rewrite (dispatch_start_gen endf n a rest Hn Q), (lname_cdv n Hn Hcd). reflexivity.
  - intros rest. cbn [find_interesting]. apply find_cdata_close_skip; [exact Hs|now apply cdata_close_at_end].
  - intros endf rest. unfold w_end. cbn [app]. rewrite <- app_assoc. cbn [app].
    rewrite (dispatch_endtag endf (Some n) n rest Hn (or_intror eq_refl)).
    cbn [length]. rewrite app_length. cbn [length]. f_equal; lia.
Qed.
Lemma raw_step_ok n a s : lname n -> memS n cdata_content_elements = true -> simple_attrs a = true ->
  no_char 60 s = true -> raw_step n a a s.
Proof.
  intros Hn Hcd Ha Hs. destruct (simple_attrs_quoted a Ha) as [Q U]. split; [|split].
  - intros endf rest. rewrite (dispatch_start_gen endf n a rest Hn Q), U, (lname_cdv n Hn Hcd). reflexivity.
  - intros rest. cbn [find_interesting]. apply find_cdata_close_skip; [exact Hs|now apply cdata_close_at_end].
  - intros endf rest. unfold w_end. cbn [app]. rewrite <- app_assoc. cbn [app].
    rewrite (dispatch_endtag endf (Some n) n rest Hn (or_intror eq_refl)).
    cbn [length]. rewrite app_length. cbn [length]. f_equal; lia.
Qed.
Lemma raw_name_lname n : raw_name n = true -> lname n.
Proof.
  unfold raw_name. destruct n as [|c r]; [discriminate|]. intros H. apply andb_prop in H as [H1 H2]. exists c, r. auto.
Qed.

(* ------------------------------------------------------------------ whole documents *)
Lemma simple_node_toks d : simple_node d = true -> Forall tok_ok (toks_node d).
Proof.
  induction d as [d Hl|n a p kids IH] using dnode_ind'.
  - destruct d; try contradiction; cbn [simple_node toks_node]; intros H.
    + constructor; [|constructor]. destruct s; [discriminate|]. split; [discriminate|exact H].
    + constructor; [|constructor]. now apply tok_ok_charref.
    + constructor; [|constructor]. destruct name as [|c r]; [discriminate|].
      apply andb_prop in H as [H1 H2]. now apply tok_ok_entity.
    + constructor; [|constructor]. now apply tok_ok_comment.
    + constructor; [|constructor]. apply andb_prop in H as [H1 H2]. apply tok_ok_doctype; [|exact H2].
      apply orb_prop in H1 as [E|E]; apply str_eqb_eq in E; auto.
    + constructor; [|constructor]. apply andb_prop in H as [H1 H2]. apply tok_ok_cdata; [|exact H2].
      apply orb_prop in H1 as [E|E]; apply str_eqb_eq in E; auto.
    + discriminate.
    + constructor; [|constructor]. now apply tok_ok_pi.
    + apply andb_prop in H as [H1 H2]. apply simple_name_ok in H1.
      destruct sp; repeat constructor; (now apply tok_ok_start) || (now apply tok_ok_self) || (now apply tok_ok_end).
    + apply andb_prop in H as [H1 H2]. apply simple_name_ok in H1.
      constructor; [|constructor]. now apply tok_ok_self.
  - cbn [simple_node toks_node]. intros H. destruct (memS n cdata_content_elements) eqn:CD.
    + apply andb_prop in H as [H H3]. apply andb_prop in H as [H1 H2]. apply raw_name_lname in H1.
      destruct kids as [|k1 kids']; [constructor; [|constructor]; apply raw_step_ok; auto|].
      destruct k1; try discriminate. destruct s as [|c s']; [discriminate|]. destruct kids'; [|discriminate].
      constructor; [|constructor]. apply raw_step_ok; auto.
    + apply andb_prop in H as [H H3]. apply andb_prop in H as [H1 H2].
      apply simple_name_ok in H1.
      constructor; [now apply tok_ok_start|]. apply Forall_app. split; [|constructor; [now apply tok_ok_end|constructor]].
      clear -IH H3. induction IH as [|k l Hk Hl IHl]; cbn [flat_map]; [constructor|].
      cbn [forallb] in H3. apply andb_prop in H3 as [K1 K2]. apply Forall_app. split; auto.
Qed.
Lemma simple_toks_ok doc : forallb simple_node doc = true -> Forall tok_ok (toks_of doc).
Proof.
  unfold toks_of. induction doc as [|d doc IH]; cbn [flat_map forallb]; [constructor|]. intros H.
  apply andb_prop in H as [H1 H2]. apply Forall_app. split; [now apply simple_node_toks|auto].
Qed.

(* the tokenizer on a written document: exactly the ideal callbacks, nothing rejected, nothing left over *)
Theorem tokenize_written doc : simple_doc doc = true ->
  exists its g, tokenize unesc (write doc) = (its, g) /\ flat_map it_evs its = tevs_of doc /\
                gs_status g = Running /\ gs_rest g = [] /\ gs_cd g = None.
Proof.
  unfold simple_doc. intros H. apply andb_prop in H as [H1 H2].
  exact (tokenize_toks (toks_of doc) (simple_toks_ok doc H1) H2).
Qed.

(* ---- positions do not influence the tree ---- *)
Definition repos (q : pos) (h : hev) : hev :=
  match h with HStart n a _ => HStart n a q | HStartEnd n a _ => HStartEnd n a q | _ => h end.
Lemma repos_hev_of q p e : repos q (hev_of p e) = hev_of q e.
Proof. destruct e; reflexivity. Qed.

Lemma start_tag_repos cfg ac n a p q he :
  map fst (fst (start_tag cfg ac n a p he)) = map fst (fst (start_tag cfg ac n a q he)) /\
  snd (start_tag cfg ac n a p he) = snd (start_tag cfg ac n a q he).
Proof.
  unfold start_tag. destruct (can_be_empty (a_b cfg) n && he); [|split; reflexivity].
  destruct (end_tag ac n false) as [o ac']. split; reflexivity.
Qed.
Lemma step_repos sc cfg ac q h :
  match adapter_step_gen sc cfg ac h, adapter_step_gen sc cfg ac (repos q h) with
  | Some (o, ac1), Some (o', ac1') => map fst o = map fst o' /\ ac1 = ac1'
  | None, None => True
  | _, _ => False
  end.
Proof.
  destruct h; cbn [repos adapter_step_gen]; try (split; reflexivity).
  - destruct (start_tag_repos cfg ac name attrs p q true) as [E1 E2].
    destruct (start_tag cfg ac name attrs p true), (start_tag cfg ac name attrs q true). cbn in *. auto.
  - destruct (start_tag_repos cfg ac name attrs p q false) as [E1 E2].
    destruct (start_tag cfg ac name attrs p false) as [o1 ac1], (start_tag cfg ac name attrs q false) as [o1' ac1'].
    cbn [fst snd] in *. subst ac1'. destruct (end_tag ac1 name sc) as [o2 ac2]. split; [rewrite !map_app; f_equal; exact E1|reflexivity].
  - destruct (end_tag ac name true). auto.
  - destruct (charref_value name); auto.
  - destruct (starts_with s_cdata_open (ascii_upper s)); auto.
Qed.
Lemma run_repos sc cfg q : forall hs ac,
  events_of (fst (fst (adapter_run_gen sc cfg ac (map (repos q) hs)))) = events_of (fst (fst (adapter_run_gen sc cfg ac hs))).
Proof.
  induction hs as [|h hs IH]; intros ac; cbn [map adapter_run_gen]; [reflexivity|].
  pose proof (step_repos sc cfg ac q h) as S.
  destruct (adapter_step_gen sc cfg ac h) as [[o ac1]|], (adapter_step_gen sc cfg ac (repos q h)) as [[o' ac1']|];
    try contradiction; [|reflexivity].
  destruct S as [E1 ->]. specialize (IH ac1').
  destruct (adapter_run_gen sc cfg ac1' (map (repos q) hs)) as [[o2 ac2] ok2].
  destruct (adapter_run_gen sc cfg ac1' hs) as [[o3 ac3] ok3]. cbn [fst] in *.
  unfold events_of in *. rewrite !map_app. f_equal; [symmetry; exact E1|exact IH].
Qed.

Lemma hevs_repos q its : map (repos q) (hevs_of_items its) = map (hev_of q) (flat_map it_evs its).
Proof.
  unfold hevs_of_items. induction its as [|it its IH]; cbn [flat_map]; [reflexivity|].
  rewrite !map_app, IH. f_equal. rewrite map_map. apply map_ext. intros e. apply repos_hev_of.
Qed.

(* Spec/DocSpec.v's ideal callbacks are the written tokens' callbacks *)
Lemma tevs_node_hev q d : map (hev_of q) (flat_map tok_evs (toks_node d)) = map (repos q) (hev_node d).
Proof.
  induction d as [d Hl|n a p kids IH] using dnode_ind'.
  - destruct d; try contradiction; try reflexivity. destruct sp; reflexivity.
  - assert (map (hev_of q) (flat_map tok_evs (WCons (w_start n a) [TStart n a] :: flat_map toks_node kids ++ [WCons (w_end n) [TEnd n]])) =
            map (repos q) (hev_node (DElem n a p kids))) as GEN.
    { cbn [hev_node flat_map tok_evs app map]. f_equal.
      rewrite flat_map_app, !map_app. cbn [flat_map tok_evs app map]. f_equal.
      induction IH as [|k l Hk Hl IHl]; cbn [flat_map]; [reflexivity|].
      rewrite flat_map_app, !map_app, Hk, IHl. reflexivity. }
    cbn [toks_node]. cbv zeta. destruct (memS n cdata_content_elements); [|exact GEN].
    destruct kids as [|k1 kids']; [reflexivity|].
    destruct k1; try exact GEN. destruct s as [|c s']; [exact GEN|]. destruct kids'; [reflexivity|exact GEN].
Qed.
Lemma tevs_hevents q doc : map (hev_of q) (tevs_of doc) = map (repos q) (hevents_of doc).
Proof.
  unfold tevs_of, toks_of, hevents_of. induction doc as [|d doc IH]; cbn [flat_map]; [reflexivity|].
  rewrite flat_map_app, !map_app, IH, tevs_node_hev. reflexivity.
Qed.

(* the construction events the adapter makes of the written text are those it makes of the ideal callbacks *)
Theorem written_adapted cfg doc : simple_doc doc = true ->
  adapted cfg (callbacks unesc (write doc)) = adapted cfg (hevents_of doc) /\ rejected unesc (write doc) = false.
Proof.
  intros H. destruct (tokenize_written doc H) as (its & g & T & E & S1 & S2 & S3).
  unfold callbacks, rejected, adapted. rewrite T. cbn [fst snd]. rewrite S1. split; [|reflexivity].
  unfold adapter_run.
  rewrite <- (run_repos false cfg (0, 0) (hevs_of_items its)), <- (run_repos false cfg (0, 0) (hevents_of doc)).
  rewrite hevs_repos, E, tevs_hevents. reflexivity.
Qed.

(* C04 on the written text: the tree the markup describes *)
Theorem string_tree cfg doc : simple_doc doc = true -> wf_doc cfg doc = true ->
  rejected unesc (write doc) = false /\
  spec_run (a_b cfg) (adapted cfg (callbacks unesc (write doc))) = flat (a_b cfg) (expect cfg doc) /\
  heap_is (parse_string cfg unesc (write doc)) (flat (a_b cfg) (expect cfg doc)).
Proof.
  intros Hs Hw. destruct (written_adapted cfg doc Hs) as [EA R]. split; [exact R|]. split.
  - rewrite EA. exact (document_tree cfg doc Hw).
  - unfold parse_string. rewrite parse_feed, EA, <- parse_feed. exact (document_heap cfg doc Hw).
Qed.
End Unesc.

(* the hypotheses are satisfiable: a document with every kind of node of the sub-grammar *)
Definition simple_example : list dnode :=
  [DDoctype lit_DOCTYPE_sp [104; 116; 109; 108];
   DElem [112] [([99; 108; 97; 115; 115], Some [97; 32; 98]); ([104; 105; 100; 100; 101; 110], None); ([105; 100], Some [])] (1, 15)
     [DText [97]; DVoid [98; 114] [([105; 100], Some [120])] (1, 19) SpOpen; DEntity [97; 109; 112]; DCharref [120; 52; 49];
      DVoid [98; 114] [([99], None)] (1, 30) SpSelf; DVoid [98; 114] [] (1, 35) SpPair; DComment [99];
      DCdata s_cdata_open [100]; DPi [112; 105]; DSelf [98] [] (1, 60); DElem [105] [] (1, 70) [DText [120]];
      DElem [115; 99; 114; 105; 112; 116] [([105; 100], Some [115])] (1, 80) [DText [97; 38; 98; 62; 32]];
      DElem [115; 116; 121; 108; 101] [] (1, 90) []];
   DText [10]].
Example simple_example_ok : simple_doc simple_example = true /\ wf_doc html_cfg simple_example = true.
Proof. split; vm_compute; reflexivity. Qed.
