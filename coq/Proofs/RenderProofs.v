(* C05 / C14 — the explicit-stack loops of Model/Render.v compute the recursive renderings of
   Spec/RenderSpec.v, for every tree. *)
From Coq Require Import List NArith ZArith Bool Arith Lia.
From BS Require Import Base.Sexp Base.Types Gen.Tables Gen.Stdlib Gen.T_C05 Model.Attrs Model.Render Spec.RenderSpec.
Import ListNotations.

(* ---------------------------------------------------------------- identities *)
Lemma eid_eqb_eq a b : eid_eqb a b = true <-> a = b.
Proof.
  revert b. induction a as [|x a IH]; destruct b as [|y b]; cbn; split; try congruence; try discriminate.
  - intros H. apply andb_prop in H as [H1 H2]. apply Nat.eqb_eq in H1. apply IH in H2. congruence.
  - intros H. inversion H; subst. rewrite Nat.eqb_refl. cbn. now apply IH.
Qed.
Lemma eid_eqb_refl a : eid_eqb a a = true.
Proof. now apply eid_eqb_eq. Qed.
Lemma eid_eqb_neq a b : a <> b -> eid_eqb a b = false.
Proof. intros H. destruct (eid_eqb a b) eqn:E; [apply eid_eqb_eq in E; contradiction|reflexivity]. Qed.

Definition prefix (q z : eid) : Prop := exists r, z = q ++ r.
Lemma prefix_refl q : prefix q q.
Proof. exists []. now rewrite app_nil_r. Qed.
Lemma prefix_child q i z : prefix (q ++ [i]) z -> prefix q z.
Proof. intros [r ->]. exists ([i] ++ r). now rewrite app_assoc. Qed.
Lemma not_prefix_child_self q i : ~ prefix (q ++ [i]) q.
Proof.
  intros [r H]. apply (f_equal (@length nat)) in H. rewrite !app_length in H. cbn in H. lia.
Qed.

(* ---------------------------------------------------------------- unfolding the nested fixes *)
Lemma flat_tag q par pn p ks :
  flat q par pn (NTag p ks) = mkel q par (BTag p (length ks)) :: flat_kids q (g_name p) 0 ks.
Proof.
  cbn. f_equal. generalize 0%nat. induction ks as [|k ks IH]; intros i; cbn; [reflexivity|]. now rewrite IH.
Qed.
Lemma brackets_tag q par pn p ks :
  brackets q par pn (NTag p ks) =
  let el := mkel q par (BTag p (length ks)) in
  if is_empty_element p (length ks) then [mkev KEmpty el]
  else mkev KStart el :: brackets_kids q (g_name p) 0 ks ++ [mkev KEnd el].
Proof.
  cbn. destruct (is_empty_element p (length ks)); [reflexivity|]. f_equal. f_equal.
  generalize 0%nat. induction ks as [|k ks IH]; intros i; cbn; [reflexivity|]. now rewrite IH.
Qed.
Lemma plain_tag enc f pn p ks :
  plain enc f pn (NTag p ks) =
  let n := length ks in
  if is_empty_element p n then [format_tag enc f p n true]
  else format_tag enc f p n true :: plain_kids enc f (g_name p) ks ++ [format_tag enc f p n false].
Proof.
  cbn. destruct (is_empty_element p (length ks)); [reflexivity|]. f_equal. f_equal.
  induction ks as [|k ks IH]; cbn; [reflexivity|]. now rewrite IH.
Qed.
Lemma pretty_tag enc f lv pn p ks :
  pretty enc f lv pn (NTag p ks) =
  let n := length ks in
  if is_empty_element p n then [deco f false (format_tag enc f p n true) lv true true]
  else if should_pretty_print p then
    deco f false (format_tag enc f p n true) lv true true ::
    pretty_kids enc f (lv + 1) (g_name p) ks ++ [deco f false (format_tag enc f p n false) lv true true]
  else
    deco f false (format_tag enc f p n true) lv true false ::
    plain_kids enc f (g_name p) ks ++ [deco f false (format_tag enc f p n false) lv false true].
Proof.
  cbn. destruct (is_empty_element p (length ks)); [reflexivity|].
  destruct (should_pretty_print p); [|reflexivity]. f_equal. f_equal.
  induction ks as [|k ks IH]; cbn; [reflexivity|]. now rewrite IH.
Qed.
Lemma items_tag enc f lv pn p ks :
  items enc f lv pn (NTag p ks) =
  let n := length ks in
  if is_empty_element p n then simple_items lv (format_tag enc f p n true)
  else if should_pretty_print p then
    simple_items lv (format_tag enc f p n true) ++
    items_kids enc f (lv + 1) (g_name p) ks ++ simple_items lv (format_tag enc f p n false)
  else
    [mkitem lv true (concat (plain enc f pn (NTag p ks)))].
Proof.
  cbn [items]. cbn zeta. destruct (is_empty_element p (length ks)); [reflexivity|].
  destruct (should_pretty_print p); [|reflexivity]. f_equal. f_equal.
  induction ks as [|k ks IH]; cbn; [reflexivity|]. now rewrite IH.
Qed.
Lemma pw_blocks_tag enc f pn p ks :
  pw_blocks enc f pn (NTag p ks) =
  if is_empty_element p (length ks) then []
  else if should_pretty_print p then pw_blocks_kids enc f (g_name p) ks
  else [concat (plain enc f pn (NTag p ks))].
Proof.
  cbn [pw_blocks]. destruct (is_empty_element p (length ks)); [reflexivity|].
  destruct (should_pretty_print p); [|reflexivity].
  induction ks as [|k ks IH]; cbn; [reflexivity|]. now rewrite IH.
Qed.

(* ---------------------------------------------------------------- A. the event loop emits the bracket sequence *)
(* the next element to come is not inside the subtree at q *)
Definition outside (q : eid) (rest : list elem) : Prop :=
  match rest with
  | [] => True
  | c :: _ => forall p, e_par c = Some p -> ~ prefix q p
  end.

Lemma flat_head q par pn t : exists tl, flat q par pn t = elem_of q par pn t :: tl.
Proof. destruct t as [p ks|c s]; [rewrite flat_tag|cbn]; eexists; reflexivity. Qed.

Lemma elem_of_par q par pn t : e_par (elem_of q par pn t) = par.
Proof. now destruct t. Qed.
Lemma elem_of_id q par pn t : e_id (elem_of q par pn t) = q.
Proof. now destruct t. Qed.

Lemma outside_child q i rest : outside q rest -> outside (q ++ [i]) rest.
Proof.
  destruct rest as [|c r]; cbn; [trivial|]. intros H p Hp Hpre. apply (H p Hp). now apply prefix_child in Hpre.
Qed.

(* closing the innermost open element when what comes next is outside it *)
Lemma loop_close top stack rest :
  outside (e_id top) rest ->
  event_loop (top :: stack) rest = mkev KEnd top :: event_loop stack rest.
Proof.
  destruct rest as [|c r]; intros Hout; [reflexivity|].
  cbn [event_loop unwind].
  assert (E : oeid_eqb (e_par c) (Some (e_id top)) = false).
  { destruct (e_par c) as [p|] eqn:Ep; [|reflexivity]. cbn. apply eid_eqb_neq. intros ->.
    apply (Hout _ Ep). apply prefix_refl. }
  rewrite E. destruct (unwind (e_par c) stack) as [closed st']. reflexivity.
Qed.

Lemma unwind_top q top stack : e_id top = q -> unwind (Some q) (top :: stack) = ([], top :: stack).
Proof. intros <-. cbn. now rewrite eid_eqb_refl. Qed.

Definition stack_ready (par : option eid) (stack : list elem) : Prop := unwind par stack = ([], stack).

Theorem loop_tree : forall t q par pn stack rest,
  stack_ready par stack -> outside q rest ->
  event_loop stack (flat q par pn t ++ rest) = brackets q par pn t ++ event_loop stack rest.
Proof.
  induction t as [c s|p ks IH] using node_ind'; intros q par pn stack rest Hst Hout.
  - cbn [flat app event_loop e_par e_body brackets]. rewrite Hst. reflexivity.
  - rewrite flat_tag, brackets_tag. cbn zeta.
    cbn [app event_loop e_par e_body]. rewrite Hst. cbn [map app].
    destruct (is_empty_element p (length ks)) eqn:Eemp.
    + (* no contents: flat_kids is empty *)
      destruct ks; [|cbn in Eemp; discriminate]. reflexivity.
    + cbn [app]. f_equal.
      set (el := mkel q par (BTag p (length ks))).
      assert (Hk : forall ks', Forall (fun t => forall q par pn stack rest,
                       stack_ready par stack -> outside q rest ->
                       event_loop stack (flat q par pn t ++ rest) = brackets q par pn t ++ event_loop stack rest) ks' ->
                   forall i rest', outside q rest' ->
                   event_loop (el :: stack) (flat_kids q (g_name p) i ks' ++ rest') =
                   brackets_kids q (g_name p) i ks' ++ event_loop (el :: stack) rest').
      { induction ks' as [|k ks' IHk]; intros HF i rest' Hout'; [reflexivity|].
        inversion HF as [|? ? Hk1 HF']; subst. cbn [flat_kids brackets_kids]. rewrite <- !app_assoc.
        rewrite Hk1.
        - f_equal. now apply IHk.
        - apply unwind_top. reflexivity.
        - destruct ks' as [|k2 ks2].
          + cbn. now apply outside_child.
          + cbn [flat_kids]. destruct (flat_head (q ++ [S i]) (Some q) (Some (g_name p)) k2) as [tl ->].
            cbn. rewrite elem_of_par. intros p0 [= <-]. apply not_prefix_child_self. }
      rewrite <- app_assoc. rewrite (Hk ks IH 0%nat rest Hout). f_equal.
      cbn [app]. apply loop_close. exact Hout.
Qed.

Lemma loop_kids : forall ks q pn i stack rest,
  stack_ready (Some q) stack -> outside q rest ->
  event_loop stack (flat_kids q pn i ks ++ rest) = brackets_kids q pn i ks ++ event_loop stack rest.
Proof.
  induction ks as [|k ks IH]; intros q pn i stack rest Hst Hout; [reflexivity|].
  cbn [flat_kids brackets_kids]. rewrite <- !app_assoc. rewrite loop_tree; [|exact Hst|].
  - f_equal. now apply IH.
  - destruct ks as [|k2 ks2].
    + cbn. now apply outside_child.
    + cbn [flat_kids]. destruct (flat_head (q ++ [S i]) (Some q) (Some pn) k2) as [tl ->].
      cbn. rewrite elem_of_par. intros p0 [= <-]. apply not_prefix_child_self.
Qed.

(* the stream of a whole traversal *)
Theorem event_stream_tree q par pn t :
  event_stream (flat q par pn t) = brackets q par pn t.
Proof.
  unfold event_stream. rewrite <- (app_nil_r (flat q par pn t)).
  rewrite loop_tree; [cbn; now rewrite app_nil_r|reflexivity|exact I].
Qed.
Theorem event_stream_kids q pn i ks :
  event_stream (flat_kids q pn i ks) = brackets_kids q pn i ks.
Proof.
  unfold event_stream. rewrite <- (app_nil_r (flat_kids q pn i ks)).
  rewrite loop_kids; [cbn; now rewrite app_nil_r|reflexivity|exact I].
Qed.

(* ---------------------------------------------------------------- B. the decode loop computes the recursive renderings *)
Definition dfold (enc : bool) (f : fmt) (st : dstate) (evs : list event) : dstate :=
  fold_left (decode_step enc f) evs st.
Lemma dfold_app enc f st a b : dfold enc f st (a ++ b) = dfold enc f (dfold enc f st a) b.
Proof. unfold dfold. apply fold_left_app. Qed.
Lemma dfold_cons enc f st e evs : dfold enc f st (e :: evs) = dfold enc f (decode_step enc f st e) evs.
Proof. reflexivity. Qed.
Lemma dfold_nil enc f st : dfold enc f st [] = st.
Proof. reflexivity. Qed.

Definition raw_piece (enc : bool) (f : fmt) (ev : event) : str :=
  match e_body (ev_el ev), ev_kind ev with
  | BTag p n, KEnd => format_tag enc f p n false
  | BTag p n, _ => format_tag enc f p n true
  | BStr c s pn, _ => output_ready f c s pn
  end.

Lemma deco_eq f (is_str : bool) piece lv b a :
  (let pc := if is_str then strip piece else piece in
   match pc with [] => pc | _ :: _ => indent_string f pc lv b a end) = deco f is_str piece lv b a.
Proof. unfold deco. cbn zeta. destruct (if is_str then strip piece else piece); reflexivity. Qed.

(* indent_level None: every piece is written as it is *)
Lemma step_none enc f st ev : d_level st = None ->
  d_level (decode_step enc f st ev) = None /\
  d_out (decode_step enc f st ev) = raw_piece enc f ev :: d_out st.
Proof.
  destruct st as [lv slt out]. cbn [d_level]. intros ->. destruct ev as [k [q par b]].
  unfold decode_step, raw_piece. cbn [ev_el ev_kind e_body e_id d_level d_slt d_out].
  destruct k, b; cbn [option_map];
    repeat match goal with
           | |- context [if ?c then _ else _] => destruct c
           end; cbn; split; reflexivity.
Qed.

Lemma dfold_none enc f evs : forall st, d_level st = None ->
  d_level (dfold enc f st evs) = None /\
  d_out (dfold enc f st evs) = rev (map (raw_piece enc f) evs) ++ d_out st.
Proof.
  induction evs as [|ev evs IH]; intros st H; [now split|].
  cbn [dfold fold_left]. destruct (step_none enc f st ev H) as [H1 H2].
  destruct (IH _ H1) as [H3 H4]. split; [exact H3|]. unfold dfold in H4. rewrite H4, H2. cbn [map rev].
  now rewrite <- app_assoc.
Qed.

(* string-literal mode (string_literal_tag is some element z that is not the one at hand) *)
Lemma step_lit_start enc f lv z out q par p n :
  decode_step enc f (mkds (Some lv) (Some z) out) (mkev KStart (mkel q par (BTag p n))) =
  mkds (Some (lv + 1)%Z) (Some z) (format_tag enc f p n true :: out).
Proof. reflexivity. Qed.
Lemma step_lit_empty enc f lv z out q par p n :
  decode_step enc f (mkds (Some lv) (Some z) out) (mkev KEmpty (mkel q par (BTag p n))) =
  mkds (Some lv) (Some z) (format_tag enc f p n true :: out).
Proof. reflexivity. Qed.
Lemma step_lit_string enc f lv z out q par c s pn :
  decode_step enc f (mkds (Some lv) (Some z) out) (mkev KString (mkel q par (BStr c s pn))) =
  mkds (Some lv) (Some z) (output_ready f c s pn :: out).
Proof. reflexivity. Qed.
Lemma step_lit_end enc f lv z out q par p n : z <> q ->
  decode_step enc f (mkds (Some lv) (Some z) out) (mkev KEnd (mkel q par (BTag p n))) =
  mkds (Some (lv - 1)%Z) (Some z) (format_tag enc f p n false :: out).
Proof.
  intros H. unfold decode_step. cbn [ev_el ev_kind e_body e_id d_level d_slt d_out option_map oeid_eqb].
  rewrite (eid_eqb_neq _ _ H). reflexivity.
Qed.

(* outside string-literal mode *)
Lemma step_pp_start enc f lv out q par p n : should_pretty_print p = true ->
  decode_step enc f (mkds (Some lv) None out) (mkev KStart (mkel q par (BTag p n))) =
  mkds (Some (lv + 1)%Z) None (deco f false (format_tag enc f p n true) lv true true :: out).
Proof.
  intros H. unfold decode_step. cbn [ev_el ev_kind e_body e_id d_level d_slt d_out option_map].
  rewrite H. cbn [negb andb orb is_string_body]. rewrite <- (deco_eq f false). reflexivity.
Qed.
Lemma step_pw_start enc f lv out q par p n : should_pretty_print p = false ->
  decode_step enc f (mkds (Some lv) None out) (mkev KStart (mkel q par (BTag p n))) =
  mkds (Some (lv + 1)%Z) (Some q) (deco f false (format_tag enc f p n true) lv true false :: out).
Proof.
  intros H. unfold decode_step. cbn [ev_el ev_kind e_body e_id d_level d_slt d_out option_map].
  rewrite H. cbn [negb andb orb is_string_body]. rewrite <- (deco_eq f false). reflexivity.
Qed.
Lemma step_pp_end enc f lv out q par p n :
  decode_step enc f (mkds (Some lv) None out) (mkev KEnd (mkel q par (BTag p n))) =
  mkds (Some (lv - 1)%Z) None (deco f false (format_tag enc f p n false) (lv - 1) true true :: out).
Proof.
  unfold decode_step. cbn [ev_el ev_kind e_body e_id d_level d_slt d_out option_map oeid_eqb].
  cbn [negb andb orb is_string_body]. rewrite <- (deco_eq f false). reflexivity.
Qed.
Lemma step_pw_end enc f lv out q par p n :
  decode_step enc f (mkds (Some lv) (Some q) out) (mkev KEnd (mkel q par (BTag p n))) =
  mkds (Some (lv - 1)%Z) None (deco f false (format_tag enc f p n false) (lv - 1) false true :: out).
Proof.
  unfold decode_step. cbn [ev_el ev_kind e_body e_id d_level d_slt d_out option_map oeid_eqb].
  rewrite eid_eqb_refl. cbn [negb andb orb is_string_body]. rewrite <- (deco_eq f false). reflexivity.
Qed.
Lemma step_pp_empty enc f lv out q par p n :
  decode_step enc f (mkds (Some lv) None out) (mkev KEmpty (mkel q par (BTag p n))) =
  mkds (Some lv) None (deco f false (format_tag enc f p n true) lv true true :: out).
Proof.
  unfold decode_step. cbn [ev_el ev_kind e_body e_id d_level d_slt d_out option_map].
  cbn [negb andb orb is_string_body]. rewrite <- (deco_eq f false). reflexivity.
Qed.
Lemma step_pp_string enc f lv out q par c s pn :
  decode_step enc f (mkds (Some lv) None out) (mkev KString (mkel q par (BStr c s pn))) =
  mkds (Some lv) None (deco f true (output_ready f c s pn) lv true true :: out).
Proof.
  unfold decode_step. cbn [ev_el ev_kind e_body e_id d_level d_slt d_out option_map].
  cbn [negb andb orb is_string_body]. rewrite <- (deco_eq f true). reflexivity.
Qed.

(* the written-as-it-is pieces of a bracket sequence are the plain rendering *)
Lemma raw_brackets enc f : forall t q par pn,
  map (raw_piece enc f) (brackets q par pn t) = plain enc f pn t.
Proof.
  induction t as [c s|p ks IH] using node_ind'; intros q par pn; [reflexivity|].
  rewrite brackets_tag, plain_tag. cbn zeta. destruct (is_empty_element p (length ks)); [reflexivity|].
  cbn [map]. unfold raw_piece at 1. cbn [ev_el ev_kind e_body]. f_equal.
  rewrite map_app. cbn [map]. unfold raw_piece at 2. cbn [ev_el ev_kind e_body]. f_equal.
  generalize 0%nat. induction ks as [|k ks IHk]; intros i; [reflexivity|].
  inversion IH as [|? ? H1 H2]; subst. cbn [brackets_kids plain_kids]. rewrite map_app, H1. f_equal. now apply IHk.
Qed.
Lemma raw_brackets_kids enc f : forall ks q pn i,
  map (raw_piece enc f) (brackets_kids q pn i ks) = plain_kids enc f pn ks.
Proof.
  induction ks as [|k ks IH]; intros q pn i; [reflexivity|].
  cbn [brackets_kids plain_kids]. now rewrite map_app, raw_brackets, IH.
Qed.

(* string-literal mode: the pieces of the plain rendering, level and mode restored at the end *)
Lemma dfold_lit enc f : forall t q par pn lv z out, ~ prefix q z ->
  dfold enc f (mkds (Some lv) (Some z) out) (brackets q par pn t) =
  mkds (Some lv) (Some z) (rev (plain enc f pn t) ++ out).
Proof.
  induction t as [c s|p ks IH] using node_ind'; intros q par pn lv z out Hz.
  - cbn [brackets]. now rewrite dfold_cons, step_lit_string, dfold_nil.
  - rewrite brackets_tag, plain_tag. cbn zeta. destruct (is_empty_element p (length ks)).
    + now rewrite dfold_cons, step_lit_empty, dfold_nil.
    + rewrite dfold_cons, step_lit_start.
      rewrite dfold_app.
      assert (Hk : forall ks', Forall (fun t => forall q par pn lv z out, ~ prefix q z ->
                      dfold enc f (mkds (Some lv) (Some z) out) (brackets q par pn t) =
                      mkds (Some lv) (Some z) (rev (plain enc f pn t) ++ out)) ks' ->
                forall i lv' out', dfold enc f (mkds (Some lv') (Some z) out') (brackets_kids q (g_name p) i ks') =
                                   mkds (Some lv') (Some z) (rev (plain_kids enc f (g_name p) ks') ++ out')).
      { induction ks' as [|k ks' IHk]; intros HF i lv' out'; [reflexivity|].
        inversion HF as [|? ? H1 H2]; subst. cbn [brackets_kids plain_kids]. rewrite dfold_app, H1.
        - rewrite IHk by assumption. now rewrite rev_app_distr, <- app_assoc.
        - intros Hp. apply Hz. now apply prefix_child in Hp. }
      rewrite (Hk ks IH). rewrite dfold_cons, dfold_nil, step_lit_end.
      * cbn [rev]. rewrite rev_app_distr. cbn [rev app]. rewrite <- !app_assoc. cbn [app].
        f_equal. f_equal. lia.
      * intros ->. apply Hz, prefix_refl.
Qed.
Lemma dfold_lit_kids enc f : forall ks q pn i lv z out, (forall j, ~ prefix (q ++ [j]) z) ->
  dfold enc f (mkds (Some lv) (Some z) out) (brackets_kids q pn i ks) =
  mkds (Some lv) (Some z) (rev (plain_kids enc f pn ks) ++ out).
Proof.
  induction ks as [|k ks IH]; intros q pn i lv z out Hz; [reflexivity|].
  cbn [brackets_kids plain_kids]. rewrite dfold_app, dfold_lit by apply Hz.
  rewrite IH by assumption. now rewrite rev_app_distr, <- app_assoc.
Qed.

(* pretty-printing mode *)
Lemma dfold_pretty enc f : forall t q par pn lv out,
  dfold enc f (mkds (Some lv) None out) (brackets q par pn t) =
  mkds (Some lv) None (rev (pretty enc f lv pn t) ++ out).
Proof.
  induction t as [c s|p ks IH] using node_ind'; intros q par pn lv out.
  - cbn [brackets]. now rewrite dfold_cons, step_pp_string, dfold_nil.
  - rewrite brackets_tag, pretty_tag. cbn zeta. destruct (is_empty_element p (length ks)).
    + now rewrite dfold_cons, step_pp_empty, dfold_nil.
    + destruct (should_pretty_print p) eqn:Epp.
      * rewrite dfold_cons, step_pp_start by assumption.
        rewrite dfold_app.
        assert (Hk : forall ks', Forall (fun t => forall q par pn lv out,
                        dfold enc f (mkds (Some lv) None out) (brackets q par pn t) =
                        mkds (Some lv) None (rev (pretty enc f lv pn t) ++ out)) ks' ->
                  forall i lv' out', dfold enc f (mkds (Some lv') None out') (brackets_kids q (g_name p) i ks') =
                                     mkds (Some lv') None (rev (pretty_kids enc f lv' (g_name p) ks') ++ out')).
        { induction ks' as [|k ks' IHk]; intros HF i lv' out'; [reflexivity|].
          inversion HF as [|? ? H1 H2]; subst. cbn [brackets_kids pretty_kids]. rewrite dfold_app, H1.
          rewrite IHk by assumption. now rewrite rev_app_distr, <- app_assoc. }
        rewrite (Hk ks IH). rewrite dfold_cons, dfold_nil, step_pp_end.
        cbn [rev]. rewrite rev_app_distr. cbn [rev app]. rewrite <- !app_assoc. cbn [app].
        replace (lv + 1 - 1)%Z with lv by lia. reflexivity.
      * rewrite dfold_cons, step_pw_start by assumption.
        rewrite dfold_app, dfold_lit_kids by (intros j; apply not_prefix_child_self).
        rewrite dfold_cons, dfold_nil, step_pw_end.
        cbn [rev]. rewrite rev_app_distr. cbn [rev app]. rewrite <- !app_assoc. cbn [app].
        replace (lv + 1 - 1)%Z with lv by lia. reflexivity.
Qed.
Lemma dfold_pretty_kids enc f : forall ks q pn i lv out,
  dfold enc f (mkds (Some lv) None out) (brackets_kids q pn i ks) =
  mkds (Some lv) None (rev (pretty_kids enc f lv pn ks) ++ out).
Proof.
  induction ks as [|k ks IH]; intros q pn i lv out; [reflexivity|].
  cbn [brackets_kids pretty_kids]. rewrite dfold_app, dfold_pretty, IH. now rewrite rev_app_distr, <- app_assoc.
Qed.

(* ---------------------------------------------------------------- the main statements *)
Lemma decode_events_none enc f evs :
  decode_events enc f None evs = map (raw_piece enc f) evs.
Proof.
  unfold decode_events. destruct (dfold_none enc f evs (mkds None None []) eq_refl) as [_ H].
  unfold dfold in H. rewrite H. cbn [d_out]. now rewrite app_nil_r, rev_involutive.
Qed.

(* decode(indent_level) returns, piece by piece, the recursive rendering of the tree *)
Theorem decode_pieces_spec enc f level t :
  decode_pieces enc f level t = render_spec enc f level t.
Proof.
  unfold decode_pieces, render_spec, elements_of. destruct t as [p ks|c s]; [|now destruct level].
  destruct (g_hidden p).
  - rewrite event_stream_kids. destruct level as [lv|]; cbn [render_kids].
    + unfold decode_events. fold (dfold enc f (mkds (Some lv) None []) (brackets_kids [] (g_name p) 0 ks)).
      rewrite dfold_pretty_kids. cbn [d_out]. now rewrite app_nil_r, rev_involutive.
    + now rewrite decode_events_none, raw_brackets_kids.
  - rewrite event_stream_tree. destruct level as [lv|]; cbn [render_node].
    + unfold decode_events. fold (dfold enc f (mkds (Some lv) None []) (brackets [] None None (NTag p ks))).
      rewrite dfold_pretty. cbn [d_out]. now rewrite app_nil_r, rev_involutive.
    + now rewrite decode_events_none, raw_brackets.
Qed.

Theorem decode_contents_spec enc f level t :
  decode_contents enc f level t = concat (render_contents_spec enc f level t).
Proof.
  unfold decode_contents, render_contents_spec, contents_of. f_equal. destruct t as [p ks|c s]; [|now destruct level].
  rewrite event_stream_kids. destruct level as [lv|]; cbn [render_kids].
  - unfold decode_events. fold (dfold enc f (mkds (Some lv) None []) (brackets_kids [] (g_name p) 0 ks)).
    rewrite dfold_pretty_kids. cbn [d_out]. now rewrite app_nil_r, rev_involutive.
  - now rewrite decode_events_none, raw_brackets_kids.
Qed.

Corollary decode_spec enc f level t : decode enc f level t = concat (render_spec enc f level t).
Proof. unfold decode. now rewrite decode_pieces_spec. Qed.

(* ---------------------------------------------------------------- C05: structural facts *)
(* an EMPTY event is only ever emitted for an element without contents that may be an empty-element tag *)
Definition empty_ok (ev : event) : Prop :=
  ev_kind ev = KEmpty ->
  match e_body (ev_el ev) with
  | BTag p n => n = 0%nat /\ g_can_empty p = true
  | BStr _ _ _ => False
  end.
Lemma is_empty_element_spec p n : is_empty_element p n = true <-> n = 0%nat /\ g_can_empty p = true.
Proof. unfold is_empty_element. rewrite andb_true_iff, Nat.eqb_eq. tauto. Qed.

Lemma empty_ok_other k el : k <> KEmpty -> empty_ok (mkev k el).
Proof. intros H E. cbn in E. contradiction. Qed.
Lemma brackets_empty_ok : forall t q par pn, Forall empty_ok (brackets q par pn t).
Proof.
  induction t as [c s|p ks IH] using node_ind'; intros q par pn.
  - cbn [brackets]. constructor; [apply empty_ok_other; discriminate|constructor].
  - rewrite brackets_tag. cbn zeta. destruct (is_empty_element p (length ks)) eqn:E.
    + constructor; [|constructor]. intros _. cbn. now apply is_empty_element_spec.
    + constructor; [apply empty_ok_other; discriminate|]. apply Forall_app. split.
      * clear E. generalize 0%nat. induction ks as [|k ks IHk]; intros i; [constructor|].
        inversion IH; subst. cbn [brackets_kids]. apply Forall_app. split; [auto|]. apply IHk; assumption.
      * constructor; [apply empty_ok_other; discriminate|constructor].
Qed.
Lemma brackets_kids_empty_ok : forall ks q pn i, Forall empty_ok (brackets_kids q pn i ks).
Proof.
  induction ks as [|k ks IH]; intros q pn i; [constructor|]. cbn [brackets_kids]. apply Forall_app. split.
  - apply brackets_empty_ok.
  - apply IH.
Qed.
Theorem no_empty_tag_with_children t : Forall empty_ok (event_stream (elements_of t)).
Proof.
  destruct t as [p ks|c s]; [|constructor]. unfold elements_of. destruct (g_hidden p).
  - rewrite event_stream_kids. apply brackets_kids_empty_ok.
  - rewrite event_stream_tree. apply brackets_empty_ok.
Qed.

(* ... and, on the written text: an element with contents is written as start tag, contents, end tag,
   and neither tag carries the void-element slash *)
Theorem tag_with_children_rendering enc f pn p k ks :
  plain enc f pn (NTag p (k :: ks)) =
  format_tag enc f p (S (length ks)) true :: plain_kids enc f (g_name p) (k :: ks) ++ [format_tag enc f p (S (length ks)) false]
  /\ is_empty_element p (S (length ks)) = false.
Proof. rewrite plain_tag. cbn [length]. split; reflexivity. Qed.

(* text whose parent is a cdata-containing element is emitted as it is *)
Theorem cdata_text_verbatim f c s pname :
  output_kind c = 0%N -> affixes c = ([], []) -> memS pname (f_cdata f) = true ->
  output_ready f c s (Some pname) = s.
Proof.
  intros Hk Ha Hm. unfold output_ready, preformatted. rewrite Ha, Hk. cbn [app N.eqb negb]. rewrite app_nil_r.
  unfold substitute. destruct (f_subst f); [|reflexivity]. cbn [andb]. now rewrite Hm.
Qed.
(* everywhere else it goes through the formatter's function; strings of the preformatted classes
   never do *)
Theorem other_text_substituted f g c s pname :
  f_subst f = Some g -> output_kind c = 0%N -> affixes c = ([], []) ->
  match pname with Some n => memS n (f_cdata f) | None => false end = false ->
  output_ready f c s pname = g s.
Proof.
  intros Hg Hk Ha Hm. unfold output_ready, preformatted. rewrite Ha, Hk. cbn [app N.eqb negb]. rewrite app_nil_r.
  unfold substitute. rewrite Hg. cbn [andb]. now rewrite Hm.
Qed.
Theorem preformatted_verbatim f c s pname :
  output_kind c = 1%N -> output_ready f c s pname = fst (affixes c) ++ s ++ snd (affixes c).
Proof. intros Hk. unfold output_ready, preformatted. destruct (affixes c) as [pre suf]. now rewrite Hk. Qed.
