(* C06 — proofs about Model/Construct.v, part 3: an object the constructor returns is never half-built.
   Whatever the events were (unclosed elements, stray end tags, pending text), after the end of _feed()
   the stack of open elements holds the root alone, the root is the current element and no text is
   pending.  The only hypothesis is that no start event carries the reserved root name "[document]"
   (html.parser cannot produce one: a tag name starts with a letter). *)
From Coq Require Import List NArith ZArith Bool Arith Lia.
From BS Require Import Base.Sexp Base.Types Model.Heap Model.Edit Model.Build Model.Construct Proofs.ConstructProofs Proofs.RetryClean.
Import ListNotations.
Open Scope nat_scope.

Definition not_root (cfg : bconfig) (b : bstate) (t : nat) : Prop := str_eqb (name_of b t) (c_root cfg) = false.

Record wfb (cfg : bconfig) (b : bstate) (l : list nat) : Prop := mkwfb {
  w_stack : b_stack b = l ++ [0];
  w_names : Forall (not_root cfg b) l;
  w_root : name_of b 0 = c_root cfg;
  w_cur : b_cur b = hd_error (b_stack b);
  w_lt : all_lt (nxt (b_st b)) (b_stack b)
}.

Lemma zero_lt cfg b l : wfb cfg b l -> 0 < nxt (b_st b).
Proof.
  intros W. pose proof (w_lt _ _ _ W) as H. rewrite (w_stack _ _ _ W) in H.
  unfold all_lt in H. apply Forall_app in H as [_ H]. now inversion H.
Qed.

(* a state that differs only in the heap, the pending text, the most recent element — and in payloads at
   numbers that were not yet allocated *)
Lemma wfb_frame cfg b b' l :
  wfb cfg b l -> b_stack b' = b_stack b -> b_cur b' = b_cur b -> nxt (b_st b) <= nxt (b_st b') ->
  (forall x, x < nxt (b_st b) -> b_pay b' x = b_pay b x) -> wfb cfg b' l.
Proof.
  intros W Hs Hc Hn Hp. pose proof (zero_lt _ _ _ W) as Z. destruct W as [A B C D E]. constructor.
  - now rewrite Hs.
  - rewrite A in E. unfold all_lt in E. apply Forall_app in E as [E _].
    rewrite Forall_forall in *. intros t Ht. unfold not_root, name_of. rewrite Hp by auto. exact (B t Ht).
  - unfold name_of. rewrite Hp by exact Z. exact C.
  - now rewrite Hc, Hs.
  - rewrite Hs. eapply all_lt_mono; eauto.
Qed.

Lemma owp_fields b o :
  b_stack (object_was_parsed b o) = b_stack b /\ b_cur (object_was_parsed b o) = b_cur b /\
  nxt (b_st (object_was_parsed b o)) = nxt (b_st b) /\ b_pay (object_was_parsed b o) = b_pay b /\
  b_data (object_was_parsed b o) = b_data b.
Proof. destruct b as [s p stk cnt pws scs data mre [c|]]; unfold object_was_parsed; cbn; repeat split; reflexivity. Qed.

Lemma wfb_end_data cfg b l c : wfb cfg b l -> wfb cfg (end_data cfg b c) l /\ b_data (end_data cfg b c) = [].
Proof.
  intros W. unfold end_data. destruct (b_data b) as [|d0 dl] eqn:E; [auto|].
  cbn [alloc].
  match goal with |- context [object_was_parsed ?B ?O] => destruct (owp_fields B O) as (A1 & A2 & A3 & A4 & A5) end.
  split; [|rewrite A5; reflexivity].
  eapply wfb_frame; [exact W | rewrite A1; reflexivity | rewrite A2; reflexivity | rewrite A3; cbn; lia |].
  intros x L. rewrite A4. cbn. unfold pupd. destruct (Nat.eqb_spec x (nxt (b_st b))); [lia | reflexivity].
Qed.

Lemma wfb_starttag cfg b l name prefix attrs : wfb cfg b l -> str_eqb name (c_root cfg) = false ->
  exists l', wfb cfg (handle_starttag cfg b name prefix attrs) l'.
Proof.
  intros W0 Hn. destruct (wfb_end_data cfg b l None W0) as [W _]. unfold handle_starttag.
  set (e := end_data cfg b None) in *. clearbody e. clear W0.
  pose proof (zero_lt _ _ _ W) as Z. destruct W as [A B C D E].
  exists (nxt (b_st e) :: l). cbn [alloc]. unfold push_tag. constructor; cbn.
  - now rewrite A.
  - constructor.
    + unfold not_root, name_of. cbn. unfold pupd. rewrite Nat.eqb_refl. exact Hn.
    + rewrite A in E. unfold all_lt in E. apply Forall_app in E as [E _]. rewrite Forall_forall in *.
      intros t Ht. unfold not_root, name_of. cbn. unfold pupd.
      destruct (Nat.eqb_spec t (nxt (b_st e))) as [X|X]; [specialize (E t Ht); lia | exact (B t Ht)].
  - unfold name_of. cbn. unfold pupd. destruct (Nat.eqb_spec 0 (nxt (b_st e))); [lia | exact C].
  - reflexivity.
  - constructor; [lia|]. eapply all_lt_mono; [|exact E]. lia.
Qed.

Lemma wfb_pop cfg b t l : wfb cfg b (t :: l) -> wfb cfg (pop_tag b) l.
Proof.
  intros [A B C D E]. unfold pop_tag. rewrite A. cbn [app]. constructor; cbn.
  - reflexivity.
  - inversion B; subst. assumption.
  - exact C.
  - destruct l; reflexivity.
  - rewrite A in E. cbn in E. inversion E; assumption.
Qed.

Lemma wfb_pop_loop cfg name prefix : forall k b l, wfb cfg b l -> k <= length l ->
  exists l', wfb cfg (pop_loop k b name prefix) l'.
Proof.
  induction k as [|k IH]; intros b l W Hk; cbn [pop_loop]; [eauto|].
  destruct (cget name (b_counter b)) as [z|]; [|eauto]. destruct (Z.eqb z 0); [eauto|].
  rewrite (w_stack _ _ _ W). destruct l as [|t l]; [cbn in Hk; lia|]. cbn [app].
  destruct (str_eqb name (name_of b t) && _).
  - exists l. now apply (wfb_pop cfg b t l).
  - apply (IH (pop_tag b) l); [now apply (wfb_pop cfg b t l) | cbn in Hk; lia].
Qed.

Lemma wfb_endtag cfg b l name prefix : wfb cfg b l -> exists l', wfb cfg (handle_endtag cfg b name prefix) l'.
Proof.
  intros W0. destruct (wfb_end_data cfg b l None W0) as [W _]. unfold handle_endtag, pop_to_tag.
  set (e := end_data cfg b None) in *. clearbody e.
  destruct (str_eqb name (c_root cfg)); [eauto|]. destruct (_ && _); [eauto|].
  apply (wfb_pop_loop cfg name prefix _ e l W). rewrite (w_stack _ _ _ W), app_length. cbn. lia.
Qed.

Definition no_root_start (cfg : bconfig) (e : event) : bool :=
  match e with EStart n _ _ => negb (str_eqb n (c_root cfg)) | _ => true end.

Lemma wfb_step cfg b l e : wfb cfg b l -> no_root_start cfg e = true -> exists l', wfb cfg (step_event cfg b e) l'.
Proof.
  intros W H. destruct e; cbn [step_event no_root_start] in *.
  - apply (wfb_starttag cfg b l); [exact W | now apply negb_true_iff].
  - now apply (wfb_endtag cfg b l).
  - exists l. unfold handle_data. eapply wfb_frame; [exact W | | | |]; cbn; auto.
  - exists l. exact (proj1 (wfb_end_data cfg b l cls W)).
Qed.

Lemma wfb_run cfg : forall evs b l, wfb cfg b l -> forallb (no_root_start cfg) evs = true ->
  exists l', wfb cfg (run_events cfg b evs) l'.
Proof.
  unfold run_events. induction evs as [|e evs IH]; intros b l W H; cbn [fold_left]; [eauto|].
  cbn [forallb] in H. apply andb_prop in H as [H1 H2].
  destruct (wfb_step cfg b l e W H1) as [l' W']. exact (IH _ l' W' H2).
Qed.

Lemma wfb_reset cfg b : wfb cfg (reset_obj cfg b) [].
Proof.
  unfold reset_obj, push_tag. constructor; cbn.
  - reflexivity.
  - constructor.
  - unfold name_of. cbn. reflexivity.
  - reflexivity.
  - constructor; [lia | constructor].
Qed.

Lemma pop_all_done cfg : forall k b l, wfb cfg b l -> length l <= k ->
  b_stack (pop_all k cfg b) = [0] /\ b_cur (pop_all k cfg b) = Some 0 /\ b_data (pop_all k cfg b) = b_data b.
Proof.
  induction k as [|k IH]; intros b l W Hk.
  - destruct l; [|cbn in Hk; lia]. cbn [pop_all]. rewrite (w_cur _ _ _ W), (w_stack _ _ _ W). auto.
  - cbn [pop_all]. rewrite (w_cur _ _ _ W), (w_stack _ _ _ W). destruct l as [|t l]; cbn [app hd_error].
    + rewrite (w_root _ _ _ W). replace (str_eqb (c_root cfg) (c_root cfg)) with true
        by (symmetry; now apply str_eqb_eq).
      rewrite (w_cur _ _ _ W), (w_stack _ _ _ W). auto.
    + pose proof (w_names _ _ _ W) as N. inversion N as [|? ? N1 N2]; subst. unfold not_root in N1. rewrite N1.
      destruct (IH (pop_tag b) l (wfb_pop cfg b t l W)) as (A & B & C); [cbn in Hk; lia|].
      rewrite A, B, C. unfold pop_tag. rewrite (w_stack _ _ _ W). cbn. auto.
Qed.

(* whatever events were delivered and whatever state the object was in before reset(): the returned
   object has exactly the root on the stack of open elements, the root is current, no text is pending *)
Theorem finished_object : forall cfg b0 evs, forallb (no_root_start cfg) evs = true ->
  let b := finish cfg (run_events cfg (reset_obj cfg b0) evs) in
  b_stack b = [0] /\ b_cur b = Some 0 /\ b_data b = [].
Proof.
  intros cfg b0 evs H. cbv zeta. unfold finish.
  destruct (wfb_run cfg evs _ [] (wfb_reset cfg b0) H) as [l W].
  destruct (wfb_end_data cfg _ l None W) as [W' D].
  destruct (pop_all_done cfg (length (b_stack (end_data cfg (run_events cfg (reset_obj cfg b0) evs) None))) _ l W') as (A & B & C).
  - rewrite (w_stack _ _ _ W'), app_length. cbn. lia.
  - rewrite A, B, C, D. auto.
Qed.

Definition attempt_events (a : attempt) : list event :=
  match a with Accept e => e | Reject e _ => e | Crash e _ => e end.

(* the same for whatever the retry loop returns *)
Lemma loop_fully_built cfg tail : forall ss b rej s,
  Forall (fun st => forallb (no_root_start cfg) (attempt_events (st_out st)) = true) ss ->
  construct_loop cfg b rej ss tail = CSoup s ->
  b_stack (so_b s) = [0] /\ b_cur (so_b s) = Some 0 /\ b_data (so_b s) = [].
Proof.
  induction ss as [|st ss IH]; intros b rej s H; cbn [construct_loop].
  - destruct tail; discriminate.
  - inversion H as [|? ? H1 H2]; subst.
    destruct (st_out st) as [evs|evs msg|evs e] eqn:E; cbn [attempt_events] in H1.
    + intros X; inversion X; subst. cbn [so_b]. now apply finished_object.
    + destruct (catches _ _); [|discriminate]. now apply IH.
    + destruct e as [?|c]; [discriminate|]. destruct (catches _ c); [|discriminate]. now apply IH.
Qed.

Theorem returned_object_fully_built : forall cfg b0 ss tail s,
  Forall (fun st => forallb (no_root_start cfg) (attempt_events (st_out st)) = true) ss ->
  construct cfg b0 ss tail = CSoup s ->
  b_stack (so_b s) = [0] /\ b_cur (so_b s) = Some 0 /\ b_data (so_b s) = [].
Proof. intros cfg b0 ss tail s. unfold construct. apply loop_fully_built. Qed.
