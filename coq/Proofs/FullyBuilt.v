(* C06 — proofs about Model/Construct.v, part 3: an object the constructor returns is never half-built.
   Whatever the events were (unclosed elements, stray end tags, pending text, even a start tag that
   carries the reserved root name), after the end of _feed() the stack of open elements holds the root
   alone, the root is the current element and no text is pending.  The root is recognised by identity
   (it is element 0), so there is no hypothesis on the events. *)
From Coq Require Import List NArith ZArith Bool Arith Lia.
From BS Require Import Base.Sexp Base.Types Model.Heap Model.Edit Model.Build Model.Construct Proofs.ConstructProofs Proofs.RetryClean.
Import ListNotations.
Open Scope nat_scope.

Record wfb (b : bstate) (l : list nat) : Prop := mkwfb {
  w_stack : b_stack b = l ++ [0];
  w_nz : Forall (fun t => t <> 0) l;
  w_cur : b_cur b = hd_error (b_stack b);
  w_pos : 0 < nxt (b_st b)
}.

(* a state that differs only in the heap, the payloads, the pending text, the most recent element *)
Lemma wfb_frame b b' l :
  wfb b l -> b_stack b' = b_stack b -> b_cur b' = b_cur b -> nxt (b_st b) <= nxt (b_st b') -> wfb b' l.
Proof.
  intros [A B C D] Hs Hc Hn. constructor.
  - now rewrite Hs.
  - exact B.
  - now rewrite Hc, Hs.
  - lia.
Qed.

Lemma owp_fields b o :
  b_stack (object_was_parsed b o) = b_stack b /\ b_cur (object_was_parsed b o) = b_cur b /\
  nxt (b_st (object_was_parsed b o)) = nxt (b_st b) /\ b_data (object_was_parsed b o) = b_data b.
Proof. destruct b as [s p stk cnt pws scs data mre [c|]]; unfold object_was_parsed; cbn; repeat split; reflexivity. Qed.

Lemma wfb_end_data cfg b l c : wfb b l -> wfb (end_data cfg b c) l /\ b_data (end_data cfg b c) = [].
Proof.
  intros W. unfold end_data. destruct (b_data b) as [|d0 dl] eqn:E; [auto|].
  cbn [alloc].
  match goal with |- context [object_was_parsed ?B ?O] => destruct (owp_fields B O) as (A1 & A2 & A3 & A5) end.
  split; [|rewrite A5; reflexivity].
  eapply wfb_frame; [exact W | rewrite A1; reflexivity | rewrite A2; reflexivity | rewrite A3; cbn; lia].
Qed.

Lemma wfb_starttag cfg b l name prefix attrs : wfb b l ->
  exists l', wfb (handle_starttag cfg b name prefix attrs) l'.
Proof.
  intros W0. destruct (wfb_end_data cfg b l None W0) as [W _]. unfold handle_starttag.
  set (e := end_data cfg b None) in *. clearbody e. clear W0.
  destruct W as [A B C D].
  exists (nxt (b_st e) :: l). cbn [alloc]. unfold push_tag. constructor; cbn.
  - now rewrite A.
  - constructor; [lia | exact B].
  - reflexivity.
  - lia.
Qed.

Lemma wfb_pop b t l : wfb b (t :: l) -> wfb (pop_tag b) l.
Proof.
  intros [A B C D]. unfold pop_tag. rewrite A. cbn [app]. constructor; cbn.
  - reflexivity.
  - inversion B; subst. assumption.
  - destruct l; reflexivity.
  - exact D.
Qed.

Lemma wfb_pop_loop name prefix : forall k b l, wfb b l -> k <= length l ->
  exists l', wfb (pop_loop k b name prefix) l'.
Proof.
  induction k as [|k IH]; intros b l W Hk; cbn [pop_loop]; [eauto|].
  destruct (cget name (b_counter b)) as [z|]; [|eauto]. destruct (Z.eqb z 0); [eauto|].
  rewrite (w_stack _ _ W). destruct l as [|t l]; [cbn in Hk; lia|]. cbn [app].
  destruct (str_eqb name (name_of b t) && _).
  - exists l. now apply (wfb_pop b t l).
  - apply (IH (pop_tag b) l); [now apply (wfb_pop b t l) | cbn in Hk; lia].
Qed.

Lemma wfb_endtag cfg b l name prefix : wfb b l -> exists l', wfb (handle_endtag cfg b name prefix) l'.
Proof.
  intros W0. destruct (wfb_end_data cfg b l None W0) as [W _]. unfold handle_endtag, pop_to_tag.
  set (e := end_data cfg b None) in *. clearbody e.
  destruct (_ && _); [eauto|].
  apply (wfb_pop_loop name prefix _ e l W). rewrite (w_stack _ _ W), app_length. cbn. lia.
Qed.

Lemma wfb_step cfg b l e : wfb b l -> exists l', wfb (step_event cfg b e) l'.
Proof.
  intros W. destruct e; cbn [step_event].
  - now apply (wfb_starttag cfg b l).
  - now apply (wfb_endtag cfg b l).
  - exists l. unfold handle_data. eapply wfb_frame; [exact W | | |]; cbn; auto.
  - exists l. exact (proj1 (wfb_end_data cfg b l cls W)).
Qed.

Lemma wfb_run cfg : forall evs b l, wfb b l -> exists l', wfb (run_events cfg b evs) l'.
Proof.
  unfold run_events. induction evs as [|e evs IH]; intros b l W; cbn [fold_left]; [eauto|].
  destruct (wfb_step cfg b l e W) as [l' W']. exact (IH _ l' W').
Qed.

Lemma wfb_reset cfg b : wfb (reset_obj cfg b) [].
Proof.
  unfold reset_obj, push_tag. constructor; cbn.
  - reflexivity.
  - constructor.
  - reflexivity.
  - lia.
Qed.

Lemma pop_all_done cfg : forall k b l, wfb b l -> length l <= k ->
  b_stack (pop_all k cfg b) = [0] /\ b_cur (pop_all k cfg b) = Some 0 /\ b_data (pop_all k cfg b) = b_data b.
Proof.
  induction k as [|k IH]; intros b l W Hk.
  - destruct l; [|cbn in Hk; lia]. cbn [pop_all]. rewrite (w_cur _ _ W), (w_stack _ _ W). auto.
  - cbn [pop_all]. rewrite (w_cur _ _ W), (w_stack _ _ W). destruct l as [|t l]; cbn [app hd_error].
    + cbn [Nat.eqb]. rewrite (w_cur _ _ W), (w_stack _ _ W). auto.
    + pose proof (w_nz _ _ W) as N. inversion N as [|? ? N1 N2]; subst.
      apply Nat.eqb_neq in N1. rewrite N1.
      destruct (IH (pop_tag b) l (wfb_pop b t l W)) as (A & B & C); [cbn in Hk; lia|].
      rewrite A, B, C. unfold pop_tag. rewrite (w_stack _ _ W). cbn. auto.
Qed.

(* whatever events were delivered and whatever state the object was in before reset(): the returned
   object has exactly the root on the stack of open elements, the root is current, no text is pending *)
Theorem finished_object : forall cfg b0 evs,
  let b := finish cfg (run_events cfg (reset_obj cfg b0) evs) in
  b_stack b = [0] /\ b_cur b = Some 0 /\ b_data b = [].
Proof.
  intros cfg b0 evs. cbv zeta. unfold finish.
  destruct (wfb_run cfg evs _ [] (wfb_reset cfg b0)) as [l W].
  destruct (wfb_end_data cfg _ l None W) as [W' D].
  destruct (pop_all_done cfg (length (b_stack (end_data cfg (run_events cfg (reset_obj cfg b0) evs) None))) _ l W') as (A & B & C).
  - rewrite (w_stack _ _ W'), app_length. cbn. lia.
  - rewrite A, B, C, D. auto.
Qed.

(* the same for whatever the retry loop returns *)
Lemma loop_fully_built cfg tail : forall ss b rej s,
  construct_loop cfg b rej ss tail = CSoup s ->
  b_stack (so_b s) = [0] /\ b_cur (so_b s) = Some 0 /\ b_data (so_b s) = [].
Proof.
  induction ss as [|st ss IH]; intros b rej s; cbn [construct_loop].
  - destruct tail; discriminate.
  - destruct (st_out st) as [evs|evs msg|evs e] eqn:E.
    + intros X; inversion X; subst. cbn [so_b]. now apply finished_object.
    + destruct (catches _ _); [|discriminate]. now apply IH.
    + destruct e as [?|c]; [discriminate|]. destruct (catches _ c); [|discriminate]. now apply IH.
Qed.

Theorem returned_object_fully_built : forall cfg b0 ss tail s,
  construct cfg b0 ss tail = CSoup s ->
  b_stack (so_b s) = [0] /\ b_cur (so_b s) = Some 0 /\ b_data (so_b s) = [].
Proof. intros cfg b0 ss tail s. unfold construct. apply loop_fully_built. Qed.
