(* C11 — the shape families of the property: for every family and every operation below, the depth
   on the document nested d+1 deep equals the depth on the document nested d deep (d >= 2), hence
   the depth at d, at 2d and beyond any recursion limit are all the depth at 2. *)
From Coq Require Import List NArith Bool Lia Arith ZArith.
From BS Require Import Base.Sexp Base.Types Model.Depth Proofs.DepthProofs.
Import ListNotations.
Local Open Scope nat_scope.

(* ---------- flat, without the ancestor chains ---------- *)
Lemma map_fst_flat_map {X Y Z} (f : X -> list (Y * Z)) l : map fst (flat_map f l) = flat_map (fun x => map fst (f x)) l.
Proof. induction l as [|x l IH]; cbn; [reflexivity|]. now rewrite map_app, IH. Qed.

Lemma flat_map_ext_in {X Y} (f g : X -> list Y) l : (forall x, In x l -> f x = g x) -> flat_map f l = flat_map g l.
Proof.
  induction l as [|x l IH]; intros H; cbn; [reflexivity|].
  rewrite (H x (or_introl eq_refl)), IH; [reflexivity|]. intros y Hy. apply H. now right.
Qed.

Lemma flat_ctx_fst e : forall ctx, map fst (flat_ctx ctx e) = flat_map (fun k => k :: flat k) (kids_of e).
Proof.
  induction e as [cls t|n p a k v h s ks IH] using elem_ind'; intros ctx; [reflexivity|].
  cbn [flat_ctx kids_of]. rewrite map_fst_flat_map. apply flat_map_ext_in. intros x Hx.
  rewrite Forall_forall in IH. cbn [map fst]. f_equal.
  unfold flat. now rewrite (IH x Hx), (IH x Hx []).
Qed.

Lemma flat_tag n a ks : flat (tag_ n a ks) = flat_map (fun k => k :: flat k) ks.
Proof. unfold flat. now rewrite flat_ctx_fst. Qed.
Lemma flat_soup ks : flat (soup_ ks) = flat_map (fun k => k :: flat k) ks.
Proof. unfold flat. now rewrite flat_ctx_fst. Qed.
Lemma flat_text t : flat (text_ t) = [].
Proof. reflexivity. Qed.

(* ---------- what a per-element cost may look at ---------- *)
Definition strip (e : elem) : elem :=
  match e with
  | ETag n p a k v h s _ => ETag n p a k v h s []
  | x => x
  end.
Definition shallow (e : elem) : elem :=
  match e with
  | ETag n p a k v h s ks => ETag n p a k v h s (map strip ks)
  | x => x
  end.
Definition sim (x y : elem) : Prop := shallow x = shallow y /\ tag_string x = tag_string y.

Lemma sim_refl x : sim x x.
Proof. split; reflexivity. Qed.

Definition respects {X} (g : elem -> X) : Prop := forall x y, sim x y -> g x = g y.
Definition cover (l1 l2 : list elem) : Prop := forall x, In x l1 -> exists y, In y l2 /\ sim x y.

Lemma cover_incl l1 l2 : incl l1 l2 -> cover l1 l2.
Proof. intros H x Hx. exists x. split; [now apply H|apply sim_refl]. Qed.

Lemma in_le_list_max x l : In x l -> x <= list_max l.
Proof.
  intros H. assert (Hf : Forall (fun k => k <= list_max l) l) by (apply list_max_le; lia).
  rewrite Forall_forall in Hf. now apply Hf.
Qed.

Lemma list_max_cover (g : elem -> list nat) l1 l2 :
  respects g -> cover l1 l2 -> list_max (flat_map g l1) <= list_max (flat_map g l2).
Proof.
  intros Hr Hc. apply list_max_le. apply Forall_forall. intros v Hv.
  apply in_flat_map in Hv as [x [Hx Hv]]. destruct (Hc x Hx) as [y [Hy Hs]].
  rewrite (Hr x y Hs) in Hv. apply in_le_list_max. apply in_flat_map. now exists y.
Qed.

Lemma list_max_cons x l : list_max (x :: l) = Nat.max x (list_max l).
Proof. reflexivity. Qed.

Lemma fr_cons_equiv x l1 l2 : list_max l1 = list_max l2 -> fr (x :: l1) = fr (x :: l2).
Proof. intros H. unfold fr. now rewrite !list_max_cons, H. Qed.

Lemma list_max_equiv (g : elem -> list nat) l1 l2 :
  respects g -> cover l1 l2 -> cover l2 l1 -> list_max (flat_map g l1) = list_max (flat_map g l2).
Proof. intros Hr H1 H2. apply Nat.le_antisymm; now apply list_max_cover. Qed.

Lemma existsb_cover (p : elem -> bool) l1 l2 :
  respects p -> cover l1 l2 -> cover l2 l1 -> existsb p l1 = existsb p l2.
Proof.
  intros Hr H1 H2.
  destruct (existsb p l1) eqn:E1; destruct (existsb p l2) eqn:E2; try reflexivity.
  - apply existsb_exists in E1 as [x [Hx Hp]]. destruct (H1 x Hx) as [y [Hy Hs]].
    rewrite (Hr x y Hs) in Hp. assert (existsb p l2 = true) by (apply existsb_exists; now exists y). congruence.
  - apply existsb_exists in E2 as [x [Hx Hp]]. destruct (H2 x Hx) as [y [Hy Hs]].
    rewrite (Hr x y Hs) in Hp. assert (existsb p l1 = true) by (apply existsb_exists; now exists y). congruence.
Qed.

(* field projections respect sim *)
Lemma sim_fields x y : sim x y ->
  is_tag x = is_tag y /\ name_of x = name_of y /\ prefix_of x = prefix_of y /\ attrs_of x = attrs_of y /\
  kx_of x = kx_of y /\ void_of x = void_of y /\ hidden_of x = hidden_of y /\ soup_of x = soup_of y /\
  has_kids x = has_kids y /\ text_of x = text_of y /\ cls_of x = cls_of y /\ tag_string x = tag_string y /\
  (kids_of x = [] <-> kids_of y = []).
Proof.
  intros [Hs Ht]. destruct x as [c t|n p a k v h s ks], y as [c' t'|n' p' a' k' v' h' s' ks']; cbn in Hs; try discriminate.
  - inversion Hs; subst. repeat split; reflexivity.
  - inversion Hs as [[Hn Hp Ha Hk Hv Hh Hso Hks]]. subst.
    assert (Hiff : ks = [] <-> ks' = []).
    { split; intros ->; [destruct ks'|destruct ks]; try reflexivity; discriminate. }
    assert (Hhk : has_kids (ETag n' p' a' k' v' h' s' ks) = has_kids (ETag n' p' a' k' v' h' s' ks')).
    { unfold has_kids. cbn [kids_of]. destruct ks, ks'; try reflexivity; discriminate. }
    repeat split; try reflexivity; try exact Ht; try exact Hhk; cbn [kids_of]; apply Hiff.
Qed.

Lemma respects_is_tag : respects is_tag.
Proof. intros x y H. now apply sim_fields in H. Qed.

(* ---------- the per-element costs of the operations respect sim ---------- *)
Lemma respects_decode_elem subst enc indent : respects (decode_elem_calls subst enc indent).
Proof.
  intros x y H. pose proof (sim_fields x y H) as (Ht & Hn & Hp & Ha & Hk & Hv & Hh & Hso & Hhk & Htx & Hc & Hts & Hks).
  destruct x as [c t|n p a k v h s ks], y as [c' t'|n' p' a' k' v' h' s' ks']; cbn in *; try discriminate; [reflexivity|].
  subst. unfold decode_elem_calls, d_format_tag. cbn [hidden_of attrs_of].
  destruct ks, ks'; try reflexivity.
  - exfalso. destruct Hks as [Hks _]. specialize (Hks eq_refl). discriminate.
  - exfalso. destruct Hks as [_ Hks]. specialize (Hks eq_refl). discriminate.
Qed.

Lemma respects_strainer_match c : respects (strainer_match c).
Proof.
  intros x y H. pose proof (sim_fields x y H) as (Ht & Hn & Hp & Ha & Hk & Hv & Hh & Hso & Hhk & Htx & Hc & Hts & Hks).
  destruct x as [cl t|n p a k v h s ks], y as [cl' t'|n' p' a' k' v' h' s' ks']; cbn in Ht, Hn, Hp, Ha, Htx; try discriminate.
  - subst. reflexivity.
  - subst. cbn [strainer_match]. f_equal.
    unfold matches_tag, no_prefix, prefixed_name, attr_value_of. cbn [prefix_of name_of attrs_of].
    assert (Hnl : forall rs, name_rules_loop rs (ETag n' p' a' k v h s ks) = name_rules_loop rs (ETag n' p' a' k' v' h' s' ks')).
    { induction rs as [|r rs IHr]; [reflexivity|]. cbn [name_rules_loop]. unfold prefixed_name. cbn [prefix_of name_of].
      now rewrite IHr. }
    assert (Hal : forall ars, attr_rules_loop ars (ETag n' p' a' k v h s ks) = attr_rules_loop ars (ETag n' p' a' k' v' h' s' ks')).
    { induction ars as [|[kk ss] ars IHa]; [reflexivity|]. cbn [attr_rules_loop]. unfold attr_value_of. cbn [attrs_of].
      now rewrite IHa. }
    rewrite Hnl, Hal, Hts. reflexivity.
Qed.

(* filter_calls without a limit is a flat_map *)
Definition filter_elem_calls (c : crit) (e : elem) : list nat := [fst (strainer_match c e)].
Lemma filter_calls_nolimit c elems : c_limit c = None -> forall found,
  filter_calls c elems found = flat_map (filter_elem_calls c) elems.
Proof.
  intros Hl. induction elems as [|e rest IH]; intros found; [reflexivity|].
  cbn [filter_calls flat_map]. unfold filter_elem_calls at 1.
  destruct (strainer_match c e) as [d m]. cbn [fst app]. rewrite Hl.
  destruct m; rewrite IH; reflexivity.
Qed.
Lemma respects_filter_elem c : respects (filter_elem_calls c).
Proof.
  intros x y H. unfold filter_elem_calls. now rewrite (respects_strainer_match c x y H).
Qed.

Lemma respects_smooth_contents : respects (fun e => [d_smooth_contents e]).
Proof.
  intros x y [Hs _]. f_equal. unfold d_smooth_contents.
  assert (Hm : marked_pairs (kids_of x) = marked_pairs (kids_of y)).
  { assert (Hg : forall l, marked_pairs (map strip l) = marked_pairs l).
    { induction l as [|a l IH]; [reflexivity|]. destruct l as [|b r]; [reflexivity|].
      cbn [map] in *. cbn [marked_pairs]. cbn [marked_pairs] in IH. rewrite IH.
      f_equal. destruct a, b; reflexivity. }
    destruct x as [c t|n p a k v h s ks], y as [c' t'|n' p' a' k' v' h' s' ks']; cbn in Hs; try discriminate; [reflexivity|].
    inversion Hs. cbn [kids_of]. rewrite <- (Hg ks), <- (Hg ks'). congruence. }
  now rewrite Hm.
Qed.

(* ---------- the families: one more level adds nothing new ---------- *)
Lemma tag_string_chain d : tag_string (nest FChain d) = None.
Proof. induction d as [|d IH]; [reflexivity|]. cbn [nest]. unfold tag_. cbn [tag_string]. exact IH. Qed.
Lemma tag_string_attrs d : tag_string (nest FAttrs d) = None.
Proof. induction d as [|d IH]; [reflexivity|]. cbn [nest]. unfold tag_. cbn [tag_string]. exact IH. Qed.
Lemma tag_string_alt d : tag_string (nest FAlternate d) = None.
Proof. induction d as [|d IH]; [reflexivity|]. cbn [nest]. unfold tag_. cbn [tag_string]. exact IH. Qed.

Lemma strip_nest_S f d : strip (nest f (S d)) = tag_ (name_of (nest f (S d))) (attrs_of (nest f (S d))) [].
Proof. destruct f; reflexivity. Qed.

Lemma even_SS n : Nat.even (S (S n)) = Nat.even n.
Proof. reflexivity. Qed.

(* the new outermost element looks like one that was already there *)
Lemma new_level_sim f d : 2 <= d ->
  exists y, In y (flat (document f d)) /\ sim (nest f (S d)) y.
Proof.
  intros Hd. destruct d as [|[|d]]; try lia.
  unfold document. rewrite flat_soup. cbn [flat_map]. rewrite app_nil_r.
  destruct f.
  - (* chain *) exists (nest FChain (S (S d))). split; [now left|].
    split; [reflexivity|]. now rewrite !tag_string_chain.
  - exists (nest FTrailText (S (S d))). split; [now left|]. split; reflexivity.
  - exists (nest FTrailSibling (S (S d))). split; [now left|]. split; reflexivity.
  - (* alternating names: the element two levels further in has the same name *)
    exists (nest FAlternate (S d)). split.
    + right. change (nest FAlternate (S (S d))) with (tag_ (if Nat.even (S (S d)) then s_a else s_b) [] [nest FAlternate (S d)]).
      rewrite flat_tag. cbn [flat_map]. now left.
    + split; [|now rewrite !tag_string_alt].
      destruct d as [|d']; cbn; reflexivity.
  - exists (nest FAttrs (S (S d))). split; [now left|]. split; [reflexivity|]. now rewrite !tag_string_attrs.
  - exists (nest FRepeat (S (S d))). split; [now left|]. split; reflexivity.
Qed.

(* one nesting level: fixed siblings before and after the nested element *)
Definition level_tag (f : family) (k : nat) (inner : elem) : elem :=
  match f with
  | FChain => tag_ s_a [] [inner]
  | FTrailText => tag_ s_a [] [inner; text_ s_x]
  | FTrailSibling => tag_ s_a [] [inner; tag_ s_b [] []]
  | FAlternate => tag_ (if Nat.even k then s_a else s_b) [] [inner]
  | FAttrs => tag_ s_a [(s_class, AvList [s_x]); (s_id, AvStr s_x)] [inner]
  | FRepeat => tag_ s_a [] [tag_ s_b [] [text_ s_x]; inner; tag_ s_b [] [text_ s_x]]
  end.
Definition pre_sibs (f : family) : list elem :=
  match f with FRepeat => [tag_ s_b [] [text_ s_x]; text_ s_x] | _ => [] end.
Definition post_sibs (f : family) : list elem :=
  match f with
  | FTrailText => [text_ s_x]
  | FTrailSibling => [tag_ s_b [] []]
  | FRepeat => [tag_ s_b [] [text_ s_x]; text_ s_x]
  | _ => []
  end.
Lemma nest_S f k : nest f (S k) = level_tag f (S k) (nest f k).
Proof. destruct f; reflexivity. Qed.
Lemma flat_level f k inner : flat (level_tag f k inner) = pre_sibs f ++ (inner :: flat inner) ++ post_sibs f.
Proof.
  destruct f; unfold level_tag; rewrite flat_tag; cbn [flat_map pre_sibs post_sibs app];
    rewrite ?flat_tag, ?flat_text; cbn [flat_map app]; rewrite ?app_nil_r, ?flat_text; try reflexivity;
    rewrite <- ?app_assoc; reflexivity.
Qed.

Lemma flat_nest_S_incl f d : 1 <= d -> incl (flat (nest f (S d))) (nest f d :: flat (nest f d)).
Proof.
  intros Hd. destruct d as [|d]; [lia|].
  assert (E2 : flat (nest f (S (S d))) = pre_sibs f ++ (nest f (S d) :: flat (nest f (S d))) ++ post_sibs f)
    by (rewrite (nest_S f (S d)), flat_level; reflexivity).
  assert (E1 : flat (nest f (S d)) = pre_sibs f ++ (nest f d :: flat (nest f d)) ++ post_sibs f)
    by (rewrite (nest_S f d), flat_level; reflexivity).
  rewrite E2. intros x Hx. rewrite !in_app_iff in Hx. cbn [In] in Hx.
  destruct Hx as [Hx|[[Hx|Hx]|Hx]].
  - right. rewrite E1. rewrite !in_app_iff. now left.
  - now left.
  - now right.
  - right. rewrite E1. rewrite !in_app_iff. now right; right.
Qed.

Lemma family_cover_up f d : 2 <= d -> cover (flat (document f d)) (flat (document f (S d))).
Proof.
  intros Hd. apply cover_incl. unfold document. rewrite !flat_soup. cbn [flat_map]. rewrite !app_nil_r.
  intros x Hx. right. rewrite nest_S, flat_level. rewrite !in_app_iff. right. left. exact Hx.
Qed.

Lemma family_cover_down f d : 2 <= d -> cover (flat (document f (S d))) (flat (document f d)).
Proof.
  intros Hd x Hx. unfold document in Hx. rewrite flat_soup in Hx. cbn [flat_map] in Hx. rewrite app_nil_r in Hx.
  destruct Hx as [Hx|Hx].
  - subst x. now apply new_level_sim.
  - exists x. split; [|apply sim_refl].
    unfold document. rewrite flat_soup. cbn [flat_map]. rewrite app_nil_r.
    apply (flat_nest_S_incl f d); [lia|exact Hx].
Qed.

(* ---------- operations on the family documents ---------- *)
Lemma soup_fields ks : hidden_of (soup_ ks) = true /\ soup_of (soup_ ks) = true /\ kx_of (soup_ ks) = Some false.
Proof. repeat split. Qed.

Lemma has_kids_document f d : has_kids (document f d) = true.
Proof. reflexivity. Qed.

Theorem family_decode_step f d indent fm enc : 2 <= d ->
  d_decode (document f (S d)) [] indent fm enc = d_decode (document f d) [] indent fm enc.
Proof.
  intros Hd. unfold d_decode. change (soup_of (document f (S d))) with true. change (soup_of (document f d)) with true.
  f_equal. f_equal. unfold d_tag_decode. f_equal.
  assert (Hfn : d_formatter_for_name (document f (S d)) [] = d_formatter_for_name (document f d) []) by reflexivity.
  unfold d_event_stream, stream_elems, d_descendants.
  change (hidden_of (document f (S d))) with true. change (hidden_of (document f d)) with true.
  rewrite !has_kids_document. cbn [app].
  rewrite (existsb_cover is_tag _ _ respects_is_tag (family_cover_down f d Hd) (family_cover_up f d Hd)).
  rewrite Hfn. unfold fr.
  rewrite !list_max_app, !list_max_cons.
  rewrite (list_max_equiv (decode_elem_calls (fmt_subst fm) enc indent) _ _
             (respects_decode_elem _ _ _) (family_cover_down f d Hd) (family_cover_up f d Hd)).
  reflexivity.
Qed.

Theorem family_decode_contents_step f d indent fm : 2 <= d ->
  d_decode_contents (document f (S d)) [] indent fm = d_decode_contents (document f d) [] indent fm.
Proof.
  intros Hd. unfold d_decode_contents. change (soup_of (document f (S d))) with true. change (soup_of (document f d)) with true.
  f_equal. f_equal. f_equal. f_equal. unfold d_tag_decode. f_equal.
  assert (Hfn : d_formatter_for_name (document f (S d)) [] = d_formatter_for_name (document f d) []) by reflexivity.
  unfold d_event_stream, stream_elems, d_descendants. rewrite !has_kids_document.
  rewrite (existsb_cover is_tag _ _ respects_is_tag (family_cover_down f d Hd) (family_cover_up f d Hd)).
  rewrite Hfn. unfold fr. rewrite !list_max_app, !list_max_cons.
  rewrite (list_max_equiv (decode_elem_calls (fmt_subst fm) EncNormal indent) _ _
             (respects_decode_elem _ _ _) (family_cover_down f d Hd) (family_cover_up f d Hd)).
  reflexivity.
Qed.

Theorem family_find_all_step f d c : c_limit c = None -> c_recursive c = true -> 2 <= d ->
  d_find_all c (document f (S d)) = d_find_all c (document f d).
Proof.
  intros Hl Hr Hd. unfold d_find_all. rewrite Hr. f_equal. f_equal.
  unfold d_find_all_core, d_strainer_find_all, d_descendants. rewrite !has_kids_document.
  rewrite !(filter_calls_nolimit c _ Hl).
  assert (E : list_max (flat_map (filter_elem_calls c) (flat (document f (S d)))) =
              list_max (flat_map (filter_elem_calls c) (flat (document f d)))).
  { apply list_max_equiv; [apply respects_filter_elem|now apply family_cover_down|now apply family_cover_up]. }
  rewrite (fr_cons_equiv _ _ _ E). reflexivity.
Qed.

Theorem family_get_text_step f d : d_get_text (document f (S d)) = d_get_text (document f d).
Proof. reflexivity. Qed.

Lemma list_max_map_filter (g : elem -> nat) l :
  list_max (map g (filter is_tag l)) = list_max (flat_map (fun e => if is_tag e then [g e] else []) l).
Proof.
  induction l as [|x l IH]; [reflexivity|]. cbn [filter flat_map]. destruct (is_tag x); cbn [map app].
  - now rewrite !list_max_cons, IH.
  - exact IH.
Qed.

Theorem family_smooth_step f d : 2 <= d -> d_smooth (document f (S d)) = d_smooth (document f d).
Proof.
  intros Hd. unfold d_smooth, d_descendants. rewrite !has_kids_document.
  assert (Hroot : d_smooth_contents (document f (S d)) = d_smooth_contents (document f d)) by reflexivity.
  rewrite Hroot. apply fr_cons_equiv. rewrite !list_max_cons. f_equal.
  rewrite !list_max_map_filter. apply list_max_equiv; [|now apply family_cover_down|now apply family_cover_up].
  intros x y H. rewrite (respects_is_tag x y H). destruct (is_tag y); [|reflexivity].
  exact (respects_smooth_contents x y H).
Qed.

(* copying: every element of a family document knows it is HTML, so the ancestor chains do not matter *)
Definition deepcopy_known_calls (c : elem) : list nat :=
  [ (if is_tag c then fr [fr [leaf; d_tag_init_nobuilder c]] else fr [d_nav_new]); d_append_fresh ].
Definition all_known (e : elem) : Prop := forall x, In x (flat e) -> is_tag x = true -> soup_of x = false /\ kx_of x <> None.

Lemma deepcopy_calls_known ctx e :
  (forall c cx, In (c, cx) (flat_ctx ctx e) -> is_tag c = true -> soup_of c = false /\ kx_of c <> None) ->
  flat_map deepcopy_elem_calls (flat_ctx ctx e) = flat_map deepcopy_known_calls (map fst (flat_ctx ctx e)).
Proof.
  generalize (flat_ctx ctx e). intros l H. induction l as [|[c cx] l IH]; [reflexivity|].
  cbn [flat_map map fst]. rewrite IH by (intros; eapply H; [right; eassumption|assumption]).
  f_equal. unfold deepcopy_elem_calls, deepcopy_known_calls. cbn [fst snd].
  destruct (is_tag c) eqn:Et; [|reflexivity].
  destruct (H c cx (or_introl eq_refl) Et) as [Hs Hk].
  unfold d_copy_self. rewrite Hs. unfold d_is_xml. cbn [is_xml_walk].
  destruct (kx_of c) eqn:Ek; [|congruence]. destruct cx; reflexivity.
Qed.

Lemma respects_deepcopy_known : respects deepcopy_known_calls.
Proof.
  intros x y H. pose proof (sim_fields x y H) as (Ht & Hn & Hp & Ha & _).
  unfold deepcopy_known_calls, d_tag_init_nobuilder. now rewrite Ht.
Qed.

Definition known_html (x : elem) : Prop := is_tag x = true -> soup_of x = false /\ kx_of x <> None.
Lemma known_tag n a ks : known_html (tag_ n a ks).
Proof. intros _. split; cbn; congruence. Qed.
Lemma known_text t : known_html (text_ t).
Proof. intros H. discriminate H. Qed.
Lemma sibs_known f : Forall known_html (pre_sibs f) /\ Forall known_html (post_sibs f).
Proof.
  destruct f; split; cbn [pre_sibs post_sibs];
    repeat (apply Forall_cons || apply Forall_nil); try apply known_tag; try apply known_text.
Qed.

Lemma nest_known f d : forall x, In x (nest f d :: flat (nest f d)) -> known_html x.
Proof.
  induction d as [|d IH]; intros x Hx.
  - destruct f; cbn in Hx; destruct Hx as [<-|[]]; try apply known_tag; apply known_text.
  - destruct Hx as [<-|Hx]; [destruct f; apply known_tag|].
    rewrite nest_S, flat_level in Hx. rewrite !in_app_iff in Hx.
    destruct (sibs_known f) as [Hpre Hpost]. rewrite Forall_forall in Hpre, Hpost.
    destruct Hx as [Hx|[Hx|Hx]]; [now apply Hpre|now apply IH|now apply Hpost].
Qed.

Theorem family_deepcopy_step f d : 2 <= d ->
  d_deepcopy (document f (S d)) [] = d_deepcopy (document f d) [].
Proof.
  intros Hd. unfold d_deepcopy. change (is_tag (document f (S d))) with true. change (is_tag (document f d)) with true.
  assert (Hk : forall k c cx, In (c, cx) (flat_ctx [] (document f k)) -> is_tag c = true -> soup_of c = false /\ kx_of c <> None).
  { intros k c cx Hin. assert (Hc : In c (flat (document f k))) by (unfold flat; apply in_map_iff; now exists (c, cx)).
    unfold document in Hc. rewrite flat_soup in Hc. cbn [flat_map] in Hc. rewrite app_nil_r in Hc. now apply (nest_known f k). }
  rewrite !(deepcopy_calls_known [] _ (Hk _)).
  change (map fst (flat_ctx [] (document f (S d)))) with (flat (document f (S d))).
  change (map fst (flat_ctx [] (document f d))) with (flat (document f d)).
  unfold d_descendants. rewrite !has_kids_document.
  rewrite (existsb_cover is_tag _ _ respects_is_tag (family_cover_down f d Hd) (family_cover_up f d Hd)).
  assert (Hcs : d_copy_self (document f (S d)) [] = d_copy_self (document f d) []) by reflexivity.
  rewrite Hcs. unfold fr at 1 4. rewrite !list_max_app.
  rewrite (list_max_equiv deepcopy_known_calls _ _ respects_deepcopy_known (family_cover_down f d Hd) (family_cover_up f d Hd)).
  reflexivity.
Qed.

(* ---------- from one step to every depth ---------- *)
Lemma step_to_all (F : nat -> nat) : (forall d, 2 <= d -> F (S d) = F d) -> forall d, 2 <= d -> F d = F 2.
Proof.
  intros H d Hd. induction d as [|d IH]; [lia|].
  destruct (Nat.eq_dec d 1) as [->|]; [reflexivity|]. rewrite H by lia. apply IH. lia.
Qed.
