(* C04 — composition with C03 / C01: what Proofs/AdapterProofs.v says about the documented fold
   (Spec.BuildSpec.spec_run) holds of the HEAP the model of the code builds (Model.Build.feed), by
   Proofs.BuildRefines.build_refines; and that heap is one well-linked tree (Proofs.ParseRep.parse_rep,
   Proofs.ParseConsistent.parse_consistent) for every callback stream. *)
From Coq Require Import List NArith ZArith Bool Arith Lia.
From BS Require Import Base.Sexp Base.Types Model.Attrs Model.Heap Model.Edit Model.EditOps Model.Build Model.Adapter
                       Spec.Tree Spec.BuildSpec Spec.DocSpec
                       Proofs.EditRep Proofs.BuildRefines Proofs.ParseRep Proofs.ParseConsistent Proofs.AdapterProofs.
Import ListNotations.
Local Open Scope nat_scope.

(* the construction events the adapter makes of a recorded callback stream *)
Definition adapted (cfg : acfg) (hs : list hev) : list event :=
  events_of (fst (fst (adapter_run cfg [] hs))).

Lemma parse_feed cfg hs : parse cfg hs = feed (a_b cfg) (adapted cfg hs).
Proof. unfold parse, adapted. destruct (adapter_run cfg [] hs) as [[o ac] ok]. reflexivity. Qed.

(* [heap_is b nodes]: the heap of b carries exactly the tree given in flat form — as many elements,
   each with that parent, that payload (name / text, prefix, attributes, string class, void flag) and as
   children exactly the nodes naming it as parent, in document order — and nothing but the root object
   is left open *)
Definition heap_is (b : bstate) (nodes : list snode) : Prop :=
  nxt (b_st b) = length nodes /\
  (forall x, x < length nodes ->
     par (hp (b_st b) x) = sn_parent (nth x nodes (mksn None no_payload)) /\
     b_pay b x = sn_pay (nth x nodes (mksn None no_payload)) /\
     kids (hp (b_st b) x) = children_of nodes x) /\
  b_stack b = [0] /\ b_cur b = Some 0.

(* for arbitrary, malformed input the tree equals the documented fold (C03) of the event stream *)
Theorem malformed_is_fold cfg hs :
  heap_is (parse cfg hs) (spec_run (a_b cfg) (adapted cfg hs)).
Proof. rewrite parse_feed. exact (build_refines (a_b cfg) (adapted cfg hs)). Qed.

(* for a well-formed document the heap carries exactly the tree the markup describes *)
Theorem document_heap cfg doc : wf_doc cfg doc = true ->
  heap_is (parse cfg (hevents_of doc)) (flat (a_b cfg) (expect cfg doc)).
Proof.
  intros Hw. rewrite <- (document_tree cfg doc Hw). exact (malformed_is_fold cfg (hevents_of doc)).
Qed.

(* ... in particular a void element of the document has no child in the heap, whatever its spelling *)
Corollary document_heap_void_childless cfg hs : start_names_ok (a_b cfg) hs ->
  forall x, x < nxt (b_st (parse cfg hs)) -> p_void (b_pay (parse cfg hs) x) = true ->
  kids (hp (b_st (parse cfg hs)) x) = [].
Proof.
  intros Hn x Hx Hv. destruct (malformed_is_fold cfg hs) as (Hlen & Hnodes & _).
  rewrite Hlen in Hx. destruct (Hnodes x Hx) as (_ & Hpay & Hkids). rewrite Hkids.
  apply (void_childless_any_stream cfg hs Hn x (nth x (spec_run (a_b cfg) (adapted cfg hs)) (mksn None no_payload))).
  - apply nth_error_nth'. exact Hx.
  - now rewrite <- Hpay.
Qed.

(* for EVERY callback stream the heap is one well-linked tree (C01): it represents a tree rooted at the
   document object whose pre-order is the creation order, root outside the element chain, and it is a
   consistent state (so it stays one under any history of admissible editing calls) *)
Theorem document_well_linked cfg hs :
  (exists T, rid T = 0 /\ pre T = seq 0 (nxt (b_st (parse cfg hs))) /\ rep [(T, false)] (hp (b_st (parse cfg hs)))) /\
  consistent (b_st (parse cfg hs)).
Proof.
  rewrite parse_feed. split.
  - exact (parse_rep (a_b cfg) (adapted cfg hs)).
  - exact (parse_consistent (a_b cfg) (adapted cfg hs)).
Qed.
