(* C01 — every navigation view of Beautiful Soup (next_elements, previous_elements, next_siblings,
   previous_siblings, parents, descendants) is what the pre-order walk of the child lists dictates,
   for every heap that represents a tree ([rep1]).  Fuel sufficiency is part of each statement. *)
From Coq Require Import List Arith Bool Lia.
From BS Require Import Base.Sexp Model.Heap Model.Iter Spec.Tree Proofs.HeapBasics.
Import ListNotations.

(* the element chain L of the tree: the whole pre-order, or without the root when the root is unlinked *)
Definition echain_of (T : tree) (linked : bool) : list nat := if linked then pre T else tl (pre T).

(* ------------------------------------------------------------------------------------------ *)
(* list facts                                                                                 *)
(* ------------------------------------------------------------------------------------------ *)

Lemma skipn_nth_cons {X} (L : list X) : forall i x,
  nth_error L i = Some x -> skipn i L = x :: skipn (S i) L.
Proof.
  induction L as [|a L IH]; intros i x Hx.
  - destruct i; discriminate.
  - destruct i as [|i].
    + cbn in Hx. inversion Hx; subst. reflexivity.
    + cbn in Hx. change (skipn i L = x :: skipn (S i) L). apply IH. exact Hx.
Qed.

Lemma firstn_S_nth {X} (L : list X) : forall i x,
  nth_error L i = Some x -> firstn (S i) L = firstn i L ++ [x].
Proof.
  induction L as [|a L IH]; intros i x Hx.
  - destruct i; discriminate.
  - destruct i as [|i].
    + cbn in Hx. inversion Hx; subst. reflexivity.
    + cbn in Hx. change (a :: firstn (S i) L = a :: (firstn i L ++ [x])). f_equal. apply IH. exact Hx.
Qed.

Lemma last_app_ne {X} (l m : list X) d : m <> [] -> last (l ++ m) d = last m d.
Proof.
  intros Hm. induction l as [|a l IH]; [reflexivity|].
  cbn [app last]. destruct (l ++ m) as [|b r] eqn:E.
  - apply app_eq_nil in E. destruct E as [_ E]. contradiction.
  - exact IH.
Qed.

Lemma last_cons_ne {X} (a : X) (m : list X) d : m <> [] -> last (a :: m) d = last m d.
Proof. intros Hm. apply (last_app_ne [a] m d Hm). Qed.

Lemma nth_error_last (M : list nat) d : M <> [] -> nth_error M (length M - 1) = Some (last M d).
Proof.
  induction M as [|a M IH]; intros Hne; [contradiction|].
  destruct M as [|b M'].
  - reflexivity.
  - assert (Hb : b :: M' <> []) by discriminate. specialize (IH Hb).
    rewrite last_cons_ne by exact Hb.
    replace (length (a :: b :: M') - 1) with (S (length (b :: M') - 1)) by (cbn [length]; lia).
    cbn [nth_error]. exact IH.
Qed.

Lemma list_rev_cases {X} (l : list X) : l = [] \/ exists l' a, l = l' ++ [a].
Proof. induction l as [|a l' _] using rev_ind; [left; reflexivity | right; eauto]. Qed.

Lemma length_tl_le {X} (l : list X) : length (tl l) <= length l.
Proof. destruct l; cbn; lia. Qed.

(* positions in P ++ M ++ B *)
Lemma nth3_P {X} (P M B : list X) i : i < length P -> nth_error (P ++ M ++ B) i = nth_error P i.
Proof. intros. now rewrite nth_error_app1. Qed.
Lemma nth3_M {X} (P M B : list X) i : i < length M -> nth_error (P ++ M ++ B) (length P + i) = nth_error M i.
Proof.
  intros. rewrite nth_error_app2 by lia. replace (length P + i - length P) with i by lia.
  now rewrite nth_error_app1.
Qed.
Lemma nth3_B {X} (P M B : list X) i : nth_error (P ++ M ++ B) (length P + length M + i) = nth_error B i.
Proof. rewrite nth_error_app2 by lia. rewrite nth_error_app2 by lia. f_equal. lia. Qed.

Lemma nth_inj (L : list nat) i j x : NoDup L -> nth_error L i = Some x -> nth_error L j = Some x -> i = j.
Proof.
  intros ND Hi Hj. apply (proj1 (NoDup_nth_error L) ND); [apply nth_error_Some; congruence | congruence].
Qed.

(* ------------------------------------------------------------------------------------------ *)
(* chasing a pointer along a chain in index form                                              *)
(* ------------------------------------------------------------------------------------------ *)

Lemma chase_none next fuel : chase next fuel None = [].
Proof. destruct fuel; reflexivity. Qed.

(* forwards: from position i one gets the rest of the list; fuel + i must cover the list *)
Lemma chase_fwd next L :
  (forall i x, nth_error L i = Some x -> next x = nth_error L (S i)) ->
  forall fuel i, length L <= fuel + i -> chase next fuel (nth_error L i) = skipn i L.
Proof.
  intros CH fuel. induction fuel as [|f IH]; intros i Hlen.
  - cbn. symmetry. apply skipn_all2. lia.
  - destruct (nth_error L i) as [x|] eqn:E.
    + cbn [chase]. rewrite (CH _ _ E). rewrite IH by lia. symmetry. apply skipn_nth_cons. exact E.
    + cbn. symmetry. apply skipn_all2. apply nth_error_None. exact E.
Qed.

(* backwards: from the predecessor of position i one gets the first i elements reversed; i <= fuel *)
Lemma chase_bwd prev L :
  (forall i x, nth_error L i = Some x -> prev x = pred_at L i) ->
  forall i fuel, i <= fuel -> i <= length L -> chase prev fuel (pred_at L i) = rev (firstn i L).
Proof.
  intros CH i. induction i as [|j IH]; intros fuel Hf Hl.
  - cbn [pred_at]. rewrite chase_none. reflexivity.
  - cbn [pred_at]. destruct (nth_error L j) as [y|] eqn:E.
    + destruct fuel as [|f]; [lia|]. cbn [chase]. rewrite (CH _ _ E).
      rewrite IH by lia. rewrite (firstn_S_nth _ _ _ E). rewrite rev_unit. reflexivity.
    + apply nth_error_None in E. lia.
Qed.

Lemma chase_until_none next stop fuel : chase_until next stop fuel None = [].
Proof. destruct fuel; reflexivity. Qed.

(* chase_until along a duplicate-free chain P ++ M ++ B, started at the head of M and told to stop
   at the head of B, yields exactly M *)
Lemma chase_until_seg next L B :
  (forall i x, nth_error L i = Some x -> next x = nth_error L (S i)) -> NoDup L ->
  forall M P fuel, L = P ++ M ++ B -> length M <= fuel ->
  chase_until next (hd_error B) fuel (nth_error L (length P)) = M.
Proof.
  intros CH ND M. induction M as [|m M IH]; intros P fuel HL Hf.
  - assert (E : nth_error L (length P) = hd_error B).
    { rewrite HL. cbn [app]. rewrite nth_error_app2 by lia. rewrite Nat.sub_diag. destruct B; reflexivity. }
    rewrite E. destruct B as [|b B']; cbn [hd_error].
    + apply chase_until_none.
    + destruct fuel; [reflexivity|]. cbn [chase_until oeqb]. rewrite Nat.eqb_refl. reflexivity.
  - assert (E : nth_error L (length P) = Some m).
    { rewrite HL. rewrite nth_error_app2 by lia. rewrite Nat.sub_diag. reflexivity. }
    destruct fuel as [|f]; [cbn in Hf; lia|]. rewrite E. cbn [chase_until].
    assert (Hstop : oeqb (Some m) (hd_error B) = false).
    { destruct B as [|b B']; [reflexivity|]. cbn [hd_error oeqb]. apply Nat.eqb_neq. intros ->.
      assert (Eb : nth_error L (length P + length (b :: M) + 0) = Some b).
      { rewrite HL. rewrite nth3_B. reflexivity. }
      pose proof (nth_inj _ _ _ _ ND E Eb) as Hij. cbn [length] in Hij. lia. }
    rewrite Hstop. f_equal. rewrite (CH _ _ E).
    replace (S (length P)) with (length (P ++ [m])) by (rewrite app_length; cbn; lia).
    apply IH.
    + rewrite HL. rewrite <- app_assoc. reflexivity.
    + cbn [length] in Hf. lia.
Qed.

(* where the last element of the middle segment sits, and what follows it *)
Lemma seg_last_pos (P M B : list nat) d : M <> [] ->
  nth_error (P ++ M ++ B) (length P + (length M - 1)) = Some (last M d).
Proof.
  intros Hne. rewrite nth3_M.
  - apply nth_error_last. exact Hne.
  - destruct M; [contradiction|cbn [length]; lia].
Qed.

Lemma seg_after_pos (P M B : list nat) :
  nth_error (P ++ M ++ B) (length P + length M) = hd_error B.
Proof.
  replace (length P + length M) with (length P + length M + 0) by lia. rewrite nth3_B.
  destruct B; reflexivity.
Qed.

(* ------------------------------------------------------------------------------------------ *)
(* tree facts                                                                                 *)
(* ------------------------------------------------------------------------------------------ *)

Lemma pre_cons t : pre t = rid t :: tl (pre t).
Proof. destruct t; reflexivity. Qed.

Lemma pre_Node i ks : pre (Node i ks) = i :: pres ks.
Proof. reflexivity. Qed.

Lemma pres_app l1 l2 : pres (l1 ++ l2) = pres l1 ++ pres l2.
Proof. unfold pres. apply flat_map_app. Qed.

Lemma pres_cons k l : pres (k :: l) = pre k ++ pres l.
Proof. reflexivity. Qed.

Lemma tl_pre t : tl (pre t) = pres (tkids t).
Proof. destruct t; reflexivity. Qed.

Lemma pre_ne t : pre t <> [].
Proof. destruct t; discriminate. Qed.

Lemma pre_length_pos t : 1 <= length (pre t).
Proof. destruct t; cbn; lia. Qed.

Lemma subterms_self t : In t (subterms t).
Proof. destruct t; cbn; left; reflexivity. Qed.

Lemma in_subterms_inv t T : In t (subterms T) -> t = T \/ exists k, In k (tkids T) /\ In t (subterms k).
Proof.
  destruct T as [i ks]. cbn [subterms tkids]. intros [H|H].
  - left. symmetry. exact H.
  - right. apply in_flat_map in H. exact H.
Qed.

Lemma in_subterms_kid t k T : In k (tkids T) -> In t (subterms k) -> In t (subterms T).
Proof.
  destruct T as [i ks]. cbn [subterms tkids]. intros Hk Ht. right. apply in_flat_map. eauto.
Qed.

Lemma subterms_trans s t : forall T, In t (subterms T) -> In s (subterms t) -> In s (subterms T).
Proof.
  induction T as [i ks IH] using tree_ind'. intros Ht Hs.
  destruct (in_subterms_inv _ _ Ht) as [->|(k & Hk & Htk)]; [exact Hs|].
  cbn [tkids] in Hk. rewrite Forall_forall in IH.
  apply (in_subterms_kid s k (Node i ks)); [exact Hk|]. apply (IH k Hk Htk Hs).
Qed.

(* a subterm occurrence is the root, or the child of a subterm *)
Lemma subterm_ctx t : forall T, In t (subterms T) ->
  t = T \/ exists p l1 l2, In p (subterms T) /\ tkids p = l1 ++ t :: l2.
Proof.
  induction T as [i ks IH] using tree_ind'. intros Ht.
  destruct (in_subterms_inv _ _ Ht) as [->|(k & Hk & Htk)]; [left; reflexivity|].
  right. cbn [tkids] in Hk. rewrite Forall_forall in IH.
  destruct (IH k Hk Htk) as [->|(p & l1 & l2 & Hp & Hl)].
  - destruct (in_split _ _ Hk) as (l1 & l2 & Hl). exists (Node i ks), l1, l2. split.
    + apply subterms_self.
    + exact Hl.
  - exists p, l1, l2. split; [|exact Hl]. apply (in_subterms_kid p k (Node i ks)); assumption.
Qed.

(* the pre-order of a subterm is a contiguous segment of the pre-order of the tree *)
Lemma subterm_seg t : forall T, In t (subterms T) -> exists A B, pre T = A ++ pre t ++ B.
Proof.
  induction T as [i ks IH] using tree_ind'. intros Ht.
  destruct (in_subterms_inv _ _ Ht) as [->|(k & Hk & Htk)].
  - exists [], []. rewrite app_nil_r. reflexivity.
  - cbn [tkids] in Hk. rewrite Forall_forall in IH.
    destruct (IH k Hk Htk) as (A & B & HAB).
    destruct (in_split _ _ Hk) as (l1 & l2 & Hl). subst ks.
    exists (i :: pres l1 ++ A), (B ++ pres l2).
    rewrite pre_Node, pres_app, pres_cons, HAB. cbn [app]. rewrite <- !app_assoc. reflexivity.
Qed.

Lemma subterm_length t T : In t (subterms T) -> length (pre t) <= length (pre T).
Proof.
  intros Ht. destruct (subterm_seg _ _ Ht) as (A & B & E). rewrite E, !app_length. lia.
Qed.

Lemma kids_le_pres ks : length ks <= length (pres ks).
Proof.
  induction ks as [|k ks IH]; [cbn; lia|]. rewrite pres_cons, app_length.
  pose proof (pre_length_pos k). cbn [length]. lia.
Qed.

Lemma kids_lt_pre t : length (tkids t) < length (pre t).
Proof. destruct t as [i ks]. cbn [tkids]. rewrite pre_Node. cbn [length]. pose proof (kids_le_pres ks). lia. Qed.

(* ------------------------------------------------------------------------------------------ *)
(* elements                                                                                   *)
(* ------------------------------------------------------------------------------------------ *)

Lemma rep1_echain h T linked : rep1 h T linked -> echain (echain_of T linked) h.
Proof.
  intros (_ & _ & _ & _ & H). unfold echain_of. destruct linked; [exact H|]. destruct H as (H & _). exact H.
Qed.

Lemma echain_of_length T linked : length (echain_of T linked) <= length (pre T).
Proof. unfold echain_of. destruct linked; [lia|apply length_tl_le]. Qed.

Theorem next_elements_spec : forall h T linked i x fuel, rep1 h T linked ->
  nth_error (echain_of T linked) i = Some x -> length (pre T) <= fuel ->
  next_elements fuel h x = skipn (S i) (echain_of T linked).
Proof.
  intros h T linked i x fuel Hrep Hx Hf. pose proof (rep1_echain _ _ _ Hrep) as CH.
  unfold next_elements. rewrite (proj1 (CH _ _ Hx)).
  apply (chase_fwd (fun y => ne (h y))).
  - intros j y Hy. exact (proj1 (CH _ _ Hy)).
  - pose proof (echain_of_length T linked). lia.
Qed.

Theorem previous_elements_spec : forall h T linked i x fuel, rep1 h T linked ->
  nth_error (echain_of T linked) i = Some x -> length (pre T) <= fuel ->
  previous_elements fuel h x = rev (firstn i (echain_of T linked)).
Proof.
  intros h T linked i x fuel Hrep Hx Hf. pose proof (rep1_echain _ _ _ Hrep) as CH.
  unfold previous_elements. rewrite (proj2 (CH _ _ Hx)).
  assert (Hi : i < length (echain_of T linked)) by (apply nth_error_Some; congruence).
  pose proof (echain_of_length T linked).
  apply (chase_bwd (fun y => pe (h y))).
  - intros j y Hy. exact (proj2 (CH _ _ Hy)).
  - lia.
  - lia.
Qed.

(* an unlinked root sees nothing in either direction *)
Theorem unlinked_root_views : forall h T fuel, rep1 h T false ->
  next_elements fuel h (rid T) = [] /\ previous_elements fuel h (rid T) = [].
Proof.
  intros h T fuel (_ & _ & _ & _ & _ & Hne & Hpe). unfold next_elements, previous_elements.
  rewrite Hne, Hpe, !chase_none. split; reflexivity.
Qed.

(* ------------------------------------------------------------------------------------------ *)
(* siblings                                                                                   *)
(* ------------------------------------------------------------------------------------------ *)

Lemma rep1_node_ok h T linked t : rep1 h T linked -> In t (subterms T) -> node_ok h t.
Proof. intros (H & _) Ht. exact (H t Ht). Qed.

Lemma kids_fuel t T fuel : In t (subterms T) -> length (pre T) <= fuel ->
  length (map rid (tkids t)) < fuel.
Proof.
  intros Ht Hf. rewrite map_length. pose proof (kids_lt_pre t). pose proof (subterm_length _ _ Ht). lia.
Qed.

Theorem next_siblings_spec : forall h T linked t j c fuel, rep1 h T linked -> In t (subterms T) ->
  nth_error (map rid (tkids t)) j = Some c -> length (pre T) <= fuel ->
  next_siblings fuel h c = skipn (S j) (map rid (tkids t)).
Proof.
  intros h T linked t j c fuel Hrep Ht Hc Hf.
  destruct (rep1_node_ok _ _ _ _ Hrep Ht) as (_ & CH & _).
  unfold next_siblings. rewrite (proj1 (CH _ _ Hc)).
  apply (chase_fwd (fun y => ns (h y))).
  - intros k y Hy. exact (proj1 (CH _ _ Hy)).
  - pose proof (kids_fuel _ _ _ Ht Hf). lia.
Qed.

Theorem previous_siblings_spec : forall h T linked t j c fuel, rep1 h T linked -> In t (subterms T) ->
  nth_error (map rid (tkids t)) j = Some c -> length (pre T) <= fuel ->
  previous_siblings fuel h c = rev (firstn j (map rid (tkids t))).
Proof.
  intros h T linked t j c fuel Hrep Ht Hc Hf.
  destruct (rep1_node_ok _ _ _ _ Hrep Ht) as (_ & CH & _).
  unfold previous_siblings. rewrite (proj2 (CH _ _ Hc)).
  assert (Hj : j < length (map rid (tkids t))) by (apply nth_error_Some; congruence).
  pose proof (kids_fuel _ _ _ Ht Hf).
  apply (chase_bwd (fun y => ps (h y))).
  - intros k y Hy. exact (proj2 (CH _ _ Hy)).
  - lia.
  - lia.
Qed.

Theorem root_has_no_siblings : forall h T linked fuel, rep1 h T linked ->
  next_siblings fuel h (rid T) = [] /\ previous_siblings fuel h (rid T) = [].
Proof.
  intros h T linked fuel (_ & _ & Hps & Hns & _). unfold next_siblings, previous_siblings.
  rewrite Hps, Hns, !chase_none. split; reflexivity.
Qed.

(* ------------------------------------------------------------------------------------------ *)
(* ancestors                                                                                  *)
(* ------------------------------------------------------------------------------------------ *)

(* Some [ancestors from the root down to x's parent] if x occurs in t (first occurrence in pre-order) *)
Fixpoint path_to (x : nat) (t : tree) : option (list nat) :=
  match t with
  | Node i ks =>
      if Nat.eqb i x then Some []
      else (fix go (l : list tree) : option (list nat) :=
              match l with
              | [] => None
              | k :: l' => match path_to x k with Some p => Some (i :: p) | None => go l' end
              end) ks
  end.

Fixpoint path_to_l (x i : nat) (l : list tree) : option (list nat) :=
  match l with
  | [] => None
  | k :: l' => match path_to x k with Some p => Some (i :: p) | None => path_to_l x i l' end
  end.

Lemma path_to_Node x i ks :
  path_to x (Node i ks) = if Nat.eqb i x then Some [] else path_to_l x i ks.
Proof.
  cbn [path_to]. destruct (Nat.eqb i x); [reflexivity|].
  induction ks as [|k ks IH]; [reflexivity|]. cbn [path_to_l]. destruct (path_to x k); [reflexivity|exact IH].
Qed.

Lemma path_to_l_inv x i l anc : path_to_l x i l = Some anc ->
  exists k p, In k l /\ path_to x k = Some p /\ anc = i :: p.
Proof.
  induction l as [|k l IH]; [discriminate|]. cbn [path_to_l]. destruct (path_to x k) as [p|] eqn:E.
  - intros H. inversion H; subst. exists k, p. split; [left; reflexivity|]. split; [exact E|reflexivity].
  - intros H. destruct (IH H) as (k' & p & Hk & Hp & Ha). exists k', p. split; [right; exact Hk|]. split; assumption.
Qed.

(* x occurs where path_to says, and the path is shorter than the pre-order *)
Lemma path_to_length x : forall t anc, path_to x t = Some anc -> length anc < length (pre t).
Proof.
  induction t as [i ks IH] using tree_ind'. intros anc H. rewrite path_to_Node in H.
  destruct (Nat.eqb i x).
  - inversion H; subst. cbn. lia.
  - destruct (path_to_l_inv _ _ _ _ H) as (k & p & Hk & Hp & ->). rewrite Forall_forall in IH.
    pose proof (IH k Hk p Hp) as Hlt. destruct (in_split _ _ Hk) as (l1 & l2 & ->).
    rewrite pre_Node, pres_app, pres_cons. cbn [length]. rewrite !app_length. lia.
Qed.

Lemma chase_parents h x : forall t anc,
  (forall s, In s (subterms t) -> node_ok h s) -> path_to x t = Some anc ->
  forall fuel, length anc <= fuel ->
  chase (fun y => par (h y)) fuel (par (h x)) =
  rev anc ++ chase (fun y => par (h y)) (fuel - length anc) (par (h (rid t))).
Proof.
  induction t as [i ks IH] using tree_ind'. intros anc Hok H fuel Hf. rewrite path_to_Node in H.
  destruct (Nat.eqb i x) eqn:Eix.
  - inversion H; subst. apply Nat.eqb_eq in Eix. subst x. cbn [length rev app rid].
    rewrite Nat.sub_0_r. reflexivity.
  - destruct (path_to_l_inv _ _ _ _ H) as (k & p & Hk & Hp & ->). rewrite Forall_forall in IH.
    assert (Hokk : forall s, In s (subterms k) -> node_ok h s).
    { intros s Hs. apply Hok. apply (in_subterms_kid s k (Node i ks)); [exact Hk|exact Hs]. }
    cbn [length] in Hf.
    rewrite (IH k Hk p Hokk Hp fuel) by lia.
    destruct (Hok (Node i ks) (subterms_self _)) as (_ & _ & Hpar & _).
    rewrite (Hpar k Hk). cbn [rid length rev].
    destruct (fuel - length p) as [|f] eqn:Ef; [lia|].
    cbn [chase]. replace (fuel - S (length p)) with f by lia.
    rewrite <- app_assoc. reflexivity.
Qed.

Theorem parents_spec : forall h T linked x anc fuel, rep1 h T linked -> NoDup (pre T) ->
  path_to x T = Some anc -> length (pre T) <= fuel -> parents fuel h x = rev anc.
Proof.
  intros h T linked x anc fuel Hrep _ Hp Hf. pose proof (path_to_length _ _ _ Hp) as Hl.
  destruct Hrep as (Hok & Hpar & _). unfold parents.
  rewrite (chase_parents h x T anc Hok Hp fuel) by lia.
  rewrite Hpar, chase_none, app_nil_r. reflexivity.
Qed.

(* ------------------------------------------------------------------------------------------ *)
(* descendants                                                                                *)
(* ------------------------------------------------------------------------------------------ *)

(* the loop of _last_descendant ends on the last element of the subtree's pre-order *)
Lemma walk_last_spec h : forall t, (forall s, In s (subterms t) -> node_ok h s) ->
  forall fuel, length (pre t) <= fuel -> walk_last fuel h (rid t) = last (pre t) 0.
Proof.
  induction t as [i ks IH] using tree_ind'. intros Hok fuel Hf.
  destruct fuel as [|f]; [pose proof (pre_length_pos (Node i ks)); lia|].
  destruct (Hok (Node i ks) (subterms_self _)) as (Hkids & _ & _ & Hleaf).
  cbn [rid tkids] in *. cbn [walk_last].
  destruct (is_tag h i) eqn:Etag.
  - rewrite Hkids. destruct (list_rev_cases ks) as [->|(ks' & k & ->)].
    + reflexivity.
    + rewrite map_app, rev_app_distr. cbn [map rev app].
      rewrite Forall_forall in IH.
      assert (Hk : In k (ks' ++ [k])) by (apply in_or_app; right; left; reflexivity).
      rewrite pre_Node, pres_app, pres_cons in Hf |- *. cbn [pres flat_map] in Hf |- *.
      rewrite app_nil_r in Hf |- *. cbn [length] in Hf. rewrite app_length in Hf.
      rewrite (IH k Hk).
      * rewrite last_cons_ne.
        -- rewrite last_app_ne by apply pre_ne. reflexivity.
        -- intros E. apply app_eq_nil in E. destruct E as [_ E]. exact (pre_ne k E).
      * intros s Hs. apply Hok. apply (in_subterms_kid s k (Node i (ks' ++ [k]))); [exact Hk|exact Hs].
      * lia.
  - rewrite (Hleaf eq_refl). reflexivity.
Qed.

(* where the descendants of t sit in the element chain, and who follows them *)
Lemma occ h T linked t : rep1 h T linked -> In t (subterms T) ->
  exists P B, echain_of T linked = P ++ tl (pre t) ++ B /\
              (forall y, ns (h (rid t)) = Some y -> hd_error B = Some y).
Proof.
  intros Hrep Hin. pose proof Hrep as (Hok & Hpar & Hps & Hns & Hch).
  destruct (subterm_ctx _ _ Hin) as [->|(p & l1 & l2 & Hp & Hk)].
  - (* the root *)
    destruct linked; unfold echain_of.
    + exists [rid T], []. split.
      * rewrite app_nil_r. apply pre_cons.
      * intros y Hy. congruence.
    + exists [], []. split.
      * rewrite app_nil_r. reflexivity.
      * intros y Hy. congruence.
  - destruct (subterm_seg _ _ Hp) as (A & B & HAB).
    destruct (Hok p Hp) as (_ & Hsch & _).
    destruct p as [j ks]. cbn [tkids rid] in *. subst ks.
    rewrite pre_Node, pres_app, pres_cons in HAB.
    set (X := A ++ j :: pres l1).
    assert (HT : pre T = X ++ pre t ++ pres l2 ++ B).
    { rewrite HAB. unfold X. cbn [app]. rewrite <- !app_assoc. reflexivity. }
    exists ((if linked then X else tl X) ++ [rid t]), (pres l2 ++ B). split.
    + unfold echain_of. rewrite HT. pose proof (pre_cons t) as Ept.
      remember (tl (pre t)) as M eqn:EM. rewrite Ept.
      destruct linked.
      * rewrite <- !app_assoc. reflexivity.
      * assert (HX : X = hd 0 X :: tl X) by (unfold X; destruct A; reflexivity).
        rewrite HX at 1. cbn [app tl]. rewrite <- !app_assoc. reflexivity.
    + intros y Hy.
      assert (Ht : nth_error (map rid (l1 ++ t :: l2)) (length l1) = Some (rid t)).
      { rewrite map_app. rewrite nth_error_app2 by (rewrite map_length; lia).
        rewrite map_length, Nat.sub_diag. reflexivity. }
      destruct (Hsch _ _ Ht) as (Hnext & _). rewrite Hy in Hnext.
      rewrite map_app in Hnext. rewrite nth_error_app2 in Hnext by (rewrite map_length; lia).
      rewrite map_length in Hnext. replace (S (length l1) - length l1) with 1 in Hnext by lia.
      destruct l2 as [|s l2']; [discriminate|]. cbn in Hnext.
      rewrite pres_cons, (pre_cons s). cbn [app hd_error]. symmetry. exact Hnext.
Qed.

Theorem descendants_spec : forall h T linked t fuel, rep1 h T linked -> NoDup (pre T) -> In t (subterms T) ->
  length (pre T) <= fuel -> descendants fuel h (rid t) = tl (pre t).
Proof.
  intros h T linked t fuel Hrep ND Hin Hf.
  pose proof (rep1_echain _ _ _ Hrep) as CH.
  destruct (occ _ _ _ _ Hrep Hin) as (P & B & HL & Hsib).
  pose proof Hrep as (Hok & _).
  destruct (Hok t Hin) as (Hkids & _).
  unfold descendants. rewrite Hkids.
  destruct (tkids t) as [|k ks'] eqn:Eks.
  - rewrite tl_pre, Eks. reflexivity.
  - cbn [map].
    set (L := echain_of T linked) in *.
    set (M := tl (pre t)) in *.
    assert (HM : M = rid k :: tl (pre k) ++ pres ks').
    { unfold M. rewrite tl_pre, Eks, pres_cons, (pre_cons k). reflexivity. }
    assert (HMne : M <> []) by (rewrite HM; discriminate).
    assert (HMlen : 1 <= length M) by (rewrite HM; cbn [length]; lia).
    assert (HlastM : last (pre t) 0 = last M 0).
    { rewrite (pre_cons t). fold M. apply last_cons_ne. exact HMne. }
    (* position of the last descendant, and of the element after it *)
    assert (Hpos : nth_error L (length P + (length M - 1)) = Some (last M 0)).
    { rewrite HL. apply seg_last_pos. exact HMne. }
    assert (Hafter : nth_error L (length P + length M) = hd_error B).
    { rewrite HL. apply seg_after_pos. }
    (* _last_descendant *)
    assert (Hld : last_descendant fuel h (rid t) true true = Some (last M 0)).
    { unfold last_descendant. cbn [negb andb].
      destruct (ns (h (rid t))) as [y|] eqn:Ens.
      - pose proof (Hsib y eq_refl) as HB. rewrite HB in Hafter.
        destruct (CH _ _ Hafter) as (_ & Hpe). rewrite Hpe.
        replace (length P + length M) with (S (length P + (length M - 1))) by lia.
        cbn [pred_at]. exact Hpos.
      - f_equal. rewrite <- HlastM. apply walk_last_spec.
        + intros s Hs. apply Hok. apply (subterms_trans s t T Hin Hs).
        + pose proof (subterm_length _ _ Hin). lia. }
    rewrite Hld.
    destruct (CH _ _ Hpos) as (Hne & _). rewrite Hne.
    replace (S (length P + (length M - 1))) with (length P + length M) by lia.
    rewrite Hafter.
    assert (Hfirst : nth_error L (length P) = Some (rid k)).
    { rewrite HL. rewrite nth_error_app2 by lia. rewrite Nat.sub_diag. rewrite HM. reflexivity. }
    rewrite <- Hfirst.
    apply (chase_until_seg (fun y => ne (h y)) L B).
    + intros i x Hx. exact (proj1 (CH _ _ Hx)).
    + unfold L, echain_of. destruct linked; [exact ND|].
      rewrite (pre_cons T) in ND. inversion ND; assumption.
    + exact HL.
    + pose proof (echain_of_length T linked) as HLl. fold L in HLl.
      rewrite HL, !app_length in HLl. lia.
Qed.

(* ------------------------------------------------------------------------------------------ *)
(* bonus: the NoDup hypothesis of parents_spec / descendants_spec follows from rep1           *)
(* ------------------------------------------------------------------------------------------ *)

Lemma echain_shift L h i j : echain L h -> nth_error L i = nth_error L j ->
  forall k, nth_error L (i + k) = nth_error L (j + k).
Proof.
  intros CH E k. induction k as [|k IH].
  - rewrite !Nat.add_0_r. exact E.
  - rewrite !Nat.add_succ_r. destruct (nth_error L (i + k)) as [y|] eqn:E1.
    + symmetry in IH. rewrite <- (proj1 (CH _ _ E1)), <- (proj1 (CH _ _ IH)). reflexivity.
    + symmetry in IH. apply nth_error_None in E1, IH.
      transitivity (@None nat); [|symmetry]; apply nth_error_None; lia.
Qed.

Lemma echain_NoDup L h : echain L h -> NoDup L.
Proof.
  intros CH. apply NoDup_nth_error. intros i j Hi E.
  assert (Hj : j < length L) by (apply nth_error_Some; rewrite <- E; apply nth_error_Some; exact Hi).
  destruct (Nat.lt_trichotomy i j) as [Hlt|[Heq|Hgt]]; [|exact Heq|]; exfalso.
  - pose proof (echain_shift L h i j CH E (length L - j)) as Es.
    replace (j + (length L - j)) with (length L) in Es by lia.
    assert (HN : nth_error L (length L) = None) by (apply nth_error_None; lia).
    rewrite HN in Es. apply nth_error_None in Es. lia.
  - pose proof (echain_shift L h i j CH E (length L - i)) as Es.
    replace (i + (length L - i)) with (length L) in Es by lia.
    assert (HN : nth_error L (length L) = None) by (apply nth_error_None; lia).
    rewrite HN in Es. symmetry in Es. apply nth_error_None in Es. lia.
Qed.

Theorem rep1_NoDup : forall h T linked, rep1 h T linked -> NoDup (pre T).
Proof.
  intros h T linked Hrep. pose proof (rep1_echain _ _ _ Hrep) as CH.
  pose proof (echain_NoDup _ _ CH) as ND. unfold echain_of in *.
  destruct linked; [exact ND|].
  destruct Hrep as (Hok & _ & _ & _ & _ & Hne & Hpe).
  rewrite (pre_cons T). constructor; [|exact ND].
  intros Hin. apply In_nth_error in Hin. destruct Hin as (i & Hi).
  destruct (CH _ _ Hi) as (Hn & Hp). rewrite Hne in Hn. rewrite Hpe in Hp.
  assert (i = 0).
  { destruct i as [|i']; [reflexivity|]. cbn [pred_at] in Hp. symmetry in Hp.
    apply nth_error_None in Hp. assert (S i' < length (tl (pre T))) by (apply nth_error_Some; congruence). lia. }
  subst i. symmetry in Hn. apply nth_error_None in Hn.
  (* tl (pre T) = [rid T]: the only child is a leaf with the root's id *)
  rewrite tl_pre in Hi, Hn.
  destruct (Hok T (subterms_self T)) as (HkT & _).
  destruct (tkids T) as [|k ks'] eqn:Eks; [discriminate|].
  rewrite pres_cons, (pre_cons k) in Hi, Hn. cbn [app nth_error] in Hi. inversion Hi as [Hrk].
  cbn [app length] in Hn. rewrite app_length in Hn.
  assert (Hk : In k (subterms T)).
  { apply (in_subterms_kid k k T); [rewrite Eks; left; reflexivity|apply subterms_self]. }
  destruct (Hok k Hk) as (Hkk & _). rewrite Hrk, HkT in Hkk.
  pose proof (kids_le_pres (tkids k)) as Hle. rewrite <- tl_pre in Hle.
  assert (Hz : length (tkids k) = 0) by lia.
  apply length_zero_iff_nil in Hz. rewrite Hz in Hkk. discriminate.
Qed.

Corollary parents_spec' : forall h T linked x anc fuel, rep1 h T linked ->
  path_to x T = Some anc -> length (pre T) <= fuel -> parents fuel h x = rev anc.
Proof. intros h T linked x anc fuel Hrep. apply (parents_spec h T linked x anc fuel Hrep (rep1_NoDup _ _ _ Hrep)). Qed.

Corollary descendants_spec' : forall h T linked t fuel, rep1 h T linked -> In t (subterms T) ->
  length (pre T) <= fuel -> descendants fuel h (rid t) = tl (pre t).
Proof. intros h T linked t fuel Hrep. apply (descendants_spec h T linked t fuel Hrep (rep1_NoDup _ _ _ Hrep)). Qed.

Print Assumptions next_elements_spec.
Print Assumptions previous_elements_spec.
Print Assumptions unlinked_root_views.
Print Assumptions next_siblings_spec.
Print Assumptions previous_siblings_spec.
Print Assumptions root_has_no_siblings.
Print Assumptions parents_spec.
Print Assumptions descendants_spec.
Print Assumptions rep1_NoDup.
Print Assumptions parents_spec'.
Print Assumptions descendants_spec'.
