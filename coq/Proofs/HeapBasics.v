(* Unconditional facts about the primitive re-linking operations: they hold for every heap,
   consistent or not, because they only depend on which field each write touches. *)
From Coq Require Import List NArith Bool Arith Lia Permutation.
From BS Require Import Base.Sexp Model.Heap.
Import ListNotations.

Lemma upd_same h x c : upd h x c x = c.
Proof. unfold upd. now rewrite Nat.eqb_refl. Qed.
Lemma upd_other h x c y : y <> x -> upd h x c y = h y.
Proof. intros H. unfold upd. apply Nat.eqb_neq in H. now rewrite H. Qed.

(* each setter changes one field of one cell *)
Ltac setter := intros; unfold set_par, set_kids, set_ps, set_ns, set_pe, set_ne, upd;
               destruct (Nat.eqb _ _) eqn:E; [apply Nat.eqb_eq in E; subst|]; reflexivity.

Lemma par_set_kids h x v y : par (set_kids h x v y) = par (h y). Proof. setter. Qed.
Lemma par_set_ps h x v y : par (set_ps h x v y) = par (h y). Proof. setter. Qed.
Lemma par_set_ns h x v y : par (set_ns h x v y) = par (h y). Proof. setter. Qed.
Lemma par_set_pe h x v y : par (set_pe h x v y) = par (h y). Proof. setter. Qed.
Lemma par_set_ne h x v y : par (set_ne h x v y) = par (h y). Proof. setter. Qed.
Lemma ps_set_kids h x v y : ps (set_kids h x v y) = ps (h y). Proof. setter. Qed.
Lemma ps_set_par h x v y : ps (set_par h x v y) = ps (h y). Proof. setter. Qed.
Lemma ps_set_ns h x v y : ps (set_ns h x v y) = ps (h y). Proof. setter. Qed.
Lemma ps_set_pe h x v y : ps (set_pe h x v y) = ps (h y). Proof. setter. Qed.
Lemma ps_set_ne h x v y : ps (set_ne h x v y) = ps (h y). Proof. setter. Qed.
Lemma ns_set_kids h x v y : ns (set_kids h x v y) = ns (h y). Proof. setter. Qed.
Lemma ns_set_par h x v y : ns (set_par h x v y) = ns (h y). Proof. setter. Qed.
Lemma ns_set_ps h x v y : ns (set_ps h x v y) = ns (h y). Proof. setter. Qed.
Lemma ns_set_pe h x v y : ns (set_pe h x v y) = ns (h y). Proof. setter. Qed.
Lemma ns_set_ne h x v y : ns (set_ne h x v y) = ns (h y). Proof. setter. Qed.
Lemma pe_set_kids h x v y : pe (set_kids h x v y) = pe (h y). Proof. setter. Qed.
Lemma pe_set_par h x v y : pe (set_par h x v y) = pe (h y). Proof. setter. Qed.
Lemma pe_set_ps h x v y : pe (set_ps h x v y) = pe (h y). Proof. setter. Qed.
Lemma pe_set_ns h x v y : pe (set_ns h x v y) = pe (h y). Proof. setter. Qed.
Lemma pe_set_ne h x v y : pe (set_ne h x v y) = pe (h y). Proof. setter. Qed.
Lemma ne_set_kids h x v y : ne (set_kids h x v y) = ne (h y). Proof. setter. Qed.
Lemma ne_set_par h x v y : ne (set_par h x v y) = ne (h y). Proof. setter. Qed.
Lemma ne_set_ps h x v y : ne (set_ps h x v y) = ne (h y). Proof. setter. Qed.
Lemma ne_set_ns h x v y : ne (set_ns h x v y) = ne (h y). Proof. setter. Qed.
Lemma ne_set_pe h x v y : ne (set_pe h x v y) = ne (h y). Proof. setter. Qed.
Lemma kids_set_par h x v y : kids (set_par h x v y) = kids (h y). Proof. setter. Qed.
Lemma kids_set_ps h x v y : kids (set_ps h x v y) = kids (h y). Proof. setter. Qed.
Lemma kids_set_ns h x v y : kids (set_ns h x v y) = kids (h y). Proof. setter. Qed.
Lemma kids_set_pe h x v y : kids (set_pe h x v y) = kids (h y). Proof. setter. Qed.
Lemma kids_set_ne h x v y : kids (set_ne h x v y) = kids (h y). Proof. setter. Qed.
Lemma kind_set_par h x v y : kind (set_par h x v y) = kind (h y). Proof. setter. Qed.
Lemma kind_set_kids h x v y : kind (set_kids h x v y) = kind (h y). Proof. setter. Qed.
Lemma kind_set_ps h x v y : kind (set_ps h x v y) = kind (h y). Proof. setter. Qed.
Lemma kind_set_ns h x v y : kind (set_ns h x v y) = kind (h y). Proof. setter. Qed.
Lemma kind_set_pe h x v y : kind (set_pe h x v y) = kind (h y). Proof. setter. Qed.
Lemma kind_set_ne h x v y : kind (set_ne h x v y) = kind (h y). Proof. setter. Qed.

Lemma par_set_par_same h x v : par (set_par h x v x) = v.
Proof. unfold set_par. now rewrite upd_same. Qed.
Lemma ps_set_ps_same h x v : ps (set_ps h x v x) = v.
Proof. unfold set_ps. now rewrite upd_same. Qed.
Lemma ns_set_ns_same h x v : ns (set_ns h x v x) = v.
Proof. unfold set_ns. now rewrite upd_same. Qed.
Lemma pe_set_pe_same h x v : pe (set_pe h x v x) = v.
Proof. unfold set_pe. now rewrite upd_same. Qed.
Lemma ne_set_ne_same h x v : ne (set_ne h x v x) = v.
Proof. unfold set_ne. now rewrite upd_same. Qed.
Lemma kids_set_kids_same h x v : kids (set_kids h x v x) = v.
Proof. unfold set_kids. now rewrite upd_same. Qed.

Lemma par_set_par_other h x v y : y <> x -> par (set_par h x v y) = par (h y).
Proof. intros. unfold set_par. now rewrite upd_other. Qed.
Lemma ps_set_ps_other h x v y : y <> x -> ps (set_ps h x v y) = ps (h y).
Proof. intros. unfold set_ps. now rewrite upd_other. Qed.
Lemma ns_set_ns_other h x v y : y <> x -> ns (set_ns h x v y) = ns (h y).
Proof. intros. unfold set_ns. now rewrite upd_other. Qed.
Lemma pe_set_pe_other h x v y : y <> x -> pe (set_pe h x v y) = pe (h y).
Proof. intros. unfold set_pe. now rewrite upd_other. Qed.
Lemma ne_set_ne_other h x v y : y <> x -> ne (set_ne h x v y) = ne (h y).
Proof. intros. unfold set_ne. now rewrite upd_other. Qed.
Lemma kids_set_kids_other h x v y : y <> x -> kids (set_kids h x v y) = kids (h y).
Proof. intros. unfold set_kids. now rewrite upd_other. Qed.

Global Hint Rewrite par_set_kids par_set_ps par_set_ns par_set_pe par_set_ne
  ps_set_kids ps_set_par ps_set_ns ps_set_pe ps_set_ne
  ns_set_kids ns_set_par ns_set_ps ns_set_pe ns_set_ne
  pe_set_kids pe_set_par pe_set_ps pe_set_ns pe_set_ne
  ne_set_kids ne_set_par ne_set_ps ne_set_ns ne_set_pe
  kids_set_par kids_set_ps kids_set_ns kids_set_pe kids_set_ne
  kind_set_par kind_set_kids kind_set_ps kind_set_ns kind_set_pe kind_set_ne
  par_set_par_same ps_set_ps_same ns_set_ns_same pe_set_pe_same ne_set_ne_same kids_set_kids_same
  : heap.

(* what comes back from extract() is detached: no parent, no siblings, nothing before it *)
Theorem extract_detached : forall fuel h x,
  let h' := extract fuel h x in
  par (h' x) = None /\ ps (h' x) = None /\ ns (h' x) = None /\ pe (h' x) = None.
Proof.
  intros fuel h x. unfold extract. set (h0 := match par (h x) with Some p => _ | None => h end).
  clearbody h0. unfold extract_links.
  set (lc := match last_descendant fuel h0 x true true with Some l => l | None => x end).
  clearbody lc.
  repeat match goal with
  | |- context [let v := ?e in _] => idtac
  end.
  cbv zeta.
  repeat split; autorewrite with heap; try reflexivity.
  (* par: written once to None, no later write touches it *)
  all: repeat match goal with
       | |- context [match ?e with Some _ => _ | None => _ end] => destruct e
       | |- context [if ?b then _ else _] => destruct b
       end; autorewrite with heap; reflexivity.
Qed.

(* ... and the last element of the fragment points nowhere *)
Theorem extract_closes_chain : forall fuel h x,
  let h0 := match par (h x) with
            | Some p => match index_of x (kids (h p)) with
                        | Some i => set_kids h p (remove_at i (kids (h p)))
                        | None => h end
            | None => h end in
  let lc := match last_descendant fuel h0 x true true with Some l => l | None => x end in
  ne (extract fuel h x lc) = None.
Proof.
  intros fuel h x h0 lc. unfold extract. fold h0. unfold extract_links. fold lc. cbv zeta.
  repeat match goal with
  | |- context [match ?e with Some _ => _ | None => _ end] => destruct e
  | |- context [if ?b then _ else _] => destruct b
  end; autorewrite with heap; reflexivity.
Qed.

(* list primitives *)
Lemma remove_at_length {X} (l : list X) i : i < length l -> length (remove_at i l) = pred (length l).
Proof.
  revert i. induction l as [|y l IH]; intros i H; [cbn in H; lia|].
  destruct i; cbn; [reflexivity|]. cbn in H. rewrite IH by lia. destruct l; cbn in *; lia.
Qed.

Lemma insert_at_length {X} (x : X) l i : length (insert_at i x l) = S (length l).
Proof.
  revert i. induction l as [|y l IH]; intros i; destruct i; cbn; try reflexivity. now rewrite IH.
Qed.

Lemma insert_at_nth {X} (x d : X) l i : i <= length l -> nth i (insert_at i x l) d = x.
Proof.
  revert i. induction l as [|y l IH]; intros i H; destruct i; cbn in *; try reflexivity; try lia.
  apply IH. lia.
Qed.

Lemma insert_at_perm {X} (x : X) l i : Permutation (insert_at i x l) (x :: l).
Proof.
  revert i. induction l as [|y l IH]; intros i; destruct i; cbn; try apply Permutation_refl.
  eapply perm_trans; [apply perm_skip, IH | apply perm_swap].
Qed.

Lemma index_of_nth x l i : index_of x l = Some i -> nth_error l i = Some x.
Proof.
  revert i. induction l as [|y l IH]; intros i H; [discriminate|]. cbn in H.
  destruct (Nat.eqb y x) eqn:E.
  - apply Nat.eqb_eq in E. inversion H; subst. reflexivity.
  - destruct (index_of x l) eqn:E2; [|discriminate]. inversion H; subst. cbn. now apply IH.
Qed.

Lemma remove_at_index_perm x l i :
  index_of x l = Some i -> Permutation l (x :: remove_at i l).
Proof.
  revert i. induction l as [|y l IH]; intros i H; [discriminate|]. cbn in H.
  destruct (Nat.eqb y x) eqn:E.
  - apply Nat.eqb_eq in E. inversion H; subst. cbn. apply Permutation_refl.
  - destruct (index_of x l) eqn:E2; [|discriminate]. inversion H; subst. cbn.
    eapply perm_trans; [apply perm_skip, (IH n eq_refl) | apply perm_swap].
Qed.

(* a successful _insert puts the child where it was asked to go, under that parent *)
Theorem insert1_places_child : forall fuel h self position nc h',
  insert1 fuel h self position nc = Some h' ->
  par (h nc) = None ->
  par (h' nc) = Some self /\
  kids (h' self) = insert_at (Nat.min position (length (kids (h self)))) nc (kids (h self)).
Proof.
  intros fuel h self position nc h' H Hpar. unfold insert1 in H.
  destruct (Nat.eqb nc self) eqn:Eself; [discriminate|]. rewrite Hpar in H. cbv zeta in H.
  set (pos := Nat.min position (length (kids (h self)))) in *.
  inversion H; subst h'; clear H.
  assert (Hneq : self <> nc) by (apply Nat.eqb_neq in Eself; congruence).
  split.
  - repeat match goal with
    | |- context [match ?e with Some _ => _ | None => _ end] => destruct e
    | |- context [if ?b then _ else _] => destruct b
    | |- context [match ?e with O => _ | S _ => _ end] => destruct e
    end; autorewrite with heap; reflexivity.
  - rewrite kids_set_kids_same.
    repeat match goal with
    | |- context [match ?e with Some _ => _ | None => _ end] => destruct e
    | |- context [if ?b then _ else _] => destruct b
    | |- context [match ?e with O => _ | S _ => _ end] => destruct e
    end; autorewrite with heap; reflexivity.
Qed.
