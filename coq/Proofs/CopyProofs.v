(* C12 — proofs about Model/Copy.v against Spec/CopySpec.v. *)
From Coq Require Import List NArith ZArith Bool Arith Lia Permutation.
From BS Require Import Base.Sexp Base.Types Spec.Tree Model.Copy Spec.CopySpec.
Import ListNotations.
Open Scope nat_scope.

(* ------------------------------------------------------------------------------------------ *)
(* stores                                                                                     *)
(* ------------------------------------------------------------------------------------------ *)
Lemma nupd_same {X} (h : nat -> X) x c : nupd h x c x = c.
Proof. unfold nupd. now rewrite Nat.eqb_refl. Qed.
Lemma nupd_other {X} (h : nat -> X) x c y : y <> x -> nupd h x c y = h y.
Proof. intros H. unfold nupd. destruct (Nat.eqb y x) eqn:E; [apply Nat.eqb_eq in E; contradiction | reflexivity]. Qed.

Lemma oeq_true a b : oeq a b = true <-> a = b.
Proof.
  destruct a, b; cbn; split; intros H; try discriminate; try reflexivity.
  - apply Nat.eqb_eq in H. now subst.
  - inversion H. apply Nat.eqb_refl.
Qed.

(* ------------------------------------------------------------------------------------------ *)
(* representation                                                                             *)
(* ------------------------------------------------------------------------------------------ *)
Fixpoint all_kids (st : cstate) (x : nat) (l : list tree) : Prop :=
  match l with
  | [] => True
  | k :: l' => (c_par (nh st (rid k)) = Some x /\ reps st k) /\ all_kids st x l'
  end.

Lemma reps_unfold st x ks :
  reps st (Node x ks) <->
  c_kids (nh st x) = map rid ks /\ (is_tagb st x = true \/ ks = []) /\ all_kids st x ks.
Proof.
  cbn [reps].
  assert (E : forall l,
    (fix all (l : list tree) : Prop :=
       match l with
       | [] => True
       | k :: l' => (c_par (nh st (rid k)) = Some x /\ reps st k) /\ all l'
       end) l <-> all_kids st x l).
  { induction l as [|k l IH]; cbn [all_kids]; [tauto|]. rewrite IH. tauto. }
  split; intros (A & B & C); (split; [exact A | split; [exact B | apply E; exact C]]).
Qed.

Lemma all_kids_Forall st x l :
  all_kids st x l <-> Forall (fun k => c_par (nh st (rid k)) = Some x /\ reps st k) l.
Proof.
  induction l as [|k l IH]; cbn [all_kids]; split; intros H.
  - constructor.
  - exact I.
  - destruct H as [H1 H2]. constructor; [exact H1 | now apply IH].
  - inversion H; subst. split; [assumption | now apply IH].
Qed.

Lemma pre_Node x ks : pre (Node x ks) = x :: pres ks.
Proof. reflexivity. Qed.

Lemma in_pres k ks y : In k ks -> In y (pre k) -> In y (pres ks).
Proof. intros Hk Hy. unfold pres. apply in_flat_map. eauto. Qed.

Lemma rid_in_pre t : In (rid t) (pre t).
Proof. destruct t. cbn. now left. Qed.

(* a tree depends only on the cells of its elements and on the list objects they refer to *)
Lemma refs_of_vattrs s s' a :
  (forall l, In l (refs_of a) -> lh s' l = lh s l) -> vattrs_of s' a = vattrs_of s a.
Proof.
  induction a as [|[k v] a IH]; intros H; [reflexivity|].
  unfold vattrs_of in *. cbn [map fst snd]. f_equal.
  - f_equal. destruct v; cbn; try reflexivity. rewrite H; [reflexivity | cbn; now left].
  - apply IH. intros l Hl. apply H. destruct v; cbn; auto.
Qed.

Lemma flat_map_ext_in' {X Y} (f g : X -> list Y) l :
  (forall x, In x l -> f x = g x) -> flat_map f l = flat_map g l.
Proof.
  induction l as [|a l IH]; intros H; [reflexivity|]. cbn. rewrite (H a) by now left.
  f_equal. apply IH. intros x Hx. apply H. now right.
Qed.

Lemma lrefs_same t s s' : (forall i, In i (pre t) -> nh s' i = nh s i) -> lrefs s' t = lrefs s t.
Proof.
  intros H. unfold lrefs. apply flat_map_ext_in'. intros x Hx. unfold attrs_of. now rewrite (H x Hx).
Qed.

Lemma lrefs_Node s x ks : lrefs s (Node x ks) = refs_of (attrs_of s x) ++ flat_map (lrefs s) ks.
Proof.
  unfold lrefs. cbn [pre flat_map]. f_equal. fold (pres ks). unfold pres.
  induction ks as [|k ks IH]; [reflexivity|]. cbn [flat_map]. rewrite flat_map_app. now rewrite IH.
Qed.

Lemma stable_tree : forall t s s',
  same_on (fun i => In i (pre t)) (fun l => In l (lrefs s t)) s s' ->
  (reps s t -> reps s' t) /\ content s' t = content s t.
Proof.
  induction t as [x ks IH] using tree_ind'. intros s s' [Hn Hl].
  rewrite Forall_forall in IH.
  assert (Hx : nh s' x = nh s x) by (apply Hn; cbn; now left).
  assert (Hks : forall k, In k ks ->
            same_on (fun i => In i (pre k)) (fun l => In l (lrefs s k)) s s').
  { intros k Hk. split.
    - intros i Hi. apply Hn. cbn. right. eapply in_pres; eauto.
    - intros l Hl'. apply Hl. rewrite lrefs_Node. apply in_or_app. right.
      apply in_flat_map. eauto. }
  split.
  - rewrite !reps_unfold. intros [H1 [H2 H3]]. split; [now rewrite Hx|]. split.
    + unfold is_tagb in *. now rewrite Hx.
    + apply all_kids_Forall. apply all_kids_Forall in H3.
      rewrite Forall_forall in *. intros k Hk. destruct (H3 k Hk) as [Hp Hr]. split.
      * rewrite Hn; [exact Hp|]. cbn. right. eapply in_pres; eauto. apply rid_in_pre.
      * apply (proj1 (IH k Hk s s' (Hks k Hk))). exact Hr.
  - cbn [content]. rewrite Hx. destruct (c_pay (nh s x)) as [d|c str] eqn:E; [|reflexivity]. f_equal.
    + apply refs_of_vattrs. intros l Hl'. apply Hl. rewrite lrefs_Node. apply in_or_app. left.
      unfold attrs_of. now rewrite E.
    + apply map_ext_in. intros k Hk. apply (IH k Hk s s' (Hks k Hk)).
Qed.

(* ------------------------------------------------------------------------------------------ *)
(* descendants = pre-order of the child lists (fuel: the height suffices)                     *)
(* ------------------------------------------------------------------------------------------ *)
Lemma height_kid k ks : In k ks -> height k <= fold_right (fun k m => Nat.max (height k) m) 0 ks.
Proof.
  induction ks as [|a ks IH]; intros H; [contradiction|]. cbn [fold_right].
  destruct H as [->|H]; [lia | specialize (IH H); lia].
Qed.

Lemma height_le_size : forall t, height t <= length (pre t).
Proof.
  induction t as [x ks IH] using tree_ind'. cbn [height pre length]. apply le_n_S.
  fold (pres ks). induction ks as [|k ks IHk]; [cbn; lia|].
  inversion IH; subst. cbn [fold_right pres flat_map]. rewrite app_length.
  specialize (IHk H2). unfold pres in IHk. lia.
Qed.

Lemma self_and_desc_pre : forall t st fuel,
  reps st t -> height t <= fuel -> self_and_desc fuel st (rid t) = pre t.
Proof.
  induction t as [x ks IH] using tree_ind'. intros st fuel Hr Hh.
  rewrite Forall_forall in IH. apply reps_unfold in Hr. destruct Hr as (Hk & _ & Ha).
  destruct fuel as [|f]; [cbn in Hh; lia|].
  cbn [rid self_and_desc pre]. f_equal. rewrite Hk.
  apply all_kids_Forall in Ha. rewrite Forall_forall in Ha.
  cbn [height] in Hh. apply le_S_n in Hh.
  assert (G : forall l, (forall k, In k l -> In k ks) ->
              flat_map (self_and_desc f st) (map rid l) = flat_map pre l).
  { induction l as [|k l IHl]; intros Hin; [reflexivity|]. cbn [map flat_map]. f_equal.
    - apply IH; [apply Hin; now left | apply Ha, Hin; now left|].
      pose proof (height_kid k ks (Hin k (or_introl eq_refl))). lia.
    - apply IHl. intros k' Hk'. apply Hin. now right. }
  apply G. auto.
Qed.

Lemma descendants_pre t st fuel :
  reps st t -> length (pre t) <= fuel -> descendants fuel st (rid t) = pres (tkids t).
Proof.
  intros Hr Hf. unfold descendants. rewrite self_and_desc_pre; auto.
  - destruct t; reflexivity.
  - pose proof (height_le_size t). lia.
Qed.

(* ------------------------------------------------------------------------------------------ *)
(* _event_stream over the pre-order = the bracket sequence                                    *)
(* ------------------------------------------------------------------------------------------ *)
Definition SC (st : cstate) (rest : list nat) (B : list nat) : Prop :=
  match rest with
  | [] => True
  | e :: _ => forall j, In j B -> c_par (nh st e) <> Some j
  end.

Lemma SC_incl st rest B B' : (forall j, In j B' -> In j B) -> SC st rest B -> SC st rest B'.
Proof. destruct rest; cbn; auto. Qed.

Lemma pop_until_skip q J A :
  (forall j, In j J -> q <> Some j) ->
  pop_until q (J ++ A) = let '(c, s) := pop_until q A in (J ++ c, s).
Proof.
  induction J as [|j J IH]; intros H.
  - cbn. now destruct (pop_until q A).
  - cbn [app pop_until]. destruct (oeq q (Some j)) eqn:E.
    + apply oeq_true in E. exfalso. apply (H j); [now left | exact E].
    + rewrite IH by (intros j' Hj'; apply H; now right). now destruct (pop_until q A).
Qed.

Lemma pop_until_exact q J A :
  (forall j, In j J -> j <> q) -> (A = [] \/ exists A', A = q :: A') ->
  pop_until (Some q) (J ++ A) = (J, A).
Proof.
  intros HJ HA. rewrite pop_until_skip.
  - destruct HA as [->|[A' ->]].
    + cbn. now rewrite app_nil_r.
    + cbn. rewrite Nat.eqb_refl. now rewrite app_nil_r.
  - intros j Hj E. inversion E. subst. now apply (HJ j).
Qed.

Lemma es_close st rest J A :
  SC st rest J -> es_loop st rest (J ++ A) = map (pair EvEnd) J ++ es_loop st rest A.
Proof.
  destruct rest as [|e r]; intros H.
  - cbn. now rewrite map_app.
  - cbn [es_loop]. rewrite pop_until_skip by (intros j Hj; apply H; exact Hj).
    destruct (pop_until (c_par (nh st e)) A) as [c s]. rewrite map_app, <- app_assoc. reflexivity.
Qed.

Definition ES_P (st : cstate) (t : tree) : Prop :=
  forall q J A rest,
    c_par (nh st (rid t)) = Some q ->
    (forall j, In j J -> j <> q) ->
    (A = [] \/ exists A', A = q :: A') ->
    SC st rest (J ++ pre t) ->
    reps st t -> NoDup (q :: pre t) ->
    es_loop st (pre t ++ rest) (J ++ A) = map (pair EvEnd) J ++ brackets st t ++ es_loop st rest A.

Lemma NoDup_app_l {X} (a b : list X) : NoDup (a ++ b) -> NoDup a.
Proof.
  induction a as [|x a IH]; intros H; [constructor|]. inversion H; subst. constructor.
  - intros Hi. apply H2. apply in_or_app. now left.
  - now apply IH.
Qed.
Lemma NoDup_app_r {X} (a b : list X) : NoDup (a ++ b) -> NoDup b.
Proof. induction a as [|x a IH]; intros H; [exact H|]. inversion H; subst. now apply IH. Qed.
Lemma NoDup_app_disj {X} (a b : list X) x : NoDup (a ++ b) -> In x a -> In x b -> False.
Proof.
  induction a as [|y a IH]; intros H Ha Hb; [contradiction|]. inversion H; subst.
  destruct Ha as [->|Ha]; [apply H2, in_or_app; now right | eauto].
Qed.

Lemma NoDup_cons_app_l {X} (q : X) a b : NoDup (q :: a ++ b) -> NoDup (q :: a).
Proof.
  intros H. inversion H; subst. constructor.
  - intros Hi. apply H2. apply in_or_app. now left.
  - eapply NoDup_app_l; eauto.
Qed.
Lemma NoDup_cons_app_r {X} (q : X) a b : NoDup (q :: a ++ b) -> NoDup (q :: b).
Proof.
  intros H. inversion H; subst. constructor.
  - intros Hi. apply H2. apply in_or_app. now right.
  - eapply NoDup_app_r; eauto.
Qed.

Lemma es_forest st ks : Forall (ES_P st) ks -> forall q A rest,
  (forall k, In k ks -> c_par (nh st (rid k)) = Some q /\ reps st k) ->
  (A = [] \/ exists A', A = q :: A') ->
  SC st rest (pres ks) -> NoDup (q :: pres ks) ->
  es_loop st (pres ks ++ rest) A = flat_map (brackets st) ks ++ es_loop st rest A.
Proof.
  induction 1 as [|k ks Hk Hks IH]; intros q A rest Hall HA Hsc Hnd; [reflexivity|].
  cbn [pres flat_map] in *. fold (pres ks) in *. rewrite <- !app_assoc.
  destruct (Hall k (or_introl eq_refl)) as [Hp Hr].
  pose proof (Hk q [] A (pres ks ++ rest) Hp) as HkE. cbn [app map] in HkE.
  rewrite HkE; auto.
  - f_equal. apply (IH q); auto.
    + intros k' Hk'. apply Hall. now right.
    + eapply SC_incl; [|exact Hsc]. intros j Hj. apply in_or_app. now right.
    + eapply NoDup_cons_app_r; eauto.
  - destruct ks as [|k2 ks2].
    + cbn [pres flat_map app]. eapply SC_incl; [|exact Hsc]. intros j Hj. apply in_or_app. now left.
    + destruct k2 as [c2 kc2]. cbn [pres flat_map pre app SC]. intros j Hj.
      destruct (Hall (Node c2 kc2) (or_intror (or_introl eq_refl))) as [Hp2 _]. cbn [rid] in Hp2. rewrite Hp2.
      intros E. inversion E; subst. inversion Hnd; subst. apply H1. apply in_or_app. now left.
  - eapply NoDup_cons_app_l; eauto.
Qed.

Lemma map_rid_nil ks : map rid ks = [] -> ks = [].
Proof. destruct ks; [reflexivity | discriminate]. Qed.

Lemma es_tree st : forall t, ES_P st t.
Proof.
  induction t as [c kc IH] using tree_ind'. intros q J A rest Hp HJ HA Hsc Hr Hnd.
  cbn [rid] in Hp. apply reps_unfold in Hr. destruct Hr as (Hk & Hleaf & Hall).
  cbn [pre app es_loop]. fold (pres kc). rewrite Hp, (pop_until_exact q J A HJ HA).
  f_equal. cbn [brackets].
  assert (Hsc' : SC st rest (c :: pres kc)).
  { eapply SC_incl; [|exact Hsc]. intros j Hj. apply in_or_app. now right. }
  destruct (is_tagb st c) eqn:Et.
  - destruct (is_empty_element st c) eqn:Ee.
    + assert (kc = []) as ->.
      { apply map_rid_nil. rewrite <- Hk. unfold is_empty_element in Ee.
        destruct (c_pay (nh st c)); [|discriminate]. destruct (c_kids (nh st c)); [reflexivity | discriminate]. }
      reflexivity.
    + cbn [app]. f_equal.
      rewrite (es_forest st kc IH c (c :: A) rest).
      * rewrite <- app_assoc. f_equal. cbn [app].
        change (c :: A) with ([c] ++ A). rewrite es_close.
        -- reflexivity.
        -- eapply SC_incl; [|exact Hsc']. intros j [->|[]]. now left.
      * apply all_kids_Forall in Hall. rewrite Forall_forall in Hall. exact Hall.
      * right. eauto.
      * eapply SC_incl; [|exact Hsc']. intros j Hj. now right.
      * inversion Hnd; subst. exact H2.
  - destruct Hleaf as [Ht| ->]; [congruence|]. reflexivity.
Qed.

Lemma event_stream_brackets st t fuel :
  reps st t -> NoDup (pre t) -> length (pre t) <= fuel ->
  es_loop st (descendants fuel st (rid t)) [] = flat_map (brackets st) (tkids t).
Proof.
  intros Hr Hnd Hf. rewrite descendants_pre by assumption.
  destruct t as [x ks]. cbn [tkids rid]. apply reps_unfold in Hr. destruct Hr as (_ & _ & Hall).
  pose proof (es_forest st ks) as H.
  rewrite <- (app_nil_r (pres ks)).
  rewrite (H (proj2 (Forall_forall _ _) (fun k _ => es_tree st k)) x [] []).
  - cbn. now rewrite app_nil_r.
  - apply all_kids_Forall in Hall. rewrite Forall_forall in Hall. exact Hall.
  - now left.
  - exact I.
  - exact Hnd.
Qed.

(* ------------------------------------------------------------------------------------------ *)
(* the loop of __deepcopy__ replays the bracket sequence into the recursive copy              *)
(* ------------------------------------------------------------------------------------------ *)
Lemma copy_into_Node fuel st p x ks :
  copy_into fuel st p (Node x ks) =
  let '(s1, d) := clone1 fuel st x in
  let s2 := append_child s1 p d in
  let '(s3, ks') := copy_forest fuel s2 d ks in (s3, Node d ks').
Proof.
  cbn [copy_into]. destruct (clone1 fuel st x) as [s1 d]. cbn zeta.
  assert (E : forall l s,
    (fix go (s : cstate) (l : list tree) {struct l} : cstate * list tree :=
       match l with
       | [] => (s, [])
       | k :: l' => let '(sa, k') := copy_into fuel s d k in let '(sb, r) := go sa l' in (sb, k' :: r)
       end) s l = copy_forest fuel s d l).
  { induction l as [|k l IH]; intros s; [reflexivity|]. cbn [copy_forest].
    destruct (copy_into fuel s d k) as [sa k']. now rewrite IH. }
  now rewrite E.
Qed.

Definition DC_P (st0 : cstate) (t : tree) : Prop :=
  forall fuel s p stk rest, reps st0 t ->
    dc_loop fuel s (brackets st0 t ++ rest) (p :: stk) =
    dc_loop fuel (fst (copy_into fuel s p t)) rest (p :: stk).

Lemma dc_forest st0 ks : Forall (DC_P st0) ks -> forall fuel s p stk rest,
  (forall k, In k ks -> reps st0 k) ->
  dc_loop fuel s (flat_map (brackets st0) ks ++ rest) (p :: stk) =
  dc_loop fuel (fst (copy_forest fuel s p ks)) rest (p :: stk).
Proof.
  induction 1 as [|k ks Hk Hks IH]; intros fuel s p stk rest Hr; [reflexivity|].
  cbn [flat_map copy_forest]. rewrite <- app_assoc. rewrite Hk by (apply Hr; now left).
  destruct (copy_into fuel s p k) as [sa k'] eqn:E1. cbn [fst].
  rewrite IH by (intros k2 H2; apply Hr; now right).
  destruct (copy_forest fuel sa p ks) as [sb r]. reflexivity.
Qed.

Lemma dc_tree st0 : forall t, DC_P st0 t.
Proof.
  induction t as [x ks IH] using tree_ind'. intros fuel s p stk rest Hr.
  apply reps_unfold in Hr. destruct Hr as (Hk & Hleaf & Hall).
  rewrite copy_into_Node. cbn [brackets].
  destruct (is_tagb st0 x) eqn:Et.
  - destruct (is_empty_element st0 x) eqn:Ee.
    + assert (ks = []) as ->.
      { apply map_rid_nil. rewrite <- Hk. unfold is_empty_element in Ee.
        destruct (c_pay (nh st0 x)); [|discriminate]. destruct (c_kids (nh st0 x)); [reflexivity | discriminate]. }
      cbn [app dc_loop copy_forest]. destruct (clone1 fuel s x) as [s1 d]. reflexivity.
    + cbn [app dc_loop]. destruct (clone1 fuel s x) as [s1 d]. cbn zeta.
      rewrite <- app_assoc. rewrite (dc_forest st0 ks IH).
      * destruct (copy_forest fuel (append_child s1 p d) d ks) as [s3 ks']. reflexivity.
      * apply all_kids_Forall in Hall. rewrite Forall_forall in Hall. intros k Hin. apply Hall. exact Hin.
  - destruct Hleaf as [Ht| ->]; [congruence|].
    cbn [app dc_loop copy_forest]. destruct (clone1 fuel s x) as [s1 d]. reflexivity.
Qed.

(* deepcopy is the recursive copy *)
Theorem deepcopy_is_copy_spec st t fuel :
  reps st t -> NoDup (pre t) -> length (pre t) <= fuel ->
  deepcopy fuel st (rid t) =
  Some (fst (copy_spec fuel st t), rid (snd (copy_spec fuel st t))).
Proof.
  intros Hr Hnd Hf. unfold deepcopy, copy_spec.
  destruct (c_pay (nh st (rid t))) as [d|c s] eqn:E.
  - rewrite event_stream_brackets by assumption.
    destruct (copy_self fuel st (rid t)) as [s1 clone].
    pose proof (dc_forest st (tkids t) (proj2 (Forall_forall _ _) (fun k _ => dc_tree st k)) fuel s1 clone [] []) as H.
    rewrite app_nil_r in H. rewrite H.
    + cbn [dc_loop]. destruct (copy_forest fuel s1 clone (tkids t)) as [s2 ks']. reflexivity.
    + destruct t as [x ks]. apply reps_unfold in Hr. destruct Hr as (_ & _ & Hall).
      apply all_kids_Forall in Hall. rewrite Forall_forall in Hall. intros k Hin. apply Hall. exact Hin.
  - reflexivity.
Qed.

(* ------------------------------------------------------------------------------------------ *)
(* what the recursive copy does to the two stores                                             *)
(* ------------------------------------------------------------------------------------------ *)
Lemma copy_attrs_frame : forall a s s' a', copy_attrs s a = (s', a') ->
  nh s' = nh s /\ nn s' = nn s /\ ln s' = ln s + length (refs_of a) /\
  (forall l, l < ln s -> lh s' l = lh s l) /\
  refs_of a' = seq (ln s) (length (refs_of a)).
Proof.
  induction a as [|[k v] a IH]; intros s s' a' H.
  - cbn in H. inversion H; subst. cbn. repeat split; auto.
  - assert (Hplain : forall (E : (let '(S2, r') := copy_attrs s a in (S2, (k, v) :: r')) = (s', a')),
              refs_of ((k, v) :: a) = refs_of a -> (forall r', refs_of ((k, v) :: r') = refs_of r') ->
              nh s' = nh s /\ nn s' = nn s /\ ln s' = ln s + length (refs_of ((k, v) :: a)) /\
              (forall l, l < ln s -> lh s' l = lh s l) /\
              refs_of a' = seq (ln s) (length (refs_of ((k, v) :: a)))).
    { intros E E1 E2. destruct (copy_attrs s a) as [S2 r'] eqn:E3. inversion E; subst.
      rewrite E1, E2. eapply IH; eauto. }
    destruct v as [str|l|b|z|]; cbn [copy_attrs] in H; try (apply Hplain; [exact H | reflexivity | reflexivity]).
    destruct (alloc_list s (lh s l)) as [S1 l'] eqn:E1.
    destruct (copy_attrs S1 a) as [S2 r'] eqn:E2. inversion H; subst. clear H.
    unfold alloc_list in E1. inversion E1; subst. clear E1.
    destruct (IH _ _ _ E2) as (A1 & A2 & A3 & A4 & A5). cbn [nh nn ln lh] in *.
    cbn [refs_of length seq]. repeat split.
    + exact A1.
    + exact A2.
    + rewrite A3. lia.
    + intros m Hm. rewrite A4 by lia. apply nupd_other. lia.
    + now rewrite A5.
Qed.

Lemma copy_attrs_vals : forall a s0 s s' a', copy_attrs s a = (s', a') ->
  ln s0 <= ln s -> (forall l, l < ln s0 -> lh s l = lh s0 l) ->
  (forall l, In l (refs_of a) -> l < ln s0) ->
  Forall2 (fun kv kv' => fst kv' = fst kv /\ val_copy s0 s' (snd kv) (snd kv')) a a'.
Proof.
  induction a as [|[k v] a IH]; intros s0 s s' a' H Hle Hag Hlt.
  - cbn in H. inversion H; subst. constructor.
  - destruct v as [str|l|b|z|]; cbn [copy_attrs] in H.
    2:{ destruct (alloc_list s (lh s l)) as [S1 l'] eqn:E1.
        destruct (copy_attrs S1 a) as [S2 r'] eqn:E2. inversion H; subst. clear H.
        unfold alloc_list in E1. inversion E1; subst. clear E1.
        destruct (copy_attrs_frame _ _ _ _ E2) as (A1 & A2 & A3 & A4 & A5). cbn [nh nn ln lh] in *.
        assert (Hl : l < ln s0) by (apply Hlt; cbn; now left).
        constructor.
        - cbn [fst snd]. split; [reflexivity|]. constructor; [lia|].
          rewrite A4 by lia. rewrite nupd_same. now apply Hag.
        - apply (IH s0 _ _ _ E2); cbn [ln lh].
          + lia.
          + intros m Hm. rewrite nupd_other by lia. now apply Hag.
          + intros m Hm. apply Hlt. cbn. now right. }
    all: destruct (copy_attrs s a) as [S2 r'] eqn:E2; inversion H; subst; constructor;
      [cbn [fst snd]; split; [reflexivity | constructor]
      | apply (IH s0 _ _ _ E2); auto; intros m Hm; apply Hlt; cbn; exact Hm].
Qed.

(* the payload without addresses and without known_xml *)
Definition pay_content (st : cstate) (x : nat) : ctree :=
  match c_pay (nh st x) with
  | PTag d => CT (t_soup d) (t_name d) (vattrs_of st (t_attrs d)) (t_set d) []
  | PStr c s => CS c s
  end.

Lemma vattrs_copy st0 s' a a' :
  Forall2 (fun kv kv' => fst kv' = fst kv /\ val_copy st0 s' (snd kv) (snd kv')) a a' ->
  vattrs_of s' a' = vattrs_of st0 a.
Proof.
  induction 1 as [|[k v] [k' v'] a a' [Hk Hv] _ IH]; [reflexivity|].
  unfold vattrs_of in *. cbn [map fst snd] in *. subst k'. f_equal; [|exact IH]. f_equal.
  inversion Hv; subst; cbn; try reflexivity. now rewrite H0.
Qed.

Lemma vattrs_of_lh s1 s2 a : lh s1 = lh s2 -> vattrs_of s1 a = vattrs_of s2 a.
Proof.
  intros H. unfold vattrs_of. apply map_ext. intros [k v]. cbn [fst snd]. f_equal.
  destruct v; cbn; try reflexivity. now rewrite H.
Qed.

Lemma clone1_effect fuel st0 s x s' d :
  clone1 fuel s x = (s', d) ->
  ln st0 <= ln s -> (forall l, l < ln st0 -> lh s l = lh st0 l) ->
  nh s x = nh st0 x -> soup_ok st0 x ->
  (forall l, In l (refs_of (attrs_of st0 x)) -> l < ln st0) ->
  d = nn s /\ nn s' = S (nn s) /\
  (forall i, i <> nn s -> nh s' i = nh s i) /\
  c_par (nh s' d) = None /\ c_kids (nh s' d) = [] /\
  (forall l, l < ln s -> lh s' l = lh s l) /\
  ln s' = ln s + length (refs_of (attrs_of st0 x)) /\
  refs_of (attrs_of s' d) = seq (ln s) (length (refs_of (attrs_of st0 x))) /\
  pay_content s' d = pay_content st0 x /\
  is_tagb s' d = is_tagb st0 x /\
  kxml_of s' d = kxml_clone fuel s x.
Proof.
  intros H Hle Hag Hx Hsoup Hlt.
  unfold clone1, copy_self in H. unfold attrs_of, pay_content, kxml_of, kxml_clone, is_tagb, soup_ok in *.
  rewrite Hx in *. destruct (c_pay (nh st0 x)) as [a|c t] eqn:Ep.
  - destruct (t_soup a) eqn:Es.
    + destruct (Hsoup eq_refl) as [Ha _]. rewrite Ha in *.
      unfold alloc_node in H. inversion H; subst. clear H. cbn [nh nn lh ln].
      rewrite nupd_same. cbn [c_par c_kids c_pay t_attrs t_soup t_name t_set t_kxml refs_of length seq vattrs_of map].
      repeat split; auto; try lia; try (now rewrite Es); try (intros i Hi; now apply nupd_other).
    + destruct (copy_attrs s (t_attrs a)) as [S1 a'] eqn:Ea.
      destruct (copy_attrs_frame _ _ _ _ Ea) as (A1 & A2 & A3 & A4 & A5).
      pose proof (copy_attrs_vals _ st0 _ _ _ Ea Hle Hag Hlt) as A6.
      unfold alloc_node in H. inversion H; subst. clear H. cbn [nh nn lh ln].
      rewrite nupd_same. cbn [c_par c_kids c_pay t_attrs t_soup t_name t_set t_kxml].
      rewrite A1, A2. repeat split; auto; try (intros i Hi; now apply nupd_other).
      f_equal. rewrite (vattrs_of_lh _ S1) by reflexivity. apply (vattrs_copy st0). exact A6.
  - unfold alloc_node in H. inversion H; subst. clear H. cbn [nh nn lh ln].
    rewrite nupd_same. cbn [c_par c_kids c_pay refs_of length seq].
    repeat split; auto; try lia. intros i Hi. now apply nupd_other.
Qed.

Lemma append_child_effect s p d : p <> d ->
  let s' := append_child s p d in
  nn s' = nn s /\ ln s' = ln s /\ lh s' = lh s /\
  (forall i, i <> p -> i <> d -> nh s' i = nh s i) /\
  nh s' d = mkccell (Some p) (c_kids (nh s d)) (c_pay (nh s d)) /\
  nh s' p = mkccell (c_par (nh s p)) (c_kids (nh s p) ++ [d]) (c_pay (nh s p)).
Proof.
  intros Hpd. unfold append_child, set_cell. cbn [nh nn lh ln]. repeat split.
  - intros i Hp Hd. rewrite nupd_other by exact Hp. now rewrite nupd_other by exact Hd.
  - rewrite nupd_other by (intros E; apply Hpd; now symmetry). apply nupd_same.
  - rewrite nupd_same. rewrite !nupd_other by exact Hpd. reflexivity.
Qed.

Definition agree (s0 s : cstate) : Prop :=
  nn s0 <= nn s /\ ln s0 <= ln s /\
  (forall i, i < nn s0 -> nh s i = nh s0 i) /\ (forall l, l < ln s0 -> lh s l = lh s0 l).


Lemma is_xml_agree st0 s : agree st0 s -> closed_par st0 ->
  forall fuel x, x < nn st0 -> is_xml fuel s x = is_xml fuel st0 x.
Proof.
  intros (_ & _ & Hn & _) Hc. induction fuel as [|f IH]; intros x Hx; [reflexivity|].
  cbn [is_xml]. rewrite (Hn x Hx).
  destruct (c_par (nh st0 x)) as [p|] eqn:Ep; [|reflexivity].
  rewrite (IH p) by (eapply Hc; eauto). reflexivity.
Qed.

Definition with_kids (c : ctree) (ks : list ctree) : ctree :=
  match c with CT sp n a se _ => CT sp n a se ks | CS c s => CS c s end.
Lemma content_Node s x ks : content s (Node x ks) = with_kids (pay_content s x) (map (content s) ks).
Proof. cbn [content]. unfold pay_content. now destruct (c_pay (nh s x)). Qed.

Lemma pay_content_same s s' x :
  nh s' x = nh s x -> (forall l, In l (refs_of (attrs_of s x)) -> lh s' l = lh s l) ->
  pay_content s' x = pay_content s x.
Proof.
  intros Hx Hl. unfold pay_content, attrs_of in *. rewrite Hx. destruct (c_pay (nh s x)); [|reflexivity].
  f_equal. now apply refs_of_vattrs.
Qed.

Lemma seq_lt a n x : In x (seq a n) -> a <= x < a + n.
Proof. intros H. apply in_seq in H. lia. Qed.

Section CopyEffect.
  Variables (st0 : cstate) (fuel : nat).
  Hypothesis Hclosed : closed_par st0.

  Definition pre_ok (t : tree) : Prop :=
    reps st0 t /\ (forall x, In x (pre t) -> x < nn st0) /\
    (forall l, In l (lrefs st0 t) -> l < ln st0) /\ (forall x, In x (pre t) -> soup_ok st0 x).

  Definition post_forest (s : cstate) (p : nat) (ks : list tree) (s' : cstate) (ks' : list tree) : Prop :=
    agree st0 s' /\
    nn s' = nn s + length (pres ks) /\
    pres ks' = seq (nn s) (length (pres ks)) /\
    (forall i, i < nn s -> i <> p -> nh s' i = nh s i) /\
    c_par (nh s' p) = c_par (nh s p) /\ c_pay (nh s' p) = c_pay (nh s p) /\
    c_kids (nh s' p) = c_kids (nh s p) ++ map rid ks' /\
    (forall l, l < ln s -> lh s' l = lh s l) /\
    ln s' = ln s + length (flat_map (lrefs st0) ks) /\
    flat_map (lrefs s') ks' = seq (ln s) (length (flat_map (lrefs st0) ks)) /\
    Forall (fun k' => c_par (nh s' (rid k')) = Some p /\ reps s' k') ks' /\
    map (content s') ks' = map (content st0) ks /\
    map (kxml_of s') (pres ks') = map (kxml_clone fuel st0) (pres ks) /\
    length ks' = length ks.

  Definition post_tree (s : cstate) (p : nat) (t : tree) (s' : cstate) (t' : tree) : Prop :=
    post_forest s p [t] s' [t'].

  Definition CP (t : tree) : Prop :=
    pre_ok t -> forall s p, agree st0 s -> nn st0 <= p -> p < nn s ->
    post_tree s p t (fst (copy_into fuel s p t)) (snd (copy_into fuel s p t)).

  Lemma pre_ok_kid x ks k : pre_ok (Node x ks) -> In k ks -> pre_ok k.
  Proof.
    intros (Hr & Hn & Hl & Hs) Hk. apply reps_unfold in Hr. destruct Hr as (_ & _ & Ha).
    apply all_kids_Forall in Ha. rewrite Forall_forall in Ha. repeat split.
    - apply Ha, Hk.
    - intros y Hy. apply Hn. cbn. right. eapply in_pres; eauto.
    - intros l Hl'. apply Hl. rewrite lrefs_Node. apply in_or_app. right. apply in_flat_map. eauto.
    - intros y Hy. apply Hs. cbn. right. eapply in_pres; eauto.
  Qed.

  Lemma copy_forest_post ks : Forall CP ks -> (forall k, In k ks -> pre_ok k) ->
    forall s p, agree st0 s -> nn st0 <= p -> p < nn s ->
    post_forest s p ks (fst (copy_forest fuel s p ks)) (snd (copy_forest fuel s p ks)).
  Proof.
    induction 1 as [|k ks Hk Hks IH]; intros Hok s p Hag Hp1 Hp2.
    - cbn [copy_forest fst snd]. unfold post_forest. cbn [pres flat_map length map seq].
      rewrite !Nat.add_0_r, app_nil_r. split; [exact Hag|]. repeat split; auto.
    - cbn [copy_forest].
      specialize (Hk (Hok k (or_introl eq_refl)) s p Hag Hp1 Hp2).
      destruct (copy_into fuel s p k) as [sa k'] eqn:E1. cbn [fst snd] in Hk.
      unfold post_tree, post_forest in Hk.
      cbn [pres flat_map map length] in Hk. rewrite !app_nil_r in Hk.
      destruct Hk as (K1 & K2 & K3 & K4 & K5 & K6 & K7 & K8 & K9 & K10 & K11 & K12 & K13 & _).
      assert (Hp2' : p < nn sa) by lia.
      specialize (IH (fun k2 H2 => Hok k2 (or_intror H2)) sa p K1 Hp1 Hp2').
      destruct (copy_forest fuel sa p ks) as [sb r] eqn:E2. cbn [fst snd] in *.
      destruct IH as (F1 & F2 & F3 & F4 & F5 & F6 & F7 & F8 & F9 & F10 & F11 & F12 & F13 & F14).
      (* the subtree built first is untouched by the later steps *)
      assert (Hst : same_on (fun i => In i (pre k')) (fun l => In l (lrefs sa k')) sa sb).
      { split.
        - intros i Hi. rewrite K3 in Hi. apply seq_lt in Hi. apply F4; lia.
        - intros l Hl. rewrite K10 in Hl. apply seq_lt in Hl. apply F8. lia. }
      destruct (stable_tree k' sa sb Hst) as [S1 S2].
      inversion K11 as [|? ? [Kp Kr] _]; subst.
      unfold post_forest. cbn [pres flat_map map length]. unfold pres in *.
      rewrite !app_length, !map_app. split; [exact F1|]. repeat split.
      + lia.
      + rewrite K3, F3, K2. now rewrite <- seq_app.
      + intros i Hi Hip. rewrite F4 by lia. now apply K4.
      + now rewrite F5.
      + now rewrite F6.
      + rewrite F7, K7. now rewrite <- app_assoc.
      + intros l Hl. rewrite F8 by lia. now apply K8.
      + lia.
      + rewrite F10. rewrite (lrefs_same k' sa sb) by (apply Hst). rewrite K10, K9. now rewrite <- seq_app.
      + constructor; [|exact F11]. split; [|now apply S1].
        rewrite (proj1 Hst); [exact Kp | apply rid_in_pre].
      + f_equal; [|exact F12]. rewrite S2. now inversion K12.
      + f_equal; [|exact F13]. rewrite <- K13. apply map_ext_in. intros i Hi.
        unfold kxml_of. now rewrite (proj1 Hst i Hi).
      + now rewrite F14.
  Qed.

  Lemma copy_tree_post : forall t, CP t.
  Proof.
    induction t as [x ks IH] using tree_ind'. intros Hok s p Hag Hp1 Hp2.
    pose proof Hok as (Hr & Hn & Hl & Hs).
    apply reps_unfold in Hr. destruct Hr as (Hkids & Hleaf & Hall).
    assert (Hx : x < nn st0) by (apply Hn; cbn; now left).
    pose proof Hag as (G1 & G2 & G3 & G4).
    rewrite copy_into_Node.
    destruct (clone1 fuel s x) as [s1 d] eqn:E1.
    destruct (clone1_effect fuel st0 s x s1 d E1 G2 G4 (G3 x Hx) (Hs x (or_introl eq_refl)))
      as (C1 & C2 & C3 & C4 & C5 & C6 & C7 & C8 & C9 & C10 & C11).
    { intros l Hl'. apply Hl. rewrite lrefs_Node. apply in_or_app. now left. }
    subst d. cbn zeta.
    assert (Hpd : p <> nn s) by lia.
    destruct (append_child_effect s1 p (nn s) Hpd) as (B1 & B2 & B3 & B4 & B5 & B6).
    set (s2 := append_child s1 p (nn s)) in *.
    assert (Hag2 : agree st0 s2).
    { repeat split.
      - lia.
      - lia.
      - intros i Hi. rewrite B4 by lia. rewrite C3 by lia. now apply G3.
      - intros l Hl'. rewrite B3. rewrite C6 by lia. now apply G4. }
    pose proof (copy_forest_post ks IH (fun k Hk => pre_ok_kid x ks k Hok Hk) s2 (nn s) Hag2) as HF.
    specialize (HF ltac:(lia) ltac:(lia)).
    destruct (copy_forest fuel s2 (nn s) ks) as [s3 ks'] eqn:E2. cbn [fst snd] in *.
    destruct HF as (F1 & F2 & F3 & F4 & F5 & F6 & F7 & F8 & F9 & F10 & F11 & F12 & F13 & F14).
    assert (Hd3 : c_pay (nh s3 (nn s)) = c_pay (nh s1 (nn s))) by (rewrite F6, B5; reflexivity).
    assert (Hattrs3 : attrs_of s3 (nn s) = attrs_of s1 (nn s)) by (unfold attrs_of; now rewrite Hd3).
    assert (Hpc : pay_content s3 (nn s) = pay_content st0 x).
    { rewrite <- C9. unfold pay_content. rewrite Hd3.
      destruct (c_pay (nh s1 (nn s))) as [a|c t] eqn:Ea; [|reflexivity]. f_equal.
      apply refs_of_vattrs. intros l Hl'.
      assert (Hl2 : In l (refs_of (attrs_of s1 (nn s)))) by (unfold attrs_of; now rewrite Ea).
      rewrite C8 in Hl2. apply seq_lt in Hl2. rewrite F8 by lia. now rewrite B3. }
    unfold post_tree, post_forest. cbn [pres flat_map map length pre rid]. rewrite !app_nil_r.
    unfold pres in *.
    split; [exact F1|]. repeat split.
    - cbn [length]. lia.
    - cbn [length seq]. f_equal. rewrite F3. f_equal. lia.
    - intros i Hi Hip. rewrite F4 by lia. rewrite B4 by lia. apply C3. lia.
    - rewrite F4 by lia. rewrite B6. cbn [c_par]. now rewrite C3 by lia.
    - rewrite F4 by lia. rewrite B6. cbn [c_pay]. now rewrite C3 by lia.
    - rewrite F4 by lia. rewrite B6. cbn [c_kids]. now rewrite C3 by lia.
    - intros l Hl'. rewrite F8 by lia. rewrite B3. now apply C6.
    - rewrite lrefs_Node, app_length. lia.
    - rewrite !lrefs_Node. rewrite Hattrs3, C8, F10, app_length, B2, C7. now rewrite <- seq_app.
    - constructor; [|constructor]. split.
      + cbn [rid]. rewrite F5, B5. reflexivity.
      + apply reps_unfold. split; [|split].
        * rewrite F7, B5. cbn [c_kids]. now rewrite C5.
        * unfold is_tagb in *. rewrite Hd3. rewrite C10.
          destruct Hleaf as [Ht| ->]; [now left|]. right. destruct ks'; [reflexivity | discriminate].
        * apply all_kids_Forall. exact F11.
    - f_equal. rewrite !content_Node. rewrite Hpc. now rewrite F12.
    - cbn [map]. f_equal; [|exact F13].
      unfold kxml_of. rewrite Hd3. fold (kxml_of s1 (nn s)). rewrite C11.
      unfold kxml_clone. rewrite (G3 x Hx). now rewrite (is_xml_agree st0 s Hag Hclosed fuel x Hx).
  Qed.
End CopyEffect.

(* ------------------------------------------------------------------------------------------ *)
(* the copy of a whole element                                                                *)
(* ------------------------------------------------------------------------------------------ *)

Lemma clone1_tag fuel st x d : c_pay (nh st x) = PTag d -> clone1 fuel st x = copy_self fuel st x.
Proof. intros H. unfold clone1. now rewrite H. Qed.

Theorem copy_spec_correct st t fuel :
  wf st t -> closed_par st -> (forall x, In x (pre t) -> soup_ok st x) ->
  copy_post fuel st t (fst (copy_spec fuel st t)) (snd (copy_spec fuel st t)).
Proof.
  intros (Hr & Hnd & Hn & Hl) Hc Hs. destruct t as [x ks].
  pose proof Hr as Hr0. apply reps_unfold in Hr. destruct Hr as (Hkids & Hleaf & Hall).
  assert (Hag0 : agree st st) by (repeat split; auto).
  assert (Hlx : forall l, In l (refs_of (attrs_of st x)) -> l < ln st).
  { intros l Hl'. apply Hl. rewrite lrefs_Node. apply in_or_app. now left. }
  unfold copy_spec. cbn [rid tkids].
  destruct (c_pay (nh st x)) as [a|c str] eqn:Ep.
  - rewrite <- (clone1_tag fuel st x a Ep).
    destruct (clone1 fuel st x) as [s1 d] eqn:E1.
    destruct (clone1_effect fuel st st x s1 d E1 (le_n _) (fun l _ => eq_refl) eq_refl (Hs x (or_introl eq_refl)) Hlx)
      as (C1 & C2 & C3 & C4 & C5 & C6 & C7 & C8 & C9 & C10 & C11).
    subst d.
    assert (Hag1 : agree st s1).
    { repeat split; try lia.
      - intros i Hi. apply C3. lia.
      - intros l Hl'. now apply C6. }
    assert (Hok : forall k, In k ks -> pre_ok st k).
    { intros k Hk. apply (pre_ok_kid st x ks k); [|exact Hk]. exact (conj Hr0 (conj Hn (conj Hl Hs))). }
    pose proof (copy_forest_post st fuel ks
                  (proj2 (Forall_forall _ _) (fun k _ => copy_tree_post st fuel Hc k)) Hok s1 (nn st) Hag1) as HF.
    specialize (HF ltac:(lia) ltac:(lia)).
    destruct (copy_forest fuel s1 (nn st) ks) as [s3 ks'] eqn:E2. cbn [fst snd] in *.
    destruct HF as (F1 & F2 & F3 & F4 & F5 & F6 & F7 & F8 & F9 & F10 & F11 & F12 & F13 & F14).
    assert (Hattrs3 : attrs_of s3 (nn st) = attrs_of s1 (nn st)) by (unfold attrs_of; now rewrite F6).
    assert (Hpc : pay_content s3 (nn st) = pay_content st x).
    { rewrite <- C9. unfold pay_content. rewrite F6.
      destruct (c_pay (nh s1 (nn st))) as [a1|c t] eqn:Ea; [|reflexivity]. f_equal.
      apply refs_of_vattrs. intros l Hl'.
      assert (Hl2 : In l (refs_of (attrs_of s1 (nn st)))) by (unfold attrs_of; now rewrite Ea).
      rewrite C8 in Hl2. apply seq_lt in Hl2. apply F8. lia. }
    assert (Hreps : reps s3 (Node (nn st) ks')).
    { apply reps_unfold. split; [|split].
      * rewrite F7, C5. reflexivity.
      * unfold is_tagb in *. rewrite F6, C10.
        destruct Hleaf as [Ht| ->]; [now left|]. right. destruct ks'; [reflexivity | discriminate].
      * apply all_kids_Forall. exact F11. }
    unfold copy_post. cbn [pre rid]. unfold pres in *. split; [exact Hreps|]. repeat split.
    + rewrite !content_Node. rewrite Hpc. now rewrite F12.
    + now rewrite F5.
    + cbn [length seq]. f_equal. rewrite F3. f_equal. lia.
    + cbn [length]. lia.
    + rewrite !lrefs_Node. rewrite Hattrs3, C8, F10, app_length, C7. now rewrite <- seq_app.
    + rewrite lrefs_Node, app_length. lia.
    + intros i Hi. rewrite F4 by lia. apply C3. lia.
    + intros l Hl'. rewrite F8 by lia. now apply C6.
    + cbn [map]. f_equal; [|exact F13]. unfold kxml_of. rewrite F6. fold (kxml_of s1 (nn st)). exact C11.
  - destruct Hleaf as [Ht| ->]; [unfold is_tagb in Ht; rewrite Ep in Ht; discriminate|].
    unfold alloc_node. cbn [fst snd]. unfold copy_post. cbn [pre rid pres flat_map length seq nh nn lh ln].
    assert (Hl0 : lrefs st (Node x []) = []).
    { rewrite lrefs_Node. unfold attrs_of. rewrite Ep. reflexivity. }
    rewrite Hl0. cbn [length seq]. split.
    { apply reps_unfold. cbn [nh]. rewrite nupd_same. cbn [c_kids map all_kids]. repeat split; auto. }
    repeat split; try lia.
    + cbn [content nh]. rewrite nupd_same. cbn [c_pay]. now rewrite Ep.
    + rewrite nupd_same. reflexivity.
    + rewrite lrefs_Node. unfold attrs_of. cbn [nh]. rewrite nupd_same. reflexivity.
    + intros i Hi. apply nupd_other. lia.
    + cbn [map]. unfold kxml_of, kxml_clone. cbn [nh]. rewrite nupd_same. cbn [c_pay]. now rewrite Ep.
Qed.

Lemma wf_size st t : wf st t -> length (pre t) <= nn st.
Proof.
  intros (_ & Hnd & Hn & _). rewrite <- (seq_length (nn st) 0).
  apply NoDup_incl_length; [exact Hnd|]. intros x Hx. apply in_seq. specialize (Hn x Hx). lia.
Qed.

Theorem deepcopy_correct st t fuel :
  wf st t -> closed_par st -> (forall x, In x (pre t) -> soup_ok st x) -> length (pre t) <= fuel ->
  exists st' t', deepcopy fuel st (rid t) = Some (st', rid t') /\ copy_post fuel st t st' t'.
Proof.
  intros Hwf Hc Hs Hf. exists (fst (copy_spec fuel st t)), (snd (copy_spec fuel st t)). split.
  - destruct Hwf as (Hr & Hnd & _). now apply deepcopy_is_copy_spec.
  - now apply copy_spec_correct.
Qed.

(* ------------------------------------------------------------------------------------------ *)
(* independence                                                                               *)
(* ------------------------------------------------------------------------------------------ *)
Lemma same_on_weaken (N1 N2 L1 L2 : nat -> Prop) s s' :
  (forall i, N2 i -> N1 i) -> (forall l, L2 l -> L1 l) -> same_on N1 L1 s s' -> same_on N2 L2 s s'.
Proof. intros HN HL [A B]. split; auto. Qed.

Lemma same_on_trans (N L : nat -> Prop) s1 s2 s3 :
  same_on N L s1 s2 -> same_on N L s2 s3 -> same_on N L s1 s3.
Proof. intros [A B] [C D]. split; intros; [rewrite C, A | rewrite D, B]; auto. Qed.

(* editing the copy (any change that leaves alone what existed before the copy was made)
   does not change the original — nor any other tree that existed *)
Theorem edit_copy_leaves_old st u s2 st' :
  wf st u ->
  (forall i, i < nn st -> nh st' i = nh st i) -> (forall l, l < ln st -> lh st' l = lh st l) ->
  same_on (fun i => i < nn st) (fun l => l < ln st) st' s2 ->
  reps s2 u /\ content s2 u = content st u.
Proof.
  intros (Hr & _ & Hn & Hl) Hn' Hl' [E1 E2].
  assert (H : same_on (fun i => In i (pre u)) (fun l => In l (lrefs st u)) st s2).
  { split.
    - intros i Hi. rewrite E1 by (now apply Hn). apply Hn'. now apply Hn.
    - intros l Hl2. rewrite E2 by (now apply Hl). apply Hl'. now apply Hl. }
  destruct (stable_tree u st s2 H) as [A B]. split; [now apply A | exact B].
Qed.

(* editing anything that existed before leaves the copy as it was *)
Theorem edit_old_leaves_copy fuel st t st' t' s2 :
  copy_post fuel st t st' t' ->
  same_on (fun i => nn st <= i < nn st') (fun l => ln st <= l < ln st') st' s2 ->
  reps s2 t' /\ content s2 t' = content st t.
Proof.
  intros (P1 & P2 & P3 & P4 & P5 & P6 & P7 & _) [E1 E2].
  assert (H : same_on (fun i => In i (pre t')) (fun l => In l (lrefs st' t')) st' s2).
  { split.
    - intros i Hi. rewrite P4 in Hi. apply seq_lt in Hi. apply E1. lia.
    - intros l Hl. rewrite P6 in Hl. apply seq_lt in Hl. apply E2. lia. }
  destruct (stable_tree t' st' s2 H) as [A B]. split; [now apply A | now rewrite B].
Qed.

(* footprints of the modelled edits *)
Lemma set_cell_same_on s x c : same_on (fun i => i <> x) (fun _ => True) s (set_cell s x c).
Proof. split; intros; cbn; [now apply nupd_other | reflexivity]. Qed.

Lemma with_attrs_footprint s x f : same_on (fun i => i <> x) (fun _ => True) s (with_attrs s x f).
Proof.
  unfold with_attrs. destruct (c_pay (nh s x)); [apply set_cell_same_on | split; reflexivity].
Qed.
Lemma set_attr_footprint s x k v : same_on (fun i => i <> x) (fun _ => True) s (set_attr s x k v).
Proof. apply with_attrs_footprint. Qed.
Lemma del_attr_footprint s x k : same_on (fun i => i <> x) (fun _ => True) s (del_attr s x k).
Proof. apply with_attrs_footprint. Qed.
Lemma set_name_footprint s x n : same_on (fun i => i <> x) (fun _ => True) s (set_name s x n).
Proof.
  unfold set_name. destruct (c_pay (nh s x)); [apply set_cell_same_on | split; reflexivity].
Qed.
Lemma list_update_footprint s l f : same_on (fun _ => True) (fun m => m <> l) s (list_update s l f).
Proof. split; intros; cbn; [reflexivity | now apply nupd_other]. Qed.
Lemma set_attr_list_footprint s x k cls items :
  same_on (fun i => i <> x) (fun m => m < ln s) s (set_attr_list s x k cls items).
Proof.
  unfold set_attr_list, alloc_list. split.
  - intros i Hi. rewrite (proj1 (set_attr_footprint _ x k _) i Hi). reflexivity.
  - intros m Hm. rewrite (proj2 (set_attr_footprint _ x k _) m I). cbn. apply nupd_other. lia.
Qed.
Lemma op_extract_footprint s x :
  same_on (fun i => i <> x /\ c_par (nh s x) <> Some i) (fun _ => True) s (cp_extract s x).
Proof.
  unfold cp_extract. destruct (c_par (nh s x)) as [p|] eqn:E; [|split; reflexivity].
  split; [|reflexivity]. intros i [H1 H2]. cbn. rewrite nupd_other by exact H1.
  apply nupd_other. intros ->. now apply H2.
Qed.
Lemma append_child_footprint s p d :
  same_on (fun i => i <> p /\ i <> d) (fun _ => True) s (append_child s p d).
Proof.
  split; [|reflexivity]. intros i [H1 H2]. unfold append_child. cbn.
  rewrite nupd_other by exact H1. now apply nupd_other.
Qed.
Lemma op_append_footprint s p c :
  same_on (fun i => i <> p /\ i <> c /\ c_par (nh s c) <> Some i) (fun _ => True) s (cp_append s p c).
Proof.
  unfold cp_append. eapply same_on_trans.
  - eapply same_on_weaken; [| |apply (op_extract_footprint s c)]; cbn; tauto.
  - eapply same_on_weaken; [| |apply append_child_footprint]; cbn; tauto.
Qed.
Lemma op_append_new_footprint s p pay :
  same_on (fun i => i <> p /\ i < nn s) (fun _ => True) s (cp_append_new s p pay).
Proof.
  unfold cp_append_new, alloc_node. eapply same_on_trans.
  2:{ eapply same_on_weaken; [| |apply append_child_footprint]; cbn.
      - intros i [H1 H2]. split; [exact H1 | lia].
      - tauto. }
  split; [|reflexivity]. intros i [_ Hi]. cbn. apply nupd_other. lia.
Qed.

(* within a represented tree a non-root element's parent is an element of the tree *)
Lemma reps_par_in s : forall t x, reps s t -> In x (pre t) ->
  x = rid t \/ exists p, c_par (nh s x) = Some p /\ In p (pre t).
Proof.
  induction t as [r ks IH] using tree_ind'. intros x Hr Hx. cbn [rid]. rewrite Forall_forall in IH.
  destruct Hx as [->|Hx]; [now left|]. right.
  apply reps_unfold in Hr. destruct Hr as (_ & _ & Ha). apply all_kids_Forall in Ha. rewrite Forall_forall in Ha.
  apply in_flat_map in Hx. destruct Hx as [k [Hk Hx]]. destruct (Ha k Hk) as [Hp Hrk].
  destruct (IH k Hk x Hrk Hx) as [->|[p [E Hin]]].
  - exists r. split; [exact Hp | cbn; now left].
  - exists p. split; [exact E|]. cbn. right. eapply in_pres; eauto.
Qed.




Lemma edit_footprint (Nd Ls : nat -> Prop) s e :
  targets_in Nd Ls e ->
  (forall x p, Nd x -> c_par (nh s x) = Some p -> Nd p) ->
  same_on (fun i => ~ Nd i /\ i < nn s) (fun l => ~ Ls l /\ l < ln s) s (apply_edit s e).
Proof.
  intros Ht Hpar. destruct e; cbn [apply_edit targets_in] in *.
  - eapply same_on_weaken; [| |apply set_attr_footprint]; cbn; [|tauto]. intros i [H _] ->. tauto.
  - eapply same_on_weaken; [| |apply del_attr_footprint]; cbn; [|tauto]. intros i [H _] ->. tauto.
  - eapply same_on_weaken; [| |apply set_name_footprint]; cbn; [|tauto]. intros i [H _] ->. tauto.
  - eapply same_on_weaken; [| |apply set_attr_list_footprint]; cbn; [|tauto]. intros i [H _] ->. tauto.
  - eapply same_on_weaken; [| |apply list_update_footprint]; cbn; [tauto|]. intros m [H _] ->. tauto.
  - eapply same_on_weaken; [| |apply op_extract_footprint]; cbn; [|tauto].
    intros i [H _]. split; [intros ->; tauto|]. intros E. apply H. eapply Hpar; eauto.
  - destruct Ht as [Hp Hc]. eapply same_on_weaken; [| |apply op_append_footprint]; cbn; [|tauto].
    intros i [H _]. split; [intros ->; tauto|]. split; [intros ->; tauto|]. intros E. apply H. eapply Hpar; eauto.
  - eapply same_on_weaken; [| |apply op_append_new_footprint]; cbn; [|tauto]. intros i [H Hi]. split; [intros ->; tauto | exact Hi].
Qed.

(* any single modelled edit applied inside the copy leaves every tree that existed before
   (the original included) exactly as it was *)
Theorem single_edit_of_copy fuel st t u st' t' e :
  wf st u -> copy_post fuel st t st' t' ->
  targets_in (fun i => In i (pre t')) (fun l => In l (lrefs st' t')) e ->
  reps (apply_edit st' e) u /\ content (apply_edit st' e) u = content st u.
Proof.
  intros Hu HP Ht. pose proof HP as (P1 & P2 & P3 & P4 & P5 & P6 & P7 & P8 & P9 & _).
  apply (edit_copy_leaves_old st u (apply_edit st' e) st' Hu P8 P9).
  eapply same_on_weaken; [| |apply (edit_footprint _ _ st' e Ht)].
  - cbn. intros i Hi. split; [|lia]. rewrite P4. intros H. apply seq_lt in H. lia.
  - cbn. intros l Hl. split; [|lia]. rewrite P6. intros H. apply seq_lt in H. lia.
  - intros x p Hx Hp. destruct (reps_par_in st' t' x P1 Hx) as [->|[q [E Hq]]].
    + rewrite P3 in Hp. discriminate.
    + rewrite E in Hp. inversion Hp; subst. exact Hq.
Qed.

(* and any single modelled edit applied to what existed before leaves the copy as it was *)
Theorem single_edit_of_original fuel st t st' t' e :
  closed_par st -> copy_post fuel st t st' t' ->
  targets_in (fun i => i < nn st) (fun l => l < ln st) e ->
  reps (apply_edit st' e) t' /\ content (apply_edit st' e) t' = content st t.
Proof.
  intros Hc HP Ht. pose proof HP as (P1 & P2 & P3 & P4 & P5 & P6 & P7 & P8 & P9 & _).
  apply (edit_old_leaves_copy fuel st t st' t' _ HP).
  eapply same_on_weaken; [| |apply (edit_footprint _ _ st' e Ht)].
  - cbn. intros i Hi. split; lia.
  - cbn. intros l Hl. split; lia.
  - intros x p Hx Hp. rewrite P8 in Hp by exact Hx. eapply Hc; eauto.
Qed.

(* ------------------------------------------------------------------------------------------ *)
(* equality                                                                                   *)
(* ------------------------------------------------------------------------------------------ *)
Lemma strs_eqb_eq a b : strs_eqb a b = true <-> a = b.
Proof.
  revert b. induction a as [|x a IH]; destruct b as [|y b]; cbn; split; try congruence; try discriminate.
  - intros H. apply andb_prop in H as [H1 H2]. apply str_eqb_eq in H1. apply IH in H2. congruence.
  - intros H. inversion H; subst. apply andb_true_intro. split; [now apply str_eqb_eq | now apply IH].
Qed.

(* the value up to Python's ==: a bool is the number 0 / 1; the class of a list does not count *)
Inductive canon := KS (s : str) | KL (items : list str) | KNum (z : Z) | KNone.
Definition vcanon (v : vval) : canon :=
  match v with
  | VS s => KS s
  | VL _ x => KL x
  | VB b => KNum (if b then 1 else 0)
  | VI z => KNum z
  | VN => KNone
  end.

Lemma vval_eqb_canon a b : vval_eqb a b = true <-> vcanon a = vcanon b.
Proof.
  destruct a, b; cbn; split; intros H; try discriminate; try reflexivity;
    try (apply str_eqb_eq in H; congruence); try (apply strs_eqb_eq in H; congruence);
    try (apply Z.eqb_eq in H; congruence);
    try (inversion H; subst; first [now apply str_eqb_eq | now apply strs_eqb_eq | now apply Z.eqb_eq]).
Qed.

Definition same_canon (a b : vattrs) : Prop :=
  forall k, option_map vcanon (vget k a) = option_map vcanon (vget k b).

Lemma same_map_canon a b : same_map a b <-> same_canon a b.
Proof.
  unfold same_map, same_canon, vopt_eq. split; intros H k; specialize (H k);
    destruct (vget k a), (vget k b); cbn in *; try tauto; try discriminate.
  - f_equal. now apply vval_eqb_canon.
  - apply vval_eqb_canon. congruence.
Qed.

Lemma vget_in k v a : vget k a = Some v -> In (k, v) a.
Proof.
  induction a as [|[k' v'] a IH]; cbn; [discriminate|]. destruct (str_eqb k k') eqn:E.
  - intros H. inversion H; subst. apply str_eqb_eq in E. subst. now left.
  - intros H. right. now apply IH.
Qed.
Lemma vget_none k a : vget k a = None <-> ~ In k (keys a).
Proof.
  induction a as [|[k' v'] a IH]; cbn; [tauto|]. destruct (str_eqb k k') eqn:E.
  - apply str_eqb_eq in E. subst. split; [discriminate | intros H; exfalso; apply H; now left].
  - rewrite IH. split.
    + intros H [H1|H1]; [|tauto]. subst. assert (str_eqb k k = true) by now apply str_eqb_eq. congruence.
    + tauto.
Qed.
Lemma in_vget k v a : NoDup (keys a) -> In (k, v) a -> vget k a = Some v.
Proof.
  induction a as [|[k' v'] a IH]; cbn; [tauto|]. intros Hnd [H|H].
  - inversion H; subst. assert (E : str_eqb k k = true) by now apply str_eqb_eq. now rewrite E.
  - inversion Hnd; subst. destruct (str_eqb k k') eqn:E.
    + apply str_eqb_eq in E. subst. exfalso. apply H2. change (In (fst (k', v)) (map fst a)). now apply in_map.
    + now apply IH.
Qed.
Lemma vget_some_key k v a : vget k a = Some v -> In k (keys a).
Proof. intros H. apply vget_in in H. change (In (fst (k, v)) (map fst a)). now apply in_map. Qed.

Lemma amap_eqb_iff a b : NoDup (keys a) -> NoDup (keys b) -> (amap_eqb a b = true <-> same_canon a b).
Proof.
  intros Ha Hb. unfold amap_eqb. rewrite andb_true_iff, Nat.eqb_eq, forallb_forall. split.
  - intros [Hlen Hall] k.
    assert (Hincl : incl (keys a) (keys b)).
    { intros k' Hk'. unfold keys in Hk'. apply in_map_iff in Hk'. destruct Hk' as [[k2 v2] [E Hin]]. cbn in E. subst k2.
      specialize (Hall _ Hin). cbn [fst snd] in Hall. destruct (vget k' b) eqn:E; [|discriminate].
      eapply vget_some_key; eauto. }
    destruct (vget k a) as [v|] eqn:E.
    + specialize (Hall _ (vget_in _ _ _ E)). cbn [fst snd] in Hall. destruct (vget k b); [|discriminate].
      cbn. f_equal. now apply vval_eqb_canon.
    + apply vget_none in E. assert (E' : ~ In k (keys b)).
      { intros Hk. apply E. refine (NoDup_length_incl Ha _ Hincl k Hk).
        unfold keys. rewrite !map_length. lia. }
      apply vget_none in E'. now rewrite E'.
  - intros H. split.
    + assert (I1 : incl (keys a) (keys b)).
      { intros k Hk. destruct (vget k b) eqn:E; [eapply vget_some_key; eauto|].
        specialize (H k). rewrite E in H. destruct (vget k a) eqn:E2; [discriminate|].
        apply vget_none in E2. contradiction. }
      assert (I2 : incl (keys b) (keys a)).
      { intros k Hk. destruct (vget k a) eqn:E; [eapply vget_some_key; eauto|].
        specialize (H k). rewrite E in H. destruct (vget k b) eqn:E2; [discriminate|].
        apply vget_none in E2. contradiction. }
      pose proof (NoDup_incl_length Ha I1). pose proof (NoDup_incl_length Hb I2).
      unfold keys in *. rewrite !map_length in *. lia.
    + intros [k v] Hin. cbn [fst snd]. specialize (H k). rewrite (in_vget k v a Ha Hin) in H.
      destruct (vget k b); [|discriminate]. cbn in H. apply vval_eqb_canon. congruence.
Qed.

(* regardless of order *)
Lemma amap_eqb_perm a b : Permutation a b -> NoDup (keys a) -> amap_eqb a b = true.
Proof.
  intros Hp Ha.
  assert (Hb : NoDup (keys b)) by (eapply Permutation_NoDup; [apply Permutation_map; exact Hp | exact Ha]).
  apply amap_eqb_iff; auto. intros k.
  destruct (vget k a) as [v|] eqn:E.
  - rewrite (in_vget k v b Hb); [reflexivity|]. eapply Permutation_in; eauto. now apply vget_in.
  - destruct (vget k b) as [v|] eqn:E2; [|reflexivity]. exfalso. apply vget_none in E. apply E.
    apply vget_in in E2. apply (Permutation_in _ (Permutation_sym Hp)) in E2.
    change (In (fst (k, v)) (map fst a)). now apply in_map.
Qed.


Lemma ceq_CT sp n aa se ks sp' m bb se' js :
  ceq (CT sp n aa se ks) (CT sp' m bb se' js) <-> n = m /\ same_map aa bb /\ Forall2 ceq ks js.
Proof.
  cbn [ceq].
  assert (E : forall l1 l2,
    (fix go (l1 l2 : list ctree) : Prop :=
       match l1, l2 with
       | [], [] => True
       | x :: r1, y :: r2 => ceq x y /\ go r1 r2
       | _, _ => False
       end) l1 l2 <-> Forall2 ceq l1 l2).
  { induction l1 as [|x l1 IH]; destruct l2 as [|y l2].
    - split; [constructor | tauto].
    - split; [tauto | intros H; inversion H].
    - split; [tauto | intros H; inversion H].
    - split.
      + intros [H1 H2]. constructor; [exact H1 | now apply IH].
      + intros H. inversion H; subst. split; [assumption | now apply IH]. }
  rewrite E. tauto.
Qed.

Lemma teq_CT sp n aa se ks sp' m bb se' js :
  teq (CT sp n aa se ks) (CT sp' m bb se' js) =
  str_eqb n m && amap_eqb aa bb && Nat.eqb (length ks) (length js) && teq_list ks js.
Proof.
  assert (E : forall l1 l2,
    (fix go (l1 l2 : list ctree) : bool :=
       match l1, l2 with
       | [], [] => true
       | x :: r1, y :: r2 => teq x y && go r1 r2
       | _, _ => false
       end) l1 l2 = teq_list l1 l2).
  { induction l1 as [|x l1 IH]; destruct l2 as [|y l2]; cbn [teq_list]; try reflexivity; now rewrite IH. }
  rewrite <- E. reflexivity.
Qed.

Lemma teq_list_Forall2 ks js :
  teq_list ks js = true <-> Forall2 (fun x y => teq x y = true) ks js.
Proof.
  revert js. induction ks as [|x ks IH]; destruct js as [|y js]; cbn [teq_list]; split; intros H;
    try constructor; try discriminate; try (now inversion H).
  - apply andb_prop in H. tauto.
  - apply IH. apply andb_prop in H. tauto.
  - inversion H; subst. apply andb_true_intro. split; [assumption | now apply IH].
Qed.

Lemma cwf_CT sp n aa se ks : cwf (CT sp n aa se ks) <-> NoDup (keys aa) /\ Forall cwf ks.
Proof.
  cbn [cwf].
  assert (E : forall l, (fix all (l : list ctree) : Prop := match l with [] => True | k :: l' => cwf k /\ all l' end) l
                        <-> Forall cwf l).
  { induction l as [|k l IH].
    - split; [constructor | tauto].
    - split.
      + intros [H1 H2]. constructor; [exact H1 | now apply IH].
      + intros H. inversion H; subst. split; [assumption | now apply IH]. }
  rewrite E. tauto.
Qed.

Lemma Forall2_length {X Y} (R : X -> Y -> Prop) l1 l2 : Forall2 R l1 l2 -> length l1 = length l2.
Proof. induction 1; cbn; congruence. Qed.

(* Tag.__eq__ decides exactly the structural relation *)
Theorem teq_iff_ceq : forall a b, cwf a -> cwf b -> (teq a b = true <-> ceq a b).
Proof.
  induction a as [sp n aa se ks IH | c s] using ctree_ind'; intros [sp' m bb se' js | c' s'] Ha Hb;
    try (cbn; split; [discriminate | tauto]).
  - apply cwf_CT in Ha. apply cwf_CT in Hb. destruct Ha as [Ha1 Ha2], Hb as [Hb1 Hb2].
    rewrite teq_CT, ceq_CT, !andb_true_iff, str_eqb_eq, (amap_eqb_iff aa bb Ha1 Hb1), same_map_canon,
      Nat.eqb_eq, teq_list_Forall2.
    assert (G : Forall2 (fun x y => teq x y = true) ks js <-> Forall2 ceq ks js).
    { clear Ha1 Hb1. revert js Hb2. induction ks as [|x ks IHk]; intros js Hjs; split; intros H;
        inversion H; subst; try constructor.
      - inversion IH; subst. inversion Ha2; subst. inversion Hjs; subst. now apply H3.
      - inversion IH; subst. inversion Ha2; subst. inversion Hjs; subst. apply (IHk H5 H7 l' H9). assumption.
      - inversion IH; subst. inversion Ha2; subst. inversion Hjs; subst. now apply H3.
      - inversion IH; subst. inversion Ha2; subst. inversion Hjs; subst. apply (IHk H5 H7 l' H9). assumption. }
    rewrite G. split.
    + tauto.
    + intros (A & B & C). repeat split; auto. eapply Forall2_length; eauto.
  - cbn. apply str_eqb_eq.
Qed.

(* the structural relation is an equivalence *)
Lemma same_canon_refl a : same_canon a a.
Proof. intros k. reflexivity. Qed.
Lemma same_canon_sym a b : same_canon a b -> same_canon b a.
Proof. intros H k. now rewrite H. Qed.
Lemma same_canon_trans a b c : same_canon a b -> same_canon b c -> same_canon a c.
Proof. intros H1 H2 k. now rewrite H1, H2. Qed.

Lemma ceq_refl : forall a, ceq a a.
Proof.
  induction a as [sp n aa se ks IH | c s] using ctree_ind'; [|reflexivity].
  apply ceq_CT. split; [reflexivity|]. split; [apply same_map_canon, same_canon_refl|].
  induction IH; constructor; auto.
Qed.

Lemma ceq_sym : forall a b, ceq a b -> ceq b a.
Proof.
  induction a as [sp n aa se ks IH | c s] using ctree_ind'; intros [sp' m bb se' js | c' s'] H;
    try (cbn in H; contradiction).
  - apply ceq_CT in H. destruct H as (H1 & H2 & H3). apply ceq_CT. split; [now symmetry|]. split.
    + apply same_map_canon, same_canon_sym, same_map_canon, H2.
    + revert js H3. induction IH as [|x ks Hx _ IHk]; intros js H3; inversion H3; subst; constructor; auto.
  - cbn in *. now symmetry.
Qed.

Lemma ceq_trans : forall a b c, ceq a b -> ceq b c -> ceq a c.
Proof.
  induction a as [sp n aa se ks IH | c0 s] using ctree_ind';
    intros [sp' m bb se' js | c' s'] [sp'' o cc se'' ls | c'' s''] H1 H2;
    try (cbn in H1; contradiction); try (cbn in H2; contradiction).
  - apply ceq_CT in H1. apply ceq_CT in H2. destruct H1 as (A1 & A2 & A3), H2 as (B1 & B2 & B3).
    apply ceq_CT. split; [congruence|]. split.
    + apply same_map_canon. eapply same_canon_trans; apply same_map_canon; eauto.
    + revert js ls A3 B3. induction IH as [|x ks Hx _ IHk]; intros js ls A3 B3;
        inversion A3; subst; inversion B3; subst; constructor; eauto.
  - cbn in *. congruence.
Qed.

Theorem teq_refl a : cwf a -> teq a a = true.
Proof. intros H. apply teq_iff_ceq; auto. apply ceq_refl. Qed.

Theorem teq_sym a b : cwf a -> cwf b -> teq a b = teq b a.
Proof.
  intros Ha Hb. destruct (teq a b) eqn:E1, (teq b a) eqn:E2; try reflexivity.
  - apply teq_iff_ceq in E1; auto. apply ceq_sym in E1. apply teq_iff_ceq in E1; auto. congruence.
  - apply teq_iff_ceq in E2; auto. apply ceq_sym in E2. apply teq_iff_ceq in E2; auto. congruence.
Qed.

Theorem teq_trans a b c : cwf a -> cwf b -> cwf c -> teq a b = true -> teq b c = true -> teq a c = true.
Proof.
  intros Ha Hb Hc H1 H2. apply teq_iff_ceq in H1; auto. apply teq_iff_ceq in H2; auto.
  apply teq_iff_ceq; auto. eapply ceq_trans; eauto.
Qed.

(* equal trees have the same number of elements: a tree never equals a proper part of itself
   (this is why the structural != in _event_stream decides identity there) *)
Lemma csize_CT sp n aa se ks : csize (CT sp n aa se ks) = S (list_sum (map csize ks)).
Proof. cbn [csize]. f_equal. induction ks as [|k ks IH]; cbn; [reflexivity | now rewrite IH]. Qed.

Theorem teq_size : forall a b, teq a b = true -> csize a = csize b.
Proof.
  induction a as [sp n aa se ks IH | c s] using ctree_ind'; intros [sp' m bb se' js | c' s'] H;
    try (cbn in H; discriminate); [|reflexivity].
  rewrite teq_CT in H. rewrite !andb_true_iff in H. destruct H as [_ H]. apply teq_list_Forall2 in H.
  rewrite !csize_CT. f_equal.
  revert js H. induction IH as [|x ks Hx _ IHk]; intros js H; inversion H; subst; [reflexivity|].
  change (csize x + list_sum (map csize ks) = csize y + list_sum (map csize l')).
  rewrite (Hx y) by assumption. now rewrite (IHk l').
Qed.

Lemma csize_pos a : 1 <= csize a.
Proof. destruct a; cbn; lia. Qed.

Theorem teq_proper_part sp n aa se ks k : In k ks -> teq k (CT sp n aa se ks) = false.
Proof.
  intros Hk. destruct (teq k (CT sp n aa se ks)) eqn:E; [|reflexivity].
  apply teq_size in E. rewrite csize_CT in E. exfalso.
  assert (csize k <= list_sum (map csize ks)).
  { clear E. induction ks as [|x ks IH]; [contradiction|].
    change (list_sum (map csize (x :: ks))) with (csize x + list_sum (map csize ks)).
    destruct Hk as [->|Hk]; [lia|]. specialize (IH Hk). lia. }
  lia.
Qed.

(* ---- contents of represented trees ---- *)
Definition dict_ok (st : cstate) (x : nat) : Prop := NoDup (map fst (attrs_of st x)).

Lemma content_cwf st : forall t, (forall x, In x (pre t) -> dict_ok st x) -> cwf (content st t).
Proof.
  induction t as [x ks IH] using tree_ind'. intros H. rewrite Forall_forall in IH.
  cbn [content]. pose proof (H x (or_introl eq_refl)) as Hx. unfold dict_ok, attrs_of in Hx.
  destruct (c_pay (nh st x)) as [d|c s]; [|exact I].
  apply cwf_CT. split.
  - unfold keys, vattrs_of. rewrite map_map. exact Hx.
  - apply Forall_forall. intros c Hc. apply in_map_iff in Hc. destruct Hc as [k [<- Hk]].
    apply IH; [exact Hk|]. intros y Hy. apply H. cbn. right. eapply in_pres; eauto.
Qed.

(* "wherever they live": the content, hence equality, does not read .parent at all, nor
   anything outside the tree *)
Lemma content_payloads st st' : forall t,
  (forall x, In x (pre t) -> c_pay (nh st' x) = c_pay (nh st x)) ->
  (forall l, In l (lrefs st t) -> lh st' l = lh st l) ->
  content st' t = content st t.
Proof.
  induction t as [x ks IH] using tree_ind'. intros Hp Hl. rewrite Forall_forall in IH.
  cbn [content]. rewrite (Hp x (or_introl eq_refl)).
  destruct (c_pay (nh st x)) as [d|c s] eqn:E; [|reflexivity]. f_equal.
  - apply refs_of_vattrs. intros l Hl'. apply Hl. rewrite lrefs_Node. apply in_or_app. left.
    unfold attrs_of. now rewrite E.
  - apply map_ext_in. intros k Hk. apply IH; [exact Hk| |].
    + intros y Hy. apply Hp. cbn. right. eapply in_pres; eauto.
    + intros l Hl'. apply Hl. rewrite lrefs_Node. apply in_or_app. right. apply in_flat_map. eauto.
Qed.

(* ---- the comparison as the code performs it (identity shortcut, length test, pairwise loop over
   .contents) computes the structural equality of the contents ---- *)
Lemma cval_eqb_vval s v v' : cval_eqb s v v' = vval_eqb (vval_of s v) (vval_of s v').
Proof. destruct v, v'; cbn; try reflexivity. now destruct b, b0. Qed.

Lemma dget_vget s k a : vget k (vattrs_of s a) = option_map (vval_of s) (dget k a).
Proof.
  induction a as [|[k' v] a IH]; [reflexivity|]. unfold vattrs_of in *. cbn [map fst snd vget dget].
  destruct (str_eqb k k'); [reflexivity | exact IH].
Qed.

Lemma attrs_eqb_amap s a b : attrs_eqb s a b = amap_eqb (vattrs_of s a) (vattrs_of s b).
Proof.
  unfold attrs_eqb, amap_eqb. f_equal.
  - unfold vattrs_of. now rewrite !map_length.
  - induction a as [|[k v] a IH]; [reflexivity|].
    change (vattrs_of s ((k, v) :: a)) with ((k, vval_of s v) :: vattrs_of s a).
    cbn [forallb fst snd]. rewrite IH. f_equal.
    rewrite dget_vget. destruct (dget k b); cbn; [apply cval_eqb_vval | reflexivity].
Qed.

Lemma reps_functional s : forall t u, reps s t -> reps s u -> rid t = rid u -> t = u.
Proof.
  induction t as [x ks IH] using tree_ind'. intros [y js] Ht Hu E. cbn [rid] in E. subst y.
  apply reps_unfold in Ht. apply reps_unfold in Hu. destruct Ht as (K1 & _ & A1), Hu as (K2 & _ & A2).
  f_equal. rewrite K1 in K2. clear K1.
  apply all_kids_Forall in A1. apply all_kids_Forall in A2.
  revert js K2 A2. induction IH as [|k ks Hk _ IHk]; intros js K2 A2; destruct js as [|j js]; try discriminate; [reflexivity|].
  cbn [map] in K2. inversion K2. inversion A1; subst. inversion A2; subst. f_equal.
  - apply Hk; tauto.
  - apply IHk; auto.
Qed.

Lemma forallb2_map {X Y} (f : Y -> Y -> bool) (g : X -> Y) l1 l2 :
  forallb2 f (map g l1) (map g l2) = forallb2 (fun a b => f (g a) (g b)) l1 l2.
Proof.
  revert l2. induction l1 as [|a l1 IH]; destruct l2 as [|b l2]; cbn; try reflexivity. now rewrite IH.
Qed.

Theorem eq_h_content s : forall t u fuel,
  reps s t -> reps s u -> (forall x, In x (pre t) -> dict_ok s x) -> height t <= fuel ->
  eq_h fuel s (rid t) (rid u) = teq (content s t) (content s u).
Proof.
  induction t as [x ks IH] using tree_ind'. intros [y js] fuel Ht Hu Hd Hf.
  destruct fuel as [|f]; [cbn in Hf; lia|]. cbn [rid eq_h].
  destruct (Nat.eqb x y) eqn:Exy.
  - apply Nat.eqb_eq in Exy. subst y.
    rewrite <- (reps_functional s _ _ Ht Hu eq_refl). symmetry. apply teq_refl. now apply content_cwf.
  - pose proof Ht as Ht0. pose proof Hu as Hu0.
    apply reps_unfold in Ht. apply reps_unfold in Hu. destruct Ht as (K1 & _ & A1), Hu as (K2 & _ & A2).
    apply all_kids_Forall in A1. apply all_kids_Forall in A2.
    cbn [content]. destruct (c_pay (nh s x)) as [a|c1 s1], (c_pay (nh s y)) as [b|c2 s2]; try reflexivity.
    rewrite teq_CT, attrs_eqb_amap, K1, K2, !map_length. f_equal.
    rewrite forallb2_map. cbn [height] in Hf. apply le_S_n in Hf.
    assert (Hh : forall k, In k ks -> height k <= f) by (intros k Hk; pose proof (height_kid k ks Hk); lia).
    assert (Hd' : forall k, In k ks -> forall z, In z (pre k) -> dict_ok s z).
    { intros k Hk z Hz. apply Hd. cbn. right. eapply in_pres; eauto. }
    clear K1 K2 Hf Hd Ht0 Hu0 Exy.
    revert js A2. induction IH as [|k ks Hk _ IHk]; intros js A2; destruct js as [|j js]; cbn [forallb2 map teq_list]; try reflexivity.
    inversion A1; subst. inversion A2; subst. f_equal.
    + apply Hk; try tauto; [apply Hd' | apply Hh]; now left.
    + apply IHk; auto.
      * intros k' Hk'. apply Hh. now right.
      * intros k' Hk'. apply Hd'. now right.
Qed.

(* ---- a copy is equal to its original and renders / hashes like it ---- *)
Theorem copy_equal fuel st t st' t' :
  copy_post fuel st t st' t' -> (forall x, In x (pre t) -> dict_ok st x) ->
  teq (content st' t') (content st t) = true /\ teq (content st t) (content st' t') = true.
Proof.
  intros (_ & P2 & _) Hd. rewrite P2. split; apply teq_refl; now apply content_cwf.
Qed.

(* _is_xml of a copied tag is what it was for its original, wherever the original lived *)
Theorem copy_is_xml fuel st t st' t' f d :
  copy_post fuel st t st' t' -> c_pay (nh st (rid t)) = PTag d -> t_soup d = false ->
  is_xml (S f) st' (rid t') = is_xml fuel st (rid t).
Proof.
  intros (P1 & P2 & P3 & P4 & _ & _ & _ & _ & _ & P10) Ed Es.
  destruct t as [x ks], t' as [x' ks']. cbn [pre map rid] in *.
  pose proof (f_equal (hd None) P10) as E. cbn [hd] in E. clear P10.
  unfold kxml_of, kxml_clone in E. rewrite Ed, Es in E. cbn [is_xml]. rewrite P3.
  destruct (c_pay (nh st' x')) as [d'|]; [|destruct (is_xml fuel st x); [discriminate | reflexivity]].
  rewrite E. now destruct (is_xml fuel st x).
Qed.

(* str(x) and hash(x) are functions of the content and of is_xml: whatever they are, the copy
   agrees with the original *)
Theorem copy_same_function_of_content {X} (render : ctree -> X) fuel st t st' t' :
  copy_post fuel st t st' t' -> render (content st' t') = render (content st t).
Proof. intros (_ & P2 & _). now rewrite P2. Qed.

(* ---- pickling a document ---- *)
Theorem unpickle_is_reparse {B O M T T'} (render : T -> M) (feed : B -> O -> M -> T') (d : document B O T) :
  setstate feed (getstate render d) =
  mkdoc (d_builder d) (d_other d) (feed (d_builder d) (d_other d) (render (d_tree d))).
Proof. reflexivity. Qed.

(* ------------------------------------------------------------------------------------------ *)
(* the hypotheses are satisfiable: <a class="x y" n=None>t<br/></a> inside a document         *)
(* ------------------------------------------------------------------------------------------ *)
Definition ex_set (cbe : option bool) (hidden : bool) : tset :=
  mkset 0%N None None (Some 1%Z) (Some 0%Z) cbe 1%N 2%N 3%N 0%N hidden 0%N.
Definition ex_state : cstate :=
  let cells :=
    [ mkccell None [1] (PTag (mktag true [91;100;93]%N [] (Some false) (ex_set (Some false) true)));
      mkccell (Some 0) [2; 3] (PTag (mktag false [97]%N [([99]%N, CRef 0); ([110]%N, CNone)] None (ex_set (Some false) false)));
      mkccell (Some 1) [] (PStr 0%N [116]%N);
      mkccell (Some 1) [] (PTag (mktag false [98;114]%N [] None (ex_set (Some true) false))) ] in
  mkst (fun i => nth i cells (mkccell None [] (PStr 0%N []))) 4
       (fun l => nth l [(0%N, [[120]%N; [121]%N])] (0%N, [])) 1.
Definition ex_tree : tree := Node 1 [Node 2 []; Node 3 []].

Lemma NoDup_dec_b (l : list nat) :
  (fix nd (l : list nat) : bool := match l with [] => true | x :: r => negb (existsb (Nat.eqb x) r) && nd r end) l = true ->
  NoDup l.
Proof.
  induction l as [|x l IH]; intros H; [constructor|]. apply andb_prop in H. destruct H as [H1 H2].
  constructor; [|now apply IH]. intros Hin. apply negb_true_iff in H1.
  assert (existsb (Nat.eqb x) l = true) by (apply existsb_exists; exists x; split; [exact Hin | apply Nat.eqb_refl]).
  congruence.
Qed.

Lemma example_hypotheses :
  wf ex_state ex_tree /\ closed_par ex_state /\ (forall x, In x (pre ex_tree) -> soup_ok ex_state x) /\
  (forall x, In x (pre ex_tree) -> dict_ok ex_state x) /\
  exists st' y, deepcopy 4 ex_state 1 = Some (st', y) /\ y = 4 /\ nn st' = 7 /\ ln st' = 2 /\
                c_par (nh st' 4) = None /\ c_kids (nh st' 4) = [5; 6] /\
                attrs_of st' 4 = [([99]%N, CRef 1); ([110]%N, CNone)] /\ lh st' 1 = lh ex_state 0.
Proof.
  split; [|split; [|split; [|split]]].
  - split; [|split; [|split]].
    + cbn. repeat split; auto.
    + apply NoDup_dec_b. reflexivity.
    + intros x Hx. cbn in Hx. cbn. lia.
    + intros l Hl. cbn in Hl. cbn. lia.
  - intros i p Hi Hp. cbn in Hi. do 4 (destruct i as [|i]; [cbn in Hp; inversion Hp; cbn; lia|]). lia.
  - intros x Hx. cbn in Hx. destruct Hx as [<-|[<-|[<-|[]]]]; cbn; auto; discriminate.
  - intros x Hx. cbn in Hx. unfold dict_ok.
    destruct Hx as [<-|[<-|[<-|[]]]]; cbn; repeat constructor; cbn; intuition discriminate.
  - eexists. eexists. split; [vm_compute; reflexivity|]. repeat split.
Qed.
