(* C01 / C02 — groundwork for Proofs/EditRep.v:
     1. the ancestor relation [anc] read off the parent pointers, and what it means in a represented tree
     2. insert1_move_rep: the GENERAL Tag._insert (the new child currently sits anywhere in the forest) *)
From Coq Require Import List Arith Bool Lia Permutation.
From BS Require Import Model.EditOps Base.Sexp Model.Heap Spec.Tree Proofs.HeapBasics Proofs.Views Proofs.ExtractRep
  Proofs.InsertRep Proofs.EditFrames.
Import ListNotations.

(* ------------------------------------------------------------------------------------------ *)
(* 1. ancestors                                                                               *)
(* ------------------------------------------------------------------------------------------ *)

(* [anc h a x]: a is x or an ancestor of x (a is met when chasing .parent from x) *)
Inductive anc (h : heap) (a : nat) : nat -> Prop :=
| anc_refl : anc h a a
| anc_step x p : par (h x) = Some p -> anc h a p -> anc h a x.

Lemma anc_trans h a b c : anc h a b -> anc h b c -> anc h a c.
Proof. intros Hab Hbc. induction Hbc as [|x p P H IH]; [exact Hab | eapply anc_step; eauto]. Qed.

Lemma anc_up h c y x : anc h c y -> par (h c) = Some x -> anc h x y.
Proof.
  intros H P. induction H as [|y p Py H IH].
  - eapply anc_step; [exact P | constructor].
  - eapply anc_step; eauto.
Qed.

(* cutting parent links only removes ancestors *)
Lemma anc_cut h h' a x :
  (forall y p, par (h' y) = Some p -> par (h y) = Some p) -> anc h' a x -> anc h a x.
Proof. intros Fr H. induction H as [|x p P H IH]; [constructor | eapply anc_step; eauto]. Qed.

(* re-parenting c does not change the ancestors of an x that c is not an ancestor of *)
Lemma anc_move h h' c a x :
  (forall y, y <> c -> par (h' y) = par (h y)) -> ~ anc h c x -> anc h' a x -> anc h a x.
Proof.
  intros Fr N H. induction H as [|x p P H IH]; [constructor|].
  assert (Hx : x <> c) by (intros ->; apply N; constructor).
  rewrite Fr in P by exact Hx. eapply anc_step; [exact P|]. apply IH.
  intros Hc. apply N. eapply anc_step; eauto.
Qed.

Lemma anc_same h h' a x : (forall y, par (h' y) = par (h y)) -> anc h' a x -> anc h a x.
Proof. intros Fr. apply anc_cut. intros y p. now rewrite Fr. Qed.

(* executable version *)
Lemma is_anc_b_mono h a : forall f f' x, f <= f' -> is_anc_b f h a x = true -> is_anc_b f' h a x = true.
Proof.
  induction f as [|f IH]; intros f' x L H; [discriminate|]. destruct f' as [|f']; [lia|].
  cbn [is_anc_b] in *. apply orb_true_iff in H. apply orb_true_iff. destruct H as [H|H]; [left; exact H|right].
  destruct (par (h x)); [|discriminate]. apply IH; [lia|exact H].
Qed.

Lemma is_anc_b_sound h a : forall f x, is_anc_b f h a x = true -> anc h a x.
Proof.
  induction f as [|f IH]; intros x H; [discriminate|]. cbn [is_anc_b] in H. apply orb_true_iff in H.
  destruct H as [H|H]; [apply Nat.eqb_eq in H; subst; constructor|].
  destruct (par (h x)) as [p|] eqn:P; [|discriminate]. eapply anc_step; eauto.
Qed.

(* ---- trees ---- *)

Lemma in_pre_subterm : forall T x, In x (pre T) -> exists u, In u (subterms T) /\ rid u = x.
Proof.
  induction T as [i ks IH] using tree_ind'. intros x Hx. rewrite Forall_forall in IH.
  cbn [pre] in Hx. destruct Hx as [<-|Hx].
  - exists (Node i ks). split; [apply subterms_self | reflexivity].
  - apply in_flat_map in Hx. destruct Hx as (k & Hk & Hx). destruct (IH k Hk x Hx) as (u & Hu & E).
    exists u. split; [|exact E]. apply (in_subterms_kid u k (Node i ks)); [exact Hk | exact Hu].
Qed.

Lemma in_pre_cases : forall T x, In x (pre T) ->
  x = rid T \/ exists u c, In u (subterms T) /\ In c (tkids u) /\ rid c = x.
Proof.
  induction T as [i ks IH] using tree_ind'. intros x Hx. rewrite Forall_forall in IH.
  cbn [pre] in Hx. destruct Hx as [<-|Hx]; [left; reflexivity|]. right.
  apply in_flat_map in Hx. destruct Hx as (k & Hk & Hx).
  destruct (IH k Hk x Hx) as [->|(u & c & Hu & Hc & E)].
  - exists (Node i ks), k. split; [apply subterms_self|]. split; [exact Hk | reflexivity].
  - exists u, c. split; [|split; assumption]. apply (in_subterms_kid u k (Node i ks)); [exact Hk | exact Hu].
Qed.

Lemma pre_kid_length k ks : In k ks -> length (pre k) <= length (pres ks).
Proof.
  intros Hk. apply in_split in Hk. destruct Hk as (l1 & l2 & ->).
  rewrite InsertRep.pres_app, InsertRep.pres_cons, !app_length. lia.
Qed.

Section Nodes.
  Variable h : heap.
  Variable T : tree.
  Hypothesis Hok : forall t, In t (subterms T) -> node_ok h t.
  Hypothesis Hr : par (h (rid T)) = None.

  Lemma par_closed x p : In x (pre T) -> par (h x) = Some p ->
    exists u, In u (subterms T) /\ rid u = p /\ In x (map rid (tkids u)).
  Proof.
    intros Hx Hp. destruct (in_pre_cases T x Hx) as [->|(u & c & Hu & Hc & E)]; [congruence|].
    destruct (Hok u Hu) as (_ & _ & Hpar & _). specialize (Hpar c Hc). rewrite E in Hpar.
    exists u. split; [exact Hu|]. split; [congruence|]. rewrite <- E. now apply in_map.
  Qed.

  Lemma par_none_root x : In x (pre T) -> par (h x) = None -> x = rid T.
  Proof.
    intros Hx Hp. destruct (in_pre_cases T x Hx) as [->|(u & c & Hu & Hc & E)]; [reflexivity|].
    destruct (Hok u Hu) as (_ & _ & Hpar & _). specialize (Hpar c Hc). rewrite E in Hpar. congruence.
  Qed.

  Lemma anc_closed a x : anc h a x -> In x (pre T) -> In a (pre T).
  Proof.
    intros H. induction H as [|x p P H IH]; intros Hx; [exact Hx|]. apply IH.
    destruct (par_closed x p Hx P) as (u & Hu & Eu & _). rewrite <- Eu. now apply subterms_rid_in.
  Qed.

  Lemma anc_pre_sub s : In s (subterms T) -> forall y, anc h (rid s) y -> In y (pre T) -> In y (pre s).
  Proof.
    intros Hs y H. induction H as [|y p P H IH]; intros Hy; [apply InsertRep.rid_in_pre|].
    destruct (par_closed y p Hy P) as (u & Hu & Eu & Hyu).
    assert (Hp : In p (pre T)) by (rewrite <- Eu; now apply subterms_rid_in).
    specialize (IH Hp). destruct (in_pre_subterm s p IH) as (u' & Hu' & Eu').
    assert (Hu'T : In u' (subterms T)) by (apply (InsertRep.subterms_trans T s u'); assumption).
    destruct (Hok u Hu) as (K1 & _). destruct (Hok u' Hu'T) as (K2 & _). rewrite Eu in K1. rewrite Eu' in K2.
    assert (E : map rid (tkids u) = map rid (tkids u')) by congruence. rewrite E in Hyu.
    apply (subterms_pre_incl s u' Hu'). rewrite pre_rid. right. now apply map_rid_incl_pres.
  Qed.
End Nodes.

Lemma pre_sub_anc h : forall s, (forall t, In t (subterms s) -> node_ok h t) ->
  forall x, In x (pre s) -> anc h (rid s) x.
Proof.
  induction s as [i ks IH] using tree_ind'. intros Hok x Hx. rewrite Forall_forall in IH. cbn [rid].
  cbn [pre] in Hx. destruct Hx as [<-|Hx]; [constructor|].
  apply in_flat_map in Hx. destruct Hx as (k & Hk & Hx).
  apply (anc_trans h i (rid k) x).
  - eapply anc_step; [|constructor].
    destruct (Hok (Node i ks) (subterms_self _)) as (_ & _ & Hpar & _). exact (Hpar k Hk).
  - apply IH; [exact Hk| |exact Hx]. intros t Ht. apply Hok.
    apply (in_subterms_kid t k (Node i ks)); [exact Hk | exact Ht].
Qed.

Lemma pre_sub_anc_b h : forall s, (forall t, In t (subterms s) -> node_ok h t) ->
  forall a f, is_anc_b f h a (rid s) = true ->
  forall x, In x (pre s) -> is_anc_b (f + length (pre s)) h a x = true.
Proof.
  induction s as [i ks IH] using tree_ind'. intros Hok a f Hf x Hx. rewrite Forall_forall in IH.
  cbn [rid] in Hf. cbn [pre] in Hx. destruct Hx as [<-|Hx].
  - eapply is_anc_b_mono; [|exact Hf]. lia.
  - apply in_flat_map in Hx. destruct Hx as (k & Hk & Hx).
    assert (Hk1 : is_anc_b (S f) h a (rid k) = true).
    { cbn [is_anc_b]. destruct (Hok _ (subterms_self _)) as (_ & _ & Hpar & _). rewrite (Hpar k Hk).
      cbn [rid]. rewrite Hf. apply orb_true_r. }
    assert (Hokk : forall t, In t (subterms k) -> node_ok h t).
    { intros t Ht. apply Hok. apply (in_subterms_kid t k (Node i ks)); [exact Hk | exact Ht]. }
    eapply is_anc_b_mono; [|apply (IH k Hk Hokk a (S f) Hk1 x Hx)].
    pose proof (pre_kid_length k ks Hk). cbn [pre length]. fold (pres ks). lia.
Qed.

(* with enough fuel the executable test finds every ancestor *)
Lemma is_anc_b_complete h T b fuel a x :
  rep1 h T b -> In x (pre T) -> length (pre T) < fuel -> anc h a x -> is_anc_b fuel h a x = true.
Proof.
  intros (Hok & Hr & _) Hx Hf H.
  pose proof (anc_closed h T Hok Hr a x H Hx) as Ha.
  destruct (in_pre_subterm T a Ha) as (s & Hs & <-).
  pose proof (anc_pre_sub h T Hok Hr s Hs x H Hx) as Hxs.
  assert (Hoks : forall t, In t (subterms s) -> node_ok h t).
  { intros t Ht. apply Hok. apply (InsertRep.subterms_trans T s t); assumption. }
  assert (H1 : is_anc_b 1 h (rid s) (rid s) = true) by (cbn; now rewrite Nat.eqb_refl).
  eapply is_anc_b_mono; [|apply (pre_sub_anc_b h s Hoks (rid s) 1 H1 x Hxs)].
  pose proof (subterm_length s T Hs). lia.
Qed.

(* ---- forests ---- *)

Lemma fids_cons T b F : fids ((T, b) :: F) = pre T ++ fids F.
Proof. reflexivity. Qed.

Lemma in_fids F x : In x (fids F) <-> exists T b, In (T, b) F /\ In x (pre T).
Proof.
  unfold fids. rewrite in_flat_map. split.
  - intros ([T b] & H1 & H2). exists T, b. auto.
  - intros (T & b & H1 & H2). exists (T, b). auto.
Qed.

Lemma fids_perm F F' : Permutation F F' -> Permutation (fids F) (fids F').
Proof. intros H. unfold fids. now apply Permutation_flat_map. Qed.

Lemma forest_split F x : In x (fids F) -> exists T b F1, Permutation F ((T, b) :: F1) /\ In x (pre T).
Proof.
  intros H. apply in_fids in H. destruct H as (T & b & HT & Hx).
  apply in_split in HT. destruct HT as (l1 & l2 & ->).
  exists T, b, (l1 ++ l2). split; [|exact Hx]. symmetry. apply Permutation_middle.
Qed.

Lemma rep_in F h T b : rep F h -> In (T, b) F -> rep1 h T b.
Proof. intros [_ HF] HT. rewrite Forall_forall in HF. exact (HF _ HT). Qed.

Lemma rep_head F h T b : rep ((T, b) :: F) h -> rep1 h T b.
Proof. intros R. apply (rep_in _ _ _ _ R). now left. Qed.

Lemma fids_tree_le F T b : In (T, b) F -> length (pre T) <= length (fids F).
Proof.
  intros HT. apply in_split in HT. destruct HT as (l1 & l2 & ->).
  unfold fids. rewrite flat_map_app. cbn [flat_map fst]. rewrite !app_length. lia.
Qed.

(* a childless root may be seen as linked or not *)
Lemma rep1_leaf_flag h T b b' : tkids T = [] -> rep1 h T b -> rep1 h T b'.
Proof.
  intros E (Hok & Hp & Hps & Hns & Hc). unfold rep1. repeat (split; [assumption|]).
  assert (Epre : pre T = [rid T]) by (rewrite pre_rid, E; reflexivity).
  assert (Hnp : ne (h (rid T)) = None /\ pe (h (rid T)) = None).
  { destruct b.
    - rewrite Epre in Hc. destruct (Hc 0 (rid T) eq_refl) as [H1 H2]. split; [exact H1 | exact H2].
    - tauto. }
  destruct Hnp as [Hn Hpe]. rewrite Epre. destruct b'.
  - intros i x Hx. destruct i as [|i]; [|destruct i; discriminate]. cbn in Hx. inversion Hx; subst x.
    split; [exact Hn | exact Hpe].
  - cbn [tl]. split; [|split; assumption]. intros i x Hx. destruct i; discriminate.
Qed.

Lemma rep_reflag F h T b b' : tkids T = [] -> rep ((T, b) :: F) h -> rep ((T, b') :: F) h.
Proof.
  intros E [ND HF]. split; [exact ND|]. inversion HF as [|? ? H1 H2]; subst. constructor; [|exact H2].
  cbn [fst snd] in *. eapply rep1_leaf_flag; eauto.
Qed.

Lemma ctx_subterm p p' T T' : ctx p p' T T' -> In p (subterms T).
Proof.
  induction 1 as [|i L1 k k' L2 Hc IH]; [apply subterms_self|].
  apply (in_subterms_kid p k (Node i (L1 ++ k :: L2))); [cbn [tkids]; apply in_elt | exact IH].
Qed.

Lemma remove_subterm x T T' s : rid T <> x -> remove x T = (T', Some s) -> In s (subterms T).
Proof.
  intros Hr E. destruct (remove_ctx x T T' s Hr E) as (_ & pi & K1 & K2 & Hc). apply ctx_subterm in Hc.
  apply (InsertRep.subterms_trans T (Node pi (K1 ++ s :: K2)) s); [exact Hc|].
  apply (in_subterms_kid s s (Node pi (K1 ++ s :: K2))); [cbn [tkids]; apply in_elt | apply subterms_self].
Qed.

(* the parent of the removed subtree stays in the tree *)
Lemma remove_parent h x T T' s b p :
  rep1 h T b -> rid T <> x -> remove x T = (T', Some s) -> par (h x) = Some p -> In p (pre T').
Proof.
  intros R1 Hr E P. destruct (remove_shal x T T' s Hr E) as (_ & _ & S1 & S2 & pi & K1 & K2 & ET & ET').
  apply rep1_shal in R1. destruct R1 as (HN & _).
  assert (Hin : In (pi, map rid K1 ++ x :: map rid K2) (shal T)) by (rewrite ET; apply in_elt).
  destruct (HN _ Hin) as (_ & _ & Hpar & _). cbn [fst snd] in Hpar.
  assert (Hpi : par (h x) = Some pi) by (apply Hpar; apply in_elt).
  assert (pi = p) by congruence. subst pi.
  rewrite <- shal_fst, ET'. rewrite map_app. apply in_or_app. right. now left.
Qed.

(* extract() of an element that has a parent, anywhere in the forest *)
Lemma inner_extract F h x p fuel :
  rep F h -> In x (fids F) -> par (h x) = Some p -> length (fids F) <= fuel ->
  exists T b F1 T' s, Permutation F ((T, b) :: F1) /\ rid T <> x /\ remove x T = (T', Some s) /\ rid s = x /\
     In s (subterms T) /\ rep ((T', b) :: (s, true) :: F1) (extract fuel h x) /\ In p (pre T').
Proof.
  intros R Hx Hp Hf. destruct (forest_split F x Hx) as (T & b & F1 & HP & HxT).
  pose proof (rep_perm _ _ _ HP R) as R'. pose proof (rep_head _ _ _ _ R') as R1.
  assert (Hr : rid T <> x) by (intros E; destruct R1 as (_ & Hr & _); congruence).
  destruct (remove_found x T HxT (not_eq_sym Hr)) as (T' & s & E & Es).
  exists T, b, F1, T', s. repeat (split; [assumption|]). split; [eapply remove_subterm; eauto|].
  split; [|eapply remove_parent; eauto].
  apply (extract_rep F1 T b h x T' s fuel R' Hr E).
  pose proof (Permutation_length (fids_perm _ _ HP)) as HL. rewrite fids_cons, app_length in HL. lia.
Qed.

(* ------------------------------------------------------------------------------------------ *)
(* 2. the general _insert                                                                     *)
(* ------------------------------------------------------------------------------------------ *)

(* nc is not a root that stands outside its own element chain (such roots are BeautifulSoup objects,
   which _insert replaces by their children) *)
Definition unlinked_ok (F : forest) (nc : nat) : Prop :=
  forall T, In (T, false) F -> rid T = nc -> tkids T = [].

(* no new unlinked root appears *)
Definition flags_from (F F' : forest) : Prop :=
  forall T', In (T', false) F' -> exists T, In (T, false) F /\ rid T = rid T'.

(* F0 is F without the subtree s rooted at nc *)
Definition detached (F : forest) (nc : nat) (s : tree) (F0 : forest) : Prop :=
  (exists b, Permutation F ((s, b) :: F0) /\ (b = true \/ tkids s = [])) \/
  (exists T b T' F1, Permutation F ((T, b) :: F1) /\ rid T <> nc /\ remove nc T = (T', Some s) /\
                     F0 = (T', b) :: F1).

(* F' is F with the subtree rooted at nc moved to child number pos of self *)
Definition moved (F F' : forest) (self nc pos : nat) : Prop :=
  exists s F0 Tp bp F2, rid s = nc /\ detached F nc s F0 /\ Permutation F0 ((Tp, bp) :: F2) /\
    In self (pre Tp) /\
    F' = (insert_sub self pos s Tp, bp || (Nat.eqb self (rid Tp) && Nat.eqb pos 0)) :: F2.

Lemma detached_perm F nc s F0 : detached F nc s F0 -> rid s = nc -> Permutation (fids F) (pre s ++ fids F0).
Proof.
  intros [(b & HP & _)|(T & b & T' & F1 & HP & Hr & E & ->)] Hs.
  - exact (fids_perm _ _ HP).
  - destruct (remove_pre nc T T' s Hr E) as (_ & _ & A & B & E1 & E2).
    eapply perm_trans; [exact (fids_perm _ _ HP)|]. rewrite !fids_cons, E1, E2.
    rewrite <- !app_assoc. rewrite (app_assoc A). rewrite (app_assoc (pre s)).
    apply Permutation_app_tail. apply Permutation_app_comm.
Qed.

Lemma moved_perm F F' self nc pos : NoDup (fids F) -> moved F F' self nc pos -> Permutation (fids F') (fids F).
Proof.
  intros ND (s & F0 & Tp & bp & F2 & Hs & HD & HP & Hself & ->).
  pose proof (detached_perm _ _ _ _ HD Hs) as P1.
  pose proof (fids_perm _ _ HP) as P2. rewrite fids_cons in P2.
  assert (NDp : NoDup (pre Tp)).
  { eapply Permutation_NoDup in ND; [|exact P1]. apply NoDup_app_r in ND.
    eapply Permutation_NoDup in ND; [|exact P2]. now apply NoDup_app_l in ND. }
  destruct (insert_sub_pre self pos s Tp Hself NDp) as (A & B & E1 & E2).
  symmetry. eapply perm_trans; [exact P1|]. rewrite fids_cons, E2.
  eapply perm_trans; [apply Permutation_app_head; exact P2|]. rewrite E1.
  rewrite <- !app_assoc. rewrite (app_assoc (pre s)). rewrite (app_assoc A (pre s)).
  rewrite (app_assoc (A ++ pre s)). rewrite (app_assoc (pre s ++ A)).
  apply Permutation_app_tail. apply Permutation_app_tail. apply Permutation_app_comm.
Qed.

Lemma detached_flags F nc s F0 : detached F nc s F0 -> flags_from F F0.
Proof.
  intros [(b & HP & _)|(T & b & T' & F1 & HP & Hr & E & ->)] T0 HT0.
  - exists T0. split; [|reflexivity]. eapply Permutation_in; [symmetry; exact HP|]. now right.
  - destruct HT0 as [HT0|HT0].
    + inversion HT0; subst. exists T. split.
      * eapply Permutation_in; [symmetry; exact HP|]. now left.
      * destruct (remove_pre nc T T0 s Hr E) as (_ & H & _). now symmetry.
    + exists T0. split; [|reflexivity]. eapply Permutation_in; [symmetry; exact HP|]. now right.
Qed.

Lemma moved_flags F F' self nc pos : moved F F' self nc pos -> flags_from F F'.
Proof.
  intros (s & F0 & Tp & bp & F2 & Hs & HD & HP & Hself & ->) T' HT'.
  pose proof (detached_flags _ _ _ _ HD) as Fl.
  destruct HT' as [HT'|HT'].
  - injection HT' as E1 E2. apply orb_false_iff in E2. destruct E2 as [E2 _]. subst bp T'.
    destruct (Fl Tp) as (T & HT & ET). { eapply Permutation_in; [symmetry; exact HP|]. now left. }
    exists T. split; [exact HT|]. rewrite ET. now rewrite insert_sub_rid.
  - apply Fl. eapply Permutation_in; [symmetry; exact HP|]. now right.
Qed.

Definition eff_pos (h : heap) (self nc pos : nat) : nat :=
  match par (h nc) with
  | Some p =>
      if Nat.eqb p self then
        match index_of nc (kids (h self)) with
        | Some cur => if Nat.ltb cur pos then pred pos else pos
        | None => pos
        end
      else pos
  | None => pos
  end.

Theorem insert1_move_rep : forall F h self position nc fuel h',
  rep F h -> In self (fids F) -> In nc (fids F) -> is_tag h self = true ->
  ~ anc h nc self -> unlinked_ok F nc -> length (fids F) <= fuel ->
  insert1 fuel h self position nc = Some h' ->
  let pos := Nat.min position (length (kids (h self))) in
  (h' = h /\ par (h nc) = Some self /\ index_of nc (kids (h self)) = Some pos) \/
  (exists F', rep F' h' /\ moved F F' self nc (eff_pos h self nc pos)).
Proof.
  intros F h self position nc fuel h' R Hself Hnc Htag Hanc Hun Hfuel Hins pos.
  assert (Hne : nc <> self) by (intros ->; apply Hanc; constructor).
  assert (HLen : forall F', Permutation F F' -> length (fids F') <= fuel).
  { intros F' HP. rewrite <- (Permutation_length (fids_perm _ _ HP)). exact Hfuel. }
  destruct (par (h nc)) as [p|] eqn:Hpar.
  - (* nc has a parent: it is extracted first *)
    destruct (inner_extract F h nc p fuel R Hnc Hpar Hfuel) as (T & b & F1 & T' & s & HP & Hr & Erem & Hs & HsT & R1 & _).
    remember (extract fuel h nc) as h1 eqn:Eh1.
    pose proof (rep_perm _ _ _ HP R) as RT. pose proof (rep_head _ _ _ _ RT) as RT1.
    destruct (remove_pre nc T T' s Hr Erem) as (_ & HrT' & A & B & EA & EB).
    assert (Hself0 : In self (fids ((T', b) :: F1))).
    { pose proof (Permutation_in self (fids_perm _ _ HP) Hself) as H0. rewrite fids_cons in H0 |- *.
      apply in_app_or in H0. apply in_or_app. destruct H0 as [H0|H0]; [left|now right].
      rewrite EA in H0. rewrite EB. rewrite !in_app_iff in H0. rewrite in_app_iff.
      destruct H0 as [H0|[H0|H0]]; [now left| |now right].
      exfalso. apply Hanc. rewrite <- Hs. apply pre_sub_anc; [|exact H0].
      intros t Ht. apply RT1. apply (InsertRep.subterms_trans T s t); assumption. }
    destruct (forest_split _ self Hself0) as (Tp & bp & F2 & HP0 & HselfTp).
    assert (R2 : rep ((Tp, bp) :: (s, true) :: F2) h1).
    { eapply rep_perm; [|exact R1].
      eapply perm_trans; [apply perm_swap|]. eapply perm_trans; [apply perm_skip; exact HP0|]. apply perm_swap. }
    assert (Htag1 : is_tag h1 self = true).
    { rewrite <- Htag. apply is_tag_ext. subst h1. apply meta_kind, extract_meta. }
    assert (Hpar1 : par (h1 nc) = None) by (subst h1; apply extract_par_self).
    assert (HD : detached F nc s ((T', b) :: F1)).
    { right. exists T, b, T', F1. auto. }
    assert (Claim : forall q, q <= length (kids (h1 self)) -> h' = ins_tail fuel h1 self q nc ->
              exists F', rep F' h' /\ moved F F' self nc q).
    { intros q Hq ->.
      pose proof (insert1_root fuel h1 self q nc Hne Hpar1 Hq) as Hi.
      pose proof (insert1_rep F2 Tp bp s h1 self q fuel (ins_tail fuel h1 self q nc) R2 HselfTp Htag1) as HR.
      cbv zeta in HR. rewrite (Nat.min_l _ _ Hq), Hs in HR.
      eexists. split.
      - apply HR; [|exact Hi].
        assert (HL : length (fids ((Tp, bp) :: (s, true) :: F2)) <= fuel).
        { assert (HPa : Permutation ((T', b) :: (s, true) :: F1) ((Tp, bp) :: (s, true) :: F2)).
          { eapply perm_trans; [apply perm_swap|]. eapply perm_trans; [apply perm_skip; exact HP0|]. apply perm_swap. }
          rewrite <- (Permutation_length (fids_perm _ _ HPa)).
          pose proof (detached_perm _ _ _ _ HD Hs) as P1.
          rewrite !fids_cons. rewrite !fids_cons in P1. apply Permutation_length in P1.
          rewrite !app_length in P1 |- *. lia. }
        rewrite !fids_cons, !app_length in HL. lia.
      - exists s, ((T', b) :: F1), Tp, bp, F2. repeat (split; [assumption|]). reflexivity. }
    assert (Hk_other : p <> self -> kids (h1 self) = kids (h self)).
    { intros Hps. subst h1. rewrite extract_kids, Hpar.
      destruct (index_of nc (kids (h p))); [|reflexivity].
      apply Nat.eqb_neq in Hps. rewrite Nat.eqb_sym in Hps. now rewrite Hps. }
    rewrite insert1_eq in Hins. apply Nat.eqb_neq in Hne. rewrite Hne, Hpar in Hins. cbv zeta in Hins.
    fold pos in Hins. unfold eff_pos. rewrite Hpar.
    assert (Hpos : pos <= length (kids (h self))) by (unfold pos; lia).
    destruct (Nat.eqb_spec p self) as [->|Hps].
    + destruct (index_of nc (kids (h self))) as [cur|] eqn:Eidx.
      * assert (Hcur : cur < length (kids (h self))).
        { apply index_of_nth in Eidx. apply nth_error_Some. congruence. }
        assert (Hk1 : length (kids (h1 self)) = pred (length (kids (h self)))).
        { subst h1. rewrite extract_kids, Hpar, Eidx, Nat.eqb_refl. now apply remove_at_length. }
        destruct (Nat.ltb_spec cur pos) as [Hlt|Hge].
        -- right. apply Claim; [lia | congruence].
        -- destruct (Nat.eqb_spec cur pos) as [->|Hcp].
           ++ left. split; [congruence|]. split; reflexivity.
           ++ right. apply Claim; [lia | congruence].
      * right. apply Claim; [|congruence].
        subst h1. rewrite extract_kids, Hpar, Eidx. exact Hpos.
    + right. apply Claim; [|congruence]. rewrite (Hk_other Hps). exact Hpos.
  - (* nc is a root *)
    right. unfold eff_pos. rewrite Hpar.
    destruct (forest_split F nc Hnc) as (Tn & bn & F1 & HP & HncT).
    pose proof (rep_perm _ _ _ HP R) as RT. pose proof (rep_head _ _ _ _ RT) as RT1.
    assert (Hroot : nc = rid Tn).
    { destruct RT1 as (Hok & Hr & _). eapply par_none_root; eauto. }
    assert (Hself0 : In self (fids F1)).
    { pose proof (Permutation_in self (fids_perm _ _ HP) Hself) as H0. rewrite fids_cons in H0.
      apply in_app_or in H0. destruct H0 as [H0|H0]; [|exact H0].
      exfalso. apply Hanc. rewrite Hroot. apply pre_sub_anc; [apply RT1 | exact H0]. }
    destruct (forest_split _ self Hself0) as (Tp & bp & F2 & HP0 & HselfTp).
    assert (Hflag : bn = true \/ tkids Tn = []).
    { destruct bn; [now left|right]. apply Hun; [|now symmetry].
      eapply Permutation_in; [symmetry; exact HP|]. now left. }
    assert (R2 : rep ((Tp, bp) :: (Tn, true) :: F2) h).
    { eapply rep_perm; [apply perm_swap|].
      assert (R3 : rep ((Tn, bn) :: (Tp, bp) :: F2) h).
      { eapply rep_perm; [|exact RT]. apply perm_skip. exact HP0. }
      destruct Hflag as [->|Hk]; [exact R3|]. eapply rep_reflag; eauto. }
    rewrite Hroot in Hins.
    pose proof (insert1_rep F2 Tp bp Tn h self position fuel h' R2 HselfTp Htag) as HR.
    cbv zeta in HR. fold pos in HR.
    eexists. split.
    + apply HR; [|exact Hins].
      assert (HPa : Permutation F ((Tp, bp) :: (Tn, bn) :: F2)).
      { eapply perm_trans; [exact HP|]. eapply perm_trans; [apply perm_skip; exact HP0|]. apply perm_swap. }
      pose proof (HLen _ HPa) as HL. rewrite !fids_cons, !app_length in HL. lia.
    + exists Tn, F1, Tp, bp, F2. split; [now symmetry|]. split; [|auto].
      left. exists bn. auto.
Qed.

Print Assumptions insert1_move_rep.

(* the same, keeping only what a caller that does not care about the shape needs *)
Corollary insert1_move_rep_perm : forall F h self position nc fuel h',
  rep F h -> In self (fids F) -> In nc (fids F) -> is_tag h self = true ->
  ~ anc h nc self -> unlinked_ok F nc -> length (fids F) <= fuel ->
  insert1 fuel h self position nc = Some h' ->
  exists F', rep F' h' /\ Permutation (fids F') (fids F) /\ flags_from F F'.
Proof.
  intros F h self position nc fuel h' R Hs Hn Ht Ha Hu Hf Hi.
  destruct (insert1_move_rep F h self position nc fuel h' R Hs Hn Ht Ha Hu Hf Hi) as [(-> & _)|(F' & R' & Hm)].
  - exists F. split; [exact R|]. split; [apply Permutation_refl|]. intros T HT. exists T. auto.
  - exists F'. split; [exact R'|]. split; [apply (moved_perm _ _ _ _ _ (proj1 R) Hm) | apply (moved_flags _ _ _ _ _ Hm)].
Qed.
Print Assumptions insert1_move_rep_perm.
